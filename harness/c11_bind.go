package main

import (
	"database/sql/driver"
	"encoding/json"
	"fmt"
	"math/rand"
	"reflect"
	"sort"
	"strings"
	"sync"
	"time"

	"gorm.io/gorm/schema"
)

// C11 correspondence suite bind-resolve: WHERE gorm finds a relation's key field when relation and key sit in nested embedded
// structs.  Real schema.Parse + Schema.LookUpFieldByBindName / LookUpField / the foreign key guessRelation settles on
//   vs  Lean Gorm.lookUpFieldByBindName / lookUpField / guessForeign (Model/BindLookup.lean) over the DECLARED field list, which
// the harness reads off the Go type itself (own depth-first walk: declaration order, bind paths), independent of the parser;
// only the column names are taken from the parsed fields.
//   zoo       : every model of every family (D and E carry the nested ones): all (bind path, name) pairs, all names, every
//               relation whose key is found by convention (no foreignKey / references / many2many / polymorphic tag)
//   generated : reflect.StructOf models — a random tree of `embedded` structs up to four levels deep (value / pointer, with /
//               without prefix), key-like fields (ZoneID, ZoneId, LandID, SpotID …) sprinkled over all levels incl. the top one
//               (declared before or after the nested structs), now and then a column literally named like the snake candidate,
//               and the relations Zone / Land / Spot each declared at a random node

type c11Decl struct {
	Bind []string
	Rel  bool // struct / slice-of-struct field that is not embedded (a relation)
}

var c11ValuerT = reflect.TypeOf((*driver.Valuer)(nil)).Elem()

func c11TagKeys(sf reflect.StructField) map[string]string {
	out := map[string]string{}
	for _, part := range strings.Split(sf.Tag.Get("gorm"), ";") {
		kv := strings.SplitN(part, ":", 2)
		k := strings.ToUpper(strings.TrimSpace(kv[0]))
		if k == "" {
			continue
		}
		v := ""
		if len(kv) == 2 {
			v = kv[1]
		}
		out[k] = v
	}
	return out
}

// depth-first walk of a model type in declaration order
func c11DeclWalk(t reflect.Type, prefix []string, out *[]c11Decl) {
	for i := 0; i < t.NumField(); i++ {
		sf := t.Field(i)
		if sf.PkgPath != "" {
			continue
		}
		bind := append(append([]string{}, prefix...), sf.Name)
		ft := sf.Type
		for ft.Kind() == reflect.Ptr {
			ft = ft.Elem()
		}
		_, tagged := c11TagKeys(sf)["EMBEDDED"]
		plainStruct := ft.Kind() == reflect.Struct && ft != reflect.TypeOf(time.Time{}) && !ft.Implements(c11ValuerT) && !reflect.PointerTo(ft).Implements(c11ValuerT)
		switch {
		case plainStruct && (tagged || sf.Anonymous):
			c11DeclWalk(ft, bind, out)
		case plainStruct, ft.Kind() == reflect.Slice && ft.Elem().Kind() != reflect.Uint8:
			*out = append(*out, c11Decl{Bind: bind, Rel: true})
		default:
			*out = append(*out, c11Decl{Bind: bind})
		}
	}
}

// the declared column-backed fields as Lean BFields ([[bind…], db]…); "" when walk and parser disagree on the field set
func c11BFields(s *schema.Schema, decls []c11Decl) ([]interface{}, string) {
	byBind := map[string]*schema.Field{}
	for _, f := range s.Fields {
		byBind[strings.Join(f.BindNames, ".")] = f
	}
	out := []interface{}{}
	seenDB := map[string]bool{}
	n := 0
	for _, d := range decls {
		f := byBind[strings.Join(d.Bind, ".")]
		if f == nil {
			return nil, "declared field " + strings.Join(d.Bind, ".") + " is not in Schema.Fields"
		}
		n++
		if f.DBName == "" {
			continue
		}
		if seenDB[f.DBName] {
			return nil, "column " + f.DBName + " declared twice (outside the model's assumption)"
		}
		seenDB[f.DBName] = true
		out = append(out, []interface{}{d.Bind, f.DBName})
	}
	if n != len(s.Fields) {
		return nil, fmt.Sprintf("walk found %d fields, Schema.Fields has %d", n, len(s.Fields))
	}
	return out, ""
}

func c11BindOf(f *schema.Field) interface{} {
	if f == nil {
		return nil
	}
	return strings.Join(f.BindNames, ".")
}

type c11BindPend struct {
	batch     []c11BindPend // answers of one bind.batch op
	key, what string
	real      interface{}
	input     interface{}
}

// all lookups on one parsed schema
func c11BindOps(r *Result, label string, s *schema.Schema, typ reflect.Type, parseChild func(*schema.Relationship) ([]interface{}, string), ops *[][]interface{}, pend *[]c11BindPend, rng *rand.Rand, budget int) {
	var decls []c11Decl
	c11DeclWalk(typ, nil, &decls)
	fields, bad := c11BFields(s, decls)
	if bad != "" {
		r.H("bind.skipped", bad)
		return
	}
	nameSet := map[string]bool{"Nope": true, "ID": true, "id": true}
	var paths [][]string
	for _, f := range s.Fields {
		nameSet[f.Name] = true
		if f.DBName != "" {
			nameSet[f.DBName] = true
		}
		paths = append(paths, f.BindNames)
	}
	for _, f := range s.Fields { // relation fields are entered into FieldsByName after the field loop: outside the model
		if f.DBName == "" {
			delete(nameSet, f.Name)
		}
	}
	var names []string
	for n := range nameSet {
		names = append(names, n)
	}
	sort.Strings(names)
	type q struct {
		bn   []string
		name string
	}
	var qs []q
	for _, p := range paths {
		for _, n := range names {
			qs = append(qs, q{p, n})
		}
	}
	if budget > 0 && len(qs) > budget {
		rng.Shuffle(len(qs), func(i, j int) { qs[i], qs[j] = qs[j], qs[i] })
		qs = qs[:budget]
	}
	var batch []interface{}
	var batchPend []c11BindPend
	for _, x := range qs {
		var real *schema.Field
		if pn := c11Safely(func() { real = s.LookUpFieldByBindName(x.bn, x.name) }); pn != nil {
			r.Violate(Violation{Kind: "correspondence", Suite: "bind-resolve", Input: label, Observed: fmt.Sprint("panic: ", pn)})
			continue
		}
		batch = append(batch, []interface{}{x.bn, x.name})
		lvl := "none"
		if real != nil {
			lvl = fmt.Sprintf("level%d/of%d", len(real.BindNames)-1, len(x.bn)-1)
		}
		r.H("bind.lookup", lvl)
		batchPend = append(batchPend, c11BindPend{key: label + "|" + strings.Join(x.bn, ".") + "|" + x.name, what: "LookUpFieldByBindName", real: c11BindOf(real),
			input: map[string]interface{}{"model": label, "fields": fields, "bindNames": x.bn, "name": x.name}})
	}
	for _, n := range names {
		batch = append(batch, []interface{}{nil, n})
		batchPend = append(batchPend, c11BindPend{key: label + "|*|" + n, what: "LookUpField", real: c11BindOf(s.LookUpField(n)),
			input: map[string]interface{}{"model": label, "fields": fields, "name": n}})
	}
	*ops = append(*ops, []interface{}{"bind.batch", fields, batch})
	*pend = append(*pend, c11BindPend{batch: batchPend})
	ns := schema.NamingStrategy{}
	var relNames []string
	for n := range s.Relationships.Relations {
		relNames = append(relNames, n)
	}
	sort.Strings(relNames)
	for _, rn := range relNames {
		rel := s.Relationships.Relations[rn]
		if rel.Schema != s || strings.HasPrefix(rn, "_") || len(rel.References) != 1 || rel.References[0].PrimaryKey == nil {
			continue
		}
		tags := c11TagKeysOf(rel.Field)
		if tags["REFERENCES"] || tags["MANY2MANY"] || tags["POLYMORPHIC"] || tags["POLYMORPHICTYPE"] {
			continue
		}
		ref := rel.References[0]
		if tags["FOREIGNKEY"] {
			// an explicit `foreignKey:X` is resolved model-wide by LookUpField(X) on the foreign schema, wherever the relation sits
			fk := c11TagKeys(rel.Field.StructField)["FOREIGNKEY"]
			if strings.Contains(fk, ",") {
				continue
			}
			ff, bad := fields, ""
			if rel.Type != schema.BelongsTo {
				ff, bad = parseChild(rel)
			}
			if bad != "" {
				continue
			}
			op := []interface{}{"field.lookup", ff, fk}
			*ops = append(*ops, op)
			r.H("bind.guess", fmt.Sprintf("explicit-tag/relation-depth%d/key-depth%d", len(rel.Field.BindNames)-1, len(ref.ForeignKey.BindNames)-1))
			*pend = append(*pend, c11BindPend{key: label + "|tag|" + rn, what: "foreign key named by the foreignKey tag of " + rn, real: c11BindOf(ref.ForeignKey), input: map[string]interface{}{"model": label, "op": op}})
			continue
		}
		var op []interface{}
		kind := ""
		switch rel.Type {
		case schema.BelongsTo:
			kind = "belongs_to"
			op = []interface{}{"guess.fk", fields, rel.Field.BindNames, rel.Field.Name, ref.PrimaryKey.Name, ns.ColumnName(s.Table, rel.Field.Name+"ID"), len(rel.FieldSchema.PrimaryFields) == 1}
		case schema.HasOne, schema.HasMany:
			kind = "has"
			cf, bad := parseChild(rel)
			if bad != "" {
				r.H("bind.skipped", bad)
				continue
			}
			base := s.Name
			if base == "" {
				base = rel.FieldSchema.Name
			}
			op = []interface{}{"guess.fk", cf, rel.Field.BindNames, base, ref.PrimaryKey.Name, ns.ColumnName(rel.FieldSchema.Table, base+"ID"), len(s.PrimaryFields) == 1}
		default:
			continue
		}
		*ops = append(*ops, op)
		r.H("bind.guess", fmt.Sprintf("%s/relation-depth%d/key-depth%d", kind, len(rel.Field.BindNames)-1, len(ref.ForeignKey.BindNames)-1))
		*pend = append(*pend, c11BindPend{key: label + "|guess|" + rn, what: "guessRelation foreign key of " + rn, real: c11BindOf(ref.ForeignKey), input: map[string]interface{}{"model": label, "op": op}})
	}
}

func c11TagKeysOf(f *schema.Field) map[string]bool {
	out := map[string]bool{}
	for k := range c11TagKeys(f.StructField) {
		out[k] = true
	}
	return out
}

// ---- generated declarations -----------------------------------------------------------------------------------------------------

type c11GenNode struct {
	Fields []c11GenField
}

type c11GenField struct {
	Name string
	Tag  string
	Kind string // key | rel | sub | subptr
	Sub  *c11GenNode
}

var c11GenKeyNames = []string{"ZoneID", "ZoneId", "LandID", "SpotID", "SpotId", "Code"}

func c11GenTree(rng *rand.Rand, depth int, col *int, nodes *[]*c11GenNode) *c11GenNode {
	n := &c11GenNode{}
	*nodes = append(*nodes, n)
	for _, k := range c11GenKeyNames {
		if rng.Intn(5) < 2 {
			*col++
			n.Fields = append(n.Fields, c11GenField{Name: k, Tag: fmt.Sprintf(`gorm:"column:c%d"`, *col), Kind: "key"})
		}
	}
	if depth < 4 {
		for _, sn := range []string{"A", "B"} {
			if rng.Intn(3) == 0 || (sn == "A" && depth < 2 && rng.Intn(2) == 0) {
				*col++
				tag := `gorm:"embedded"`
				if rng.Intn(4) > 0 {
					tag = fmt.Sprintf(`gorm:"embedded;embeddedPrefix:p%d_"`, *col)
				}
				kind := "sub"
				if rng.Intn(3) == 0 {
					kind = "subptr"
				}
				n.Fields = append(n.Fields, c11GenField{Name: sn, Tag: tag, Kind: kind, Sub: c11GenTree(rng, depth+1, col, nodes)})
			}
		}
	}
	rng.Shuffle(len(n.Fields), func(i, j int) { n.Fields[i], n.Fields[j] = n.Fields[j], n.Fields[i] })
	return n
}

func (n *c11GenNode) typ() reflect.Type {
	var sfs []reflect.StructField
	for _, f := range n.Fields {
		sf := reflect.StructField{Name: f.Name, Tag: reflect.StructTag(f.Tag)}
		switch f.Kind {
		case "key":
			sf.Type = reflect.TypeOf((*uint)(nil))
		case "rel":
			sf.Type = reflect.TypeOf((*C11DZone)(nil))
		case "sub":
			sf.Type = f.Sub.typ()
		case "subptr":
			sf.Type = reflect.PointerTo(f.Sub.typ())
		case "id":
			sf.Type = reflect.TypeOf(uint(0))
		case "n":
			sf.Type = reflect.TypeOf(int(0))
		}
		sfs = append(sfs, sf)
	}
	return reflect.StructOf(sfs)
}

func (n *c11GenNode) describe() interface{} {
	out := []interface{}{}
	for _, f := range n.Fields {
		if f.Sub != nil {
			out = append(out, []interface{}{f.Name, f.Kind, f.Tag, f.Sub.describe()})
		} else {
			out = append(out, []interface{}{f.Name, f.Kind, f.Tag})
		}
	}
	return out
}

func c11GenModel(rng *rand.Rand) *c11GenNode {
	col := 0
	var nodes []*c11GenNode
	root := c11GenTree(rng, 0, &col, &nodes)
	// every relation at a random node; its key name also at the top level (declared first or last), so that the model-wide
	// fallback always resolves and the parser never logs an unresolvable relation
	for _, rn := range []string{"Zone", "Land", "Spot"} {
		if rng.Intn(4) == 0 {
			continue
		}
		at := nodes[rng.Intn(len(nodes))]
		pos := rng.Intn(len(at.Fields) + 1)
		rf := c11GenField{Name: rn, Kind: "rel"}
		if rng.Intn(4) == 0 {
			rf.Tag = `gorm:"foreignKey:` + rn + `ID"`
		}
		at.Fields = append(at.Fields[:pos], append([]c11GenField{rf}, at.Fields[pos:]...)...)
		has := false
		for _, f := range root.Fields {
			if f.Name == rn+"ID" {
				has = true
			}
		}
		if !has {
			col++
			kf := c11GenField{Name: rn + "ID", Tag: fmt.Sprintf(`gorm:"column:c%d"`, col), Kind: "key"}
			if rng.Intn(2) == 0 {
				root.Fields = append([]c11GenField{kf}, root.Fields...)
			} else {
				root.Fields = append(root.Fields, kf)
			}
		}
	}
	if rng.Intn(5) == 0 { // a column literally named like the snake-case candidate
		f := c11GenField{Name: "Other", Tag: `gorm:"column:` + []string{"zone_id", "land_id"}[rng.Intn(2)] + `"`, Kind: "key"}
		at := nodes[rng.Intn(len(nodes))]
		if at != root && rng.Intn(2) == 0 {
			at = root
		}
		at.Fields = append(at.Fields, f)
	}
	root.Fields = append([]c11GenField{{Name: "ID", Tag: `gorm:"primaryKey;column:id"`, Kind: "id"}, {Name: "N", Tag: `gorm:"column:n"`, Kind: "n"}}, root.Fields...)
	return root
}

func c11BindResolveSuite(r *Result, rng *rand.Rand, tier string) {
	var ops [][]interface{}
	var pend []c11BindPend
	// zoo
	var fams []string
	for fn := range c11Families {
		fams = append(fams, fn)
	}
	sort.Strings(fams)
	for _, fn := range fams {
		f := c11Families[fn]
		for _, t := range f.Tables {
			if t.Model == nil {
				continue
			}
			s := c11Schema(t)
			parseChild := func(rel *schema.Relationship) ([]interface{}, string) {
				var d []c11Decl
				c11DeclWalk(rel.FieldSchema.ModelType, nil, &d)
				return c11BFields(rel.FieldSchema, d)
			}
			c11BindOps(r, t.Name, s, t.typ(), parseChild, &ops, &pend, rng, 0)
		}
	}
	// generated
	n := 120
	if tier == "thorough" {
		n = 2500
	}
	for i := 0; i < n && !expired(); i++ {
		root := c11GenModel(rng)
		typ := root.typ()
		var s *schema.Schema
		var err error
		if pn := c11Safely(func() { s, err = schema.Parse(reflect.New(typ).Interface(), &sync.Map{}, schema.NamingStrategy{}) }); pn != nil {
			err = fmt.Errorf("panic: %v", pn)
		}
		label := fmt.Sprintf("generated#%d", i)
		if err != nil {
			r.Violate(Violation{Kind: "correspondence", Suite: "bind-resolve", Input: map[string]interface{}{"model": label, "declaration": root.describe()}, Observed: err.Error(), Expected: "the model parses: every relation's key name is declared at the top level",
				Note: "schema.Parse of a generated nested declaration"})
			continue
		}
		before := len(pend)
		c11BindOps(r, label, s, typ, func(*schema.Relationship) ([]interface{}, string) { return nil, "no has-relations generated" }, &ops, &pend, rng, 60)
		for k := before; k < len(pend); k++ {
			for _, bp := range append([]c11BindPend{pend[k]}, pend[k].batch...) {
				if m, ok := bp.input.(map[string]interface{}); ok {
					m["declaration"] = root.describe()
				}
			}
		}
	}
	outs, err := AskLean(ops)
	if err != nil {
		r.Violate(Violation{Kind: "correspondence", Suite: "bind-resolve", Note: err.Error()})
		return
	}
	bad := 0
	type one struct {
		p    c11BindPend
		want interface{}
	}
	var all []one
	for i, p := range pend {
		if p.batch != nil {
			var wants []interface{}
			_ = json.Unmarshal(outs[i], &wants)
			if len(wants) != len(p.batch) {
				r.Violate(Violation{Kind: "correspondence", Suite: "bind-resolve", Note: "bind.batch: bad answer " + string(outs[i])})
				continue
			}
			for k, bp := range p.batch {
				all = append(all, one{bp, wants[k]})
			}
			continue
		}
		var want interface{}
		_ = json.Unmarshal(outs[i], &want)
		all = append(all, one{p, want})
	}
	for _, o := range all {
		p, want := o.p, o.want
		r.CorrCompared++
		r.Case("bind-resolve", p.key, p.real != nil)
		if canon(want) != canon(p.real) {
			bad++
			if bad <= 6 {
				r.Violate(Violation{Kind: "correspondence", Suite: "bind-resolve", Input: p.input, Observed: p.real, Expected: want,
					Note: "real schema." + p.what + " (bind path of the field answered) vs Lean Gorm.lookUpFieldByBindName / lookUpField / guessForeign over the declared field list: the closest enclosing struct's field wins, then column name, then the last declared field of that Go name"})
			}
		}
	}
	if bad > 6 {
		r.Note("bind-resolve: %d differing lookups in total", bad)
	}
}

func init() {
	register("C11", c11BindResolveSuite)
	replayers["C11/bind-resolve"] = func(r *Result, input json.RawMessage) { r.Note("bind-resolve replays are correspondence-only: rerun the suite") }
}
