package main

import (
	"crypto/sha1"
	"encoding/hex"
	"encoding/json"
	"fmt"
	"os"
	"path/filepath"
	"sort"
	"sync"
)

// Violation = a concrete failing input found on the real code (kind "e2e") or a
// model/implementation disagreement (kind "correspondence").
type Violation struct {
	Property string      `json:"property"`
	Kind     string      `json:"kind"` // e2e | correspondence
	Suite    string      `json:"suite"`
	Seed     int64       `json:"seed"`
	Input    interface{} `json:"input"`
	Observed interface{} `json:"observed"`
	Expected interface{} `json:"expected"`
	Note     string      `json:"note,omitempty"`
	Replay   string      `json:"replay,omitempty"`
}

type Known struct {
	ID   string `json:"id"`
	What string `json:"what"`
	N    int    `json:"n"`
}

type Result struct {
	mu           sync.Mutex
	Property     string                    `json:"property"`
	Tier         string                    `json:"tier"`
	Seed         int64                     `json:"seed"`
	Evaluations  int                       `json:"evaluations"`
	Nontrivial   int                       `json:"distinct_nontrivial"`
	Rule         string                    `json:"rule"`
	Samples      []interface{}             `json:"samples"`
	Hist         map[string]map[string]int `json:"histograms"`
	Suites       map[string]int            `json:"suites"`
	Exhaustive   bool                      `json:"exhaustive"`
	Violations   []Violation               `json:"violations"`
	Known        []Known                   `json:"known_findings"`
	CorrDiffs    int                       `json:"correspondence_disagreements"`
	CorrCompared int                       `json:"correspondence_compared"`
	Notes        []string                  `json:"notes"`
	distinct     map[string]struct{}
	knownIdx     map[string]int
	replayDir    string
}

func NewResult(prop, tier string, seed int64, replayDir string) *Result {
	return &Result{Property: prop, Tier: tier, Seed: seed, Hist: map[string]map[string]int{},
		Suites: map[string]int{}, distinct: map[string]struct{}{}, knownIdx: map[string]int{}, replayDir: replayDir}
}

// Case counts one evaluated case; key identifies it for distinctness; nontrivial per the stated rule.
func (r *Result) Case(suite, key string, nontrivial bool) {
	r.mu.Lock()
	defer r.mu.Unlock()
	r.Evaluations++
	r.Suites[suite]++
	if nontrivial {
		k := suite + "\x00" + key
		if _, ok := r.distinct[k]; !ok {
			r.distinct[k] = struct{}{}
			r.Nontrivial++
		}
	}
}

func (r *Result) H(hist, bucket string) {
	r.mu.Lock()
	defer r.mu.Unlock()
	m := r.Hist[hist]
	if m == nil {
		m = map[string]int{}
		r.Hist[hist] = m
	}
	m[bucket]++
}

func (r *Result) Sample(s interface{}) {
	r.mu.Lock()
	defer r.mu.Unlock()
	if len(r.Samples) < 6 {
		r.Samples = append(r.Samples, s)
	}
}

func (r *Result) Note(format string, a ...interface{}) {
	r.mu.Lock()
	defer r.mu.Unlock()
	if len(r.Notes) < 50 {
		r.Notes = append(r.Notes, fmt.Sprintf(format, a...))
	}
}

func (r *Result) KnownFinding(id, what string) {
	r.mu.Lock()
	defer r.mu.Unlock()
	if i, ok := r.knownIdx[id]; ok {
		r.Known[i].N++
		return
	}
	r.knownIdx[id] = len(r.Known)
	r.Known = append(r.Known, Known{ID: id, What: what, N: 1})
}

func (r *Result) Violate(v Violation) {
	r.mu.Lock()
	defer r.mu.Unlock()
	v.Property = r.Property
	v.Seed = r.Seed
	if v.Kind == "correspondence" {
		r.CorrDiffs++
	}
	// keep at most 5 per (kind,suite) to bound output; first ones are written as replay files
	n := 0
	for _, o := range r.Violations {
		if o.Kind == v.Kind && o.Suite == v.Suite {
			n++
		}
	}
	if n >= maxViol() {
		return
	}
	b, _ := json.MarshalIndent(v, "", " ")
	h := sha1.Sum(b)
	name := fmt.Sprintf("%s-%s-%s.json", r.Property, v.Kind, hex.EncodeToString(h[:5]))
	_ = os.MkdirAll(r.replayDir, 0o755)
	p := filepath.Join(r.replayDir, name)
	v.Replay = p
	b, _ = json.MarshalIndent(v, "", " ")
	_ = os.WriteFile(p, b, 0o644)
	r.Violations = append(r.Violations, v)
}

func (r *Result) Write(path string) error {
	r.mu.Lock()
	defer r.mu.Unlock()
	sort.Slice(r.Known, func(i, j int) bool { return r.Known[i].ID < r.Known[j].ID })
	if r.Samples == nil {
		r.Samples = []interface{}{}
	}
	if r.Violations == nil {
		r.Violations = []Violation{}
	}
	if r.Known == nil {
		r.Known = []Known{}
	}
	b, err := json.MarshalIndent(r, "", " ")
	if err != nil {
		return err
	}
	return os.WriteFile(path, b, 0o644)
}

func maxViol() int {
	if v := os.Getenv("VERIF_MAXVIOL"); v != "" {
		var n int
		fmt.Sscan(v, &n)
		if n > 0 {
			return n
		}
	}
	return 5
}
