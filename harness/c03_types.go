package main

// C03: library of named types whose Scan / serializer methods are INCREMENTAL (they fill the receiver instead of
// replacing it, and ignore NULL).  With such types a value loaded from the database is only right when gorm hands
// every row a fresh receiver; any pooled / reused scan state shows up as values leaking from one row into the next
// or as backing arrays shared between rows.  Also the named relation family with CROSSING names used by the Joins
// read path (column of one field = Go name of another).

import (
	"context"
	"database/sql/driver"
	"encoding/json"
	"fmt"
	"reflect"

	"gorm.io/gorm/schema"
)

func c03Bytes(v interface{}) ([]byte, bool, error) {
	switch x := v.(type) {
	case nil:
		return nil, false, nil
	case []byte:
		return x, true, nil
	case string:
		return []byte(x), true, nil
	}
	return nil, false, fmt.Errorf("c03: cannot scan %T", v)
}

// CSelfDoc is its own serializer (`*CSelfDoc` implements schema.SerializerInterface): stored as a JSON object
// with absent keys for zero members, Scan = json.Unmarshal INTO the receiver, NULL leaves the receiver alone.
type CSelfDoc struct {
	Theme string         `json:"theme,omitempty"`
	Tags  []string       `json:"tags,omitempty"`
	Level int            `json:"level,omitempty"`
	Attr  map[string]int `json:"attr,omitempty"`
	Sub   *CSelfSub      `json:"sub,omitempty"`
}
type CSelfSub struct {
	A int      `json:"a,omitempty"`
	L []string `json:"l,omitempty"`
}

func (d *CSelfDoc) Scan(ctx context.Context, field *schema.Field, dst reflect.Value, dbValue interface{}) error {
	b, ok, err := c03Bytes(dbValue)
	if err != nil || !ok {
		return err
	}
	return json.Unmarshal(b, d)
}

func (d *CSelfDoc) Value(ctx context.Context, field *schema.Field, dst reflect.Value, fieldValue interface{}) (interface{}, error) {
	switch x := fieldValue.(type) {
	case CSelfDoc:
		b, err := json.Marshal(x)
		return string(b), err
	case *CSelfDoc:
		if x == nil {
			return nil, nil
		}
		b, err := json.Marshal(*x)
		return string(b), err
	}
	return nil, fmt.Errorf("CSelfDoc: unexpected field value %T", fieldValue)
}

// CSelfList: a slice type that is its own serializer; json.Unmarshal into the receiver re-uses the receiver's
// backing array when its capacity suffices.
type CSelfList []string

func (l *CSelfList) Scan(ctx context.Context, field *schema.Field, dst reflect.Value, dbValue interface{}) error {
	b, ok, err := c03Bytes(dbValue)
	if err != nil || !ok {
		return err
	}
	return json.Unmarshal(b, (*[]string)(l))
}

func (l *CSelfList) Value(ctx context.Context, field *schema.Field, dst reflect.Value, fieldValue interface{}) (interface{}, error) {
	var s []string
	switch x := fieldValue.(type) {
	case CSelfList:
		s = x
	case *CSelfList:
		if x != nil {
			s = *x
		}
	default:
		return nil, fmt.Errorf("CSelfList: unexpected field value %T", fieldValue)
	}
	if s == nil {
		return nil, nil
	}
	b, err := json.Marshal(s)
	return string(b), err
}

// CSelfCount: a scalar that is its own serializer and keeps receiver state: Scan ADDS what it reads to the
// receiver (a fresh receiver holds 0, so a fresh receiver reads back the stored number).
type CSelfCount struct{ N int64 }

func (c *CSelfCount) Scan(ctx context.Context, field *schema.Field, dst reflect.Value, dbValue interface{}) error {
	switch x := dbValue.(type) {
	case nil:
	case int64:
		c.N += x
	default:
		return fmt.Errorf("CSelfCount: cannot scan %T", dbValue)
	}
	return nil
}

func (c *CSelfCount) Value(ctx context.Context, field *schema.Field, dst reflect.Value, fieldValue interface{}) (interface{}, error) {
	switch x := fieldValue.(type) {
	case CSelfCount:
		return x.N, nil
	case *CSelfCount:
		if x == nil {
			return nil, nil
		}
		return x.N, nil
	}
	return nil, fmt.Errorf("CSelfCount: unexpected field value %T", fieldValue)
}

// CSparse: sql.Scanner / driver.Valuer struct with incremental Scan (json.Unmarshal into the receiver, NULL and
// absent keys leave the receiver alone); the zero value is stored as NULL.
type CSparse struct {
	A *int     `json:"a,omitempty"`
	B string   `json:"b,omitempty"`
	L []string `json:"l,omitempty"`
}

func (s CSparse) Value() (driver.Value, error) {
	if s.A == nil && s.B == "" && s.L == nil {
		return nil, nil
	}
	b, err := json.Marshal(s)
	return string(b), err
}

func (s *CSparse) Scan(v interface{}) error {
	b, ok, err := c03Bytes(v)
	if err != nil || !ok {
		return err
	}
	return json.Unmarshal(b, s)
}

// CAccum: Scanner that keeps receiver state — every Scan appends to the receiver's history; the value is the last
// entry.  Only the last entry is stored; a fresh receiver therefore reads back a history of length one.
type CAccum struct{ Hist []int64 }

func (a CAccum) Value() (driver.Value, error) {
	if len(a.Hist) == 0 {
		return nil, nil
	}
	return a.Hist[len(a.Hist)-1], nil
}

func (a *CAccum) Scan(v interface{}) error {
	switch x := v.(type) {
	case nil:
	case int64:
		a.Hist = append(a.Hist, x)
	default:
		return fmt.Errorf("CAccum: cannot scan %T", v)
	}
	return nil
}

// SerSparse: plain struct for `serializer:json` whose members are omitted when zero
type SerSparse struct {
	K string         `json:"k,omitempty"`
	N *int           `json:"n,omitempty"`
	L []int          `json:"l,omitempty"`
	M map[string]int `json:"m,omitempty"`
}

// embedded struct used with an upper-case prefix (its column names then look like Go identifiers)
type EmbC struct {
	Ea int32
	Eb string
}

// ---- relation family with crossing names (Joins read path) ----

type C03JDeep struct {
	ID   uint
	Code string `gorm:"column:Note"`
	Note string `gorm:"column:Code"`
	Rank *int64 `gorm:"column:Level"`
}

type C03JRef struct {
	ID     uint
	Title  string `gorm:"column:Label"`
	Label  string `gorm:"column:Title"`
	Level  int    `gorm:"column:the_level"`
	Tags   CSelfList
	DeepID *uint
	Deep   *C03JDeep
}

type C03JOwner struct {
	ID          uint
	Name        string `gorm:"column:DisplayName"`
	LegacyName  string `gorm:"column:Name"`
	DisplayName string `gorm:"column:legacy_name"`
	RefID       *uint
	Ref         *C03JRef
	Doc         CSelfDoc
}
