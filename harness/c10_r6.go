package main

// C10 round 6 — "exactly the targeted rows" when the chain's conditions are a real boolean FORMULA (suite chain-rows).
//
// Dimension: the row-targeting suites (table-diff, key-rows, rowsel) give the chain one conjunctive condition
// (`k_ IN ?`) on models without schema-level clauses.  Here: plain AND soft-delete models (gorm.DeletedAt under its
// conventional name, renamed column, zeroValue tag, embedded gorm.Model, embedded base struct; int / string / composite keys)
//   x chains of Where / Or / Not steps over string, map, struct, clause.* and group (`db.Where(a).Or(b)`) conditions,
//     a suffix of the chain optionally supplied through Scopes, an inline condition on Delete
//   x key via Model(&keyed) / via the written or deleted value itself / none / a key no row has / a soft-deleted row's key
//   x Update, UpdateColumn, Updates / UpdateColumns with map and struct, Update with an expression, Updates(&self), Delete
//   x Unscoped or not x plain handle / db.Transaction / Begin…Commit / Session{PrepareStmt} / Session{SkipDefaultTransaction}.
// Judged on the WHOLE table (8 rows, two of them soft-deleted on soft models) against the reference
//     target = { rows satisfying (chain formula) AND key AND (not soft-deleted unless Unscoped / plain model) }
// where the chain formula is the sequence of steps with SQL precedence (AND binds tighter than OR; every step is one
// unit; the first step is never an Or).  Rows outside target never change in ANY column; rows inside carry the written
// value (update) / are soft-deleted / are gone (delete); RowsAffected = |target|.
//
// Listed finding F36 (unchanged gorm): on every path but the soft-delete UPDATE the key condition is appended to the
// flat expression list without grouping the chain — `a OR b AND id = 3` — so the key binds to the last AND-run only.
// The pattern (top-level Or in the chain, key given, not a scoped soft-delete update, and the table equals the
// un-grouped reading exactly) is reported as KNOWN-FINDING; everything else is a VIOLATION.

import (
	"database/sql"
	"encoding/json"
	"fmt"
	"math/rand"
	"reflect"
	"sort"
	"strings"
	"time"

	"gorm.io/gorm"
	"gorm.io/gorm/clause"
)

const c10F36 = "F36-C10-or-chain-key-not-grouped"

type c10RPlain struct {
	ID        uint `gorm:"primaryKey"`
	Grp       int
	Qty       int
	Name      string
	UpdatedAt time.Time
}
type c10RPlainComp struct {
	A    uint   `gorm:"primaryKey;autoIncrement:false"`
	B    string `gorm:"primaryKey"`
	Grp  int
	Qty  int
	Name string
}
type c10RSoft struct {
	ID        uint `gorm:"primaryKey"`
	Grp       int
	Qty       int
	Name      string
	UpdatedAt time.Time
	DeletedAt gorm.DeletedAt
}
type c10RSoftStr struct {
	Code      string `gorm:"primaryKey"`
	Grp       int
	Qty       int
	Name      string
	DeletedAt gorm.DeletedAt
}
type c10RSoftComp struct {
	A         uint   `gorm:"primaryKey;autoIncrement:false"`
	B         string `gorm:"primaryKey"`
	Grp       int
	Qty       int
	Name      string
	DeletedAt gorm.DeletedAt
}
type c10RSoftCol struct {
	ID   uint `gorm:"column:uid;primaryKey"`
	Grp  int
	Qty  int
	Name string
	Gone gorm.DeletedAt `gorm:"column:gone_at"`
}
type c10RSoftEmb struct {
	gorm.Model
	Grp  int
	Qty  int
	Name string
}
type c10RSoftZero struct {
	ID        uint `gorm:"primaryKey"`
	Grp       int
	Qty       int
	Name      string
	DeletedAt gorm.DeletedAt `gorm:"zeroValue:1970-01-01 00:00:01"` // live rows carry this value instead of NULL
}
type C10RBase struct {
	ID        uint `gorm:"primaryKey"`
	DeletedAt gorm.DeletedAt
}
type c10RSoftBase struct {
	C10RBase
	Grp  int
	Qty  int
	Name string
}

type c10RF struct {
	Qty, Grp int
	Name     string
}

type c10RModel struct {
	name  string
	soft  string // column of the soft-delete flag ("" = plain model)
	zero  string // zeroValue tag: what the flag column of a LIVE row holds ("" = NULL)
	updAt bool
	keys  []string                         // key columns
	keyOf func(k int) []interface{}        // key of row k (k = 9: a key no row has)
	mk    func(k int, f c10RF) interface{} // pointer to a value carrying the key of row k (0 = zero key) and f

	db    *gorm.DB
	sqlDB *sql.DB
	table string
	cols  []string
}

func c10RIntKey(k int) []interface{} {
	if k == 9 {
		return []interface{}{99}
	}
	return []interface{}{k}
}
func c10RStrKey(k int) []interface{} { return []interface{}{fmt.Sprintf("c%d", c10RIntKey(k)[0])} }
func c10RCompKey(k int) []interface{} {
	if k == 9 {
		return []interface{}{99, "x"}
	}
	return []interface{}{(k + 1) / 2, []string{"y", "x"}[k%2]}
}

var c10RModels = []*c10RModel{
	{name: "plain", updAt: true, keys: []string{"id"}, keyOf: c10RIntKey, mk: func(k int, f c10RF) interface{} {
		v := &c10RPlain{Grp: f.Grp, Qty: f.Qty, Name: f.Name}
		if k != 0 {
			v.ID = uint(c10RIntKey(k)[0].(int))
		}
		return v
	}},
	{name: "plain-comp", keys: []string{"a", "b"}, keyOf: c10RCompKey, mk: func(k int, f c10RF) interface{} {
		v := &c10RPlainComp{Grp: f.Grp, Qty: f.Qty, Name: f.Name}
		if k != 0 {
			v.A, v.B = uint(c10RCompKey(k)[0].(int)), c10RCompKey(k)[1].(string)
		}
		return v
	}},
	{name: "soft", soft: "deleted_at", updAt: true, keys: []string{"id"}, keyOf: c10RIntKey, mk: func(k int, f c10RF) interface{} {
		v := &c10RSoft{Grp: f.Grp, Qty: f.Qty, Name: f.Name}
		if k != 0 {
			v.ID = uint(c10RIntKey(k)[0].(int))
		}
		return v
	}},
	{name: "soft-str", soft: "deleted_at", keys: []string{"code"}, keyOf: c10RStrKey, mk: func(k int, f c10RF) interface{} {
		v := &c10RSoftStr{Grp: f.Grp, Qty: f.Qty, Name: f.Name}
		if k != 0 {
			v.Code = c10RStrKey(k)[0].(string)
		}
		return v
	}},
	{name: "soft-comp", soft: "deleted_at", keys: []string{"a", "b"}, keyOf: c10RCompKey, mk: func(k int, f c10RF) interface{} {
		v := &c10RSoftComp{Grp: f.Grp, Qty: f.Qty, Name: f.Name}
		if k != 0 {
			v.A, v.B = uint(c10RCompKey(k)[0].(int)), c10RCompKey(k)[1].(string)
		}
		return v
	}},
	{name: "soft-col", soft: "gone_at", keys: []string{"uid"}, keyOf: c10RIntKey, mk: func(k int, f c10RF) interface{} {
		v := &c10RSoftCol{Grp: f.Grp, Qty: f.Qty, Name: f.Name}
		if k != 0 {
			v.ID = uint(c10RIntKey(k)[0].(int))
		}
		return v
	}},
	{name: "soft-gorm-model", soft: "deleted_at", updAt: true, keys: []string{"id"}, keyOf: c10RIntKey, mk: func(k int, f c10RF) interface{} {
		v := &c10RSoftEmb{Grp: f.Grp, Qty: f.Qty, Name: f.Name}
		if k != 0 {
			v.ID = uint(c10RIntKey(k)[0].(int))
		}
		return v
	}},
	{name: "soft-zero-value", soft: "deleted_at", zero: "1970-01-01 00:00:01", keys: []string{"id"}, keyOf: c10RIntKey, mk: func(k int, f c10RF) interface{} {
		v := &c10RSoftZero{Grp: f.Grp, Qty: f.Qty, Name: f.Name}
		if k != 0 {
			v.ID = uint(c10RIntKey(k)[0].(int))
		}
		return v
	}},
	{name: "soft-embedded-base", soft: "deleted_at", keys: []string{"id"}, keyOf: c10RIntKey, mk: func(k int, f c10RF) interface{} {
		v := &c10RSoftBase{Grp: f.Grp, Qty: f.Qty, Name: f.Name}
		if k != 0 {
			v.ID = uint(c10RIntKey(k)[0].(int))
		}
		return v
	}},
}

const c10RN = 8

func c10RDeleted(k int) bool { return k == 3 || k == 6 }
func c10RRow(k int) c10RF    { return c10RF{Qty: 10 * k, Grp: k % 3, Name: fmt.Sprintf("n%d", k%4)} }

func c10RModelOf(name string) *c10RModel {
	for _, m := range c10RModels {
		if m.name == name {
			return m
		}
	}
	return nil
}

// open: one database per model for the whole run (the table is refilled before every case)
func (m *c10RModel) open() {
	if m.db != nil {
		return
	}
	db, _, sqlDB := OpenRec(&gorm.Config{NowFunc: fixedNowFunc})
	v := m.mk(0, c10RF{})
	if err := db.AutoMigrate(v); err != nil {
		panic(err)
	}
	stmt := &gorm.Statement{DB: db}
	if err := stmt.Parse(v); err != nil {
		panic(err)
	}
	m.db, m.sqlDB, m.table = db, sqlDB, stmt.Schema.Table
	m.cols = append([]string{}, stmt.Schema.DBNames...)
	if _, err := sqlDB.Exec("ALTER TABLE `" + m.table + "` ADD COLUMN k_ integer"); err != nil {
		panic(err)
	}
}

func (m *c10RModel) fill() {
	if _, err := m.sqlDB.Exec("DELETE FROM `" + m.table + "`"); err != nil {
		panic(err)
	}
	for k := 1; k <= c10RN; k++ {
		row := c10RRow(k)
		cols, ph, args := []string{"k_"}, []string{"?"}, []interface{}{k}
		for _, c := range m.cols {
			var v interface{}
			switch c {
			case "grp":
				v = row.Grp
			case "qty":
				v = row.Qty
			case "name":
				v = row.Name
			case "updated_at", "created_at":
				v = time.Date(2000, 1, k, 0, 0, 0, 0, time.UTC)
			case m.soft:
				if c10RDeleted(k) {
					v = time.Date(2001, 1, k, 0, 0, 0, 0, time.UTC)
				} else if m.zero != "" {
					v = m.zero
				}
			default:
				for j, kc := range m.keys {
					if kc == c {
						v = m.keyOf(k)[j]
					}
				}
			}
			cols, ph, args = append(cols, "`"+c+"`"), append(ph, "?"), append(args, v)
		}
		if _, err := m.sqlDB.Exec("INSERT INTO `"+m.table+"` ("+strings.Join(cols, ",")+") VALUES ("+strings.Join(ph, ",")+")", args...); err != nil {
			panic(err)
		}
	}
}

func (m *c10RModel) dump() map[int]map[string]string {
	out := map[int]map[string]string{}
	rows, err := m.sqlDB.Query("SELECT * FROM `" + m.table + "`")
	if err != nil {
		panic(err)
	}
	defer rows.Close()
	cols, _ := rows.Columns()
	extra := 100
	for rows.Next() {
		vals := make([]interface{}, len(cols))
		ptrs := make([]interface{}, len(cols))
		for i := range vals {
			ptrs[i] = &vals[i]
		}
		if err := rows.Scan(ptrs...); err != nil {
			panic(err)
		}
		r := map[string]string{}
		for i, c := range cols {
			r[c] = c10Norm(vals[i])
		}
		k := 0
		if _, err := fmt.Sscan(r["k_"], &k); err != nil || k == 0 {
			extra++
			k = extra
		}
		out[k] = r
	}
	return out
}

// ---- chain -------------------------------------------------------------------------------------------------------

type c10RAtom struct {
	Form string     `json:"form"`
	V    int        `json:"v"`
	V2   int        `json:"v2,omitempty"`
	S    string     `json:"s,omitempty"`
	Sub  []c10RAtom `json:"sub,omitempty"` // group_or / group_and
}

type c10RStep struct {
	Op   string   `json:"op"` // where | or | not
	Atom c10RAtom `json:"atom"`
}

type c10R struct {
	Model     string     `json:"model"`
	Steps     []c10RStep `json:"steps"`
	ScopeFrom int        `json:"scope_from"`       // steps[ScopeFrom:] are supplied through one Scopes(...) function (len(steps) = none)
	Inline    *c10RAtom  `json:"inline,omitempty"` // Delete(value, cond...) inline condition (= a last Where step)
	KeyVia    string     `json:"key_via"`          // model | value | none
	KeyK      int        `json:"key_k"`            // the row whose key is given (9: no row has it)
	Fin       string     `json:"fin"`
	Unscoped  bool       `json:"unscoped,omitempty"`
	Mode      string     `json:"mode,omitempty"` // "" | tx (inside db.Transaction) | prepare (Session{PrepareStmt}) | skipdeftx | begin (manual Begin/Commit)
	Val       int        `json:"val"`
}

func (a c10RAtom) holds(f c10RF, k int) bool {
	switch a.Form {
	case "eq_grp", "map_grp", "struct_grp", "expr_eq", "named":
		return f.Grp == a.V
	case "gt_qty", "expr_gt":
		return f.Qty > a.V
	case "le_qty":
		return f.Qty <= a.V
	case "in_grp":
		return f.Grp == a.V || f.Grp == a.V2
	case "name":
		return f.Name == a.S
	case "map2", "struct2":
		return f.Grp == a.V && f.Name == a.S
	case "str_or":
		return f.Grp == a.V || f.Qty > a.V2
	case "k_in":
		return k == a.V || k == a.V2
	case "group_or":
		return a.Sub[0].holds(f, k) || a.Sub[1].holds(f, k)
	case "group_and":
		return a.Sub[0].holds(f, k) && a.Sub[1].holds(f, k)
	}
	panic("c10R: unknown atom " + a.Form)
}

// args: the (query, args...) pair handed to Where / Or / Not
func (a c10RAtom) args(m *c10RModel) (interface{}, []interface{}) {
	switch a.Form {
	case "eq_grp":
		return "grp = ?", []interface{}{a.V}
	case "gt_qty":
		return "qty > ?", []interface{}{a.V}
	case "le_qty":
		return "qty <= ?", []interface{}{a.V}
	case "in_grp":
		return "grp IN ?", []interface{}{[]int{a.V, a.V2}}
	case "name":
		return "name = ?", []interface{}{a.S}
	case "map_grp":
		return map[string]interface{}{"grp": a.V}, nil
	case "map2":
		return map[string]interface{}{"grp": a.V, "name": a.S}, nil
	case "struct_grp":
		return m.mk(0, c10RF{Grp: a.V}), nil
	case "struct2":
		return m.mk(0, c10RF{Grp: a.V, Name: a.S}), nil
	case "expr_eq":
		return clause.Eq{Column: "grp", Value: a.V}, nil
	case "expr_gt":
		return clause.Gt{Column: "qty", Value: a.V}, nil
	case "named":
		return "grp = @g", []interface{}{sql.Named("g", a.V)}
	case "str_or":
		return "grp = ? OR qty > ?", []interface{}{a.V, a.V2}
	case "k_in":
		return "k_ IN ?", []interface{}{[]int{a.V, a.V2}}
	case "group_or":
		q0, a0 := a.Sub[0].args(m)
		q1, a1 := a.Sub[1].args(m)
		return m.db.Where(q0, a0...).Or(q1, a1...), nil
	case "group_and":
		q0, a0 := a.Sub[0].args(m)
		q1, a1 := a.Sub[1].args(m)
		return m.db.Where(q0, a0...).Where(q1, a1...), nil
	}
	panic("c10R: unknown atom " + a.Form)
}

func (e *c10R) steps() []c10RStep {
	if e.Inline != nil {
		return append(append([]c10RStep{}, e.Steps...), c10RStep{Op: "where", Atom: *e.Inline})
	}
	return e.Steps
}

// formula: the chain as a boolean formula with SQL precedence (Or steps open a new AND-run); withKey = the un-grouped
// reading of finding F36 (the key condition is one more AND term of the LAST run)
func (e *c10R) formula(k int, key bool, ungrouped bool) bool {
	f := c10RRow(k)
	steps := e.steps()
	any, run := false, true
	for i, st := range steps {
		v := st.Atom.holds(f, k)
		if st.Op == "not" {
			v = !v
		}
		if st.Op == "or" && i > 0 {
			any = any || run
			run = true
		}
		run = run && v
	}
	if ungrouped {
		return any || (run && key)
	}
	return (any || run) && key
}

func (e *c10R) hasTopOr() bool {
	for _, st := range e.steps() {
		if st.Op == "or" {
			return true
		}
	}
	return false
}

func (e *c10R) isDelete() bool { return strings.HasPrefix(e.Fin, "delete") }

func c10RApply(m *c10RModel, tx *gorm.DB, steps []c10RStep) *gorm.DB {
	for _, st := range steps {
		q, a := st.Atom.args(m)
		switch st.Op {
		case "where":
			tx = tx.Where(q, a...)
		case "or":
			tx = tx.Or(q, a...)
		case "not":
			tx = tx.Not(q, a...)
		}
	}
	return tx
}

func c10RExec(m *c10RModel, e *c10R) *gorm.DB {
	switch e.Mode {
	case "tx":
		var res *gorm.DB
		m.db.Transaction(func(tx *gorm.DB) error { res = c10RExecOn(m, e, tx); return nil })
		return res
	case "begin":
		tx := m.db.Begin()
		res := c10RExecOn(m, e, tx)
		tx.Commit()
		return res
	case "prepare":
		return c10RExecOn(m, e, m.db.Session(&gorm.Session{PrepareStmt: true}))
	case "skipdeftx":
		return c10RExecOn(m, e, m.db.Session(&gorm.Session{SkipDefaultTransaction: true}))
	}
	return c10RExecOn(m, e, m.db.Session(&gorm.Session{}))
}

func c10RExecOn(m *c10RModel, e *c10R, tx *gorm.DB) *gorm.DB {
	if e.Unscoped {
		tx = tx.Unscoped()
	}
	sf := e.ScopeFrom
	if sf > len(e.Steps) {
		sf = len(e.Steps)
	}
	tx = c10RApply(m, tx, e.Steps[:sf])
	if sf < len(e.Steps) {
		rest := e.Steps[sf:]
		tx = tx.Scopes(func(d *gorm.DB) *gorm.DB { return c10RApply(m, d, rest) })
	}
	keyed := func(f c10RF) interface{} { return m.mk(e.KeyK, f) }
	model := m.mk(0, c10RF{})
	if e.KeyVia == "model" {
		model = keyed(c10RF{})
	}
	val := func(f c10RF) interface{} { return reflect.ValueOf(m.mk(0, f)).Elem().Interface() }
	switch e.Fin {
	case "update1":
		return tx.Model(model).Update("qty", e.Val)
	case "updcol1":
		return tx.Model(model).UpdateColumn("qty", e.Val)
	case "upd_expr":
		return tx.Model(model).Update("qty", gorm.Expr("qty + ?", e.Val))
	case "upd_map":
		return tx.Model(model).Updates(map[string]interface{}{"qty": e.Val, "name": "w"})
	case "updcols_map":
		return tx.Model(model).UpdateColumns(map[string]interface{}{"qty": e.Val, "name": "w"})
	case "upd_struct":
		return tx.Model(model).Updates(val(c10RF{Qty: e.Val}))
	case "updcols_struct":
		return tx.Model(model).UpdateColumns(val(c10RF{Qty: e.Val}))
	case "upd_self": // the updated value is the model: its key is the condition
		return tx.Updates(keyed(c10RF{Qty: e.Val}))
	case "upd_self_model":
		v := keyed(c10RF{Qty: e.Val})
		return tx.Model(v).Updates(v)
	case "delete": // key (if any) through the deleted value
		v := m.mk(0, c10RF{})
		if e.KeyVia == "value" {
			v = keyed(c10RF{})
		}
		if e.Inline != nil {
			q, a := e.Inline.args(m)
			return tx.Delete(v, append([]interface{}{q}, a...)...)
		}
		return tx.Delete(v)
	case "delete_model": // key through Model(&m), a zero value deleted
		return tx.Model(model).Delete(m.mk(0, c10RF{}))
	}
	panic("c10R: unknown finisher " + e.Fin)
}

type c10ROut struct {
	verdict string
	known   bool
	detail  map[string]interface{}
	failed  bool  // the finisher returned an error
	changed []int // rows whose cells changed / that disappeared
	strict  []int // the reference rows
}

// c10RLeanOp: the question put to Lean ChainRows.selected / targeted for every row of the table
func c10RLeanOp(e *c10R) []interface{} {
	m := c10RModelOf(e.Model)
	softScoped := m.soft != "" && !e.Unscoped
	rows := []interface{}{}
	for k := 1; k <= c10RN; k++ {
		f := c10RRow(k)
		terms := [][]bool{}
		for i, st := range e.steps() {
			v := st.Atom.holds(f, k)
			if st.Op == "not" {
				v = !v
			}
			terms = append(terms, []bool{st.Op == "or" && i > 0, v})
		}
		key := e.KeyVia == "none" || canon(m.keyOf(k)) == canon(m.keyOf(e.KeyK))
		rows = append(rows, []interface{}{terms, key, !(m.soft != "" && c10RDeleted(k))})
	}
	// groupFirst: only the scoped soft-delete UPDATE runs the grouping clause before the key merge (Gen/WriteOrder.lean)
	return []interface{}{"c10.chainsel", softScoped && !e.isDelete(), softScoped, rows}
}

func c10RJudge(e *c10R, r *Result) (out c10ROut) {
	m := c10RModelOf(e.Model)
	if m == nil {
		return c10ROut{verdict: "unknown model " + e.Model}
	}
	m.open()
	m.fill()
	before := m.dump()
	defer func() {
		if p := recover(); p != nil {
			if r != nil {
				r.H("c10.r6.gorm-panic", e.Fin)
				r.Note("gorm panicked (not judged, outside C10): chain-rows %s %v", canon(e), p)
			}
			out = c10ROut{detail: map[string]interface{}{"panic": fmt.Sprint(p)}}
		}
	}()
	tx := c10RExec(m, e)
	after := m.dump()
	failed := tx.Error != nil
	out.detail = map[string]interface{}{"error": fmt.Sprint(tx.Error), "rows_affected": tx.RowsAffected}
	changed := []int{}
	for k := range after {
		if k > c10RN {
			out.verdict = fmt.Sprintf("the statement inserted a row %v", after[k])
			return out
		}
	}
	for k := 1; k <= c10RN; k++ {
		if after[k] == nil || canon(after[k]) != canon(before[k]) {
			changed = append(changed, k)
		}
	}
	out.detail["changed_rows"] = changed
	out.failed, out.changed = failed, changed
	if r != nil {
		r.H("c10.r6.error", fmt.Sprint(failed))
		if failed {
			r.H("c10.r6.error-text", fmt.Sprint(tx.Error))
		}
	}
	keyGiven := e.KeyVia != "none"
	softScoped := m.soft != "" && !e.Unscoped
	keyHolds := func(k int) bool { return !keyGiven || canon(m.keyOf(k)) == canon(m.keyOf(e.KeyK)) }
	target := func(ungrouped bool) []int {
		t := []int{}
		for k := 1; k <= c10RN; k++ {
			if e.formula(k, keyHolds(k), ungrouped) && !(softScoped && c10RDeleted(k)) {
				t = append(t, k)
			}
		}
		return t
	}
	judge := func(t []int) string {
		for k := 1; k <= c10RN; k++ {
			b, a := before[k], after[k]
			if !containsInt(t, k) {
				if a == nil {
					return fmt.Sprintf("row %d does not satisfy (chain conditions) AND key AND not-soft-deleted but disappeared", k)
				}
				for c, was := range b {
					if a[c] != was {
						return fmt.Sprintf("row %d does not satisfy (chain conditions) AND key AND not-soft-deleted but column %s changed %q -> %q", k, c, was, a[c])
					}
				}
				continue
			}
			if failed {
				continue
			}
			if e.isDelete() {
				if !softScoped {
					if a != nil {
						return fmt.Sprintf("row %d is targeted by the delete but is still there", k)
					}
					continue
				}
				if a == nil {
					return fmt.Sprintf("row %d of a soft-delete model was removed by a scoped Delete", k)
				}
				if a[m.soft] == b[m.soft] {
					return fmt.Sprintf("row %d is targeted by the soft delete but %s still holds %q", k, m.soft, a[m.soft])
				}
				for c, was := range b {
					if c != m.soft && c != "updated_at" && a[c] != was {
						return fmt.Sprintf("soft delete of row %d changed column %s %q -> %q", k, c, was, a[c])
					}
				}
				continue
			}
			if a == nil {
				return fmt.Sprintf("row %d disappeared during an update", k)
			}
			wantQty := fmt.Sprint(e.Val)
			if e.Fin == "upd_expr" {
				wantQty = fmt.Sprint(c10RRow(k).Qty + e.Val)
			}
			hooks := !strings.HasPrefix(e.Fin, "updcol")
			for c, was := range b {
				switch {
				case c == "qty":
					if a[c] != wantQty {
						return fmt.Sprintf("row %d is targeted: qty expected %s found %q", k, wantQty, a[c])
					}
				case c == "name" && (e.Fin == "upd_map" || e.Fin == "updcols_map"):
					if a[c] != "w" {
						return fmt.Sprintf("row %d is targeted: name expected \"w\" found %q", k, a[c])
					}
				case c == "updated_at" && hooks:
				default:
					if a[c] != was {
						return fmt.Sprintf("row %d: column %s is not in the write set but changed %q -> %q", k, c, was, a[c])
					}
				}
			}
		}
		if !failed && int(tx.RowsAffected) != len(t) {
			return fmt.Sprintf("RowsAffected = %d but %d row(s) %v satisfy (chain conditions) AND key AND not-soft-deleted", tx.RowsAffected, len(t), t)
		}
		return ""
	}
	strict := target(false)
	out.detail["reference_rows"] = strict
	out.strict = strict
	if r != nil {
		r.H("c10.r6.target-size", fmt.Sprint(len(strict)))
	}
	v := judge(strict)
	if v == "" {
		return out
	}
	// finding F36: everywhere but the scoped soft-delete UPDATE the key is appended un-grouped
	if e.hasTopOr() && keyGiven && !(softScoped && !e.isDelete()) {
		alt := target(true)
		if judge(alt) == "" {
			out.known = true
			out.detail["ungrouped_rows"] = alt
		}
	}
	out.verdict = v
	return out
}

func c10RRun(r *Result, e *c10R) c10ROut {
	out := c10RJudge(e, r)
	if out.verdict == "" {
		return out
	}
	if out.known && listed(c10F36) {
		r.KnownFinding(c10F36, "chain with a top-level Or + a keyed model/value on a path other than the scoped soft-delete UPDATE: the key condition is appended without grouping the chain (`a OR b AND key`), rows matching an earlier OR branch are written/deleted whatever their key — "+out.verdict)
		return out
	}
	r.Violate(Violation{Kind: "e2e", Suite: "chain-rows", Input: e, Observed: out.detail, Expected: out.verdict,
		Note: "8-row table (rows 3 and 6 soft-deleted on soft models) diffed around one real write whose chain is a Where/Or/Not formula: only rows satisfying (chain conditions) AND the model value's primary key AND not-soft-deleted may change"})
	return out
}

func genC10RAtom(rng *rand.Rand, under string, depth int) c10RAtom {
	forms := []string{"eq_grp", "gt_qty", "le_qty", "in_grp", "name", "map_grp", "struct_grp", "expr_eq", "expr_gt", "named", "k_in"}
	if under != "not" {
		forms = append(forms, "map2", "struct2", "str_or")
		if depth == 0 {
			forms = append(forms, "group_or", "group_or", "group_and")
		}
	}
	a := c10RAtom{Form: forms[rng.Intn(len(forms))]}
	switch a.Form {
	case "eq_grp", "map_grp", "expr_eq", "named":
		a.V = rng.Intn(3)
	case "struct_grp":
		a.V = 1 + rng.Intn(2) // a zero struct field is no condition
	case "gt_qty", "le_qty", "expr_gt":
		a.V = []int{0, 10, 20, 40, 50, 70, 80}[rng.Intn(7)]
	case "in_grp":
		a.V, a.V2 = rng.Intn(3), rng.Intn(3)
	case "name":
		a.S = fmt.Sprintf("n%d", rng.Intn(4))
	case "map2", "struct2":
		a.V, a.S = 1+rng.Intn(2), fmt.Sprintf("n%d", rng.Intn(4))
	case "str_or":
		a.V, a.V2 = rng.Intn(3), []int{30, 50, 70}[rng.Intn(3)]
	case "k_in":
		a.V, a.V2 = 1+rng.Intn(c10RN), 1+rng.Intn(c10RN)
	case "group_or", "group_and":
		a.Sub = []c10RAtom{genC10RAtom(rng, "where", 1), genC10RAtom(rng, "where", 1)}
	}
	return a
}

var c10RFins = []string{"update1", "updcol1", "upd_expr", "upd_map", "updcols_map", "upd_struct", "updcols_struct", "upd_self", "upd_self_model", "delete", "delete", "delete_model"}

func genC10R(rng *rand.Rand, r *Result) *c10R {
	m := c10RModels[rng.Intn(len(c10RModels))]
	if m.soft == "" && rng.Intn(2) == 0 { // the two plain models: keep them at ~1/9 of the cases
		m = c10RModels[2+rng.Intn(len(c10RModels)-2)]
	}
	e := &c10R{Model: m.name, Fin: c10RFins[rng.Intn(len(c10RFins))], Val: 7000 + rng.Intn(100), Unscoped: rng.Intn(8) == 0}
	if rng.Intn(4) == 0 {
		e.Mode = []string{"tx", "begin", "prepare", "skipdeftx"}[rng.Intn(4)]
	}
	n := 1 + rng.Intn(4)
	if rng.Intn(12) == 0 {
		n = 0
	}
	for i := 0; i < n; i++ {
		op := "where"
		if i > 0 {
			op = []string{"where", "or", "or", "not"}[rng.Intn(4)]
		} else if rng.Intn(6) == 0 {
			op = "not"
		}
		e.Steps = append(e.Steps, c10RStep{Op: op, Atom: genC10RAtom(rng, op, 0)})
	}
	e.ScopeFrom = len(e.Steps)
	if n > 0 && rng.Intn(5) == 0 {
		e.ScopeFrom = rng.Intn(n)
		if e.ScopeFrom == 0 && e.Steps[0].Op == "where" && n > 1 {
			e.ScopeFrom = 1
		}
	}
	// key: mostly the key of a row the chain selects (so that dropping / mis-grouping the key shows), sometimes any row,
	// a soft-deleted row, or a key nobody has
	switch e.Fin {
	case "upd_self", "upd_self_model":
		e.KeyVia = "value"
	case "delete":
		e.KeyVia = []string{"value", "value", "none"}[rng.Intn(3)]
		if rng.Intn(4) == 0 {
			a := genC10RAtom(rng, "where", 0)
			e.Inline = &a
			e.ScopeFrom = len(e.Steps) // scopes run at callback time, i.e. AFTER the inline condition: keep the textual order unambiguous
		}
	default:
		e.KeyVia = []string{"model", "model", "model", "none"}[rng.Intn(4)]
	}
	if n == 0 && e.Inline == nil {
		if e.KeyVia == "none" {
			e.KeyVia = map[bool]string{true: "value", false: "model"}[e.Fin == "delete"]
		}
	}
	e.KeyK = 1 + rng.Intn(c10RN)
	if x := rng.Intn(10); x == 0 {
		e.KeyK = 9
	} else if x < 7 {
		sel := []int{}
		for k := 1; k <= c10RN; k++ {
			if e.formula(k, true, false) {
				sel = append(sel, k)
			}
		}
		if len(sel) > 0 {
			e.KeyK = sel[rng.Intn(len(sel))]
		}
	}
	if e.KeyVia == "none" {
		e.KeyK = 0
	}
	if r != nil {
		r.H("c10.r6.model", m.name)
		r.H("c10.r6.fin", e.Fin)
		r.H("c10.r6.key-via", e.KeyVia)
		r.H("c10.r6.mode", "mode="+e.Mode)
		ops := []string{}
		for _, st := range e.steps() {
			ops = append(ops, st.Op)
		}
		sort.Strings(ops[min(1, len(ops)):])
		r.H("c10.r6.chain-shape", strings.Join(ops, ","))
		r.H("c10.r6.soft-or-key", fmt.Sprintf("soft=%v unscoped=%v or=%v key=%v delete=%v", m.soft != "", e.Unscoped, e.hasTopOr(), e.KeyVia != "none", e.isDelete()))
		for _, st := range e.steps() {
			r.H("c10.r6.atom", st.Op+" "+st.Atom.Form)
		}
		if e.ScopeFrom < len(e.Steps) {
			r.H("c10.r6.scoped-suffix", fmt.Sprint(len(e.Steps)-e.ScopeFrom))
		}
	}
	return e
}

// c10F36Witness: the probe re-confirming the listed finding on every run (plain model, Where(a).Or(b), Model(&keyed))
func c10F36Witness() *c10R {
	return &c10R{Model: "plain", Steps: []c10RStep{{Op: "where", Atom: c10RAtom{Form: "eq_grp", V: 1}}, {Op: "or", Atom: c10RAtom{Form: "gt_qty", V: 70}}},
		ScopeFrom: 2, KeyVia: "model", KeyK: 8, Fin: "update1", Val: 7001}
}

func init() {
	register("C10", func(r *Result, rng *rand.Rand, tier string) {
		n := 2500
		if tier == "thorough" {
			n = 60000
		} else if tier == "search" {
			n = 5000
		}
		t0 := time.Now()
		defer func() { r.Note("c10 chain-rows: n=%d took %.1fs", n, time.Since(t0).Seconds()) }()
		type pend struct {
			e   *c10R
			out c10ROut
		}
		var pends []pend
		var ops [][]interface{}
		for i := 0; i < n && !expired(); i++ {
			var e *c10R
			if i == 0 {
				e = c10F36Witness()
			} else {
				e = genC10R(rng, r)
			}
			r.Case("chain-rows", canon(e), len(e.Steps) > 1 || e.KeyVia != "none")
			if i%499 == 0 {
				r.Sample(map[string]interface{}{"suite": "chain-rows", "input": e})
			}
			out := c10RRun(r, e)
			if i == 0 && !out.known && listed(c10F36) {
				r.Violate(Violation{Kind: "e2e", Suite: "chain-rows", Input: e, Observed: out.detail,
					Note: "the listed finding " + c10F36 + " no longer reproduces on its witness: remove it from known_findings.d/C10.json (and its _counterexample theorem)"})
			}
			if out.detail != nil && out.detail["panic"] == nil && !out.failed {
				pends = append(pends, pend{e, out})
				ops = append(ops, c10RLeanOp(e))
			}
		}
		// tie (suite chainsel): Lean ChainRows.selected on every row vs the rows the real statement changed, and
		// Lean ChainRows.targeted vs the Go reference of the e2e oracle
		outs, err := AskLean(ops)
		if err != nil {
			r.Violate(Violation{Kind: "correspondence", Suite: "chainsel", Note: err.Error()})
			return
		}
		for i, p := range pends {
			var a [][]bool
			if err := json.Unmarshal(outs[i], &a); err != nil || len(a) != c10RN {
				r.Violate(Violation{Kind: "correspondence", Suite: "chainsel", Input: p.e, Note: "bad answer " + string(outs[i])})
				continue
			}
			sel, tgt := []int{}, []int{}
			for k := 1; k <= c10RN; k++ {
				if a[k-1][0] {
					sel = append(sel, k)
				}
				if a[k-1][1] {
					tgt = append(tgt, k)
				}
			}
			r.CorrCompared++
			r.Case("chainsel", canon(p.e), p.e.hasTopOr() && p.e.KeyVia != "none")
			r.H("c10.chainsel.selected-vs-targeted", fmt.Sprintf("selected=%d targeted=%d", len(sel), len(tgt)))
			if fmt.Sprint(sel) != fmt.Sprint(p.out.changed) || fmt.Sprint(tgt) != fmt.Sprint(p.out.strict) {
				r.Violate(Violation{Kind: "correspondence", Suite: "chainsel", Input: p.e,
					Observed: map[string]interface{}{"changed_rows": p.out.changed, "reference_rows": p.out.strict, "detail": p.out.detail},
					Expected: map[string]interface{}{"selected": sel, "targeted": tgt},
					Note:     "rows changed by the real statement / reference rows of the e2e oracle (observed) vs Lean ChainRows.selected / targeted on the 8 rows (expected)"})
			}
		}
	})
	replayers["C10/chain-rows"] = func(r *Result, input json.RawMessage) {
		var e c10R
		if err := json.Unmarshal(input, &e); err != nil {
			r.Violate(Violation{Kind: "e2e", Suite: "chain-rows", Note: "cannot decode replay input: " + err.Error()})
			return
		}
		c10RRun(r, &e)
	}
}
