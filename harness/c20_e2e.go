package main

// C20 end-to-end oracle: histories  migrate(v1) -> insert rows -> migrate(v1) again -> migrate(v2 = v1 + added
// fields / indexes / constraints) -> read back,  on SQLite behind the recording driver, for model types generated
// from a grammar (reflect.StructOf).  Judged, and nothing else:
//   (A) the second, identical AutoMigrate sends no CREATE / ALTER / DROP statement to the driver;
//   (B) AutoMigrate(v2) succeeds, the rows inserted before it still carry the same values in every v1 column,
//       every v2 column exists, and a record of the v2 model can be created and read back unchanged.
// Latitude: how v2 is reached is free (the SQLite dialector re-creates the table to add a constraint: allowed);
// row order is free (rows are compared as a sorted multiset); a third run is observed but not judged.

import (
	"database/sql"
	"encoding/json"
	"fmt"
	"reflect"
	"regexp"
	"sort"
	"strings"
	"time"

	"gorm.io/gorm"
	"gorm.io/gorm/schema"
)

// ---- fixed named types the generated models may relate to -----------------------------------

type C20Owner struct {
	ID   uint `gorm:"primaryKey"`
	Name string
}
type C20Org struct {
	Code  string `gorm:"primaryKey;size:20"`
	Title string
}
type C20Toy struct {
	ID    uint `gorm:"primaryKey"`
	GenID uint
	Label string
}
type C20Badge struct {
	ID    uint `gorm:"primaryKey"`
	GenID uint
	Level int
}
type C20Tag struct {
	ID   uint `gorm:"primaryKey"`
	Name string
}
// embedded struct that carries constraints of its own (column names get the embeddedPrefix: DBName != field name)
type C20Stamp struct {
	Serial string `gorm:"unique"`
	Batch  int    `gorm:"index"`
}
type C20Audit struct {
	CreatedBy string
	Note      string `gorm:"size:30"`
}

// self-referential + has-many fixed family (named types can reference each other)
type C20Node struct {
	ID       uint `gorm:"primaryKey"`
	Name     string
	ParentID *uint
	Parent   *C20Node  `gorm:"constraint:OnDelete:SET NULL"`
	Children []C20Node `gorm:"foreignKey:ParentID"`
}

type c20Field struct {
	Name string `json:"name"`
	Kind string `json:"kind"`
	Tag  string `json:"tag"`
	Anon bool   `json:"anon,omitempty"` // anonymous (Go-embedded) struct field: `gorm.Model` written the usual way
}

type c20Spec struct {
	Table string     `json:"table"`
	V1    []c20Field `json:"v1"`
	V2    []c20Field `json:"v2"`
	Rows  int        `json:"rows"`
	Feat  []string   `json:"feat"` // features used (for histograms / exclusions)
	// configuration the history runs under (nil = defaults) and the value lists of the two AutoMigrate calls: "hub" stands
	// for the generated model, every other entry is a relation kind whose RELATED model is passed explicitly (c20Relatives);
	// empty = the generated model alone.  See c20_opts.go for what each setting may switch off.
	Cfg    *c20Cfg  `json:"cfg,omitempty"`
	// Qual: the SQLite schema the model's table name is qualified with ("" = none, "main" = the naming strategy / Tabler
	// answers "main.<table>": gorm splits it into Statement.TableExpr and the bare Statement.Table).  c20_cols.go.
	Qual   string   `json:"qual,omitempty"`
	Extra1 []string `json:"extra1,omitempty"`
	Extra2 []string `json:"extra2,omitempty"`
}

// c20CallArgs: the value list of one AutoMigrate call
func c20CallArgs(hub interface{}, extra []string) []interface{} {
	if len(extra) == 0 {
		return []interface{}{hub}
	}
	var out []interface{}
	for _, e := range extra {
		if e == "hub" {
			out = append(out, hub)
		} else if m, ok := c20Relatives[e]; ok {
			out = append(out, m)
		}
	}
	return out
}

func c20Explicit(sets ...[]string) map[string]bool {
	out := map[string]bool{}
	for _, s := range sets {
		for _, e := range s {
			if e == "powner" {
				e = "owner"
			}
			out[e] = true
		}
	}
	return out
}

var c20Kinds = map[string]reflect.Type{
	"int": reflect.TypeOf(int(0)), "int64": reflect.TypeOf(int64(0)), "int32": reflect.TypeOf(int32(0)), "int8": reflect.TypeOf(int8(0)),
	"uint": reflect.TypeOf(uint(0)), "uint8": reflect.TypeOf(uint8(0)), "uint32": reflect.TypeOf(uint32(0)),
	"float64": reflect.TypeOf(float64(0)), "float32": reflect.TypeOf(float32(0)),
	"string": reflect.TypeOf(""), "bool": reflect.TypeOf(false), "time": reflect.TypeOf(time.Time{}),
	"bytes": reflect.TypeOf([]byte(nil)), "pstring": reflect.TypeOf((*string)(nil)), "pint": reflect.TypeOf((*int)(nil)),
	"ptime":   reflect.TypeOf((*time.Time)(nil)),
	"nullstr": reflect.TypeOf(sql.NullString{}), "nullint": reflect.TypeOf(sql.NullInt64{}),
	"owner": reflect.TypeOf(C20Owner{}), "powner": reflect.TypeOf((*C20Owner)(nil)), "org": reflect.TypeOf(C20Org{}),
	"toys": reflect.TypeOf([]C20Toy(nil)), "badge": reflect.TypeOf(C20Badge{}), "tags": reflect.TypeOf([]C20Tag(nil)),
	"audit": reflect.TypeOf(C20Audit{}), "stamp": reflect.TypeOf(C20Stamp{}),
	"pics": reflect.TypeOf([]*C20Pic(nil)),
	// structs whose columns the model's own fields may SHADOW (c20_cols.go)
	"gmodel": reflect.TypeOf(gorm.Model{}), "base": reflect.TypeOf(C20Base{}), "plain2": reflect.TypeOf(C20Plain2{}),
}

func c20IsRel(kind string) bool {
	switch kind {
	case "owner", "powner", "org", "toys", "badge", "tags", "pics":
		return true
	}
	return false
}

func c20Type(fs []c20Field) (t reflect.Type, err error) {
	defer func() {
		if p := recover(); p != nil {
			err = fmt.Errorf("StructOf: %v", p)
		}
	}()
	var sf []reflect.StructField
	for _, f := range fs {
		kt, ok := c20Kinds[f.Kind]
		if !ok {
			return nil, fmt.Errorf("unknown kind %s", f.Kind)
		}
		tag := reflect.StructTag("")
		if f.Tag != "" {
			tag = reflect.StructTag(`gorm:"` + f.Tag + `"`)
		}
		sf = append(sf, reflect.StructField{Name: f.Name, Type: kt, Tag: tag, Anonymous: f.Anon})
	}
	return reflect.StructOf(sf), nil
}

// c20Namer gives the anonymous generated struct type (Name() == "") a table name.
type c20Namer struct {
	schema.NamingStrategy
	anon string
}

func (n c20Namer) TableName(s string) string {
	if s == "" {
		return n.anon
	}
	return n.NamingStrategy.TableName(s)
}

// The relation families of c20_rel.go come in two versions whose Go type names differ by a trailing "a" (C20rUser9a /
// C20rUser9) although they stand for ONE model that gained fields.  gorm derives the names of a join table's constraints
// from the owner's type name; a real model keeps its name, so the version suffix is taken out here (harness artefact).
var c20VerSuffix = regexp.MustCompile(`^(C20r[A-Za-z]+\d+)a$`)

func (n c20Namer) RelationshipFKName(rel schema.Relationship) string {
	if m := c20VerSuffix.FindStringSubmatch(rel.Name); m != nil {
		rel.Name = m[1]
	}
	return n.NamingStrategy.RelationshipFKName(rel)
}

func c20Open(table string) (*gorm.DB, *Recorder) {
	db, rec, _ := OpenRec(&gorm.Config{NowFunc: fixedNowFunc,
		NamingStrategy: c20Namer{NamingStrategy: schema.NamingStrategy{IdentifierMaxLength: 64}, anon: table}})
	return db, rec
}

var c20DDL = regexp.MustCompile(`(?i)^\s*(CREATE|ALTER|DROP)\b`)

func c20SchemaStmts(evs []Event) []string {
	var out []string
	for _, e := range evs {
		if (e.Kind == "exec" || e.Kind == "stmt_exec" || e.Kind == "query" || e.Kind == "stmt_query" || e.Kind == "prepare") && c20DDL.MatchString(e.SQL) {
			if e.Kind == "prepare" {
				continue
			}
			out = append(out, e.SQL)
		}
	}
	return out
}

func c20Quiet(rec *Recorder, f func()) {
	rec.mu.Lock()
	off := rec.Off
	rec.Off = true
	rec.mu.Unlock()
	defer func() { rec.mu.Lock(); rec.Off = off; rec.mu.Unlock() }()
	f()
}

func c20Dump(db *gorm.DB, rec *Recorder, table string, cols []string) ([]string, error) {
	var list []string
	var err error
	c20Quiet(rec, func() {
		q := make([]string, len(cols))
		for i, c := range cols {
			q[i] = "`" + c + "`"
		}
		var rows *sql.Rows
		rows, err = db.Session(&gorm.Session{NewDB: true}).Raw("SELECT " + strings.Join(q, ",") + " FROM `" + table + "`").Rows()
		if err != nil {
			return
		}
		defer rows.Close()
		for rows.Next() {
			vals := make([]interface{}, len(cols))
			ptrs := make([]interface{}, len(cols))
			for i := range vals {
				ptrs[i] = &vals[i]
			}
			if err = rows.Scan(ptrs...); err != nil {
				return
			}
			s := ""
			for i, v := range vals {
				if b, ok := v.([]byte); ok {
					v = "b:" + string(b)
				}
				if tv, ok := v.(time.Time); ok {
					v = tv.UTC().Format(time.RFC3339Nano)
				}
				s += fmt.Sprintf("%s=%T:%v;", cols[i], v, v)
			}
			list = append(list, s)
		}
	})
	sort.Strings(list)
	return list, err
}

func c20Columns(db *gorm.DB, rec *Recorder, table string) map[string]bool {
	out := map[string]bool{}
	c20Quiet(rec, func() {
		rows, err := db.Session(&gorm.Session{NewDB: true}).Raw("SELECT name FROM pragma_table_info(?)", table).Rows()
		if err != nil {
			return
		}
		defer rows.Close()
		for rows.Next() {
			var n string
			rows.Scan(&n)
			out[n] = true
		}
	})
	return out
}

func c20Master(db *gorm.DB, rec *Recorder) []string {
	var out []string
	c20Quiet(rec, func() {
		db.Session(&gorm.Session{NewDB: true}).Raw("SELECT sql FROM sqlite_master WHERE sql IS NOT NULL ORDER BY name").Scan(&out)
	})
	return out
}

var c20T0 = time.Date(2021, 3, 4, 5, 6, 7, 0, time.UTC)

// c20Value: deterministic, distinct per (row, field) value for scalar kinds; ok=false for relation kinds
func c20Value(f c20Field, row int, fi int) (reflect.Value, bool) {
	n := 100 + row*37 + fi*1009
	switch f.Kind {
	case "int", "int64", "int32":
		return reflect.ValueOf(n).Convert(c20Kinds[f.Kind]), true
	case "int8":
		return reflect.ValueOf(int8(1 + row*9 + fi%7)), true
	case "uint", "uint32":
		return reflect.ValueOf(n).Convert(c20Kinds[f.Kind]), true
	case "uint8":
		return reflect.ValueOf(uint8(1 + row*9 + fi%7)), true
	case "float64", "float32":
		return reflect.ValueOf(float64(n) + 0.5).Convert(c20Kinds[f.Kind]), true
	case "string":
		return reflect.ValueOf(fmt.Sprintf("s%d_%d", row, fi)), true
	case "bool":
		return reflect.ValueOf(row%2 == 0), true
	case "time":
		return reflect.ValueOf(c20T0.Add(time.Duration(n) * time.Hour)), true
	case "ptime":
		t := c20T0.Add(time.Duration(n) * time.Hour)
		return reflect.ValueOf(&t), true
	case "bytes":
		return reflect.ValueOf([]byte(fmt.Sprintf("b%d_%d", row, fi))), true
	case "pstring":
		s := fmt.Sprintf("p%d_%d", row, fi)
		return reflect.ValueOf(&s), true
	case "pint":
		return reflect.ValueOf(&n), true
	case "nullstr":
		return reflect.ValueOf(sql.NullString{String: fmt.Sprintf("n%d_%d", row, fi), Valid: true}), true
	case "nullint":
		return reflect.ValueOf(sql.NullInt64{Int64: int64(n), Valid: true}), true
	case "stamp":
		return reflect.ValueOf(C20Stamp{Serial: fmt.Sprintf("ser%d_%d", row, fi), Batch: n}), true
	case "audit":
		return reflect.ValueOf(C20Audit{CreatedBy: fmt.Sprintf("u%d", row), Note: fmt.Sprintf("note%d_%d", row, fi)}), true
	case "plain2":
		return reflect.ValueOf(C20Plain2{Note: fmt.Sprintf("pn%d_%d", row, fi), Count: n, Ratio: float64(n) + 0.25, Label: fmt.Sprintf("pl%d_%d", row, fi)}), true
	case "gmodel", "base": // keys and time stamps are gorm's to fill
		return reflect.Zero(c20Kinds[f.Kind]), true
	}
	return reflect.Value{}, false
}

func c20Record(t reflect.Type, fs []c20Field, row int) reflect.Value {
	p := reflect.New(t)
	for i, f := range fs {
		if v, ok := c20Value(f, row, i); ok {
			p.Elem().Field(i).Set(v)
		}
	}
	return p
}

// c20SameScalar compares two field values of a scalar kind (times by instant, everything else deeply).
func c20SameScalar(a, b reflect.Value) bool {
	ai, bi := a.Interface(), b.Interface()
	switch x := ai.(type) {
	case time.Time:
		return x.Equal(bi.(time.Time))
	case *time.Time:
		y := bi.(*time.Time)
		if x == nil || y == nil {
			return x == y
		}
		return x.Equal(*y)
	}
	return reflect.DeepEqual(ai, bi)
}

type c20Outcome struct {
	Stage    string   `json:"stage"` // ok | v1-rejected | insert-rejected | ...
	Second   []string `json:"second_run_ddl,omitempty"`
	Third    []string `json:"third_run_ddl,omitempty"`
	V2DDL    []string `json:"v2_ddl,omitempty"`
	Err      string   `json:"err,omitempty"`
	Verdict  string   `json:"verdict"` // "" = fine
	Expected string   `json:"expected,omitempty"`
	Observed string   `json:"observed,omitempty"`
	Master   []string `json:"sqlite_master,omitempty"`
}

// c20RunHistory executes one history on the real code and judges it.
func c20RunHistory(sp c20Spec) (out c20Outcome) {
	defer func() {
		if p := recover(); p != nil {
			out = c20Outcome{Stage: "panic(invalid model)", Err: fmt.Sprint(p)}
		}
	}()
	t1, err := c20Type(sp.V1)
	if err != nil {
		return c20Outcome{Stage: "type-v1", Err: err.Error()}
	}
	t2, err := c20Type(sp.V2)
	if err != nil {
		return c20Outcome{Stage: "type-v2", Err: err.Error()}
	}
	cfg := sp.Cfg.get()
	db, rec := c20OpenCfg(c20QualTable(sp), cfg)
	if sq, e := db.DB(); e == nil {
		defer sq.Close()
	}
	c20Handle := func(db *gorm.DB, c c20Cfg) *gorm.DB { return c20HandleT(db, c, sp.Table) } // (the handle may name the table)
	plain := cfg.Naming == "" // the structural expectations of c20_exist.go are written for the default naming strategy
	m1 := reflect.New(t1).Interface()
	m2 := reflect.New(t2).Interface()
	args1, args2 := c20CallArgs(m1, sp.Extra1), c20CallArgs(m2, sp.Extra2)
	dem1 := c20Demanded(sp.V1, cfg, c20Explicit(sp.Extra1))
	dem2 := c20Demanded(sp.V2, cfg, c20Explicit(sp.Extra1, sp.Extra2))
	noFK := func(w c20Want) c20Want {
		if cfg.DisableFK || cfg.IgnoreRel { // both switch the foreign-key constraints off (and nothing else of the table itself)
			w.FK = nil
		}
		return w
	}
	// --- migrate(v1)
	if err := c20Handle(db, cfg).AutoMigrate(args1...); err != nil {
		// the generator only emits models SQLite can hold (exclusion list in c20_gen.go): a refusal is a failure
		return c20Outcome{Stage: "v1-rejected", Err: err.Error(), Verdict: "AutoMigrate(v1) on an empty database returned an error", Observed: err.Error(), Master: c20Master(db, rec)}
	}
	st := &gorm.Statement{DB: db}
	if err := st.Parse(m1); err != nil {
		return c20Outcome{Stage: "v1-rejected", Err: err.Error()}
	}
	oldCols := append([]string(nil), st.Schema.DBNames...)
	// --- insert rows
	for i := 0; i < sp.Rows; i++ {
		row := c20Record(t1, sp.V1, i)
		if err := c20Nest(db, row, dem1, i); err != nil {
			return c20Outcome{Stage: "nest-v1", Err: err.Error()}
		}
		if err := db.Create(row.Interface()).Error; err != nil {
			return c20Outcome{Stage: "insert-rejected", Err: err.Error(), Verdict: "the table AutoMigrate(v1) created rejects a record of the v1 model", Observed: err.Error(), Master: c20Master(db, rec)}
		}
	}
	before, err := c20Dump(db, rec, sp.Table, oldCols)
	if err != nil {
		return c20Outcome{Stage: "dump-failed", Err: err.Error()}
	}
	// --- (A) migrate(v1) again: no schema-changing statement
	rec.Reset()
	err = c20Handle(db, cfg).AutoMigrate(args1...)
	out.Second = c20SchemaStmts(rec.Snapshot())
	if err != nil {
		out.Stage, out.Err = "second", err.Error()
		out.Verdict = "second AutoMigrate(v1) on the database it created returned an error"
		return
	}
	if len(out.Second) > 0 {
		out.Stage = "second"
		out.Verdict = "second identical AutoMigrate issued schema-changing statements"
		out.Expected = "no CREATE/ALTER/DROP"
		out.Observed = strings.Join(out.Second, " ;; ")
		out.Master = c20Master(db, rec)
		return
	}
	mid, _ := c20Dump(db, rec, sp.Table, oldCols)
	if canon(mid) != canon(before) {
		out.Stage, out.Verdict = "second", "rows changed across the second identical AutoMigrate"
		out.Expected, out.Observed = canon(before), canon(mid)
		return
	}
	// what v1 declares exists on the table CreateTable produced
	{
		w1 := noFK(c20WantOf(sp.Table, c20Owners(sp.V1), nil))
		cls := map[string]string{}
		for _, f := range c20Owners(sp.V1) {
			cls[c20ColName(f.Name, f.Tag)] = c20Class(f.Kind)
		}
		// (the behavioural probes need two rows: histories with fewer rows are not judged here)
		if v, e, o := "", "", ""; sp.Rows >= 2 && plain {
			v, e, o = c20JudgeStructure(db, rec, sp.Table, w1, true, cls)
			if v != "" {
				out.Stage, out.Verdict, out.Expected, out.Observed = "v1-exists", v, e, o
				out.Master = c20Master(db, rec)
				return
			}
		}
		if v, e, o := "", "", ""; true {
			if !plain {
				w1 = c20Want{}
			}
			v, e, o = c20JudgeAsk(db, m1, w1, true, cfg.DisableFK || cfg.IgnoreRel)
			if v != "" {
				out.Stage, out.Verdict, out.Expected, out.Observed = "v1-exists", v, e, o
				out.Master = c20Master(db, rec)
				return
			}
		}
	}
	// --- (B) migrate(v2)
	others := c20DumpOthers(db, rec, sp.Table)
	rec.Reset()
	err = c20Handle(db, cfg).AutoMigrate(args2...)
	out.V2DDL = c20SchemaStmts(rec.Snapshot())
	if err != nil {
		out.Stage, out.Err = "v2", err.Error()
		out.Verdict = "AutoMigrate(v2 = v1 + additions) returned an error"
		out.Master = c20Master(db, rec)
		return
	}
	after, err := c20Dump(db, rec, sp.Table, oldCols)
	if err != nil {
		out.Stage, out.Err, out.Verdict = "v2", err.Error(), "v1 columns cannot be read after AutoMigrate(v2)"
		return
	}
	if canon(after) != canon(before) {
		out.Stage, out.Verdict = "v2", "existing rows / column values changed across AutoMigrate(v2)"
		out.Expected, out.Observed = canon(before), canon(after)
		return
	}
	if t, e, o := c20OthersKept(db, rec, others); t != "" {
		out.Stage, out.Verdict = "v2", "existing rows of the related table "+t+" changed across AutoMigrate(v2)"
		out.Expected, out.Observed = e, o
		return
	}
	st2 := &gorm.Statement{DB: db}
	if err := st2.Parse(m2); err != nil {
		return c20Outcome{Stage: "v2-parse", Err: err.Error()}
	}
	have := c20Columns(db, rec, sp.Table)
	for _, c := range st2.Schema.DBNames {
		if f := st2.Schema.FieldsByDBName[c]; f != nil && f.IgnoreMigration {
			continue
		}
		if !have[c] {
			out.Stage, out.Verdict = "v2", "column of the v2 model missing after AutoMigrate(v2): "+c
			return
		}
	}
	// a v2 record is accepted and returned
	// … including its associations, wherever the AutoMigrate calls must have produced the related tables (c20_opts.go)
	recv := c20Record(t2, sp.V2, sp.Rows+3)
	stg, vd, ex, ob, got := c20CreateNested(db, rec, st2.Schema, recv, dem2, sp.Rows+3)
	switch stg {
	case "":
	case "nest":
		return c20Outcome{Stage: "nest-v2", Err: ob}
	default:
		out.Stage, out.Err, out.Verdict, out.Expected, out.Observed = "v2-"+stg, ob, strings.Replace(vd, "of the model", "of the v2 model", 1), ex, ob
		out.Master = c20Master(db, rec)
		return
	}
	for i, f := range sp.V2 {
		if c20IsRel(f.Kind) {
			continue
		}
		if c20Embeds(f.Kind) || f.Kind == "audit" || f.Kind == "stamp" {
			// member-wise, and only the members that OWN their column (another field may shadow it: schema.Parse decides)
			if name, e, o := c20EmbeddedSame(db, st2.Schema, f.Name, recv, got); name != "" {
				out.Stage, out.Verdict = "v2-read", "field "+f.Name+"."+name+" of the v2 record read back differently"
				out.Expected, out.Observed = e, o
				return
			}
			continue
		}
		if fd := st2.Schema.LookUpField(f.Name); fd == nil && f.Kind != "audit" && f.Kind != "stamp" {
			continue
		} else if fd != nil && (!fd.Readable || !fd.Creatable) {
			continue
		} else if fd != nil && fd.DBName != "" && st2.Schema.FieldsByDBName[fd.DBName] != fd {
			continue // the field lost its column to another field of the model: not stored by design
		}
		if !c20SameScalar(recv.Elem().Field(i), got.Elem().Field(i)) {
			out.Stage, out.Verdict = "v2-read", "field "+f.Name+" of the v2 record read back differently"
			out.Expected, out.Observed = fmt.Sprint(recv.Elem().Field(i).Interface()), fmt.Sprint(got.Elem().Field(i).Interface())
			return
		}
	}
	// --- (C) what v2 declares EXISTS (c20_exist.go): structure + behaviour + gorm's own Has* answers
	oldNames := map[string]bool{}
	for _, f := range sp.V1 {
		oldNames[f.Name] = true
	}
	want := noFK(c20WantOf(sp.Table, c20Owners(sp.V2), oldNames))
	{ // latitude: an index NAME that v1 already declared with other members is a CHANGED index, not an added one:
		// AutoMigrate looks indexes up by name and leaves it alone; the property only speaks about additions.
		w1 := c20WantOf(sp.Table, c20Owners(sp.V1), nil)
		var keep []c20WantIdx
		for _, wi := range want.Idx {
			changed := false
			for _, o := range w1.Idx {
				if wi.Name != "" && o.Name == wi.Name && (!c20SameCols(o.Cols, wi.Cols, false) || o.Unique != wi.Unique) {
					changed = true
				}
			}
			if !changed {
				keep = append(keep, wi)
			}
		}
		want.Idx = keep
	}
	classOf := map[string]string{}
	for _, f := range c20Owners(sp.V2) {
		classOf[c20ColName(f.Name, f.Tag)] = c20Class(f.Kind)
	}
	fail := func(stage, v, e, o string) c20Outcome {
		out.Stage, out.Verdict, out.Expected, out.Observed = stage, v, e, o
		out.Master = c20Master(db, rec)
		return out
	}
	if !plain {
		want = c20Want{}
	}
	if v, e, o := c20JudgeStructure(db, rec, sp.Table, want, false, classOf); v != "" {
		return fail("v2-exists", v, e, o)
	}
	if v, e, o := "", "", ""; plain {
		if v, e, o = c20JudgeAsk(db, m2, want, false, cfg.DisableFK || cfg.IgnoreRel); v != "" {
			return fail("v2-exists", v, e, o)
		}
	}
	// added columns with a declared non-NULL default: the existing rows carry a value (ADD COLUMN used the full definition)
	for _, wc := range want.Cols {
		if wc.Added && wc.HasDefault {
			var n int64
			c20Quiet(rec, func() {
				db.Session(&gorm.Session{NewDB: true}).Raw("SELECT count(*) FROM `" + sp.Table + "` WHERE `" + wc.Col + "` IS NULL").Row().Scan(&n)
			})
			if n > 0 {
				return fail("v2-exists", "added column "+wc.Col+" declares a default but existing rows hold NULL", "0 NULL cells", fmt.Sprint(n))
			}
		}
	}
	// --- (D) a further AutoMigrate(v2): may still add the late `unique` of a new field; afterwards everything exists
	allCols := append([]string(nil), st2.Schema.DBNames...)
	var mig []string
	for _, c := range allCols {
		if f := st2.Schema.FieldsByDBName[c]; f != nil && !f.IgnoreMigration {
			mig = append(mig, c)
		}
	}
	beforeSettle, _ := c20Dump(db, rec, sp.Table, mig)
	rec.Reset()
	err = c20Handle(db, cfg).AutoMigrate(args2...)
	out.Third = c20SchemaStmts(rec.Snapshot())
	if err != nil {
		out.Err = err.Error()
		return fail("settle", "a further AutoMigrate(v2) returned an error", "", err.Error())
	}
	afterSettle, _ := c20Dump(db, rec, sp.Table, mig)
	if canon(beforeSettle) != canon(afterSettle) {
		return fail("settle", "rows changed across a further AutoMigrate(v2)", canon(beforeSettle), canon(afterSettle))
	}
	if v, e, o := c20JudgeStructure(db, rec, sp.Table, want, true, classOf); v != "" {
		return fail("settle", v+" (even after a further AutoMigrate)", e, o)
	}
	if v, e, o := c20JudgeAsk(db, m2, want, true, cfg.DisableFK || cfg.IgnoreRel); v != "" {
		return fail("settle", v+" (even after a further AutoMigrate)", e, o)
	}
	// --- (E) the database now matches v2: one more AutoMigrate(v2) must be silent
	rec.Reset()
	err = c20Handle(db, cfg).AutoMigrate(args2...)
	out.Second = c20SchemaStmts(rec.Snapshot())
	if err != nil {
		out.Err = err.Error()
		return fail("third", "AutoMigrate(v2) on the database two earlier runs produced returned an error", "", err.Error())
	}
	if len(out.Second) > 0 {
		return fail("third", "AutoMigrate(v2) still issues schema-changing statements after two earlier AutoMigrate(v2) runs", "no CREATE/ALTER/DROP", strings.Join(out.Second, " ;; "))
	}
	out.Second = nil
	out.Stage = "ok"
	return
}

func c20ReplayHistory(r *Result, input json.RawMessage) {
	var sp c20Spec
	if err := json.Unmarshal(input, &sp); err != nil {
		r.Note("bad replay input: %v", err)
		return
	}
	c20Judge(r, sp)
}

// c20Judge runs one history and files the outcome.
func c20Judge(r *Result, sp c20Spec) c20Outcome {
	o := c20RunHistory(sp)
	r.H("e2e.stage", o.Stage)
	if o.Verdict != "" {
		m := c20Minimise(sp, o)
		mo := c20RunHistory(m)
		if id := c20Known(m, mo); id != "" && listed(id) {
			r.KnownFinding(id, mo.Verdict+": "+mo.Observed)
		} else {
			r.Violate(Violation{Kind: "e2e", Suite: "history", Input: m, Observed: mo, Expected: mo.Expected, Note: mo.Verdict})
		}
	}
	return o
}

// c20Minimise shrinks a failing history (same stage + same verdict text) by dropping fields and tag parts.
func c20Minimise(sp c20Spec, o c20Outcome) c20Spec {
	same := func(c c20Spec) bool {
		x := c20RunHistory(c)
		return x.Stage == o.Stage && x.Verdict == o.Verdict && x.Err == o.Err
	}
	cur := sp
	{ // configuration and call lists first: the defaults, then one setting at a time
		for _, c := range []func(x *c20Spec){
			func(x *c20Spec) { x.Cfg, x.Extra1, x.Extra2 = nil, nil, nil },
			func(x *c20Spec) { x.Cfg = nil },
			func(x *c20Spec) { x.Qual = "" },
			func(x *c20Spec) { x.Extra1 = nil },
			func(x *c20Spec) { x.Extra2 = nil },
			func(x *c20Spec) { c := x.Cfg.get(); c.Naming = ""; x.Cfg = &c },
			func(x *c20Spec) { c := x.Cfg.get(); c.Prepare, c.SkipTx, c.Handle = false, false, ""; x.Cfg = &c },
			func(x *c20Spec) { c := x.Cfg.get(); c.IgnoreRel = false; x.Cfg = &c },
			func(x *c20Spec) { c := x.Cfg.get(); c.DisableFK = false; x.Cfg = &c },
		} {
			x := cur
			c(&x)
			if x.Cfg != nil && *x.Cfg == (c20Cfg{}) {
				x.Cfg = nil
			}
			if canon(x) != canon(cur) && same(x) {
				cur = x
			}
		}
	}
	if o.Stage == "second" {
		c := cur
		c.V2 = append([]c20Field(nil), c.V1...)
		c.Rows = 1
		if same(c) {
			cur = c
		}
	}
	drop := func(fs []c20Field, name string) []c20Field {
		var out []c20Field
		for _, f := range fs {
			if f.Name != name {
				out = append(out, f)
			}
		}
		return out
	}
	for changed := true; changed; {
		changed = false
		for _, f := range cur.V2 {
			c := cur
			c.V1, c.V2 = drop(cur.V1, f.Name), drop(cur.V2, f.Name)
			if len(c.V2) < len(cur.V2) && len(c.V1) > 0 && same(c) {
				cur, changed = c, true
				break
			}
		}
		if changed {
			continue
		}
		for i, f := range cur.V2 {
			parts := strings.Split(f.Tag, ";")
			if f.Tag == "" {
				continue
			}
			for k := range parts {
				np := append(append([]string(nil), parts[:k]...), parts[k+1:]...)
				c := cur
				c.V2 = append([]c20Field(nil), cur.V2...)
				c.V2[i].Tag = strings.Join(np, ";")
				c.V1 = append([]c20Field(nil), cur.V1...)
				for j := range c.V1 {
					if c.V1[j].Name == f.Name {
						vp := strings.Split(c.V1[j].Tag, ";")
						var keep []string
						for _, p := range vp {
							if p != parts[k] {
								keep = append(keep, p)
							}
						}
						c.V1[j].Tag = strings.Join(keep, ";")
					}
				}
				if same(c) {
					cur, changed = c, true
					break
				}
			}
			if changed {
				break
			}
		}
	}
	cur.Feat = nil
	return cur
}
