package main

// C01 correspondence suites for STRING arguments that are not templates (lean/GormModel/Model/BindStr.lean).
//
//   "atoi"         strconv.Atoi  vs  Gorm.Bind.atoi  (value / error) on the number-spelling alphabet below
//   "strkey"       statement.go Statement.BuildCondition(s, args...) on a real statement with a parsed schema, then
//                  clause.Where.Build  vs  Gorm.Bind.buildCond + render.  The LEAN side decides whether the string is
//                  a number (the older "dispatch" suite of c01_corr2.go hands the result of strconv.Atoi to the model
//                  and skips numeric strings: that is why a changed parse function went unnoticed)
//   "strkey-entry" the exported entry points whose string argument reaches that arm - inline conditions of First / Take /
//                  Last / Find / Delete, Where / Not / Or / Having with zero further arguments - in DryRun: the statement's
//                  Vars are `pre ++ [s]` when the model calls s a key string and `pre` when it calls it a template
//
// Alphabet of "values given as strings": sign (none, +, -, doubled, mixed, U+2212), 0-25 leading zeros (a long run of
// zeros leaves Atoi's fast path), magnitudes (one digit … 30 digits, the int64 / uint64 boundaries ±1), blanks / tabs /
// newlines around, 0x / 0b / 0o prefixes, `_` separators, exponent / fraction suffixes, full-width and Arabic-Indic
// digits, trailing punctuation (`;`, `--`, `/*`, quotes), the empty string and bare signs, UUID-like strings.
// Strings with `?`, `@`, `$` are left to the older suites (their placeholder syntax is what those model).

import (
	"context"
	"encoding/json"
	"fmt"
	"math/rand"
	"os"
	"strconv"
	"strings"

	"gorm.io/gorm"
	"gorm.io/gorm/clause"
)

type C01SkInt struct {
	ID   int64 `gorm:"primaryKey;autoIncrement:false"`
	Name string
	Age  int
}
type C01SkRen struct {
	Key  int64 `gorm:"primaryKey;column:k;autoIncrement:false"`
	Name string
	Age  int
}
type C01SkCode struct {
	Code string `gorm:"primaryKey"`
	Name string
	Age  int
}
type C01SkSoft struct {
	ID        uint
	Name      string
	Age       int
	DeletedAt gorm.DeletedAt
}

var c01SkModels = []struct {
	name string
	mk   func() interface{} // pointer to a fresh struct
	mks  func() interface{} // pointer to a fresh slice
}{
	{"int64 id", func() interface{} { return &C01SkInt{} }, func() interface{} { return &[]C01SkInt{} }},
	{"renamed column k", func() interface{} { return &C01SkRen{} }, func() interface{} { return &[]C01SkRen{} }},
	{"string code", func() interface{} { return &C01SkCode{} }, func() interface{} { return &[]C01SkCode{} }},
	{"soft delete uint id", func() interface{} { return &C01SkSoft{} }, func() interface{} { return &[]C01SkSoft{} }},
}

var c01SkBoundaries = []string{
	"9223372036854775806", "9223372036854775807", "9223372036854775808", "9223372036854775809",
	"18446744073709551614", "18446744073709551615", "18446744073709551616", "2147483647", "2147483648", "4294967295", "4294967296",
	"999999999999999999", "1000000000000000000", "99999999999999999999", "340282366920938463463374607431768211456",
}

var c01SkOdd = []string{
	"", "+", "-", "+-", "--", " ", "0x10", "0X1F", "0b11", "0o17", "017", "1e3", "1E3", "5.0", "5.", ".5", "1_000", "1,000", "１２", "٣٤", "५",
	"5;", "5--", "5 -- x", "5/**/", "5 /* x */", "'5'", "\"5\"", "`5`", "(5)", "5)", "5 OR 1=1", "1b9d6bcd-bbfd-4b2d-9b5d-ab8dfbbd4bed",
	"123e4567-e89b-12d3-a456-426614174000", "12345678-1234-1234-1234-123456789012", "00000000-0000-0000-0000-000000000000", "5L", "5u", "NaN", "inf",
	"-inf", "true", "null", "NULL", "0-1", "1-", "1+1", "\t7", "7\n", "7\x00", "−5", "－5", " 5", "5 ", "\ufeff5",
}

// c01SkSpell: one spelling with a label of the dimension it varies
func c01SkSpell(rng *rand.Rand) (string, string) {
	digits := func(n int) string {
		b := make([]byte, n)
		for i := range b {
			b[i] = byte('0' + rng.Intn(10))
		}
		if n > 0 && b[0] == '0' {
			b[0] = byte('1' + rng.Intn(9))
		}
		return string(b)
	}
	sign := func() string {
		switch k := rng.Intn(12); {
		case k < 4:
			return ""
		case k < 7:
			return "-"
		case k < 10:
			return "+"
		case k == 10:
			return []string{"--", "++", "+-", "-+"}[rng.Intn(4)]
		}
		return []string{"−", "＋", "－"}[rng.Intn(3)]
	}
	mag := func() string {
		switch rng.Intn(8) {
		case 0:
			return strconv.Itoa(rng.Intn(10))
		case 1:
			return strconv.Itoa(rng.Intn(1000))
		case 2:
			return digits(9 + rng.Intn(2)) // around the int32 / 10-byte boundary
		case 3:
			return digits(17 + rng.Intn(4)) // 17..20 digits: fast path / slow path / out of range
		case 4:
			return c01SkBoundaries[rng.Intn(len(c01SkBoundaries))]
		case 5:
			return digits(21 + rng.Intn(12))
		case 6:
			return "0"
		}
		return strconv.Itoa(700000 + rng.Intn(99999))
	}
	zeros := func() string {
		switch rng.Intn(5) {
		case 0:
			return strings.Repeat("0", 1+rng.Intn(3))
		case 1:
			return strings.Repeat("0", 10+rng.Intn(16))
		}
		return ""
	}
	switch k := rng.Intn(20); {
	case k < 9:
		return sign() + zeros() + mag(), "sign.zeros.digits"
	case k < 11:
		s := sign() + zeros() + mag()
		ws := []string{" ", "\t", "\n", "\r", "  ", " ", "　"}[rng.Intn(7)]
		switch rng.Intn(3) {
		case 0:
			return ws + s, "blank before"
		case 1:
			return s + ws, "blank after"
		}
		return sign() + ws + mag(), "blank after sign"
	case k < 13:
		s := mag()
		switch rng.Intn(7) {
		case 0:
			return sign() + "0x" + s, "0x prefix"
		case 1:
			return sign() + s + "e" + strconv.Itoa(rng.Intn(4)), "exponent"
		case 2:
			return sign() + s + "." + strconv.Itoa(rng.Intn(10)), "fraction"
		case 3:
			if len(s) > 1 {
				return sign() + s[:1] + "_" + s[1:], "underscore"
			}
			return sign() + s + "_", "underscore"
		case 4:
			return sign() + s + []string{";", "--", "/*", "'", "\"", ")", " OR 1=1", "-", "+"}[rng.Intn(9)], "trailing punctuation"
		case 5:
			fw := []rune{}
			for _, c := range s {
				fw = append(fw, c-'0'+[]rune{'０', '٠', '०'}[rng.Intn(3)])
			}
			return sign() + string(fw), "non-ASCII digits"
		}
		return sign() + s[:len(s)/2] + sign() + s[len(s)/2:], "sign inside"
	case k < 15:
		b := c01SkBoundaries[rng.Intn(len(c01SkBoundaries))]
		return []string{"", "-", "+"}[rng.Intn(3)] + zeros() + b, "boundary"
	case k < 19:
		return c01SkOdd[rng.Intn(len(c01SkOdd))], "odd"
	}
	return "name", "identifier"
}

type c01SkIn struct {
	S     string        `json:"s"`
	Args  []interface{} `json:"args"` // model encoding
	Model int           `json:"model"`
	Entry string        `json:"entry"`
	Shape string        `json:"shape"`
}

var c01SkEntries = []string{"First", "Take", "Last", "Find", "Delete", "Where.Find", "Where.Count", "Where.Update", "Where.Delete", "Not.Find", "Where.Or.Find", "Group.Having.Find", "Where.First", "Kept.Where.Find+Count"}

func c01SkGen(rng *rand.Rand) c01SkIn {
	in := c01SkIn{Model: rng.Intn(len(c01SkModels)), Entry: c01SkEntries[rng.Intn(len(c01SkEntries))], Args: []interface{}{}}
	in.S, in.Shape = c01SkSpell(rng)
	sc := func() interface{} {
		if rng.Intn(2) == 0 {
			return []interface{}{"s", "i:" + strconv.Itoa(rng.Intn(2000)-5)}
		}
		s, _ := c01SkSpell(rng)
		return []interface{}{"s", "s:" + s}
	}
	switch rng.Intn(10) {
	case 0:
		in.Args = []interface{}{sc()}
	case 1:
		in.Args = []interface{}{sc(), sc()}
	case 2:
		in.Args = []interface{}{[]interface{}{"l", true, []interface{}{[]interface{}{"s", "i:3"}, []interface{}{"s", "i:-4"}}, "s:i"}}
	}
	return in
}

func c01SkStrip(s string) string { return strings.NewReplacer("?", "", "@", "", "$", "").Replace(s) }

func c01CompareStrKey(r *Result, dialect string, inputs []c01SkIn) {
	ctx := &c01Ctx{db: c01OpenDummy(dialect)}
	type realOut struct {
		sql, pan, esql string
		vars, evars    []interface{}
		pk             []interface{}
		atoiOK         bool
		atoiV          int
		eskip          bool
	}
	enc := func(vars []interface{}) []interface{} {
		return c01Strip(c01EncList(len(vars), func(k int) interface{} { return vars[k] })).([]interface{})
	}
	reals := make([]realOut, len(inputs))
	ops := make([][]interface{}, 0, 2*len(inputs))
	for i, in := range inputs {
		ro := &reals[i]
		ro.atoiV, ro.atoiOK = 0, false
		if n, err := strconv.Atoi(in.S); err == nil {
			ro.atoiV, ro.atoiOK = n, true
		}
		func() {
			defer func() {
				if e := recover(); e != nil {
					ro.pan = fmt.Sprint(e)
				}
			}()
			args := ctx.list(in.Args)
			// ---- BuildCondition itself
			stmt := &gorm.Statement{DB: ctx.db.Session(&gorm.Session{NewDB: true}), Clauses: map[string]clause.Clause{}, Context: context.Background()}
			if err := stmt.Parse(c01SkModels[in.Model].mk()); err != nil {
				panic(err)
			}
			pk := stmt.Schema.PrioritizedPrimaryField.DBName
			ro.pk = []interface{}{"col", stmt.Table, pk, "", false}
			if conds := stmt.BuildCondition(in.S, args...); len(conds) > 0 {
				clause.Where{Exprs: conds}.Build(stmt)
			}
			ro.sql, ro.vars = stmt.SQL.String(), enc(stmt.Vars)
			// ---- entry points (zero further arguments)
			if len(in.Args) > 0 {
				ro.eskip = true
				return
			}
			dry := ctx.db.Session(&gorm.Session{DryRun: true, NewDB: true})
			m, ms := c01SkModels[in.Model].mk(), c01SkModels[in.Model].mks()
			var res *gorm.DB
			var n int64
			switch in.Entry {
			case "First":
				res = dry.First(m, in.S)
			case "Take":
				res = dry.Take(m, in.S)
			case "Last":
				res = dry.Last(m, in.S)
			case "Find":
				res = dry.Find(ms, in.S)
			case "Delete":
				res = dry.Delete(m, in.S)
			case "Where.Find":
				res = dry.Where(in.S).Find(ms)
			case "Where.First":
				res = dry.Where(in.S).First(m)
			case "Where.Count":
				res = dry.Model(m).Where(in.S).Count(&n)
			case "Where.Update":
				res = dry.Model(m).Where(in.S).Update("name", "v")
			case "Where.Delete":
				res = dry.Where(in.S).Delete(m)
			case "Not.Find":
				res = dry.Not(in.S).Find(ms)
			case "Where.Or.Find":
				res = dry.Where("age > ?", 7).Or(in.S).Find(ms)
			case "Group.Having.Find":
				res = dry.Group("name").Having(in.S).Find(ms)
			default: // a kept handle, two finishers: the second statement is the one observed
				h := dry.Model(m).Where(in.S)
				h.Find(ms)
				res = h.Count(&n)
			}
			ro.esql, ro.evars = res.Statement.SQL.String(), enc(res.Statement.Vars)
		}()
		ops = append(ops, []interface{}{"bind.atoi", in.S})
		pkj := interface{}(ro.pk)
		if ro.pk == nil {
			pkj = []interface{}{"col", "t", "id", "", false}
		}
		ops = append(ops, []interface{}{"bind.cond2", dialect, pkj, in.S, in.Args})
	}
	outs, err := AskLean(ops)
	if err != nil {
		r.Violate(Violation{Kind: "correspondence", Suite: "strkey", Note: err.Error()})
		return
	}
	for i, in := range inputs {
		ro := &reals[i]
		input := map[string]interface{}{"dialect": dialect, "strkey": in}
		r.H("strkey.shape", in.Shape)
		r.H("strkey.model", c01SkModels[in.Model].name)
		r.H("strkey.args", fmt.Sprint(len(in.Args)))
		// ---- atoi
		var av *string
		_ = json.Unmarshal(outs[2*i], &av)
		r.CorrCompared++
		r.Case("atoi", in.S, ro.atoiOK)
		r.H("atoi.real", map[bool]string{true: "number", false: "error"}[ro.atoiOK])
		if (av != nil) != ro.atoiOK || (av != nil && *av != strconv.Itoa(ro.atoiV)) {
			r.Violate(Violation{Kind: "correspondence", Suite: "atoi", Input: input, Observed: map[string]interface{}{"ok": ro.atoiOK, "value": ro.atoiV},
				Expected: av, Note: "strconv.Atoi vs Lean Gorm.Bind.atoi"})
		}
		// ---- BuildCondition
		var c2 struct {
			Key bool            `json:"key"`
			Out json.RawMessage `json:"out"`
		}
		if e := json.Unmarshal(outs[2*i+1], &c2); e != nil {
			r.Violate(Violation{Kind: "correspondence", Suite: "strkey", Input: input, Observed: string(outs[2*i+1]), Note: "model rejected the input (" + e.Error() + ")"})
			continue
		}
		r.H("strkey.class", map[bool]string{true: "key string (bound)", false: "template / other arm"}[c2.Key])
		if ro.pan != "" {
			r.H("strkey.real-panic", c01Trunc(ro.pan, 40))
			continue
		}
		oddIdent := !c2.Key && len(in.Args) == 1 && !strings.ContainsAny(strings.TrimSpace(in.S), " ?@") && (in.S == "" || strings.Trim(in.S, "abcdefghijklmnopqrstuvwxyz_") != "")
		special := strings.ContainsAny(in.S, "?@$")
		if string(c2.Out) == `"fallthrough"` {
			r.H("strkey.arm", "fallthrough (generic loop, not modelled)")
		} else if oddIdent || special {
			// `column = value` form with a text that is not a plain identifier (dialector quoting is Seg.quoted), or
			// placeholder syntax inside the spelling: the older suites
			r.H("strkey.arm", "skipped (odd identifier / placeholder syntax)")
		} else {
			var m c01Out
			if e := json.Unmarshal(c2.Out, &m); e != nil {
				r.Violate(Violation{Kind: "correspondence", Suite: "strkey", Input: input, Observed: string(c2.Out), Note: "model rejected the input (" + e.Error() + ")"})
				continue
			}
			r.CorrCompared++
			r.Case("strkey", dialect+canon(in.S)+canon(in.Args)+fmt.Sprint(in.Model), len(ro.vars) >= 1)
			switch {
			case c2.Key:
				r.H("strkey.arm", "IN{PrimaryColumn, [s, args...]}")
			case in.S == "" && len(in.Args) == 0:
				r.H("strkey.arm", "empty: no condition")
			case len(in.Args) == 0:
				r.H("strkey.arm", "template without arguments")
			default:
				r.H("strkey.arm", "template / column with arguments")
			}
			if m.Oof || m.Unsupported || m.SQL != ro.sql || canon(m.Vars) != canon(ro.vars) {
				r.Violate(Violation{Kind: "correspondence", Suite: "strkey", Input: input,
					Observed: map[string]interface{}{"sql": ro.sql, "vars": ro.vars},
					Expected: map[string]interface{}{"sql": m.SQL, "vars": m.Vars, "oof": m.Oof, "key": c2.Key},
					Note:     "statement.go Statement.BuildCondition (string arm) vs Lean Gorm.Bind.buildCond (numeric-ness decided by Gorm.Bind.atoi)"})
			}
		}
		// ---- entry points
		if ro.eskip || special {
			continue
		}
		// Latitude: values gorm binds on its own account (LIMIT of First / Take / Last under a dialector without its own LIMIT
		// builder, `deleted_at` of a soft delete, the Update value) are not judged here: only whether THE STRING is among the
		// bound values (exactly once for a key string, never for a template) and placeholders = values.
		self, count := canon([]interface{}{"s", "s:" + in.S}), 0
		for _, v := range ro.evars {
			if canon(v) == self {
				count++
			}
		}
		want := 0
		if c2.Key {
			want = 1
		}
		r.CorrCompared++
		r.Case("strkey-entry", dialect+in.Entry+canon(in.S)+fmt.Sprint(in.Model), c2.Key)
		r.H("strkey-entry.entry x class", in.Entry+" x "+map[bool]string{true: "key", false: "template"}[c2.Key])
		if count != want || len(c01PlainPlaceholders(ro.esql)) != len(ro.evars) {
			r.Violate(Violation{Kind: "correspondence", Suite: "strkey-entry", Input: input,
				Observed: map[string]interface{}{"sql": ro.esql, "vars": ro.evars},
				Expected: map[string]interface{}{"occurrences of the string among Vars": want, "key": c2.Key},
				Note:     "Statement.Vars after the DryRun entry point vs the model's classification of the string (key string: bound; otherwise a template by design: no value)"})
		}
	}
}

func init() {
	register("C01", func(r *Result, rng *rand.Rand, tier string) {
		n := 2500
		if tier == "thorough" {
			n = 60000
		} else if tier == "search" {
			n = 10000
		}
		for _, dialect := range []string{"qmark", "dollar"} {
			ins := make([]c01SkIn, n)
			for i := range ins {
				ins[i] = c01SkGen(rng)
			}
			for lo := 0; lo < n && !expired(); lo += 10000 {
				hi := lo + 10000
				if hi > n {
					hi = n
				}
				c01CompareStrKey(r, dialect, ins[lo:hi])
			}
		}
	})
	rep := func(r *Result, input json.RawMessage) {
		var in struct {
			Dialect string  `json:"dialect"`
			In      c01SkIn `json:"strkey"`
		}
		if err := json.Unmarshal(input, &in); err != nil {
			r.Note("bad replay input: %v", err)
			return
		}
		for i, a := range os.Args {
			if (a == "-driver" || a == "--driver") && i+1 < len(os.Args) {
				driverPath = os.Args[i+1]
			}
		}
		c01CompareStrKey(r, in.Dialect, []c01SkIn{in.In})
	}
	replayers["C01/strkey"] = rep
	replayers["C01/strkey-entry"] = rep
	replayers["C01/atoi"] = rep
}
