package main

// C04: transaction blocks commit everything on success and nothing on error or panic.
//
// tie  (suite "tie"):  the SAME program tree + fault mask + configuration is run on real gorm (c04_run.go) and on the Lean
//                      model (`tx.run`, Model/Tx.lean); compared: final table, outcome (nil / error atoms / panic tag),
//                      open driver transactions, sql.DB.Stats().InUse, the sequence of driver call kinds incl. which one was
//                      failed (pins the control flow), every read result inside the program, the stale-handle flag.
// e2e  (suite "e2e"):  the same real runs judged by the snapshot-stack reference of the PROPERTY that c04_run.go advances from
//                      the observed results (judgeBlk / c04Ref) — independent of the Lean model.
//                      Latitude: runs in which a fault hit a ROLLBACK TO statement are outside the property's fault list
//                      (BEGIN/COMMIT/SAVEPOINT/statement) and are not judged; a failing COMMIT/BEGIN/SAVEPOINT may be reported
//                      by any error that wraps the driver's error.

import (
	"database/sql"
	"encoding/json"
	"fmt"
	"math/rand"
	"os"
	"sort"
	"strings"
	"sync"

	"gorm.io/gorm"
)

var (
	memMu  sync.Mutex
	memC04 int64
)

const c04Finding = "F18-C04-sticky-savepoint-error"
const c04FindingLeak = "F27-C04-begin-on-failed-handle"

// c04Facts: the regenerated fact (extract/gen_c04.go → Gen/BeginFacts.lean, read through the Lean driver) that tells whether
// the repair of F27 is present in the tree under test. It selects the model's transcription of Begin (Lean side) and switches
// the generators: a repaired pattern is ordinary input space and is no longer avoided.
type c04FactsT struct {
	BeginChecksError bool `json:"beginChecksError"`
}

var c04FactsCache *c04FactsT

func c04Facts() c04FactsT {
	if c04FactsCache == nil {
		f := c04FactsT{}
		if outs, err := AskLean([][]interface{}{{"tx.facts"}}); err == nil && len(outs) == 1 {
			_ = json.Unmarshal(outs[0], &f)
		}
		c04FactsCache = &f
	}
	return *c04FactsCache
}

// c04AvoidLeak: while F27 is a listed finding of an unrepaired tree the random generators produce its pattern (Transaction /
// Begin outside a transaction on a handle that carries an error) only now and then, so that exploration continues beyond it
func c04AvoidLeak() bool { return listed(c04FindingLeak) && !c04Facts().BeginChecksError }

type c04Case struct {
	Cfg     c04Cfg        `json:"cfg"`
	Initial []int64       `json:"initial"`
	Body    []interface{} `json:"body"`
	Mask    []int         `json:"mask"`
	AllowRb bool          `json:"allow_rb"`
	PK      int           `json:"pk"` // which Go values stand for the panic payloads / user errors of the program (offset into the alphabets)
	EK      int           `json:"ek"` // which Go value a failed COMMIT returns
	body    []*c04Node
}

// ---------------------------------------------------------------- generators

type c04Gen struct {
	rng    *rand.Rand
	nextID int64
	known  []int64 // ids that may exist (targets for deletes)
	tags   int64
}

func (g *c04Gen) id() int64 { g.nextID++; g.known = append(g.known, g.nextID); return g.nextID }
func (g *c04Gen) tag() int64 { g.tags++; return g.tags }

// random tree: depth ≤ d, ≤ maxKids children per body
func (g *c04Gen) body(d int, inTx bool, maxKids int, top bool) []*c04Node {
	n := g.rng.Intn(maxKids + 1)
	if top && n == 0 {
		n = 1
	}
	var out []*c04Node
	var names []int64
	for i := 0; i < n; i++ {
		r := g.rng.Intn(100)
		must := g.rng.Intn(100) < 65
		switch {
		case r < 30:
			out = append(out, &c04Node{K: "w", ID: g.id(), Must: must})
		case r < 37 && len(g.known) > 0:
			out = append(out, &c04Node{K: "d", ID: g.known[g.rng.Intn(len(g.known))], Must: must})
		case r < 40:
			out = append(out, &c04Node{K: "u", ID: 1, Must: must})
		case r < 47:
			out = append(out, &c04Node{K: "q", Must: must})
		case r < 57 && inTx:
			nm := int64(1 + g.rng.Intn(3))
			names = append(names, nm)
			out = append(out, &c04Node{K: "sp", ID: nm, Must: must})
		case r < 66 && inTx:
			var nm int64
			if len(names) > 0 && g.rng.Intn(10) < 9 {
				nm = names[g.rng.Intn(len(names))]
			} else {
				nm = int64(1 + g.rng.Intn(4)) // possibly an outer / unknown name
			}
			out = append(out, &c04Node{K: "rb", ID: nm, Must: must})
		case r < 72 && r >= 66 && d > 0:
			out = append(out, g.failed(d, inTx, maxKids, must))
		case r < 80 && r >= 66 && d > 0:
			out = append(out, g.derive(d, inTx, maxKids, must))
		case r < 84 && d > 0 && (!inTx || g.rng.Intn(4) == 0):
			nd := &c04Node{K: "man", Body: g.body(d-1, true, maxKids, false), Out: g.rng.Intn(2), Must: must}
			if !inTx && g.rng.Intn(6) == 0 {
				nd = g.withEnd(nd)
			}
			out = append(out, nd)
		case d > 0:
			nd := &c04Node{K: "blk", Body: g.body(d-1, true, maxKids, false), Out: c04OutDist(g.rng), ID: g.tag(), Must: must}
			if !inTx && g.rng.Intn(6) == 0 {
				nd = g.withEnd(nd)
			}
			out = append(out, nd)
		default:
			out = append(out, &c04Node{K: "w", ID: g.id(), Must: must})
		}
	}
	return out
}

// derive node: a random derivation kind; single-use (clone = 0) derivations get exactly one operation / block / further
// derivation, the others a whole body. The derived handle is used INSIDE transactions, and Transaction / Begin are invoked
// ON derived handles (chained clone = 0 and Session-derived clone = 2 ones included).
func (g *c04Gen) derive(d int, inTx bool, maxKids int, must bool) *c04Node {
	kind := c04DeriveKinds[g.rng.Intn(len(c04DeriveKinds))]
	if g.rng.Intn(3) == 0 { // the pool-changing / flag-changing classes are the interesting ones: over-sample
		kind = []string{"prep:Session", "prep:Context", "prep:All", "newdb:Session", "where:Ne", "skiptx:Session", "disnested:Session"}[g.rng.Intn(7)]
	}
	n := &c04Node{K: "dv", Kind: kind, Must: must}
	if kind == "where:Ne" {
		n.ID = 102 + int64(g.rng.Intn(2)) // 102 exists initially, 103 never does; neither is ever inserted
		if g.rng.Intn(8) == 0 && len(g.known) > 0 {
			n.ID = g.known[g.rng.Intn(len(g.known))] // an id the program inserts / deletes: `DELETE … id <> k AND id = k`
		}
	}
	if c04SingleUse[kind] && g.rng.Intn(2) == 0 {
		n.Body = g.reuseBody(d, inTx, maxKids)
		return n
	}
	if g.rng.Intn(12) == 0 {
		n.Kind = "chain:Finisher"
		n.Body = append([]*c04Node{{K: "w", ID: g.id(), Must: true}}, g.reuseBody(d, inTx, maxKids)...)
		return n
	}
	if !c04SingleUse[kind] {
		n.Body = g.body(d-1, inTx, maxKids, false)
		if len(n.Body) == 0 {
			n.Body = []*c04Node{{K: "w", ID: g.id(), Must: true}}
		}
		return n
	}
	m := g.rng.Intn(100) < 65
	switch r := g.rng.Intn(10); {
	case r < 2:
		n.Body = []*c04Node{{K: "w", ID: g.id(), Must: m}}
	case r < 3 && len(g.known) > 0:
		n.Body = []*c04Node{{K: "d", ID: g.known[g.rng.Intn(len(g.known))], Must: m}}
	case r < 4:
		n.Body = []*c04Node{{K: "q", Must: m}}
	case r < 7:
		n.Body = []*c04Node{{K: "blk", Body: g.body(d-1, true, maxKids, false), Out: c04OutDist(g.rng), ID: g.tag(), Must: m}}
	case r < 8 && !inTx:
		n.Body = []*c04Node{{K: "man", Body: g.body(d-1, true, maxKids, false), Out: g.rng.Intn(2), Must: m}}
	default:
		n.Body = []*c04Node{g.derive(d-1, inTx, maxKids, m)}
	}
	return n
}

// failed: user code goes on working through a handle that ALREADY CARRIES AN ERROR (its own AddError on a Session / WithContext
// handle, or the handle a failed finisher returned): writes, reads, save points, Transaction blocks, manual sequences, further
// derivations and further failed handles — at top level, inside blocks, inside manual sequences. No "end" nodes below.
func (g *c04Gen) failed(d int, inTx bool, maxKids int, must bool) *c04Node {
	n := &c04Node{K: "fh", Kind: c04FailKinds[g.rng.Intn(len(c04FailKinds))], ID: g.tag(), Must: must}
	beginOK := inTx || !c04AvoidLeak() || g.rng.Intn(8) == 0
	n.Body = g.failedBody(d, inTx, maxKids, beginOK)
	return n
}

func (g *c04Gen) failedBody(d int, inTx bool, maxKids int, beginOK bool) []*c04Node {
	k := 1 + g.rng.Intn(maxKids)
	var out []*c04Node
	for i := 0; i < k; i++ {
		must := g.rng.Intn(100) < 40
		switch r := g.rng.Intn(100); {
		case r < 15:
			out = append(out, &c04Node{K: "w", ID: g.id(), Must: must})
		case r < 20 && len(g.known) > 0:
			out = append(out, &c04Node{K: "d", ID: g.known[g.rng.Intn(len(g.known))], Must: must})
		case r < 25:
			out = append(out, &c04Node{K: "u", ID: 1, Must: must})
		case r < 32:
			out = append(out, &c04Node{K: "q", Must: must})
		case r < 40 && inTx:
			out = append(out, &c04Node{K: []string{"sp", "rb"}[g.rng.Intn(2)], ID: int64(1 + g.rng.Intn(3)), Must: must})
		case r < 65 && d > 0 && beginOK:
			out = append(out, &c04Node{K: "blk", Body: g.plainBody(d-1, maxKids), Out: c04OutDist(g.rng), ID: g.tag(), Must: must})
		case r < 80 && d > 0 && beginOK:
			out = append(out, &c04Node{K: "man", Body: g.plainBody(d-1, maxKids), Out: g.rng.Intn(2), Must: must})
		case r < 90 && d > 0:
			kind := []string{"keep:Session", "newdb:Session", "prep:Session", "chain:Model", "keep:WithContext", "skiptx:Session", "disnested:Session", "debug:Debug"}[g.rng.Intn(8)]
			out = append(out, &c04Node{K: "dv", Kind: kind, Body: g.failedBody(d-1, inTx, maxKids, beginOK), Must: must})
		case d > 0:
			out = append(out, &c04Node{K: "fh", Kind: c04FailKinds[g.rng.Intn(len(c04FailKinds))], ID: g.tag(),
				Body: g.failedBody(d-1, inTx, maxKids, beginOK), Must: must})
		default:
			out = append(out, &c04Node{K: "w", ID: g.id(), Must: must})
		}
	}
	return out
}

// plainBody: a function body without "end" nodes (writes, reads, nested blocks)
func (g *c04Gen) plainBody(d int, maxKids int) []*c04Node {
	k := g.rng.Intn(maxKids + 1)
	var out []*c04Node
	for i := 0; i < k; i++ {
		must := g.rng.Intn(100) < 65
		switch r := g.rng.Intn(10); {
		case r < 5:
			out = append(out, &c04Node{K: "w", ID: g.id(), Must: must})
		case r < 7:
			out = append(out, &c04Node{K: "q", Must: must})
		case d > 0:
			out = append(out, &c04Node{K: "blk", Body: g.plainBody(d-1, maxKids), Out: c04OutDist(g.rng), ID: g.tag(), Must: must})
		default:
			out = append(out, &c04Node{K: "w", ID: g.id(), Must: must})
		}
	}
	return out
}

// reuseBody: SEVERAL operations through ONE chained (clone = 0) handle kept in a variable — `h := tx.Model(&T{}).Where(…)`, the
// handle returned by a finisher, … — every one of them must run where the handle belongs (the block's transaction / the pool).
// Operations that compose on a shared Statement: Create, Update of the non-key column, Find, SavePoint, RollbackTo; a Delete
// (its key condition stays in the Statement) or a Transaction block only as the LAST one. All are `must`: a chained handle that
// recorded an error refuses everything after it (gorm's documented behaviour for reused chains, not a matter of this property).
func (g *c04Gen) reuseBody(d int, inTx bool, maxKids int) []*c04Node {
	n := 2 + g.rng.Intn(3)
	var out []*c04Node
	var names []int64
	seenQ := false
	for i := 0; i < n; i++ {
		switch r := g.rng.Intn(100); {
		case r < 40:
			out = append(out, &c04Node{K: "w", ID: g.id(), Must: true})
		case r < 65 && !seenQ: // (a Find leaves its FROM clause in the shared Statement; UPDATE … FROM <same table> is rejected by SQLite)
			out = append(out, &c04Node{K: "u", ID: 1, Must: true})
		case r < 80:
			seenQ = true
			out = append(out, &c04Node{K: "q", Must: true})
		case r < 90 && inTx:
			nm := int64(1 + g.rng.Intn(3))
			names = append(names, nm)
			out = append(out, &c04Node{K: "sp", ID: nm, Must: true})
		case inTx && len(names) > 0:
			out = append(out, &c04Node{K: "rb", ID: names[g.rng.Intn(len(names))], Must: true})
		default:
			out = append(out, &c04Node{K: "w", ID: g.id(), Must: true})
		}
	}
	switch r := g.rng.Intn(10); {
	case r < 2 && len(g.known) > 0:
		out = append(out, &c04Node{K: "d", ID: g.known[g.rng.Intn(len(g.known))], Must: true})
	case r < 4 && d > 0:
		// a Transaction invoked on the used handle clones its Statement with everything the earlier operations left in it
		// (Model of the first Create, FROM of a Find): only creates and reads inside
		blk := &c04Node{K: "blk", Out: c04OutDist(g.rng), ID: g.tag(), Must: g.rng.Intn(2) == 0}
		for i, m := 0, 1+g.rng.Intn(3); i < m; i++ {
			if g.rng.Intn(3) == 0 {
				blk.Body = append(blk.Body, &c04Node{K: "q", Must: true})
			} else {
				blk.Body = append(blk.Body, &c04Node{K: "w", ID: g.id(), Must: g.rng.Intn(3) != 0})
			}
		}
		out = append(out, blk)
	}
	return out
}

// endNode: somewhere below an outermost block / manual sequence the transaction is ended underneath the running function
func (g *c04Gen) endNode(how int64) *c04Node { return &c04Node{K: "end", ID: how, Must: g.rng.Intn(4) != 0} }

// withEnd puts ONE "end" node into the tree below the outermost transaction `root` (a blk or man node): Rollback() / Commit()
// inside the function at a random position of a random body of the tree; a context cancellation as the last statement of the
// outermost function (after it the handles answer with the context's error rather than sql.ErrTxDone — not modelled)
func (g *c04Gen) withEnd(root *c04Node) *c04Node {
	how := int64(g.rng.Intn(3))
	if how == 1 {
		root.Body = append(root.Body, g.endNode(1))
		return &c04Node{K: "dv", Kind: "keep:WithCancel", Body: []*c04Node{root}, Must: root.Must}
	}
	// collect the bodies that are executed on handles of this transaction (not those of chained single-use handles)
	bodies := []*c04Node{root}
	var walk func(n *c04Node)
	walk = func(n *c04Node) {
		for _, c := range n.Body {
			if c.K == "blk" || (c.K == "dv" && !c04SingleUse[c.Kind]) {
				bodies = append(bodies, c)
				walk(c)
			}
		}
	}
	walk(root)
	b := bodies[g.rng.Intn(len(bodies))]
	pos := g.rng.Intn(len(b.Body) + 1)
	nb := append([]*c04Node{}, b.Body[:pos]...)
	nb = append(nb, g.endNode(how))
	b.Body = append(nb, b.Body[pos:]...)
	return root
}

// exhaustive derive family: every derivation kind at every site — the block invoked ON the derived handle (top level and
// nested), writes / save points THROUGH a derived handle inside a block and inside a manual sequence, and the derived
// handle itself derived from a per-session PrepareStmt handle (tx pool = *PreparedStmtTX also without Config.PrepareStmt)
func c04DeriveFamily() [][]*c04Node {
	var res [][]*c04Node
	w := func(id int64) *c04Node { return &c04Node{K: "w", ID: id, Must: true} }
	q := func() *c04Node { return &c04Node{K: "q", Must: true} }
	for _, kind := range c04DeriveKinds {
		arg := int64(0)
		if kind == "where:Ne" {
			arg = 102
		}
		dv := func(must bool, kids ...*c04Node) *c04Node {
			return &c04Node{K: "dv", Kind: kind, ID: arg, Body: kids, Must: must}
		}
		outer := func(k string, kids ...*c04Node) *c04Node { return &c04Node{K: "dv", Kind: k, Body: kids, Must: true} }
		for out := 0; out < 3; out++ {
			// T1: the block is invoked on the derived handle
			res = append(res, []*c04Node{dv(false, &c04Node{K: "blk", Body: []*c04Node{w(1), q()}, Out: out, ID: 1, Must: true}), w(2), q()})
			// T2: a write through a derived handle inside the block
			res = append(res, []*c04Node{{K: "blk", Body: []*c04Node{w(1), dv(true, w(2)), q()}, Out: out, ID: 1, Must: false}, q()})
			// T3: a nested block invoked on a derived handle (ignored by the outer function, which returns nil)
			res = append(res, []*c04Node{{K: "blk", Body: []*c04Node{w(1),
				dv(false, &c04Node{K: "blk", Body: []*c04Node{w(2), q()}, Out: out, ID: 1, Must: true}), q()}, Out: 0, ID: 2, Must: true}, q()})
			// T8: nested block inside a block that was itself invoked on the derived handle (the transaction handle is then a
			//     clone = 2 handle carrying the derivation's Statement); reads at both levels
			res = append(res, []*c04Node{dv(true, &c04Node{K: "blk", Body: []*c04Node{w(1),
				{K: "blk", Body: []*c04Node{q(), w(2)}, Out: out, ID: 1, Must: false}, q()}, Out: 0, ID: 2, Must: true}), q()})
			// T9: … and behind Session{NewDB: true} (clone = 1 handle whose Statement still holds the derivation's state)
			res = append(res, []*c04Node{{K: "blk", Body: []*c04Node{w(1), dv(true, outer("newdb:Session",
				&c04Node{K: "blk", Body: []*c04Node{q(), outer("keep:Session", q()), w(2)}, Out: out, ID: 1, Must: false})), q()}, Out: 0, ID: 2, Must: true}, q()})
			// T7: the same below a per-session PrepareStmt handle / a chained handle (outer derivation × inner derivation)
			for _, ok := range []string{"prep:Session", "keep:Session"} {
				res = append(res, []*c04Node{outer(ok, &c04Node{K: "blk", Body: []*c04Node{w(1), dv(true, w(2)), q()}, Out: out, ID: 1, Must: false}), q()})
			}
		}
		for fin := 0; fin < 2; fin++ {
			// T4: manual sequence, write and save point / rollback-to through derived handles
			res = append(res, []*c04Node{{K: "man", Body: []*c04Node{w(1), dv(true, w(2)), dv(true, &c04Node{K: "sp", ID: 1, Must: true}), w(3),
				dv(true, &c04Node{K: "rb", ID: 1, Must: true}), q()}, Out: fin, Must: true}, q()})
			// T5: Begin on the derived handle, a further PrepareStmt session inside
			res = append(res, []*c04Node{dv(true, &c04Node{K: "man", Body: []*c04Node{w(1), outer("prep:Session", w(2)), q()}, Out: fin, Must: true}), q()})
		}
	}
	return res
}

// c04ReuseFamily: every chained-handle kind kept in a variable and used for SEVERAL operations, at every site (top level, in a
// block, in a manual sequence, in a nested block, below a per-session PrepareStmt handle), with every block outcome
func c04ReuseFamily() [][]*c04Node {
	var res [][]*c04Node
	w := func(id int64) *c04Node { return &c04Node{K: "w", ID: id, Must: true} }
	u := func() *c04Node { return &c04Node{K: "u", ID: 1, Must: true} }
	q := func() *c04Node { return &c04Node{K: "q", Must: true} }
	d := func(id int64) *c04Node { return &c04Node{K: "d", ID: id, Must: true} }
	sp := func(n int64) *c04Node { return &c04Node{K: "sp", ID: n, Must: true} }
	rb := func(n int64) *c04Node { return &c04Node{K: "rb", ID: n, Must: true} }
	kinds := []string{"chain:Finisher", "chain:Model", "chain:Table", "chain:Set", "chain:Select", "initialized:Session", "where:Ne"}
	for _, kind := range kinds {
		arg := int64(0)
		if kind == "where:Ne" {
			arg = 102
		}
		seqs := func(inTx bool) [][]*c04Node {
			out := [][]*c04Node{
				{w(2), w(3)},
				{w(2), u(), q()},
				{u(), u(), w(2)},
				{w(2), q(), w(3), d(2)},
				{u(), w(2), &c04Node{K: "blk", Body: []*c04Node{w(3), q()}, Out: 1, ID: 7, Must: false}},
			}
			if inTx {
				out = append(out, []*c04Node{w(2), sp(1), w(3), rb(1), q()})
			}
			if kind == "chain:Finisher" { // the first operation IS the finisher that returns the handle
				out = [][]*c04Node{{w(2), w(3)}, {w(2), u(), q()}, {w(2), q(), w(3), d(2)}}
				if inTx {
					out = append(out, []*c04Node{w(2), sp(1), w(3), rb(1), q()})
				}
			}
			return out
		}
		dv := func(kids []*c04Node) *c04Node { return &c04Node{K: "dv", Kind: kind, ID: arg, Body: kids, Must: true} }
		for _, sq := range seqs(false) {
			res = append(res, []*c04Node{w(1), dv(sq), q()}) // top level: every operation in its own implicit transaction
		}
		for out := 0; out < 3; out++ {
			for _, sq := range seqs(true) {
				res = append(res, []*c04Node{{K: "blk", Body: []*c04Node{w(1), dv(sq), q()}, Out: out, ID: 1, Must: false}, q()})
				res = append(res, []*c04Node{{K: "blk", Body: []*c04Node{w(1),
					{K: "blk", Body: []*c04Node{dv(sq), q()}, Out: out, ID: 1, Must: false}, q()}, Out: 0, ID: 2, Must: true}, q()})
			}
			sq := seqs(true)[out%len(seqs(true))]
			res = append(res, []*c04Node{{K: "dv", Kind: "prep:Session", Body: []*c04Node{
				{K: "blk", Body: []*c04Node{w(1), dv(sq), q()}, Out: out, ID: 1, Must: false}}, Must: true}, q()})
		}
		for fin := 0; fin < 2; fin++ {
			for _, sq := range seqs(true) {
				res = append(res, []*c04Node{{K: "man", Body: []*c04Node{w(1), dv(sq), q()}, Out: fin, Must: true}, q()})
			}
		}
	}
	return res
}

// c04EndFamily: the transaction is ended underneath the function (Rollback() / Commit() inside it, cancelled context) at every
// position (before / between / after the writes; in the outermost function, in a nested block, through a Session-derived
// handle), for every outcome of the function, for blocks and manual sequences
func c04EndFamily() [][]*c04Node {
	var res [][]*c04Node
	w := func(id int64) *c04Node { return &c04Node{K: "w", ID: id, Must: true} }
	wi := func(id int64) *c04Node { return &c04Node{K: "w", ID: id, Must: false} }
	q := func() *c04Node { return &c04Node{K: "q", Must: true} }
	for how := int64(0); how < 3; how++ {
		end := func(must bool) *c04Node { return &c04Node{K: "end", ID: how, Must: must} }
		wrap := func(root *c04Node) []*c04Node {
			if how == 1 {
				return []*c04Node{{K: "dv", Kind: "keep:WithCancel", Body: []*c04Node{root}, Must: false}, q(), w(9)}
			}
			return []*c04Node{root, q(), w(9)}
		}
		for out := 0; out < 3; out++ {
			res = append(res, wrap(&c04Node{K: "blk", Body: []*c04Node{w(1), w(2), end(true)}, Out: out, ID: 1, Must: false}))
			res = append(res, wrap(&c04Node{K: "blk", Body: []*c04Node{end(true)}, Out: out, ID: 1, Must: false}))
			if how != 1 {
				res = append(res, wrap(&c04Node{K: "blk", Body: []*c04Node{w(1), end(true), wi(2), end(false)}, Out: out, ID: 1, Must: false}))
				res = append(res, wrap(&c04Node{K: "blk", Body: []*c04Node{w(1),
					{K: "blk", Body: []*c04Node{w(2), end(true)}, Out: out, ID: 1, Must: false}, wi(3)}, Out: 0, ID: 2, Must: false}))
				res = append(res, wrap(&c04Node{K: "blk", Body: []*c04Node{w(1),
					{K: "dv", Kind: "keep:Session", Body: []*c04Node{w(2), end(true)}, Must: true}}, Out: out, ID: 1, Must: false}))
				res = append(res, wrap(&c04Node{K: "blk", Body: []*c04Node{w(1), end(true),
					{K: "blk", Body: []*c04Node{w(2)}, Out: 0, ID: 1, Must: false}}, Out: out, ID: 2, Must: false}))
			}
		}
		for fin := 0; fin < 2; fin++ {
			res = append(res, wrap(&c04Node{K: "man", Body: []*c04Node{w(1), end(true)}, Out: fin, Must: false}))
		}
	}
	return res
}

// c04FailFamily: every way of holding a handle that already carries an error × every site × everything that can be invoked on
// it: Transaction (every outcome of a function that must not even run) and Begin OUTSIDE a transaction — the pattern of
// finding F27 —, the same inside a block / a manual sequence (Begin never reaches the pool there), plain operations, save
// points, further derivations (Session{NewDB}, PrepareStmt, chain methods: all of them copy the error), a failed handle made
// from a failed handle, a per-session PrepareStmt handle underneath.
func c04FailFamily() [][]*c04Node {
	var res [][]*c04Node
	w := func(id int64) *c04Node { return &c04Node{K: "w", ID: id, Must: true} }
	wi := func(id int64) *c04Node { return &c04Node{K: "w", ID: id, Must: false} }
	q := func() *c04Node { return &c04Node{K: "q", Must: true} }
	qi := func() *c04Node { return &c04Node{K: "q", Must: false} }
	dv := func(kind string, must bool, kids ...*c04Node) *c04Node { return &c04Node{K: "dv", Kind: kind, Body: kids, Must: must} }
	for _, kind := range c04FailKinds {
		fh := func(tag int64, must bool, kids ...*c04Node) *c04Node {
			return &c04Node{K: "fh", Kind: kind, ID: tag, Body: kids, Must: must}
		}
		for out := 0; out < 3; out++ {
			blk := func(must bool) *c04Node {
				return &c04Node{K: "blk", Body: []*c04Node{w(1), q()}, Out: out, ID: 2, Must: must}
			}
			// P1: Transaction on the failed handle at top level (ignored by the caller / propagated), work goes on afterwards
			res = append(res, []*c04Node{fh(1, false, blk(true)), w(2), q()})
			res = append(res, []*c04Node{fh(1, true, blk(false), wi(3), blk(true)), w(2)})
			// P2: … inside a block and inside a nested block (SAVEPOINT is refused; the enclosing transaction stays usable)
			res = append(res, []*c04Node{{K: "blk", Body: []*c04Node{w(3), fh(1, false, blk(true)), w(4), q()}, Out: 0, ID: 5, Must: true}, q()})
			res = append(res, []*c04Node{{K: "blk", Body: []*c04Node{w(3),
				{K: "blk", Body: []*c04Node{fh(1, false, blk(true)), w(4)}, Out: out, ID: 6, Must: false}, q()}, Out: 0, ID: 5, Must: true}, q()})
			// P3: … through further derivations of the failed handle, and below a per-session PrepareStmt handle
			for _, k2 := range []string{"keep:Session", "newdb:Session", "prep:Session", "chain:Model", "disnested:Session"} {
				res = append(res, []*c04Node{fh(1, false, dv(k2, true, blk(true))), w(2), q()})
			}
			res = append(res, []*c04Node{dv("prep:Session", true, fh(1, false, blk(true)), w(2)), q()})
			// P4: a failed handle made from a failed handle
			res = append(res, []*c04Node{fh(1, false, &c04Node{K: "fh", Kind: c04FailKinds[(out+1)%len(c04FailKinds)], ID: 7, Body: []*c04Node{blk(true)}, Must: true}), w(2)})
		}
		for fin := 0; fin < 2; fin++ {
			man := func(must bool) *c04Node { return &c04Node{K: "man", Body: []*c04Node{w(1), q()}, Out: fin, Must: must} }
			// P5: Begin on the failed handle (the documented `if tx.Error != nil { return }` caller): top level, in a block, in a manual sequence
			res = append(res, []*c04Node{fh(1, false, man(true)), w(2), q()})
			res = append(res, []*c04Node{{K: "blk", Body: []*c04Node{w(3), fh(1, false, man(true)), w(4)}, Out: 0, ID: 5, Must: true}, q()})
			res = append(res, []*c04Node{{K: "man", Body: []*c04Node{w(3), fh(1, false, man(false), &c04Node{K: "blk", Body: []*c04Node{w(1)}, Out: 0, ID: 2, Must: false}), w(4)}, Out: fin, Must: true}, q()})
		}
		// P6: everything else through a failed handle is refused and changes nothing: top level, in a block (with save points)
		res = append(res, []*c04Node{w(1), fh(1, false, wi(2), qi(), &c04Node{K: "d", ID: 1, Must: false}, &c04Node{K: "u", ID: 1, Must: false}), q()})
		res = append(res, []*c04Node{{K: "blk", Body: []*c04Node{w(1), &c04Node{K: "sp", ID: 1, Must: true}, w(2),
			fh(1, false, wi(3), &c04Node{K: "sp", ID: 2, Must: false}, &c04Node{K: "rb", ID: 1, Must: false}, qi()),
			&c04Node{K: "rb", ID: 1, Must: true}, q()}, Out: 0, ID: 5, Must: true}, q()})
		res = append(res, []*c04Node{fh(1, true, w(2)), w(3)})
	}
	return res
}

// c04ValueFamily: a panic / an error raised at depth k below the outermost block travels up through `must` children; commit
// faults on the plain shapes. Run with EVERY payload / user-error kind and EVERY commit-fault value.
func c04ValueFamily() [][]*c04Node {
	var res [][]*c04Node
	w := func(id int64) *c04Node { return &c04Node{K: "w", ID: id, Must: true} }
	for out := 1; out < 3; out++ {
		for depth := 0; depth < 4; depth++ {
			n := &c04Node{K: "blk", Body: []*c04Node{w(int64(depth + 1))}, Out: out, ID: 1, Must: true}
			for k := depth - 1; k >= 0; k-- {
				n = &c04Node{K: "blk", Body: []*c04Node{w(int64(k + 1)), n}, Out: 0, ID: int64(depth - k + 1), Must: true}
			}
			n.Must = false
			res = append(res, []*c04Node{n, w(9)})
		}
		// recovered / ignored by the enclosing function, which then returns nil; and raised again with ANOTHER identity
		res = append(res, []*c04Node{{K: "blk", Body: []*c04Node{w(1), {K: "blk", Body: []*c04Node{w(2)}, Out: out, ID: 1, Must: false}},
			Out: 0, ID: 2, Must: true}})
		res = append(res, []*c04Node{{K: "blk", Body: []*c04Node{w(1), {K: "blk", Body: []*c04Node{w(2)}, Out: out, ID: 1, Must: false}},
			Out: out, ID: 2, Must: false}})
		res = append(res, []*c04Node{{K: "man", Body: []*c04Node{w(1), {K: "blk", Body: []*c04Node{w(2)}, Out: out, ID: 1, Must: true}},
			Out: 0, Must: false}})
	}
	res = append(res, []*c04Node{{K: "blk", Body: []*c04Node{w(1)}, Out: 0, ID: 1, Must: false}, w(2)})
	res = append(res, []*c04Node{{K: "man", Body: []*c04Node{w(1)}, Out: 0, Must: false}, w(2)})
	res = append(res, []*c04Node{{K: "blk", Body: []*c04Node{w(1), {K: "blk", Body: []*c04Node{w(2)}, Out: 0, ID: 1, Must: true}}, Out: 0, ID: 2, Must: false}, w(3)})
	return res
}

func c04OutDist(rng *rand.Rand) int {
	switch r := rng.Intn(10); {
	case r < 5:
		return 0
	case r < 8:
		return 1
	}
	return 2
}

// exhaustive family for the quick tier: one root block (3 outcomes) whose ≤ 3 children are a write or a nested block
// (1 write inside, 3 outcomes × must/ignored), followed by a trailing top-level write
func c04Exhaustive(maxKids int) [][]*c04Node {
	type opt struct {
		blk  bool
		out  int
		must bool
	}
	opts := []opt{{}}
	for out := 0; out < 3; out++ {
		for _, m := range []bool{true, false} {
			opts = append(opts, opt{true, out, m})
		}
	}
	var res [][]*c04Node
	var rec func(prefix []opt, k int)
	build := func(kids []opt, rootOut int) []*c04Node {
		id, tag := int64(0), int64(0)
		var body []*c04Node
		for _, o := range kids {
			if !o.blk {
				id++
				body = append(body, &c04Node{K: "w", ID: id, Must: true})
			} else {
				id++
				tag++
				body = append(body, &c04Node{K: "blk", Body: []*c04Node{{K: "w", ID: id, Must: true}}, Out: o.out, ID: tag, Must: o.must})
			}
		}
		tag++
		id++
		return []*c04Node{{K: "blk", Body: body, Out: rootOut, ID: tag, Must: false}, {K: "w", ID: id, Must: true}}
	}
	rec = func(prefix []opt, k int) {
		for rootOut := 0; rootOut < 3; rootOut++ {
			res = append(res, build(prefix, rootOut))
		}
		if k == 0 {
			return
		}
		for _, o := range opts {
			rec(append(append([]opt{}, prefix...), o), k-1)
		}
	}
	rec(nil, maxKids)
	return res
}

// hand-written manual sequences (Begin … SavePoint/RollbackTo … Commit|Rollback) and mixed shapes
func c04Manual() []string {
	return []string{
		`[["man",[["w",1,true],["sp",1,true],["w",2,true],["rb",1,true],["w",3,true]],0,true]]`,
		`[["man",[["w",1,true],["sp",1,true],["w",2,true],["rb",1,true],["w",3,true]],1,true]]`,
		`[["man",[["w",1,true],["sp",1,true],["w",2,true],["sp",2,true],["d",1,true],["rb",2,true],["q",true],["rb",1,true],["q",true]],0,true]]`,
		`[["man",[["sp",1,true],["w",1,true],["sp",1,true],["w",2,true],["rb",1,true],["q",true],["rb",1,true],["q",true]],0,true]]`,
		`[["man",[["w",1,true],["blk",[["w",2,true],["sp",1,true],["w",3,true],["rb",1,true]],0,1,true],["q",true]],0,true]]`,
		`[["man",[["w",1,true],["blk",[["w",2,true]],1,1,false],["blk",[["w",3,true]],2,2,false],["blk",[["w",4,true]],0,3,true],["q",true]],0,true]]`,
		`[["man",[["sp",1,true],["w",1,true],["blk",[["w",2,true],["rb",1,true],["w",3,true]],1,1,false],["q",true]],0,true]]`,
		`[["man",[["w",1,true],["man",[["w",2,true]],0,false],["w",3,true]],0,true]]`,
		`[["w",1,true],["d",1,true],["q",true],["man",[["d",100,true],["sp",2,true],["w",2,true],["rb",2,false]],0,true],["q",true]]`,
		`[["blk",[["w",1,true],["sp",1,true],["blk",[["w",2,true],["blk",[["w",3,true]],2,1,true]],0,2,false],["q",true],["rb",1,true],["q",true]],0,3,true]]`,
		`[["blk",[["w",1,true],["blk",[["w",2,true],["blk",[["w",3,true],["blk",[["w",4,true]],1,1,false],["q",true]],0,2,true]],2,3,false],["q",true]],0,4,true],["q",true]]`,
	}
}

// ---------------------------------------------------------------- running and comparing

type c04Runner struct {
	seq    int
	r      *Result
	worlds map[c04Cfg]*c04World
	cases  []*c04Case
	obs    []*c04Obs
}

func (cr *c04Runner) world(cfg c04Cfg) *c04World {
	if w, ok := cr.worlds[cfg]; ok {
		return w
	}
	w := c04Open(cfg)
	cr.worlds[cfg] = w
	return w
}

func (cr *c04Runner) closeAll() {
	for _, w := range cr.worlds {
		w.close()
	}
}

// run executes one case on the real code, judges it end to end and queues it for the comparison with the model
func (cr *c04Runner) run(c *c04Case, suiteTag string) *c04Obs {
	w := cr.world(c.Cfg)
	o := c04Run(w, c.Initial, c.body, c.Mask, c.AllowRb, c.PK, c.EK)
	if o.Open != 0 || o.InUse != 0 || (len(o.Store) == 1 && o.Store[0] == -1) {
		w.close() // a leaked transaction poisons the shared in-memory database: start a fresh world
		delete(cr.worlds, c.Cfg)
	}
	cr.judge(c, o)
	cr.cases = append(cr.cases, c)
	cr.obs = append(cr.obs, o)
	return o
}

func (cr *c04Runner) judge(c *c04Case, o *c04Obs) {
	r := cr.r
	x := o.exec
	nontrivial := len(x.faulted) > 0 && strings.Contains(strings.Join(o.Trace, ""), "W")
	r.Case("e2e", canon(c), nontrivial)
	if x.rbFault {
		r.H("e2e_judged", "skipped: fault hit a ROLLBACK TO (outside the property's fault list)")
		return
	}
	r.H("e2e_judged", "judged")
	if len(x.verdicts) == 0 {
		return
	}
	// a leak is in no pattern but F27's: Transaction / Begin was invoked outside a transaction on a handle that carries an error
	var rest []string
	for _, v := range x.verdicts {
		if strings.HasPrefix(v, "leak:") {
			if x.f27 && listed(c04FindingLeak) {
				r.KnownFinding(c04FindingLeak, v)
				r.H("e2e_judged", "known finding (Begin on a failed handle leaks)")
				continue
			}
			r.Violate(Violation{Kind: "e2e", Suite: "e2e", Input: c, Observed: o, Expected: x.verdicts})
			return
		}
		rest = append(rest, v)
	}
	if len(rest) == 0 {
		return
	}
	// F18: a stale use of a handle whose sticky error gorm itself put there (not the caller: "fh" lineages are excluded)
	if x.stale18 && listed(c04Finding) {
		r.KnownFinding(c04Finding, rest[0])
		r.H("e2e_judged", "known finding (stale handle)")
		return
	}
	r.Violate(Violation{Kind: "e2e", Suite: "e2e", Input: c, Observed: o, Expected: x.verdicts})
}

// flush compares all queued real observations with the Lean model
func (cr *c04Runner) flush() {
	r := cr.r
	for start := 0; start < len(cr.cases); start += 4000 {
		end := start + 4000
		if end > len(cr.cases) {
			end = len(cr.cases)
		}
		var ops [][]interface{}
		for _, c := range cr.cases[start:end] {
			if c04HasEndCommit(c.body) {
				// Commit() called inside the function is judged end to end only: the empty program stands in
				ops = append(ops, []interface{}{"tx.run", c.Cfg, []int{}, []int64{}, []interface{}{}, false})
				continue
			}
			ops = append(ops, []interface{}{"tx.run", c.Cfg, c.Mask, c.Initial, c.Body, c.AllowRb})
		}
		for _, c := range cr.cases[start:end] {
			ops = append(ops, []interface{}{"tx.spec", c.Cfg, c.Mask, c.Initial, c.Body})
		}
		outs, err := AskLean(ops)
		if err != nil {
			r.Violate(Violation{Kind: "correspondence", Suite: "tie", Note: err.Error()})
			return
		}
		// the functional reference `spec` (Model/Tx.lean; what C04_refines is about) against the REAL run, on the fragment the
		// refinement covers: no RollbackTo node, no stale use of a poisoned handle (finding F18), no fault in a ROLLBACK TO
		for i, c := range cr.cases[start:end] {
			o := cr.obs[start+i]
			if o.Stale || o.exec.rbFault || c04HasKind(c.body, "rb") || c04HasKind(c.body, "end") || c04HasKind(c.body, "fh") {
				r.H("spec_vs_real", "outside the fragment")
				continue
			}
			var m map[string]interface{}
			if err := json.Unmarshal(outs[end-start+i], &m); err != nil {
				r.Violate(Violation{Kind: "correspondence", Suite: "spec", Input: c, Observed: o, Expected: string(outs[end-start+i]), Note: "reference rejects the program"})
				continue
			}
			c04ModelRes(c, o, m)
			r.H("spec_vs_real", "compared")
			r.Case("spec", canon(c), len(o.exec.faulted) > 0)
			real := canon(map[string]interface{}{"store": o.Store, "res": o.Res})
			if ref := canon(m); real != ref {
				r.Violate(Violation{Kind: "correspondence", Suite: "spec", Input: c, Observed: json.RawMessage(real), Expected: json.RawMessage(ref),
					Note: "real gorm run vs Model/Tx.lean `spec` (snapshot-restore reference) on the same program, fault mask and configuration"})
			}
		}
		for i, c := range cr.cases[start:end] {
			o := cr.obs[start+i]
			if c04HasEndCommit(c.body) {
				r.H("tie", "skipped: Commit() inside the function (end-to-end oracle only)")
				continue
			}
			r.H("tie", "compared")
			r.CorrCompared++
			r.Case("tie", canon(c), len(o.exec.faulted) > 0)
			var m map[string]interface{}
			if err := json.Unmarshal(outs[i], &m); err != nil {
				r.Violate(Violation{Kind: "correspondence", Suite: "tie", Input: c, Observed: o, Expected: string(outs[i]), Note: "model rejects the program"})
				continue
			}
			delete(m, "rbfault")
			c04ModelRes(c, o, m)
			real := canon(o)
			model := canon(m)
			if real != model {
				r.Violate(Violation{Kind: "correspondence", Suite: "tie", Input: c, Observed: json.RawMessage(real), Expected: json.RawMessage(model),
					Note: "real gorm run vs Model/Tx.lean `run` on the same program, fault mask and configuration"})
			}
		}
	}
	cr.cases, cr.obs = nil, nil
}

func (cr *c04Runner) stats(c *c04Case, o *c04Obs) {
	r := cr.r
	r.H("config", c.Cfg.String())
	r.H("faults_in_mask", fmt.Sprint(len(c.Mask)))
	r.H("faults_hit", fmt.Sprint(len(o.exec.faulted)))
	for _, k := range o.exec.faulted {
		r.H("fault_kind", k)
	}
	r.H("outcome", fmt.Sprint(o.Res[0]))
	r.H("driver_calls", bucket(len(o.Trace)))
	seen := map[string]bool{}
	for _, t := range o.Trace {
		seen[t] = true
	}
	for t := range seen {
		r.H("model_branch_call_kind", t)
	}
	if o.Stale {
		r.H("stale_handle", "yes")
	}
	d, nodes, kinds := c04Shape(c.body, 0)
	r.H("tree_depth", fmt.Sprint(d))
	r.H("tree_nodes", bucket(nodes))
	for k, n := range kinds {
		for i := 0; i < n; i++ {
			r.H("node_kind", k)
		}
	}
	for k, n := range o.exec.payloadKinds {
		for i := 0; i < n; i++ {
			r.H("panic_payload_kind", k)
		}
	}
	for k, n := range o.exec.userKinds {
		for i := 0; i < n; i++ {
			r.H("user_error_value_kind", k)
		}
	}
	for k, n := range o.exec.endKinds {
		for i := 0; i < n; i++ {
			r.H("tx_ended_underneath", k)
		}
	}
	for k, n := range o.exec.failKinds {
		for i := 0; i < n; i++ {
			r.H("failed_handle", k)
		}
	}
	if o.exec.f27 {
		r.H("begin_on_failed_handle_outside_tx", map[bool]string{true: "leaked", false: "no leak"}[o.exec.leaked])
	}
	for range o.exec.injVals {
		r.H("commit_fault_value", c04CommitErrKindNames[c.EK%c04NCommitErrKinds])
	}
	for _, b := range o.exec.blocks {
		r.H("block_fn_result", map[bool]string{true: b.FnRet, false: "not-run"}[b.FnRan])
	}
}

// c04ModelRes: identities of the model whose Go value in this run is a SHARED sentinel are read the way the real side reads
// them: a failed COMMIT's `inj k` as "txDone" (EK 1: raw sql.ErrTxDone, the value database/sql produces itself) or "cfault"
// (EK 2-5: one sentinel for every failed COMMIT; the trace pins which one); a `user t` whose value is raw sql.ErrTxDone /
// gorm.ErrInvalidTransaction as "txDone" / "invalidTx"
func c04ModelRes(c *c04Case, o *c04Obs, m map[string]interface{}) {
	res, _ := m["res"].([]interface{})
	ek := c.EK % c04NCommitErrKinds
	for i, a := range res {
		var k int
		var t int64
		s, ok := a.(string)
		if !ok {
			continue
		}
		if _, e := fmt.Sscanf(s, "inj%d", &k); e == nil && k < len(o.Trace) && o.Trace[k] == "C!" {
			if ek == 1 {
				res[i] = "txDone"
			} else if ek >= 2 && ek <= 5 {
				res[i] = "cfault"
			}
		}
		if _, e := fmt.Sscanf(s, "user%d", &t); e == nil {
			switch o.exec.userVals[t] {
			case error(sql.ErrTxDone):
				res[i] = "txDone"
			case error(gorm.ErrInvalidTransaction):
				res[i] = "invalidTx"
			}
		}
	}
}

func c04HasEndCommit(body []*c04Node) bool {
	for _, n := range body {
		if (n.K == "end" && n.ID == 2) || c04HasEndCommit(n.Body) {
			return true
		}
	}
	return false
}

func c04HasKind(body []*c04Node, k string) bool {
	for _, n := range body {
		if n.K == k || c04HasKind(n.Body, k) {
			return true
		}
	}
	return false
}

func bucket(n int) string {
	switch {
	case n == 0:
		return "0"
	case n <= 3:
		return "1-3"
	case n <= 7:
		return "4-7"
	case n <= 15:
		return "8-15"
	}
	return "16+"
}

var inTxShape bool

func c04Shape(body []*c04Node, d int) (depth, nodes int, kinds map[string]int) {
	kinds = map[string]int{}
	depth = d
	for _, n := range body {
		nodes++
		k := n.K
		if k == "blk" {
			k = fmt.Sprintf("blk/%s", []string{"nil", "err", "panic"}[n.Out])
		}
		if k == "end" {
			k = fmt.Sprintf("end/%d", n.ID)
		}
		kinds[k]++
		if n.K == "dv" {
			k = "dv/" + n.Kind
			kinds["dv-site/"+map[bool]string{true: "inside-tx", false: "top-level"}[inTxShape]]++
			for _, c := range n.Body {
				if c.K == "blk" || c.K == "man" {
					kinds["block-invoked-on-derived/"+strings.SplitN(n.Kind, ":", 2)[0]]++
				}
			}
			if c04SingleUse[n.Kind] && len(n.Body) > 1 {
				kinds["chained-handle-reused/"+map[bool]string{true: "inside-tx", false: "top-level"}[inTxShape]+"/"+fmt.Sprint(len(n.Body))+"-ops"]++
			}
			kinds[k]++
			kinds[n.K]--
		}
		if n.K == "fh" {
			kinds["fh/"+n.Kind]++
			for _, c := range n.Body {
				if c.K == "blk" || c.K == "man" {
					kinds["block-invoked-on-failed/"+map[bool]string{true: "inside-tx", false: "top-level"}[inTxShape]]++
				}
			}
		}
		if n.K == "blk" || n.K == "man" || n.K == "dv" || n.K == "fh" {
			saved := inTxShape
			if n.K != "dv" && n.K != "fh" {
				inTxShape = true
			}
			dd, nn, kk := c04Shape(n.Body, d+1)
			inTxShape = saved
			if dd > depth {
				depth = dd
			}
			nodes += nn
			for a, b := range kk {
				kinds[a] += b
			}
		}
	}
	return
}

func mkCase(cfg c04Cfg, initial []int64, body []*c04Node, mask []int, allowRb bool, vk ...int) *c04Case {
	c := mkCase0(cfg, initial, body, mask, allowRb)
	if len(vk) > 0 {
		c.PK = vk[0]
	}
	if len(vk) > 1 {
		c.EK = vk[1]
	}
	return c
}

func mkCase0(cfg c04Cfg, initial []int64, body []*c04Node, mask []int, allowRb bool) *c04Case {
	if mask == nil {
		mask = []int{}
	}
	if initial == nil {
		initial = []int64{}
	}
	return &c04Case{Cfg: cfg, Initial: initial, Body: c04EncBody(body), Mask: mask, AllowRb: allowRb, body: body}
}

// allSingleFaults: the unfaulted run, then one run per driver call of the unfaulted run with that call failed
func (cr *c04Runner) allSingleFaults(cfg c04Cfg, initial []int64, body []*c04Node, vk ...int) {
	// the value alphabets rotate with the running case number unless the caller fixes them
	cr.seq++
	pk, ek := cr.seq%c04NPayloadKinds, (cr.seq/3)%c04NCommitErrKinds
	if len(vk) > 0 {
		pk = vk[0]
	}
	if len(vk) > 1 {
		ek = vk[1]
	}
	base := mkCase(cfg, initial, body, nil, false, pk, ek)
	o := cr.run(base, "base")
	cr.stats(base, o)
	for k := 0; k < len(o.Trace); k++ {
		if o.Trace[k] == "R" {
			continue // a driver ROLLBACK cannot be failed
		}
		c := mkCase(cfg, initial, body, []int{k}, true, pk, ek)
		cr.stats(c, cr.run(c, "single"))
	}
}

func init() {
	register("C04", func(r *Result, rng *rand.Rand, tier string) {
		if os.Getenv("C04_PROBE") != "" {
			c04Probe()
			return
		}
		cr := &c04Runner{r: r, worlds: map[c04Cfg]*c04World{}}
		defer cr.closeAll()
		cfgs := c04Cfgs()

		// 0. the listed findings are re-confirmed on their minimal witnesses
		c04ProbeFinding(cr)
		c04ProbeLeak(cr)
		r.Note("regenerated fact: Begin returns a handle that already carries an error before touching the pool = %v", c04Facts().BeginChecksError)
		r.H("facts.beginChecksError", fmt.Sprint(c04Facts().BeginChecksError))

		// 1. hand-written manual / mixed sequences × configs × every single fault
		for _, src := range c04Manual() {
			body, err := c04DecBody(json.RawMessage(src))
			if err != nil {
				panic(err)
			}
			for _, cfg := range cfgs {
				cr.allSingleFaults(cfg, []int64{100}, body)
			}
		}

		// 2. exhaustive small trees × configs × every single fault
		kids := 2
		if tier == "thorough" {
			kids = 3
		}
		if tier != "search" {
			for _, body := range c04Exhaustive(kids) {
				for _, cfg := range cfgs {
					cr.allSingleFaults(cfg, nil, body)
				}
				if expired() {
					break
				}
			}
			r.Exhaustive = false
			// 2b. every derivation kind at every site × configs × every single fault
			for i, body := range c04DeriveFamily() {
				for j, cfg := range cfgs {
					// quick: 4 of the 16 configurations per tree, rotating (every configuration meets every kind and site)
					if tier == "quick" && (j+16-i%16)%16%5 != 0 {
						continue
					}
					cr.allSingleFaults(cfg, []int64{102}, body)
				}
				if expired() {
					break
				}
				if len(cr.cases) >= 8000 {
					cr.flush()
				}
			}
		}
		cr.flush()

		// 2c. round 2: values (every payload / user-error kind, every commit-fault value), transactions ended underneath,
		//     chained handles reused for several operations — × rotating configurations × every single fault
		if tier != "search" {
			nk := c04NPayloadKinds
			for i, body := range c04ValueFamily() {
				for k := 0; k < nk; k++ {
					cfg := cfgs[(i+3*k)%len(cfgs)]
					cr.allSingleFaults(cfg, nil, body, k, k%c04NCommitErrKinds)
				}
			}
			for i, body := range c04FailFamily() {
				for j, cfg := range cfgs {
					if tier == "quick" && (j+16-i%16)%16%4 != 0 {
						continue
					}
					cr.allSingleFaults(cfg, []int64{102}, body)
				}
				if len(cr.cases) >= 8000 {
					cr.flush()
				}
			}
			for i, body := range c04EndFamily() {
				for j, cfg := range cfgs {
					if tier == "quick" && (j+16-i%16)%16%4 != 0 {
						continue
					}
					cr.allSingleFaults(cfg, nil, body)
				}
			}
			for i, body := range c04ReuseFamily() {
				for j, cfg := range cfgs {
					if tier == "quick" && (j+16-i%16)%16%8 != 0 {
						continue
					}
					cr.allSingleFaults(cfg, []int64{102}, body)
				}
				if len(cr.cases) >= 8000 {
					cr.flush()
				}
				if expired() {
					break
				}
			}
			cr.flush()
		}

		// 2d. Statement.ConnPool of a chained handle after a write (tie with `writeSt` + the property seen on the handle itself)
		if tier != "search" {
			c04PoolSuite(r, tier, cr.world)
		}

		// 3. random trees, up to 3 faults
		n := 1500
		depth := 3
		if tier == "thorough" {
			n, depth = 40000, 4
		} else if tier == "search" {
			n, depth = 20000, 4
		}
		for i := 0; i < n && !expired(); i++ {
			g := &c04Gen{rng: rng, nextID: 0, known: []int64{100, 101}}
			body := g.body(depth, false, 3, true)
			cfg := cfgs[rng.Intn(len(cfgs))]
			pk, ek := rng.Intn(c04NPayloadKinds), rng.Intn(c04NCommitErrKinds)
			base := mkCase(cfg, []int64{100, 101, 102}, body, nil, false, pk, ek)
			o := cr.run(base, "rand-base")
			cr.stats(base, o)
			calls := len(o.Trace)
			for j := 0; j < 3; j++ {
				nf := 1 + rng.Intn(3)
				m := map[int]bool{}
				for f := 0; f < nf; f++ {
					m[rng.Intn(calls+2)] = true
				}
				var mask []int
				for k := range m {
					mask = append(mask, k)
				}
				sort.Ints(mask)
				// ROLLBACK TO statements are failed only in a minority of runs (those runs are compared with the model but not judged)
				c := mkCase(cfg, []int64{100, 101, 102}, body, mask, rng.Intn(5) == 0, pk, ek)
				oo := cr.run(c, "rand")
				cr.stats(c, oo)
				if i < 3 && j == 0 {
					r.Sample(map[string]interface{}{"case": c, "real": oo})
				}
			}
			if len(cr.cases) >= 8000 {
				cr.flush()
			}
		}
		cr.flush()
	})
	replay := func(r *Result, input json.RawMessage) {
		var c c04Case
		if err := json.Unmarshal(input, &c); err != nil {
			r.Note("bad replay input: %v", err)
			return
		}
		b, _ := json.Marshal(c.Body)
		body, err := c04DecBody(b)
		if err != nil {
			r.Note("bad replay program: %v", err)
			return
		}
		c.body = body
		cr := &c04Runner{r: r, worlds: map[c04Cfg]*c04World{}}
		defer cr.closeAll()
		o := cr.run(&c, "replay")
		fmt.Printf("replayed: %s\nverdicts: %v\n", canon(o), o.exec.verdicts)
	}
	replayers["C04/e2e"] = replay
	replayers["C04/tie"] = replay
	replayers["C04/spec"] = replay
}

// minimal witness of the listed finding: the SAVEPOINT of an ignored nested block fails, the outer function goes on and
// returns nil → COMMIT succeeds, yet Transaction returns the stale SAVEPOINT error (and later operations on the outer
// handle are refused).
func c04ProbeFinding(cr *c04Runner) {
	body, _ := c04DecBody(json.RawMessage(`[["blk",[["w",1,true],["blk",[["w",2,true]],0,1,false]],0,2,true]]`))
	c := mkCase(c04Cfg{}, nil, body, []int{2}, false)
	o := cr.run(c, "finding-probe")
	reproduced := o.Stale && len(o.exec.verdicts) > 0 && canon(o.Store) == "[1]" && fmt.Sprint(o.Res[0]) == "err"
	if !reproduced {
		cr.r.Note("%s no longer reproduces on its minimal witness: %s", c04Finding, canon(o))
		if listed(c04Finding) {
			cr.r.Violate(Violation{Kind: "correspondence", Suite: "tie", Input: c, Observed: o, Note: "listed finding does not reproduce"})
		}
	} else if !listed(c04Finding) {
		cr.r.Note("%s reproduces but is not listed", c04Finding)
	}
}

// minimal witnesses of F27: Transaction / Begin invoked on a handle that already carries an error — its own AddError, the
// handle a failed finisher returned. Unrepaired tree: the BEGIN is issued and nothing ever ends it (one transaction open, one
// connection in use after the program). Repaired tree: the witnesses are ordinary cases, judged by run() like every other —
// no driver BEGIN at all, the handle's error comes back, nothing is open.
func c04ProbeLeak(cr *c04Runner) {
	for _, src := range []string{
		`[["fh","adderr:Session",1,[["blk",[["w",1,true]],0,2,true]],true]]`,
		`[["fh","firstmiss:First",1,[["blk",[["w",1,true]],0,2,true]],true]]`,
		`[["fh","firstmiss:First",1,[["man",[["w",1,true]],0,true]],true]]`,
		`[["fh","adderr:WithContext",1,[["man",[["w",1,true]],1,true]],true]]`,
	} {
		body, err := c04DecBody(json.RawMessage(src))
		if err != nil {
			panic(err)
		}
		for _, cfg := range []c04Cfg{{}, {Prep: true}, {Wrap: true}} {
			c := mkCase(cfg, nil, body, nil, false)
			o := cr.run(c, "finding-probe")
			began := strings.Contains(strings.Join(o.Trace, ""), "B")
			leaks := o.Open == 1 && o.InUse == 1 && began && canon(o.Store) == "[]" && fmt.Sprint(o.Res[0]) == "err"
			clean := o.Open == 0 && o.InUse == 0 && !began && canon(o.Store) == "[]" && fmt.Sprint(o.Res[0]) == "err"
			switch {
			case leaks && !listed(c04FindingLeak):
				cr.r.Note("%s reproduces but is not listed", c04FindingLeak) // (run() has raised the violation)
			case leaks:
			case clean && c04Facts().BeginChecksError:
				if listed(c04FindingLeak) {
					cr.r.Note("%s no longer reproduces on %s: the tree carries the repair (Begin checks tx.Error); the entry can be flipped to fixed", c04FindingLeak, src)
				}
			default:
				cr.r.Note("%s: witness %s %s neither leaks as listed nor behaves correctly: %s", c04FindingLeak, src, cfg, canon(o))
				cr.r.Violate(Violation{Kind: "correspondence", Suite: "tie", Input: c, Observed: o,
					Note: "witness of F27: expected either the listed leak (unrepaired Begin) or no BEGIN at all and the handle's error (repaired Begin, fact beginChecksError)"})
			}
		}
	}
}

func c04Probe() {
	for _, cfg := range []c04Cfg{{}} {
		w := c04Open(cfg)
		for _, p := range c04Manual() {
			body, err := c04DecBody(json.RawMessage(p))
			if err != nil {
				panic(err)
			}
			base := c04Run(w, []int64{100}, body, nil, false, 0, 0)
			fmt.Printf("%s %s\n   -> %s %v\n", cfg, p, canon(base), base.exec.verdicts)
		}
		w.close()
	}
}
