package main

// C19 model family: a hooked document model with every association kind, a default-DB-value
// column, auto timestamps and soft delete; a plain (hook-free) sibling; an audit table written by
// hooks THROUGH THE HOOK'S tx (so that DryRun inheritance of callMethod's session is exercised).

import (
	"context"
	"fmt"
	"time"

	"gorm.io/driver/sqlite"
	"gorm.io/gorm"
	"gorm.io/gorm/logger"
)

type C19Co struct {
	ID   uint `gorm:"primaryKey"`
	Name string
}

type C19Tag struct {
	ID   uint `gorm:"primaryKey"`
	Name string
}

type C19Line struct {
	ID       uint `gorm:"primaryKey"`
	C19DocID uint
	Text     string
}

type C19Audit struct {
	ID   uint `gorm:"primaryKey"`
	What string
}

// C19Doc: hooks alter stored data (field assignment in BeforeCreate/BeforeSave, SetColumn in
// BeforeUpdate) and issue their own statements through tx (audit rows).
type C19Doc struct {
	ID        uint `gorm:"primaryKey"`
	Title     string
	Code      string
	Qty       int
	Rank      int `gorm:"default:7"`
	Note      *string
	CoID      *uint
	Co        *C19Co
	Lines     []C19Line
	Tags      []C19Tag `gorm:"many2many:c19_doc_tags"`
	ParentID  *uint
	Parent    *C19Doc
	CreatedAt time.Time
	UpdatedAt time.Time
	DeletedAt gorm.DeletedAt
}

func (d *C19Doc) BeforeSave(tx *gorm.DB) error {
	if d.Qty%2 == 1 { // data dependent: odd quantities are rounded up by the hook
		d.Qty++
	}
	return nil
}

func (d *C19Doc) BeforeCreate(tx *gorm.DB) error {
	d.Code = "bc-" + d.Title
	return nil
}

func (d *C19Doc) AfterCreate(tx *gorm.DB) error {
	return tx.Create(&C19Audit{What: "created " + d.Title}).Error
}

func (d *C19Doc) BeforeUpdate(tx *gorm.DB) error {
	tx.Statement.SetColumn("code", "bu-"+fmt.Sprint(d.ID))
	return nil
}

func (d *C19Doc) AfterUpdate(tx *gorm.DB) error {
	return tx.Model(&C19Audit{}).Where("id = ?", 1).Update("what", "updated").Error
}

func (d *C19Doc) BeforeDelete(tx *gorm.DB) error {
	return tx.Create(&C19Audit{What: fmt.Sprint("deleting ", d.ID)}).Error
}

func (d *C19Doc) AfterFind(tx *gorm.DB) error {
	var n int64
	return tx.Model(&C19Audit{}).Count(&n).Error
}

// C19Plain: no hooks, no associations; default-DB-value column, auto timestamps, soft delete.
type C19Plain struct {
	ID        uint `gorm:"primaryKey"`
	Name      string
	Age       int
	Rank      int `gorm:"default:7"`
	Note      *string
	CreatedAt time.Time
	UpdatedAt time.Time
	DeletedAt gorm.DeletedAt
}

// C19Hard: hard delete, string key
type C19Hard struct {
	Code string `gorm:"primaryKey"`
	Name string
	N    int
}

var c19Models = []interface{}{&C19Co{}, &C19Tag{}, &C19Line{}, &C19Audit{}, &C19Doc{}, &C19Plain{}, &C19Hard{}}

type c19World struct {
	Cfg string
	db  *gorm.DB // real handle
	dry *gorm.DB // same pool, opened with Config.DryRun = true ("by configuration")
	rec *Recorder
}

var c19CfgNames = []string{"plain", "skiptx", "prep", "batch2", "fullsave", "qfields"}

func c19Config(name string, dry bool) *gorm.Config {
	c := &gorm.Config{NowFunc: fixedNowFunc, Logger: logger.Discard, DryRun: dry}
	switch name {
	case "skiptx":
		c.SkipDefaultTransaction = true
	case "prep":
		c.PrepareStmt = true
	case "batch2":
		c.CreateBatchSize = 2
	case "fullsave":
		c.FullSaveAssociations = true
	case "qfields":
		c.QueryFields = true
	}
	return c
}

func c19Open(name string) *c19World {
	db, rec, sqlDB := OpenRec(c19Config(name, false))
	if err := db.AutoMigrate(c19Models...); err != nil {
		panic(err)
	}
	// seed
	raw := db.Session(&gorm.Session{SkipHooks: true, NewDB: true})
	for i := 1; i <= 3; i++ {
		raw.Create(&C19Co{ID: uint(i), Name: fmt.Sprint("co", i)})
		raw.Create(&C19Tag{ID: uint(i), Name: fmt.Sprint("tag", i)})
	}
	raw.Create(&C19Audit{ID: 1, What: "seed"})
	for i := 1; i <= 6; i++ {
		co := uint(1 + i%3)
		d := C19Doc{ID: uint(i), Title: fmt.Sprint("t", i), Code: "seed", Qty: 10 * i, Rank: i, CoID: &co}
		raw.Omit("Co", "Lines", "Tags", "Parent").Create(&d)
		raw.Create(&C19Line{ID: uint(10*i + 1), C19DocID: uint(i), Text: "a"})
		raw.Create(&C19Line{ID: uint(10*i + 2), C19DocID: uint(i), Text: "b"})
		raw.Exec("INSERT INTO c19_doc_tags (c19_doc_id, c19_tag_id) VALUES (?, ?)", i, 1+i%3)
		raw.Create(&C19Plain{ID: uint(i), Name: fmt.Sprint("p", i%3), Age: 20 + i, Rank: i})
		raw.Create(&C19Hard{Code: fmt.Sprint("h", i), Name: fmt.Sprint("hn", i), N: i})
	}
	dry, err := gorm.Open(sqlite.Dialector{Conn: sqlDB}, c19Config(name, true))
	if err != nil {
		panic(err)
	}
	rec.Reset()
	return &c19World{Cfg: name, db: db, dry: dry, rec: rec}
}

var c19Ctx = WithMarker(context.Background(), "c19")
