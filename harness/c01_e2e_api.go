package main

// C01 end-to-end suite "e2e-api": WHICH exported chain method / finisher carries a (text, args...) template, and HOW the
// template text is spelled (with / without blanks, backticks, parentheses, aliases, dots, tabs / newlines, lower case).
// Every API slot is a step generator with several spellings; slots are combined with 0-3 other steps, with Scopes, with
// inline conditions of the finisher and with many finishers.  The judge is the unchanged c01Judge (+ c01JudgeDry):
//   (1) no marker in the text, (2) lexer-counted placeholders = len(args), `$1..$n` in order,
//   (3) args = the generator's own left-to-right flattening.
//
// Order of values inside one SELECT (callbacks/callbacks.go queryClauses, BuildQuerySQL): SELECT expression, FROM table
// expression, clause.From joins, Statement.Joins, WHERE, GROUP BY .. HAVING, ORDER BY, LIMIT, OFFSET.  Inside one clause:
// chain calls in call order, then the finisher's inline conditions, then scopes (they run inside Execute), then scopes
// registered by scopes.
//
// LIMIT / OFFSET: the stock SQLite dialector prints them into the text (its own clause builder, outside /repo); half of the
// cases remove that builder from the handle's ClauseBuilders so that /repo's clause.Limit.Build binds them (what the
// Postgres / MySQL dialectors do): then they are expected as bound values (SQLite accepts `LIMIT ?`).
//
// Latitude / exclusions (each is real behaviour of the unchanged code that is consistent between text and values, so the
// property does not forbid it, but the flattening would have to encode a quirk):
//   * Count replaces a Select(expr, args) clause by count(*) and removes ORDER BY without GROUP BY; First / Last /
//     FindInBatches append an OrderByColumn, which drops an earlier OrderBy{Expression}: no Select / Order values there.
//   * a leading Or is re-ordered by Where.Build: the first condition of a clause is never an Or.
//   * `@name` followed by a TAB is not terminated by NamedExpr.Build: whitespace re-spelling uses newlines for named texts.
//   * Where("name", a, b) (no `?`, no blank, 2 args) binds the column name itself (`id IN ('name',a,b)`): caller error.
//   * a database error (generate_series, ambiguous column, ...) is not judged; text / values at the driver still are.

import (
	"database/sql"
	"encoding/json"
	"fmt"
	"math/rand"
	"regexp"
	"sort"
	"strings"
	"time"

	"gorm.io/gorm"
	"gorm.io/gorm/clause"
)

type c01ApiStep struct {
	c01Step
	Slot  string
	Phase int // 0 chain call, 1 inline condition of the finisher, 2 scope, 3 scope registered by a scope
}

type c01ApiGen struct {
	rng        *rand.Rand
	m          *markerGen
	db         *gorm.DB
	shape      string // users | json | series | usersjson
	cs, ci     string // a string column and an integer column of the current FROM shape
	nj         int
	bindLimit  bool
	firstWhere bool
	emptyTable bool // Table(expr) left Statement.Table empty: everything quoted with clause.CurrentTable is malformed SQL
	steps      []c01ApiStep
}

func (g *c01ApiGen) fresh() *gorm.DB          { return g.db.Session(&gorm.Session{NewDB: true}) }
func (g *c01ApiGen) pick(ss ...string) string { return ss[g.rng.Intn(len(ss))] }
func (g *c01ApiGen) ints(n int) ([]int, []interface{}) {
	vs, b := make([]int, n), []interface{}{}
	for i := range vs {
		vs[i] = g.m.I()
		b = append(b, vs[i])
	}
	return vs, b
}

func c01Cat(a []interface{}, b ...interface{}) []interface{} {
	return append(append([]interface{}{}, a...), b...)
}

var c01ApiStockLimit clause.ClauseBuilder
var c01ApiTableRe = regexp.MustCompile(`(?i)(?:.+? AS (\w+)\s*(?:$|,)|^\w+\s+(\w+)$)`)

// c01ApiSetLimit switches between the SQLite dialector's LIMIT builder (text) and /repo's clause.Limit.Build (bound)
func c01ApiSetLimit(d *gorm.DB, bind bool) {
	if b, ok := d.ClauseBuilders["LIMIT"]; ok && c01ApiStockLimit == nil {
		c01ApiStockLimit = b
	}
	if bind {
		delete(d.ClauseBuilders, "LIMIT")
	} else if c01ApiStockLimit != nil {
		d.ClauseBuilders["LIMIT"] = c01ApiStockLimit
	}
}

// ---- sub-query material ------------------------------------------------------------------------------------------------

// sub: kind "all" (SELECT * FROM v_users ..), "ids" (one id column), "scalar" (one value), "as:<x>" (SELECT id AS <x>)
func (g *c01ApiGen) sub(kind string) (*gorm.DB, []interface{}, string) {
	m := g.m
	if (kind == "ids" || kind == "scalar") && g.rng.Intn(3) == 0 {
		s, b, d := c01GenSub(g.rng, m, g.db, g.rng.Intn(2), kind == "scalar")
		return s, b, d
	}
	sel, raw := "", "*"
	switch {
	case kind == "ids":
		sel, raw = "id", "id"
	case kind == "scalar":
		sel, raw = "AVG(age)", "AVG(age)"
	case strings.HasPrefix(kind, "as:"):
		sel = "id AS " + kind[3:]
		raw = sel
	}
	switch g.rng.Intn(5) {
	case 0: // rendered Raw handle
		a, s := m.I(), m.S()
		c01H("e2e-api.sub-kind", "raw")
		return g.fresh().Raw("SELECT "+raw+" FROM v_users WHERE age<>? AND name <> ?", a, s), []interface{}{a, s}, "Raw{2}"
	case 1:
		vs, b := g.ints(2 + g.rng.Intn(2))
		tx := g.fresh().Table("v_users")
		if sel != "" {
			tx = tx.Select(sel)
		}
		c01H("e2e-api.sub-kind", "table-chain")
		return tx.Where("age NOT IN(?)", vs), b, "Table.Where(IN(list))"
	case 2:
		if sel != "" && !strings.Contains(sel, " AS ") {
			a, s := m.I(), m.S()
			c01H("e2e-api.sub-kind", "model-chain-select-arg")
			return g.fresh().Model(&VUser{}).Select(sel+" + ?", a).Where("name<>@n", sql.Named("n", s)), []interface{}{a, s}, "Model.Select(?).Where(@n)"
		}
		fallthrough
	default:
		a := m.I()
		tx := g.fresh().Model(&VUser{})
		if sel != "" {
			tx = tx.Select(sel)
		}
		c01H("e2e-api.sub-kind", "model-chain")
		return tx.Where("age <> ?", a), []interface{}{a}, "Model.Where(1)"
	}
}

// ---- condition material over the columns of the current shape ---------------------------------------------------------------

func (g *c01ApiGen) cond() condForm {
	m, cs, ci := g.m, g.cs, g.ci
	if g.shape == "users" && !g.emptyTable && g.rng.Intn(4) == 0 {
		c01H("e2e-api.cond-spelling", "shared-generators")
		if g.rng.Intn(3) == 0 {
			return c01SimpleCond(g.rng, m)
		}
		return c01AnyCond(g.rng, m, g.db)
	}
	h := func(s string) string { c01H("e2e-api.cond-spelling", s); return s }
	switch g.rng.Intn(30) {
	case 0:
		a := m.I()
		return condForm{h("col>?"), ci + ">?", []interface{}{a}, []interface{}{a}}
	case 1:
		s := m.S()
		return condForm{h("col<>?"), cs + "<>?", []interface{}{s}, []interface{}{s}}
	case 2:
		a := m.I()
		return condForm{h("col>@a sql.Named"), ci + ">@a", []interface{}{sql.Named("a", a)}, []interface{}{a}}
	case 3:
		a, s := m.I(), m.S()
		return condForm{h("col>@a,(col<>@s) map"), ci + ">@a OR(" + cs + "<>@s)", []interface{}{map[string]interface{}{"a": a, "s": s}}, []interface{}{a, s}}
	case 4:
		s, a := m.S(), m.I()
		return condForm{h("(col<>?)OR(col<?)"), "(" + cs + "<>?)OR(" + ci + "<?)", []interface{}{s, a}, []interface{}{s, a}}
	case 5:
		vs, b := g.ints(1 + g.rng.Intn(3))
		return condForm{h("col IN(?) list"), ci + " NOT IN(?)", []interface{}{vs}, b}
	case 6:
		vs, b := g.ints(1 + g.rng.Intn(3))
		return condForm{h("col IN ? list"), ci + " NOT IN ?", []interface{}{vs}, b}
	case 7:
		if g.shape != "users" {
			a := m.I()
			return condForm{h("(?)<col"), "(?)<" + ci, []interface{}{a}, []interface{}{a}}
		}
		sub, b, d := g.sub("ids")
		return condForm{h("id IN(?) sub") + " " + d, "id NOT IN(?)", []interface{}{sub}, b}
	case 8:
		s := m.S()
		return condForm{h(`("col", v) single-column`), cs, []interface{}{s}, []interface{}{s}}
	case 9:
		vs, b := g.ints(2)
		return condForm{h(`("col", []int) single-column`), ci, []interface{}{vs}, b}
	case 10:
		s := m.S()
		return condForm{h("' col <> ? ' blanks around"), " " + cs + " <> ? ", []interface{}{s}, []interface{}{s}}
	case 11:
		s := m.S()
		return condForm{h(`\tcol<>?\n`), "\t" + cs + "<>?\n", []interface{}{s}, []interface{}{s}}
	case 12:
		a := m.I()
		return condForm{h("clause.Expr no blanks"), clause.Expr{SQL: ci + ">?", Vars: []interface{}{a}}, nil, []interface{}{a}}
	case 13:
		a, s := m.I(), m.S()
		return condForm{h("clause.NamedExpr"), clause.NamedExpr{SQL: ci + ">@a AND " + cs + "<>@s", Vars: []interface{}{sql.Named("s", s), sql.Named("a", a)}}, nil, []interface{}{a, s}}
	case 14:
		s, a := m.S(), m.I()
		switch g.rng.Intn(7) {
		case 0:
			return condForm{h("clause.Neq"), clause.Neq{Column: cs, Value: s}, nil, []interface{}{s}}
		case 1:
			return condForm{h("clause.Gt"), clause.Gt{Column: ci, Value: a}, nil, []interface{}{a}}
		case 2:
			return condForm{h("clause.Gte"), clause.Gte{Column: ci, Value: a}, nil, []interface{}{a}}
		case 3:
			return condForm{h("clause.Lt"), clause.Lt{Column: ci, Value: a}, nil, []interface{}{a}}
		case 4:
			return condForm{h("clause.Lte"), clause.Lte{Column: ci, Value: a}, nil, []interface{}{a}}
		case 5:
			return condForm{h("clause.Like"), clause.Like{Column: cs, Value: s}, nil, []interface{}{s}}
		}
		return condForm{h("clause.Eq"), clause.Eq{Column: cs, Value: s}, nil, []interface{}{s}}
	case 15:
		_, b := g.ints(2 + g.rng.Intn(2))
		return condForm{h("clause.IN"), clause.IN{Column: ci, Values: b}, nil, b}
	case 16:
		a, s, i2 := m.I(), m.S(), m.I()
		e1, e2 := clause.Expr{SQL: ci + ">?", Vars: []interface{}{a}}, clause.Neq{Column: cs, Value: s}
		switch g.rng.Intn(4) {
		case 0:
			return condForm{h("clause.And(Expr,Neq)"), clause.And(e1, e2), nil, []interface{}{a, s}}
		case 1:
			return condForm{h("clause.Or(Expr,Neq)"), clause.Or(e1, e2), nil, []interface{}{a, s}}
		case 2:
			return condForm{h("clause.Not(Expr)"), clause.Not(e1), nil, []interface{}{a}}
		}
		return condForm{h("clause.Not(Neq,IN,Expr)"), clause.Not(e2, clause.IN{Column: ci, Values: []interface{}{i2, a}}, e1), nil, []interface{}{s, i2, a, a}}
	case 17:
		s, a := m.S(), m.I()
		b := []interface{}{a, s}
		if cs < ci {
			b = []interface{}{s, a}
		}
		if cs == ci {
			return condForm{h("map{col}"), map[string]interface{}{ci: a}, nil, []interface{}{a}}
		}
		return condForm{h("map{col,col}"), map[string]interface{}{cs: s, ci: a}, nil, b}
	case 18:
		vs, b := g.ints(2)
		return condForm{h("map{col: list}"), map[string]interface{}{ci: vs}, nil, b}
	case 19:
		if g.shape != "users" || g.emptyTable {
			a := m.I()
			return condForm{h("col BETWEEN"), ci + " BETWEEN ? AND ?", []interface{}{a, a}, []interface{}{a, a}}
		}
		s, a := m.S(), m.I()
		switch g.rng.Intn(4) {
		case 0:
			return condForm{h("struct"), VUser{Name: s, Age: a}, nil, []interface{}{s, a}}
		case 1:
			return condForm{h("*struct"), &VUser{Email: s, Age: a}, nil, []interface{}{a, s}}
		case 2:
			return condForm{h(`struct + ("age")`), VUser{Name: s, Age: a}, []interface{}{"age"}, []interface{}{a}}
		}
		return condForm{h(`struct + ("Name","age")`), &VUser{Name: s, Age: a, Email: "zz"}, []interface{}{"Name", "age"}, []interface{}{s, a}}
	case 20:
		s, a := m.S(), m.I()
		return condForm{h("group handle Where.Or"), g.fresh().Where(cs+"<>?", s).Or(ci+" > ?", a), nil, []interface{}{s, a}}
	case 21:
		a, b := m.I(), m.I()
		return condForm{h("col>? gorm.Expr(?+?)"), ci + ">?", []interface{}{gorm.Expr("?+?", a, b)}, []interface{}{a, b}}
	case 22:
		s, a := m.S(), m.I()
		return condForm{h("@Name @Age struct"), cs + "<>@Name AND " + ci + ">@Age", []interface{}{c01E2EArgs{Name: s, Age: a}}, []interface{}{s, a}}
	case 23:
		if g.shape == "users" && !g.emptyTable && g.rng.Intn(2) == 0 {
			// no `?`, no `@`, no blank, two arguments: BuildCondition binds the text AND the arguments as primary keys
			a, b := m.I(), m.I()
			return condForm{h(`("col", a, b) -> pk IN (col,a,b)`), cs, []interface{}{a, b}, []interface{}{cs, a, b}}
		}
		a, b := m.I(), m.I()
		return condForm{h("col BETWEEN ? AND ?"), ci + " NOT BETWEEN ? AND ?", []interface{}{a, b}, []interface{}{a, b}}
	case 24:
		a, s := m.I(), m.S()
		if g.rng.Intn(2) == 0 {
			return condForm{h("pointer arg"), ci + "<>?", []interface{}{&a}, []interface{}{a}}
		}
		return condForm{h("Valuer arg"), cs + "<>?", []interface{}{sql.NullString{String: s, Valid: true}}, []interface{}{s}}
	case 25:
		if g.shape != "users" {
			s := m.S()
			return condForm{h("(?)<>col"), "(?)<>" + cs, []interface{}{s}, []interface{}{s}}
		}
		sub, b, d := g.sub("scalar")
		return condForm{h("(?)<col sub") + " " + d, "(?)<" + ci, []interface{}{sub}, b}
	case 26:
		a, s := m.I(), m.S()
		return condForm{h("@a) @s; terminators"), "(" + ci + ">@a)AND(" + cs + " NOT IN(@s,@s))", []interface{}{sql.Named("a", a), sql.Named("s", s)}, []interface{}{a, s, s}}
	case 27:
		vs, b := g.ints(2)
		s := m.S()
		return condForm{h("col IN(?)AND col<>? list+scalar"), ci + " NOT IN(?)AND " + cs + "<>?", []interface{}{vs, s}, append(b, s)}
	case 28:
		vs, b := g.ints(2)
		return condForm{h("clause.Expr WithoutParentheses"), clause.Expr{SQL: ci + " NOT IN (0,?)", Vars: []interface{}{vs}, WithoutParentheses: true}, nil, b}
	default:
		a := m.I()
		return condForm{h("lower-case / backticks"), "`" + ci + "` is not ? and not(`" + ci + "`=?)", []interface{}{a, a}, []interface{}{a, a}}
	}
}

// textCond: a condition whose query is a template string (for raw Joins / Raw / Exec)
func (g *c01ApiGen) textCond() condForm {
	for {
		c := g.cond()
		if s, ok := c.query.(string); ok && (strings.ContainsAny(s, "?@")) {
			return c
		}
	}
}

func (g *c01ApiGen) add(slot, group string, phase int, desc string, args []interface{}, apply func(*gorm.DB) *gorm.DB) {
	c01H("e2e-api.slot", slot)
	g.steps = append(g.steps, c01ApiStep{c01Step{desc, group, args, apply}, slot, phase})
}

// ---- slot 1: Table(text, args...) -------------------------------------------------------------------------------------------

func (g *c01ApiGen) jsonText() (string, interface{}) {
	a, b, c := g.m.I(), g.m.I(), g.m.I()
	js := fmt.Sprintf("[%d,%d,%d]", a, b, c)
	g.m.strs = append(g.m.strs, js) // the JSON text is itself a bound value
	return js, js
}

func (g *c01ApiGen) tableStep(phase int) {
	m := g.m
	var text string
	var args, bound []interface{}
	d := ""
	setShape := func(shape string) {
		g.shape = shape
		switch shape {
		case "json":
			g.cs, g.ci = "type", "value"
		case "series":
			g.cs, g.ci = "value", "value"
		default:
			g.cs, g.ci = "name", "age"
		}
	}
	switch k := g.rng.Intn(24); {
	case k < 3: // no blank, no backtick
		sub, b, sd := g.sub("all")
		text, args, bound, d = "(?)", []interface{}{sub}, b, sd
	case k < 6:
		sub, b, sd := g.sub("all")
		text = g.pick("(?) AS u", "(?) as v_users", "(?) AS v_users", "\t(?)\tAS\tu", "(?)AS`u`", "(?)\nAS u", " (?) u3", "(?) AS `u 4`")
		args, bound, d = []interface{}{sub}, b, sd
	case k < 8:
		text = g.pick("`v_users` AS u2", "v_users AS t1", "v_users t1", "v_users", "main.v_users", "`v_users`", "`main`.`v_users`", "main.v_users AS t2")
	case k < 10:
		s1, b1, d1 := g.sub("all")
		s2, b2, d2 := g.sub("as:bid")
		text = g.pick("(?) AS a, (?) AS b", "(?)AS a,(?)AS b", "(?) AS `a`,(?) AS `b`")
		args, bound, d = []interface{}{s1, s2}, c01Cat(b1, b2...), d1+","+d2
	case k < 13:
		_, js := g.jsonText()
		text = g.pick("json_each(?)", "json_each(?)", "json_each(?) AS je", "json_each(?)AS`je`", "JSON_EACH(?)")
		args, bound = []interface{}{js}, []interface{}{js}
		setShape("json")
	case k < 15:
		_, js := g.jsonText()
		text = g.pick("v_users, json_each(?)", "v_users,json_each(?)", "v_users AS vu, json_each(?) AS je")
		args, bound = []interface{}{js}, []interface{}{js}
		g.shape = "usersjson"
	case k < 17:
		a, b := m.I(), m.I()
		text = g.pick("generate_series(?,?)", "generate_series(?, ?) AS gs", "generate_series(?,?)gs")
		args, bound = []interface{}{a, b}, []interface{}{a, b}
		setShape("series")
	case k < 19:
		a := m.I()
		text = g.pick("(SELECT * FROM v_users WHERE age<>?)", "(SELECT * FROM v_users WHERE age <> ?) AS u", "(select*from`v_users`where(?)<>age)")
		args, bound = []interface{}{a}, []interface{}{a}
	case k < 21:
		vs, b := g.ints(2 + g.rng.Intn(2))
		text = g.pick("(SELECT * FROM v_users WHERE age NOT IN(?))AS`u`", "(SELECT * FROM v_users WHERE age NOT IN ?) AS u", "(SELECT * FROM v_users WHERE age NOT IN (?)) AS v_users")
		args, bound = []interface{}{vs}, b
	case k < 22: // two json tables
		_, j1 := g.jsonText()
		_, j2 := g.jsonText()
		text = g.pick("json_each(?),json_each(?)AS j2", "json_each(?) AS j1, json_each(?) AS j2")
		args, bound = []interface{}{j1, j2}, []interface{}{j1, j2}
		setShape("series") // columns ambiguous: conditions stay on `value` only, errors are tolerated
	default:
		sub, b, sd := g.sub("all")
		s := m.S()
		text = g.pick("(SELECT * FROM (?) WHERE name<>?)", "(SELECT * FROM (?) AS i WHERE i.name <> ?) AS u")
		args, bound, d = []interface{}{sub, s}, c01Cat(b, s), sd
	}
	// Statement.Table stays empty when the expression has no `AS name` / `name name` form (chainable_api.go tableRegexp):
	// the dialector then quotes an empty identifier for clause.CurrentTable - the generator keeps away from those forms
	if strings.ContainsAny(text, " `") || len(args) > 0 {
		r := c01ApiTableRe.FindStringSubmatch(text)
		g.emptyTable = len(r) != 3 || (r[1] == "" && r[2] == "")
	}
	c01H("e2e-api.table-name-empty", fmt.Sprint(g.emptyTable))
	c01H("e2e-api.table-spelling", text)
	c01H("e2e-api.table-args", fmt.Sprint(len(args)))
	g.add("Table", "table", phase, fmt.Sprintf("Table(%q %s)", text, d), bound, func(db *gorm.DB) *gorm.DB { return db.Table(text, args...) })
}

// ---- slot 2: Select / Distinct ----------------------------------------------------------------------------------------------

func (g *c01ApiGen) selectStep(phase int) {
	m, cs, ci := g.m, g.cs, g.ci
	var text string
	var args, bound []interface{}
	how := g.pick("Select", "Select", "Select", "Distinct", "Select.Distinct", "Distinct.Select", "Clauses(Select)")
	switch g.rng.Intn(13) {
	case 0:
		a := m.I()
		text, args, bound = "COALESCE("+ci+",?)", []interface{}{a}, []interface{}{a}
	case 1:
		a := m.I()
		text, args, bound = "*, "+ci+"+? AS x", []interface{}{a}, []interface{}{a}
	case 2:
		a := m.I()
		text, args, bound = ci+" + ? AS x, "+cs, []interface{}{a}, []interface{}{a}
	case 3:
		sub, b, _ := g.sub("scalar")
		text, args, bound = g.pick("(?) AS cnt", "(?)", "*,(?)AS`cnt`"), []interface{}{sub}, b
	case 4:
		a := m.I()
		text, bound = g.pick("COALESCE("+ci+",@a)", ci+" + @a AS x", "*,("+ci+">@a)AS`x`"), []interface{}{a}
		args = []interface{}{sql.Named("a", a)}
		if g.rng.Intn(2) == 0 {
			args = []interface{}{map[string]interface{}{"a": a}}
		}
	case 5:
		a, s := m.I(), m.S()
		text, args, bound = cs+", ("+ci+" > ?) AS o, ("+cs+" <> ?) AS p", []interface{}{a, s}, []interface{}{a, s}
	case 6:
		vs, b := g.ints(2)
		text, args, bound = g.pick("("+ci+" IN ?) AS f", ci+" IN(?) AS f", ci+" IN(?)"), []interface{}{vs}, b
	case 7:
		s, a := m.S(), m.I()
		text, args, bound = "("+cs+" <> @Name) AS p, ("+ci+" > @Age) AS q", []interface{}{c01E2EArgs{Name: s, Age: a}}, []interface{}{s, a}
	case 8:
		s := m.S()
		text, args, bound = g.pick("? AS c", "?", "*,?"), []interface{}{s}, []interface{}{s}
	case 9:
		a, b := m.I(), m.I()
		text, args, bound = ci+" + ?", []interface{}{gorm.Expr("? * ?", a, b)}, []interface{}{a, b}
	case 10:
		if g.shape == "users" {
			nm := c01GenNamed(g.rng, m, "")
			text, args, bound = "*, (CASE WHEN "+nm.Tmpl+" THEN 1 ELSE 0 END) AS x", nm.Args, nm.Bound
			break
		}
		fallthrough
	case 11:
		s, a := m.S(), m.I()
		text, args, bound = "COALESCE("+cs+",?),COALESCE("+ci+",?)", []interface{}{s, a}, []interface{}{s, a}
	default:
		a, b := m.I(), m.I()
		text, args, bound = "(CASE WHEN "+ci+" BETWEEN ? AND ? THEN 1 END)", []interface{}{a, b}, []interface{}{a, b}
	}
	if how == "Clauses(Select)" && strings.Contains(text, "@") {
		how = "Select"
	}
	c01H("e2e-api.select-how", how)
	c01H("e2e-api.select-spelling", c01Trunc(text, 30))
	g.add("Select", "select", phase, fmt.Sprintf("%s(%q, %d args)", how, text, len(args)), bound, func(db *gorm.DB) *gorm.DB {
		switch how {
		case "Distinct":
			return db.Distinct(append([]interface{}{text}, args...)...)
		case "Select.Distinct":
			return db.Select(text, args...).Distinct()
		case "Distinct.Select":
			return db.Distinct().Select(text, args...)
		case "Clauses(Select)":
			return db.Clauses(clause.Select{Expression: clause.Expr{SQL: text, Vars: args}})
		}
		return db.Select(text, args...)
	})
}

// ---- slot 3: Order ------------------------------------------------------------------------------------------------------------

func (g *c01ApiGen) orderStep(phase int, withArgs bool) {
	m, cs, ci := g.m, g.cs, g.ci
	if !withArgs || g.rng.Intn(5) == 0 {
		var v interface{}
		switch g.rng.Intn(4) {
		case 0:
			v = ci + " desc"
		case 1:
			v = ci + ">0 DESC," + cs
		case 2:
			v = clause.OrderByColumn{Column: clause.Column{Name: ci}, Desc: true}
		default:
			v = clause.OrderBy{Columns: []clause.OrderByColumn{{Column: clause.Column{Name: cs}}, {Column: clause.Column{Name: ci}, Desc: true}}}
		}
		g.add("Order", "order", phase, fmt.Sprintf("Order(%T no args)", v), nil, func(db *gorm.DB) *gorm.DB { return db.Order(v) })
		return
	}
	var e clause.Expression
	var bound []interface{}
	d := ""
	switch g.rng.Intn(9) {
	case 0:
		s := m.S()
		e, bound, d = clause.Expr{SQL: "CASE WHEN " + cs + " = ? THEN 0 ELSE 1 END", Vars: []interface{}{s}}, []interface{}{s}, "CASE ?"
	case 1:
		a := m.I()
		e, bound, d = clause.Expr{SQL: "(" + ci + ">?)DESC", Vars: []interface{}{a}}, []interface{}{a}, "(col>?)DESC"
	case 2:
		vs, b := g.ints(2 + g.rng.Intn(2))
		e, bound, d = clause.Expr{SQL: "CASE WHEN " + ci + " IN ? THEN 0 ELSE 1 END", Vars: []interface{}{vs}}, b, "IN ? list"
	case 3:
		vs, b := g.ints(2)
		e, bound, d = clause.Expr{SQL: "(" + ci + " IN(?))DESC", Vars: []interface{}{vs}}, b, "IN(?) list"
	case 4:
		sub, b, sd := g.sub("scalar")
		e, bound, d = clause.Expr{SQL: "(" + ci + " > (?)) DESC", Vars: []interface{}{sub}}, b, "sub "+sd
	case 5:
		vs, b := g.ints(3)
		e, bound, d = clause.Expr{SQL: "CASE WHEN " + ci + " IN (0,?) THEN 0 ELSE 1 END", Vars: []interface{}{vs}, WithoutParentheses: true}, b, "WithoutParentheses list"
	case 6:
		a := m.I()
		e, bound, d = clause.NamedExpr{SQL: "(" + ci + ">@a)DESC", Vars: []interface{}{sql.Named("a", a)}}, []interface{}{a}, "NamedExpr"
	case 7:
		a, s := m.I(), m.S()
		e = clause.CommaExpression{Exprs: []clause.Expression{clause.Expr{SQL: ci + ">?", Vars: []interface{}{a}}, clause.Expr{SQL: cs + "<>? DESC", Vars: []interface{}{s}}}}
		bound, d = []interface{}{a, s}, "CommaExpression"
	default:
		a, b := m.I(), m.I()
		e, bound, d = clause.Expr{SQL: ci + " BETWEEN ? AND ? DESC, " + cs, Vars: []interface{}{a, b}}, []interface{}{a, b}, "BETWEEN ? AND ?"
	}
	how := g.pick("Order(OrderBy)", "Order(OrderBy)", "Clauses(OrderBy)", "Order(col).Order(OrderBy)")
	c01H("e2e-api.order-spelling", how+" "+d)
	g.add("Order", "order", phase, how+"{"+d+"}", bound, func(db *gorm.DB) *gorm.DB {
		switch how {
		case "Clauses(OrderBy)":
			return db.Clauses(clause.OrderBy{Expression: e})
		case "Order(col).Order(OrderBy)":
			return db.Order(cs).Order(clause.OrderBy{Expression: e})
		}
		return db.Order(clause.OrderBy{Expression: e})
	})
}

// ---- slot 4: Group + Having ---------------------------------------------------------------------------------------------------

func (g *c01ApiGen) havingStep(phase int) {
	m, cs, ci := g.m, g.cs, g.ci
	var c condForm
	switch g.rng.Intn(10) {
	case 0:
		a := m.I()
		c = condForm{"COUNT(*)<?", "COUNT(*)<?", []interface{}{a}, []interface{}{a}}
	case 1:
		a := m.I()
		c = condForm{"MAX(col)<@a", "MAX(" + ci + ")<@a", []interface{}{sql.Named("a", a)}, []interface{}{a}}
	case 2:
		s := m.S()
		c = condForm{"map", map[string]interface{}{cs: s}, nil, []interface{}{s}}
	case 3:
		a := m.I()
		c = condForm{"clause.Expr", clause.Expr{SQL: "SUM(" + ci + ")<>?", Vars: []interface{}{a}}, nil, []interface{}{a}}
	case 4:
		sub, b, sd := g.sub("scalar")
		c = condForm{"MAX(col)>(?) sub " + sd, "MAX(" + ci + ")>(?)", []interface{}{sub}, b}
	case 5:
		vs, b := g.ints(2)
		c = condForm{"COUNT(*) NOT IN(?) list", "COUNT(*) NOT IN(?)", []interface{}{vs}, b}
	case 6:
		a := m.I()
		c = condForm{"clause.Lt raw column", clause.Lt{Column: clause.Column{Name: "COUNT(*)", Raw: true}, Value: a}, nil, []interface{}{a}}
	default:
		c = g.cond()
	}
	how := g.pick("Group.Having", "Group.Having", "Having.Group", "Clauses(GroupBy)", "Group(raw).Having")
	if _, ok := c.query.(clause.Expression); !ok && how == "Clauses(GroupBy)" {
		how = "Group.Having"
	}
	c01H("e2e-api.having-how", how)
	c01H("e2e-api.having-spelling", c01Trunc(c.desc, 28))
	g.add("Having", "having", phase, how+"("+c.desc+")", c.bound, func(db *gorm.DB) *gorm.DB {
		switch how {
		case "Having.Group":
			return db.Having(c.query, c.args...).Group(cs)
		case "Clauses(GroupBy)":
			return db.Clauses(clause.GroupBy{Columns: []clause.Column{{Name: cs}}, Having: []clause.Expression{c.query.(clause.Expression)}})
		case "Group(raw).Having":
			return db.Group("COALESCE("+cs+",'')").Having(c.query, c.args...)
		}
		return db.Group(cs).Having(c.query, c.args...)
	})
}

// ---- slot 5: raw Joins / InnerJoins, clause.From{Joins} ----------------------------------------------------------------------

func (g *c01ApiGen) joinStep(phase int) {
	m := g.m
	g.nj++
	n := fmt.Sprint(g.nj)
	j := "j" + n
	inner := "(SELECT id AS jid" + n + ", name AS jname" + n + ", age AS jage" + n + " FROM v_users)"
	on0 := j + ".jid" + n + " = id"
	if g.shape == "json" || g.shape == "series" || g.shape == "usersjson" {
		on0 = j + ".jid" + n + " > 0"
	}
	head := "LEFT JOIN " + inner + " AS " + j + " ON " + on0
	var text string
	var args, bound []interface{}
	named := false
	switch g.rng.Intn(8) {
	case 0:
		s := m.S()
		text, args, bound = head+" AND "+j+".jname"+n+" <> ?", []interface{}{s}, []interface{}{s}
	case 1:
		vs, b := g.ints(2 + g.rng.Intn(2))
		text, args, bound = head+" AND "+j+".jage"+n+g.pick(" NOT IN ?", " NOT IN(?)", " NOT IN (?)"), []interface{}{vs}, b
	case 2:
		s, a := m.S(), m.I()
		text, bound = head+" AND "+j+".jname"+n+" <> @n AND("+j+".jage"+n+">@a)", []interface{}{s, a}
		args = []interface{}{sql.Named("a", a), sql.Named("n", s)}
		if g.rng.Intn(2) == 0 {
			args = []interface{}{map[string]interface{}{"a": a, "n": s}}
		}
		named = true
	case 3: // one *gorm.DB argument: joins() takes its relation branch first
		sub, b, _ := g.sub("as:jid" + n)
		text, args, bound = "LEFT JOIN (?) AS "+j+" ON "+on0, []interface{}{sub}, b
	case 4:
		sub, b, _ := g.sub("as:jid" + n)
		a := m.I()
		text, args, bound = "LEFT JOIN (?) AS "+j+" ON "+on0+" AND "+j+".jid"+n+"<>?", []interface{}{sub, a}, c01Cat(b, a)
	case 5:
		a, b := m.I(), m.I()
		text, args, bound = head+" AND "+j+".jage"+n+" NOT BETWEEN ? AND ?", []interface{}{a, b}, []interface{}{a, b}
	default:
		c := g.textCond()
		text, args, bound = head+" AND ("+c.query.(string)+")", c.args, c.bound
		named = strings.Contains(text, "@")
	}
	sp := g.pick("plain", "plain", "leading-blank", "lower-case", "newlines", "tabs", "inner", "bare-join", "backticks", "cross-comma")
	switch sp {
	case "leading-blank":
		text = "  " + text
	case "lower-case":
		text = strings.Replace(strings.Replace(text, "LEFT JOIN", "left join", 1), " ON ", " on ", 1)
	case "newlines":
		text = strings.ReplaceAll(text, " ", "\n")
	case "tabs":
		if named {
			sp = "plain"
		} else {
			text = strings.ReplaceAll(text, " ", "\t")
		}
	case "inner":
		text = strings.Replace(text, "LEFT JOIN", "INNER JOIN", 1)
	case "bare-join":
		text = strings.Replace(text, "LEFT JOIN", "JOIN", 1)
	case "backticks":
		text = strings.ReplaceAll(text, j+".", "`"+j+"`.")
		text = strings.Replace(text, "AS "+j, "AS `"+j+"`", 1)
	case "cross-comma":
		text = strings.Replace(strings.Replace(text, "LEFT JOIN", "CROSS JOIN", 1), " ON ", " ON 1=1 AND ", 1)
	}
	how := g.pick("Joins", "Joins", "InnerJoins", "Clauses(From{Join.Expression})")
	if how == "Clauses(From{Join.Expression})" && (named || phase != 0) {
		how = "Joins"
	}
	for _, s := range g.steps {
		if s.Group == "fromjoin" && how == "Clauses(From{Join.Expression})" {
			how = "Joins" // a second clause.From would replace the first
		}
	}
	group := "joins"
	if how == "Clauses(From{Join.Expression})" {
		group = "fromjoin"
	}
	c01H("e2e-api.join-spelling", sp)
	c01H("e2e-api.join-how", how)
	g.add("Joins", group, phase, fmt.Sprintf("%s(%s %q, %d args)", how, sp, c01Trunc(text, 200), len(args)), bound, func(db *gorm.DB) *gorm.DB {
		switch how {
		case "InnerJoins":
			return db.InnerJoins(text, args...)
		case "Clauses(From{Join.Expression})":
			return db.Clauses(clause.From{Joins: []clause.Join{{Expression: clause.Expr{SQL: text, Vars: args}}}})
		}
		return db.Joins(text, args...)
	})
}

// structured clause.Join with ON expressions (columns of the joined table are qualified; the outer ones may be ambiguous
// for SQLite - a database error is tolerated, text and values are still judged)
func (g *c01ApiGen) fromJoinStep() {
	for _, s := range g.steps {
		if s.Group == "fromjoin" {
			return
		}
	}
	m := g.m
	s, a := m.S(), m.I()
	vs, b := g.ints(2)
	on := clause.Where{Exprs: []clause.Expression{
		clause.Expr{SQL: "fc.id > 0 AND fc.name <> ?", Vars: []interface{}{s}},
		clause.Neq{Column: clause.Column{Table: "fc", Name: "age"}, Value: a},
		clause.Expr{SQL: "fc.age NOT IN(?)", Vars: []interface{}{vs}},
	}}
	bound := c01Cat([]interface{}{s, a}, b...)
	jt := []clause.JoinType{clause.LeftJoin, clause.InnerJoin, clause.CrossJoin, ""}[g.rng.Intn(4)]
	g.add("Clauses(From)", "fromjoin", 0, fmt.Sprintf("Clauses(From{Joins{%s c01_j_companies fc ON Expr,Neq,Expr(list)}})", jt), bound, func(db *gorm.DB) *gorm.DB {
		return db.Clauses(clause.From{Joins: []clause.Join{{Type: jt, Table: clause.Table{Name: "c01_j_companies", Alias: "fc"}, ON: on}}})
	})
}

// ---- slot 6 / 8: Where / Or / Not / Clauses(conditions) ----------------------------------------------------------------------

func (g *c01ApiGen) whereStep(phase int) {
	c := g.cond()
	op := g.rng.Intn(12)
	canOr := false // a leading Or is re-ordered by Where.Build: an Or only after a chain-level condition
	for _, s := range g.steps {
		canOr = canOr || (s.Group == "where" && s.Phase == 0)
	}
	if (!canOr || phase != 0) && op >= 5 && op < 7 {
		op = 0
	}
	_, isExpr := c.query.(clause.Expression)
	switch {
	case op < 5:
		g.add("Where", "where", phase, "Where("+c.desc+")", c.bound, func(d *gorm.DB) *gorm.DB { return d.Where(c.query, c.args...) })
	case op < 7:
		g.add("Or", "where", phase, "Or("+c.desc+")", c.bound, func(d *gorm.DB) *gorm.DB { return d.Or(c.query, c.args...) })
	case op < 9:
		g.add("Not", "where", phase, "Not("+c.desc+")", c.bound, func(d *gorm.DB) *gorm.DB { return d.Not(c.query, c.args...) })
	case op == 9 && isExpr: // a bare expression handed to Clauses goes through BuildCondition
		s := g.m.S()
		g.add("Clauses(bare Expression)", "where", phase, "Clauses("+c.desc+", Neq)", c01Cat(c.bound, s), func(d *gorm.DB) *gorm.DB {
			return d.Clauses(c.query.(clause.Expression), clause.Neq{Column: g.cs, Value: s})
		})
	case op == 10 && isExpr:
		a := g.m.I()
		g.add("Clauses(Where)", "where", phase, "Clauses(Where{"+c.desc+", Expr})", c01Cat(c.bound, a), func(d *gorm.DB) *gorm.DB {
			return d.Clauses(clause.Where{Exprs: []clause.Expression{c.query.(clause.Expression), clause.Expr{SQL: g.ci + "<>?", Vars: []interface{}{a}}}})
		})
	case op == 11:
		g.add("Clauses(Where via BuildCondition)", "where", phase, "Clauses(Where{BuildCondition("+c.desc+")})", c.bound, func(d *gorm.DB) *gorm.DB {
			exprs := d.Session(&gorm.Session{NewDB: true}).Statement.BuildCondition(c.query, c.args...)
			return d.Clauses(clause.Where{Exprs: exprs})
		})
	default:
		g.add("Where", "where", phase, "Where("+c.desc+")", c.bound, func(d *gorm.DB) *gorm.DB { return d.Where(c.query, c.args...) })
	}
}

// ---- slot 9: Scopes -----------------------------------------------------------------------------------------------------------

// scopeWrap turns the steps added by `body` into one Scopes(func) call; nested = the scope registers a further scope
func (g *c01ApiGen) scopeWrap(body func(phase int), nested bool) {
	at := len(g.steps)
	body(2)
	inner := append([]c01ApiStep{}, g.steps[at:]...)
	var deep []c01ApiStep
	if nested {
		at2 := len(g.steps)
		body(3)
		deep = append([]c01ApiStep{}, g.steps[at2:]...)
	}
	// the wrapped steps stay in g.steps for the flattening; only the first carries the Apply
	for i := at; i < len(g.steps); i++ {
		g.steps[i].Apply = func(d *gorm.DB) *gorm.DB { return d }
		g.steps[i].Desc = fmt.Sprintf("Scopes@%d{%s}", g.steps[i].Phase-1, g.steps[i].Desc)
	}
	c01H("e2e-api.slot", "Scopes")
	c01H("e2e-api.scope-depth", fmt.Sprint(1+len(deep)))
	g.steps[at].Apply = func(d *gorm.DB) *gorm.DB {
		return d.Scopes(func(s *gorm.DB) *gorm.DB {
			if len(deep) > 0 {
				s = s.Scopes(func(s2 *gorm.DB) *gorm.DB {
					for _, st := range deep {
						s2 = st.c01Step.Apply(s2)
					}
					return s2
				})
			}
			for _, st := range inner {
				s = st.c01Step.Apply(s)
			}
			return s
		})
	}
}

// ---- flattening -----------------------------------------------------------------------------------------------------------------

func (g *c01ApiGen) args(groups ...string) []interface{} {
	out := []interface{}{}
	for _, grp := range groups {
		for ph := 0; ph <= 3; ph++ {
			for _, s := range g.steps {
				if s.Group == grp && s.Phase == ph {
					out = append(out, s.Args...)
				}
			}
		}
	}
	return out
}

func (g *c01ApiGen) has(group string) bool {
	for _, s := range g.steps {
		if s.Group == group {
			return true
		}
	}
	return false
}

func (g *c01ApiGen) apply(d *gorm.DB) *gorm.DB {
	for _, s := range g.steps {
		if s.Phase != 1 {
			d = s.c01Step.Apply(d)
		}
	}
	return d
}

func (g *c01ApiGen) descs() []string {
	out := []string{}
	for _, s := range g.steps {
		out = append(out, s.Desc)
	}
	return out
}

var _ = sort.Strings
var _ = time.Now
var _ = json.Marshal
