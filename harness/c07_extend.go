package main

// C07 round 5 — family "extend" of the race-detector programs and the deterministic suite "extfork".
//
// DIMENSION: HOW MANY entries of one list kind the shared handle carries, how they were put there, and goroutines that EXTEND
// THE SAME LIST.  The handle all goroutines start from is `shared.Table/Model(…).<N entries of kind K>.Session(&gorm.Session{})`
// with K ∈ joins / where / not / order / having / group / select / omit / preload / scopes / Clauses(Where) / Clauses(OrderBy),
// N ∈ 0..8 (Go's append leaves spare capacity after 3, 5, 6, 7 one-by-one appends: a derived statement that shares the backing
// array writes the handle's memory), built one entry per call, all in one call (user slices WITH spare capacity), or in two
// calls.  Every goroutine adds 1–2 further entries of the SAME kind — its own, selecting its own rows / ordering — and runs a
// finisher.  Alone, goroutine g gets g's rows; if a derived statement writes into memory the handle (or a sibling) still owns
// it gets another goroutine's rows (and the race detector sees two writers of one slot).
//
// suite "extfork" (ordinary binary, one OS thread, deterministic): the interleaving  A derives · B derives · A executes · B executes
// (and  … · B executes · A executes) of a two-goroutine program, forced by running it on one thread: both must build the
// statement and return the rows they do when each runs alone on a handle nobody else derived from; the handle's own Statement
// must be unchanged.  Tie of the regenerated clone facts (Gen.CloneFacts.cloneLater says Joins / scopes are `makeCopy`): on
// the per-call instance a clone hands out, those slices have cap == len and a backing array of their own.

import (
	"context"
	"encoding/json"
	"fmt"
	"math/rand"
	"os"
	"reflect"
	"strings"

	"gorm.io/driver/sqlite"
	"gorm.io/gorm"
	"gorm.io/gorm/clause"
)

var c07ExtKinds = []string{"joins", "where", "not", "order", "having", "group", "select", "omit", "preload", "scopes", "clauses-where", "clauses-order"}

type c07ExtSpec struct {
	Kind  string `json:"kind"`
	N     int    `json:"n"`
	Split int    `json:"split"` // 0 one entry per call, 1 all in one call (where the API has a variadic / clause form), 2 two calls
	Model bool   `json:"model"` // handle carries Model(&C07Item{}) instead of Table("c07_items")
	Rel   bool   `json:"rel"`   // joins: the first carried join is the relation join Joins("Cat")
}

func (s c07ExtSpec) String() string {
	return fmt.Sprintf("%s:%d:%d:%v:%v", s.Kind, s.N, s.Split, s.Model, s.Rel)
}

func c07ExtParse(s string) (c07ExtSpec, bool) {
	var sp c07ExtSpec
	parts := strings.Split(s, ":")
	if len(parts) != 5 {
		return sp, false
	}
	sp.Kind = parts[0]
	fmt.Sscan(parts[1], &sp.N)
	fmt.Sscan(parts[2], &sp.Split)
	sp.Model = parts[3] == "true"
	sp.Rel = parts[4] == "true"
	return sp, true
}

func c07ExtSpecOf(seed int64) c07ExtSpec {
	rng := rand.New(rand.NewSource(seed*53 + 11))
	sp := c07ExtSpec{Kind: c07ExtKinds[rng.Intn(len(c07ExtKinds))], N: rng.Intn(9), Split: rng.Intn(3), Model: rng.Intn(3) == 0, Rel: rng.Intn(3) == 0}
	if rng.Intn(2) == 0 { // the sizes after which append leaves spare capacity
		sp.N = []int{3, 5, 6, 7}[rng.Intn(4)]
	}
	return sp
}

var c07ExtItemCol = func(name string) clause.Column { return clause.Column{Table: "c07_items", Name: name} }

var c07ExtSelectCols = []string{"id", "user_name", "score", "zip_code", "note", "cat_id", "c07_items.score + 1 AS x1", "c07_items.score + 2 AS x2"}
var c07ExtOmitCols = []string{"note", "zip_code", "score"} // the goroutines omit cat_id / user_name
var c07ExtGroupCols = []string{"c07_items.id", "c07_items.score", "c07_items.zip_code", "c07_items.user_name", "c07_items.note", "c07_items.cat_id", "c07_items.score", "c07_items.note"}

// c07ExtChunks: how the n entries are distributed over calls
func c07ExtChunks(n, split int) [][]int {
	var idx []int
	for i := 0; i < n; i++ {
		idx = append(idx, i)
	}
	switch {
	case n == 0:
		return nil
	case split == 1:
		return [][]int{idx}
	case split == 2 && n >= 2:
		return [][]int{idx[:n/2], idx[n/2:]}
	}
	var out [][]int
	for _, i := range idx {
		out = append(out, []int{i})
	}
	return out
}

// c07ExtBuild: the state-carrying handle (NOT yet a Session handle: the caller decides)
func c07ExtBuild(shared *gorm.DB, sp c07ExtSpec) *gorm.DB {
	tx := shared.Table("c07_items")
	if sp.Model {
		tx = shared.Model(&C07Item{})
	}
	n := sp.N
	switch sp.Kind {
	case "joins": // one join per call (the API has no other form)
		for i := 0; i < n; i++ {
			switch {
			case i == 0 && sp.Rel:
				tx = tx.Joins("Cat")
			case i%3 == 1:
				tx = tx.Joins(fmt.Sprintf("JOIN c07_cats AS cj%d ON cj%d.id = c07_items.cat_id AND cj%d.id > ?", i, i, i), 0)
			case i%3 == 2:
				tx = tx.InnerJoins(fmt.Sprintf("JOIN c07_cats AS cj%d ON cj%d.id = c07_items.cat_id", i, i))
			default:
				tx = tx.Joins(fmt.Sprintf("JOIN c07_cats AS cj%d ON cj%d.id = c07_items.cat_id", i, i))
			}
		}
	case "where":
		for _, ch := range c07ExtChunks(n, sp.Split) {
			if len(ch) == 1 {
				tx = tx.Where("c07_items.score >= ?", -ch[0])
				continue
			}
			var args []interface{}
			for _, i := range ch {
				args = append(args, clause.Gte{Column: c07ExtItemCol("score"), Value: -i})
			}
			tx = tx.Where(args[0], args[1:]...)
		}
	case "not":
		for _, ch := range c07ExtChunks(n, sp.Split) {
			if len(ch) == 1 {
				tx = tx.Not("c07_items.score = ?", -5-ch[0])
				continue
			}
			var args []interface{}
			for _, i := range ch {
				args = append(args, clause.Eq{Column: c07ExtItemCol("score"), Value: -5 - i})
			}
			tx = tx.Not(args[0], args[1:]...)
		}
	case "order", "clauses-order": // keys that are constant over the rows: the goroutine's own key decides
		for _, ch := range c07ExtChunks(n, sp.Split) {
			if len(ch) == 1 && sp.Kind == "order" {
				switch ch[0] % 3 {
				case 0:
					tx = tx.Order("c07_items.note")
				case 1:
					tx = tx.Order(clause.OrderByColumn{Column: clause.Column{Table: clause.CurrentTable, Name: "note"}, Desc: true})
				default:
					tx = tx.Order("c07_items.note desc")
				}
				continue
			}
			cols := make([]clause.OrderByColumn, 0, len(ch)+3) // a user slice WITH spare capacity
			for _, i := range ch {
				cols = append(cols, clause.OrderByColumn{Column: clause.Column{Table: clause.CurrentTable, Name: "note"}, Desc: i%2 == 1})
			}
			tx = tx.Clauses(clause.OrderBy{Columns: cols})
		}
	case "having":
		tx = tx.Group("c07_items.id")
		for _, ch := range c07ExtChunks(n, sp.Split) {
			if len(ch) == 1 {
				tx = tx.Having("c07_items.score >= ?", -ch[0])
				continue
			}
			hv := make([]clause.Expression, 0, len(ch)+3)
			for _, i := range ch {
				hv = append(hv, clause.Gte{Column: c07ExtItemCol("score"), Value: -i})
			}
			tx = tx.Clauses(clause.GroupBy{Having: hv})
		}
	case "group":
		for _, ch := range c07ExtChunks(n, sp.Split) {
			if len(ch) == 1 {
				tx = tx.Group(c07ExtGroupCols[ch[0]%len(c07ExtGroupCols)])
				continue
			}
			cols := make([]clause.Column, 0, len(ch)+3)
			for _, i := range ch {
				cols = append(cols, clause.Column{Name: c07ExtGroupCols[i%len(c07ExtGroupCols)], Raw: true})
			}
			tx = tx.Clauses(clause.GroupBy{Columns: cols})
		}
	case "select": // Select REPLACES the list: the last call wins; spare capacity comes from the appends inside ONE call
		if n > len(c07ExtSelectCols) {
			n = len(c07ExtSelectCols)
		}
		if n > 0 {
			args := []interface{}{}
			for _, c := range c07ExtSelectCols[1:n] {
				args = append(args, c)
			}
			switch {
			case sp.Split == 1:
				tx = tx.Select(append([]string{}, c07ExtSelectCols[:n]...))
			case sp.Split == 2:
				tx = tx.Select([]string{c07ExtSelectCols[0]}, args...)
			case n%2 == 0: // one call per column: the last call wins (a Select that accumulated would grow the list call by call)
				for _, c := range c07ExtSelectCols[:n] {
					tx = tx.Select("id", c)
				}
			default:
				tx = tx.Select(c07ExtSelectCols[0], args...)
			}
		}
	case "omit":
		if n > len(c07ExtOmitCols) {
			n = len(c07ExtOmitCols)
		}
		if n > 0 {
			cols := make([]string, 0, n+3)
			cols = append(cols, c07ExtOmitCols[:n]...)
			switch sp.Split {
			case 1:
				tx = tx.Omit(strings.Join(cols, ","))
			case 2:
				tx = tx.Omit(cols...)
			default: // one call per column: the last call wins (an Omit that accumulated would grow the list call by call)
				for _, c := range cols {
					tx = tx.Omit(c)
				}
			}
		}
	case "preload":
		if n >= 1 {
			tx = tx.Preload("Tags")
		}
		if n >= 2 {
			tx = tx.Preload("Cat")
		}
		if n >= 3 {
			tx = tx.Preload(clause.Associations)
		}
	case "scopes":
		mk := func(i int) func(*gorm.DB) *gorm.DB {
			return func(d *gorm.DB) *gorm.DB { return d.Where("c07_items.score >= ?", -i) }
		}
		for _, ch := range c07ExtChunks(n, sp.Split) {
			var fs []func(*gorm.DB) *gorm.DB
			for _, i := range ch {
				fs = append(fs, mk(i))
			}
			tx = tx.Scopes(fs...)
		}
	case "clauses-where":
		for _, ch := range c07ExtChunks(n, sp.Split) {
			ex := make([]clause.Expression, 0, len(ch)+3)
			for _, i := range ch {
				ex = append(ex, clause.Gte{Column: c07ExtItemCol("score"), Value: -i})
			}
			tx = tx.Clauses(clause.Where{Exprs: ex})
		}
	}
	return tx.Set("c07:ext", sp.String())
}

// c07ExtSelfFilter: kinds whose extension itself selects the goroutine's rows
var c07ExtSelfFilter = map[string]bool{"joins": true, "where": true, "not": true, "having": true, "scopes": true, "clauses-where": true}

// c07ExtAdd: goroutine (block lo, parity g) adds j further entries of the handle's OWN list kind; row = which of its rows (1..6)
func c07ExtAdd(h *gorm.DB, sp c07ExtSpec, g int, lo uint, row uint, j int) *gorm.DB {
	hi := lo + 9999
	d := h
	if !c07ExtSelfFilter[sp.Kind] {
		d = d.Where("c07_items.id BETWEEN ? AND ?", lo, hi)
	}
	switch sp.Kind {
	case "joins":
		d = d.Joins("JOIN c07_item_tags AS tg ON tg.item_id = c07_items.id AND tg.id = ?", (lo+row)*10+1)
		if j > 1 {
			d = d.Joins("JOIN c07_cats AS cx ON cx.id = c07_items.cat_id AND cx.id = ?", lo+1)
		}
	case "where":
		d = d.Where("c07_items.id BETWEEN ? AND ?", lo, hi)
		if j > 1 {
			d = d.Where("c07_items.id <> ?", lo+row)
		}
	case "not":
		d = d.Not("c07_items.id NOT BETWEEN ? AND ?", lo, hi)
		if j > 1 {
			d = d.Not("c07_items.id = ?", lo+row)
		}
	case "order":
		if g%2 == 0 {
			d = d.Order("c07_items.id desc")
		} else {
			d = d.Order(clause.OrderByColumn{Column: clause.Column{Table: clause.CurrentTable, Name: "id"}})
		}
		if j > 1 {
			d = d.Order("c07_items.score")
		}
	case "clauses-order":
		d = d.Clauses(clause.OrderBy{Columns: []clause.OrderByColumn{{Column: clause.Column{Table: clause.CurrentTable, Name: "id"}, Desc: g%2 == 0}}})
		if j > 1 {
			d = d.Clauses(clause.OrderBy{Columns: []clause.OrderByColumn{{Column: clause.Column{Name: "score"}}}})
		}
	case "having":
		d = d.Having("c07_items.id BETWEEN ? AND ?", lo, hi)
		if j > 1 {
			d = d.Having("c07_items.id <> ?", lo+row)
		}
	case "group":
		d = d.Group([]string{"c07_items.id", "c07_items.user_name"}[g%2])
		if j > 1 {
			d = d.Group("c07_items.cat_id")
		}
	case "select":
		if g%2 == 0 {
			d = d.Select("id", "user_name")
		} else {
			d = d.Select([]string{"id"}, "score")
		}
		if j > 1 {
			d = d.Select("id", []string{"zip_code", "score"}[g%2], "note")
		}
	case "omit":
		d = d.Omit([]string{"cat_id", "user_name"}[g%2])
		if j > 1 {
			d = d.Omit("score", []string{"cat_id", "user_name"}[g%2])
		}
	case "preload":
		d = d.Preload("Tags", "label = ?", []string{"a", "b"}[g%2])
		if j > 1 {
			d = d.Preload("Cat")
		}
	case "scopes":
		d = d.Scopes(func(x *gorm.DB) *gorm.DB { return x.Where("c07_items.id BETWEEN ? AND ?", lo, hi) })
		if j > 1 {
			d = d.Scopes(func(x *gorm.DB) *gorm.DB { return x.Where("c07_items.id <> ?", lo+row) })
		}
	case "clauses-where":
		d = d.Clauses(clause.Where{Exprs: []clause.Expression{clause.Gte{Column: c07ExtItemCol("id"), Value: lo}, clause.Lte{Column: c07ExtItemCol("id"), Value: hi}}})
		if j > 1 {
			d = d.Clauses(clause.Where{Exprs: []clause.Expression{clause.Neq{Column: c07ExtItemCol("id"), Value: lo + row}}})
		}
	}
	return d
}

// c07ExtRun: the finisher; the result carries the rows AND the statement text + bind values the operation executed
func c07ExtRun(d *gorm.DB, sp c07ExtSpec, fin int) string {
	grouped := sp.Kind == "group" || sp.Kind == "having"
	if fin == 1 && grouped {
		fin = 0
	}
	if fin == 2 && (sp.Kind == "select" || sp.Kind == "joins" && sp.Rel) {
		fin = 0
	}
	// the statement text + bind values first, through a DryRun session of the derived handle (processor.Execute resets
	// Statement.SQL after a real run); Session() on the chain's instance shares its Statement, the finisher clones it
	dry := d.Session(&gorm.Session{DryRun: true})
	var res, txt *gorm.DB
	out := ""
	switch fin {
	case 1:
		var n int64
		txt = dry.Count(&n)
		res = d.Count(&n)
		out = fmt.Sprintf("count %d", n)
	case 2:
		var ids, ids0 []uint
		txt = dry.Pluck("c07_items.id", &ids0)
		res = d.Pluck("c07_items.id", &ids)
		out = fmt.Sprintf("pluck %v", ids)
	default:
		var its, its0 []C07Item
		txt = dry.Find(&its0)
		res = d.Find(&its)
		out = "find " + c07ShowItems(its)
	}
	return fmt.Sprintf("%s %s || %s %v", c07ErrClass(res.Error), out, txt.Statement.SQL.String(), txt.Statement.Vars)
}

// opExtend: one operation of a goroutine in the race child
func (w *c07RaceWorker) opExtend(h *gorm.DB) string {
	v, _ := h.Get("c07:ext")
	sp, ok := c07ExtParse(fmt.Sprint(v))
	if !ok {
		return "extend: handle without spec"
	}
	j, fin, row := 1+w.rng.Intn(2), w.rng.Intn(3), uint(1+w.rng.Intn(c07CarryRows))
	w.kinds[fmt.Sprintf("ext:%s:n%d:+%d", sp.Kind, sp.N, j)] = true
	return c07ExtRun(c07ExtAdd(h, sp, w.g, w.base, row, j), sp, fin)
}

// ---------- suite "extfork" ----------

type c07ForkCase struct {
	Spec  c07ExtSpec `json:"spec"`
	JA    int        `json:"ja"`
	JB    int        `json:"jb"`
	Fin   int        `json:"fin"`
	Order int        `json:"order"` // 0: A executes first, 1: B executes first
	Via   string     `json:"via"`   // how the shared handle was made reusable: session | ctx | debug-free WithContext
}

func init() {
	register("C07", c07ExtFork)
	replayers["C07/extfork"] = func(r *Result, input json.RawMessage) {
		var c c07ForkCase
		if json.Unmarshal(input, &c) == nil {
			env := c07ForkOpen()
			defer env.close()
			c07ForkRun(r, env, c)
		}
	}
	replayers["C07/extfork-clone"] = replayers["C07/extfork"]
}

type c07ForkEnv struct {
	shared *gorm.DB
	close  func()
}

func c07ForkOpen() c07ForkEnv {
	setup, _, sqlDB := OpenRec(&gorm.Config{NowFunc: fixedNowFunc})
	sqlDB.SetMaxOpenConns(1)
	if err := setup.AutoMigrate(c07CarryModels...); err != nil {
		panic(err)
	}
	c07CarrySeed(setup, 0)
	c07CarrySeed(setup, 1)
	shared, err := gorm.Open(sqlite.Dialector{Conn: sqlDB}, &gorm.Config{NowFunc: fixedNowFunc, Logger: c07NewTraceLogger()})
	if err != nil {
		panic(err)
	}
	return c07ForkEnv{shared: shared, close: func() { sqlDB.Close() }}
}

func c07ExtFork(r *Result, rng *rand.Rand, tier string) {
	if o := c07Only(); o != "" && o != "extfork" {
		return
	}
	env := c07ForkOpen()
	defer env.close()
	reps := 4
	if tier == "thorough" {
		reps = 40
	}
	bad := 0
	for rep := 0; rep < reps; rep++ {
		for _, kind := range c07ExtKinds {
			for n := 0; n <= 8; n++ {
				for split := 0; split < 3; split++ {
					if expired() || bad >= 3 {
						return
					}
					c := c07ForkCase{Spec: c07ExtSpec{Kind: kind, N: n, Split: split, Model: rng.Intn(3) == 0, Rel: rng.Intn(2) == 0},
						JA: 1 + rng.Intn(2), JB: 1 + rng.Intn(2), Fin: rng.Intn(3), Order: rng.Intn(2), Via: []string{"session", "ctx", "withctx"}[rng.Intn(3)]}
					if c07ForkRun(r, env, c) {
						bad++
					}
				}
			}
		}
	}
}

func c07ForkReusable(tx *gorm.DB, via string) *gorm.DB {
	switch via {
	case "ctx":
		return tx.Session(&gorm.Session{Context: context.Background()})
	case "withctx":
		return tx.WithContext(context.Background())
	}
	return tx.Session(&gorm.Session{})
}

// c07SliceFacts: (len, cap, data pointer) of every slice-kind field of a Statement that clone copies with make+copy
var c07CloneCopied = []string{"Joins", "scopes"}

func c07SliceOf(st *gorm.Statement, field string) (l, c int, p uintptr) {
	f := reflect.ValueOf(st).Elem().FieldByName(field)
	if !f.IsValid() || f.Kind() != reflect.Slice {
		return -1, -1, 0
	}
	return f.Len(), f.Cap(), f.Pointer()
}

var c07ForkCloneReports = 0

// c07ForkRun: true = a violation was reported
func c07ForkRun(r *Result, env c07ForkEnv, c c07ForkCase) bool {
	sp := c.Spec
	const loA, loB = uint(10000), uint(20000)
	r.H("extfork.kind", sp.Kind)
	r.H("extfork.carried", fmt.Sprint(sp.N))
	r.H("extfork.built", []string{"entry-per-call", "one-call", "two-calls"}[sp.Split])
	r.H("extfork.added", fmt.Sprintf("A+%d B+%d", c.JA, c.JB))
	// each alone, on a handle nobody else derives from
	aloneA := c07Guard(func() string {
		return c07ExtRun(c07ExtAdd(c07ForkReusable(c07ExtBuild(env.shared, sp), c.Via), sp, 0, loA, 2, c.JA), sp, c.Fin)
	})
	aloneB := c07Guard(func() string {
		return c07ExtRun(c07ExtAdd(c07ForkReusable(c07ExtBuild(env.shared, sp), c.Via), sp, 1, loB, 3, c.JB), sp, c.Fin)
	})
	h := c07ForkReusable(c07ExtBuild(env.shared, sp), c.Via)
	base := c07StmtPrint(h.Statement)
	// tie of the clone facts: the per-call instance's copies of Joins / scopes are exactly sized and private
	inst := h.Session(&gorm.Session{Context: context.Background()}) // Session with a Context clones the statement at once
	for _, f := range c07CloneCopied {
		hl, _, hp := c07SliceOf(h.Statement, f)
		il, ic, ip := c07SliceOf(inst.Statement, f)
		r.CorrCompared++
		if hl < 0 || il < 0 {
			r.Violate(Violation{Kind: "correspondence", Suite: "extfork-clone", Input: c, Observed: "Statement has no slice field " + f, Expected: "field named by Gen.CloneFacts.cloneLater"})
			return true
		}
		if il != hl || (il > 0 && (ic != il || ip == hp)) {
			r.H("extfork.result", "clone shares / over-allocates "+f)
			if c07ForkCloneReports++; c07ForkCloneReports > 3 {
				continue
			}
			r.Violate(Violation{Kind: "correspondence", Suite: "extfork-clone", Input: c,
				Observed: fmt.Sprintf("Statement.%s of the handle: len %d; of the per-call instance made by Statement.clone: len %d cap %d, same backing array = %v", f, hl, il, ic, ip == hp),
				Expected: "a private copy with cap == len (Gen.CloneFacts.cloneLater: makeCopy; Gorm.C07_derived_append_leaves_shared needs it)",
				Note:     "the next append through the instance writes into memory the shared handle / a sibling instance still reads"})
			// fall through: the forced interleaving below is the e2e witness
		}
	}
	dA := c07ExtAdd(h, sp, 0, loA, 2, c.JA)
	dB := c07ExtAdd(h, sp, 1, loB, 3, c.JB)
	var gotA, gotB string
	if c.Order == 0 {
		gotA = c07Guard(func() string { return c07ExtRun(dA, sp, c.Fin) })
		gotB = c07Guard(func() string { return c07ExtRun(dB, sp, c.Fin) })
	} else {
		gotB = c07Guard(func() string { return c07ExtRun(dB, sp, c.Fin) })
		gotA = c07Guard(func() string { return c07ExtRun(dA, sp, c.Fin) })
	}
	c07TakePanics()
	r.Case("extfork", fmt.Sprintf("%s|%d|%d|%d%d|%d", sp.Kind, sp.N, sp.Split, c.JA, c.JB, c.Fin), true)
	if strings.HasPrefix(aloneA, "err:") || strings.HasPrefix(aloneA, "PANIC") {
		r.H("extfork.result", "operation fails alone too (still compared)")
		if os.Getenv("C07_DEV_EXT") != "" {
			r.Note("extfork dev: %s -> %s", canon(c), aloneA)
		}
	}
	viol := func(obs string) bool {
		r.H("extfork.result", "VIOLATION")
		r.Violate(Violation{Kind: "e2e", Suite: "extfork", Input: c, Observed: obs,
			Expected: "goroutine A and goroutine B each build the statement and get the rows they get alone",
			Note: "schedule  A: d := h.<add " + sp.Kind + ">  ·  B: d := h.<add " + sp.Kind + ">  ·  A: d.Find  ·  B: d.Find  of a two-goroutine program on one shared Session handle carrying " +
				fmt.Sprint(sp.N) + " entries of that list (run on one thread, so deterministic); under real concurrency the same two writes are a data race"})
		return true
	}
	if gotA != aloneA {
		return viol(fmt.Sprintf("goroutine A alone: %s || after B derived from the same handle: %s", aloneA, gotA))
	}
	if gotB != aloneB {
		return viol(fmt.Sprintf("goroutine B alone: %s || after A derived from the same handle: %s", aloneB, gotB))
	}
	if now := c07StmtPrint(h.Statement); now != base {
		return viol(fmt.Sprintf("the shared handle's Statement before: %s || after two goroutines derived from it: %s", base, now))
	}
	r.H("extfork.result", "both as alone")
	if os.Getenv("C07_DEV_EXT") == "all" {
		r.Note("extfork dev: %s -> A: %s ;; B: %s", canon(c), aloneA, aloneB)
	}
	return false
}
