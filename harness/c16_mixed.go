package main

// C16 (round 4) — SLICES THAT MIX keyed (existing / missing) AND keyless ELEMENTS, in every order.
//
// Dimension that was constant before this file: every slice handed to Save / Create+OnConflict was either all-keyed or
// all-keyless, and only the TABLE was judged. Here a slice mixes elements whose key exists, whose key is missing and
// (auto-increment model) whose key is zero, in every order, passed as []T or []*T, through Save (own UpdateAll rule or a
// rule carried by the chain) or Create with every OnConflict rule (DoNothing, DoUpdates over any column subset,
// UpdateAll; conflict target defaulted or spelled out; with and without a DO UPDATE ... WHERE guard that holds for some
// stored rows and not for others), in one INSERT or split by Session{CreateBatchSize}, on the bare handle / behind
// Session / WithContext / PrepareStmt / SkipDefaultTransaction / inside a user transaction / inside db.Transaction, on a
// dialector WITH and WITHOUT RETURNING (c03Open), over three key shapes (auto-increment id | application-assigned string
// | composite int+string) that all carry a database-default column (`rank default:(8)`), with the table's rows INSERTED
// in shuffled order.
//
// Suites:
//   mixed    (e2e)  judged on
//                   (a) every element's in-memory key / database-default column after the call = the row that stores it
//                       ("Save stores the full value", "Create with an OnConflict rule leaves exactly the rows and column
//                       values that rule defines": the records handed back are the caller's only handle on those rows),
//                   (b) the whole table against a Go evaluation of the rule, element by element,
//                   (c) idempotence: the SAME call repeated with the SAME slice variable leaves the table as the first
//                       call left it ("saving twice equals saving once").
//   scan-tie (tie)  which returned row real gorm scans into which element vs Model.UpsertScan.assign under the scan mode
//                   the regenerated facts give (`c16.scan`), on the same programs — inside the finding patterns too.
//
// Oracle latitudes: (1) C03's listed findings are not re-judged here: F21-C03 (DoNothing + RETURNING: scan.go's skip
// heuristic "an element with a non-zero returned field conflicted" is wrong for a preset key that does not conflict /
// for a conflicting element whose returned fields are all zero) and F9-C03 (no RETURNING: LastInsertId arithmetic when
// a preset key is INSERTED after a keyless element of the same batch): inside those patterns only the table after the
// first call is judged. (2) F31-C16 (new, listed): a DO UPDATE guard that is false for a conflicting element of a slice
// — RETURNING has no row for it and scan.go hands rows out by position. (3) A database-default column is stored as the
// rule defines: UpdateAll does not name a `default:(expr)` column (gorm's expansion skips it), the in-memory value after
// the call is the STORED one. (4) Without RETURNING a database default is never read back: not judged. (5) An element the
// rule does not store (DoNothing conflict, guard false) must come back untouched. RowsAffected is not judged.

import (
	"context"
	"encoding/json"
	"flag"
	"fmt"
	"math/rand"
	"reflect"
	"sort"
	"strings"

	"gorm.io/gorm"
	"gorm.io/gorm/clause"
)

const c16F31ID = "F31-C16-guarded-upsert-slice-returning-shift"

type C16X0 struct {
	ID   uint `gorm:"primaryKey"`
	Tag  string
	Qty  int
	Rank int `gorm:"default:(8)"`
}

type C16X1 struct {
	Code string `gorm:"primaryKey"`
	Tag  string
	Qty  int
	Rank int `gorm:"default:(8)"`
}

type C16X2 struct {
	Wh   int    `gorm:"primaryKey;autoIncrement:false"`
	Sku  string `gorm:"primaryKey"`
	Tag  string
	Qty  int
	Rank int `gorm:"default:(8)"`
}

func (C16X0) TableName() string { return "c16_x0" }
func (C16X1) TableName() string { return "c16_x1" }
func (C16X2) TableName() string { return "c16_x2" }

const c16xDefaultRank = 8

type c16xModel struct {
	tag     string
	typ     reflect.Type
	table   string
	keyCols []string
	keyGo   []string
	keyStr  []bool
	auto    bool
}

var c16xModels = []*c16xModel{
	{tag: "id", typ: reflect.TypeOf(C16X0{}), table: "c16_x0", keyCols: []string{"id"}, keyGo: []string{"ID"}, keyStr: []bool{false}, auto: true},
	{tag: "code", typ: reflect.TypeOf(C16X1{}), table: "c16_x1", keyCols: []string{"code"}, keyGo: []string{"Code"}, keyStr: []bool{true}},
	{tag: "wh+sku", typ: reflect.TypeOf(C16X2{}), table: "c16_x2", keyCols: []string{"wh", "sku"}, keyGo: []string{"Wh", "Sku"}, keyStr: []bool{false, true}},
}

var c16xPayCols = []string{"tag", "qty", "rank"}

// C16XR: one row / element. K = key parts (0 = Go zero value), T = tag (unique per program: identifies the row that
// stores an element), Q = qty, R = rank (0 on an element = "let the database default it")
type C16XR struct {
	K []int `json:"k"`
	T int   `json:"t"`
	Q int   `json:"q"`
	R int   `json:"r"`
}

func (r C16XR) clone() C16XR { return C16XR{K: append([]int{}, r.K...), T: r.T, Q: r.Q, R: r.R} }

type C16XP struct {
	M     int     `json:"m"`
	Ret   bool    `json:"ret"`  // dialector with RETURNING
	Rows  []C16XR `json:"rows"` // the table, in INSERTION order
	Els   []C16XR `json:"els"`
	Ptr   bool    `json:"ptr,omitempty"`  // []*T instead of []T
	Op    string  `json:"op"`             // save | create
	Rule  string  `json:"rule,omitempty"` // nothing | all | upd ("" = Save's own rule)
	UCols []int   `json:"ucols,omitempty"`
	Tgt   bool    `json:"tgt,omitempty"`   // conflict target spelled out
	Guard string  `json:"guard,omitempty"` // lt: stored.qty < excluded.qty   ne: stored.qty <> Lit
	Lit   int     `json:"lit,omitempty"`
	Batch int     `json:"batch,omitempty"` // Session{CreateBatchSize}
	Where string  `json:"where,omitempty"` // sess ctx prep skiptx tx txfn
	Twice bool    `json:"twice,omitempty"`
}

func (m *c16xModel) nk() int { return len(m.keyCols) }

func (m *c16xModel) keyVal(c, n int) interface{} {
	if m.keyStr[c] {
		if n == 0 {
			return ""
		}
		return fmt.Sprintf("k%d", n)
	}
	if m.auto {
		return uint(n)
	}
	return n
}

func c16xTag(n int) string {
	if n == 0 {
		return ""
	}
	return fmt.Sprintf("t%d", n)
}

func (m *c16xModel) fill(e reflect.Value, r C16XR) {
	for c := range m.keyCols {
		f := e.FieldByName(m.keyGo[c])
		switch f.Kind() {
		case reflect.String:
			f.SetString(m.keyVal(c, r.K[c]).(string))
		case reflect.Uint:
			f.SetUint(uint64(r.K[c]))
		default:
			f.SetInt(int64(r.K[c]))
		}
	}
	e.FieldByName("Tag").SetString(c16xTag(r.T))
	e.FieldByName("Qty").SetInt(int64(r.Q))
	e.FieldByName("Rank").SetInt(int64(r.R))
}

func (m *c16xModel) rd(e reflect.Value) C16XR {
	e = reflect.Indirect(e)
	r := C16XR{K: make([]int, m.nk())}
	for c := range m.keyCols {
		f := e.FieldByName(m.keyGo[c])
		switch f.Kind() {
		case reflect.String:
			r.K[c] = c16wDecS(f.String())
		case reflect.Uint:
			r.K[c] = int(f.Uint())
		default:
			r.K[c] = int(f.Int())
		}
	}
	r.T = c16wDecS(e.FieldByName("Tag").String())
	r.Q = int(e.FieldByName("Qty").Int())
	r.R = int(e.FieldByName("Rank").Int())
	return r
}

// mkSlice: pointer to []T or to []*T; read back through rdSlice
func (m *c16xModel) mkSlice(rs []C16XR, ptr bool) interface{} {
	if ptr {
		s := reflect.MakeSlice(reflect.SliceOf(reflect.PointerTo(m.typ)), len(rs), len(rs))
		for i, r := range rs {
			e := reflect.New(m.typ)
			m.fill(e.Elem(), r)
			s.Index(i).Set(e)
		}
		p := reflect.New(s.Type())
		p.Elem().Set(s)
		return p.Interface()
	}
	s := reflect.MakeSlice(reflect.SliceOf(m.typ), len(rs), len(rs))
	for i, r := range rs {
		m.fill(s.Index(i), r)
	}
	p := reflect.New(s.Type())
	p.Elem().Set(s)
	return p.Interface()
}

func (m *c16xModel) rdSlice(v interface{}) []C16XR {
	s := reflect.ValueOf(v).Elem()
	out := make([]C16XR, s.Len())
	for i := range out {
		out[i] = m.rd(s.Index(i))
	}
	return out
}

type c16xDBs struct {
	ret, noret   *gorm.DB
	retQ, noretQ c16xExecer
}

type c16xExecer interface {
	c16xExec(q string, args ...interface{})
	c16xDump(m *c16xModel) []C16XR
}

type c16xSQL struct{ db *gorm.DB }

func (s c16xSQL) c16xExec(q string, args ...interface{}) {
	if err := s.db.Exec(q, args...).Error; err != nil {
		panic(fmt.Sprintf("%s: %v", q, err))
	}
}

func (s c16xSQL) c16xDump(m *c16xModel) []C16XR {
	cols := append(append([]string{}, m.keyCols...), c16xPayCols...)
	rows, err := s.db.Raw("SELECT " + strings.Join(cols, ",") + " FROM " + m.table).Rows()
	if err != nil {
		panic(err)
	}
	defer rows.Close()
	out := []C16XR{}
	for rows.Next() {
		vals := make([]interface{}, len(cols))
		ptrs := make([]interface{}, len(cols))
		for i := range vals {
			ptrs[i] = &vals[i]
		}
		if err := rows.Scan(ptrs...); err != nil {
			panic(err)
		}
		num := func(v interface{}) int {
			switch x := v.(type) {
			case nil:
				return 0
			case int64:
				return int(x)
			case string:
				return c16wDecS(x)
			case []byte:
				return c16wDecS(string(x))
			}
			return -1
		}
		r := C16XR{K: make([]int, m.nk())}
		for c := range m.keyCols {
			r.K[c] = num(vals[c])
		}
		r.T, r.Q, r.R = num(vals[m.nk()]), num(vals[m.nk()+1]), num(vals[m.nk()+2])
		out = append(out, r)
	}
	c16xSort(out)
	return out
}

func c16xSort(rows []C16XR) {
	sort.Slice(rows, func(i, j int) bool {
		for c := range rows[i].K {
			if rows[i].K[c] != rows[j].K[c] {
				return rows[i].K[c] < rows[j].K[c]
			}
		}
		return rows[i].T < rows[j].T
	})
}

func c16xOpen() *c16xDBs {
	d := &c16xDBs{}
	for _, ret := range []bool{true, false} {
		db, _ := c03Open(ret, &gorm.Config{NowFunc: fixedNowFunc})
		for _, m := range c16xModels {
			if err := db.AutoMigrate(reflect.New(m.typ).Interface()); err != nil {
				panic(err)
			}
		}
		if ret {
			d.ret, d.retQ = db, c16xSQL{db}
		} else {
			d.noret, d.noretQ = db, c16xSQL{db}
		}
	}
	return d
}

func (d *c16xDBs) pick(ret bool) (*gorm.DB, c16xExecer) {
	if ret {
		return d.ret, d.retQ
	}
	return d.noret, d.noretQ
}

func (d *c16xDBs) setTable(m *c16xModel, ret bool, rows []C16XR) {
	_, q := d.pick(ret)
	q.c16xExec("DELETE FROM " + m.table)
	if m.auto {
		q.c16xExec("DELETE FROM sqlite_sequence WHERE name = ?", m.table)
	}
	cols := append(append([]string{}, m.keyCols...), c16xPayCols...)
	for _, r := range rows {
		args := []interface{}{}
		for c := range m.keyCols {
			args = append(args, m.keyVal(c, r.K[c]))
		}
		args = append(args, c16xTag(r.T), r.Q, r.R)
		q.c16xExec("INSERT INTO "+m.table+" ("+strings.Join(cols, ",")+") VALUES (?"+strings.Repeat(",?", len(cols)-1)+")", args...)
	}
}

func (p *C16XP) effRule() string {
	if p.Op == "save" && p.Rule == "" {
		return "all"
	}
	return p.Rule
}

func (p *C16XP) oc(m *c16xModel) clause.OnConflict {
	oc := clause.OnConflict{}
	if p.Tgt {
		for _, k := range m.keyCols {
			oc.Columns = append(oc.Columns, clause.Column{Name: k})
		}
	}
	switch p.Rule {
	case "nothing":
		oc.DoNothing = true
	case "all":
		oc.UpdateAll = true
	case "upd":
		names := make([]string, len(p.UCols))
		for i, c := range p.UCols {
			names[i] = c16xPayCols[c]
		}
		oc.DoUpdates = clause.AssignmentColumns(names)
	}
	switch p.Guard {
	case "lt":
		oc.Where = clause.Where{Exprs: []clause.Expression{clause.Expr{SQL: m.table + ".qty < excluded.qty"}}}
	case "ne":
		oc.Where = clause.Where{Exprs: []clause.Expression{clause.Expr{SQL: m.table + ".qty <> ?", Vars: []interface{}{p.Lit}}}}
	}
	return oc
}

type c16xOut struct {
	Tab1 []C16XR `json:"tab1"` // table after the first call
	Mem  []C16XR `json:"mem"`  // the slice's elements after the first call
	Err  string  `json:"err"`
	Msg  string  `json:"msg,omitempty"`
	Tab2 []C16XR `json:"tab2,omitempty"` // table after the repeated call
	Err2 string  `json:"err2,omitempty"`
	Msg2 string  `json:"msg2,omitempty"`
}

func (d *c16xDBs) run(p *C16XP) (out c16xOut) {
	m := c16xModels[p.M]
	d.setTable(m, p.Ret, p.Rows)
	db, q := d.pick(p.Ret)
	v := m.mkSlice(p.Els, p.Ptr)
	call := func() (err error) {
		defer func() {
			if x := recover(); x != nil {
				err = fmt.Errorf("panic: %v", x)
			}
		}()
		h := db
		var fin func() error
		switch p.Where {
		case "sess":
			h = h.Session(&gorm.Session{})
		case "ctx":
			h = h.WithContext(WithMarker(context.Background(), "c16x"))
		case "prep":
			h = h.Session(&gorm.Session{PrepareStmt: true})
		case "skiptx":
			h = h.Session(&gorm.Session{SkipDefaultTransaction: true})
		case "tx":
			tx := h.Begin()
			if tx.Error != nil {
				return tx.Error
			}
			h = tx
			fin = func() error { return tx.Commit().Error }
		}
		if p.Batch > 0 {
			h = h.Session(&gorm.Session{CreateBatchSize: p.Batch})
		}
		do := func(h *gorm.DB) error {
			if p.Rule != "" {
				h = h.Clauses(p.oc(m))
			}
			if p.Op == "save" {
				return h.Save(v).Error
			}
			return h.Create(v).Error
		}
		if p.Where == "txfn" {
			return h.Transaction(func(tx *gorm.DB) error { return do(tx) })
		}
		err = do(h)
		if fin != nil {
			if err != nil {
				h.Rollback()
			} else if e2 := fin(); e2 != nil {
				err = e2
			}
		}
		return err
	}
	err := call()
	out.Err = c16wErrClass(err)
	if err != nil {
		out.Msg = err.Error()
	}
	out.Tab1 = q.c16xDump(m)
	out.Mem = m.rdSlice(v)
	if p.Twice && err == nil {
		err2 := call()
		out.Err2 = c16wErrClass(err2)
		if err2 != nil {
			out.Msg2 = err2.Error()
		}
		out.Tab2 = q.c16xDump(m)
	}
	return
}

// ---- the reference: the rule, element by element ------------------------------------------------------------

type c16xElRef struct {
	keyless  bool
	conflict bool
	inserted bool
	returned bool  // the statement stores (inserts / updates) a row for this element: RETURNING emits it
	nz       bool  // some RETURNING column of the element is non-zero before the call (what scan.go's skip rule reads)
	row      C16XR // the row that stores the element after the statement (returned only); K[0] = -1: key handed out
	batch    int
}

type c16xRef struct {
	Tab     []C16XR // expected table; rows of keyless elements carry K[0] = -1 (any fresh key)
	Els     []c16xElRef
	Collide bool // a key the database hands out meets a later explicit key of the same call: not generated
	PatF21  bool
	PatF31  bool
	PatF9   bool
	RankMix bool // zero and non-zero rank in one batch: `DEFAULT` in VALUES, which SQLite does not parse — not generated
}

func c16xFind(rows []C16XR, k []int) int {
	for i := range rows {
		if c16wKeyEq(rows[i].K, k) {
			return i
		}
	}
	return -1
}

func (p *C16XP) guardHolds(stored, exc C16XR) bool {
	switch p.Guard {
	case "lt":
		return stored.Q < exc.Q
	case "ne":
		return stored.Q != p.Lit
	}
	return true
}

func (p *C16XP) batchOf(i int) int {
	if p.Batch > 0 && p.Op == "create" {
		return i / p.Batch
	}
	return 0
}

// c16xRefRun evaluates one call of the program on table `tab` with the elements `els`
func (p *C16XP) refRun(tab []C16XR, els []C16XR) c16xRef {
	m := c16xModels[p.M]
	ref := c16xRef{Tab: make([]C16XR, len(tab)), Els: make([]c16xElRef, len(els))}
	for i, r := range tab {
		ref.Tab[i] = r.clone()
	}
	rule := p.effRule()
	seq := 0
	for _, r := range tab {
		if r.K[0] > seq {
			seq = r.K[0]
		}
	}
	handed := map[int]bool{}
	// is `rank` part of the INSERT column list of the element's batch
	rankListed := map[int]bool{}
	rankZero := map[int]bool{}
	for i, e := range els {
		if e.R != 0 {
			rankListed[p.batchOf(i)] = true
		} else {
			rankZero[p.batchOf(i)] = true
		}
	}
	for b := range rankListed {
		if rankZero[b] {
			ref.RankMix = true
		}
	}
	for i, e := range els {
		er := &ref.Els[i]
		er.batch = p.batchOf(i)
		er.keyless = m.auto && e.K[0] == 0
		er.nz = e.R != 0 || (m.auto && e.K[0] != 0)
		exc := e.clone() // excluded.*: the row that would have been inserted, defaults included
		if exc.R == 0 {
			exc.R = c16xDefaultRank
		}
		if er.keyless {
			seq++
			handed[seq] = true
			exc.K[0] = -1
			ref.Tab = append(ref.Tab, exc)
			er.inserted, er.returned, er.row = true, true, exc
			continue
		}
		if m.auto {
			if handed[e.K[0]] {
				ref.Collide = true
			}
			if e.K[0] > seq {
				seq = e.K[0]
			}
		}
		j := c16xFind(ref.Tab, e.K)
		if j < 0 {
			ref.Tab = append(ref.Tab, exc)
			er.inserted, er.returned, er.row = true, true, exc
			continue
		}
		er.conflict = true
		if rule == "nothing" || !p.guardHolds(ref.Tab[j], exc) {
			continue
		}
		switch rule {
		case "all":
			// gorm's UpdateAll expansion names every inserted column but the key and `default:(expr)` columns
			ref.Tab[j].T, ref.Tab[j].Q = exc.T, exc.Q
		case "upd":
			for _, c := range p.UCols {
				switch c {
				case 0:
					ref.Tab[j].T = exc.T
				case 1:
					ref.Tab[j].Q = exc.Q
				case 2:
					ref.Tab[j].R = exc.R
				}
			}
		}
		er.returned, er.row = true, ref.Tab[j].clone()
	}
	// the patterns of the listed findings, batch by batch
	for i := range ref.Els {
		a := &ref.Els[i]
		if p.Ret && rule == "nothing" && a.nz == a.returned {
			ref.PatF21 = true
		}
		for j := i + 1; j < len(ref.Els); j++ {
			b := &ref.Els[j]
			if a.batch != b.batch {
				continue
			}
			if p.Ret && rule != "nothing" && !a.returned && b.returned {
				ref.PatF31 = true
			}
			if !p.Ret && m.auto && a.keyless && !b.keyless && b.inserted {
				ref.PatF9 = true
			}
		}
	}
	return ref
}

// expMem: what every element must look like after the call (ideal: each element reads back ITS OWN row)
func (p *C16XP) expMem(els []C16XR, ref *c16xRef) []C16XR {
	out := make([]C16XR, len(els))
	for i, e := range els {
		out[i] = e.clone()
		er := ref.Els[i]
		if !er.returned {
			continue
		}
		if er.keyless {
			out[i].K[0] = -1
		}
		if p.Ret {
			out[i].R = er.row.R
		}
	}
	return out
}

// c16xSameTable: rows are identified by their tag (unique per program); a key of -1 stands for any fresh key
func c16xSameTable(obs, exp, before []C16XR) bool {
	if len(obs) != len(exp) {
		return false
	}
	seen := map[int]bool{}
	for _, x := range exp {
		found := false
		for _, o := range obs {
			if o.T != x.T {
				continue
			}
			if seen[o.T] {
				return false
			}
			found = true
			seen[o.T] = true
			if o.Q != x.Q || o.R != x.R {
				return false
			}
			if x.K[0] == -1 {
				if o.K[0] <= 0 || c16xFind(before, o.K) >= 0 {
					return false
				}
			} else if !c16wKeyEq(o.K, x.K) {
				return false
			}
		}
		if !found {
			return false
		}
	}
	return true
}

type c16xVerdict struct {
	what     string
	obs, exp interface{}
	finding  bool
}

func (p *C16XP) judge(real *c16xOut) (v c16xVerdict, ref c16xRef) {
	m := c16xModels[p.M]
	ref = p.refRun(p.Rows, p.Els)
	if strings.HasPrefix(real.Err, "panic") {
		return c16xVerdict{what: "panic", obs: real.Msg}, ref
	}
	if real.Err != "ok" {
		return c16xVerdict{what: "the call failed", obs: real.Msg, exp: "ok"}, ref
	}
	// (b) the table
	if !c16xSameTable(real.Tab1, ref.Tab, p.Rows) {
		return c16xVerdict{what: "table " + m.table + " after the call is not what the rule defines", obs: real.Tab1, exp: ref.Tab}, ref
	}
	if ref.PatF21 || ref.PatF9 {
		return // C03's listed findings: the in-memory records are not re-judged here
	}
	// (a) every element in memory = the row that stores it
	exp := p.expMem(p.Els, &ref)
	for i, e := range exp {
		g := real.Mem[i]
		bad := g.T != e.T || g.Q != e.Q || g.R != e.R
		if e.K[0] == -1 {
			j := -1
			for k, r := range real.Tab1 {
				if r.T == e.T {
					j = k
				}
			}
			bad = bad || j < 0 || !c16wKeyEq(real.Tab1[j].K, g.K)
		} else {
			bad = bad || !c16wKeyEq(g.K, e.K)
		}
		if bad {
			return c16xVerdict{what: fmt.Sprintf("element %d after the call does not carry the key / database defaults of the row that stores it (key -1 = the key of the row holding its tag)", i),
				obs: real.Mem, exp: exp, finding: ref.PatF31}, ref
		}
	}
	if ref.PatF31 {
		return
	}
	// (c) the same call again
	if p.Twice {
		if real.Err2 != "ok" {
			return c16xVerdict{what: "the repeated call failed", obs: real.Msg2, exp: "ok"}, ref
		}
		if canon(real.Tab2) != canon(real.Tab1) {
			return c16xVerdict{what: "the same call repeated with the same slice changed table " + m.table + " (saving twice must equal saving once)", obs: real.Tab2, exp: real.Tab1}, ref
		}
	}
	return
}

// twiceOK: the repeated call is generated only when the rule itself is idempotent on the reference (it always is) and
// the back-filled ranks do not mix zero and non-zero values in one batch (SQLite cannot parse the DEFAULT gorm sends)
func (p *C16XP) twiceOK() bool {
	ref := p.refRun(p.Rows, p.Els)
	if ref.Collide || ref.RankMix || ref.PatF21 || ref.PatF31 || ref.PatF9 {
		return false
	}
	mem := p.expMem(p.Els, &ref)
	// keys handed out: any concrete fresh keys will do for the check of the second evaluation
	next := 1000
	tab := make([]C16XR, len(ref.Tab))
	for i, r := range ref.Tab {
		tab[i] = r.clone()
	}
	for i := range mem {
		if mem[i].K[0] == -1 {
			next++
			mem[i].K[0] = next
			for j := range tab {
				if tab[j].T == mem[i].T {
					tab[j].K[0] = next
				}
			}
		}
	}
	ref2 := p.refRun(tab, mem)
	if ref2.RankMix || ref2.Collide {
		return false
	}
	c16xSort(tab)
	t2 := append([]C16XR{}, ref2.Tab...)
	c16xSort(t2)
	return canon(tab) == canon(t2)
}

func c16xReport(r *Result, d *c16xDBs, p *C16XP) (c16xOut, c16xRef, bool) {
	real := d.run(p)
	v, ref := p.judge(&real)
	if v.what == "" {
		return real, ref, true
	}
	if v.finding && listed(c16F31ID) {
		r.KnownFinding(c16F31ID, "a DO UPDATE guard was false for a conflicting element of a slice: RETURNING had no row for it and the rows of the later elements were scanned into the wrong elements")
		return real, ref, false
	}
	r.Violate(Violation{Kind: "e2e", Suite: "mixed", Input: p, Observed: v.obs, Expected: v.exp, Note: v.what})
	return real, ref, false
}

// ---- generator -------------------------------------------------------------------------------------------

func c16xGenKey(rng *rand.Rand, m *c16xModel) []int {
	k := make([]int, m.nk())
	for i := range k {
		k[i] = rng.Intn(4) // zero parts are ordinary keys of the application-assigned shapes
		if m.auto {
			k[i] = 1 + rng.Intn(6)
		}
	}
	return k
}

func c16xGen(rng *rand.Rand) *C16XP {
	for {
		p := c16xGenOnce(rng)
		ref := p.refRun(p.Rows, p.Els)
		if ref.Collide || ref.RankMix {
			continue
		}
		// stay outside the listed patterns most of the time
		if (ref.PatF21 || ref.PatF9 || ref.PatF31) && rng.Intn(4) != 0 {
			continue
		}
		if p.Twice && !p.twiceOK() {
			p.Twice = false
		}
		return p
	}
}

func c16xGenOnce(rng *rand.Rand) *C16XP {
	mi := rng.Intn(len(c16xModels))
	if rng.Intn(2) == 0 {
		mi = 0 // database-generated keys most often
	}
	m := c16xModels[mi]
	p := &C16XP{M: mi, Ret: rng.Intn(4) != 0, Ptr: rng.Intn(3) == 0}
	tag := 0
	nrows := rng.Intn(5)
	for i := 0; i < nrows; i++ {
		k := c16xGenKey(rng, m)
		if c16xFind(p.Rows, k) >= 0 {
			continue
		}
		tag++
		p.Rows = append(p.Rows, C16XR{K: k, T: tag, Q: 1 + rng.Intn(6), R: 1 + rng.Intn(7)})
	}
	// (rows stay in generation order = insertion order: keys are random, so it is not key order)
	n := 1 + rng.Intn(4)
	rankPreset := rng.Intn(4) == 0
	for len(p.Els) < n {
		var k []int
		switch c := rng.Intn(3); {
		case c == 0 && len(p.Rows) > 0:
			k = append([]int{}, p.Rows[rng.Intn(len(p.Rows))].K...) // existing
		case c == 1 && m.auto:
			k = []int{0} // keyless
		default:
			k = c16xGenKey(rng, m) // mostly missing
		}
		if !(m.auto && k[0] == 0) && c16xFind(p.Els, k) >= 0 {
			n--
			continue
		}
		tag++
		e := C16XR{K: k, T: tag, Q: 1 + rng.Intn(6)}
		if rankPreset {
			e.R = 1 + rng.Intn(7)
		}
		p.Els = append(p.Els, e)
	}
	if rng.Intn(3) == 0 {
		p.Op = "save"
		if rng.Intn(4) == 0 {
			p.Rule = []string{"nothing", "all", "upd"}[rng.Intn(3)] // the chain carries its own rule
		}
	} else {
		p.Op = "create"
		p.Rule = []string{"nothing", "all", "all", "upd", "upd"}[rng.Intn(5)]
	}
	if p.Rule == "upd" {
		for c := 0; c < 3; c++ {
			if rng.Intn(2) == 0 {
				p.UCols = append(p.UCols, c)
			}
		}
		if len(p.UCols) == 0 {
			p.UCols = []int{1}
		}
	}
	if p.Rule != "" {
		p.Tgt = rng.Intn(2) == 0
		if p.Rule != "nothing" && rng.Intn(3) == 0 {
			p.Tgt = true // a guard needs a conflict target in SQLite's grammar
			p.Guard = []string{"lt", "ne"}[rng.Intn(2)]
			p.Lit = 1 + rng.Intn(6)
		}
	}
	if p.Op == "create" && rng.Intn(5) == 0 {
		p.Batch = 1 + rng.Intn(3)
	}
	if rng.Intn(3) == 0 {
		p.Where = []string{"sess", "ctx", "prep", "skiptx", "tx", "txfn"}[rng.Intn(6)]
	}
	p.Twice = rng.Intn(2) == 0
	return p
}

func c16xF31Witness() *C16XP {
	return &C16XP{M: 0, Ret: true, Op: "create", Rule: "all", Tgt: true, Guard: "lt",
		Rows: []C16XR{{K: []int{1}, T: 1, Q: 6, R: 8}},
		Els:  []C16XR{{K: []int{1}, T: 2, Q: 2}, {K: []int{0}, T: 3, Q: 3}}}
}

func (p *C16XP) shape(ref *c16xRef) string {
	var b strings.Builder
	for _, e := range ref.Els {
		switch {
		case e.keyless:
			b.WriteByte('0')
		case e.conflict:
			b.WriteByte('E')
		default:
			b.WriteByte('M')
		}
	}
	return b.String()
}

func c16MixedSuite(r *Result, rng *rand.Rand, tier string) {
	n := 3000
	if tier == "thorough" {
		n = 60000
	} else if tier == "search" {
		n = 400000
	}
	d := c16xOpen()
	// probe: re-confirm the listed finding on its witness
	{
		wit := c16xF31Witness()
		real := d.run(wit)
		v, _ := wit.judge(&real)
		switch {
		case v.what != "" && v.finding && listed(c16F31ID):
			r.KnownFinding(c16F31ID, "witness Clauses(OnConflict{Columns: id, Where: c16_x0.qty < excluded.qty, UpdateAll: true}).Create(&[]C16X0{{ID: 1, Qty: 2}, {Qty: 3}}) on row (1, qty 6): the guard is false for element 0, the only returned row (the new element's) was scanned into element 0: in memory [{ID: 2}, {ID: 0}]")
		case v.what != "":
			r.Violate(Violation{Kind: "e2e", Suite: "mixed", Input: wit, Observed: v.obs, Expected: v.exp, Note: v.what})
		default:
			r.Note("finding %s no longer reproduces on its witness", c16F31ID)
		}
	}
	type tieCase struct {
		p    *C16XP
		real c16xOut
		ref  c16xRef
	}
	var ties []tieCase
	for i := 0; i < n && !expired(); i++ {
		p := c16xGen(rng)
		real, ref, _ := c16xReport(r, d, p)
		m := c16xModels[p.M]
		mixed := false
		{
			kinds := map[byte]bool{}
			for _, c := range []byte(p.shape(&ref)) {
				kinds[c] = true
			}
			mixed = len(kinds) > 1
		}
		r.Case("mixed", canon(p), mixed && len(p.Rows) > 0)
		r.H("mixed.key_shape", m.tag)
		r.H("mixed.returning", fmt.Sprint(p.Ret))
		r.H("mixed.op", p.Op+"/"+p.effRule()+map[bool]string{true: "+guard", false: ""}[p.Guard != ""])
		sh := p.shape(&ref)
		if len(sh) > 3 {
			sh = sh[:3] + "…"
		}
		r.H("mixed.slice(0=keyless E=existing M=missing)", sh)
		r.H("mixed.where", "{"+p.Where+"}")
		r.H("mixed.batch", fmt.Sprint(p.Batch))
		r.H("mixed.ptr", fmt.Sprint(p.Ptr))
		r.H("mixed.twice", fmt.Sprint(p.Twice))
		switch {
		case ref.PatF21:
			r.H("mixed.pattern", "F21-C03 (not re-judged)")
		case ref.PatF9:
			r.H("mixed.pattern", "F9-C03 (not re-judged)")
		case ref.PatF31:
			r.H("mixed.pattern", "F31-C16")
		default:
			r.H("mixed.pattern", "none")
		}
		if i < 3 {
			r.Sample(p)
		}
		if p.Ret && real.Err == "ok" && !c16wNoTie {
			ties = append(ties, tieCase{p, real, ref})
		}
	}
	// ---- scan-tie
	ops := make([][]interface{}, len(ties))
	for i, t := range ties {
		ops[i] = t.p.leanOp(&t.ref)
	}
	for off := 0; off < len(ops); off += 4000 {
		end := off + 4000
		if end > len(ops) {
			end = len(ops)
		}
		ans, err := AskLean(ops[off:end])
		if err != nil {
			r.Note("lean driver: %v", err)
			return
		}
		for i, a := range ans {
			t := ties[off+i]
			c16xCompareTie(r, t.p, &t.real, &t.ref, a)
		}
	}
}

// ---- tie with Model.UpsertScan ----------------------------------------------------------------------------

// leanOp: the clause flags after gorm's expansion and, batch by batch, what the scan sees of every element: does a
// RETURNING column already hold a non-zero value, does the statement return a row for it
func (p *C16XP) leanOp(ref *c16xRef) []interface{} {
	b2i := func(b bool) int {
		if b {
			return 1
		}
		return 0
	}
	rule := p.effRule()
	var batches [][]interface{}
	for i, e := range ref.Els {
		for len(batches) <= e.batch {
			batches = append(batches, []interface{}{})
		}
		_ = i
		batches[e.batch] = append(batches[e.batch], []interface{}{b2i(e.nz), b2i(e.returned)})
	}
	bs := make([]interface{}, len(batches))
	for i := range batches {
		bs[i] = batches[i]
	}
	return []interface{}{"c16.scan", map[string]interface{}{
		"doNothing": b2i(rule == "nothing"), "updateAll": b2i(rule == "all"), "doUpdates": b2i(rule == "upd"), "where": b2i(p.Guard != ""),
		"batches": bs,
	}}
}

func c16xCompareTie(r *Result, p *C16XP, real *c16xOut, ref *c16xRef, raw json.RawMessage) {
	bad := func(note string, obs, exp interface{}) {
		r.Violate(Violation{Kind: "correspondence", Suite: "scan-tie", Input: p, Observed: obs, Expected: exp, Note: note})
	}
	r.Case("scan-tie", canon(p), len(p.Els) > 1)
	r.CorrCompared++
	var lo struct {
		Skip bool    `json:"skip"`
		Src  [][]int `json:"src"` // per batch, per element: index (within the batch) of the element whose row it receives, -1 = none
	}
	if err := json.Unmarshal(raw, &lo); err != nil || len(lo.Src) == 0 && len(p.Els) > 0 {
		bad("lean answer not understood: "+string(raw), nil, nil)
		return
	}
	m := c16xModels[p.M]
	// what the model says every element holds afterwards
	exp := make([]C16XR, len(p.Els))
	base := map[int]int{}
	for i, e := range ref.Els {
		if _, ok := base[e.batch]; !ok {
			base[e.batch] = i
		}
	}
	for i, e := range p.Els {
		exp[i] = e.clone()
		b := ref.Els[i].batch
		if b >= len(lo.Src) || i-base[b] >= len(lo.Src[b]) {
			bad("lean answer has the wrong shape: "+string(raw), nil, nil)
			return
		}
		s := lo.Src[b][i-base[b]]
		if s < 0 {
			continue
		}
		src := ref.Els[base[b]+s]
		exp[i].R = src.row.R
		if m.auto {
			// RETURNING id: the key of the row stored for element `s` (looked up by tag when the database handed it out)
			k := src.row.K[0]
			if k == -1 {
				for _, row := range real.Tab1 {
					if row.T == src.row.T {
						k = row.K[0]
					}
				}
			}
			exp[i].K[0] = k
		}
	}
	if canon(real.Mem) != canon(exp) {
		bad(fmt.Sprintf("elements after the call: real gorm vs Model.UpsertScan.assign (skip mode %v)", lo.Skip), real.Mem, exp)
		return
	}
	r.H("scan-tie.mode", map[bool]string{true: "skip (ScanOnConflictDoNothing)", false: "plain"}[lo.Skip])
}

func init() {
	register("C16", c16MixedSuite)
	replayers["C16/mixed"] = func(r *Result, input json.RawMessage) {
		var p C16XP
		if err := json.Unmarshal(input, &p); err != nil {
			r.Note("bad replay input: %v", err)
			return
		}
		c16xReport(r, c16xOpen(), &p)
	}
	replayers["C16/scan-tie"] = func(r *Result, input json.RawMessage) {
		var p C16XP
		if err := json.Unmarshal(input, &p); err != nil {
			r.Note("bad replay input: %v", err)
			return
		}
		if f := flag.Lookup("driver"); f != nil && f.Value.String() != "" {
			driverPath = f.Value.String()
		}
		d := c16xOpen()
		real := d.run(&p)
		ref := p.refRun(p.Rows, p.Els)
		ans, err := AskLean([][]interface{}{p.leanOp(&ref)})
		if err != nil {
			r.Note("lean driver: %v", err)
			return
		}
		c16xCompareTie(r, &p, &real, &ref, ans[0])
	}
}
