package main

// C18: operation families.  `c18Op.Run` receives the bound handle and performs the whole operation
// through it (hooks receive gorm's own tx).  Multi = the operation calls several finishers on the
// handle, so it needs a handle that is safe to re-use (clone > 0).

import (
	"context"
	"fmt"
	"math/rand"

	"gorm.io/gorm"
	"gorm.io/gorm/clause"
)

type C18Audit struct {
	ID   uint `gorm:"primaryKey"`
	What string
}

// C18Hooked issues statements from inside its hooks, through the tx gorm hands to the hook.
type C18Hooked struct {
	ID    uint `gorm:"primaryKey"`
	Name  string
	Seen  int64 `gorm:"-"`
	Items []C18Item
}

type C18Item struct {
	ID          uint `gorm:"primaryKey"`
	C18HookedID uint
	Label       string
}

func (h *C18Hooked) BeforeCreate(tx *gorm.DB) error {
	return tx.Exec("INSERT INTO c18_audits (what) VALUES (?)", "before-create "+h.Name).Error
}
func (h *C18Hooked) AfterCreate(tx *gorm.DB) error {
	return tx.Create(&C18Audit{What: "after-create " + h.Name}).Error
}
func (h *C18Hooked) BeforeUpdate(tx *gorm.DB) error {
	var n int64
	return tx.Model(&C18Audit{}).Count(&n).Error
}
func (h *C18Hooked) AfterDelete(tx *gorm.DB) error {
	return tx.Where("what = ?", "never").Delete(&C18Audit{}).Error
}
func (h *C18Hooked) AfterFind(tx *gorm.DB) error {
	return tx.Raw("SELECT COUNT(*) FROM c18_audits").Scan(&h.Seen).Error
}
func (i *C18Item) AfterCreate(tx *gorm.DB) error {
	// nested: a hook of an association upsert that itself preloads
	var hs []C18Hooked
	return tx.Session(&gorm.Session{SkipHooks: true}).Preload("Items").Limit(2).Find(&hs).Error
}

type c18Op struct {
	Name   string
	Multi  bool
	NoStop bool // the cancelled-context oracles do not apply (sql.Conn does not check the context itself)
	Run    func(db *gorm.DB, rng *rand.Rand) error
}

func c18OpenWorld(cfg *gorm.Config, rng *rand.Rand) (*gorm.DB, *c18Recorder, func()) {
	db, rec, sqlDB := c18Open(cfg)
	if err := db.AutoMigrate(append(append([]interface{}{}, relModels...), &C18Audit{}, &C18Hooked{}, &C18Item{})...); err != nil {
		panic(err)
	}
	plain := db.Session(&gorm.Session{NewDB: true, SkipDefaultTransaction: true})
	seedRel(plain, rng, 3)
	for i := 0; i < 2; i++ {
		if err := plain.Create(&C18Hooked{Name: fmt.Sprint("seed", i), Items: []C18Item{{Label: "a"}, {Label: "b"}}}).Error; err != nil {
			panic(err)
		}
	}
	rec.reset()
	return db, rec, func() { sqlDB.Close() }
}

func c18Ops() []c18Op {
	var ops []c18Op
	for _, o := range relOps() {
		ops = append(ops, c18Op{Name: o.Name, Multi: true, Run: o.Run})
	}
	single := []c18Op{
		{Name: "S.CreateGraph", Run: func(db *gorm.DB, rng *rand.Rand) error { return db.Create(genUser(rng, "sg")).Error }},
		{Name: "S.CreateHooked", Run: func(db *gorm.DB, rng *rand.Rand) error {
			return db.Create(&C18Hooked{Name: "h", Items: []C18Item{{Label: "x"}, {Label: "y"}}}).Error
		}},
		{Name: "S.CreateSliceHooked", Run: func(db *gorm.DB, rng *rand.Rand) error {
			hs := []C18Hooked{{Name: "h1", Items: []C18Item{{Label: "x"}}}, {Name: "h2"}, {Name: "h3"}}
			return db.Create(&hs).Error
		}},
		{Name: "S.CreateMap", Run: func(db *gorm.DB, rng *rand.Rand) error {
			return db.Model(&RUser{}).Create(map[string]interface{}{"Name": "mapped", "Age": 3}).Error
		}},
		{Name: "S.Upsert", Run: func(db *gorm.DB, rng *rand.Rand) error {
			return db.Clauses(clause.OnConflict{UpdateAll: true}).Create(&RLang{Code: "up", Name: fmt.Sprint("n", rng.Intn(9))}).Error
		}},
		{Name: "S.FindHookedPreload", Run: func(db *gorm.DB, rng *rand.Rand) error {
			var hs []C18Hooked
			return db.Preload("Items").Find(&hs).Error
		}},
		{Name: "S.FindPreloadNestedJoins", Run: func(db *gorm.DB, rng *rand.Rand) error {
			var us []RUser
			return db.Joins("Company").Preload("Team.Pets").Preload("Manager.Langs").Preload("Toys").Preload("Profile").Find(&us).Error
		}},
		{Name: "S.First", Run: func(db *gorm.DB, rng *rand.Rand) error { var u RUser; return db.First(&u).Error }},
		{Name: "S.TakeWhere", Run: func(db *gorm.DB, rng *rand.Rand) error {
			var u RUser
			return db.Where("age > ?", 1).Take(&u).Error
		}},
		{Name: "S.UpdateHooked", Run: func(db *gorm.DB, rng *rand.Rand) error {
			return db.Model(&C18Hooked{ID: 1}).Update("name", "renamed").Error
		}},
		{Name: "S.UpdatesWhere", Run: func(db *gorm.DB, rng *rand.Rand) error {
			return db.Model(&RUser{}).Where("age > ?", 0).Updates(map[string]interface{}{"age": gorm.Expr("age + 1")}).Error
		}},
		{Name: "S.SaveGraphFull", Run: func(db *gorm.DB, rng *rand.Rand) error {
			u := genUser(rng, "sv")
			u.ID = 1
			return db.Session(&gorm.Session{FullSaveAssociations: true}).Save(u).Error
		}},
		{Name: "S.SaveNew", Run: func(db *gorm.DB, rng *rand.Rand) error {
			// Save with a primary key that does not exist: UPDATE … then the INSERT fallback
			return db.Save(&RCompany{ID: uint(1000 + rng.Intn(1000)), Name: "fallback"}).Error
		}},
		{Name: "S.DeleteHooked", Run: func(db *gorm.DB, rng *rand.Rand) error {
			return db.Select("Items").Delete(&C18Hooked{ID: 2}).Error
		}},
		{Name: "S.DeleteReturning", Run: func(db *gorm.DB, rng *rand.Rand) error {
			var cs []RCompany
			return db.Clauses(clause.Returning{}).Where("name = ?", "nobody").Delete(&cs).Error
		}},
		{Name: "S.Count", Run: func(db *gorm.DB, rng *rand.Rand) error {
			var n int64
			return db.Model(&RUser{}).Count(&n).Error
		}},
		{Name: "S.RawScan", Run: func(db *gorm.DB, rng *rand.Rand) error {
			var n int
			return db.Raw("SELECT COUNT(*) FROM r_users").Scan(&n).Error
		}},
		{Name: "S.Exec", Run: func(db *gorm.DB, rng *rand.Rand) error {
			return db.Exec("UPDATE r_users SET age = age WHERE id = ?", 1).Error
		}},
		{Name: "S.Row", Run: func(db *gorm.DB, rng *rand.Rand) error {
			var n int
			row := db.Model(&RUser{}).Select("count(*)").Row()
			if row == nil { // DryRun
				return nil
			}
			return row.Scan(&n)
		}},
		{Name: "S.FirstOrCreate", Run: func(db *gorm.DB, rng *rand.Rand) error {
			var c RCompany
			return db.Where(RCompany{Name: fmt.Sprint("foc", rng.Intn(4))}).FirstOrCreate(&c).Error
		}},
		{Name: "S.FindInBatches", Run: func(db *gorm.DB, rng *rand.Rand) error {
			var us []RUser
			return db.FindInBatches(&us, 2, func(tx *gorm.DB, b int) error {
				// the batch handle is gorm's: statements through it belong to the operation
				var n int64
				return tx.Session(&gorm.Session{NewDB: true}).Model(&RPet{}).Count(&n).Error
			}).Error
		}},
		{Name: "S.CreateInBatchesHooked", Run: func(db *gorm.DB, rng *rand.Rand) error {
			hs := []C18Hooked{{Name: "b1"}, {Name: "b2"}, {Name: "b3"}}
			return db.CreateInBatches(&hs, 2).Error
		}},
		{Name: "S.AssocAppend", Run: func(db *gorm.DB, rng *rand.Rand) error {
			return db.Model(&RUser{ID: 1}).Association("Langs").Append(&RLang{Code: fmt.Sprint("ap", rng.Intn(5)), Name: "x"})
		}},
		{Name: "S.AssocReplace", Run: func(db *gorm.DB, rng *rand.Rand) error {
			return db.Model(&RUser{ID: 1}).Association("Pets").Replace(&RPet{Name: "only"})
		}},
		{Name: "S.AssocCount", Run: func(db *gorm.DB, rng *rand.Rand) error {
			_ = db.Model(&RUser{ID: 1}).Association("Toys").Count()
			return nil
		}},
		{Name: "S.AssocUnscopedClear", Run: func(db *gorm.DB, rng *rand.Rand) error {
			return db.Model(&RUser{ID: 2}).Association("Pets").Unscoped().Clear()
		}},
		{Name: "S.MigratorProbe", Run: func(db *gorm.DB, rng *rand.Rand) error {
			m := db.Migrator()
			_ = m.HasTable(&RUser{})
			return nil
		}},
		{Name: "S.SubqueryForeign", Run: func(db *gorm.DB, rng *rand.Rand) error {
			// a sub-query handle bound to ANOTHER context is only rendered, never executed: the statement
			// belongs to the handle that runs it
			foreign := db.Session(&gorm.Session{NewDB: true}).WithContext(WithMarker(context.Background(), "foreign"))
			var us []RUser
			return db.Where("company_id IN (?)", foreign.Model(&RCompany{}).Select("id")).Preload("Pets").Find(&us).Error
		}},
		{Name: "S.ToSQL", Run: func(db *gorm.DB, rng *rand.Rand) error {
			_ = db.ToSQL(func(tx *gorm.DB) *gorm.DB { return tx.Model(&RUser{}).Where("id = ?", 1).Find(&[]RUser{}) })
			return nil
		}},
		{Name: "S.AutoMigrate", Run: func(db *gorm.DB, rng *rand.Rand) error { return db.AutoMigrate(&RCompany{}) }},
	}
	ops = append(ops, single...)
	multi := []c18Op{
		{Name: "M.InnerTransaction", Multi: true, Run: func(db *gorm.DB, rng *rand.Rand) error {
			return db.Transaction(func(tx *gorm.DB) error {
				if err := tx.Create(&RCompany{Name: "intx"}).Error; err != nil {
					return err
				}
				_ = tx.Transaction(func(tx2 *gorm.DB) error {
					_ = tx2.Create(&RCompany{Name: "nested"}).Error
					return fmt.Errorf("roll the savepoint back")
				})
				var n int64
				return tx.Model(&RCompany{}).Count(&n).Error
			})
		}},
		{Name: "M.BeginSavePointCommit", Multi: true, Run: func(db *gorm.DB, rng *rand.Rand) error {
			tx := db.Begin()
			if tx.Error != nil {
				return tx.Error
			}
			tx.SavePoint("sp1")
			tx.Create(&RCompany{Name: "sp"})
			tx.RollbackTo("sp1")
			var u RUser
			tx.Preload("Pets").First(&u)
			if rng.Intn(2) == 0 {
				return tx.Commit().Error
			}
			return tx.Rollback().Error
		}},
		{Name: "M.ScanRows", Multi: true, Run: func(db *gorm.DB, rng *rand.Rand) error {
			rows, err := db.Model(&RUser{}).Where("age >= ?", 0).Rows()
			if err != nil {
				return err
			}
			defer rows.Close()
			for rows.Next() {
				var u RUser
				if err := db.ScanRows(rows, &u); err != nil {
					return err
				}
			}
			return nil
		}},
		{Name: "M.Connection", Multi: true, NoStop: true, Run: func(db *gorm.DB, rng *rand.Rand) error {
			return db.Connection(func(tx *gorm.DB) error {
				if err := tx.Exec("UPDATE r_users SET age = age WHERE id = ?", 2).Error; err != nil {
					return err
				}
				var u RUser
				return tx.Preload("Pets").First(&u).Error
			})
		}},
		{Name: "M.HookedLifecycle", Multi: true, Run: func(db *gorm.DB, rng *rand.Rand) error {
			h := C18Hooked{Name: "life", Items: []C18Item{{Label: "l"}}}
			if err := db.Create(&h).Error; err != nil {
				return err
			}
			if err := db.Model(&h).Updates(C18Hooked{Name: "life2"}).Error; err != nil {
				return err
			}
			var got C18Hooked
			if err := db.Preload("Items").First(&got, h.ID).Error; err != nil {
				return err
			}
			return db.Select(clause.Associations).Delete(&got).Error
		}},
	}
	return append(ops, multi...)
}
