package main

// C18: recording database/sql/driver wrapper that keeps the context OBJECT of every driver call
// (rec.go only keeps a value marker).  Needed to judge identity-level properties of the received
// context: Done/Err linked to the caller's context, deadline not later than the caller's.

import (
	"context"
	"database/sql"
	"database/sql/driver"
	"errors"
	"fmt"
	"sync"
	"sync/atomic"

	sqlite3 "github.com/mattn/go-sqlite3"
	"gorm.io/driver/sqlite"
	"gorm.io/gorm"
	"gorm.io/gorm/logger"
)

type c18Event struct {
	Kind string // begin prepare exec query stmt_exec stmt_query (with ctx) | commit rollback stmt_close (without)
	SQL  string
	Ctx  context.Context
}

func (e c18Event) hasCtx() bool { return e.Ctx != nil }

type c18Recorder struct {
	mu     sync.Mutex
	events []c18Event
	off    bool
	// onCtxEvent is called (outside the lock) before a context-carrying call is forwarded;
	// n = number of context-carrying events recorded so far including this one
	onCtxEvent func(n int, ev c18Event)
	nCtx       int
}

func (r *c18Recorder) reset() {
	r.mu.Lock()
	r.events = nil
	r.nCtx = 0
	r.mu.Unlock()
}

func (r *c18Recorder) snapshot() []c18Event {
	r.mu.Lock()
	defer r.mu.Unlock()
	return append([]c18Event(nil), r.events...)
}

func (r *c18Recorder) length() int {
	r.mu.Lock()
	defer r.mu.Unlock()
	return len(r.events)
}

func (r *c18Recorder) rec(ev c18Event) {
	r.mu.Lock()
	if r.off {
		r.mu.Unlock()
		return
	}
	r.events = append(r.events, ev)
	var cb func(int, c18Event)
	n := 0
	if ev.Ctx != nil {
		r.nCtx++
		n = r.nCtx
		cb = r.onCtxEvent
	}
	r.mu.Unlock()
	if cb != nil {
		cb(n, ev)
	}
}

type c18Connector struct {
	dsn string
	drv *sqlite3.SQLiteDriver
	rec *c18Recorder
}

func (c *c18Connector) Connect(ctx context.Context) (driver.Conn, error) {
	inner, err := c.drv.Open(c.dsn)
	if err != nil {
		return nil, err
	}
	return &c18Conn{inner: inner.(*sqlite3.SQLiteConn), rec: c.rec}, nil
}
func (c *c18Connector) Driver() driver.Driver { return c.drv }

type c18Conn struct {
	inner *sqlite3.SQLiteConn
	rec   *c18Recorder
}

func (c *c18Conn) Prepare(q string) (driver.Stmt, error) {
	return nil, errors.New("c18Conn.Prepare: use PrepareContext")
}
func (c *c18Conn) Close() error                   { return c.inner.Close() }
func (c *c18Conn) Begin() (driver.Tx, error)      { return nil, errors.New("c18Conn.Begin: use BeginTx") }
func (c *c18Conn) Ping(ctx context.Context) error { return c.inner.Ping(ctx) }
func (c *c18Conn) BeginTx(ctx context.Context, opts driver.TxOptions) (driver.Tx, error) {
	c.rec.rec(c18Event{Kind: "begin", Ctx: ctx})
	tx, err := c.inner.BeginTx(ctx, opts)
	if err != nil {
		return nil, err
	}
	return &c18Tx{inner: tx, rec: c.rec}, nil
}
func (c *c18Conn) PrepareContext(ctx context.Context, q string) (driver.Stmt, error) {
	c.rec.rec(c18Event{Kind: "prepare", SQL: q, Ctx: ctx})
	st, err := c.inner.PrepareContext(ctx, q)
	if err != nil {
		return nil, err
	}
	return &c18Stmt{inner: st.(*sqlite3.SQLiteStmt), rec: c.rec, sql: q}, nil
}
func (c *c18Conn) ExecContext(ctx context.Context, q string, args []driver.NamedValue) (driver.Result, error) {
	c.rec.rec(c18Event{Kind: "exec", SQL: q, Ctx: ctx})
	return c.inner.ExecContext(ctx, q, args)
}
func (c *c18Conn) QueryContext(ctx context.Context, q string, args []driver.NamedValue) (driver.Rows, error) {
	c.rec.rec(c18Event{Kind: "query", SQL: q, Ctx: ctx})
	return c.inner.QueryContext(ctx, q, args)
}

type c18Tx struct {
	inner driver.Tx
	rec   *c18Recorder
}

func (t *c18Tx) Commit() error   { t.rec.rec(c18Event{Kind: "commit"}); return t.inner.Commit() }
func (t *c18Tx) Rollback() error { t.rec.rec(c18Event{Kind: "rollback"}); return t.inner.Rollback() }

type c18Stmt struct {
	inner *sqlite3.SQLiteStmt
	rec   *c18Recorder
	sql   string
}

func (s *c18Stmt) Close() error {
	s.rec.rec(c18Event{Kind: "stmt_close", SQL: s.sql})
	return s.inner.Close()
}
func (s *c18Stmt) NumInput() int { return s.inner.NumInput() }
func (s *c18Stmt) Exec(args []driver.Value) (driver.Result, error) {
	return nil, errors.New("c18Stmt.Exec: use ExecContext")
}
func (s *c18Stmt) Query(args []driver.Value) (driver.Rows, error) {
	return nil, errors.New("c18Stmt.Query: use QueryContext")
}
func (s *c18Stmt) ExecContext(ctx context.Context, args []driver.NamedValue) (driver.Result, error) {
	s.rec.rec(c18Event{Kind: "stmt_exec", SQL: s.sql, Ctx: ctx})
	return s.inner.ExecContext(ctx, args)
}
func (s *c18Stmt) QueryContext(ctx context.Context, args []driver.NamedValue) (driver.Rows, error) {
	s.rec.rec(c18Event{Kind: "stmt_query", SQL: s.sql, Ctx: ctx})
	return s.inner.QueryContext(ctx, args)
}

var c18MemCounter int64

// c18Open opens a fresh private in-memory SQLite database behind the context-keeping recorder.
func c18Open(cfg *gorm.Config) (*gorm.DB, *c18Recorder, *sql.DB) {
	n := atomic.AddInt64(&c18MemCounter, 1)
	dsn := fmt.Sprintf("file:c18mem%d?mode=memory&cache=shared", n)
	rec := &c18Recorder{}
	sqlDB := sql.OpenDB(&c18Connector{dsn: dsn, drv: &sqlite3.SQLiteDriver{}, rec: rec})
	sqlDB.SetMaxIdleConns(4)
	if cfg == nil {
		cfg = &gorm.Config{}
	}
	if cfg.Logger == nil {
		cfg.Logger = logger.Discard
	}
	db, err := gorm.Open(sqlite.Dialector{Conn: sqlDB}, cfg)
	if err != nil {
		panic(err)
	}
	return db, rec, sqlDB
}
