package main

// C06, round 6: suite "txmid" — transaction / connection BLOCKS opened on values that are not reusable handles, followed
// by RE-USE of everything around them after the block ended.
//
//	h0 := root.Model(&M{}).<ops>.<derivation>()       a reusable handle (also Session{PrepareStmt})
//	s  := h0.<S ops>                                  a sibling chain, built before or after the block
//	c  := h0.<C ops>                                  a chain value in progress (clone 0); no ops = the handle itself
//	receiver of the block:  c  |  the conn handed in by h0.Connection(func(conn)) (+ C ops applied to it)  |  the handle
//	                        returned by a finisher executed on c
//	block:  Begin … Commit | Begin … Rollback (also after a write) | Begin twice | Transaction(func) returning nil / an
//	        error (after a write) / panicking | Transaction nested in Transaction | Begin(&sql.TxOptions{})
//	inside the block a chain <In ops> is built on the transaction handle and finished (read, or write that is rolled back)
//	afterwards, in generated order: c is finished (as it is, or with one more op), s is finished, a late sibling is built
//	and finished, the bare handle is finished.
//
// Oracle ("every chain behaves as if it were the only one ever built from its ancestors"): every chain finished after
// the block produces the same driver statements, rows, error and RowsAffected as in a replay of the history in which the
// block does not occur at all.  In particular nothing may fail with sql.ErrTxDone / "connection is already closed":
// those chains run on the pool (or, inside Connection, on the pinned connection), never on the ended transaction.
// Tie "txmidtie": the ConnPool identity and the deep reflection snapshot of the statements of c, h0 and root are the same
// before and after the block.
// For conn receivers the replay has neither the block nor the Connection: the chain on the pinned connection equals the
// same chain built from the handle on the pool.  Blocks conn* (only on handles): Connection(func) itself, with a nested
// Transaction / Begin, returning nil or an error.
// Latitudes: none.  Not generated: db.Connection called ON a chain in progress (Connection documents no derived handle: the
// block's tx is that chain, unchanged gorm leaves the closed *sql.Conn in it),
// blocks on chains derived from a transaction handle (SavePoint path executes on the receiver), writes inside a block that
// commits (the replay would see other data).

import (
	"database/sql"
	"encoding/json"
	"errors"
	"fmt"
	"math/rand"
	"reflect"
	"strings"

	"gorm.io/gorm"
)

type c06yHist struct {
	Cfg    int      `json:"cfg"` // bits 0–2 as c06a
	M      int      `json:"m"`
	H0     []c06aOp `json:"h0"`
	D0     string   `json:"d0"`
	C      []c06aOp `json:"c"`
	Recv   string   `json:"recv"`  // chain | conn | finres
	Block  string   `json:"block"` // "" = no block (the replay)
	In     []c06aOp `json:"in"`
	InFin  int      `json:"infin"`
	S      []c06aOp `json:"s"`
	SEarly bool     `json:"searly"`
	Uses   []string `json:"uses"` // xC xC+ xS xL xH
	Fin    int      `json:"fin"`
}

var c06yRecvs = []string{"chain", "chain", "chain", "conn", "conn", "finres"}
var c06yBlocks = []string{"begin-commit", "begin-rollback", "begin-write-rollback", "begin-twice", "begin-opts", "begin-abandon-rollback",
	"tx-nil", "tx-err", "tx-write-err", "tx-panic", "tx-nested", "tx-nested-err", "tx-twice", "conn", "conn-err", "conn-tx", "conn-begin"}
var c06yD0s = []string{"session", "ctx", "debug", "skiphooks", "qf", "sessctx", "prep", "sdt"}

var c06yErr = errors.New("c06y: block refused")

func (h c06yHist) Desc() string {
	str := func(ops []c06aOp) string {
		var s []string
		for _, o := range ops {
			s = append(s, o.String())
		}
		return strings.Join(s, ".")
	}
	return fmt.Sprintf("cfg=%d h0 := root.Model(&%s{}).%s.%s(); s := h0.%s (built %s); c := h0.%s; receiver=%s; block=%s {tx.%s.fin%d}; then %v; finisher %s",
		h.Cfg, c06aModelNames[h.M%3], str(h.H0), h.D0, str(h.S), map[bool]string{true: "before the block", false: "after the block"}[h.SEarly],
		str(h.C), h.Recv, h.Block, str(h.In), h.InFin, h.Uses, []string{"Find", "Count", "First"}[h.Fin%3])
}

func c06yPool(x *gorm.DB) string {
	p := x.Statement.ConnPool
	if p == nil {
		return "nil"
	}
	v := reflect.ValueOf(p)
	if v.Kind() == reflect.Ptr {
		return fmt.Sprintf("%T@%p", p, p)
	}
	return fmt.Sprintf("%T", p)
}

// the chain finished inside the block, on the transaction handle
func c06yBody(tx *gorm.DB, h c06yHist, table string, write bool) {
	t := tx
	for _, o := range h.In {
		t = c06mApply(t, o, h.M, table)
	}
	switch {
	case write && h.InFin%2 == 0:
		tx.Session(&gorm.Session{NewDB: true}).Create(&C06APet{ID: 900, UserID: 1, Name: "in-block"})
	case write:
		tx.Session(&gorm.Session{NewDB: true}).Exec("UPDATE c06a_users SET age = age + 1 WHERE id = ?", 1+h.InFin%5)
	case h.InFin%3 == 1:
		var n int64
		t.Count(&n)
	default:
		var rows c06aRows
		t.Find(&rows)
	}
}

func c06yBlock(recv *gorm.DB, h c06yHist, table string) {
	defer func() { recover() }()
	switch h.Block {
	case "begin-commit", "begin-opts":
		var tx *gorm.DB
		if h.Block == "begin-opts" {
			tx = recv.Begin(&sql.TxOptions{})
		} else {
			tx = recv.Begin()
		}
		c06yBody(tx, h, table, false)
		tx.Commit()
	case "begin-rollback", "begin-write-rollback":
		tx := recv.Begin()
		c06yBody(tx, h, table, h.Block == "begin-write-rollback")
		tx.Rollback()
	case "begin-abandon-rollback": // a chain is built on the transaction handle and abandoned
		tx := recv.Begin()
		t := tx
		for _, o := range h.In {
			t = c06mApply(t, o, h.M, table)
		}
		tx.Rollback()
	case "begin-twice":
		tx := recv.Begin()
		c06yBody(tx, h, table, false)
		tx.Commit()
		tx2 := recv.Begin()
		c06yBody(tx2, h, table, true)
		tx2.Rollback()
	case "tx-nil":
		recv.Transaction(func(tx *gorm.DB) error { c06yBody(tx, h, table, false); return nil })
	case "tx-err":
		recv.Transaction(func(tx *gorm.DB) error { c06yBody(tx, h, table, false); return c06yErr })
	case "tx-write-err":
		recv.Transaction(func(tx *gorm.DB) error { c06yBody(tx, h, table, true); return c06yErr })
	case "tx-panic":
		recv.Transaction(func(tx *gorm.DB) error { c06yBody(tx, h, table, true); panic("c06y: block panics") })
	case "tx-nested":
		recv.Transaction(func(tx *gorm.DB) error {
			return tx.Transaction(func(tx2 *gorm.DB) error { c06yBody(tx2, h, table, false); return nil })
		})
	case "tx-nested-err":
		recv.Transaction(func(tx *gorm.DB) error {
			tx.Transaction(func(tx2 *gorm.DB) error { c06yBody(tx2, h, table, true); return c06yErr })
			c06yBody(tx, h, table, false)
			return c06yErr
		})
	case "tx-twice":
		recv.Transaction(func(tx *gorm.DB) error { c06yBody(tx, h, table, true); return c06yErr })
		recv.Transaction(func(tx *gorm.DB) error { c06yBody(tx, h, table, false); return nil })
	case "conn", "conn-err": // only on handles: Connection documents no derived handle, the block's tx IS a chain in progress
		recv.Connection(func(cx *gorm.DB) error {
			c06yBody(cx, h, table, false)
			if h.Block == "conn-err" {
				return c06yErr
			}
			return nil
		})
	case "conn-tx":
		recv.Connection(func(cx *gorm.DB) error {
			return cx.Transaction(func(tx *gorm.DB) error { c06yBody(tx, h, table, true); return c06yErr })
		})
	case "conn-begin":
		recv.Connection(func(cx *gorm.DB) error {
			tx := cx.Begin()
			c06yBody(tx, h, table, false)
			return tx.Commit().Error
		})
	default:
		panic("c06y: unknown block " + h.Block)
	}
}

// block: false = the replay in which the block never happens
func c06yExec(w *c06aWorld, h c06yHist, block bool) (obs map[string]string, tie []string, detail string) {
	obs = map[string]string{}
	w.restore()
	root := c06zOpen(w, h.Cfg&7, false)
	table := []string{"c06a_accts", "c06a_pets", "c06a_users"}[h.M%3]
	t := root.Model([]interface{}{&C06AAcct{}, &C06APet{}, &C06AUser{}}[h.M%3])
	for _, o := range h.H0 {
		t = c06mApply(t, o, h.M, table)
	}
	var h0 *gorm.DB
	switch h.D0 {
	case "":
		h0 = t.Session(&gorm.Session{})
	case "prep":
		h0 = t.Session(&gorm.Session{PrepareStmt: true})
	case "sdt":
		h0 = t.Session(&gorm.Session{SkipDefaultTransaction: true})
	default:
		h0 = c06aDerive(t, h.D0, 0)
	}
	build := func(from *gorm.DB, ops []c06aOp) *gorm.DB {
		x := from
		for _, o := range ops {
			x = c06mApply(x, o, h.M, table)
		}
		return x
	}
	var s *gorm.DB
	if h.SEarly {
		s = build(h0, h.S)
		if len(h.S) == 0 {
			s = h0.Where("id >= ?", 0)
		}
	}
	type snap struct {
		name string
		x    *gorm.DB
		pool string
		st   map[string]string
	}
	var snaps []snap
	take := func(name string, x *gorm.DB) { snaps = append(snaps, snap{name, x, c06yPool(x), c06aSnapshot(x)}) }
	compare := func() {
		for _, sn := range snaps {
			if p := c06yPool(sn.x); p != sn.pool {
				tie = append(tie, sn.name+".ConnPool")
				if detail == "" {
					detail = fmt.Sprintf("%s.Statement.ConnPool: %s  →  %s", sn.name, c06HexRe.ReplaceAllString(sn.pool, "PTR"), c06HexRe.ReplaceAllString(p, "PTR"))
				}
			}
			after := c06aSnapshot(sn.x)
			for _, d := range c06aSnapDiff(sn.st, after) {
				tie = append(tie, sn.name+"."+d)
				if detail == "" {
					detail = fmt.Sprintf("%s.%s: %s  →  %s", sn.name, d, c06aClip(sn.st[d]), c06aClip(after[d]))
				}
			}
		}
	}
	// the part of the history around the receiver; uses of c run where c lives (inside Connection for conn receivers)
	take("root", root)
	take("h0", h0)
	around := func(c *gorm.DB, finished bool) {
		take("c", c)
		if block {
			c06yBlock(c, h, table)
		}
		compare()
		for _, u := range h.Uses {
			if finished {
				break
			}
			switch u {
			case "xC":
				obs["C"] = c06mFinish(w, c, h.Fin, false)
				finished = true
			case "xC+":
				obs["C"] = c06mFinish(w, c.Where("id < ?", 500), h.Fin, false)
				finished = true
			}
		}
	}
	switch h.Recv {
	case "conn":
		// the replay: neither the block nor the pinned connection ever happen (under PrepareStmt the pinned connection
		// legitimately bypasses the prepared-statement pool — other driver calls — so there the replay keeps Connection)
		if !block && h.D0 != "prep" {
			around(build(h0, h.C), false)
			obs["conn"] = ""
			break
		}
		err := h0.Connection(func(conn *gorm.DB) error {
			around(build(conn, h.C), false)
			return nil
		})
		obs["conn"] = c06aErr(err)
	case "finres":
		c := build(h0, h.C)
		var rows c06aRows
		res := c.Limit(2).Find(&rows)
		around(res, true)
	default:
		around(build(h0, h.C), false)
	}
	for _, u := range h.Uses {
		switch u {
		case "xS":
			if s == nil {
				s = build(h0, h.S)
				if len(h.S) == 0 {
					s = h0.Where("id >= ?", 0)
				}
			}
			if _, done := obs["S"]; !done {
				obs["S"] = c06mFinish(w, s, h.Fin, false)
			}
		case "xL":
			if _, done := obs["L"]; !done {
				obs["L"] = c06mFinish(w, build(h0, append(append([]c06aOp(nil), h.C...), h.S...)), h.Fin+1, false)
			}
		case "xH":
			if _, done := obs["H"]; !done {
				obs["H"] = c06mFinish(w, h0, h.Fin, false)
			}
		case "xR":
			if _, done := obs["R"]; !done {
				obs["R"] = c06mFinish(w, root.Table(table), h.Fin, false)
			}
		}
	}
	snaps = snaps[:2] // root and h0 once more after everything (c was finished; a pinned handle ended with its connection)
	compare()
	seen := map[string]bool{}
	var uniq []string
	for _, t := range tie {
		if !seen[t] {
			seen[t] = true
			uniq = append(uniq, t)
		}
	}
	return obs, uniq, detail
}

type c06yVerdict struct {
	Bad    string
	In, Al string
	Tie    []string
	Detail string
}

func (v c06yVerdict) bad() bool { return v.Bad != "" || len(v.Tie) > 0 }

func c06yJudge(w *c06aWorld, h c06yHist) c06yVerdict {
	full, tie, detail := c06yExec(w, h, true)
	alone, _, _ := c06yExec(w, h, false)
	v := c06yVerdict{Tie: tie, Detail: detail}
	for _, k := range []string{"C", "S", "L", "H", "R", "conn"} {
		if full[k] != alone[k] {
			v.Bad, v.In, v.Al = k, full[k], alone[k]
			break
		}
	}
	return v
}

func c06yShrink(w *c06aWorld, h c06yHist, still func(c06yVerdict) bool) c06yHist {
	cur := h
	try := func(c c06yHist) bool {
		if still(c06yJudge(w, c)) {
			cur = c
			return true
		}
		return false
	}
	for changed, rounds := true, 0; changed && rounds < 5; rounds++ {
		changed = false
		for _, f := range []func(*c06yHist) *[]c06aOp{
			func(x *c06yHist) *[]c06aOp { return &x.H0 }, func(x *c06yHist) *[]c06aOp { return &x.C },
			func(x *c06yHist) *[]c06aOp { return &x.In }, func(x *c06yHist) *[]c06aOp { return &x.S }} {
			for i := len(*f(&cur)) - 1; i >= 0; i-- {
				if i >= len(*f(&cur)) {
					continue
				}
				c := cur
				*f(&c) = c06mCut(*f(&cur), i)
				changed = try(c) || changed
			}
		}
		for i := len(cur.Uses) - 1; i >= 0 && len(cur.Uses) > 1; i-- {
			if i >= len(cur.Uses) {
				continue
			}
			c := cur
			c.Uses = append(append([]string(nil), cur.Uses[:i]...), cur.Uses[i+1:]...)
			changed = try(c) || changed
		}
		if cur.Cfg != 0 {
			c := cur
			c.Cfg = 0
			changed = try(c) || changed
		}
		if cur.D0 != "session" {
			c := cur
			c.D0 = "session"
			changed = try(c) || changed
		}
	}
	return cur
}

func c06yReport(r *Result, w *c06aWorld, h c06yHist, v c06yVerdict) {
	if v.Bad != "" {
		min := c06yShrink(w, h, func(x c06yVerdict) bool { return x.Bad != "" })
		mv := c06yJudge(w, min)
		r.Violate(Violation{Kind: "e2e", Suite: "txmid", Input: min, Observed: fmt.Sprintf("chain %s: %s", mv.Bad, mv.In), Expected: mv.Al,
			Note: "a Begin / Transaction block opened on a chain value (or on the handle Connection passes in, or on a finisher's result) changed a chain finished AFTER the block ended: it differs from the replay in which the block never happens; " + mv.Detail + "; history: " + min.Desc()})
		return
	}
	min := c06yShrink(w, h, func(x c06yVerdict) bool { return len(x.Tie) > 0 })
	mv := c06yJudge(w, min)
	r.Violate(Violation{Kind: "correspondence", Suite: "txmidtie", Input: min, Observed: mv.Tie,
		Expected: "ConnPool and statement of the receiver chain, of its handle and of the root are the same before and after a Begin / Transaction block",
		Note:     "a transaction block wrote into the statement it was opened from: " + mv.Detail + "; history: " + min.Desc()})
}

func c06yGenerate(rng *rand.Rand) c06yHist {
	h := c06yHist{Cfg: rng.Intn(8), M: rng.Intn(3), Fin: rng.Intn(5) / 2, InFin: rng.Intn(6), SEarly: rng.Intn(2) == 0,
		Recv: c06yRecvs[rng.Intn(len(c06yRecvs))], Block: c06yBlocks[rng.Intn(len(c06yBlocks))], D0: c06yD0s[rng.Intn(len(c06yD0s))]}
	if rng.Intn(3) != 0 {
		h.H0 = c06mGenOps(rng, rng.Intn(3), false)
	}
	if rng.Intn(8) != 0 {
		h.C = c06mGenOps(rng, 1+rng.Intn(3), rng.Intn(3) == 0)
	}
	if strings.HasPrefix(h.Block, "conn") {
		h.Recv, h.C = "chain", nil
	}
	h.In = c06mGenOps(rng, rng.Intn(3), false)
	h.S = c06mGenOps(rng, 1+rng.Intn(2), false)
	all := []string{"xC", "xC+", "xS", "xL", "xH", "xR"}
	n := 1 + rng.Intn(4)
	for i := 0; i < n; i++ {
		h.Uses = append(h.Uses, all[rng.Intn(len(all))])
	}
	if rng.Intn(3) != 0 { // most histories re-use the receiver chain itself
		h.Uses = append(h.Uses, all[rng.Intn(2)])
		rng.Shuffle(len(h.Uses), func(i, j int) { h.Uses[i], h.Uses[j] = h.Uses[j], h.Uses[i] })
	}
	return h
}

func c06ySuite(r *Result, rng *rand.Rand, rounds int) {
	w := c06aOpenWorld()
	defer w.close()
	for i := 0; i < rounds && !expired(); i++ {
		h := c06yGenerate(rng)
		v := c06yJudge(w, h)
		recv := h.Recv
		if recv == "chain" && len(h.C) == 0 {
			recv = "handle (clone 2)"
		}
		r.H("txmid_receiver", recv)
		r.H("txmid_block", h.Block)
		r.H("txmid_handle", h.D0)
		for _, u := range h.Uses {
			r.H("txmid_use_after_block", u)
		}
		r.Case("txmid", canon(h), true)
		if v.bad() {
			c06yReport(r, w, h, v)
			return
		}
		if i%97 == 0 {
			r.Sample(map[string]interface{}{"txmid_history": h.Desc()})
		}
	}
}

func init() {
	register("C06", func(r *Result, rng *rand.Rand, tier string) {
		n := 500
		if tier == "thorough" {
			n = 12000
		} else if tier == "search" {
			n = 2500
		}
		c06ySuite(r, rng, n)
	})
	replay := func(r *Result, input json.RawMessage) {
		var h c06yHist
		if err := json.Unmarshal(input, &h); err != nil {
			r.Violate(Violation{Kind: "e2e", Suite: "txmid", Input: string(input), Observed: err.Error(), Expected: "a history"})
			return
		}
		w := c06aOpenWorld()
		defer w.close()
		if v := c06yJudge(w, h); v.bad() {
			c06yReport(r, w, h, v)
		}
	}
	replayers["C06/txmid"] = replay
	replayers["C06/txmidtie"] = replay
}
