package main

// C20 correspondence suites: the REAL migrator.Migrator.MigrateColumn / AutoMigrate / ReorderModels and schema.ParseIndexes
// against the Lean model (ops mig.column / mig.auto / mig.reorder / mig.indexes).  The real migrator runs behind a
// harness dialector whose Migrator embeds migrator.Migrator and RECORDS AlterColumn / CreateConstraint / DropConstraint /
// CreateTable / AddColumn / CreateIndex instead of executing them, and answers HasTable / ColumnTypes / HasConstraint /
// HasIndex from an abstract catalog.

import (
	"fmt"
	"math/rand"
	"reflect"
	"sort"
	"strings"

	"gorm.io/driver/sqlite"
	"gorm.io/gorm"
	"gorm.io/gorm/migrator"
	"gorm.io/gorm/schema"
)

type c20Col struct {
	Name     string        `json:"-"`
	Type     string        `json:"type"`
	Aliases  []string      `json:"aliases"`
	Length   []interface{} `json:"length"`
	Decimal  []interface{} `json:"decimal"`
	Nullable []interface{} `json:"nullable"`
	Default  []interface{} `json:"default"`
	Comment  []interface{} `json:"comment"`
	Unique   []interface{} `json:"unique"`
}

// gorm.ColumnType over a c20Col
type c20CT struct{ c c20Col }

func (t c20CT) Name() string                          { return t.c.Name }
func (t c20CT) DatabaseTypeName() string              { return t.c.Type }
func (t c20CT) ColumnType() (string, bool)            { return t.c.Type, true }
func (t c20CT) PrimaryKey() (bool, bool)              { return false, false }
func (t c20CT) AutoIncrement() (bool, bool)           { return false, false }
func (t c20CT) Length() (int64, bool)                 { return int64(t.c.Length[0].(int)), t.c.Length[1].(bool) }
func (t c20CT) DecimalSize() (int64, int64, bool)     { return int64(t.c.Decimal[0].(int)), 0, t.c.Decimal[1].(bool) }
func (t c20CT) Nullable() (bool, bool)                { return t.c.Nullable[0].(bool), t.c.Nullable[1].(bool) }
func (t c20CT) Unique() (bool, bool)                  { return t.c.Unique[0].(bool), t.c.Unique[1].(bool) }
func (t c20CT) ScanType() reflect.Type                { return reflect.TypeOf("") }
func (t c20CT) Comment() (string, bool)               { return t.c.Comment[0].(string), t.c.Comment[1].(bool) }
func (t c20CT) DefaultValue() (string, bool)          { return t.c.Default[0].(string), t.c.Default[1].(bool) }

type c20Stub struct {
	calls       [][]string
	only        string // record only calls for this table ("" = all)
	mysqlish    bool
	hasTable    bool
	cols        []c20Col
	constraints map[string]bool
	indexes     map[string]bool
	// round 5 (c20_names.go): adversarial second opinions.  hasCol: what HasColumn answers (0 = the base migrator's own
	// answer, +1 = true, -1 = false) — AutoMigrate decides from ColumnTypes only, whatever HasColumn would say.
	// adv (+1 / -1): EVERY Has* predicate answers true / false (used when only the statement text of a body matters).
	hasCol int
	adv    int
	asked  []string // the predicates consulted while adv / hasCol was set
}

type c20Dialector struct {
	sqlite.Dialector
	st *c20Stub
}

func (d c20Dialector) Migrator(db *gorm.DB) gorm.Migrator {
	return c20Migrator{Migrator: migrator.Migrator{Config: migrator.Config{DB: db, Dialector: d}}, st: d.st}
}

// DataTypeOf: sqlite's mapping, or a MySQL-like one (sizes / precision inside the type text) when st.mysqlish
func (d c20Dialector) DataTypeOf(f *schema.Field) string {
	if !d.st.mysqlish {
		return d.Dialector.DataTypeOf(f)
	}
	switch f.DataType {
	case schema.Bool:
		return "boolean"
	case schema.Int, schema.Uint:
		switch {
		case f.Size <= 8:
			return "tinyint"
		case f.Size <= 16:
			return "smallint"
		case f.Size <= 32:
			return "int"
		}
		return "bigint"
	case schema.Float:
		if f.Precision > 0 {
			return fmt.Sprintf("decimal(%d, %d)", f.Precision, f.Scale)
		}
		return "double"
	case schema.String:
		if f.Size > 0 && f.Size < 65536 {
			return fmt.Sprintf("varchar(%d)", f.Size)
		}
		return "longtext"
	case schema.Time:
		if f.Precision > 0 {
			return fmt.Sprintf("datetime(%d)", f.Precision)
		}
		return "datetime"
	case schema.Bytes:
		return "longblob"
	}
	return string(f.DataType)
}

type c20Migrator struct {
	migrator.Migrator
	st *c20Stub
}

func (m c20Migrator) rec(a ...string) error { m.st.calls = append(m.st.calls, a); return nil }

// recT records a call together with the table of the value it was made for (auto-added dependency models are migrated
// by the same AutoMigrate call; the tie looks at one table)
func (m c20Migrator) recT(value interface{}, a ...string) error {
	if m.st.only != "" && m.tableOf(value) != m.st.only {
		return nil
	}
	return m.rec(a...)
}
func (m c20Migrator) tableOf(value interface{}) string {
	t := ""
	m.RunWithValue(value, func(stmt *gorm.Statement) error { t = stmt.Table; return nil })
	return t
}
func (m c20Migrator) HasColumn(value interface{}, name string) bool {
	m.st.asked = append(m.st.asked, "HasColumn")
	if m.st.adv != 0 {
		return m.st.adv > 0
	}
	if m.st.hasCol != 0 {
		return m.st.hasCol > 0
	}
	return m.Migrator.HasColumn(value, name)
}
func (m c20Migrator) HasTable(value interface{}) bool {
	if m.st.adv != 0 {
		m.st.asked = append(m.st.asked, "HasTable")
		return m.st.adv > 0
	}
	if m.st.only != "" && m.tableOf(value) != m.st.only {
		return true
	}
	return m.st.hasTable
}
func (m c20Migrator) CreateTable(values ...interface{}) error {
	return m.recT(values[0], "createTable", m.tableOf(values[0]))
}
func (m c20Migrator) AddColumn(value interface{}, name string) error {
	ign := "migrate"
	m.RunWithValue(value, func(stmt *gorm.Statement) error {
		if f := stmt.Schema.LookUpField(name); f != nil && f.IgnoreMigration {
			ign = "ignored"
		}
		return nil
	})
	return m.recT(value, "addColumn", name, ign)
}
func (m c20Migrator) AlterColumn(value interface{}, name string) error {
	return m.recT(value, "alterColumn", name)
}
func (m c20Migrator) CreateConstraint(value interface{}, name string) error {
	m.st.constraints[name] = true
	return m.recT(value, "createConstraint", name)
}
func (m c20Migrator) DropConstraint(value interface{}, name string) error {
	return m.recT(value, "dropConstraint", name)
}
func (m c20Migrator) HasConstraint(value interface{}, name string) bool {
	if m.st.adv != 0 {
		m.st.asked = append(m.st.asked, "HasConstraint")
		return m.st.adv > 0
	}
	return m.st.constraints[name]
}
func (m c20Migrator) CreateIndex(value interface{}, name string) error {
	m.st.indexes[name] = true
	return m.recT(value, "createIndex", name)
}
func (m c20Migrator) HasIndex(value interface{}, name string) bool {
	if m.st.adv != 0 {
		m.st.asked = append(m.st.asked, "HasIndex")
		return m.st.adv > 0
	}
	return m.st.indexes[name]
}
func (m c20Migrator) ColumnTypes(value interface{}) ([]gorm.ColumnType, error) {
	var out []gorm.ColumnType
	for _, c := range m.st.cols {
		out = append(out, c20CT{c})
	}
	return out, nil
}
func (m c20Migrator) GetTypeAliases(name string) []string {
	for _, c := range m.st.cols {
		if strings.ToLower(c.Type) == name {
			return c.Aliases
		}
	}
	return nil
}

func c20OpenStub(table string) (*gorm.DB, *c20Stub) {
	db0, _, sqlDB := OpenRec(nil)
	_ = db0
	st := &c20Stub{constraints: map[string]bool{}, indexes: map[string]bool{}}
	db, err := gorm.Open(c20Dialector{Dialector: sqlite.Dialector{Conn: sqlDB}, st: st}, &gorm.Config{
		Logger:         db0.Logger,
		NamingStrategy: c20Namer{NamingStrategy: schema.NamingStrategy{IdentifierMaxLength: 64}, anon: table}})
	if err != nil {
		panic(err)
	}
	return db, st
}

// c20FieldJ: the attributes of *schema.Field the model reads (FieldDecl)
func c20FieldJ(db *gorm.DB, f *schema.Field) map[string]interface{} {
	gt := "other"
	switch f.GORMDataType {
	case schema.Time:
		gt = "time"
	case schema.Bool:
		gt = "bool"
	}
	defx := ""
	if f.DefaultValueInterface != nil {
		defx = db.Dialector.Explain("?", f.DefaultValueInterface)
	}
	return map[string]interface{}{
		"db": f.DBName, "ignore": f.IgnoreMigration, "pk": f.PrimaryKey,
		"type": db.Migrator().(c20Migrator).DataTypeOf(f), "size": f.Size, "prec": f.Precision,
		"notnull": f.NotNull, "hasdef": f.HasDefaultValue, "defiface": f.DefaultValueInterface != nil,
		"def": f.DefaultValue, "defx": defx, "gtype": gt, "comment": f.Comment, "unique": f.Unique,
	}
}

func c20FirstDigits(s string) (int, bool) {
	n, seen := 0, false
	for _, c := range s {
		if c >= '0' && c <= '9' {
			n = n*10 + int(c-'0')
			seen = true
		} else if seen {
			break
		}
	}
	return n, seen
}

// c20FaithfulCol: a report that agrees with the declaration (the model's `Agrees`)
func c20FaithfulCol(rng *rand.Rand, db *gorm.DB, f *schema.Field) c20Col {
	dt := strings.TrimSpace(db.Migrator().(c20Migrator).DataTypeOf(f))
	name := dt
	if i := strings.IndexAny(dt, "( "); i > 0 && rng.Intn(3) > 0 {
		name = dt[:i]
	}
	if rng.Intn(3) == 0 {
		name = strings.ToUpper(name)
	}
	length := []interface{}{0, false}
	switch rng.Intn(3) {
	case 0:
		length = []interface{}{f.Size, true}
	case 1:
		full := strings.TrimSpace(strings.ToLower(db.Migrator().FullDataTypeOf(f).SQL))
		if n, ok := c20FirstDigits(full); ok && f.Size <= 0 && len(regFullDigits.FindAllString(full, -1)) == 1 {
			length = []interface{}{n, true}
		}
	}
	dec := []interface{}{0, false}
	if rng.Intn(3) == 0 {
		dec = []interface{}{f.Precision, true}
	}
	nullable := []interface{}{!f.NotNull, rng.Intn(5) > 0}
	if !nullable[1].(bool) {
		nullable[0] = rng.Intn(2) == 0
	}
	curNN := f.HasDefaultValue && (f.DefaultValueInterface != nil || !strings.EqualFold(f.DefaultValue, "NULL"))
	def := []interface{}{"", false}
	if curNN {
		def = []interface{}{f.DefaultValue, true}
	}
	comment := []interface{}{"", false}
	if rng.Intn(3) == 0 {
		comment = []interface{}{f.Comment, true}
	}
	uni := []interface{}{f.Unique, rng.Intn(4) > 0}
	return c20Col{Name: f.DBName, Type: name, Aliases: []string{}, Length: length, Decimal: dec, Nullable: nullable, Default: def, Comment: comment, Unique: uni}
}

// c20Perturb changes 1..2 accessors of a report; returns the names of the perturbed accessors
func c20Perturb(rng *rand.Rand, c *c20Col, f *schema.Field) []string {
	var what []string
	n := 1 + rng.Intn(2)
	for i := 0; i < n; i++ {
		switch rng.Intn(9) {
		case 0:
			c.Type = []string{"blob", "varchar", "int", "INTEGER", "tex", "text", "decimal", "num", ""}[rng.Intn(9)]
			if rng.Intn(2) == 0 {
				c.Aliases = [][]string{{"integer", "int"}, {"text", "varchar"}, {"decimal", "real", "double"}, {"bool", "numeric", "boolean"}, {"x"}}[rng.Intn(5)]
			}
			what = append(what, "type")
		case 1:
			c.Length = []interface{}{[]int{0, 1, 10, 20, 64, 255, f.Size, f.Size + 1, -1}[rng.Intn(9)], rng.Intn(3) > 0}
			what = append(what, "length")
		case 2:
			c.Decimal = []interface{}{[]int{0, 2, 8, 10, f.Precision, f.Precision + 1}[rng.Intn(6)], rng.Intn(3) > 0}
			what = append(what, "decimal")
		case 3:
			c.Nullable = []interface{}{rng.Intn(2) == 0, rng.Intn(4) > 0}
			what = append(what, "nullable")
		case 4:
			d := f.DefaultValue
			switch rng.Intn(8) {
			case 0:
				d = strings.ToUpper(d)
			case 1:
				d = d + "()"
			case 2:
				d = []string{"1", "0", "true", "false", "T", "F", "TRUE", "x"}[rng.Intn(8)]
			case 3:
				d = "other"
			case 4:
				d = strings.TrimSuffix(d, "()")
			case 5:
				d = "null"
			case 6:
				d = ""
			}
			c.Default = []interface{}{d, rng.Intn(4) > 0}
			what = append(what, "default")
		case 5:
			c.Comment = []interface{}{[]string{"", f.Comment, "other comment"}[rng.Intn(3)], rng.Intn(3) > 0}
			what = append(what, "comment")
		case 6:
			c.Unique = []interface{}{rng.Intn(2) == 0, rng.Intn(4) > 0}
			what = append(what, "unique")
		case 7:
			c.Aliases = append(c.Aliases, []string{"int", "text", "varchar", "decimal", "tinyint", "datetime", "numeric"}[rng.Intn(7)])
			what = append(what, "alias")
		case 8:
			c.Type = " " + c.Type
			what = append(what, "type-space")
		}
	}
	return what
}

// tags for the column tie: everything MigrateColumn reads
func c20TieField(rng *rand.Rand, name string) c20Field {
	g := &c20Gen{rng: rng, feat: map[string]bool{}, tricky: true}
	kind := c20ScalarKinds[rng.Intn(len(c20ScalarKinds))]
	class := c20Class(kind)
	var tags []string
	if class != "bytes" && rng.Intn(2) == 0 {
		d := g.defaultFor(class, false)
		if rng.Intn(6) == 0 {
			d = g.pick("NULL", "null", "now()", "CURRENT_TIMESTAMP()", "(-)", "gen_random_uuid()")
		}
		tags = append(tags, "default:"+d)
	}
	if rng.Intn(3) == 0 {
		tags = append(tags, "not null")
	}
	if rng.Intn(3) == 0 {
		tags = append(tags, "size:"+g.pick("8", "10", "20", "64", "255", "70000"))
	}
	if rng.Intn(4) == 0 {
		tags = append(tags, "precision:"+g.pick("2", "8", "10", "3"))
		if rng.Intn(2) == 0 {
			tags = append(tags, "scale:2")
		}
	}
	if rng.Intn(5) == 0 {
		tags = append(tags, "type:"+g.pick("varchar(20)", "VARCHAR(64)", "decimal(10,2)", "numeric(8)", "bigint", " int ", "char(8) binary", "float8", "time", "enum('a1','b2')", "bit(3)(4)"))
	}
	if rng.Intn(5) == 0 {
		tags = append(tags, "unique")
	}
	if rng.Intn(6) == 0 {
		tags = append(tags, "comment:"+g.pick("hello", "x y"))
	}
	if rng.Intn(10) == 0 {
		tags = append(tags, "primaryKey")
	}
	if rng.Intn(14) == 0 {
		tags = append(tags, "-:migration")
	}
	return c20Field{Name: name, Kind: kind, Tag: strings.Join(tags, ";")}
}

func c20Acts(calls [][]string, table string, db *gorm.DB) []string {
	out := []string{}
	for _, c := range calls {
		switch c[0] {
		case "alterColumn":
			out = append(out, "alter")
		case "createConstraint":
			out = append(out, "createUnique")
		case "dropConstraint":
			out = append(out, "dropUnique")
		default:
			out = append(out, c[0])
		}
	}
	return out
}

func c20TieColumn(r *Result, rng *rand.Rand, tier string) {
	n := 8000
	if tier == "thorough" {
		n = 120000
	} else if tier == "search" {
		n = 30000
	}
	db, st := c20OpenStub("tie_items")
	type tcase struct {
		In   map[string]interface{}
		Real string
		Pert string
	}
	var cases []tcase
	var ops [][]interface{}
	for i := 0; i < n && !expired(); i++ {
		st.mysqlish = rng.Intn(2) == 0
		fs := []c20Field{{Name: "ID", Kind: "uint"}, c20TieField(rng, "FA")}
		if strings.Contains(fs[1].Tag, "primaryKey") {
			fs = fs[1:]
		}
		t, err := c20Type(fs)
		if err != nil {
			continue
		}
		val := reflect.New(t).Interface()
		// fresh cache per mysqlish flag is not needed: the schema does not depend on the dialector
		stmt := &gorm.Statement{DB: db}
		if err := stmt.Parse(val); err != nil {
			r.H("column.parse", "rejected")
			continue
		}
		f := stmt.Schema.LookUpField("FA")
		col := c20FaithfulCol(rng, db, f)
		pert := "faithful"
		if rng.Intn(3) > 0 {
			pert = strings.Join(c20Perturb(rng, &col, f), "+")
		}
		st.cols = []c20Col{col}
		st.calls = nil
		if err := db.Migrator().MigrateColumn(val, f, c20CT{col}); err != nil {
			r.H("column.parse", "migrate-error")
			continue
		}
		full := strings.TrimSpace(strings.ToLower(db.Migrator().FullDataTypeOf(f).SQL))
		real := canon(map[string]interface{}{"acts": c20Acts(st.calls, "tie_items", db), "full": full})
		fj := c20FieldJ(db, f)
		in := map[string]interface{}{"field": fj, "col": col, "tag": fs[len(fs)-1].Tag, "kind": fs[len(fs)-1].Kind, "mysqlish": st.mysqlish}
		cases = append(cases, tcase{In: in, Real: real, Pert: pert})
		ops = append(ops, []interface{}{"mig.column", fj, col})
	}
	outs, err := AskLean(ops)
	if err != nil {
		r.Violate(Violation{Kind: "correspondence", Suite: "mig.column", Note: err.Error()})
		return
	}
	for i, c := range cases {
		var m struct {
			Acts  []string        `json:"acts"`
			Full  string          `json:"full"`
			Trace map[string]bool `json:"trace"`
		}
		if err := jsonUnmarshal(outs[i], &m); err != nil {
			r.Violate(Violation{Kind: "correspondence", Suite: "mig.column", Input: c.In, Observed: c.Real, Expected: string(outs[i]), Note: "model rejected the op"})
			continue
		}
		if m.Acts == nil {
			m.Acts = []string{}
		}
		model := canon(map[string]interface{}{"acts": m.Acts, "full": m.Full})
		r.CorrCompared++
		r.Case("mig.column", canon(c.In), len(m.Acts) > 0 || c.Pert != "faithful")
		r.H("column.input", c.Pert)
		r.H("column.acts", strings.Join(m.Acts, "+")+"|")
		for k, v := range m.Trace {
			if v {
				r.H("column.model-branch", k)
			}
		}
		if m.Trace["before"] && !m.Trace["after"] {
			r.H("column.model-branch", "default-arm-overwrote-alter")
		}
		if c.Pert == "faithful" && len(m.Acts) > 0 {
			r.H("column.faithful-but-changed", fmt.Sprint(c.In["tag"]))
		}
		if c.Real != model {
			r.Violate(Violation{Kind: "correspondence", Suite: "mig.column", Input: c.In, Observed: c.Real, Expected: model,
				Note: "real migrator.Migrator.MigrateColumn (+FullDataTypeOf) vs Lean Gorm.Mig.migrateColumn/fullLower"})
		}
		if i < 2 {
			r.Sample(c.In)
		}
	}
}

// ---- AutoMigrate skeleton -----------------------------------------------------------------------

func c20TieAuto(r *Result, rng *rand.Rand, tier string) {
	n := 2500
	if tier == "thorough" {
		n = 40000
	} else if tier == "search" {
		n = 10000
	}
	type tcase struct {
		In   map[string]interface{}
		Real string
	}
	var cases []tcase
	var ops [][]interface{}
	for i := 0; i < n && !expired(); i++ {
		db, st := c20OpenStub("auto_items")
		g := &c20Gen{rng: rng, feat: map[string]bool{}}
		fs := []c20Field{{Name: "ID", Kind: "uint"}}
		nf := 1 + rng.Intn(4)
		for k := 0; k < nf; k++ {
			fs = append(fs, g.scalarField(fmt.Sprintf("F%c", 'A'+k), false, "v1"))
		}
		have := map[string]bool{"audit": true, "toys": true, "badge": true, "tags": true}
		if rng.Intn(2) == 0 {
			fs = append(fs, g.relation("v1", have, false)...)
		}
		t, err := c20Type(fs)
		if err != nil {
			continue
		}
		val := reflect.New(t).Interface()
		stmt := &gorm.Statement{DB: db}
		if err := stmt.Parse(val); err != nil {
			continue
		}
		sch := stmt.Schema
		// model declaration from the parsed schema
		var fields []interface{}
		for _, dbn := range sch.DBNames {
			fields = append(fields, c20FieldJ(db, sch.FieldsByDBName[dbn]))
		}
		var fks, checks, idxs []string
		for _, rel := range sch.Relationships.Relations {
			if rel.Field.IgnoreMigration {
				continue
			}
			if c := rel.ParseConstraint(); c != nil && c.Schema == sch {
				fks = append(fks, c.Name)
			}
		}
		for name := range sch.ParseCheckConstraints() {
			checks = append(checks, name)
		}
		sort.Strings(fks)
		sort.Strings(checks)
		for _, ix := range sch.ParseIndexes() {
			idxs = append(idxs, ix.Name)
		}
		if fields == nil {
			fields = []interface{}{}
		}
		modelJ := map[string]interface{}{"table": "auto_items", "fields": fields, "fks": nz(fks), "checks": nz(checks), "indexes": nz(idxs)}
		// abstract catalog state
		st.hasTable = rng.Intn(6) > 0
		var tableJ interface{}
		if st.hasTable {
			var colsJ []interface{}
			aliasOf := map[string][]string{}
			for _, dbn := range sch.DBNames {
				if rng.Intn(5) == 0 {
					continue // column missing
				}
				f := sch.FieldsByDBName[dbn]
				col := c20FaithfulCol(rng, db, f)
				if rng.Intn(4) == 0 {
					c20Perturb(rng, &col, f)
				}
				// GetTypeAliases is a function of the (lower-cased) type name: one alias list per type name
				if a, ok := aliasOf[strings.ToLower(col.Type)]; ok {
					col.Aliases = a
				} else {
					aliasOf[strings.ToLower(col.Type)] = col.Aliases
				}
				st.cols = append(st.cols, col)
				colsJ = append(colsJ, map[string]interface{}{"name": dbn, "info": col})
			}
			var hc, hi []string
			for _, nme := range append(append([]string{}, fks...), checks...) {
				if rng.Intn(3) > 0 {
					st.constraints[nme] = true
					hc = append(hc, nme)
				}
			}
			for _, nme := range idxs {
				if rng.Intn(3) > 0 {
					st.indexes[nme] = true
					hi = append(hi, nme)
				}
			}
			if colsJ == nil {
				colsJ = []interface{}{}
			}
			tableJ = map[string]interface{}{"cols": colsJ, "constraints": nz(hc), "indexes": nz(hi)}
		}
		st.calls = nil
		st.only = "auto_items"
		st.hasCol = i%3 - 1 // HasColumn's answer must not matter (round 5): base answer / always true / always false
		r.H("auto.hascolumn-answer", []string{"false", "base", "true"}[st.hasCol+1])
		if err := db.AutoMigrate(val); err != nil {
			r.H("auto.skip", "automigrate-error")
			continue
		}
		// canonical real call list: [kind, name]; AddColumn on an ignored field executes nothing (AddColumn's own guard)
		isFk, isChk := map[string]bool{}, map[string]bool{}
		for _, x := range fks {
			isFk[x] = true
		}
		for _, x := range checks {
			isChk[x] = true
		}
		// the unique-constraint name MigrateColumnUnique derives for a column (the namer snake-cases a mixed-case column name)
		uniCol := map[string]string{}
		for _, dbn := range sch.DBNames {
			uniCol[db.NamingStrategy.UniqueName("auto_items", dbn)] = dbn
		}
		var real [][]string
		for _, c := range st.calls {
			switch c[0] {
			case "addColumn":
				if c[2] == "ignored" {
					continue
				}
				real = append(real, []string{"addColumn", c[1]})
			case "createConstraint", "dropConstraint":
				if col, ok := uniCol[c[1]]; ok && !isFk[c[1]] && !isChk[c[1]] {
					k := map[string]string{"createConstraint": "createUnique", "dropConstraint": "dropUnique"}[c[0]]
					real = append(real, []string{k, col})
				} else {
					real = append(real, []string{c[0], c[1]})
				}
			default:
				real = append(real, []string{c[0], c[1]})
			}
		}
		// relation constraints and check constraints come out of Go maps: sort each run of them
		sortRun := func(pred map[string]bool) {
			for a := 0; a < len(real); {
				b := a
				for b < len(real) && real[b][0] == "createConstraint" && pred[real[b][1]] {
					b++
				}
				if b > a {
					sort.Slice(real[a:b], func(x, y int) bool { return real[a+x][1] < real[a+y][1] })
					a = b
				} else {
					a++
				}
			}
		}
		sortRun(isFk)
		sortRun(isChk)
		if real == nil {
			real = [][]string{}
		}
		in := map[string]interface{}{"model": modelJ, "table": tableJ, "fields": fs}
		cases = append(cases, tcase{In: in, Real: canon(real)})
		ops = append(ops, []interface{}{"mig.auto", modelJ, tableJ})
		if sq, e := db.DB(); e == nil {
			sq.Close()
		}
	}
	outs, err := AskLean(ops)
	if err != nil {
		r.Violate(Violation{Kind: "correspondence", Suite: "mig.auto", Note: err.Error()})
		return
	}
	for i, c := range cases {
		model := canonRaw(outs[i])
		r.CorrCompared++
		r.Case("mig.auto", canon(c.In), c.Real != "[]")
		var kinds [][]string
		_ = jsonUnmarshal(outs[i], &kinds)
		if len(kinds) == 0 {
			r.H("auto.model-ddl", "none")
		}
		seen := map[string]bool{}
		for _, k := range kinds {
			if len(k) > 0 && !seen[k[0]] {
				seen[k[0]] = true
				r.H("auto.model-ddl", k[0])
			}
		}
		if c.Real != model {
			r.Violate(Violation{Kind: "correspondence", Suite: "mig.auto", Input: c.In, Observed: c.Real, Expected: model,
				Note: "calls made by the real migrator.Migrator.AutoMigrate against the abstract catalog vs Lean Gorm.Mig.autoMigrateOne"})
		}
	}
}

func nz(s []string) []string {
	if s == nil {
		return []string{}
	}
	return s
}

// ---- ReorderModels ------------------------------------------------------------------------------

type C20A struct {
	ID  uint
	BID uint
	B   C20B
}
type C20B struct {
	ID  uint
	CID uint
	C   *C20C
}
type C20C struct {
	ID   uint
	Name string
}
type C20D struct {
	ID  uint
	AID uint
	A   C20A
	CID uint
	C   C20C
}
type C20E struct {
	ID  uint
	FID uint
	F   *C20F
}
type C20F struct {
	ID  uint
	EID uint
	E   *C20E
}
type C20G struct {
	ID uint
	Cs []C20C `gorm:"many2many:c20_g_cs"`
}
type C20K struct { // constraint disabled by tag: no dependency
	ID  uint
	CID uint
	C   C20C `gorm:"constraint:-"`
}

var c20Fam = map[string]interface{}{
	"c20_as": &C20A{}, "c20_bs": &C20B{}, "c20_cs": &C20C{}, "c20_ds": &C20D{}, "c20_es": &C20E{}, "c20_fs": &C20F{},
	"c20_gs": &C20G{}, "c20_nodes": &C20Node{}, "c20_ks": &C20K{},
}
var c20FamNames = []string{"c20_as", "c20_bs", "c20_cs", "c20_ds", "c20_es", "c20_fs", "c20_gs", "c20_nodes", "c20_ks"}

// the dependency facts of the family, written by hand from the struct definitions above (relation constraints owned by
// the model, self references excluded; the join table of G depends on both ends).  Go iterates
// Schema.Relationships.Relations (a map) in random order: where a model has two dependencies both orders are possible.
func c20Graphs() [][]map[string]interface{} {
	var out [][]map[string]interface{}
	for _, dOrd := range [][]string{{"c20_as", "c20_cs"}, {"c20_cs", "c20_as"}} {
		for _, jOrd := range [][]string{{"c20_gs", "c20_cs"}, {"c20_cs", "c20_gs"}} {
			mk := func(t string, deps []string, joins []interface{}) map[string]interface{} {
				if joins == nil {
					joins = []interface{}{}
				}
				return map[string]interface{}{"table": t, "depends": nz(deps), "joins": joins}
			}
			out = append(out, []map[string]interface{}{
				mk("c20_as", []string{"c20_bs"}, nil), mk("c20_bs", []string{"c20_cs"}, nil), mk("c20_cs", nil, nil),
				mk("c20_ds", dOrd, nil), mk("c20_es", []string{"c20_fs"}, nil), mk("c20_fs", []string{"c20_es"}, nil),
				mk("c20_gs", nil, []interface{}{[]interface{}{nil, "c20_g_cs"}}), mk("c20_g_cs", jOrd, nil),
				mk("c20_nodes", nil, nil), mk("c20_ks", nil, nil),
			})
		}
	}
	return out
}

func c20TieReorder(r *Result, rng *rand.Rand, tier string) {
	n := 600
	if tier == "thorough" {
		n = 20000
	} else if tier == "search" {
		n = 5000
	}
	db, _, _ := OpenRec(nil)
	graphs := c20Graphs()
	type tcase struct {
		In   map[string]interface{}
		Real string
	}
	var cases []tcase
	var ops [][]interface{}
	for i := 0; i < n && !expired(); i++ {
		k := 1 + rng.Intn(5)
		var names []string
		for j := 0; j < k; j++ {
			names = append(names, c20FamNames[rng.Intn(len(c20FamNames))]) // duplicates allowed
		}
		autoAdd := rng.Intn(4) > 0
		var vals []interface{}
		for _, nm := range names {
			vals = append(vals, c20Fam[nm])
		}
		res := db.Migrator().(sqlite.Migrator).ReorderModels(vals, autoAdd)
		var real []string
		for _, v := range res {
			st := &gorm.Statement{DB: db}
			if err := st.Parse(v); err == nil && st.Schema.Table != "" {
				real = append(real, st.Schema.Table)
			} else {
				real = append(real, "c20_g_cs") // the anonymous join-table struct
			}
		}
		in := map[string]interface{}{"values": names, "autoAdd": autoAdd}
		cases = append(cases, tcase{In: in, Real: canon(nz(real))})
		for _, g := range graphs {
			ops = append(ops, []interface{}{"mig.reorder", g, names, autoAdd})
		}
	}
	outs, err := AskLean(ops)
	if err != nil {
		r.Violate(Violation{Kind: "correspondence", Suite: "mig.reorder", Note: err.Error()})
		return
	}
	for i, c := range cases {
		ok := false
		var models []string
		for j := range graphs {
			m := canonRaw(outs[i*len(graphs)+j])
			models = append(models, m)
			if m == c.Real {
				ok = true
			}
		}
		r.CorrCompared++
		r.Case("mig.reorder", canon(c.In), len(c.In["values"].([]string)) >= 2)
		r.H("reorder.autoAdd", fmt.Sprint(c.In["autoAdd"]))
		r.H("reorder.out-len", fmt.Sprint(strings.Count(c.Real, ",")+1))
		if strings.Contains(c.Real, "c20_g_cs") {
			r.H("reorder.feature", "join-table-auto-added")
		}
		if strings.Contains(c.Real, "c20_es") && strings.Contains(c.Real, "c20_fs") {
			r.H("reorder.feature", "cycle")
		}
		if !ok {
			r.Violate(Violation{Kind: "correspondence", Suite: "mig.reorder", Input: c.In, Observed: c.Real, Expected: models,
				Note: "real migrator.Migrator.ReorderModels vs Lean Gorm.Mig.reorderModels (any order of map-iterated dependencies)"})
		}
	}
}

// ---- ParseIndexes -------------------------------------------------------------------------------

func c20TieIndexes(r *Result, rng *rand.Rand, tier string) {
	n := 1500
	if tier == "thorough" {
		n = 50000
	} else if tier == "search" {
		n = 10000
	}
	ns := schema.NamingStrategy{IdentifierMaxLength: 64}
	type tcase struct {
		In   interface{}
		Real string
	}
	var cases []tcase
	var ops [][]interface{}
	for i := 0; i < n && !expired(); i++ {
		nf := 1 + rng.Intn(5)
		var fs []c20Field
		var entries []map[string]interface{}
		for k := 0; k < nf; k++ {
			fname := fmt.Sprintf("F%c", 'A'+k)
			var tags []string
			nt := rng.Intn(3)
			for t := 0; t < nt; t++ {
				uniq := rng.Intn(3) == 0
				key := "index"
				if uniq {
					key = "uniqueIndex"
				}
				name := []string{"", "", "idx_one", "idx_two", "idx_three"}[rng.Intn(5)]
				e := map[string]interface{}{"class": "", "type": "", "where": "", "comment": "", "option": "", "field": fname, "priority": 10}
				var opts []string
				if rng.Intn(2) == 0 {
					p := rng.Intn(5)
					e["priority"] = p
					opts = append(opts, fmt.Sprintf("priority:%d", p))
				}
				if rng.Intn(5) == 0 {
					c := []string{"FULLTEXT", "SPATIAL"}[rng.Intn(2)]
					e["class"] = c
					opts = append(opts, "class:"+c)
				}
				if uniq {
					e["class"] = "UNIQUE"
				}
				if rng.Intn(5) == 0 {
					e["type"] = "btree"
					opts = append(opts, "type:btree")
				}
				if rng.Intn(5) == 0 {
					w := []string{"age > 10", "x = 1"}[rng.Intn(2)]
					e["where"] = w
					opts = append(opts, "where:"+w)
				}
				if rng.Intn(6) == 0 {
					e["comment"] = "hey " + fname
					opts = append(opts, "comment:hey "+fname)
				}
				if rng.Intn(6) == 0 {
					e["option"] = "WITH PARSER ngram"
					opts = append(opts, "option:WITH PARSER ngram")
				}
				if rng.Intn(6) == 0 {
					opts = append(opts, []string{"sort:desc", "collate:utf8", "length:10", "expression:lower(x)"}[rng.Intn(4)])
				}
				comp := ""
				if name == "" && rng.Intn(4) == 0 {
					comp = []string{"cmp", "other"}[rng.Intn(2)]
					opts = append(opts, "composite:"+comp)
				}
				if name == "" {
					sub := fname
					if comp != "" {
						sub = comp
					}
					e["name"] = ns.IndexName("idx_items", sub)
				} else {
					e["name"] = name
				}
				tag := key
				if name != "" || len(opts) > 0 {
					tag += ":" + name
				}
				if len(opts) > 0 {
					tag += "," + strings.Join(opts, ",")
				}
				tags = append(tags, tag)
				entries = append(entries, e)
			}
			fs = append(fs, c20Field{Name: fname, Kind: "string", Tag: strings.Join(tags, ";")})
		}
		t, err := c20Type(fs)
		if err != nil {
			continue
		}
		sch, err := schema.Parse(reflect.New(t).Interface(), newSyncMap(), c20Namer{NamingStrategy: ns, anon: "idx_items"})
		if err != nil {
			r.H("indexes.skip", "parse-error")
			continue
		}
		var real []map[string]interface{}
		for _, ix := range sch.ParseIndexes() {
			var flds [][]interface{}
			for _, f := range ix.Fields {
				flds = append(flds, []interface{}{f.Name, f.Priority})
			}
			real = append(real, map[string]interface{}{"name": ix.Name, "class": ix.Class, "type": ix.Type, "where": ix.Where,
				"comment": ix.Comment, "option": ix.Option, "fields": flds})
		}
		if real == nil {
			real = []map[string]interface{}{}
		}
		if entries == nil {
			entries = []map[string]interface{}{}
		}
		cases = append(cases, tcase{In: map[string]interface{}{"fields": fs, "entries": entries}, Real: canon(real)})
		ops = append(ops, []interface{}{"mig.indexes", entries})
	}
	outs, err := AskLean(ops)
	if err != nil {
		r.Violate(Violation{Kind: "correspondence", Suite: "mig.indexes", Note: err.Error()})
		return
	}
	for i, c := range cases {
		model := canonRaw(outs[i])
		r.CorrCompared++
		multi := strings.Count(c.Real, `"name"`)
		r.Case("mig.indexes", canon(c.In), multi >= 1)
		r.H("indexes.count", fmt.Sprint(multi))
		if strings.Contains(c.Real, `],[`) {
			r.H("indexes.feature", "multi-field-index")
		}
		if c.Real != model {
			r.Violate(Violation{Kind: "correspondence", Suite: "mig.indexes", Input: c.In, Observed: c.Real, Expected: model,
				Note: "real schema.ParseIndexes vs Lean Gorm.Mig.parseIndexes"})
		}
	}
}
