package main

// C05, fault STAGES of one driver call.  A statement can fail at more places than the return of Exec/Query:
//
//	query path  QueryContext returns            -> event "query" / "stmt_query"   (rec.go)
//	            driver.Rows.Next, row i          -> event "rows_next"  Args[0] = i  (i = number of rows already
//	                                                delivered; i = n is the call that would have answered io.EOF:
//	                                                "the error appears after the last row")
//	            driver.Rows.Close                -> event "rows_close"
//	exec path   ExecContext returns              -> event "exec" / "stmt_exec"     (rec.go)
//	            driver.Result.RowsAffected       -> event "res_rows"
//	            driver.Result.LastInsertId       -> event "res_lastid"
//
// database/sql hands a Next error to the caller only through Rows.Err(); a Close error only through Rows.Close() and
// only when the rows were not read to the end (reading to io.EOF closes them implicitly and drops that error).
// With `INSERT … RETURNING` SQLite executes the statement while the first row is fetched, so a genuine statement
// failure (CHECK / NOT NULL / RAISE(ABORT) trigger) reaches gorm through Rows.Err() as well – the trigger mechanism
// below produces exactly those.
//
// c05Connector wraps rec.go's connection: same events for the call itself, plus stage events when ctl.on is set, plus
// the "post" mechanism (the call is forwarded and takes effect, and is then reported as failed – a connection that
// breaks while the answer travels back), plus a note of every genuine error a stage produced (ctl.real).

import (
	"context"
	"database/sql/driver"
	"fmt"
	"io"
	"reflect"
	"regexp"
	"strings"
	"sync"
	"sync/atomic"

	sqlite3 "github.com/mattn/go-sqlite3"
	"gorm.io/gorm"
)

type c05StageCtl struct {
	on   int32 // record (and allow to fail) stage events
	post int32 // an injected failure of exec/query/rows_next is delivered AFTER the call was forwarded
	mu   sync.Mutex
	real []string // genuine (not injected) errors produced by any stage
}

func (c *c05StageCtl) isOn() bool   { return c != nil && atomic.LoadInt32(&c.on) != 0 }
func (c *c05StageCtl) isPost() bool { return c != nil && atomic.LoadInt32(&c.post) != 0 }
func (c *c05StageCtl) note(err error) {
	if c == nil || err == nil || err == io.EOF {
		return
	}
	c.mu.Lock()
	c.real = append(c.real, err.Error())
	c.mu.Unlock()
}
func (c *c05StageCtl) takeReal() []string {
	c.mu.Lock()
	defer c.mu.Unlock()
	out := c.real
	c.real = nil
	return out
}

type c05Connector struct {
	recConnector
	ctl *c05StageCtl
}

func (c *c05Connector) Connect(ctx context.Context) (driver.Conn, error) {
	inner, err := c.recConnector.Connect(ctx)
	if err != nil {
		return nil, err
	}
	return &c05Conn{recConn: inner.(*recConn), ctl: c.ctl}, nil
}

type c05Conn struct {
	*recConn
	ctl *c05StageCtl
}

func (c *c05Conn) PrepareContext(ctx context.Context, query string) (driver.Stmt, error) {
	st, err := c.recConn.PrepareContext(ctx, query)
	if err != nil {
		return nil, err
	}
	return &c05Stmt{recStmt: st.(*recStmt), ctl: c.ctl}, nil
}

func (c *c05Conn) Prepare(query string) (driver.Stmt, error) {
	return c.PrepareContext(context.Background(), query)
}

func (c *c05Conn) ExecContext(ctx context.Context, query string, args []driver.NamedValue) (driver.Result, error) {
	ferr := c.rec.record(Event{Kind: "exec", SQL: query, Args: namedToArgs(args), Marker: CtxMarker(ctx), HasCtx: true})
	if ferr != nil && !c.ctl.isPost() {
		return nil, ferr
	}
	res, err := c.inner.ExecContext(ctx, query, args)
	c.ctl.note(err)
	if ferr != nil {
		return nil, ferr
	}
	if err != nil {
		return nil, err
	}
	return &c05Result{inner: res, rec: c.rec, ctl: c.ctl, sql: query}, nil
}

func (c *c05Conn) QueryContext(ctx context.Context, query string, args []driver.NamedValue) (driver.Rows, error) {
	ferr := c.rec.record(Event{Kind: "query", SQL: query, Args: namedToArgs(args), Marker: CtxMarker(ctx), HasCtx: true})
	if ferr != nil && !c.ctl.isPost() {
		return nil, ferr
	}
	rows, err := c.inner.QueryContext(ctx, query, args)
	c.ctl.note(err)
	if ferr != nil {
		if err == nil {
			c05Drain(rows)
		}
		return nil, ferr
	}
	if err != nil {
		return nil, err
	}
	return c05WrapRows(rows, c.rec, c.ctl, query), nil
}

// c05Drain: the "post" mechanism for a query – the statement is executed completely, its answer is lost
func c05Drain(rows driver.Rows) {
	dest := make([]driver.Value, len(rows.Columns()))
	for rows.Next(dest) == nil {
	}
	_ = rows.Close()
}

type c05Stmt struct {
	*recStmt
	ctl *c05StageCtl
}

func (s *c05Stmt) ExecContext(ctx context.Context, args []driver.NamedValue) (driver.Result, error) {
	ferr := s.rec.record(Event{Kind: "stmt_exec", SQL: s.sql, Args: namedToArgs(args), Marker: CtxMarker(ctx), HasCtx: true})
	if ferr != nil && !s.ctl.isPost() {
		return nil, ferr
	}
	res, err := s.inner.ExecContext(ctx, args)
	s.ctl.note(err)
	if ferr != nil {
		return nil, ferr
	}
	if err != nil {
		return nil, err
	}
	return &c05Result{inner: res, rec: s.rec, ctl: s.ctl, sql: s.sql}, nil
}

func (s *c05Stmt) QueryContext(ctx context.Context, args []driver.NamedValue) (driver.Rows, error) {
	ferr := s.rec.record(Event{Kind: "stmt_query", SQL: s.sql, Args: namedToArgs(args), Marker: CtxMarker(ctx), HasCtx: true})
	if ferr != nil && !s.ctl.isPost() {
		return nil, ferr
	}
	rows, err := s.inner.QueryContext(ctx, args)
	s.ctl.note(err)
	if ferr != nil {
		if err == nil {
			c05Drain(rows)
		}
		return nil, ferr
	}
	if err != nil {
		return nil, err
	}
	return c05WrapRows(rows, s.rec, s.ctl, s.sql), nil
}

type c05Result struct {
	inner driver.Result
	rec   *Recorder
	ctl   *c05StageCtl
	sql   string
}

func (r *c05Result) RowsAffected() (int64, error) {
	if r.ctl.isOn() {
		if err := r.rec.record(Event{Kind: "res_rows", SQL: r.sql}); err != nil {
			return 0, err
		}
	}
	return r.inner.RowsAffected()
}

func (r *c05Result) LastInsertId() (int64, error) {
	if r.ctl.isOn() {
		if err := r.rec.record(Event{Kind: "res_lastid", SQL: r.sql}); err != nil {
			return 0, err
		}
	}
	return r.inner.LastInsertId()
}

type c05Rows struct {
	inner driver.Rows
	sq    *sqlite3.SQLiteRows
	rec   *Recorder
	ctl   *c05StageCtl
	sql   string
	i     int
	done  bool
}

func c05WrapRows(rows driver.Rows, rec *Recorder, ctl *c05StageCtl, query string) driver.Rows {
	sq, _ := rows.(*sqlite3.SQLiteRows)
	return &c05Rows{inner: rows, sq: sq, rec: rec, ctl: ctl, sql: query}
}

func (r *c05Rows) Columns() []string { return r.inner.Columns() }

func (r *c05Rows) Next(dest []driver.Value) error {
	if r.done {
		return io.EOF
	}
	var ferr error
	if r.ctl.isOn() {
		ferr = r.rec.record(Event{Kind: "rows_next", SQL: r.sql, Args: []interface{}{r.i}})
		if ferr != nil && !r.ctl.isPost() {
			r.done = true
			return ferr
		}
	}
	err := r.inner.Next(dest)
	r.ctl.note(err)
	r.i++
	if ferr != nil {
		r.done = true
		return ferr
	}
	if err != nil {
		r.done = true
	}
	return err
}

func (r *c05Rows) Close() error {
	var ferr error
	if r.ctl.isOn() {
		ferr = r.rec.record(Event{Kind: "rows_close", SQL: r.sql})
	}
	err := r.inner.Close()
	if ferr != nil {
		return ferr
	}
	return err
}

// column type information used by gorm's migrator (forwarded to go-sqlite3)
func (r *c05Rows) ColumnTypeDatabaseTypeName(i int) string {
	if r.sq != nil {
		return r.sq.ColumnTypeDatabaseTypeName(i)
	}
	return ""
}
func (r *c05Rows) ColumnTypeNullable(i int) (nullable, ok bool) {
	if r.sq != nil {
		return r.sq.ColumnTypeNullable(i)
	}
	return false, false
}
func (r *c05Rows) ColumnTypeScanType(i int) reflect.Type {
	if r.sq != nil {
		return r.sq.ColumnTypeScanType(i)
	}
	return reflect.TypeOf(new(interface{})).Elem()
}

// c05StageKind: the fault is at a stage after the call returned successfully
func c05StageKind(k string) bool {
	switch k {
	case "rows_next", "rows_close", "res_rows", "res_lastid":
		return true
	}
	return false
}

// c05MustReport: does a failure at this stage mean "the statement failed"?  rows_close / res_rows / res_lastid come
// after a statement that has been executed and answered completely: gorm (callbacks/create.go, update.go, delete.go)
// discards the error of RowsAffected, database/sql drops a Close error once the rows were read to the end – the
// property does not speak about them, so for those stages success with the fully applied state is accepted as well
// (the all-or-nothing demand stays).
func c05MustReport(k string) bool {
	switch k {
	case "rows_close", "res_rows", "res_lastid":
		return false
	}
	return true
}

// ---- genuine database-side failures: RAISE(ABORT) triggers on every table -------------------------------------------
//
// After AutoMigrate the harness adds, for every table T of the world (association and join tables included) and each of
// INSERT / UPDATE / DELETE, a BEFORE trigger that is asleep unless its row in c05_trip is armed.  Armed with n, it lets
// n-1 rows pass and aborts the statement at the n-th row ("the k-th record of the batch violates a constraint").
// SQLite raises the failure while the statement is STEPPED: at ExecContext for a plain statement, at Rows.Next (so:
// only in Rows.Err()) for a statement with RETURNING.

const c05TripTable = "c05_trip"

var c05TrigOps = []string{"insert", "update", "delete"}

func c05InstallTriggers(db *gorm.DB, rec *Recorder, tables []string) {
	rec.mu.Lock()
	off := rec.Off
	rec.Off = true
	rec.mu.Unlock()
	defer func() { rec.mu.Lock(); rec.Off = off; rec.mu.Unlock() }()
	raw := db.Session(&gorm.Session{NewDB: true, SkipHooks: true, Context: context.Background()})
	must := func(sql string) {
		if err := raw.Exec(sql).Error; err != nil {
			panic(fmt.Sprintf("c05 trigger setup: %v: %s", err, sql))
		}
	}
	must("CREATE TABLE " + c05TripTable + " (tbl text, op text, armed integer, n integer, PRIMARY KEY (tbl, op))")
	for _, t := range tables {
		for _, op := range c05TrigOps {
			must(fmt.Sprintf("INSERT INTO %s VALUES ('%s','%s',0,0)", c05TripTable, t, op))
			must(fmt.Sprintf(`CREATE TRIGGER c05_trg_%[1]s_%[2]s BEFORE %[2]s ON %[1]s
WHEN (SELECT armed FROM %[3]s WHERE tbl='%[1]s' AND op='%[2]s') = 1
BEGIN
  UPDATE %[3]s SET n = n - 1 WHERE tbl='%[1]s' AND op='%[2]s';
  SELECT RAISE(ABORT, 'c05 trigger: %[2]s on %[1]s refused') WHERE (SELECT n FROM %[3]s WHERE tbl='%[1]s' AND op='%[2]s') <= 0;
END`, t, op, c05TripTable))
		}
	}
}

// c05Arm arms exactly one trigger (table "" = disarm all)
func (w *c05World) arm(table, op string, n int) error {
	w.rec.mu.Lock()
	off := w.rec.Off
	w.rec.Off = true
	w.rec.mu.Unlock()
	defer func() { w.rec.mu.Lock(); w.rec.Off = off; w.rec.mu.Unlock() }()
	raw := w.db.Session(&gorm.Session{NewDB: true, SkipHooks: true, Context: context.Background()})
	if err := raw.Exec("UPDATE " + c05TripTable + " SET armed = 0, n = 0 WHERE armed <> 0 OR n <> 0").Error; err != nil {
		return err
	}
	if table == "" {
		return nil
	}
	return raw.Exec("UPDATE "+c05TripTable+" SET armed = 1, n = ? WHERE tbl = ? AND op = ?", n, table, op).Error
}

var c05TouchRe = regexp.MustCompile("(?i)^\\s*(INSERT INTO|UPDATE|DELETE FROM)\\s+[`\"]?([A-Za-z0-9_]+)[`\"]?")

// c05Touched: (table, op) pairs written by the statements of a fault-free run, in first-use order, with an
// estimate of the rows written per pair (value tuples of the INSERTs; one per UPDATE / DELETE statement)
func c05Touched(evs []Event) (pairs [][2]string, count map[[2]string]int) {
	count = map[[2]string]int{}
	for _, e := range evs {
		m := c05TouchRe.FindStringSubmatch(e.SQL)
		if m == nil || !(e.Kind == "exec" || e.Kind == "query" || e.Kind == "stmt_exec" || e.Kind == "stmt_query") {
			continue
		}
		op := map[string]string{"INSERT INTO": "insert", "UPDATE": "update", "DELETE FROM": "delete"}[strings.ToUpper(m[1])]
		p := [2]string{m[2], op}
		if count[p] == 0 {
			pairs = append(pairs, p)
		}
		count[p]++
		if op == "insert" {
			count[p] += strings.Count(e.SQL, "),(")
		}
	}
	return
}

// ---- cheap reset of a world ---------------------------------------------------------------------------------------
//
// A run that legitimately changed the database (cancellation that came too late, SkipDefaultTransaction, a stage after
// the statement, a known finding) is undone by copying every table back from a backup taken when the world was built
// (rows and AUTOINCREMENT counters), instead of building a new world.

func (w *c05World) quiet() func() {
	w.rec.mu.Lock()
	off := w.rec.Off
	w.rec.Off = true
	w.rec.mu.Unlock()
	return func() { w.rec.mu.Lock(); w.rec.Off = off; w.rec.mu.Unlock() }
}

func (w *c05World) snapshot() {
	defer w.quiet()()
	raw := w.db.Session(&gorm.Session{NewDB: true, SkipHooks: true, Context: context.Background()})
	for _, t := range append([]string{"sqlite_sequence"}, w.tables...) {
		if err := raw.Exec("CREATE TABLE c05bk_" + t + " AS SELECT * FROM " + t).Error; err != nil {
			panic(fmt.Sprintf("c05 snapshot of %s: %v", t, err))
		}
	}
	w.snap = true
}

func (w *c05World) restore() error {
	if !w.snap {
		return fmt.Errorf("no snapshot")
	}
	defer w.quiet()()
	raw := w.db.Session(&gorm.Session{NewDB: true, SkipHooks: true, Context: context.Background()})
	return raw.Connection(func(tx *gorm.DB) error {
		if err := tx.Exec("UPDATE " + c05TripTable + " SET armed = 0, n = 0 WHERE armed <> 0 OR n <> 0").Error; err != nil {
			return err
		}
		for _, t := range append(append([]string{}, w.tables...), "sqlite_sequence") {
			if err := tx.Exec("DELETE FROM " + t).Error; err != nil {
				return err
			}
			if err := tx.Exec("INSERT INTO " + t + " SELECT * FROM c05bk_" + t).Error; err != nil {
				return err
			}
		}
		return nil
	})
}
