package main

import (
	"fmt"
	"testing"

	"gorm.io/gorm"
)

type scrA struct {
	ID uint
	V  int64 `gorm:"->;default:42"`
	W  int64 `gorm:"<-:update;default:7"`
	X  string `gorm:"->;default:(lower('QW'))"`
	P  string
}
type scrB struct {
	ID   int `gorm:"-"`
	Name string
}
type scrC struct {
	ID   int64 `gorm:"column:parcel_no"`
	Name string `gorm:"<-:false"`
	Z    int   `gorm:"-:migration"`
}
type scrD struct {
	ID  uint `gorm:"->"`
	N   string
	Cnt int64 `gorm:"default:null"`
}

func TestScratch(t *testing.T) {
	for _, ret := range []bool{true, false} {
		db, sq := c03Open(ret, &gorm.Config{})
		a := scrA{P: "p"}
		fmt.Println("A migrate", db.AutoMigrate(&scrA{}))
		fmt.Println("A create", db.Create(&a).Error, a)
		var a2 scrA
		db.First(&a2)
		fmt.Println("A loaded", a2)
		fmt.Println("B migrate", db.AutoMigrate(&scrB{}))
		b := scrB{Name: "n"}
		fmt.Println("B create", db.Create(&b).Error, b)
		fmt.Println("C migrate", db.AutoMigrate(&scrC{}))
		c := []scrC{{Name: "x"}, {Name: "y"}}
		fmt.Println("C create", db.Create(&c).Error, c)
		d := []scrD{{N: "x"}, {N: "y"}}
		fmt.Println("D migrate", db.AutoMigrate(&scrD{}))
		fmt.Println("D create", db.Create(&d).Error, d)
		sq.Close()
	}
}
