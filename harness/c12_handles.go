package main

// C12, association HANDLES as values: the *gorm.Association returned by db.Model(x).Association(f) kept in a variable and used
// for several calls, `Unscoped()` called on it in between (result dropped, kept, used for a read), a second variable holding the
// Unscoped() copy, a handle of another relation of the same record used in between, a handle used after a call that failed.
//
// What the property demands of them: an operation is Unscoped exactly when it is issued through a handle that was OBTAINED from
// Unscoped() ("only links are removed - associated records survive - unless Unscoped is used"); calling Unscoped() on a handle
// does not change what later calls through THAT handle do.  A call that returns an error defines no links: the oracle accepts
// "error and nothing changed" (the handle refuses further work after a failed call: association.Error is sticky) - and nothing else.

import (
	"encoding/json"
	"fmt"
	"math/rand"
	"reflect"
	"strings"

	"gorm.io/gorm"
)

const (
	c12TouchNone  = 0
	c12TouchDrop  = 1 // a.Unscoped()                       result dropped
	c12TouchKeep  = 2 // w := a.Unscoped()                  kept in a variable that is not used for this call
	c12TouchTwice = 3 // a.Unscoped().Unscoped()            dropped
	c12TouchCount = 4 // _ = a.Unscoped().Count()           (runs a query through the *gorm.DB the copy shares with a)
	c12TouchFind  = 5 // a.Unscoped().Find(&tmp)
	c12Touches    = 6
)

const (
	c12OtherNone     = 0
	c12OtherUnscoped = 1 // o := db.Model(x).Association(other) kept; o.Unscoped() dropped
	c12OtherAppend   = 2 // o.Append(&new)
	c12OtherClearU   = 3 // o.Unscoped().Clear(); o is built anew afterwards
	c12Others        = 4
)

type c12Handles struct {
	a, u  *gorm.Association // the kept handle and its kept Unscoped() copy
	spare []*gorm.Association
	other *gorm.Association
}

func c12OtherField(k *c12Kind) string {
	if k.Field == "Parts" {
		return "Items"
	}
	return "Parts"
}

// handle returns the handle the operation goes through, after the side calls the operation asks for.
func (h *c12Handles) handle(db *gorm.DB, model interface{}, k *c12Kind, op c12Op, o *c12Obs) *gorm.Association {
	side := func(what string, f func() error) {
		defer func() {
			if p := recover(); p != nil {
				o.Side += fmt.Sprint(what, ": panic: ", p, "; ")
			}
		}()
		if err := f(); err != nil {
			o.Side += fmt.Sprint(what, ": ", err, "; ")
		}
	}
	if op.Other != c12OtherNone {
		if h.other == nil {
			h.other = db.Model(model).Association(c12OtherField(k))
		}
		switch op.Other {
		case c12OtherUnscoped:
			_ = h.other.Unscoped()
		case c12OtherAppend:
			side("other.Append", func() error {
				if c12OtherField(k) == "Parts" {
					return h.other.Append(&C12Part{Name: "side"})
				}
				return h.other.Append(&C12Item{Name: "side"})
			})
		case c12OtherClearU:
			side("other.Unscoped().Clear", func() error { return h.other.Unscoped().Clear() })
			h.other = nil
		}
	}
	var base *gorm.Association
	if op.Via == 0 {
		base = db.Model(model).Association(k.Field)
	} else {
		if h.a == nil || op.Renew {
			h.a, h.u = db.Model(model).Association(k.Field), nil
		}
		base = h.a
	}
	switch op.Touch {
	case c12TouchDrop:
		_ = base.Unscoped()
	case c12TouchKeep:
		h.spare = append(h.spare, base.Unscoped())
	case c12TouchTwice:
		_ = base.Unscoped().Unscoped()
	case c12TouchCount:
		side("Unscoped().Count", func() error { w := base.Unscoped(); _ = w.Count(); return w.Error })
	case c12TouchFind:
		side("Unscoped().Find", func() error {
			tmp := reflect.New(reflect.SliceOf(c12TargetType(k)))
			return base.Unscoped().Find(tmp.Interface())
		})
	}
	as := base
	switch op.Via {
	case 0:
		if op.Unscoped {
			as = base.Unscoped()
		}
	case 2:
		if h.u == nil {
			h.u = h.a.Unscoped()
		}
		as = h.u
	}
	if op.Bad {
		func() {
			defer func() {
				if p := recover(); p != nil {
					o.BadErr = fmt.Sprint("panic: ", p)
				}
			}()
			if err := as.Append(&C12Sub{Name: "wrong type"}); err != nil {
				o.BadErr = err.Error()
			}
		}()
	}
	return as
}

// ---- the pattern of listed finding F12h over a sequence prefix ---------------------------------------------------------------
//
// A *gorm.DB obtained from db.Model(x) is not a fresh session (clone = 0): Association.Replace / Delete / Count / Find build their
// statements ON association.DB (`association.DB.Model(..)`, `.Where(..)`), so the Model, the WHERE / FROM clauses and the
// ReflectValue of one call are still there when the next call comes through the same handle - or through an Unscoped() copy of it,
// which shares the pointer.  c12Dirt tracks, per kept handle, whether such a call went through it.

type c12Dirt struct {
	kept bool // the *gorm.DB behind the kept handle `a` (and `b := a.Unscoped()`) has been used by a statement-building call
}

// pollutes: does this call leave clauses behind on association.DB?  (has-many / many2many Append only uses a fresh Session)
func c12Pollutes(k *c12Kind, op c12Op) bool {
	return !(op.Op == "append" && !k.Card1)
}

// step returns whether the operation goes through an already used *gorm.DB (the pattern of F12h) and updates the state
func (d *c12Dirt) step(k *c12Kind, op c12Op) (reused bool) {
	read := op.Touch == c12TouchCount || op.Touch == c12TouchFind
	if op.Via == 0 {
		return read
	}
	if op.Renew {
		d.kept = false
	}
	reused = d.kept || read
	if read || c12Pollutes(k, op) {
		d.kept = true
	}
	return reused
}

// c12Sticky mirrors which kept handle STRUCT has failed once (association.Error is set and never reset: every later call through
// that struct returns the same error and does nothing; an Unscoped() copy taken afterwards inherits the error, one taken before does not)
type c12Sticky struct {
	errA, errU, hasU bool
}

// before: may the call be refused because the struct it goes through has already failed?
func (t *c12Sticky) before(op c12Op) bool {
	if op.Via == 0 {
		return false
	}
	if op.Renew {
		*t = c12Sticky{}
	}
	if op.Via == 2 && !t.hasU {
		t.hasU, t.errU = true, t.errA
	}
	return (op.Via == 1 && t.errA) || (op.Via == 2 && t.errU)
}

// after: the deliberately ill-typed Append of this step failed through the struct
func (t *c12Sticky) failed(op c12Op) {
	switch op.Via {
	case 1:
		t.errA = true
	case 2:
		t.errU = true
	}
}

// ---- correspondence: the handle machine of Model/AssocHandle.lean vs the real handles ----------------------------------------------
//
// A sequence with a handle plan is translated into the instruction program its executor performs (c12Handles.handle); the Lean
// machine - with Unscoped() behaving as the REGENERATED facts say - answers, per call, whether it is refused (sticky error), runs
// scoped or runs Unscoped.  The real run shows the same through the error it returns and through the clean-up statement of
// Replace / Delete / Clear on has-one / has-many relations: `DELETE FROM target` (Unscoped) vs `UPDATE target SET fk = NULL`.

func c12HandleProgram(s c12Seq) (prog [][]interface{}, callAt []int) {
	first, hasU := true, false
	for step, op := range s.Ops {
		base := 0
		if op.Via == 0 {
			base = 100 + step
			prog = append(prog, []interface{}{"assoc", base, 1})
		} else if first || op.Renew {
			prog = append(prog, []interface{}{"assoc", 0, 1})
			first, hasU = false, false
		}
		switch op.Touch {
		case c12TouchDrop:
			prog = append(prog, []interface{}{"unscoped", nil, base})
		case c12TouchKeep:
			prog = append(prog, []interface{}{"unscoped", 2, base})
		case c12TouchTwice:
			prog = append(prog, []interface{}{"unscoped", 3, base}, []interface{}{"unscoped", nil, 3})
		case c12TouchCount, c12TouchFind:
			prog = append(prog, []interface{}{"unscoped", 3, base}, []interface{}{"read", 3})
		}
		as := base
		switch {
		case op.Via == 0 && op.Unscoped:
			as = 200 + step
			prog = append(prog, []interface{}{"unscoped", as, base})
		case op.Via == 2:
			if !hasU {
				prog = append(prog, []interface{}{"unscoped", 1, 0})
				hasU = true
			}
			as = 1
		}
		if op.Bad {
			prog = append(prog, []interface{}{"call", as, "append", true})
		}
		prog = append(prog, []interface{}{"call", as, op.Op, false})
		callAt = append(callAt, len(prog)-1)
	}
	return
}

func c12HandleTie(r *Result, seqs []c12Seq) {
	var ops [][]interface{}
	var calls [][]int
	for _, s := range seqs {
		prog, at := c12HandleProgram(s)
		calls = append(calls, at)
		ops = append(ops, []interface{}{"assoc.handles", c12KindByName(s.Kind).Card1, prog})
	}
	outs, err := AskLean(ops)
	if err != nil {
		r.Violate(Violation{Kind: "correspondence", Suite: "handle-programs", Note: err.Error()})
		return
	}
	reals := c12ExecAll(seqs)
	for i, s := range seqs {
		k := c12KindByName(s.Kind)
		var evs [][]string
		if err := json.Unmarshal(outs[i], &evs); err != nil {
			r.Violate(Violation{Kind: "correspondence", Suite: "handle-programs", Input: s, Observed: string(outs[i]), Note: "model rejected the program"})
			continue
		}
		r.Case("handle-programs", canon(s), len(s.Ops) >= 2)
		for step, op := range s.Ops {
			if step >= len(reals[i]) || calls[i][step] >= len(evs) || len(evs[calls[i][step]]) != 1 {
				break
			}
			ev := strings.Split(evs[calls[i][step]][0], ":")
			o := reals[i][step]
			r.H("handle-programs.event", ev[0]+fmt.Sprintf("/via=%d/touch=%d", op.Via, op.Touch))
			if ev[0] == "polluted" {
				break // listed finding F12h: not predicted
			}
			model := ev[0]
			real := "op"
			if o.Err != "" {
				real = "refused"
			}
			if ev[0] == "op" && (op.Op != "append" || k.Card1) {
				del, upd := false, false
				for _, st := range o.Stmts {
					del = del || st == "DELETE "+k.Table
					upd = upd || st == "UPDATE "+k.Table
				}
				if o.Err == "" && (del || upd) { // (a has-one Append that names no record issues no statement at all)
					model += " unscoped=" + ev[3]
					real += fmt.Sprint(" unscoped=", del)
				}
			}
			r.CorrCompared++
			if model != real {
				r.Violate(Violation{Kind: "correspondence", Suite: "handle-programs", Input: s, Observed: map[string]interface{}{"step": step, "real": real, "err": o.Err, "stmts": o.Stmts},
					Expected: map[string]interface{}{"model": model}, Note: "real *gorm.Association handles vs Lean Gorm.Assoc.exec (Unscoped() as the regenerated facts say)"})
				break
			}
		}
	}
}

func init() {
	register("C12", func(r *Result, rng *rand.Rand, tier string) {
		defer c12Timed("handles")()
		n := 500
		if tier == "thorough" {
			n = 12000
		} else if tier == "search" {
			n = 1500
		}
		var kinds []string
		for _, k := range c12Kinds {
			if k.Class == "fk" { // the clean-up statement of these relations shows whether the call ran Unscoped
				kinds = append(kinds, k.Name)
			}
		}
		cfg := c12GenCfg{Kinds: kinds, Unscoped: 0.6, Slice: 0.2, MaxLen: 6, Avoid: 0.9, Handles: 1}
		var batch []c12Seq
		for i := 0; i < n && !expired(); i++ {
			s := c12GenSeq(rng, cfg)
			for j := range s.Ops {
				s.Ops[j].Other = 0 // (the statements of the other relation would blur the statement test)
			}
			batch = append(batch, s)
		}
		c12HandleTie(r, batch)
	})
	replayers["C12/handle-programs"] = func(r *Result, input json.RawMessage) {
		var s c12Seq
		if err := json.Unmarshal(input, &s); err != nil {
			return
		}
		c12E2E(r, s, "e2e-sequences")
	}
}
