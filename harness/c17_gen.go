package main

import (
	"math/rand"
)

// ---- structured histories: dependency webs among up to five fresh names ---------------------------
//
// The plain random generator of c17.go draws every op independently from a small universe (3 fresh
// names); defects that need several callbacks referring to ONE another (two Before(X) requesters, a
// requester placed early through somebody else's After(...), Remove followed by a registration under
// the same name, plain registrations after '*' / after a rejected call) are rare there. This generator
// builds such webs on purpose: forward and backward references among u1..u5, anchors on built-ins,
// occasional '*', Remove + re-Register of the same name, Replace with and without requests.

var c17Pool = []string{"u1", "u2", "u3", "u4", "u5"}

func c17ChainCases(rng *rand.Rand, n int) []c17Case {
	kinds := []string{"create", "query", "delete", "row", "raw", "update"}
	var out []c17Case
	for len(out) < n {
		p := kinds[rng.Intn(len(kinds))]
		bs := c17Builtins[p]
		maxOps := 20 - 2*len(bs) // sort.SliceStable = insertion sort only up to 20 entries (see c17.go)
		if maxOps > 8 {
			maxOps = 8
		}
		if maxOps < 3 {
			continue
		}
		k := 3 + rng.Intn(maxOps-2)
		pool := c17Pool[:3+rng.Intn(3)]
		pickTarget := func(self string) string {
			switch x := rng.Intn(100); {
			case x < 45:
				return ""
			case x < 80:
				t := pool[rng.Intn(len(pool))]
				if t == self && rng.Intn(8) != 0 { // self references (F12) only now and then
					return ""
				}
				return t
			case x < 93:
				return bs[rng.Intn(len(bs))].Name
			case x < 97:
				return "*"
			default:
				return "nope"
			}
		}
		var ops []regOp
		used := []string{}
		for len(ops) < k {
			var name string
			if len(used) > 0 && rng.Intn(6) == 0 {
				name = used[rng.Intn(len(used))] // duplicate registration (F15 territory) now and then
			} else {
				name = pool[rng.Intn(len(pool))]
			}
			switch x := rng.Intn(100); {
			case x < 8 && len(used) > 0:
				// Remove of a used name (or a built-in), often followed later by a fresh registration of it
				t := used[rng.Intn(len(used))]
				if rng.Intn(4) == 0 {
					t = bs[rng.Intn(len(bs))].Name
				}
				ops = append(ops, regOp{Op: "remove", Name: t})
				if rng.Intn(2) == 0 && len(ops) < k {
					ops = append(ops, regOp{Op: "register", Name: t})
				}
				continue
			case x < 16 && len(used) > 0:
				o := regOp{Op: "replace", Name: used[rng.Intn(len(used))]}
				if rng.Intn(3) == 0 {
					o.Before = pickTarget(o.Name)
				}
				ops = append(ops, o)
				continue
			case x < 20:
				ops = append(ops, regOp{Op: "replace", Name: bs[rng.Intn(len(bs))].Name})
				continue
			}
			o := regOp{Op: "register", Name: name}
			switch rng.Intn(5) {
			case 0: // plain
			case 1, 2:
				o.Before = pickTarget(name)
			case 3:
				o.After = pickTarget(name)
			default:
				o.Before, o.After = pickTarget(name), pickTarget(name)
			}
			ops = append(ops, o)
			used = append(used, name)
		}
		for i := range ops {
			ops[i].Hid = 100 + i
		}
		out = append(out, c17Case{Pipeline: p, SkipTx: rng.Intn(5) == 0, Ops: ops})
	}
	return out
}

// ---- per-run probes: the witness of every listed finding (known_findings.d/C17.json) ---------------

type c17Witness struct {
	ID   string
	Case c17Case
}

func c17R(name, before, after string) regOp {
	return regOp{Op: "register", Name: name, Before: before, After: after}
}

func c17Witnesses() []c17Witness {
	w := []c17Witness{
		{"F12-C17-unbounded-recursion", c17Case{Pipeline: "create", Ops: []regOp{c17R("u2", "u2", "")}}},
		{"F13-C17-undetected-conflict", c17Case{Pipeline: "create", Ops: []regOp{c17R("u1", "", "*"), c17R("u2", "gorm:create", "u1")}}},
		{"F14-C17-replace-of-star-callback-ignored", c17Case{Pipeline: "create", Ops: []regOp{c17R("u1", "", "*"), {Op: "replace", Name: "u1"}}}},
		{"F15-C17-duplicate-name-with-constraint", c17Case{Pipeline: "create", Ops: []regOp{c17R("u1", "", "*"), c17R("gorm:create", "", "u1")}}},
		{"F16-C17-before-overwrites-after-request", c17Case{Pipeline: "create", Ops: []regOp{c17R("u2", "u1", ""), c17R("u1", "", "u3"), c17R("u3", "", "")}}},
		{"F17-C17-second-before-overwrites-backlink", c17Case{Pipeline: "create", Ops: []regOp{
			c17R("u1", "", "u3"), c17R("u4", "", ""), c17R("u2", "u5", ""), c17R("u3", "u5", ""), c17R("u5", "u4", "")}}},
		{"F18-C17-star-callback-pulled-forward", c17Case{Pipeline: "create", Ops: []regOp{c17R("u3", "", "*"), c17R("u2", "", "u3"), c17R("u1", "", "")}}},
		{"F19-C17-duplicate-star-records-reshuffled", c17Case{Pipeline: "create", Ops: []regOp{c17R("u1", "*", ""), c17R("u1", "", "*"), {Op: "replace", Name: "gorm:create"}}}},
		{"F20-C17-stale-backlink-after-remove", c17Case{Pipeline: "create", Ops: []regOp{c17R("u2", "u1", ""), c17R("u1", "", ""), {Op: "remove", Name: "u2"}, c17R("u2", "", "*")}}},
		{"F21-C17-builder-value-reused", c17Case{Pipeline: "create", Ops: []regOp{
			{Op: "register", Name: "u1", Before: "gorm:create", Chain: &c17Chain{Start: []string{"before", "gorm:create"}, Steps: [][2]string{}}},
			{Op: "register", Name: "u2", Before: "gorm:create", Chain: &c17Chain{Start: []string{"plain"}, Steps: [][2]string{}, Reuse: true}}}}},
	}
	for i := range w {
		for j := range w[i].Case.Ops {
			w[i].Case.Ops[j].Hid = 100 + j
		}
	}
	return w
}
