package main

import (
	"math/rand"

	"gorm.io/gorm"
)

// ---- family E: unusual-but-legal DECLARATIONS of the key / foreign-key columns ------------------------------------------
//
// Every key and foreign-key column is RENAMED (`column:`) so that no column is the snake-case of its Go field; the owner's key
// and the children's foreign keys live in EMBEDDED structs with an `embeddedPrefix` (column `pk_k_code`, `au_own`); the
// conventional `ID` of the children is renamed too; the polymorphic columns and the many2many join columns carry non-default
// names.  Loading code that uses a field's Go name where the column name is needed (or the reverse), or that rebuilds a
// column name by convention, fails here and nowhere else.  The worlds are generated from the descriptors by the scale
// generator (c11ScaleWorld) with 2-7 parents.

type C11EKey struct {
	Code string `gorm:"primaryKey;column:k_code"`
}

type C11EAudit struct {
	OwnerCode *string `gorm:"column:own"`
}

type C11EGroup struct {
	Tag       string `gorm:"primaryKey;column:group_tag"`
	N         int
	DeletedAt gorm.DeletedAt
}

func (C11EGroup) TableName() string { return "c11e_groups" }

type C11ECard struct {
	ID        uint `gorm:"primaryKey;column:card_no"`
	N         int
	C11EAudit `gorm:"embedded;embeddedPrefix:au_"`
	DeletedAt gorm.DeletedAt
}

func (C11ECard) TableName() string { return "c11e_cards" }

type C11EItem struct {
	ID        uint `gorm:"primaryKey;column:item_no"`
	N         int
	C11EAudit `gorm:"embedded;embeddedPrefix:au_"`
	DeletedAt gorm.DeletedAt
	Owner     *C11EOwner `gorm:"foreignKey:OwnerCode;references:Code"`
}

func (C11EItem) TableName() string { return "c11e_items" }

type C11ETag struct {
	Label     string `gorm:"primaryKey;column:lbl"`
	N         int
	DeletedAt gorm.DeletedAt
}

func (C11ETag) TableName() string { return "c11e_tags" }

type C11ENote struct {
	ID         uint `gorm:"primaryKey;column:note_no"`
	N          int
	HolderID   string `gorm:"column:h_id"`
	HolderType string `gorm:"column:h_kind"`
	DeletedAt  gorm.DeletedAt
}

func (C11ENote) TableName() string { return "c11e_notes" }

type C11EOwner struct {
	C11EKey   `gorm:"embedded;embeddedPrefix:pk_"`
	N         int
	DeletedAt gorm.DeletedAt
	GroupRef  *string      `gorm:"column:grp"`
	Group     *C11EGroup   `gorm:"foreignKey:GroupRef;references:Tag"`
	Card      *C11ECard    `gorm:"foreignKey:OwnerCode;references:Code"`
	Items     []C11EItem   `gorm:"foreignKey:OwnerCode;references:Code"`
	Tags      []C11ETag    `gorm:"many2many:c11e_owner_tags;foreignKey:Code;joinForeignKey:OwnerK;references:Label;joinReferences:TagL"`
	Notes     []C11ENote   `gorm:"polymorphic:Holder;polymorphicValue:eown"`
	Memo      *C11ENote    `gorm:"polymorphic:Holder;polymorphicValue:ememo"`
	BossRef   *string      `gorm:"column:reports_to"`
	Boss      *C11EOwner   `gorm:"foreignKey:BossRef;references:Code"`
	Staff     []*C11EOwner `gorm:"foreignKey:BossRef;references:Code"`
}

func (C11EOwner) TableName() string { return "c11e_owners" }

func init() {
	eOwnerRels := []c11RelD{
		{Field: "Group", Kind: "belongs_to", Child: "c11e_groups", Single: true, On: c11Pairs("grp", "group_tag")},
		{Field: "Card", Kind: "has_one", Child: "c11e_cards", Single: true, On: c11Pairs("pk_k_code", "au_own")},
		{Field: "Items", Kind: "has_many", Child: "c11e_items", On: c11Pairs("pk_k_code", "au_own")},
		{Field: "Tags", Kind: "many2many", Child: "c11e_tags", Via: "c11e_owner_tags", ViaP: c11Pairs("pk_k_code", "owner_k"), ViaC: c11Pairs("tag_l", "lbl")},
		{Field: "Notes", Kind: "poly_many", Child: "c11e_notes", On: c11Pairs("pk_k_code", "h_id"), Const: c11Pairs("h_kind", "eown")},
		{Field: "Memo", Kind: "poly_one", Child: "c11e_notes", Single: true, On: c11Pairs("pk_k_code", "h_id"), Const: c11Pairs("h_kind", "ememo")},
		{Field: "Boss", Kind: "self_belongs_to", Child: "c11e_owners", Single: true, On: c11Pairs("reports_to", "pk_k_code")},
		{Field: "Staff", Kind: "self_has_many", Child: "c11e_owners", On: c11Pairs("pk_k_code", "reports_to")},
	}
	famE := &c11Family{Name: "E", Tables: []*c11Table{
		{Name: "c11e_owners", Model: &C11EOwner{}, Cols: []c11ColT{{"pk_k_code", "str", false}, {"grp", "str", true}, {"reports_to", "str", true}}, Rels: eOwnerRels},
		{Name: "c11e_groups", Model: &C11EGroup{}, Cols: []c11ColT{{"group_tag", "str", false}}},
		{Name: "c11e_cards", Model: &C11ECard{}, Cols: []c11ColT{{"au_own", "str", true}}},
		{Name: "c11e_items", Model: &C11EItem{}, Cols: []c11ColT{{"au_own", "str", true}},
			Rels: []c11RelD{{Field: "Owner", Kind: "belongs_to", Child: "c11e_owners", Single: true, On: c11Pairs("au_own", "pk_k_code")}}},
		{Name: "c11e_tags", Model: &C11ETag{}, Cols: []c11ColT{{"lbl", "str", false}}},
		{Name: "c11e_notes", Model: &C11ENote{}, Cols: []c11ColT{{"h_id", "str", false}, {"h_kind", "str", false}}},
		{Name: "c11e_owner_tags", Cols: []c11ColT{{"owner_k", "str", false}, {"tag_l", "str", false}}},
	}}
	famE.Gen = func(rng *rand.Rand, mode int) c11World {
		w := c11ScaleWorld(famE, 2+rng.Intn(6), rng.Int63n(1<<40), nil)
		w.idx = nil
		return w
	}
	c11Families["E"] = famE
}
