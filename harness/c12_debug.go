package main

import (
	"encoding/json"
	"fmt"
	"os"

	"gorm.io/gorm"
)

// debugging aid: VERIF_C12_TRACE=1 prints every statement and observation of a replayed sequence
func c12Trace(s c12Seq) {
	if os.Getenv("VERIF_C12_CK") != "" {
		c12CKProbe()
	}
	if os.Getenv("VERIF_C12_TRACE") == "" {
		return
	}
	k := c12KindByName(s.Kind)
	_ = k
	obs := c12ExecTrace(s, func(step int, evs []Event) {
		for _, e := range evs {
			if e.Kind == "exec" || e.Kind == "query" {
				fmt.Printf("  step %d: %s %v\n", step, e.SQL, e.Args)
			}
		}
	})
	for i, o := range obs {
		b, _ := json.Marshal(o)
		fmt.Printf("obs %d: %s\n", i, b)
	}
}

var _ = gorm.ErrRecordNotFound
