package main

import (
	"encoding/json"
	"fmt"
	"os"
	"time"

	"gorm.io/gorm"
)

// debugging aid: VERIF_C12_TRACE=1 prints every statement and observation of a replayed sequence
func c12Trace(s c12Seq) {
	if os.Getenv("VERIF_C12_CK") != "" {
		c12CKProbe()
	}
	if os.Getenv("VERIF_C12_TRACE") == "" {
		return
	}
	k := c12KindByName(s.Kind)
	_ = k
	obs := c12ExecTrace(s, func(step int, evs []Event) {
		for _, e := range evs {
			if e.Kind == "exec" || e.Kind == "query" {
				fmt.Printf("  step %d: %s %v\n", step, e.SQL, e.Args)
			}
		}
	})
	for i, o := range obs {
		b, _ := json.Marshal(o)
		fmt.Printf("obs %d: %s\n", i, b)
	}
}

var _ = gorm.ErrRecordNotFound

// VERIF_C12_TIME=1 prints the wall time of each suite group to stderr
func c12Timed(name string) func() {
	t0 := time.Now()
	return func() {
		if os.Getenv("VERIF_C12_TIME") != "" {
			fmt.Fprintf(os.Stderr, "c12 timing: %s %.1fs\n", name, time.Since(t0).Seconds())
		}
	}
}
