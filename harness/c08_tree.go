package main

// C08 (round 3) — suite `tree`: Unscoped × Joins × nested Preload, every loading path at every depth.
//
// A generated LOAD SPEC = root model (SParent | SOrder) × a set of joined relations (Joins / InnerJoins, one or two levels:
// Pet; SParent; SParent.Pet) × a set of preloads at depth 1..3, hanging below plain AND below joined relations
// (Kids, Kids.Toys, Pet, Pet.Tags, Langs; SParent, SParent.Kids, SParent.Kids.Toys, SParent.Pet, SParent.Pet.Tags,
// SParent.Langs; or clause.Associations) × Unscoped on/off × finisher (Find slice / First / Take / Last / FindInBatches).
// Every relation of the zoo is soft-deletable and about a third of all rows are marked.  ORACLE (the property, literally):
// without Unscoped every loaded collection / pointer shows exactly the live rows ("as if the marked rows did not exist");
// "with Unscoped the marked rows are visible again" — on EVERY loading path of the spec, whatever its depth and whether
// it hangs below a joined relation.

import (
	"encoding/json"
	"fmt"
	"math/rand"
	"sort"
	"strings"

	"gorm.io/gorm"
	"gorm.io/gorm/clause"
)

// STag hangs below the has-one SPet: a third level reachable through a joined relation
type STag struct {
	ID        uint `gorm:"primaryKey"`
	SPetID    uint
	DeletedAt gorm.DeletedAt
}

type c08TreeSpec struct {
	Seed     int64    `json:"seed"`
	Root     string   `json:"root"`
	Joins    []string `json:"joins"`
	Inner    bool     `json:"inner_joins"`
	Preloads []string `json:"preloads"`
	Unscoped bool     `json:"unscoped"`
	Fin      string   `json:"finisher"`
}

func c08SeedTags(db *gorm.DB, rng *rand.Rand, w *c08World) (tags map[uint][]uint, dead map[uint]bool) {
	if err := db.AutoMigrate(&STag{}); err != nil {
		panic(err)
	}
	tags, dead = map[uint][]uint{}, map[uint]bool{}
	id := uint(1)
	var pets []uint
	for _, p := range w.Pet {
		pets = append(pets, p)
	}
	sort.Slice(pets, func(i, j int) bool { return pets[i] < pets[j] })
	for _, pet := range pets {
		for i, n := 0, 1+rng.Intn(3); i < n; i++ {
			t := STag{ID: id, SPetID: pet}
			if rng.Intn(3) == 0 {
				t.DeletedAt = gorm.DeletedAt{Time: fixedNow.Add(-7200e9), Valid: true}
			}
			db.Create(&t)
			tags[pet] = append(tags[pet], id)
			dead[id] = t.DeletedAt.Valid
			id++
		}
	}
	return
}

func c08GenTreeSpec(rng *rand.Rand, seed int64) c08TreeSpec {
	s := c08TreeSpec{Seed: seed, Unscoped: rng.Intn(2) == 0, Inner: rng.Intn(4) == 0}
	s.Fin = []string{"find", "find", "first", "take", "last", "batches"}[rng.Intn(6)]
	pick := func(all []string, p int) []string {
		var out []string
		for _, x := range all {
			if rng.Intn(p) == 0 {
				out = append(out, x)
			}
		}
		return out
	}
	if rng.Intn(2) == 0 {
		s.Root = "parent"
		if rng.Intn(3) > 0 {
			s.Joins = []string{"Pet"}
		}
		s.Preloads = pick([]string{"Kids", "Kids.Toys", "Pet", "Pet.Tags", "Langs"}, 2)
		if len(s.Joins) > 0 && rng.Intn(2) == 0 && !c08ContainsStr(s.Preloads, "Pet.Tags") {
			s.Preloads = append(s.Preloads, "Pet.Tags") // a preload BELOW the joined relation
		}
	} else {
		s.Root = "order"
		switch rng.Intn(4) {
		case 0:
		case 1, 2:
			s.Joins = []string{"SParent"}
		default:
			s.Joins = []string{"SParent", "SParent.Pet"}
		}
		s.Preloads = pick([]string{"SParent", "SParent.Kids", "SParent.Kids.Toys", "SParent.Pet", "SParent.Pet.Tags", "SParent.Langs"}, 2)
		if len(s.Joins) > 0 && len(s.Preloads) == 0 {
			s.Preloads = []string{[]string{"SParent.Kids", "SParent.Kids.Toys", "SParent.Pet.Tags", "SParent.Langs"}[rng.Intn(4)]}
		}
	}
	if rng.Intn(10) == 0 {
		s.Preloads = []string{clause.Associations}
	}
	return s
}

func c08ContainsStr(a []string, s string) bool {
	for _, x := range a {
		if x == s {
			return true
		}
	}
	return false
}

// what the spec asks to be loaded below a parent, with `prefix` = "" (root parent) or "SParent."
type c08Want struct{ kids, toys, pet, tags, langs bool }

func c08WantOf(s c08TreeSpec, prefix string) c08Want {
	has := func(name string) bool {
		for _, p := range s.Preloads {
			if p == prefix+name || strings.HasPrefix(p, prefix+name+".") {
				return true
			}
		}
		return false
	}
	w := c08Want{kids: has("Kids"), toys: c08ContainsStr(s.Preloads, prefix+"Kids.Toys"), pet: has("Pet") || c08ContainsStr(s.Joins, prefix+"Pet"),
		tags: c08ContainsStr(s.Preloads, prefix+"Pet.Tags"), langs: has("Langs")}
	if c08ContainsStr(s.Preloads, clause.Associations) && prefix == "" {
		// clause.Associations preloads every direct relation of the root
		w.kids, w.pet, w.langs = true, true, true
	}
	return w
}

func c08Tree(r *Result, seed int64) {
	rng := rand.New(rand.NewSource(seed))
	db, _, sqlDB := OpenRec(&gorm.Config{NowFunc: fixedNowFunc})
	defer sqlDB.Close()
	w := c08Seed(db, rng)
	tags, deadTags := c08SeedTags(db, rng, w)
	for n := 0; n < 6; n++ {
		s := c08GenTreeSpec(rng, seed)
		c08TreeOne(r, db, w, tags, deadTags, s, n)
	}
}

func c08TreeOne(r *Result, db *gorm.DB, w *c08World, tags map[uint][]uint, deadTags map[uint]bool, s c08TreeSpec, n int) {
	un := s.Unscoped
	type specN struct {
		c08TreeSpec
		N int `json:"spec_no"`
	}
	bad := func(what string, obs, exp interface{}) {
		r.Violate(Violation{Kind: "e2e", Suite: "tree", Input: specN{s, n}, Observed: obs, Expected: exp, Note: what})
	}
	q := db.Session(&gorm.Session{})
	if un {
		q = q.Unscoped()
	}
	for _, j := range s.Joins {
		if s.Inner {
			q = q.InnerJoins(j)
		} else {
			q = q.Joins(j)
		}
	}
	for _, p := range s.Preloads {
		q = q.Preload(p)
	}
	r.Case("tree", fmt.Sprint(s.Root, s.Joins, s.Inner, s.Preloads, s.Unscoped, s.Fin), len(s.Joins) > 0 && len(s.Preloads) > 0)
	r.H("tree.shape", fmt.Sprintf("root=%s joins=%d preloads=%d unscoped=%v", s.Root, len(s.Joins), len(s.Preloads), un))
	r.H("tree.finisher", s.Fin)
	for _, p := range s.Preloads {
		below := false
		for _, j := range s.Joins {
			if strings.HasPrefix(p, j+".") {
				below = true
			}
		}
		r.H("tree.preload", fmt.Sprintf("%s below-join=%v", p, below))
	}
	live := func(ids []uint, dead map[uint]bool) []uint { return uintsLive(ids, dead, un) }
	checkParent := func(p *SParent, want c08Want, where string) {
		if want.kids {
			got := []uint{}
			for _, k := range p.Kids {
				got = append(got, k.ID)
				if want.toys {
					ts := []uint{}
					for _, t := range k.Toys {
						ts = append(ts, t.ID)
					}
					sort.Slice(ts, func(i, j int) bool { return ts[i] < ts[j] })
					if exp := live(w.Toys[k.ID], w.DeadToys); !sameUints(ts, exp) {
						bad(fmt.Sprintf("%s: toys of kid %d", where, k.ID), ts, exp)
					}
				}
			}
			sort.Slice(got, func(i, j int) bool { return got[i] < got[j] })
			if exp := live(w.Kids[p.ID], w.DeadKids); !sameUints(got, exp) {
				bad(fmt.Sprintf("%s: kids of parent %d", where, p.ID), got, exp)
			}
		}
		if want.langs {
			got := []uint{}
			for _, l := range p.Langs {
				got = append(got, l.ID)
			}
			sort.Slice(got, func(i, j int) bool { return got[i] < got[j] })
			if exp := live(w.Langs[p.ID], w.DeadLangs); !sameUints(got, exp) {
				bad(fmt.Sprintf("%s: langs of parent %d", where, p.ID), got, exp)
			}
		}
		if want.pet {
			petID, hasPet := w.Pet[p.ID]
			expPet := hasPet && (un || !w.DeadPets[petID])
			gotPet := p.Pet != nil && p.Pet.ID != 0
			if gotPet != expPet {
				bad(fmt.Sprintf("%s: pet of parent %d loaded", where, p.ID), gotPet, expPet)
			} else if gotPet && want.tags {
				got := []uint{}
				for _, t := range p.Pet.Tags {
					got = append(got, t.ID)
				}
				sort.Slice(got, func(i, j int) bool { return got[i] < got[j] })
				if exp := live(tags[petID], deadTags); !sameUints(got, exp) {
					bad(fmt.Sprintf("%s: tags of pet %d (below %s)", where, petID, strings.Join(s.Joins, ",")), got, exp)
				}
			}
		}
	}
	switch s.Root {
	case "parent":
		q = q.Order("`s_parents`.`id`")
		var ps []SParent
		var err error
		switch s.Fin {
		case "find":
			err = q.Find(&ps).Error
		case "batches":
			var batch []SParent
			err = q.FindInBatches(&batch, 2, func(tx *gorm.DB, _ int) error {
				ps = append(ps, batch...)
				return nil
			}).Error
		default:
			var one SParent
			switch s.Fin {
			case "first":
				err = q.First(&one).Error
			case "take":
				err = q.Take(&one).Error
			default:
				err = q.Last(&one).Error
			}
			if err == nil {
				ps = []SParent{one}
			} else if err == gorm.ErrRecordNotFound {
				err = nil
			}
		}
		if err != nil {
			r.H("tree.error", trunc(err.Error(), 50))
			return
		}
		want := c08WantOf(s, "")
		exp := []uint{}
		for _, id := range live(w.Parents, w.DeadParents) {
			if s.Inner && c08ContainsStr(s.Joins, "Pet") {
				if pid, ok := w.Pet[id]; !ok || (!un && w.DeadPets[pid]) {
					continue
				}
			}
			exp = append(exp, id)
		}
		got := []uint{}
		for i := range ps {
			got = append(got, ps[i].ID)
			checkParent(&ps[i], want, "root parent")
		}
		if s.Fin == "find" || s.Fin == "batches" {
			if !sameUints(got, exp) {
				bad("root rows", got, exp)
			}
		} else if len(got) == 1 && !c08ContainsUint(exp, got[0]) || len(got) == 0 && len(exp) > 0 {
			bad("root row", got, exp)
		}
	case "order":
		q = q.Order("`s_orders`.`id`")
		var os []SOrder
		var err error
		switch s.Fin {
		case "find":
			err = q.Find(&os).Error
		case "batches":
			var batch []SOrder
			err = q.FindInBatches(&batch, 2, func(tx *gorm.DB, _ int) error {
				os = append(os, batch...)
				return nil
			}).Error
		default:
			var one SOrder
			switch s.Fin {
			case "first":
				err = q.First(&one).Error
			case "take":
				err = q.Take(&one).Error
			default:
				err = q.Last(&one).Error
			}
			if err == nil {
				os = []SOrder{one}
			} else if err == gorm.ErrRecordNotFound {
				err = nil
			}
		}
		if err != nil {
			r.H("tree.error", trunc(err.Error(), 50))
			return
		}
		want := c08WantOf(s, "SParent.")
		parentAsked := c08ContainsStr(s.Joins, "SParent")
		for _, p := range s.Preloads {
			if p == "SParent" || strings.HasPrefix(p, "SParent.") || p == clause.Associations {
				parentAsked = true
			}
		}
		for i := range os {
			o := &os[i]
			pid := w.Orders[o.ID]
			if !parentAsked {
				continue
			}
			expP := un || !w.DeadParents[pid]
			if s.Inner && c08ContainsStr(s.Joins, "SParent") && !expP {
				bad(fmt.Sprintf("order %d returned by an inner join on its soft-deleted parent", o.ID), o.ID, "not returned")
				continue
			}
			gotP := o.SParent != nil && o.SParent.ID != 0
			if gotP != expP {
				bad(fmt.Sprintf("parent of order %d loaded", o.ID), gotP, expP)
				continue
			}
			if gotP {
				checkParent(o.SParent, want, fmt.Sprintf("parent of order %d", o.ID))
			}
		}
	}
}

func c08ContainsUint(a []uint, x uint) bool {
	for _, y := range a {
		if y == x {
			return true
		}
	}
	return false
}

func init() {
	register("C08", func(r *Result, rng *rand.Rand, tier string) {
		n := map[string]int{"quick": 70, "thorough": 1200, "search": 500}[tier]
		for i := 0; i < n && !expired(); i++ {
			c08Tree(r, rng.Int63())
		}
	})
	replayers["C08/tree"] = func(r *Result, input json.RawMessage) {
		var c struct {
			Seed int64 `json:"seed"`
		}
		if json.Unmarshal(input, &c) == nil {
			c08Tree(r, c.Seed)
		}
	}
}
