package main

// C07 e2e, family "zoo": ONE model that carries every FIELD KIND gorm's scan / value machinery distinguishes, used by G
// goroutines through one shared handle from a COLD schema cache (= cold per-field serializer pools):
//
//   serializer fields    json (struct, slice, map), gob, unixtime — registered by-value serializers
//   self-serializing     types that are their own schema.SerializerInterface with a POINTER-receiver Scan
//                        (string kind, struct kind, inside an embedded struct, behind a pointer field)
//   Scanner / Valuer     slice kind and struct kind, value and pointer fields, sql.Null*
//   pointer fields       *string *int64 *bool *time.Time (NULL and non-NULL rows)
//   embedded structs     anonymous, named with prefix, embedded POINTER struct with prefix
//   soft delete, []byte, time.Time
//
// Every row's values are a function of its id, so a value loaded into the wrong destination (holder shared between two
// in-flight scans, holder returned to the pool too early, serializer object shared by several holders) is visible as a
// difference to the serial run of the same programs even when the race detector stays silent.
//
// Forced overlap: the harness-defined Scan / Value methods (ordinary user code that gorm calls) pass through c07ZooGate:
// the first `need` callers wait for each other (bounded: 20 ms), i.e. several goroutines are inside Scan at the same
// time while the pools are still empty.  Nil gate (serial reference run) = no waiting.

import (
	"context"
	"database/sql"
	"database/sql/driver"
	"errors"
	"fmt"
	"reflect"
	"sort"
	"strconv"
	"strings"
	"sync"
	"sync/atomic"
	"time"

	"gorm.io/gorm"
	"gorm.io/gorm/schema"
)

// ---------- gate ----------

type c07Gate struct {
	need    int32
	arrived int32
	all     chan struct{}
	once    sync.Once
}

var c07ZooGate atomic.Pointer[c07Gate]

func c07NewGate(need int) *c07Gate { return &c07Gate{need: int32(need), all: make(chan struct{})} }

func c07GateWait() {
	g := c07ZooGate.Load()
	if g == nil {
		return
	}
	n := atomic.AddInt32(&g.arrived, 1)
	if n > g.need {
		return
	}
	if n == g.need {
		g.once.Do(func() { close(g.all) })
		return
	}
	select {
	case <-g.all:
	case <-time.After(20 * time.Millisecond):
		g.once.Do(func() { close(g.all) })
	}
}

// ---------- field types ----------

// C07ZSecret: string kind, its own serializer, pointer-receiver Scan (decodes into the receiver)
type C07ZSecret string

func c07DBString(v interface{}) (string, bool, error) {
	switch x := v.(type) {
	case nil:
		return "", true, nil
	case []byte:
		return string(x), false, nil
	case string:
		return x, false, nil
	default:
		return "", false, fmt.Errorf("c07: unsupported db value %T", v)
	}
}

func (s *C07ZSecret) Scan(ctx context.Context, field *schema.Field, dst reflect.Value, dbValue interface{}) error {
	str, _, err := c07DBString(dbValue)
	if err != nil {
		return err
	}
	*s = C07ZSecret(str) // first write into the receiver …
	c07GateWait()
	*s = C07ZSecret(strings.TrimPrefix(str, "enc:")) // … second write after other goroutines had their turn
	return nil
}

func (s C07ZSecret) Value(ctx context.Context, field *schema.Field, dst reflect.Value, fieldValue interface{}) (interface{}, error) {
	c07GateWait()
	return "enc:" + string(s), nil
}

// C07ZPtrSecret: used behind a POINTER field; Scan and Value both have pointer receivers (a NULL column / nil pointer is legal)
type C07ZPtrSecret string

func (s *C07ZPtrSecret) Scan(ctx context.Context, field *schema.Field, dst reflect.Value, dbValue interface{}) error {
	str, _, err := c07DBString(dbValue)
	if err != nil {
		return err
	}
	*s = C07ZPtrSecret(str)
	c07GateWait()
	*s = C07ZPtrSecret(strings.TrimPrefix(str, "penc:"))
	return nil
}

func (s *C07ZPtrSecret) Value(ctx context.Context, field *schema.Field, dst reflect.Value, fieldValue interface{}) (interface{}, error) {
	if s == nil {
		return nil, nil
	}
	return "penc:" + string(*s), nil
}

// C07ZPair: struct kind, its own serializer; Scan fills the two halves around the gate
type C07ZPair struct {
	A string
	B string
}

func (p *C07ZPair) Scan(ctx context.Context, field *schema.Field, dst reflect.Value, dbValue interface{}) error {
	str, null, err := c07DBString(dbValue)
	if err != nil {
		return err
	}
	if null {
		*p = C07ZPair{}
		return nil
	}
	a, b, _ := strings.Cut(str, "|")
	p.A = a
	c07GateWait()
	p.B = b
	return nil
}

func (p C07ZPair) Value(ctx context.Context, field *schema.Field, dst reflect.Value, fieldValue interface{}) (interface{}, error) {
	return p.A + "|" + p.B, nil
}

// C07ZCSV: slice kind, sql.Scanner (pointer receiver) + driver.Valuer
type C07ZCSV []string

func (c *C07ZCSV) Scan(v interface{}) error {
	str, null, err := c07DBString(v)
	if err != nil {
		return err
	}
	if null {
		*c = nil
		return nil
	}
	if str == "" {
		*c = C07ZCSV{}
		return nil
	}
	*c = strings.Split(str, ",")
	return nil
}

func (c C07ZCSV) Value() (driver.Value, error) {
	if c == nil {
		return nil, nil
	}
	return strings.Join(c, ","), nil
}

func (C07ZCSV) GormDataType() string { return "text" }

// C07ZMoney: struct kind, sql.Scanner + driver.Valuer
type C07ZMoney struct {
	Units int64
	Cur   string
}

func (m *C07ZMoney) Scan(v interface{}) error {
	str, null, err := c07DBString(v)
	if err != nil {
		return err
	}
	if null {
		*m = C07ZMoney{}
		return nil
	}
	u, cur, _ := strings.Cut(str, " ")
	n, _ := strconv.ParseInt(u, 10, 64)
	m.Units = n
	c07GateWait()
	m.Cur = cur
	return nil
}

func (m C07ZMoney) Value() (driver.Value, error) { return fmt.Sprintf("%d %s", m.Units, m.Cur), nil }

func (C07ZMoney) GormDataType() string { return "text" }

type C07ZDoc struct {
	K string
	N int
	L []string
}

type C07ZBase struct {
	CreatedAt time.Time
	UpdatedAt time.Time
}

type C07ZAddr struct {
	Street string
	Zip    *string
	Tag    C07ZSecret // a self-serializing field inside an embedded struct
}

type C07ZMeta struct {
	Rev  int
	Note *string
}

type C07Zoo struct {
	ID    uint `gorm:"primaryKey"`
	Owner string
	C07ZBase
	JS      C07ZDoc        `gorm:"serializer:json"`
	JL      []string       `gorm:"serializer:json"`
	JM      map[string]int `gorm:"serializer:json"`
	GB      C07ZDoc        `gorm:"serializer:gob"`
	UT      int64          `gorm:"serializer:unixtime;type:datetime"`
	Secret  C07ZSecret
	Pair    C07ZPair
	PSecret *C07ZPtrSecret
	CSV     C07ZCSV
	Money   C07ZMoney
	PMoney  *C07ZMoney
	PStr    *string
	PInt    *int64
	PBool   *bool
	PTime   *time.Time
	NS      sql.NullString
	NI      sql.NullInt64
	Bytes   []byte
	T       time.Time
	Addr    C07ZAddr  `gorm:"embedded;embeddedPrefix:addr_"`
	Meta    *C07ZMeta `gorm:"embedded;embeddedPrefix:meta_"`
	Deleted gorm.DeletedAt
}

func (C07Zoo) TableName() string { return "c07_zoos" }

// C07ZooLite: a second destination type for the same table (Scan / Find into a smaller struct: fields matched by name)
type C07ZooLite struct {
	ID     uint
	Owner  string
	Secret C07ZSecret
	Pair   C07ZPair
	Money  C07ZMoney
	PStr   *string
}

// c07ZooRow: every value is a function of (id, rev); kind = id % 4 selects NULL-heavy / empty / boundary / full rows
func c07ZooRow(id uint, rev int) C07Zoo {
	tag := fmt.Sprintf("%d.%d", id, rev)
	z := C07Zoo{ID: id, Owner: "own" + tag, T: time.Unix(1700000000+int64(id), 0).UTC()}
	switch id % 4 {
	case 0: // everything NULL / zero that may be
		z.JL, z.JM, z.CSV = nil, nil, nil
		z.Pair = C07ZPair{A: "a" + tag, B: ""}
	case 1: // empty-but-present
		e, zero, f := "", int64(0), false
		z.JL, z.JM, z.CSV = []string{}, map[string]int{}, C07ZCSV{}
		z.PStr, z.PInt, z.PBool = &e, &zero, &f
		z.Secret, z.Pair = "", C07ZPair{A: "", B: "b" + tag}
		z.NS = sql.NullString{Valid: true}
		z.Bytes = []byte{}
		z.Meta = &C07ZMeta{Rev: rev}
		ps := C07ZPtrSecret("")
		z.PSecret = &ps
	default: // full
		s, n, b := "ps"+tag, int64(id)*7+int64(rev), id%2 == 0
		t := time.Unix(1600000000+int64(id)*3, 0).UTC()
		zip, note := "zip"+tag, "note"+tag
		ps := C07ZPtrSecret("psec" + tag)
		z.JS = C07ZDoc{K: "js" + tag, N: int(id) + rev, L: []string{"x" + tag, "y"}}
		z.JL = []string{"jl" + tag, "q"}
		z.JM = map[string]int{"k" + tag: int(id), "z": rev}
		z.GB = C07ZDoc{K: "gb" + tag, N: -int(id), L: []string{"g" + tag}}
		z.UT = 1500000000 + int64(id)
		z.Secret, z.Pair, z.PSecret = C07ZSecret("sec"+tag), C07ZPair{A: "pa" + tag, B: "pb" + tag}, &ps
		z.CSV = C07ZCSV{"c" + tag, "d", "e" + tag}
		z.Money, z.PMoney = C07ZMoney{Units: int64(id) * 100, Cur: "EUR" + tag}, &C07ZMoney{Units: -int64(id), Cur: "USD" + tag}
		z.PStr, z.PInt, z.PBool, z.PTime = &s, &n, &b, &t
		z.NS, z.NI = sql.NullString{String: "ns" + tag, Valid: true}, sql.NullInt64{Int64: int64(id) << 20, Valid: true}
		z.Bytes = []byte("by" + tag)
		z.Addr = C07ZAddr{Street: "st" + tag, Zip: &zip, Tag: C07ZSecret("tag" + tag)}
		z.Meta = &C07ZMeta{Rev: rev, Note: &note}
	}
	return z
}

func c07P(v interface{}) string {
	rv := reflect.ValueOf(v)
	if rv.Kind() == reflect.Ptr {
		if rv.IsNil() {
			return "nil"
		}
		return fmt.Sprintf("&%v", rv.Elem().Interface())
	}
	return fmt.Sprint(v)
}

func c07ShowZoo(z *C07Zoo) string {
	var jm []string
	for k, v := range z.JM {
		jm = append(jm, fmt.Sprintf("%s=%d", k, v))
	}
	sort.Strings(jm)
	pt := "nil"
	if z.PTime != nil {
		pt = fmt.Sprint(z.PTime.UTC().Unix())
	}
	meta := "nil"
	if z.Meta != nil {
		meta = fmt.Sprintf("{%d %s}", z.Meta.Rev, c07P(z.Meta.Note))
	}
	return fmt.Sprintf("Z%d/%s c=%d u=%d js=%v jl=%v/%v jm=%v/%v gb=%v ut=%d sec=%q pair=%q|%q psec=%s csv=%v/%v money=%v pmoney=%s pstr=%s pint=%s pbool=%s ptime=%s ns=%v ni=%v by=%q/%v t=%d addr={%s %s %q} meta=%s del=%v",
		z.ID, z.Owner, z.CreatedAt.UTC().Unix(), z.UpdatedAt.UTC().Unix(), z.JS, z.JL, z.JL == nil, jm, z.JM == nil, z.GB, z.UT, string(z.Secret), z.Pair.A, z.Pair.B,
		c07P(z.PSecret), []string(z.CSV), z.CSV == nil, z.Money, c07P(z.PMoney), c07P(z.PStr), c07P(z.PInt), c07P(z.PBool), pt, z.NS, z.NI,
		string(z.Bytes), z.Bytes == nil, z.T.UTC().Unix(), z.Addr.Street, c07P(z.Addr.Zip), string(z.Addr.Tag), meta, z.Deleted.Valid)
}

func c07ShowZoos(zs []C07Zoo) string {
	var out []string
	for i := range zs {
		out = append(out, c07ShowZoo(&zs[i]))
	}
	return strings.Join(out, " | ")
}

func c07ShowLite(l *C07ZooLite) string {
	return fmt.Sprintf("L%d/%s sec=%q pair=%q|%q money=%v pstr=%s", l.ID, l.Owner, string(l.Secret), l.Pair.A, l.Pair.B, l.Money, c07P(l.PStr))
}

func c07ShowMap(m map[string]interface{}) string {
	var ks []string
	for k := range m {
		ks = append(ks, k)
	}
	sort.Strings(ks)
	s := ""
	for _, k := range ks {
		v := m[k]
		if b, ok := v.([]byte); ok {
			v = string(b)
		}
		if t, ok := v.(time.Time); ok {
			v = t.UTC().Unix()
		}
		s += fmt.Sprintf("%s=%v;", k, v)
	}
	return s
}

// ---------- operations ----------

// c07ZooSeedRows: rows every goroutine block starts with (written through the SETUP handle before the shared handle exists)
const c07ZooSeedRows = 5

func c07ZooSeed(setup *gorm.DB, g int) {
	base := uint(g+1) * 10000
	for i := uint(1); i <= c07ZooSeedRows; i++ {
		z := c07ZooRow(base+i, 0)
		if err := setup.Create(&z).Error; err != nil {
			panic("c07 zoo seed: " + err.Error())
		}
	}
}

// opZoo: one operation of the zoo family.  Read-only operations when the program runs on several connections
// (w.ro); reads and writes on own rows otherwise.
func (w *c07RaceWorker) opZoo(h *gorm.DB) string {
	lo, hi := w.base, w.base+9999
	if len(w.zs) == 0 {
		for i := uint(1); i <= c07ZooSeedRows; i++ {
			w.zs = append(w.zs, w.base+i)
		}
		w.n = c07ZooSeedRows
	}
	pick := func() uint { return w.zs[w.rng.Intn(len(w.zs))] }
	between := func(tx *gorm.DB) *gorm.DB { return tx.Where("id BETWEEN ? AND ?", lo, hi) }
	nRead := 16
	k := w.rng.Intn(nRead + 14)
	if w.ro {
		k = w.rng.Intn(nRead + 3)
		if k >= nRead { // read-only program: the table never changes, so finishers called DIRECTLY on the shared handle are deterministic
			k = 30
		}
	}
	if w.first { // the very first operation of every goroutine loads rows: all pools are empty, every holder comes from New
		k, w.first = []int{0, 1, 3, 5, 6}[w.g%5], false
	}
	if w.nohold && (k == 27 || k == 29) { // environment rule (c07_derive.go): no connection kept over several statements
		k = 16
	}
	if w.inTx && k == 29 {
		// DB.Connection inside a transaction asks the pool for ANOTHER connection (gorm finds the *sql.DB behind the *sql.Tx):
		// on a pool of one that is the application's own deadlock, not a concurrency matter
		k = 10
	}
	if w.only != "" { // focused probe: only these operation indexes
		var ks []int
		for _, f := range strings.Split(w.only, ",") {
			if n, err := strconv.Atoi(f); err == nil {
				ks = append(ks, n)
			}
		}
		if len(ks) > 0 {
			k = ks[w.rng.Intn(len(ks))]
		}
	}
	switch k {
	case 0:
		w.kinds["z-find"] = true
		var zs []C07Zoo
		err := between(h).Order("id").Find(&zs).Error
		return "zfind " + c07ErrClass(err) + " " + c07ShowZoos(zs)
	case 1:
		w.kinds["z-first"] = true
		var z C07Zoo
		err := h.First(&z, pick()).Error
		return "zfirst " + c07ErrClass(err) + " " + c07ShowZoo(&z)
	case 2:
		w.kinds["z-take-last"] = true
		var a, b C07Zoo
		err := between(h).Take(&a, "id = ?", pick()).Error
		err2 := between(h).Last(&b).Error
		return "ztake " + c07ErrClass(err) + " " + c07ShowZoo(&a) + " zlast " + c07ErrClass(err2) + " " + c07ShowZoo(&b)
	case 3:
		w.kinds["z-find-ptr-slice"] = true
		var zs []*C07Zoo
		err := between(h).Order("id desc").Find(&zs).Error
		s := ""
		for _, z := range zs {
			s += c07ShowZoo(z) + " | "
		}
		return "zfindp " + c07ErrClass(err) + " " + s
	case 4:
		w.kinds["z-find-map"] = true
		var ms []map[string]interface{}
		err := between(h.Table("c07_zoos")).Order("id").Find(&ms).Error
		s := ""
		for _, m := range ms {
			s += c07ShowMap(m) + " | "
		}
		return "zfindmap " + c07ErrClass(err) + " " + s
	case 5:
		w.kinds["z-scan-struct"] = true
		var z C07Zoo
		var ls []C07ZooLite
		err := h.Model(&C07Zoo{}).Where("id = ?", pick()).Scan(&z).Error
		err2 := between(h.Model(&C07Zoo{})).Order("id").Scan(&ls).Error
		s := ""
		for i := range ls {
			s += c07ShowLite(&ls[i]) + " | "
		}
		return "zscan " + c07ErrClass(err) + " " + c07ShowZoo(&z) + " lite " + c07ErrClass(err2) + " " + s
	case 6:
		w.kinds["z-raw-scan"] = true
		var zs []C07Zoo
		err := h.Raw("SELECT * FROM c07_zoos WHERE id BETWEEN ? AND ? AND deleted IS NULL ORDER BY id", lo, hi).Scan(&zs).Error
		var one struct {
			N   int64
			Own string
		}
		err2 := h.Raw("SELECT count(*) AS n, min(owner) AS own FROM c07_zoos WHERE id BETWEEN ? AND ?", lo, hi).Scan(&one).Error
		return fmt.Sprintf("zraw %s %s agg %s %d %s", c07ErrClass(err), c07ShowZoos(zs), c07ErrClass(err2), one.N, one.Own)
	case 7:
		w.kinds["z-rows-scanrows"] = true
		rows, err := between(h.Model(&C07Zoo{})).Order("id").Rows()
		if err != nil {
			return "zrows " + c07ErrClass(err)
		}
		s := ""
		for rows.Next() {
			var z C07Zoo
			if err := h.ScanRows(rows, &z); err != nil {
				s += "scanerr:" + c07ErrClass(err)
			}
			s += c07ShowZoo(&z) + " | "
		}
		err = rows.Err()
		rows.Close()
		return "zrows " + c07ErrClass(err) + " " + s
	case 8:
		w.kinds["z-row"] = true
		var owner, sec string
		var pint sql.NullInt64
		err := h.Model(&C07Zoo{}).Where("id = ?", pick()).Select("owner", "secret", "p_int").Row().Scan(&owner, &sec, &pint)
		return fmt.Sprintf("zrow %s %s %s %v", c07ErrClass(err), owner, sec, pint)
	case 9:
		w.kinds["z-pluck"] = true
		var owners []string
		var secs []C07ZSecret
		var ints []sql.NullInt64
		err := between(h.Model(&C07Zoo{})).Order("id").Pluck("owner", &owners).Error
		err2 := between(h.Model(&C07Zoo{})).Order("id").Pluck("Secret", &secs).Error
		err3 := between(h.Table("c07_zoos")).Order("id").Pluck("p_int", &ints).Error
		s := ""
		for _, p := range ints {
			s += fmt.Sprint(p) + ","
		}
		return fmt.Sprintf("zpluck %s %v %s %q %s %s", c07ErrClass(err), owners, c07ErrClass(err2), secs, c07ErrClass(err3), s)
	case 10:
		w.kinds["z-count"] = true
		var n, d int64
		err := between(h.Model(&C07Zoo{})).Count(&n).Error
		err2 := between(h.Model(&C07Zoo{})).Distinct("p_bool").Count(&d).Error
		var u int64
		err3 := between(h.Model(&C07Zoo{}).Unscoped()).Count(&u).Error
		return fmt.Sprintf("zcount %s %d %s %d %s %d", c07ErrClass(err), n, c07ErrClass(err2), d, c07ErrClass(err3), u)
	case 11:
		w.kinds["z-find-in-batches"] = true
		var batch []C07Zoo
		s := ""
		tx := between(h).FindInBatches(&batch, 2, func(tx *gorm.DB, n int) error {
			s += fmt.Sprintf("#%d:%s ", n, c07ShowZoos(batch))
			return nil
		})
		return fmt.Sprintf("zbatches %s %d %s", c07ErrClass(tx.Error), tx.RowsAffected, s)
	case 12:
		w.kinds["z-select-cols"] = true
		var zs []C07Zoo
		err := between(h).Select("id", "pair", "csv", "addr_tag", "p_secret").Order("id").Find(&zs).Error
		var ls []C07ZooLite
		err2 := between(h.Model(&C07Zoo{})).Omit("money").Order("id").Find(&ls).Error
		s := ""
		for i := range ls {
			s += c07ShowLite(&ls[i]) + " | "
		}
		return "zselect " + c07ErrClass(err) + " " + c07ShowZoos(zs) + " lite " + c07ErrClass(err2) + " " + s
	case 13:
		w.kinds["z-first-or-init"] = true
		var z, z2 C07Zoo
		err := h.Where(C07Zoo{ID: pick()}).Attrs(C07Zoo{Owner: "attr"}).FirstOrInit(&z).Error
		err2 := h.Where("id = ?", hi).Attrs(C07Zoo{Owner: "attr", Secret: "initsec"}).Assign(C07Zoo{Pair: C07ZPair{A: "as", B: "gn"}}).FirstOrInit(&z2).Error
		return "zfoi " + c07ErrClass(err) + " " + c07ShowZoo(&z) + " / " + c07ErrClass(err2) + " " + c07ShowZoo(&z2)
	case 14:
		w.kinds["z-dryrun-tosql"] = true
		var zs []C07Zoo
		stmt := between(h.Session(&gorm.Session{DryRun: true})).Order("id").Limit(3).Find(&zs).Statement
		row := c07ZooRow(w.base+9000, 1)
		sql2 := h.ToSQL(func(tx *gorm.DB) *gorm.DB { return tx.Create(&row) })
		return fmt.Sprintf("zdry %s %v n=%d tosql-len=%d %v", stmt.SQL.String(), stmt.Vars, len(zs), len(sql2), strings.Contains(sql2, "enc:sec"))
	case 15:
		w.kinds["z-migrator-reads"] = true
		m := h.Migrator()
		has := m.HasTable(&C07Zoo{})
		hasT := m.HasTable("c07_zoos")
		hasC := m.HasColumn(&C07Zoo{}, "Secret")
		hasN := m.HasColumn(&C07Zoo{}, "nope")
		cts, err := m.ColumnTypes(&C07Zoo{})
		var names []string
		for _, ct := range cts {
			names = append(names, ct.Name())
		}
		sort.Strings(names)
		hasI := m.HasIndex(&C07Zoo{}, "idx_c07_zoos_deleted")
		return fmt.Sprintf("zmig %v %v %v %v %s %v idx=%v", has, hasT, hasC, hasN, c07ErrClass(err), names, hasI)
	// ---- writes (single-connection programs only) ----
	case 16, 17:
		w.kinds["z-create"] = true
		id := w.next()
		z := c07ZooRow(id, 0)
		err := h.Create(&z).Error
		if err == nil {
			w.zs = append(w.zs, id)
		}
		return "zcreate " + c07ErrClass(err) + " " + c07ShowZoo(&z)
	case 18:
		w.kinds["z-create-in-batches"] = true
		var zs []C07Zoo
		var ids []uint
		for i, n := 0, 2+w.rng.Intn(3); i < n; i++ {
			id := w.next()
			ids = append(ids, id)
			zs = append(zs, c07ZooRow(id, 0))
		}
		tx := h.CreateInBatches(&zs, 2)
		if tx.Error == nil {
			w.zs = append(w.zs, ids...)
		}
		return fmt.Sprintf("zcib %s %d", c07ErrClass(tx.Error), tx.RowsAffected)
	case 19:
		w.kinds["z-save"] = true
		id := pick()
		var z C07Zoo
		if err := h.First(&z, id).Error; err != nil {
			return "zsave-none " + c07ErrClass(err)
		}
		rev := 1 + w.rng.Intn(5)
		nz := c07ZooRow(id, rev)
		nz.CreatedAt = z.CreatedAt
		tx := h.Save(&nz)
		nid := w.next()
		fresh := c07ZooRow(nid, rev)
		tx2 := h.Save(&fresh) // Save of a row that does not exist yet
		if tx2.Error == nil {
			w.zs = append(w.zs, nid)
		}
		return fmt.Sprintf("zsave %s %d / %s %d", c07ErrClass(tx.Error), tx.RowsAffected, c07ErrClass(tx2.Error), tx2.RowsAffected)
	case 20:
		w.kinds["z-save-slice"] = true
		a, b := pick(), w.next()
		rev := 1 + w.rng.Intn(5)
		zs := []C07Zoo{c07ZooRow(a, rev), c07ZooRow(b, rev)}
		tx := h.Save(&zs)
		if tx.Error == nil {
			w.zs = append(w.zs, b)
		}
		return fmt.Sprintf("zsaves %s %d", c07ErrClass(tx.Error), tx.RowsAffected)
	case 21:
		w.kinds["z-update-column"] = true
		id := pick()
		tag := fmt.Sprintf("u%d", w.rng.Intn(1000))
		tx := h.Model(&C07Zoo{}).Where("id = ?", id).Update("secret", C07ZSecret("s"+tag))
		tx2 := h.Model(&C07Zoo{ID: id}).Select("Pair", "GB").UpdateColumns(C07Zoo{Pair: C07ZPair{A: "ua" + tag, B: "ub"}, GB: C07ZDoc{K: "g" + tag}})
		tx3 := h.Model(&C07Zoo{ID: id}).UpdateColumns(map[string]interface{}{"csv": C07ZCSV{"m", tag}, "p_int": nil})
		return fmt.Sprintf("zupdcol %s %d %s %d %s %d", c07ErrClass(tx.Error), tx.RowsAffected, c07ErrClass(tx2.Error), tx2.RowsAffected, c07ErrClass(tx3.Error), tx3.RowsAffected)
	case 22:
		w.kinds["z-updates"] = true
		id := pick()
		tag := fmt.Sprintf("v%d", w.rng.Intn(1000))
		ps := C07ZPtrSecret("p" + tag)
		tx := h.Model(&C07Zoo{ID: id}).Updates(C07Zoo{Owner: "o" + tag, JS: C07ZDoc{K: tag}, Money: C07ZMoney{Units: 5, Cur: tag}, PSecret: &ps, Addr: C07ZAddr{Tag: C07ZSecret("t" + tag)}})
		tx2 := h.Model(&C07Zoo{}).Where("id = ?", id).Select("JL", "UT", "CSV").Updates(C07Zoo{JL: []string{tag}, UT: int64(1400000000 + w.rng.Intn(1000))})
		tx3 := h.Model(&C07Zoo{}).Where("id = ?", id).Select("JM", "Meta").Updates(C07Zoo{JM: map[string]int{tag: 1}})
		return fmt.Sprintf("zupdates %s %d %s %d %s %d", c07ErrClass(tx.Error), tx.RowsAffected, c07ErrClass(tx2.Error), tx2.RowsAffected, c07ErrClass(tx3.Error), tx3.RowsAffected)
	case 23:
		w.kinds["z-delete-unscoped"] = true
		if len(w.zs) <= c07ZooSeedRows {
			return "zdel-none"
		}
		id := w.zs[len(w.zs)-1]
		tx := h.Delete(&C07Zoo{}, id) // soft
		var z C07Zoo
		err := h.Unscoped().First(&z, id).Error
		var tx2 *gorm.DB
		if w.rng.Intn(2) == 0 {
			tx2 = h.Unscoped().Delete(&C07Zoo{ID: id})
			w.zs = w.zs[:len(w.zs)-1]
		} else {
			tx2 = h.Unscoped().Model(&C07Zoo{ID: id}).Update("deleted", nil) // undelete
		}
		return fmt.Sprintf("zdel %s %d %s %s %s %d", c07ErrClass(tx.Error), tx.RowsAffected, c07ErrClass(err), c07ShowZoo(&z), c07ErrClass(tx2.Error), tx2.RowsAffected)
	case 24:
		w.kinds["z-exec-raw"] = true
		id := pick()
		tx := h.Exec("UPDATE c07_zoos SET owner = ?, money = ? WHERE id = ?", fmt.Sprintf("x%d", w.rng.Intn(100)), C07ZMoney{Units: 9, Cur: "RAW"}, id)
		tx2 := h.Exec("UPDATE c07_zoos SET csv = @csv WHERE id = @id", sql.Named("csv", C07ZCSV{"n", "m"}), sql.Named("id", id))
		return fmt.Sprintf("zexec %s %d %s %d", c07ErrClass(tx.Error), tx.RowsAffected, c07ErrClass(tx2.Error), tx2.RowsAffected)
	case 25:
		w.kinds["z-tx-savepoint"] = true
		a, b := w.next(), w.next()
		fail := w.rng.Intn(3) == 0
		err := h.Transaction(func(tx *gorm.DB) error {
			za := c07ZooRow(a, 0)
			if err := tx.Create(&za).Error; err != nil {
				return err
			}
			tx.SavePoint("sp1")
			zb := c07ZooRow(b, 0)
			if err := tx.Create(&zb).Error; err != nil {
				return err
			}
			tx.RollbackTo("sp1")
			_ = tx.Transaction(func(tx2 *gorm.DB) error { // nested: own savepoint, rolled back
				zc := c07ZooRow(b, 2)
				_ = tx2.Create(&zc).Error
				return errors.New("inner rollback")
			})
			if fail {
				return errors.New("rollback requested")
			}
			return nil
		})
		if err == nil {
			w.zs = append(w.zs, a)
		}
		var n int64
		err2 := between(h.Model(&C07Zoo{})).Count(&n).Error
		return fmt.Sprintf("ztxsp %s %s %d", c07ErrClass(err), c07ErrClass(err2), n)
	case 26:
		w.kinds["z-first-or-create"] = true
		id := w.next()
		var z, z2 C07Zoo
		tx := h.Where(C07Zoo{ID: id}).Attrs(C07Zoo{Owner: "foc", Secret: "focsec", Pair: C07ZPair{A: "f", B: "c"}}).FirstOrCreate(&z)
		if tx.Error == nil {
			w.zs = append(w.zs, id)
		}
		tx2 := h.Where(C07Zoo{ID: id}).Assign(C07Zoo{Owner: "assigned"}).FirstOrCreate(&z2)
		return fmt.Sprintf("zfoc %s %d %s / %s %d %s", c07ErrClass(tx.Error), tx.RowsAffected, c07ShowZoo(&z), c07ErrClass(tx2.Error), tx2.RowsAffected, c07ShowZoo(&z2))
	case 27:
		w.kinds["z-begin-commit"] = true
		id := w.next()
		tx := h.Begin()
		if tx.Error != nil {
			return "zbegin " + c07ErrClass(tx.Error)
		}
		z := c07ZooRow(id, 0)
		err := tx.Create(&z).Error
		var got C07Zoo
		err2 := tx.First(&got, id).Error
		var err3 error
		if w.rng.Intn(2) == 0 {
			err3 = tx.Commit().Error
			if err3 == nil && err == nil {
				w.zs = append(w.zs, id)
			}
		} else {
			err3 = tx.Rollback().Error
		}
		return fmt.Sprintf("zbegin %s %s %s %s", c07ErrClass(err), c07ErrClass(err2), c07ShowZoo(&got), c07ErrClass(err3))
	case 28:
		w.kinds["z-automigrate-own-table"] = true
		tbl := fmt.Sprintf("c07_dyn_g%d", w.g)
		err := h.Table(tbl).AutoMigrate(&C07Zoo{})
		err2 := h.Table(tbl).AutoMigrate(&C07Zoo{}) // second run: nothing to do
		z := c07ZooRow(w.next(), 0)
		err3 := h.Table(tbl).Create(&z).Error
		var n int64
		err4 := h.Table(tbl).Count(&n).Error
		return fmt.Sprintf("zautomig %s %s %s %s %d has=%v", c07ErrClass(err), c07ErrClass(err2), c07ErrClass(err3), c07ErrClass(err4), n, h.Migrator().HasTable(tbl))
	case 30:
		// finishers called directly on the shared handle (no chain method in between: the receiver IS the shared *gorm.DB)
		w.kinds["z-direct-finishers"] = true
		var zs []C07Zoo
		err := h.Find(&zs).Error
		sum := 0
		for i := range zs {
			if zs[i].ID >= lo && zs[i].ID <= hi {
				sum += len(c07ShowZoo(&zs[i]))
			}
		}
		var a, b, c C07Zoo
		err2 := h.First(&a).Error
		err3 := h.Last(&b).Error
		err4 := h.Take(&c).Error
		s := fmt.Sprintf("zdirect find %s %d/%d first %s %d last %s %d take %s %d", c07ErrClass(err), len(zs), sum, c07ErrClass(err2), a.ID, c07ErrClass(err3), b.ID, c07ErrClass(err4), c.ID)
		var batch []C07Zoo
		nb := 0
		tx := h.FindInBatches(&batch, 7, func(tx *gorm.DB, n int) error { nb += len(batch); return nil })
		s += fmt.Sprintf(" batches %s %d", c07ErrClass(tx.Error), nb)
		if w.hmodel { // the shared handle carries Model(&C07Zoo{}): Count / Pluck / Scan / Rows / Row need nothing else
			var n int64
			var owners []string
			var ls []C07ZooLite
			e1 := h.Count(&n).Error
			e2 := h.Pluck("owner", &owners).Error
			e3 := h.Scan(&ls).Error
			rows, e4 := h.Rows()
			nr := 0
			if e4 == nil {
				for rows.Next() {
					nr++
				}
				rows.Close()
			}
			var first string
			e5 := h.Select("owner").Row().Scan(&first)
			sort.Strings(owners)
			own := 0
			for i := range ls {
				if ls[i].ID >= lo && ls[i].ID <= hi {
					own += len(c07ShowLite(&ls[i]))
				}
			}
			s += fmt.Sprintf(" count %s %d pluck %s %d scan %s %d/%d rows %s %d row %s %s", c07ErrClass(e1), n, c07ErrClass(e2), len(owners), c07ErrClass(e3), len(ls), own, c07ErrClass(e4), nr, c07ErrClass(e5), first)
		}
		return s
	default:
		w.kinds["z-connection"] = true
		var n int64
		var z C07Zoo
		err := h.Connection(func(tx *gorm.DB) error {
			tx = tx.Session(&gorm.Session{})
			if err := between(tx.Model(&C07Zoo{})).Count(&n).Error; err != nil {
				return err
			}
			return tx.First(&z, pick()).Error
		})
		return fmt.Sprintf("zconn %s %d %s", c07ErrClass(err), n, c07ShowZoo(&z))
	}
}
