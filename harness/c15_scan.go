package main

// C15 — read paths under faults that surface WHILE ITERATING the result set, NULLs in every column position
// and row order, destinations REUSED across rows and queries.
//
// A scenario is: a table with four nullable-or-not columns (every cell NULL with probability 1/3, plus forced
// all-NULL / first-NULL / last-NULL rows), one chain (Model or Table handle, PrepareStmt on/off, optional
// Select list in any order, WHERE, a TOTAL ordering, Limit/Offset), an optional FAULT and 2–6 steps.  Every step
// runs one read path on that chain into a destination that is fresh, pre-populated with stale junk, or the
// scenario's SHARED variable of that kind (left as the previous step / row filled it).
//
// Fault kinds:
//   driver : the driver's Rows.Next fails after k delivered rows (k = 0 … len+1) with one of several error
//            VALUES (plain, wrapped, context.Canceled raised by cancelling the handle's context inside Next,
//            sql.ErrNoRows, sql.ErrTxDone, driver.ErrBadConn, io.ErrUnexpectedEOF); database/sql then returns
//            false from rows.Next() and the error is visible ONLY through rows.Err()
//   sqlite : a real run-time error of SQLite on one particular row (`abs(x)` overflow on a poisoned row)
//   convert: one row holds TEXT in the integer column d: rows.Scan fails on that row for every destination
//
// E2E oracle (independent of the model).  Let E be the rows the chain selects (in-memory table).
//   multi-row paths (Find/Scan into slices and map slices, Pluck, Scan(&primitive), Rows()+ScanRows loops, Count):
//     no fault reached : no error, exactly E, RowsAffected = len(E)
//     driver fault at k ≤ len(E): the injected error is reported, exactly E[:k] was delivered, RowsAffected = k —
//       a path returning a prefix with a nil error violates "report the same rows"
//     sqlite fault : no error ⇒ exactly E; error ⇒ a prefix of E, RowsAffected = its length; if E contains the
//       poisoned row an error MUST be reported
//   single-row paths (First/Take/Last/Find(&struct)/Scan(&struct)/Scan(&map)): fault before the first row ⇒ error;
//     otherwise the first row of E.  LATITUDE: whether a single-row path notices a fault that lies behind the row it
//     consumed is not demanded; with E empty and the fault on the first Next either the fault or ErrRecordNotFound.
//   values: every SELECTED column of every delivered element equals the table cell; a NULL cell is a nil pointer /
//     invalid Null* in structs, the zero value in non-pointer fields, and a PRESENT key holding nil in maps
//     (a map lacking the key disagrees with the struct path which reports NULL).  LATITUDE: unselected struct
//     fields and additional map keys of a pre-populated map are not judged; `Find(&[]map)` / `Scan(&[]map)` APPEND
//     to a non-empty slice (scan.go), so the appended suffix is "the rows returned"; `Scan(&dest)` leaves dest
//     untouched when the query returns no row (finisher_api.go Scan, else-branch), so with RowsAffected = 0 the
//     content of a reused destination is not judged.
//   convert fault: a path that reads the unconvertible cell (d selected, row within what it iterates) must report an
//     error; nothing else is demanded of it
//   FindInBatches: batches delivered to the callback are a prefix of E cut into batches; fault fired ⇒ error
//     reported and no batch after the failing query; RowsAffected between rows delivered and rows delivered + k.
// Correspondence (`scan.loop`): every step without fault or with a driver fault is replayed on the Lean model
// (Model/ScanLoop.lean: Gorm.queryPath / dbScan / rowsLoop over a cursor of row and fail events) and the final
// destination content (all fields / all keys), RowsAffected, error and not-found flags are diffed.

import (
	"context"
	"database/sql"
	"database/sql/driver"
	"encoding/json"
	"errors"
	"fmt"
	"io"
	"math"
	"math/rand"
	"reflect"
	"sort"
	"strings"
	"sync"
	"sync/atomic"

	sqlite3 "github.com/mattn/go-sqlite3"
	"gorm.io/driver/sqlite"
	"gorm.io/gorm"
	"gorm.io/gorm/logger"
)

// ---- fault-injecting driver: wraps go-sqlite3, fails Rows.Next after k rows ---------------------------------

type c15fPlan struct {
	mu     sync.Mutex
	armed  bool
	query  int // index (counted from arming) of the query whose rows fail
	row    int // rows delivered before Next fails
	err    error
	cancel context.CancelFunc
	seen   int
	fired  bool
}

func (p *c15fPlan) arm(query, row int, err error, cancel context.CancelFunc) {
	p.mu.Lock()
	p.armed, p.query, p.row, p.err, p.cancel, p.seen, p.fired = true, query, row, err, cancel, 0, false
	p.mu.Unlock()
}

func (p *c15fPlan) disarm() (fired bool, seen int) {
	p.mu.Lock()
	defer p.mu.Unlock()
	p.armed = false
	return p.fired, p.seen
}

func (p *c15fPlan) wrap(rows driver.Rows) driver.Rows {
	p.mu.Lock()
	defer p.mu.Unlock()
	if !p.armed {
		return rows
	}
	idx := p.seen
	p.seen++
	if sr, ok := rows.(*sqlite3.SQLiteRows); ok && idx == p.query {
		return &c15fRows{SQLiteRows: sr, plan: p, failAt: p.row}
	}
	return rows
}

// c15fRows embeds the real rows (Columns, Close, ColumnType* are promoted) and overrides Next
type c15fRows struct {
	*sqlite3.SQLiteRows
	plan   *c15fPlan
	failAt int
	n      int
}

func (r *c15fRows) Next(dest []driver.Value) error {
	if r.n == r.failAt {
		r.plan.mu.Lock()
		r.plan.fired = true
		err, cancel := r.plan.err, r.plan.cancel
		r.plan.mu.Unlock()
		if cancel != nil {
			cancel() // context cancelled mid-iteration: the driver reports ctx.Err() from Next
		}
		return err
	}
	err := r.SQLiteRows.Next(dest)
	if err == nil {
		r.n++
	}
	return err
}

type c15fConnector struct {
	dsn  string
	drv  *sqlite3.SQLiteDriver
	plan *c15fPlan
}

func (c *c15fConnector) Connect(ctx context.Context) (driver.Conn, error) {
	inner, err := c.drv.Open(c.dsn)
	if err != nil {
		return nil, err
	}
	return &c15fConn{inner: inner.(*sqlite3.SQLiteConn), plan: c.plan}, nil
}
func (c *c15fConnector) Driver() driver.Driver { return c.drv }

type c15fConn struct {
	inner *sqlite3.SQLiteConn
	plan  *c15fPlan
}

func (c *c15fConn) Prepare(q string) (driver.Stmt, error) {
	return c.PrepareContext(context.Background(), q)
}
func (c *c15fConn) Close() error              { return c.inner.Close() }
func (c *c15fConn) Begin() (driver.Tx, error) { return c.inner.Begin() }
func (c *c15fConn) BeginTx(ctx context.Context, o driver.TxOptions) (driver.Tx, error) {
	return c.inner.BeginTx(context.WithoutCancel(ctx), o)
}
func (c *c15fConn) PrepareContext(ctx context.Context, q string) (driver.Stmt, error) {
	st, err := c.inner.PrepareContext(context.WithoutCancel(ctx), q)
	if err != nil {
		return nil, err
	}
	return &c15fStmt{inner: st.(*sqlite3.SQLiteStmt), plan: c.plan}, nil
}
func (c *c15fConn) ExecContext(ctx context.Context, q string, args []driver.NamedValue) (driver.Result, error) {
	return c.inner.ExecContext(context.WithoutCancel(ctx), q, args)
}

// the cancellation of the caller's context is simulated by the wrapper alone (deterministic row count); SQLite
// itself never sees it (sqlite3_interrupt would race with the next statement on the connection)
func (c *c15fConn) QueryContext(ctx context.Context, q string, args []driver.NamedValue) (driver.Rows, error) {
	rows, err := c.inner.QueryContext(context.WithoutCancel(ctx), q, args)
	if err != nil {
		return nil, err
	}
	return c.plan.wrap(rows), nil
}
func (c *c15fConn) Ping(ctx context.Context) error { return c.inner.Ping(ctx) }

type c15fStmt struct {
	inner *sqlite3.SQLiteStmt
	plan  *c15fPlan
}

func (s *c15fStmt) Close() error  { return s.inner.Close() }
func (s *c15fStmt) NumInput() int { return s.inner.NumInput() }
func (s *c15fStmt) Exec(args []driver.Value) (driver.Result, error) {
	return nil, errors.New("c15fStmt.Exec: use ExecContext")
}
func (s *c15fStmt) Query(args []driver.Value) (driver.Rows, error) {
	return nil, errors.New("c15fStmt.Query: use QueryContext")
}
func (s *c15fStmt) ExecContext(ctx context.Context, args []driver.NamedValue) (driver.Result, error) {
	return s.inner.ExecContext(context.WithoutCancel(ctx), args)
}
func (s *c15fStmt) QueryContext(ctx context.Context, args []driver.NamedValue) (driver.Rows, error) {
	rows, err := s.inner.QueryContext(context.WithoutCancel(ctx), args)
	if err != nil {
		return nil, err
	}
	return s.plan.wrap(rows), nil
}

var c15fCounter int64

// ---- models ----------------------------------------------------------------------------------------------------

type C15Null struct {
	ID uint `gorm:"primaryKey"`
	A  *int
	B  sql.NullInt64
	C  *string
	D  int
	X  int64
}

// non-pointer fields for the nullable columns: NULL is read as the zero value
type c15NullFlat struct {
	ID uint
	A  int
	B  int64
	C  string
	D  int
}

var c15NCols = []string{"id", "a", "b", "c", "d", "x"}
var c15NStr = []string{"a", "b", "c", "d"}

const c15XPlain = 7

type c15NRow struct {
	ID int  `json:"id"`
	A  *int `json:"a"`
	B  *int `json:"b"`
	C  *int `json:"c"` // index into c15NStr
	D  int  `json:"d"`
	P  bool `json:"p,omitempty"` // poisoned: x = MinInt64, abs(x) raises "integer overflow"
	T  bool `json:"t,omitempty"` // column d holds the TEXT 'oops' (SQLite stores it in an INTEGER column): rows.Scan into an int fails
}

func c15ip(v int) *int { return &v }

// the table cell of column col as the model sees it (strings as their first byte)
func (r c15NRow) cell(col string) *int {
	switch col {
	case "id":
		return c15ip(r.ID)
	case "a":
		return r.A
	case "b":
		return r.B
	case "c":
		if r.C == nil {
			return nil
		}
		return c15ip(int(c15NStr[*r.C][0]))
	case "d":
		return c15ip(r.D)
	case "x":
		if r.P {
			return c15ip(math.MinInt64)
		}
		return c15ip(c15XPlain)
	}
	panic("col " + col)
}

type c15SChain struct {
	Table  bool      `json:"table,omitempty"`  // db.Table("c15_nulls") instead of db.Model(&C15Null{})
	Prep   bool      `json:"prep,omitempty"`   // gorm.Config{PrepareStmt: true}
	Cols   []string  `json:"cols,omitempty"`   // Select list; nil = *
	SelStr bool      `json:"selstr,omitempty"` // Select("c, a, id") instead of Select([]string{…})
	Gt     int       `json:"gt,omitempty"`     // Where("id > ?", Gt)
	DGe    int       `json:"dge,omitempty"`    // Where("d >= ?", DGe)
	Abs    bool      `json:"abs,omitempty"`    // Where("abs(x) >= 0"): fails on a poisoned row
	Ord    string    `json:"ord"`              // total: "id" | "id desc" | "d,id" | "d desc,id desc"
	Lims   []limCall `json:"lims,omitempty"`
}

type c15SFault struct {
	Kind  string `json:"kind"` // driver | sqlite | convert
	Row   int    `json:"row"`
	Err   string `json:"err,omitempty"`
	Query int    `json:"query,omitempty"` // FindInBatches: which of its queries fails
}

type c15SStep struct {
	Path  string `json:"path"`
	Dest  string `json:"dest"` // fresh | stale | shared
	Batch int    `json:"batch,omitempty"`
}

type c15SScn struct {
	Rows  []c15NRow  `json:"rows"`
	Chain c15SChain  `json:"chain"`
	Fault *c15SFault `json:"fault,omitempty"`
	Steps []c15SStep `json:"steps"`
}

type c15WrapErr struct{ inner error }

func (e *c15WrapErr) Error() string { return "c15 wrapped: " + e.inner.Error() }
func (e *c15WrapErr) Unwrap() error { return e.inner }

var errC15Boom = errors.New("c15 injected row fault")

var c15FaultErrs = map[string]error{
	"boom":    errC15Boom,
	"wrapped": &c15WrapErr{errC15Boom},
	"cancel":  context.Canceled, // + the handle's context is cancelled inside Next
	"norows":  sql.ErrNoRows,
	"txdone":  sql.ErrTxDone,
	"badconn": driver.ErrBadConn,
	"ueof":    io.ErrUnexpectedEOF,
}
var c15FaultErrNames = []string{"boom", "boom", "wrapped", "cancel", "cancel", "norows", "txdone", "badconn", "ueof"}

// ---- world -----------------------------------------------------------------------------------------------------

type c15Elem map[string]*int // delivered element: column → cell (nil = NULL / nil entry); a map lacking a key lacks it here

type c15Pool struct {
	structs []C15Null
	ptrs    []*C15Null
	flats   []c15NullFlat
	maps    []map[string]interface{}
	one     C15Null
	onePtr  *C15Null
	m       map[string]interface{}
	bs      []sql.NullInt64
	cs      []sql.NullString
	flat    c15NullFlat
	ints    []int
	prim    int
}

type c15SWorld struct {
	sqlDB *sql.DB
	plain *gorm.DB
	prep  *gorm.DB
	plan  *c15fPlan
	keep  *sql.Conn
	pool  *c15Pool
}

func c15SOpen() *c15SWorld {
	n := atomic.AddInt64(&c15fCounter, 1)
	plan := &c15fPlan{}
	sqlDB := sql.OpenDB(&c15fConnector{dsn: fmt.Sprintf("file:c15fmem%d?mode=memory&cache=shared", n), drv: &sqlite3.SQLiteDriver{}, plan: plan})
	sqlDB.SetMaxIdleConns(4)
	// one connection is held for the lifetime of the world: the shared in-memory database survives connections
	// discarded after an injected driver.ErrBadConn
	keep, err := sqlDB.Conn(context.Background())
	if err != nil {
		panic(err)
	}
	open := func(prep bool) *gorm.DB {
		db, err := gorm.Open(sqlite.Dialector{Conn: sqlDB}, &gorm.Config{Logger: logger.Discard, PrepareStmt: prep})
		if err != nil {
			panic(err)
		}
		return db
	}
	w := &c15SWorld{sqlDB: sqlDB, plain: open(false), prep: open(true), plan: plan, keep: keep}
	if err := w.plain.AutoMigrate(&C15Null{}); err != nil {
		panic(err)
	}
	return w
}

func (w *c15SWorld) close() {
	w.keep.Close()
	w.sqlDB.Close()
}

func (w *c15SWorld) fill(rows []c15NRow) {
	if err := w.plain.Exec("DELETE FROM c15_nulls").Error; err != nil {
		panic(err)
	}
	if len(rows) == 0 {
		return
	}
	recs := make([]C15Null, len(rows))
	for i, r := range rows {
		x := C15Null{ID: uint(r.ID), A: r.A, D: r.D, X: c15XPlain}
		if r.B != nil {
			x.B = sql.NullInt64{Int64: int64(*r.B), Valid: true}
		}
		if r.C != nil {
			s := c15NStr[*r.C]
			x.C = &s
		}
		if r.P {
			x.X = math.MinInt64
		}
		recs[i] = x
	}
	if err := w.plain.Create(&recs).Error; err != nil {
		panic(err)
	}
	for _, r := range rows {
		if r.T {
			if err := w.plain.Exec("UPDATE c15_nulls SET d = 'oops' WHERE id = ?", r.ID).Error; err != nil {
				panic(err)
			}
		}
	}
}

func (ch c15SChain) apply(w *c15SWorld, ctx context.Context) *gorm.DB {
	db := w.plain
	if ch.Prep {
		db = w.prep
	}
	if ctx != nil {
		db = db.WithContext(ctx)
	}
	if ch.Table {
		db = db.Table("c15_nulls")
	} else {
		db = db.Model(&C15Null{})
	}
	if len(ch.Cols) > 0 {
		if ch.SelStr {
			db = db.Select(strings.Join(ch.Cols, ", "))
		} else {
			db = db.Select(ch.Cols)
		}
	}
	if ch.Gt > 0 {
		db = db.Where("id > ?", ch.Gt)
	}
	if ch.DGe > 0 {
		db = db.Where("d >= ?", ch.DGe)
	}
	if ch.Abs {
		db = db.Where("abs(x) >= 0")
	}
	for _, o := range strings.Split(ch.Ord, ",") {
		db = db.Order(o)
	}
	return applyLimCalls(db, ch.Lims)
}

// the rows the chain selects, in delivery order (the ordering is total)
func (ch c15SChain) expected(rows []c15NRow, single bool) []c15NRow {
	var m []c15NRow
	for _, r := range rows {
		if (ch.Gt > 0 && r.ID <= ch.Gt) || (ch.DGe > 0 && r.D < ch.DGe) {
			continue
		}
		m = append(m, r)
	}
	sort.SliceStable(m, func(i, j int) bool {
		for _, o := range strings.Split(ch.Ord, ",") {
			desc := strings.HasSuffix(o, " desc")
			col := strings.TrimSuffix(o, " desc")
			x, y := *m[i].cell(col), *m[j].cell(col)
			if x != y {
				return (x < y) != desc
			}
		}
		return false
	})
	lims := ch.Lims
	if single {
		lims = append(append([]limCall{}, lims...), limCall{"limit", 1})
	}
	lim, off := c15Eff(lims)
	if off > len(m) {
		off = len(m)
	}
	m = m[off:]
	if lim >= 0 && lim < len(m) {
		m = m[:lim]
	}
	return m
}

func (ch c15SChain) sel() []string {
	if len(ch.Cols) > 0 {
		return ch.Cols
	}
	return c15NCols
}

// ---- canonical cells of whatever gorm put into a destination ------------------------------------------------------

func c15CellOf(v interface{}) (*int, string) {
	rv := reflect.ValueOf(v)
	for rv.IsValid() && rv.Kind() == reflect.Ptr {
		if rv.IsNil() {
			return nil, ""
		}
		rv = rv.Elem()
	}
	if !rv.IsValid() {
		return nil, ""
	}
	switch t := rv.Interface().(type) {
	case int64:
		return c15ip(int(t)), ""
	case int:
		return c15ip(t), ""
	case uint:
		return c15ip(int(t)), ""
	case uint64:
		return c15ip(int(t)), ""
	case string:
		if t == "" {
			return c15ip(0), ""
		}
		return c15ip(int(t[0])), ""
	case []byte:
		if len(t) == 0 {
			return c15ip(0), ""
		}
		return c15ip(int(t[0])), ""
	case sql.NullInt64:
		if !t.Valid {
			return nil, ""
		}
		return c15ip(int(t.Int64)), ""
	case sql.NullString:
		if !t.Valid {
			return nil, ""
		}
		return c15CellOf(t.String)
	}
	return nil, fmt.Sprintf("value of unexpected type %T", v)
}

func c15ElemOfRec(x C15Null) c15Elem {
	e := c15Elem{"id": c15ip(int(x.ID)), "a": x.A, "d": c15ip(x.D), "x": c15ip(int(x.X)), "b": nil, "c": nil}
	if x.A != nil {
		e["a"] = c15ip(*x.A)
	}
	if x.B.Valid {
		e["b"] = c15ip(int(x.B.Int64))
	}
	if x.C != nil {
		e["c"], _ = c15CellOf(*x.C)
	}
	return e
}

func c15ElemOfFlat(x c15NullFlat) c15Elem {
	c, _ := c15CellOf(x.C)
	return c15Elem{"id": c15ip(int(x.ID)), "a": c15ip(x.A), "b": c15ip(int(x.B)), "c": c, "d": c15ip(x.D)}
}

func c15ElemOfMap(m map[string]interface{}, bad *string) c15Elem {
	e := c15Elem{}
	for k, v := range m {
		c, msg := c15CellOf(v)
		if msg != "" && *bad == "" {
			*bad = fmt.Sprintf("map key %q: %s", k, msg)
		}
		e[k] = c
	}
	return e
}

// junk that no table row carries
func c15StaleRec(rng *rand.Rand, all bool) C15Null {
	s := "zz"
	x := C15Null{A: c15ip(900 + rng.Intn(9)), C: &s, D: 920 + rng.Intn(9), X: 930}
	if all || rng.Intn(3) == 0 {
		// a valid sql.NullInt64 left in a single-struct destination is the pattern of finding F7d
		x.B = sql.NullInt64{Int64: int64(910 + rng.Intn(9)), Valid: true}
	}
	return x
}

func c15StaleMap(rng *rand.Rand) map[string]interface{} {
	return map[string]interface{}{"id": int64(940), "a": int64(900 + rng.Intn(9)), "b": int64(910 + rng.Intn(9)), "c": "zz", "d": int64(920), "x": int64(930), "zz": int64(950)}
}

// ---- one step on the real code ----------------------------------------------------------------------------------

type c15SObs struct {
	Kind    string    `json:"kind"`          // destination kind for the model: structs|flats|maps|prim|struct1|map1|snaps|count|batches
	Pre     []c15Elem `json:"pre,omitempty"` // destination content before the step (reused destinations)
	Elems   []c15Elem `json:"elems"`         // destination content after the step (snapshots after every row for rows:*)
	RA      int64     `json:"ra"`
	Err     string    `json:"err,omitempty"` // "" | notfound | fault | sqlite | other:…
	Count   int64     `json:"count,omitempty"`
	Batches [][]int   `json:"batches,omitempty"`
	Fired   bool      `json:"fired,omitempty"`
	Bad     string    `json:"bad,omitempty"`
}

func c15SErrName(err, injected error) string {
	switch {
	case err == nil:
		return ""
	case errors.Is(err, gorm.ErrRecordNotFound):
		return "notfound"
	case injected != nil && errors.Is(err, injected):
		return "fault"
	case strings.Contains(err.Error(), "integer overflow"):
		return "sqlite"
	}
	return "other:" + err.Error()
}

// First/Take/Last add LIMIT 1
func c15PathLimited(fin string) bool {
	switch fin {
	case "first", "take", "last", "firstmap", "takemap", "lastmap", "takeflat":
		return true
	}
	return false
}

func c15PathSingle(p string) bool {
	switch p {
	case "first", "take", "last", "firstmap", "takemap", "lastmap", "find1", "scan1", "scanmap1", "takeflat", "scanflat1":
		return true
	}
	return false
}

func (w *c15SWorld) runStep(scn *c15SScn, st c15SStep, rng *rand.Rand) *c15SObs {
	obs := &c15SObs{Elems: []c15Elem{}}
	var ctx context.Context
	var cancel context.CancelFunc
	var injected error
	if f := scn.Fault; f != nil && f.Kind == "driver" {
		injected = c15FaultErrs[f.Err]
		if f.Err == "cancel" {
			ctx, cancel = context.WithCancel(context.Background())
			defer cancel()
		}
	}
	h := scn.Chain.apply(w, ctx)
	if f := scn.Fault; f != nil && f.Kind == "driver" {
		q := 0
		if st.Path == "batches" {
			q = f.Query
		}
		w.plan.arm(q, f.Row, injected, cancel)
		defer func() { obs.Fired, _ = w.plan.disarm() }()
	}
	p := w.pool
	all := st.Dest == "stale!"
	if all {
		st.Dest = "stale"
	}
	fin, col := st.Path, ""
	if i := strings.IndexByte(fin, ':'); i > 0 {
		fin, col = fin[:i], fin[i+1:]
	}
	var tx *gorm.DB
	recs := func(xs []C15Null) []c15Elem {
		out := []c15Elem{}
		for _, x := range xs {
			out = append(out, c15ElemOfRec(x))
		}
		return out
	}
	ptrs := func(xs []*C15Null) []c15Elem {
		out := []c15Elem{}
		for _, x := range xs {
			if x == nil {
				obs.Bad = "nil element in []*C15Null"
				continue
			}
			out = append(out, c15ElemOfRec(*x))
		}
		return out
	}
	flats := func(xs []c15NullFlat) []c15Elem {
		out := []c15Elem{}
		for _, x := range xs {
			out = append(out, c15ElemOfFlat(x))
		}
		return out
	}
	maps := func(ms []map[string]interface{}) []c15Elem {
		out := []c15Elem{}
		for _, m := range ms {
			out = append(out, c15ElemOfMap(m, &obs.Bad))
		}
		return out
	}
	switch fin {
	case "find", "scan":
		obs.Kind = "structs"
		var fresh []C15Null
		dst := &fresh
		switch st.Dest {
		case "stale":
			fresh = append(make([]C15Null, 0, 1+rng.Intn(6)), c15StaleRec(rng, all), c15StaleRec(rng, all))
		case "shared":
			dst = &p.structs
		}
		obs.Pre = recs(*dst)
		if fin == "find" {
			tx = h.Find(dst)
		} else {
			tx = h.Scan(dst)
		}
		obs.Elems = recs(*dst)
	case "findptr", "scanptr":
		obs.Kind = "structs"
		var fresh []*C15Null
		dst := &fresh
		switch st.Dest {
		case "stale":
			a, b := c15StaleRec(rng, all), c15StaleRec(rng, all)
			fresh = []*C15Null{&a, &b}
		case "shared":
			dst = &p.ptrs
		}
		obs.Pre = ptrs(*dst)
		if fin == "findptr" {
			tx = h.Find(dst)
		} else {
			tx = h.Scan(dst)
		}
		obs.Elems = ptrs(*dst)
	case "findflat", "scanflat":
		obs.Kind = "flats"
		var fresh []c15NullFlat
		dst := &fresh
		switch st.Dest {
		case "stale":
			fresh = []c15NullFlat{{A: 901, B: 911, C: "zz", D: 921}}
		case "shared":
			dst = &p.flats
		}
		obs.Pre = flats(*dst)
		if fin == "findflat" {
			tx = h.Find(dst)
		} else {
			tx = h.Scan(dst)
		}
		obs.Elems = flats(*dst)
	case "findmap", "scanmaps":
		obs.Kind = "maps"
		var fresh []map[string]interface{}
		dst := &fresh
		switch st.Dest {
		case "stale":
			fresh = []map[string]interface{}{c15StaleMap(rng)}
		case "shared":
			dst = &p.maps
		}
		obs.Pre = maps(*dst)
		if fin == "findmap" {
			tx = h.Find(dst)
		} else {
			tx = h.Scan(dst)
		}
		obs.Elems = maps(*dst)
	case "pluck":
		obs.Kind = "structs"
		one := func(c *int) c15Elem { return c15Elem{col: c} }
		switch col {
		case "a", "b": // nullable columns need a Scanner element type (database/sql cannot convert NULL to int)
			var fresh []sql.NullInt64
			dst := &fresh
			if st.Dest == "stale" {
				fresh = []sql.NullInt64{{Int64: 911, Valid: true}, {}, {Int64: 912, Valid: true}}
			} else if st.Dest == "shared" {
				dst = &p.bs
			}
			tx = h.Pluck(col, dst)
			for _, v := range *dst {
				c, _ := c15CellOf(v)
				obs.Elems = append(obs.Elems, one(c))
			}
		case "c":
			var fresh []sql.NullString
			dst := &fresh
			if st.Dest == "stale" {
				fresh = []sql.NullString{{String: "zz", Valid: true}, {String: "zz", Valid: true}}
			} else if st.Dest == "shared" {
				dst = &p.cs
			}
			tx = h.Pluck(col, dst)
			for _, v := range *dst {
				c, _ := c15CellOf(v)
				obs.Elems = append(obs.Elems, one(c))
			}
		default: // id, d
			var fresh []int
			dst := &fresh
			if st.Dest == "stale" {
				fresh = []int{901, 902, 903}
			} else if st.Dest == "shared" {
				dst = &p.ints
			}
			tx = h.Pluck(col, dst)
			for _, v := range *dst {
				obs.Elems = append(obs.Elems, one(c15ip(v)))
			}
		}
	case "scanprim":
		obs.Kind = "prim"
		v := 0
		dst := &v
		if st.Dest == "stale" {
			v = 901
		} else if st.Dest == "shared" {
			dst = &p.prim
		}
		obs.Pre = []c15Elem{{"id": c15ip(*dst)}}
		tx = h.Select("id").Scan(dst)
		obs.Elems = []c15Elem{{"id": c15ip(*dst)}}
	case "count":
		obs.Kind = "count"
		obs.Count = -1
		tx = h.Count(&obs.Count)
	case "first", "take", "last", "find1", "scan1":
		obs.Kind = "struct1"
		var fresh C15Null
		dst := &fresh
		switch st.Dest {
		case "stale":
			fresh = c15StaleRec(rng, all)
		case "shared":
			dst = &p.one
			// a non-zero primary key in a struct destination is a CONDITION for First/Take/Last/Find (documented gorm
			// behaviour): the shared variable keeps every other stale field
			dst.ID = 0
		}
		obs.Pre = []c15Elem{c15ElemOfRec(*dst)}
		switch fin {
		case "first":
			tx = h.First(dst)
		case "take":
			tx = h.Take(dst)
		case "last":
			tx = h.Last(dst)
		case "find1":
			tx = h.Find(dst)
		default:
			tx = h.Scan(dst)
		}
		obs.Elems = []c15Elem{c15ElemOfRec(*dst)}
	case "takeflat", "scanflat1":
		obs.Kind = "flat1"
		var fresh c15NullFlat
		dst := &fresh
		switch st.Dest {
		case "stale":
			fresh = c15NullFlat{D: 921}
			if all || rng.Intn(3) == 0 {
				fresh = c15NullFlat{A: 901, B: 911, C: "zz", D: 921}
			}
		case "shared":
			dst = &p.flat
			dst.ID = 0
		}
		obs.Pre = []c15Elem{c15ElemOfFlat(*dst)}
		if fin == "takeflat" {
			tx = h.Take(dst)
		} else {
			tx = h.Scan(dst)
		}
		obs.Elems = []c15Elem{c15ElemOfFlat(*dst)}
	case "firstmap", "takemap", "lastmap", "scanmap1":
		obs.Kind = "map1"
		m := map[string]interface{}{}
		switch st.Dest {
		case "stale":
			m = c15StaleMap(rng)
		case "shared":
			if p.m == nil {
				p.m = map[string]interface{}{}
			}
			m = p.m
		}
		obs.Pre = []c15Elem{c15ElemOfMap(m, &obs.Bad)}
		switch fin {
		case "firstmap":
			tx = h.First(&m)
		case "takemap":
			tx = h.Take(m)
		case "lastmap":
			tx = h.Last(&m)
		default:
			tx = h.Scan(&m)
		}
		obs.Elems = []c15Elem{c15ElemOfMap(m, &obs.Bad)}
	case "rows": // the streaming idiom: ONE destination variable declared outside the loop
		obs.Kind = "snaps"
		rows, err := h.Rows()
		if err != nil {
			obs.Err = c15SErrName(err, injected)
			break
		}
		var x C15Null
		var xp *C15Null
		var fl c15NullFlat
		m := map[string]interface{}{}
		switch st.Dest {
		case "stale":
			x, fl, m = c15StaleRec(rng, all), c15NullFlat{A: 901, B: 911, C: "zz", D: 921}, c15StaleMap(rng)
			y := c15StaleRec(rng, all)
			xp = &y
		case "shared":
			x, xp = p.one, p.onePtr
			if p.m != nil {
				m = p.m
			}
		}
		switch col {
		case "struct":
			obs.Pre = []c15Elem{c15ElemOfRec(x)}
		case "flat":
			obs.Pre = []c15Elem{c15ElemOfFlat(fl)}
		case "ptr":
			if xp != nil {
				obs.Pre = []c15Elem{c15ElemOfRec(*xp)}
			}
		case "map":
			obs.Pre = []c15Elem{c15ElemOfMap(m, &obs.Bad)}
		}
		for rows.Next() {
			var err error
			switch col {
			case "struct":
				err = w.plain.ScanRows(rows, &x)
				obs.Elems = append(obs.Elems, c15ElemOfRec(x))
			case "flat":
				err = w.plain.ScanRows(rows, &fl)
				obs.Elems = append(obs.Elems, c15ElemOfFlat(fl))
			case "ptr":
				err = w.plain.ScanRows(rows, &xp)
				if xp == nil {
					obs.Bad = "ScanRows left a nil *C15Null"
				} else {
					obs.Elems = append(obs.Elems, c15ElemOfRec(*xp))
				}
			case "map":
				err = w.plain.ScanRows(rows, &m)
				obs.Elems = append(obs.Elems, c15ElemOfMap(m, &obs.Bad))
			case "freshmap":
				fm := map[string]interface{}{}
				err = w.plain.ScanRows(rows, &fm)
				obs.Elems = append(obs.Elems, c15ElemOfMap(fm, &obs.Bad))
			default:
				panic("rows:" + col)
			}
			if err != nil {
				obs.Err = c15SErrName(err, injected)
				break
			}
		}
		if err := rows.Err(); err != nil && obs.Err == "" {
			obs.Err = c15SErrName(err, injected)
		}
		rows.Close()
		if st.Dest == "shared" {
			p.one, p.onePtr, p.m = x, xp, m
		}
		obs.RA = int64(len(obs.Elems))
	case "batches":
		obs.Kind = "batches"
		var xs []C15Null
		if st.Dest == "stale" {
			xs = []C15Null{c15StaleRec(rng, all)}
		}
		obs.Batches = [][]int{}
		tx = h.FindInBatches(&xs, st.Batch, func(_ *gorm.DB, _ int) error {
			ids := []int{}
			for _, x := range xs {
				ids = append(ids, int(x.ID))
				obs.Elems = append(obs.Elems, c15ElemOfRec(x))
			}
			obs.Batches = append(obs.Batches, ids)
			if len(obs.Batches) > len(scn.Rows)+3 {
				return errC15Abort
			}
			return nil
		})
	default:
		panic("path " + st.Path)
	}
	if tx != nil {
		obs.RA = tx.RowsAffected
		obs.Err = c15SErrName(tx.Error, injected)
	}
	return obs
}

// ---- E2E judge --------------------------------------------------------------------------------------------------

func c15CellEq(a, b *int) bool { return (a == nil) == (b == nil) && (a == nil || *a == *b) }

func c15CellStr(c *int) string {
	if c == nil {
		return "NULL"
	}
	return fmt.Sprint(*c)
}

// does the delivered element report row r on every judged column?  flat: NULL is the zero value; maps: key present
func c15ElemMatches(e c15Elem, r c15NRow, cols []string, kind string) string {
	for _, c := range cols {
		if c == "x" || (kind == "flats" && c == "x") {
			continue
		}
		want := r.cell(c)
		if kind == "flats" && want == nil {
			want = c15ip(0)
		}
		got, present := e[c]
		if !present {
			if kind == "flats" || kind == "structs" || kind == "struct1" {
				continue // column without a field in this struct type
			}
			return fmt.Sprintf("row id %d: the destination map has NO key %q (table cell %s)", r.ID, c, c15CellStr(want))
		}
		if !c15CellEq(got, want) {
			return fmt.Sprintf("row id %d: column %q delivered as %s, table has %s", r.ID, c, c15CellStr(got), c15CellStr(want))
		}
	}
	return ""
}

func c15SJudge(scn *c15SScn, st c15SStep, obs *c15SObs) string {
	if obs.Bad != "" {
		return obs.Bad
	}
	fin, col := st.Path, ""
	if i := strings.IndexByte(fin, ':'); i > 0 {
		fin, col = fin[:i], fin[i+1:]
	}
	if scn.Fault != nil && scn.Fault.Kind == "convert" {
		// a row whose integer column holds text: every path that READS that cell (column d selected, row within what the
		// path iterates) must report an error — which one, and what it leaves in the destination, is not demanded
		sel := scn.Chain.sel()
		switch fin {
		case "pluck":
			sel = []string{col}
		case "scanprim", "count":
			sel = []string{"id"}
		}
		E := scn.Chain.expected(scn.Rows, c15PathLimited(fin))
		badAt := -1
		for i, r := range E {
			if r.T && badAt < 0 {
				badAt = i
			}
		}
		if c15Has(sel, "d") && badAt >= 0 && (badAt == 0 || !c15PathSingle(fin)) {
			if obs.Err == "" || obs.Err == "notfound" {
				return fmt.Sprintf("row id %d holds text in the integer column d; the path read it and reported %q", E[badAt].ID, obs.Err)
			}
			return ""
		}
	}
	if strings.HasPrefix(obs.Err, "other:") {
		return "unexpected error " + obs.Err
	}
	single := c15PathSingle(fin)
	limited := c15PathLimited(fin)
	E := scn.Chain.expected(scn.Rows, limited)
	cols := scn.Chain.sel()
	switch fin {
	case "pluck":
		cols = []string{col}
	case "scanprim":
		cols = []string{"id"}
	}
	f := scn.Fault
	poisonAt := -1 // index in E of the first poisoned row
	for i, r := range E {
		if r.P && poisonAt < 0 {
			poisonAt = i
		}
	}
	anyPoison := false
	for _, r := range scn.Rows {
		anyPoison = anyPoison || r.P
	}
	if !scn.Chain.Abs {
		poisonAt, anyPoison = -1, false
	}
	if obs.Err == "sqlite" && !anyPoison {
		return "SQLite error on a table without poisoned row"
	}
	if obs.Err == "fault" && (f == nil || f.Kind != "driver") {
		return "injected error reported without an injected fault"
	}

	// ---- Count ----
	if fin == "count" {
		lim, off := c15Eff(scn.Chain.Lims)
		plain := lim < 0 && off == 0
		n := 0 // without LIMIT/OFFSET the count query returns exactly one row
		if plain {
			n = len(scn.Chain.expected(scn.Rows, false))
		}
		switch {
		case f != nil && f.Kind == "driver" && plain:
			if (f.Row <= 1) != (obs.Err == "fault") {
				return fmt.Sprintf("Count: fault after %d row(s) of the one-row count result, error reported = %q", f.Row, obs.Err)
			}
			if f.Row >= 1 && obs.Count != int64(n) {
				return fmt.Sprintf("Count = %d, Find returns %d rows", obs.Count, n)
			}
		case f != nil && f.Kind == "driver":
			// LIMIT/OFFSET kept in the count query: zero or one row; only "a reached fault is reported" is judged
			if f.Row == 0 && obs.Err != "fault" {
				return "Count: fault on the first Next not reported"
			}
		default:
			if obs.Err == "" && plain && obs.Count != int64(n) {
				return fmt.Sprintf("Count = %d, Find returns %d rows", obs.Count, n)
			}
			if obs.Err == "" && plain && poisonAt >= 0 {
				return "Count succeeded although a matching row makes the WHERE expression fail"
			}
			if obs.Err == "notfound" {
				return "Count reported ErrRecordNotFound"
			}
		}
		return ""
	}

	// ---- FindInBatches ----
	if fin == "batches" {
		flat := []int{}
		for _, b := range obs.Batches {
			if len(b) == 0 || len(b) > st.Batch {
				return fmt.Sprintf("batch of size %d (requested %d)", len(b), st.Batch)
			}
			flat = append(flat, b...)
		}
		if len(flat) > len(E) {
			return fmt.Sprintf("batches deliver %v, Find returns %d rows", flat, len(E))
		}
		for i, id := range flat {
			if id != E[i].ID {
				return fmt.Sprintf("batches deliver %v, not a prefix of Find's rows %v", flat, c15NIDs(E))
			}
			if msg := c15ElemMatches(obs.Elems[i], E[i], cols, "structs"); msg != "" {
				return msg
			}
		}
		faulted := obs.Fired || obs.Err == "sqlite"
		switch {
		case obs.Err == "notfound" || obs.Err == "abort":
			return "FindInBatches reported " + obs.Err
		case obs.Fired && obs.Err != "fault":
			return fmt.Sprintf("the driver failed while a batch query was iterated, FindInBatches reported %q after delivering %v", obs.Err, flat)
		case !faulted && obs.Err != "":
			return "FindInBatches reported " + obs.Err + " although no fault was reached"
		case !faulted && len(flat) != len(E):
			return fmt.Sprintf("batches deliver %v, Find returns %v", flat, c15NIDs(E))
		case poisonAt >= 0 && obs.Err == "":
			return "FindInBatches succeeded although a selected row makes the WHERE expression fail"
		case poisonAt >= 0 && len(flat) > poisonAt:
			return "a batch contains the poisoned row"
		}
		if obs.Fired && len(obs.Batches) != f.Query {
			return fmt.Sprintf("query %d of the batch loop failed, %d batches were delivered to the callback", f.Query, len(obs.Batches))
		}
		extra := 0
		if obs.Fired {
			extra = f.Row
		} else if obs.Err == "sqlite" {
			extra = st.Batch
		}
		if int(obs.RA) < len(flat) || int(obs.RA) > len(flat)+extra {
			return fmt.Sprintf("RowsAffected %d, rows delivered %d (partial batch ≤ %d)", obs.RA, len(flat), extra)
		}
		return ""
	}

	// ---- delivered elements of this step ----
	elems := obs.Elems
	kind := obs.Kind
	if kind == "maps" {
		// scan.go appends to *[]map: the rows returned are the appended suffix, earlier entries stay untouched
		if len(elems) < len(obs.Pre) {
			return fmt.Sprintf("a []map destination holding %d maps holds %d after the read", len(obs.Pre), len(elems))
		}
		for i := range obs.Pre {
			if canon(obs.Pre[i]) != canon(elems[i]) {
				return fmt.Sprintf("pre-existing map %d of the []map destination was modified", i)
			}
		}
		elems = elems[len(obs.Pre):]
	}
	judgeKind := kind
	if kind == "snaps" {
		judgeKind = map[string]string{"struct": "struct1", "ptr": "struct1", "flat": "flats", "map": "map1", "freshmap": "map1"}[col]
	} else if kind == "flat1" {
		judgeKind = "flats"
	}

	if single {
		// what the path must have seen of the result set
		switch {
		case f != nil && f.Kind == "driver" && f.Row == 0:
			if obs.Err == "" || (obs.Err == "notfound" && len(E) > 0) {
				return fmt.Sprintf("the first rows.Next failed, error reported = %q", obs.Err)
			}
			if obs.RA != 0 {
				return fmt.Sprintf("RowsAffected %d although no row was delivered", obs.RA)
			}
			return ""
		case len(E) == 0:
			wantNF := limited
			if wantNF != (obs.Err == "notfound") && !(obs.Err == "sqlite" && anyPoison) {
				return fmt.Sprintf("no matching row, ErrRecordNotFound reported = %v (error %q)", obs.Err == "notfound", obs.Err)
			}
			if obs.RA != 0 {
				return fmt.Sprintf("RowsAffected %d, no matching row", obs.RA)
			}
			return ""
		}
		if obs.Err == "notfound" {
			return "ErrRecordNotFound although a row matches"
		}
		if obs.Err == "sqlite" {
			return "" // the row (or one SQLite looked at before it) is poisoned; nothing delivered is judged
		}
		if poisonAt == 0 {
			return "single-row path succeeded although its row makes the WHERE expression fail"
		}
		if obs.RA != 1 {
			return fmt.Sprintf("RowsAffected %d, one row delivered", obs.RA)
		}
		return c15ElemMatches(elems[0], E[0], cols, judgeKind)
	}

	// multi-row paths
	want := E
	mustErr := ""
	if f != nil && f.Kind == "driver" && f.Row <= len(E) {
		want, mustErr = E[:f.Row], "fault"
	}
	if obs.Err != mustErr && !(mustErr == "" && obs.Err == "sqlite") {
		return fmt.Sprintf("error reported = %q, expected %q (rows delivered %d of %d)", obs.Err, mustErr, len(elems), len(E))
	}
	// finisher_api.go Scan, else-branch (no first row): the destination slice is left as it was — finding F7e when it
	// was not empty; everything else is judged as if nothing had been delivered
	kept := ""
	if obs.RA == 0 && len(elems) > 0 && canon(elems) == canon(obs.Pre) && (fin == "scan" || fin == "scanptr" || fin == "scanflat") {
		kept = fmt.Sprintf("Scan read no row (RowsAffected 0) but the destination slice still holds %d element(s); Find empties it", len(elems))
		elems = nil
	}
	if obs.Err == "sqlite" {
		if poisonAt >= 0 && kind != "prim" && len(elems) > poisonAt {
			return "the poisoned row was delivered"
		}
	} else if poisonAt >= 0 && mustErr == "" {
		return fmt.Sprintf("no error although a selected row makes the WHERE expression fail (rows delivered %d of %d)", len(elems), len(E))
	}
	if kind == "prim" {
		// every row is scanned into the one variable; RowsAffected = rows read
		n := len(want)
		if obs.Err == "sqlite" {
			if int(obs.RA) > len(E) || (poisonAt >= 0 && int(obs.RA) > poisonAt) {
				return fmt.Sprintf("RowsAffected %d, the query returns %d rows (poisoned row at %d)", obs.RA, len(E), poisonAt)
			}
			n = int(obs.RA)
		}
		if int(obs.RA) != n {
			return fmt.Sprintf("RowsAffected %d, rows read %d", obs.RA, n)
		}
		if n > 0 && !c15CellEq(elems[0]["id"], c15ip(E[n-1].ID)) {
			return fmt.Sprintf("Scan(&int) holds %s after %d rows, the last row read has id %d", c15CellStr(elems[0]["id"]), n, E[n-1].ID)
		}
		return ""
	}
	if obs.Err == "sqlite" {
		if len(elems) > len(E) {
			return fmt.Sprintf("%d rows delivered, the query returns %d", len(elems), len(E))
		}
		want = E[:len(elems)]
	}
	if len(elems) != len(want) {
		return fmt.Sprintf("%d rows delivered, want %d %v (error %q)", len(elems), len(want), c15NIDs(want), obs.Err)
	}
	if int(obs.RA) != len(elems) {
		return fmt.Sprintf("RowsAffected %d, rows returned %d", obs.RA, len(elems))
	}
	for i, e := range elems {
		if msg := c15ElemMatches(e, want[i], cols, judgeKind); msg != "" {
			return fmt.Sprintf("element %d: %s", i, msg)
		}
	}
	return kept
}

// c15SClassify: does a judged disagreement match the pattern of a listed finding of the unchanged tree?
//
//	F7d-C15-stale-null      : First/Take/Last/Find into ONE struct that already holds a value in a non-pointer or
//	                          sql.Null* field: a NULL column leaves that value in place (schema/field.go Set ignores
//	                          NULL for these kinds; only ScanRows zeroes the struct first)
//	F7e-C15-scan-keeps-dest : Scan(&slice) into a non-empty slice when the query returns no row: slice untouched
func c15SClassify(scn *c15SScn, st c15SStep, obs *c15SObs) string {
	fin := strings.SplitN(st.Path, ":", 2)[0]
	switch fin {
	case "first", "take", "last", "find1", "takeflat":
		if len(obs.Pre) != 1 || len(obs.Elems) != 1 {
			return ""
		}
		E := scn.Chain.expected(scn.Rows, c15PathLimited(fin))
		if len(E) == 0 {
			return ""
		}
		keep := map[string]*int{"b": nil} // non-resetting fields and their zero value
		if obs.Kind == "flat1" {
			keep = map[string]*int{"a": c15ip(0), "b": c15ip(0), "c": c15ip(0)}
		}
		fixed := *obs
		e := c15Elem{}
		for k, v := range obs.Elems[0] {
			e[k] = v
		}
		changed := false
		for col, zero := range keep {
			if E[0].cell(col) == nil && c15CellEq(e[col], obs.Pre[0][col]) && !c15CellEq(e[col], zero) {
				e[col], changed = zero, true
			}
		}
		fixed.Elems = []c15Elem{e}
		if changed && c15SJudge(scn, st, &fixed) == "" {
			return "F7d-C15-stale-null"
		}
	case "scan", "scanptr", "scanflat":
		if obs.RA == 0 && len(obs.Pre) > 0 && canon(obs.Pre) == canon(obs.Elems) {
			fixed := *obs
			fixed.Elems, fixed.Pre = []c15Elem{}, nil
			if c15SJudge(scn, st, &fixed) == "" {
				return "F7e-C15-scan-keeps-dest"
			}
		}
	}
	return ""
}

func c15NIDs(rows []c15NRow) []int {
	out := make([]int, len(rows))
	for i, r := range rows {
		out[i] = r.ID
	}
	return out
}

// ---- generator --------------------------------------------------------------------------------------------------

func c15GenNRows(rng *rand.Rand, n int) []c15NRow {
	rows := make([]c15NRow, 0, n)
	id := 0
	opt := func(v int) *int {
		if rng.Intn(3) == 0 {
			return nil
		}
		return &v
	}
	for i := 0; i < n; i++ {
		id += 1 + rng.Intn(3)
		r := c15NRow{ID: id, A: opt(rng.Intn(5)), B: opt(rng.Intn(5)), C: opt(rng.Intn(len(c15NStr))), D: 1 + rng.Intn(4)}
		rows = append(rows, r)
	}
	// forced shapes: NULL after non-NULL in the same column, an all-NULL row, first / last row NULL
	if n > 0 {
		switch rng.Intn(5) {
		case 0:
			k := rng.Intn(n)
			rows[k].A, rows[k].B, rows[k].C = nil, nil, nil
		case 1:
			rows[0].A, rows[0].B, rows[0].C = nil, nil, nil
		case 2:
			rows[n-1].A, rows[n-1].B, rows[n-1].C = nil, nil, nil
		case 3:
			for i := range rows {
				if i%2 == 1 {
					rows[i].A, rows[i].C = nil, nil
				} else {
					rows[i].A, rows[i].C = c15ip(1+i), c15ip(i%len(c15NStr))
				}
			}
		}
	}
	return rows
}

var c15SMulti = []string{"find", "findptr", "findflat", "findmap", "scan", "scanptr", "scanflat", "scanmaps", "scanmaps", "findmap",
	"pluck:a", "pluck:b", "pluck:c", "pluck:id", "pluck:d", "scanprim", "rows:struct", "rows:ptr", "rows:flat", "rows:map", "rows:map",
	"rows:freshmap", "count", "batches"}
var c15SSingle = []string{"first", "take", "last", "firstmap", "takemap", "lastmap", "find1", "scan1", "scanmap1", "takeflat", "scanflat1"}

func c15GenSScn(rng *rand.Rand, maxN int) *c15SScn {
	n := rng.Intn(maxN + 1)
	scn := &c15SScn{Rows: c15GenNRows(rng, n)}
	ch := &scn.Chain
	ch.Table = rng.Intn(4) == 0
	ch.Prep = rng.Intn(4) == 0
	ch.Ord = []string{"id", "id", "id desc", "d,id", "d desc,id desc"}[rng.Intn(5)]
	if rng.Intn(3) == 0 {
		// a Select list: any non-empty subset in any order (id first or last or absent)
		perm := rng.Perm(5)
		k := 1 + rng.Intn(5)
		for _, i := range perm[:k] {
			ch.Cols = append(ch.Cols, c15NCols[i])
		}
		ch.SelStr = rng.Intn(2) == 0
	}
	if rng.Intn(4) == 0 && n > 0 {
		ch.Gt = scn.Rows[rng.Intn(n)].ID
	}
	if rng.Intn(5) == 0 {
		ch.DGe = 2 + rng.Intn(2)
	}
	if rng.Intn(4) == 0 {
		ch.Lims = c15GenLims(rng, 2, n/2+2)
	}
	switch rng.Intn(10) {
	case 0, 1, 2, 3, 4: // driver fault after k rows; k ranges over "before the first row" … "after the last"
		scn.Fault = &c15SFault{Kind: "driver", Row: rng.Intn(n + 2), Err: c15FaultErrNames[rng.Intn(len(c15FaultErrNames))], Query: rng.Intn(3)}
	case 7: // a value that cannot be converted into the destination field, on one row
		if n > 0 {
			scn.Fault = &c15SFault{Kind: "convert", Row: rng.Intn(n)}
			scn.Rows[scn.Fault.Row].T = true
			ch.DGe = 0
			ch.Ord = []string{"id", "id desc"}[rng.Intn(2)]
		}
	case 5, 6: // SQLite run-time error on one row
		if n > 0 {
			scn.Fault = &c15SFault{Kind: "sqlite", Row: rng.Intn(n)}
			scn.Rows[scn.Fault.Row].P = true
			ch.Abs = true
			ch.Ord = []string{"id", "id desc"}[rng.Intn(2)]
		}
	}
	ns := 2 + rng.Intn(5)
	for i := 0; i < ns; i++ {
		st := c15SStep{Dest: []string{"fresh", "stale", "shared", "shared"}[rng.Intn(4)]}
		if rng.Intn(4) == 0 {
			st.Path = c15SSingle[rng.Intn(len(c15SSingle))]
		} else {
			st.Path = c15SMulti[rng.Intn(len(c15SMulti))]
		}
		fin := strings.SplitN(st.Path, ":", 2)[0]
		if ch.Table && (fin == "first" || fin == "last" || fin == "firstmap" || fin == "lastmap" || fin == "takemap") {
			st.Path = "take" // First/Last need the model's primary key for their ordering; a map destination needs a Model
		}
		if (fin == "pluck" || fin == "scanprim" || fin == "count") && len(ch.Cols) > 0 {
			// these finishers bring their own SELECT; combined with a user Select list they are outside the property
			st.Path = "find"
		}
		if fin == "batches" {
			lim, _ := c15Eff(ch.Lims)
			_ = lim
			if ch.Ord != "id" || (len(ch.Cols) > 0 && !c15Has(ch.Cols, "id")) {
				st.Path = "findptr" // listed finding F7 (user order) / the key cursor needs the key column
			}
			st.Batch = 1 + rng.Intn(n/2+2)
		}
		scn.Steps = append(scn.Steps, st)
	}
	return scn
}

// the witnesses of the two listed findings of this suite (re-confirmed on the real code on every run)
func c15SWitnesses() []*c15SScn {
	rows := []c15NRow{{ID: 1, A: c15ip(1), B: c15ip(5), C: c15ip(0), D: 1}, {ID: 2, D: 2}}
	return []*c15SScn{
		// F7d: Take(&x) / Take(&flat) with x pre-populated; the selected row (id 2) has NULL in a, b, c
		{Rows: rows, Chain: c15SChain{Ord: "id desc"}, Steps: []c15SStep{{Path: "take", Dest: "stale!"}, {Path: "takeflat", Dest: "stale!"},
			{Path: "scan1", Dest: "stale!"}, {Path: "find", Dest: "stale"}}},
		// F7e: Scan(&xs) with xs non-empty and a WHERE that matches nothing
		{Rows: rows, Chain: c15SChain{Ord: "id", Gt: 2}, Steps: []c15SStep{{Path: "scan", Dest: "stale"}, {Path: "find", Dest: "stale"}}},
	}
}

func c15Has(xs []string, x string) bool {
	for _, y := range xs {
		if y == x {
			return true
		}
	}
	return false
}

// ---- Lean side ---------------------------------------------------------------------------------------------------

// [column, zero value as a cell, does field.Set reset the field when the scanned value is NULL]
var c15SchFull = [][]interface{}{{"id", 0, false}, {"a", nil, true}, {"b", nil, false}, {"c", nil, true}, {"d", 0, false}, {"x", 0, false}}
var c15SchFlat = [][]interface{}{{"id", 0, false}, {"a", 0, false}, {"b", 0, false}, {"c", 0, false}, {"d", 0, false}}

func c15RecJ(e c15Elem) [][]interface{} {
	keys := make([]string, 0, len(e))
	for k := range e {
		keys = append(keys, k)
	}
	sort.Strings(keys)
	out := [][]interface{}{}
	for _, k := range keys {
		if e[k] == nil {
			out = append(out, []interface{}{k, nil})
		} else {
			out = append(out, []interface{}{k, *e[k]})
		}
	}
	return out
}

func c15RecsJ(es []c15Elem) []interface{} {
	out := []interface{}{}
	for _, e := range es {
		out = append(out, c15RecJ(e))
	}
	return out
}

// the op replaying one executed step on the model, nil when the step is outside the model
func c15SLeanOp(scn *c15SScn, st c15SStep, obs *c15SObs) []interface{} {
	f := scn.Fault
	if f != nil && f.Kind != "driver" {
		return nil
	}
	fin, col := st.Path, ""
	if i := strings.IndexByte(fin, ':'); i > 0 {
		fin, col = fin[:i], fin[i+1:]
	}
	limited := c15PathLimited(fin)
	cols := scn.Chain.sel()
	sch := c15SchFull
	path, raise := "query", false
	var dest map[string]interface{}
	switch fin {
	case "find", "findptr", "scan", "scanptr":
		dest = map[string]interface{}{"k": "structs", "sch": c15SchFull, "elems": c15RecsJ(obs.Pre)}
	case "findflat", "scanflat":
		sch = c15SchFlat
		dest = map[string]interface{}{"k": "structs", "sch": c15SchFlat, "elems": c15RecsJ(obs.Pre)}
	case "findmap", "scanmaps":
		dest = map[string]interface{}{"k": "maps", "elems": c15RecsJ(obs.Pre)}
	case "pluck":
		cols = []string{col}
		if col == "id" || col == "d" {
			sch = [][]interface{}{{col, 0, false}}
		} else {
			sch = [][]interface{}{{col, nil, false}}
		}
		dest = map[string]interface{}{"k": "structs", "sch": sch, "elems": []interface{}{}}
	case "scanprim":
		cols = []string{"id"}
		dest = map[string]interface{}{"k": "prim", "v": *obs.Pre[0]["id"]}
	case "first", "take", "last", "find1", "scan1":
		dest = map[string]interface{}{"k": "struct1", "sch": c15SchFull, "v": c15RecJ(obs.Pre[0])}
	case "takeflat", "scanflat1":
		dest = map[string]interface{}{"k": "struct1", "sch": c15SchFlat, "v": c15RecJ(obs.Pre[0])}
	case "firstmap", "takemap", "lastmap", "scanmap1":
		dest = map[string]interface{}{"k": "map1", "v": c15RecJ(obs.Pre[0])}
	case "rows":
		path = "rowsloop"
		switch col {
		case "struct", "ptr":
			pre := c15ElemOfRec(C15Null{})
			if len(obs.Pre) > 0 {
				pre = obs.Pre[0]
			}
			dest = map[string]interface{}{"k": "struct1", "sch": c15SchFull, "v": c15RecJ(pre)}
		case "flat":
			sch = c15SchFlat
			dest = map[string]interface{}{"k": "struct1", "sch": c15SchFlat, "v": c15RecJ(obs.Pre[0])}
		case "map":
			dest = map[string]interface{}{"k": "map1", "v": c15RecJ(obs.Pre[0])}
		case "freshmap":
			dest = map[string]interface{}{"k": "map1", "v": [][]interface{}{}, "fresh": true}
		}
	default:
		return nil // count, batches: modelled by Model/ReadPaths.lean / Model/Batches.lean
	}
	_ = sch
	if strings.HasPrefix(fin, "scan") {
		path = "scan"
	}
	if limited {
		raise = true
	}
	E := scn.Chain.expected(scn.Rows, limited)
	rows := []interface{}{}
	for _, r := range E {
		cells := []interface{}{}
		for _, c := range cols {
			if v := r.cell(c); v == nil {
				cells = append(cells, nil)
			} else {
				cells = append(cells, *v)
			}
		}
		rows = append(rows, cells)
	}
	var failAt interface{}
	if f != nil {
		failAt = f.Row
	}
	return []interface{}{"scan.path", path, raise, cols, rows, failAt, dest}
}

// the observation in the model's output format
func c15SObsJ(st c15SStep, obs *c15SObs) map[string]interface{} {
	fin := strings.SplitN(st.Path, ":", 2)[0]
	out := map[string]interface{}{"ra": obs.RA, "err": obs.Err == "fault", "nf": obs.Err == "notfound"}
	switch obs.Kind {
	case "prim":
		out["dest"] = *obs.Elems[0]["id"]
	case "struct1", "map1", "flat1":
		out["dest"] = c15RecJ(obs.Elems[0])
	default:
		out["dest"] = c15RecsJ(obs.Elems)
	}
	if fin == "rows" {
		delete(out, "nf")
	}
	return out
}

type c15SPending struct {
	scn *c15SScn
	idx int
	st  c15SStep
	obs *c15SObs
	op  []interface{}
}

func c15SRunScn(r *Result, w *c15SWorld, scn *c15SScn, rng *rand.Rand, pend *[]*c15SPending) {
	w.fill(scn.Rows)
	w.pool = &c15Pool{}
	nulls := 0
	for _, row := range scn.Rows {
		if row.A == nil || row.B == nil || row.C == nil {
			nulls++
		}
	}
	for i, st := range scn.Steps {
		obs := w.runStep(scn, st, rng)
		fin := strings.SplitN(st.Path, ":", 2)[0]
		fk := "none"
		if scn.Fault != nil {
			fk = scn.Fault.Kind
			if fk == "driver" {
				E := scn.Chain.expected(scn.Rows, false)
				switch {
				case scn.Fault.Row == 0:
					r.H("scan.fault.at", "before-first-row")
				case scn.Fault.Row < len(E):
					r.H("scan.fault.at", "mid")
				case scn.Fault.Row == len(E):
					r.H("scan.fault.at", "after-last-row")
				default:
					r.H("scan.fault.at", "not-reached")
				}
				r.H("scan.fault.err", scn.Fault.Err)
			}
		}
		r.Case("scan", canon([]interface{}{scn.Rows, scn.Chain, scn.Fault, st}), len(scn.Rows) > 1 && (nulls > 0 || scn.Fault != nil))
		r.H("scan.path", st.Path)
		r.H("scan.finisher", fin)
		r.H("scan.dest", st.Dest)
		r.H("scan.fault", fk)
		r.H("scan.err", strings.SplitN(obs.Err, ":", 2)[0])
		r.H("scan.rows.with.null", fmt.Sprint(nulls))
		if msg := c15SJudge(scn, st, obs); msg != "" {
			if id := c15SClassify(scn, st, obs); id != "" && listed(id) {
				r.H("scan.finding", id)
				r.KnownFinding(id, fmt.Sprintf("%s into a reused destination: %s", st.Path, msg))
			} else {
				r.Violate(Violation{Kind: "e2e", Suite: "scan", Input: scn, Observed: map[string]interface{}{"step": i, "path": st.Path, "dest": st.Dest, "out": obs},
					Expected: msg, Note: "read path under an iteration fault / NULL cells / a reused destination disagrees with the table"})
			}
		}
		if pend != nil {
			if op := c15SLeanOp(scn, st, obs); op != nil {
				*pend = append(*pend, &c15SPending{scn: scn, idx: i, st: st, obs: obs, op: op})
			}
		}
	}
}

func c15SFlush(r *Result, pend *[]*c15SPending) {
	if len(*pend) == 0 {
		return
	}
	ops := make([][]interface{}, len(*pend))
	for i, p := range *pend {
		ops[i] = p.op
	}
	outs, err := AskLean(ops)
	if err != nil {
		r.Violate(Violation{Kind: "correspondence", Suite: "scan.loop", Note: err.Error()})
		*pend = nil
		return
	}
	for i, p := range *pend {
		r.CorrCompared++
		real := canon(c15SObsJ(p.st, p.obs))
		var m map[string]interface{}
		_ = json.Unmarshal(outs[i], &m)
		if strings.HasPrefix(p.st.Path, "rows:") {
			delete(m, "nf")
		}
		r.H("scan.loop.branch", fmt.Sprint(m["branch"]))
		delete(m, "branch")
		if model := canon(m); real != model {
			r.Violate(Violation{Kind: "correspondence", Suite: "scan.loop", Input: p.scn,
				Observed: map[string]interface{}{"step": p.idx, "path": p.st.Path, "dest": p.st.Dest, "real": json.RawMessage(real), "op": p.op},
				Expected: json.RawMessage(model), Note: "real scan.go Scan / finisher_api.go Scan, ScanRows / callbacks.Query vs Lean Gorm.queryPath / dbScan / rowsLoop"})
		}
	}
	*pend = nil
}

func init() {
	register("C15", func(r *Result, rng *rand.Rand, tier string) {
		rounds, maxN := 2500, 7
		if tier == "thorough" {
			rounds, maxN = 30000, 12
		} else if tier == "search" {
			rounds, maxN = 9000, 9
		}
		w := c15SOpen()
		defer w.close()
		var pend []*c15SPending
		for _, scn := range c15SWitnesses() {
			c15SRunScn(r, w, scn, rng, &pend)
		}
		for _, id := range []string{"F7d-C15-stale-null", "F7e-C15-scan-keeps-dest"} {
			if !listed(id) {
				r.Note("finding %s is not listed: its witness is judged as a violation", id)
			}
		}
		for i := 0; i < rounds && !expired(); i++ {
			scn := c15GenSScn(rng, maxN)
			if i%150 == 0 {
				r.Sample(map[string]interface{}{"suite": "scan", "input": scn})
			}
			c15SRunScn(r, w, scn, rng, &pend)
			if len(pend) > 5000 {
				c15SFlush(r, &pend)
			}
		}
		c15SFlush(r, &pend)
	})
	replayers["C15/scan"] = func(r *Result, input json.RawMessage) {
		var scn c15SScn
		if err := json.Unmarshal(input, &scn); err != nil {
			r.Note("bad replay input: %v", err)
			return
		}
		w := c15SOpen()
		defer w.close()
		c15SRunScn(r, w, &scn, rand.New(rand.NewSource(1)), nil)
	}
}
