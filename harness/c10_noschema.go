package main

// C10 on writes that have NO schema: db.Table("t") [+ Model(&map)] + map / slice-of-maps values, so that
// Statement.Schema == nil in every helper of the write path (SelectAndOmitColumns' processColumn and permission loop,
// ConvertToAssignments' map branch, ConvertMapToValuesForCreate, ConvertSliceOfMapToValuesForCreate, the UpdateAll
// block, Delete's identity block).  "Select/Omit narrow or widen these sets; only rows matching the chain's conditions
// change" must hold whether or not a schema is known.
//
// Suites:
//   sao-ns        (correspondence) Lean selectAndOmitO (none | some schema) vs the exported Statement.SelectAndOmitColumns
//                 on statements WITHOUT and WITH a parsed schema x Select/Omit lists in every spelling x requireCreate/Update
//   stmt-ns       (correspondence) Lean assignmentsOfMapO / createColumnsMapO / createColumnsMapsO / upsertAssignmentsO /
//                 modelCondsO (schema = none) vs SET list / INSERT column list / DO UPDATE list / WHERE key columns of the
//                 real DryRun statement of Table(t).Updates(map) | Update | UpdateColumns(map) | UpdateColumn |
//                 Create(map | &map | []map | &[]map) [+ OnConflict{UpdateAll}] | Delete
//   table-diff-ns (e2e, model-free) a SQLite table dumped around every step of a 1-3 step history of schema-less writes
//                 (fresh chain per step, or ONE handle kept in a variable and reused)
//
// What table-diff-ns demands (nothing else):
//   * rows the chain's condition does not name never change and never disappear; a create changes no existing row;
//   * on a targeted row / a created row, a given key that is PLAINLY selected (or no Select list exists) and not named by
//     the Omit list under any reading holds the given value (zero values and nil included; `col + 1000` for an Expr);
//   * a given key that is PLAINLY omitted, or that the Select list does not name under ANY reading, is not written
//     (cell unchanged / column default in a created row); a column not given at all is not written.
// Latitude: gorm matches Select/Omit names of a schema-less statement LITERALLY ("*", "t.col", "`col`", "Col", "COL"
// name nothing); the text does not say how such spellings resolve without a schema, so a key that only such a
// spelling names may or may not be written.  Targeted rows of a Delete are not judged (hard vs soft delete is not
// C10's business).  When the write returns an error only the "is not written / never changes" demands are judged.

import (
	"database/sql"
	"encoding/json"
	"fmt"
	"math/rand"
	"reflect"
	"sort"
	"strings"
	"time"

	"gorm.io/gorm"
	"gorm.io/gorm/clause"
)

type c10NSCol struct {
	Name string `json:"name"`
	Kind string `json:"kind"` // int | str
	Def  string `json:"def"`  // "" | SQL default literal
}

type c10NSStep struct {
	Path    string            `json:"path"`
	CondIDs []int             `json:"cond_ids"`
	Map     [][]interface{}   `json:"map"`
	MapRows [][][]interface{} `json:"map_rows"`
}

type c10NS struct {
	Cols     []c10NSCol  `json:"cols"`  // without the key column `id`
	Table    string      `json:"table"` // spelling handed to db.Table
	ModelMap bool        `json:"model_map"`
	SelForm  int         `json:"sel_form"`
	Selects  []string    `json:"selects"`
	Omits    []string    `json:"omits"`
	Upsert   bool        `json:"upsert"` // stmt-ns only: Clauses(OnConflict{UpdateAll: true}) on creates
	Reuse    bool        `json:"reuse"`
	Steps    []c10NSStep `json:"steps"`
}

var c10NSNames = []string{"name", "age", "score", "note", "flag", "rank", "city", "qty", "updated_at", "created_at", "deleted_at", "nick_name"}
var c10NSTables = []string{c10Table, c10Table, c10Table, c10Table + " as u", "`" + c10Table + "`", "main." + c10Table}
var c10NSUpdPaths = []string{"updates_map", "updates_map", "update1", "updcols_map", "updcol1"}
var c10NSCrePaths = []string{"create_map", "create_mapptr", "create_maps", "create_mapsptr", "create_batches"}

func c10NSCamel(col string) string {
	out := ""
	for _, p := range strings.Split(col, "_") {
		if p != "" {
			out += strings.ToUpper(p[:1]) + p[1:]
		}
	}
	return out
}

// c10NSAlias: the name gorm knows the table by (Statement.Table)
func c10NSAlias(table string) string {
	if strings.HasSuffix(table, " as u") {
		return "u"
	}
	return c10Table
}

// c10NSSpell: one Select/Omit entry naming col in some spelling; plain = the bare column name
func c10NSSpell(rng *rand.Rand, col, table string, star bool) (s string, kind string) {
	switch n := rng.Intn(100); {
	case n < 58:
		return col, "column"
	case n < 68:
		return c10NSCamel(col), "field-name-like"
	case n < 76:
		return c10NSAlias(table) + "." + col, "table.col"
	case n < 82:
		return "`" + col + "`", "quoted"
	case n < 86:
		return strings.ToUpper(col), "upper-case"
	case n < 92:
		return "zzz", "unknown"
	case n < 97 && star:
		return "*", "star"
	case star:
		return c10NSAlias(table) + ".*", "table.*"
	}
	return col, "column"
}

// ---- the readings of a Select/Omit list -------------------------------------------------------------------

func c10NSPlain(list []string, col string) bool { return c10Has(list, col) }

// c10NSGenerous: does SOME entry name col under SOME reasonable reading
func c10NSGenerous(list []string, col string) bool {
	for _, n := range list {
		x := strings.ReplaceAll(n, "`", "")
		if i := strings.LastIndex(x, "."); i >= 0 {
			x = x[i+1:]
		}
		if x == "*" || strings.EqualFold(x, col) || strings.EqualFold(x, strings.ReplaceAll(col, "_", "")) {
			return true
		}
	}
	return false
}

// c10NSRule: must the given key be written / must it not be written (neither = latitude)
func c10NSRule(e *c10NS, col string) (must, mustNot bool) {
	must = (len(e.Selects) == 0 || c10NSPlain(e.Selects, col)) && !c10NSGenerous(e.Omits, col)
	mustNot = c10NSPlain(e.Omits, col) || (len(e.Selects) > 0 && !c10NSGenerous(e.Selects, col))
	return
}

// ---- building the chain --------------------------------------------------------------------------------------

func c10NSChain(db *gorm.DB, e *c10NS) *gorm.DB {
	tx := db
	if e.ModelMap {
		tx = tx.Model(&map[string]interface{}{})
	}
	tx = tx.Table(e.Table)
	if len(e.Selects) > 0 {
		s := append([]string{}, e.Selects...)
		switch e.SelForm % 3 {
		case 0:
			tx = tx.Select(s)
		case 1:
			args := []interface{}{}
			for _, x := range s[1:] {
				args = append(args, x)
			}
			tx = tx.Select(s[0], args...)
		default:
			tx = tx.Select(s[0], s[1:])
		}
	}
	if len(e.Omits) > 0 {
		o := append([]string{}, e.Omits...)
		joinable := len(o) > 1 && e.SelForm%2 == 1
		for _, x := range o {
			if strings.ContainsAny(x, "`*") { // the comma form splits at every character that cannot be part of a name
				joinable = false
			}
		}
		if joinable {
			tx = tx.Omit(strings.Join(o, ", "))
		} else {
			tx = tx.Omit(o...)
		}
	}
	return tx
}

func c10NSMaps(st *c10NSStep) []map[string]interface{} {
	ms := []map[string]interface{}{}
	for _, r := range st.MapRows {
		ms = append(ms, c10MapOf(r))
	}
	return ms
}

func c10NSExec(tx *gorm.DB, e *c10NS, st *c10NSStep) *gorm.DB {
	if st.CondIDs != nil {
		tx = tx.Where("`id` IN ?", st.CondIDs)
	}
	if e.Upsert && strings.HasPrefix(st.Path, "create") {
		tx = tx.Clauses(clause.OnConflict{UpdateAll: true})
	}
	one := func() (string, interface{}) {
		k := fmt.Sprint(st.Map[0][0])
		return k, c10MapOf(st.Map[:1])[k]
	}
	switch st.Path {
	case "updates_map":
		return tx.Updates(c10MapOf(st.Map))
	case "updcols_map":
		return tx.UpdateColumns(c10MapOf(st.Map))
	case "update1":
		k, v := one()
		return tx.Update(k, v)
	case "updcol1":
		k, v := one()
		return tx.UpdateColumn(k, v)
	case "create_map":
		return tx.Create(c10MapOf(st.Map))
	case "create_mapptr":
		m := c10MapOf(st.Map)
		return tx.Create(&m)
	case "create_maps":
		return tx.Create(c10NSMaps(st))
	case "create_mapsptr":
		ms := c10NSMaps(st)
		return tx.Create(&ms)
	case "create_batches":
		ms := c10NSMaps(st)
		return tx.CreateInBatches(&ms, 2)
	case "delete_map":
		return tx.Delete(&map[string]interface{}{})
	case "delete_nil":
		return tx.Delete(nil)
	}
	panic("unknown ns path " + st.Path)
}

// ---- generator -----------------------------------------------------------------------------------------------

func c10NSGenMap(rng *rand.Rand, cols []c10NSCol, create bool, salt int, withID int, expr bool, r *Result) [][]interface{} {
	out := [][]interface{}{}
	perm := rng.Perm(len(cols))
	n := 1 + rng.Intn(4)
	if n > len(cols) {
		n = len(cols)
	}
	for _, idx := range perm[:n] {
		c := cols[idx]
		var val interface{}
		vk := "non-zero"
		switch rng.Intn(5) {
		case 0:
			vk = "zero"
			if c.Kind == "str" {
				val = ""
			} else {
				val = 0
			}
		case 1:
			vk = "nil"
		default:
			if c.Kind == "str" {
				val = fmt.Sprintf("w%d_%d", salt, idx)
			} else {
				val = 1000 + 10*salt + idx
			}
		}
		if expr && !create && c.Kind == "int" && rng.Intn(6) == 0 {
			vk, val = "expr", "expr:"+c.Name
		}
		if r != nil {
			r.H("c10.ns.map.value", vk)
		}
		out = append(out, []interface{}{c.Name, val})
	}
	if withID != 0 {
		out = append(out, []interface{}{"id", withID})
	}
	if rng.Intn(12) == 0 {
		out = append(out, []interface{}{"zzz", 1}) // a key that is no column: only ever legal when filtered out
		if r != nil {
			r.H("c10.ns.map.value", "unknown-key")
		}
	}
	return out
}

func genC10NS(rng *rand.Rand, r *Result, dry bool) *c10NS {
	e := &c10NS{Table: c10NSTables[rng.Intn(len(c10NSTables))], ModelMap: rng.Intn(6) == 0, SelForm: rng.Intn(6)}
	names := append([]string{}, c10NSNames...)
	rng.Shuffle(len(names), func(i, j int) { names[i], names[j] = names[j], names[i] })
	for _, n := range names[:3+rng.Intn(4)] {
		c := c10NSCol{Name: n, Kind: []string{"int", "str"}[rng.Intn(2)]}
		if strings.HasSuffix(n, "_at") {
			c.Kind = "int"
		}
		if rng.Intn(5) == 0 {
			c.Def = map[string]string{"int": "7", "str": "'dd'"}[c.Kind]
		}
		e.Cols = append(e.Cols, c)
	}
	pick := func(max int, star bool, hist string) []string {
		out := []string{}
		for i, n := 0, rng.Intn(max+1); i < n; i++ {
			col := e.Cols[rng.Intn(len(e.Cols))].Name
			if rng.Intn(10) == 0 {
				col = "id"
			}
			s, kind := c10NSSpell(rng, col, e.Table, star)
			if r != nil {
				r.H(hist, kind)
			}
			out = append(out, s)
		}
		if len(out) == 0 {
			return nil
		}
		return out
	}
	switch rng.Intn(10) {
	case 0, 1:
	case 2, 3, 4, 5:
		e.Selects = pick(3, true, "c10.ns.select.form")
	case 6, 7:
		e.Omits = pick(2, false, "c10.ns.omit.form")
	default:
		e.Selects = pick(3, true, "c10.ns.select.form")
		e.Omits = pick(2, false, "c10.ns.omit.form")
	}
	nsteps := 1
	if !dry {
		nsteps = 1 + rng.Intn(3)
		e.Reuse = nsteps > 1 && rng.Intn(2) == 0
	} else {
		e.Upsert = rng.Intn(5) == 0
	}
	nextID := 101
	for s := 0; s < nsteps; s++ {
		st := c10NSStep{}
		switch n := rng.Intn(10); {
		case n < 6:
			st.Path = c10NSUpdPaths[rng.Intn(len(c10NSUpdPaths))]
		case n < 9:
			st.Path = c10NSCrePaths[rng.Intn(len(c10NSCrePaths))]
			if dry && st.Path == "create_batches" { // CreateInBatches builds its statements on sub-sessions: nothing to observe on the returned handle
				st.Path = "create_maps"
			}
		default:
			st.Path = []string{"delete_map", "delete_nil"}[rng.Intn(2)]
		}
		if !strings.HasPrefix(st.Path, "create") {
			st.CondIDs = []int{}
			for k := 1; k <= 5; k++ {
				if rng.Intn(2) == 0 {
					st.CondIDs = append(st.CondIDs, k)
				}
			}
			if len(st.CondIDs) == 5 {
				st.CondIDs = st.CondIDs[:4]
			}
			if len(st.CondIDs) == 0 {
				st.CondIDs = []int{1 + rng.Intn(5)}
			}
		}
		id := func() int {
			if rng.Intn(3) == 0 {
				return 0
			}
			nextID++
			return nextID
		}
		switch {
		case strings.HasPrefix(st.Path, "upd"):
			st.Map = c10NSGenMap(rng, e.Cols, false, 7+s, 0, true, r)
		case st.Path == "create_map" || st.Path == "create_mapptr":
			st.Map = c10NSGenMap(rng, e.Cols, true, 7+s, id(), false, r)
		case strings.HasPrefix(st.Path, "create"):
			for i, n := 0, 1+rng.Intn(3); i < n; i++ {
				st.MapRows = append(st.MapRows, c10NSGenMap(rng, e.Cols, true, 3+i+4*s, id(), false, nil))
			}
		}
		if r != nil {
			r.H("c10.ns.path", st.Path)
		}
		if !dry && strings.HasPrefix(st.Path, "create") && (strings.Contains(e.Table, "`") || strings.Contains(e.Table, " as ")) {
			// gorm's INSERT names the table by Statement.Table (the alias / nothing): such a create always fails
			e.Table = []string{c10Table, "main." + c10Table}[rng.Intn(2)]
			for i, x := range e.Selects {
				e.Selects[i] = strings.Replace(x, "u.", c10Table+".", 1)
			}
			for i, x := range e.Omits {
				e.Omits[i] = strings.Replace(x, "u.", c10Table+".", 1)
			}
		}
		e.Steps = append(e.Steps, st)
	}
	if r != nil {
		r.H("c10.ns.table", e.Table)
		r.H("c10.ns.chain", fmt.Sprintf("model_map=%v reuse=%v steps=%d", e.ModelMap, e.Reuse, len(e.Steps)))
		r.H("c10.ns.select", fmt.Sprintf("sel=%d omit=%d", len(e.Selects), len(e.Omits)))
	}
	return e
}

// ---- e2e -------------------------------------------------------------------------------------------------------

func c10NSSetup(e *c10NS) (*gorm.DB, *sql.DB) {
	db, _, sqlDB := OpenRec(&gorm.Config{NowFunc: fixedNowFunc})
	defs := []string{"`id` integer primary key"}
	for _, c := range e.Cols {
		typ := "integer"
		if c.Kind == "str" {
			typ = "text"
		}
		d := "`" + c.Name + "` " + typ
		if c.Def != "" {
			d += " DEFAULT " + c.Def
		}
		defs = append(defs, d)
	}
	defs = append(defs, "k_ integer")
	if _, err := sqlDB.Exec("CREATE TABLE " + c10Table + " (" + strings.Join(defs, ", ") + ")"); err != nil {
		panic(fmt.Sprint(err, defs))
	}
	for i := 1; i <= 5; i++ {
		cols, ph, args := []string{"`id`", "k_"}, []string{"?", "?"}, []interface{}{i, i}
		for j, c := range e.Cols {
			cols, ph = append(cols, "`"+c.Name+"`"), append(ph, "?")
			if c.Kind == "str" {
				args = append(args, fmt.Sprintf("s%d_%d", i, j))
			} else {
				args = append(args, 100*i+j)
			}
		}
		if _, err := sqlDB.Exec("INSERT INTO "+c10Table+" ("+strings.Join(cols, ",")+") VALUES ("+strings.Join(ph, ",")+")", args...); err != nil {
			panic(err)
		}
	}
	return db, sqlDB
}

func c10NSDefault(c c10NSCol) string {
	if c.Def == "" {
		return "<nil>"
	}
	return strings.Trim(c.Def, "'")
}

// c10NSGiven: the value the map gives for col (normalised as the table dump prints it)
func c10NSGiven(pairs [][]interface{}, col string, was string) (val string, ok bool) {
	for _, p := range pairs {
		if fmt.Sprint(p[0]) != col {
			continue
		}
		switch x := p[1].(type) {
		case nil:
			return "<nil>", true
		case string:
			if strings.HasPrefix(x, "expr:") {
				if was == "<nil>" { // NULL + 1000 IS NULL
					return "<nil>", true
				}
				return fmt.Sprint(c10Int(json.Number(was)) + 1000), true
			}
			return x, true
		default:
			return fmt.Sprint(c10Int(x)), true
		}
	}
	return "", false
}

// c10NSJudge runs the history on a fresh table; "" or the violated demand
func c10NSJudge(e *c10NS, r *Result) (verdict string, detail map[string]interface{}) {
	db, sqlDB := c10NSSetup(e)
	defer sqlDB.Close()
	detail = map[string]interface{}{}
	bad := func(format string, a ...interface{}) string { return fmt.Sprintf(format, a...) }
	defer func() {
		if p := recover(); p != nil { // gorm panics of its own on input outside this property are counted, not judged
			if r != nil {
				r.H("c10.ns.gorm-panic", fmt.Sprint(p))
			}
			verdict, detail = "", map[string]interface{}{"panic": fmt.Sprint(p)}
		}
	}()
	var base *gorm.DB
	if e.Reuse {
		base = c10NSChain(db, e).Session(&gorm.Session{})
	}
	for si := range e.Steps {
		st := &e.Steps[si]
		before := c10DumpTable(sqlDB, "id")
		tx := base
		if !e.Reuse {
			tx = c10NSChain(db, e)
		}
		tx = c10NSExec(tx, e, st)
		after := c10DumpTable(sqlDB, "id")
		failed := tx.Error != nil
		detail[fmt.Sprintf("step%d", si)] = map[string]interface{}{"error": fmt.Sprint(tx.Error), "rows_affected": tx.RowsAffected}
		if r != nil {
			r.H("c10.ns.error", fmt.Sprint(failed))
			if failed {
				msg := tx.Error.Error()
				if len(msg) > 32 {
					msg = msg[:32]
				}
				r.H("c10.ns.error-kind", st.Path+"/"+e.Table+": "+msg)
			}
		}
		isCreate := strings.HasPrefix(st.Path, "create")
		isDelete := strings.HasPrefix(st.Path, "delete")
		ks := []int{}
		for k := range before.Old {
			ks = append(ks, k)
		}
		sort.Ints(ks)
		for _, k := range ks {
			b, a := before.Old[k], after.Old[k]
			var id int
			fmt.Sscan(b["id"], &id)
			targeted := !isCreate && containsInt(st.CondIDs, id)
			if a == nil {
				if !targeted || !isDelete {
					return bad("step %d (%s): row %d disappeared although it is not a targeted row of a delete", si, st.Path, k), detail
				}
				continue
			}
			if isDelete && targeted {
				continue
			}
			for _, c := range append([]c10NSCol{{Name: "id", Kind: "int"}}, e.Cols...) {
				was, is := b[c.Name], a[c.Name]
				if !targeted {
					if was != is {
						return bad("step %d (%s): row %d is not targeted but column %s changed %q -> %q", si, st.Path, k, c.Name, was, is), detail
					}
					continue
				}
				pairs := st.Map
				if st.Path == "update1" || st.Path == "updcol1" {
					pairs = st.Map[:1]
				}
				v, given := c10NSGiven(pairs, c.Name, was)
				if !given {
					if was != is {
						return bad("step %d (%s): row %d: column %s is not given but changed %q -> %q", si, st.Path, k, c.Name, was, is), detail
					}
					continue
				}
				must, mustNot := c10NSRule(e, c.Name)
				switch {
				case mustNot:
					if was != is {
						return bad("step %d (%s): row %d: key %s is omitted / outside the Select list but the column changed %q -> %q", si, st.Path, k, c.Name, was, is), detail
					}
				case failed:
				case must:
					if is != v {
						return bad("step %d (%s): row %d: key %s is given and passes Select/Omit, expected %q, found %q (was %q)", si, st.Path, k, c.Name, v, is, was), detail
					}
				default:
					if is != v && is != was {
						return bad("step %d (%s): row %d: column %s holds %q, neither the old %q nor the given %q", si, st.Path, k, c.Name, is, was, v), detail
					}
				}
			}
		}
		if !isCreate {
			if len(after.New) != len(before.New) {
				return bad("step %d (%s): an update/delete changed the number of created rows", si, st.Path), detail
			}
		} else {
			inputs := st.MapRows
			if st.Map != nil {
				inputs = [][][]interface{}{st.Map}
			}
			fresh := after.New[len(before.New):]
			if len(after.New) < len(before.New) {
				return bad("step %d (%s): a create removed rows", si, st.Path), detail
			}
			aligned := len(fresh) == len(inputs) && !failed
			if r != nil && !failed {
				r.H("c10.ns.new-rows-aligned", fmt.Sprint(aligned))
			}
			for i, row := range fresh {
				for _, c := range e.Cols {
					is := row[c.Name]
					var v string
					given, elsewhere := false, false
					if aligned {
						v, given = c10NSGiven(inputs[i], c.Name, "")
					}
					for _, in := range inputs {
						if _, g := c10NSGiven(in, c.Name, ""); g {
							elsewhere = true
						}
					}
					must, mustNot := c10NSRule(e, c.Name)
					switch {
					case mustNot || !elsewhere:
						if is != c10NSDefault(c) {
							return bad("step %d (%s): created row %d: column %s is omitted / outside the Select list / not given but holds %q instead of the column default %q", si, st.Path, i, c.Name, is, c10NSDefault(c)), detail
						}
					case !aligned || !given: // a key only another row of the slice gives is sent as NULL
					case must:
						if is != v {
							return bad("step %d (%s): created row %d: key %s is given and passes Select/Omit, expected %q, found %q", si, st.Path, i, c.Name, v, is), detail
						}
					}
				}
			}
		}
		// rows created by this step become ordinary (never targeted) rows of the following steps
		if _, err := sqlDB.Exec("UPDATE " + c10Table + " SET k_ = 1000 + id WHERE k_ IS NULL"); err != nil {
			panic(err)
		}
	}
	return "", detail
}

func c10NSRun(r *Result, e *c10NS) {
	verdict, detail := c10NSJudge(e, r)
	if verdict != "" {
		r.Violate(Violation{Kind: "e2e", Suite: "table-diff-ns", Input: e, Observed: detail, Expected: verdict,
			Note: "schema-less write (Table + map, no model): cell-by-cell diff of the table around each real write vs what the property predicts"})
	}
}

// ---- stmt-ns: the Lean question of a one-step DryRun case ---------------------------------------------------------

func c10NSLeanOp(e *c10NS) []interface{} {
	st := &e.Steps[0]
	sel, om := e.Selects, e.Omits
	if sel == nil {
		sel = []string{}
	}
	if om == nil {
		om = []string{}
	}
	switch st.Path {
	case "updates_map", "update1":
		m := st.Map
		if st.Path == "update1" {
			m = m[:1]
		}
		return []interface{}{"c10.updmapO", nil, sel, om, false, c10MapKeysForLean(m), []string{}}
	case "updcols_map", "updcol1":
		m := st.Map
		if st.Path == "updcol1" {
			m = m[:1]
		}
		return []interface{}{"c10.updmapO", nil, sel, om, true, c10MapKeysForLean(m), []string{}}
	case "create_map", "create_mapptr":
		return []interface{}{"c10.createmapO", nil, sel, om, c10KeyNames(st.Map), e.Upsert}
	case "create_maps", "create_mapsptr", "create_batches":
		rs := [][]string{}
		for _, r := range st.MapRows {
			rs = append(rs, c10KeyNames(r))
		}
		return []interface{}{"c10.createmapsO", nil, sel, om, rs}
	}
	return []interface{}{"c10.delcondsO", nil, []string{}, []string{}, e.ModelMap}
}

func c10NSExpected(e *c10NS, out json.RawMessage) c10Obs {
	o := c10Obs{Kind: "none", Insert: []string{}, Set: []string{}, Where: []string{}, Upsert: []string{}, Conflict: []string{}}
	strs := func(raw json.RawMessage) []string {
		l := []string{}
		_ = json.Unmarshal(raw, &l)
		if l == nil {
			l = []string{}
		}
		return l
	}
	var parts []json.RawMessage
	st := &e.Steps[0]
	switch {
	case strings.HasPrefix(st.Path, "upd"):
		_ = json.Unmarshal(out, &parts)
		o.Set, o.Where = strs(parts[0]), strs(parts[1])
		if len(o.Set) > 0 {
			o.Kind = "UPDATE"
		}
	case st.Path == "create_map" || st.Path == "create_mapptr":
		_ = json.Unmarshal(out, &parts)
		o.Kind = "INSERT"
		o.Insert, o.Upsert = strs(parts[0]), strs(parts[1])
	case strings.HasPrefix(st.Path, "create"):
		o.Kind = "INSERT"
		seen := map[string]bool{}
		for _, k := range strs(out) {
			if !seen[k] {
				seen[k] = true
				o.Insert = append(o.Insert, k)
			}
		}
		sort.Strings(o.Insert)
	default:
		o.Kind = "DELETE"
		o.Where = strs(out)
	}
	return o
}

func init() {
	// correspondence: SelectAndOmitColumns on statements without (and with) a schema
	register("C10", func(r *Result, rng *rand.Rand, tier string) {
		n := 1200
		if tier == "thorough" {
			n = 40000
		} else if tier == "search" {
			n = 300
		}
		t0 := time.Now()
		defer func() { r.Note("c10 sao-ns: n=%d took %.1fs", n, time.Since(t0).Seconds()) }()
		db := c10OpenDry()
		var ops [][]interface{}
		var reals []string
		var inputs []interface{}
		for i := 0; i < n && !expired(); i++ {
			if i%400 == 399 {
				db = c10OpenDry()
			}
			rc, ru := rng.Intn(2) == 0, rng.Intn(2) == 0
			var stmt *gorm.Statement
			var schemaArg interface{}
			var in map[string]interface{}
			if i%3 != 2 { // no schema: the names are whatever the caller wrote
				e := genC10NS(rng, nil, true)
				sel, om := e.Selects, e.Omits
				if rng.Intn(4) == 0 {
					sel = append(sel, e.Cols[0].Name)
				}
				if sel == nil {
					sel = []string{}
				}
				if om == nil {
					om = []string{}
				}
				stmt = &gorm.Statement{DB: db, Table: c10NSAlias(e.Table), Selects: sel, Omits: om}
				in = map[string]interface{}{"schema": nil, "table": stmt.Table, "selects": sel, "omits": om, "requireCreate": rc, "requireUpdate": ru}
				r.H("c10.sao-ns.schema", "nil")
			} else {
				s := genC10SchemaK(rng, true)
				sch, _, err := c10Parse(db, s)
				if err != nil {
					continue
				}
				sel := c10GenNames(rng, sch, 3, true, nil, "")
				om := c10GenNames(rng, sch, 2, true, nil, "")
				stmt = &gorm.Statement{DB: db, Table: c10Table, Selects: sel, Omits: om}
				if err := stmt.Parse(reflect.New(s.Type()).Interface()); err != nil {
					continue
				}
				schemaArg = c10Export(sch)
				in = map[string]interface{}{"schema": s, "selects": sel, "omits": om, "requireCreate": rc, "requireUpdate": ru}
				r.H("c10.sao-ns.schema", "parsed")
			}
			res, restricted := stmt.SelectAndOmitColumns(rc, ru)
			kv := [][]interface{}{}
			for k, v := range res {
				kv = append(kv, []interface{}{k, v})
			}
			sort.Slice(kv, func(a, b int) bool { return kv[a][0].(string) < kv[b][0].(string) })
			ops = append(ops, []interface{}{"c10.saoO", schemaArg, stmt.Selects, stmt.Omits, rc, ru})
			reals = append(reals, canon(map[string]interface{}{"r": kv, "restricted": restricted}))
			inputs = append(inputs, in)
			r.H("c10.sao-ns.restricted", fmt.Sprintf("schema=%v sel=%v restricted=%v", schemaArg != nil, len(stmt.Selects) > 0, restricted))
		}
		outs, err := AskLean(ops)
		if err != nil {
			r.Violate(Violation{Kind: "correspondence", Suite: "sao-ns", Note: err.Error()})
			return
		}
		for i := range ops {
			var m struct {
				R          [][]interface{} `json:"r"`
				Restricted bool            `json:"restricted"`
			}
			_ = json.Unmarshal(outs[i], &m)
			sort.Slice(m.R, func(a, b int) bool { return fmt.Sprint(m.R[a][0]) < fmt.Sprint(m.R[b][0]) })
			if m.R == nil {
				m.R = [][]interface{}{}
			}
			got := canon(map[string]interface{}{"r": m.R, "restricted": m.Restricted})
			r.CorrCompared++
			mm := inputs[i].(map[string]interface{})
			r.Case("sao-ns", canon(ops[i][1:]), len(mm["selects"].([]string))+len(mm["omits"].([]string)) > 0)
			if got != reals[i] {
				r.Violate(Violation{Kind: "correspondence", Suite: "sao-ns", Input: inputs[i], Observed: reals[i], Expected: got,
					Note: "Statement.SelectAndOmitColumns (observed) vs Lean selectAndOmitO (expected); schema nil = statement without model"})
			}
		}
	})

	// correspondence: column lists of the real DryRun statement of a schema-less write vs the Lean write set
	register("C10", func(r *Result, rng *rand.Rand, tier string) {
		n := 1500
		if tier == "thorough" {
			n = 50000
		} else if tier == "search" {
			n = 300
		}
		t0 := time.Now()
		defer func() { r.Note("c10 stmt-ns: n=%d took %.1fs", n, time.Since(t0).Seconds()) }()
		db := c10OpenDry()
		var ops [][]interface{}
		var cases []*c10NS
		var reals []c10Obs
		var errs []string
		for i := 0; i < n && !expired(); i++ {
			e := genC10NS(rng, r, true)
			var tx *gorm.DB
			func() {
				defer func() {
					if p := recover(); p != nil {
						r.Violate(Violation{Kind: "correspondence", Suite: "stmt-ns", Input: e, Observed: fmt.Sprint("panic: ", p), Note: "gorm panicked while building the DryRun statement of a schema-less write"})
					}
				}()
				tx = c10NSExec(c10NSChain(db, e), e, &e.Steps[0])
			}()
			if tx == nil {
				continue
			}
			obs := c10Observe(tx)
			if strings.HasPrefix(e.Steps[0].Path, "create_maps") || e.Steps[0].Path == "create_batches" {
				sort.Strings(obs.Insert)
			}
			if obs.Kind == "DELETE" {
				obs.Where = []string{} // the chain's own `id` IN (…) is not a key condition gorm added
				if strings.Count(tx.Statement.SQL.String(), "`id`") != 1 {
					obs.Where = []string{"id"}
				}
			}
			ops = append(ops, c10NSLeanOp(e))
			cases = append(cases, e)
			reals = append(reals, obs)
			errs = append(errs, fmt.Sprint(tx.Error))
			r.H("c10.stmt-ns.real-kind", obs.Kind)
			r.H("c10.stmt-ns.set-size", fmt.Sprint(len(obs.Set)+len(obs.Insert)))
			if i%301 == 0 {
				r.Sample(map[string]interface{}{"suite": "stmt-ns", "input": e, "real": obs, "sql": tx.Statement.SQL.String()})
			}
		}
		outs, err := AskLean(ops)
		if err != nil {
			r.Violate(Violation{Kind: "correspondence", Suite: "stmt-ns", Note: err.Error()})
			return
		}
		for i, e := range cases {
			if string(outs[i]) == `"bad-op"` {
				r.Violate(Violation{Kind: "correspondence", Suite: "stmt-ns", Input: e, Note: "Lean driver does not know the op"})
				continue
			}
			want := c10NSExpected(e, outs[i])
			if want.Kind == "INSERT" && reals[i].Kind == "none" {
				want.Kind = "none" // create_batches of an empty … never generated; kept for symmetry
			}
			r.CorrCompared++
			r.Case("stmt-ns", canon(e), len(e.Selects)+len(e.Omits) > 0)
			if canon(want) != canon(reals[i]) {
				r.Violate(Violation{Kind: "correspondence", Suite: "stmt-ns", Input: e, Observed: reals[i], Expected: want,
					Note: "column lists of the real DryRun statement of a schema-less write (observed) vs Lean write set with schema = none (expected); gorm error: " + errs[i]})
			}
		}
	})

	// e2e: histories of schema-less writes on a real table
	register("C10", func(r *Result, rng *rand.Rand, tier string) {
		n := 900
		if tier == "thorough" {
			n = 30000
		} else if tier == "search" {
			n = 2500
		}
		t0 := time.Now()
		defer func() { r.Note("c10 table-diff-ns: n=%d took %.1fs", n, time.Since(t0).Seconds()) }()
		for i := 0; i < n && !expired(); i++ {
			e := genC10NS(rng, r, false)
			r.Case("table-diff-ns", canon(e), len(e.Selects)+len(e.Omits) > 0)
			if i%199 == 0 {
				r.Sample(map[string]interface{}{"suite": "table-diff-ns", "input": e})
			}
			c10NSRun(r, e)
		}
	})
	replayers["C10/table-diff-ns"] = func(r *Result, input json.RawMessage) {
		var e c10NS
		dec := json.NewDecoder(strings.NewReader(string(input)))
		dec.UseNumber()
		if err := dec.Decode(&e); err != nil {
			r.Violate(Violation{Kind: "e2e", Suite: "table-diff-ns", Note: "cannot decode replay input: " + err.Error()})
			return
		}
		c10NSRun(r, &e)
	}
}
