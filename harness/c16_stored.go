package main

// C16 (round 5) — what the CALLER'S VALUE looks like after Create with an OnConflict rule, in particular when the
// statement stored nothing, and what a following Save of that value does.
//
// The `rule` suite judged the table only and ran on the RETURNING dialector only.  Here the same generated programs
// (model C16K: key + unique(a,b) + partial unique slug; every rule shape; struct / map / slice / Save(slice) sources)
// run on BOTH dialectors (RETURNING and the LastInsertId back-fill — c03Open), on ONE connection that has seen an
// earlier successful insert (the rows of the table itself, optionally a row of ANOTHER table with a far-away key),
// with the conflict mostly on a unique NON-key column while the value's own key is zero, inside / outside a user
// transaction, with / without the default transaction, `[]T` / `[]*T`, maps with and without a model.
//
// Suite `stored` (e2e), judged per program:
//   1. table and error class against the rule reference (c16kRefRun), as before;
//   2. the in-memory keys, in the cases the property text settles:
//        - NOTHING was stored (every value hit DO NOTHING / a false guard / the statement failed): every key is what the
//          caller gave (a zero key stays zero, a map gains no entry) — a value that was not stored carries no key;
//        - one struct, inserted: a zero key became the key of the row that now holds the value; a given key is kept;
//        - one struct, existing row updated, RETURNING: a zero key became that row's key;
//        - a slice of keyless values, all inserted: element i carries the key of the row holding element i.
//      Latitudes (not judged): slices where some elements are stored and others not (F21-C03 / F31-C16 / F9-C03: gorm
//      hands keys out by position); an UPDATED row without RETURNING (SQLite's last_insert_rowid does not change on the
//      DO UPDATE path, the dialect cannot know the key); keys after a failed multi-row statement beyond "unchanged".
//   3. a following Save of a single value that was not stored, after giving it fresh unique columns: keyless → exactly one
//      new row; keyed → exactly that row rewritten; every other row untouched.
// Suite `backfill-tie` (correspondence): callbacks.Create on a stub connection pool that reports generated
// (RowsAffected, LastInsertId) pairs — including RowsAffected 0 with a non-zero LastInsertId — for generated key
// lists: the keys left in the slice vs Model.UpsertForms.backfillG under the regenerated guard.

import (
	"database/sql"
	"encoding/json"
	"flag"
	"fmt"
	"math/rand"
	"sort"

	"gorm.io/gorm"
)

type C16Side struct {
	ID uint `gorm:"primaryKey"`
	N  int
}

func (C16Side) TableName() string { return "c16_side" }

type C16TP struct {
	P       C16KP  `json:"p"`
	Ret     bool   `json:"ret"`               // RETURNING dialector
	Pre     int    `json:"pre"`               // > 0: a row with this key is inserted into c16_side right before
	Ptr     bool   `json:"ptr,omitempty"`     // slices: []*C16K
	Tx      string `json:"tx,omitempty"`      // "" | tx (inside db.Transaction) | skip (Session{SkipDefaultTransaction})
	NoModel bool   `json:"nomodel,omitempty"` // map source: Table("c16_k") instead of Model(&C16K{})
	Save    bool   `json:"save,omitempty"`    // follow-up Save
}

type c16tEnv struct {
	db  *gorm.DB
	sql *sql.DB
}

var c16tEnvs = map[bool]*c16tEnv{}

func c16tOpen(ret bool) *c16tEnv {
	if e, ok := c16tEnvs[ret]; ok {
		return e
	}
	db, sqlDB := c03Open(ret, &gorm.Config{NowFunc: fixedNowFunc})
	// ONE connection: LastInsertId is a per-connection notion
	sqlDB.SetMaxOpenConns(1)
	if err := db.AutoMigrate(&C16K{}, &C16Side{}); err != nil {
		panic(err)
	}
	e := &c16tEnv{db, sqlDB}
	c16tEnvs[ret] = e
	return e
}

func (e *c16tEnv) setTable(rows [][]int, pre int) {
	c16MustExec(e.sql, "DELETE FROM c16_side")
	c16MustExec(e.sql, "DELETE FROM c16_k")
	c16MustExec(e.sql, "DELETE FROM sqlite_sequence WHERE name = 'c16_k'")
	for _, r := range rows {
		args := make([]interface{}, c16kN)
		for c := range args {
			args[c] = c16kVal(c, r[c])
		}
		c16MustExec(e.sql, "INSERT INTO c16_k (id,a,b,slug,live,ver,name,qty,updated_at) VALUES (?,?,?,?,?,?,?,?,?)", args...)
	}
	if pre > 0 {
		if err := e.db.Create(&C16Side{ID: uint(pre), N: 1}).Error; err != nil {
			panic(err)
		}
	}
}

func (e *c16tEnv) dump() [][]int {
	out := [][]int{}
	var rs []C16K
	if err := e.db.Session(&gorm.Session{NewDB: true}).Order("id").Find(&rs).Error; err != nil {
		panic(err)
	}
	for _, r := range rs {
		out = append(out, []int{int(r.ID), r.A, r.B, c16DecS(r.Slug), r.Live, r.Ver, c16DecS(r.Name), r.Qty, 0})
	}
	return out
}

type c16tReal struct {
	Err    string         `json:"err"`
	Rows   [][]int        `json:"rows"`
	Keys   []int          `json:"keys"`            // in-memory keys after the call (struct / slice sources)
	Extra  []string       `json:"extra,omitempty"` // map source: entries the call ADDED to the caller's map
	Save   string         `json:"save,omitempty"`  // follow-up Save: error class
	Rows2  [][]int        `json:"rows2,omitempty"` // table after the follow-up Save
	SaveID int            `json:"save_id,omitempty"`
	val    *C16K          // the single struct
	m      map[string]any // the map
}

func (e *c16tEnv) run(t *C16TP) (out c16tReal) {
	p := &t.P
	e.setTable(p.Rows, t.Pre)
	body := func(h *gorm.DB) error {
		if p.Rule != nil {
			h = h.Clauses(p.Rule.clause())
		}
		switch p.Deriv {
		case "session":
			h = h.Session(&gorm.Session{})
		case "ctx":
			h = h.WithContext(WithMarker(h.Statement.Context, "c16t"))
		}
		if t.Tx == "skip" {
			h = h.Session(&gorm.Session{SkipDefaultTransaction: true})
		}
		if len(p.Sel) > 0 {
			n := c16kNames(p.Sel)
			rest := []interface{}{}
			for _, x := range n[1:] {
				rest = append(rest, x)
			}
			h = h.Select(n[0], rest...)
		}
		if len(p.Omit) > 0 {
			h = h.Omit(c16kNames(p.Omit)...)
		}
		var res *gorm.DB
		switch p.Src {
		case "map":
			m := map[string]interface{}{}
			for _, c := range p.Keys {
				m[c16kCols[c]] = c16kVal(c, p.Vals[0][c])
			}
			before := map[string]bool{}
			for k := range m {
				before[k] = true
			}
			if t.NoModel {
				res = h.Table("c16_k").Create(m)
			} else {
				res = h.Model(&C16K{}).Create(m)
			}
			for k := range m {
				if !before[k] {
					out.Extra = append(out.Extra, k)
				}
			}
			sort.Strings(out.Extra)
			out.m = m
		case "struct":
			v := c16kMk(p.Vals[0])
			res = h.Create(&v)
			out.Keys = []int{int(v.ID)}
			out.val = &v
		default:
			if t.Ptr {
				vs := make([]*C16K, len(p.Vals))
				for i, r := range p.Vals {
					v := c16kMk(r)
					vs[i] = &v
				}
				if p.Src == "sslice" {
					res = h.Save(&vs)
				} else {
					res = h.Create(&vs)
				}
				for _, v := range vs {
					out.Keys = append(out.Keys, int(v.ID))
				}
			} else {
				vs := make([]C16K, len(p.Vals))
				for i, r := range p.Vals {
					vs[i] = c16kMk(r)
				}
				if p.Src == "sslice" {
					res = h.Save(&vs)
				} else {
					res = h.Create(&vs)
				}
				for _, v := range vs {
					out.Keys = append(out.Keys, int(v.ID))
				}
			}
		}
		return res.Error
	}
	var err error
	if t.Tx == "tx" {
		err = e.db.Transaction(func(tx *gorm.DB) error { return body(tx) })
	} else {
		err = body(e.db)
	}
	out.Err = c16kErrClass(err)
	out.Rows = e.dump()
	return
}

// the fresh unique columns the follow-up Save gives the value
func c16tFreshen(v *C16K) {
	v.A, v.B, v.Slug, v.Live = 8, 9, "v9", 0
}

func c16tNorm(rows [][]int, known map[int]bool) [][]int {
	out := c16kMask(rows)
	for _, r := range out {
		if !known[r[0]] {
			r[0] = -1
		}
	}
	sort.SliceStable(out, func(i, j int) bool { return fmt.Sprint(out[i]) < fmt.Sprint(out[j]) })
	return out
}

// judge: "" = fine; skip = the oracle does not judge this input at all
func c16tJudge(e *c16tEnv, t *C16TP) (what string, obs, want interface{}, branch string) {
	p := &t.P
	exp := c16kRefRun(p)
	got := e.run(t)
	if exp.Skip {
		return "", nil, nil, "skip"
	}
	known := map[int]bool{}
	for _, r := range p.Rows {
		known[r[0]] = true
	}
	for _, v := range p.Vals {
		known[v[0]] = true
	}
	if canon(c16tNorm(got.Rows, known)) != canon(c16tNorm(exp.Rows, known)) {
		return "table after the upsert is not what the rule defines (" + exp.Note + ")", c16kMask(got.Rows), c16kMask(exp.Rows), "table"
	}
	if got.Err != exp.Err {
		return "error class differs (" + exp.Note + ")", got.Err, exp.Err, "error"
	}
	// ---- the caller's value
	stored, inserted := 0, 0
	if exp.Err == "ok" {
		for _, d := range exp.Disp {
			if d[0] != 0 {
				stored++
			}
			if d[0] == 1 {
				inserted++
			}
		}
	}
	given := make([]int, len(p.Vals))
	for i, v := range p.Vals {
		given[i] = v[0]
	}
	rowByAB := func(v []int) []int {
		for _, r := range got.Rows {
			if r[c16kA] == v[c16kA] && r[c16kB] == v[c16kB] {
				return r
			}
		}
		return nil
	}
	keyExcluded := p.Src != "map" && (c16Has(p.Omit, c16kID) || (len(p.Sel) > 0 && !c16Has(p.Sel, c16kID)))
	abListed := p.Src == "map" || ((len(p.Sel) == 0 || (c16Has(p.Sel, c16kA) && c16Has(p.Sel, c16kB))) && !c16Has(p.Omit, c16kA) && !c16Has(p.Omit, c16kB))
	switch {
	case stored == 0:
		branch = "unstored"
		if p.Src == "map" {
			if len(got.Extra) != 0 {
				return "nothing was stored, yet the caller's map gained entries", got.Extra, []string{}, branch
			}
		} else if canon(got.Keys) != canon(given) {
			return "nothing was stored (RowsAffected 0 / error), yet a value carries a key it was not given", got.Keys, given, branch
		}
	case p.Src == "struct" && inserted == 1 && !keyExcluded && abListed:
		branch = "inserted"
		r := rowByAB(p.Vals[0])
		if r == nil || got.Keys[0] != r[0] || (given[0] != 0 && got.Keys[0] != given[0]) {
			return "the inserted value does not carry the key of the row that holds it", got.Keys, r, branch
		}
	case p.Src == "struct" && stored == 1 && inserted == 0 && t.Ret && given[0] == 0 && !keyExcluded:
		branch = "updated-returning"
		if got.Keys[0] != exp.Disp[0][1] {
			return "the value that updated an existing row does not carry that row's key", got.Keys, exp.Disp[0][1], branch
		}
	case (p.Src == "slice" || p.Src == "sslice") && inserted == len(p.Vals) && !keyExcluded && abListed:
		allZero := true
		for _, g := range given {
			allZero = allZero && g == 0
		}
		if !allZero {
			branch = "latitude"
			break
		}
		branch = "slice-inserted"
		for i, v := range p.Vals {
			if r := rowByAB(v); r == nil || r[0] != got.Keys[i] {
				return "a keyless slice, all inserted: an element does not carry the key of its row", got.Keys, got.Rows, branch
			}
		}
	default:
		branch = "latitude"
	}
	// ---- the follow-up Save of a single value that was not stored
	if t.Save && p.Src == "struct" && stored == 0 && exp.Err == "ok" && got.val != nil {
		branch += "+save"
		v := got.val
		c16tFreshen(v)
		res := e.db.Save(v)
		after := e.dump()
		want := c16kMask(exp.Rows)
		nv := []int{given[0], v.A, v.B, c16DecS(v.Slug), v.Live, v.Ver, c16DecS(v.Name), v.Qty, 0}
		replaced := false
		for i, r := range want {
			if given[0] != 0 && r[0] == given[0] {
				want[i], replaced = nv, true
			}
		}
		if !replaced {
			want = append(want, nv)
		}
		known[0] = false
		if c := c16kErrClass(res.Error); c != "ok" {
			return "the follow-up Save of the value that was not stored failed", c, "ok", branch
		}
		if canon(c16tNorm(after, known)) != canon(c16tNorm(want, known)) {
			return "the follow-up Save of the value that was not stored: keyless → one new row, keyed → that row rewritten, nothing else touched", c16kMask(after), want, branch
		}
	}
	return "", nil, nil, branch
}

func c16tGen(rng *rand.Rand) *C16TP {
	t := &C16TP{Ret: rng.Intn(2) == 0}
	p := c16kGenProg(rng, false)
	// steer towards the dimension under test: a rule, a conflict on a NON-key constraint, the value's own key zero
	if p.Rule != nil && len(p.Rows) > 0 && rng.Intn(3) != 0 {
		o := p.Rows[rng.Intn(len(p.Rows))]
		for i := range p.Vals {
			if i > 0 && rng.Intn(2) == 0 {
				continue
			}
			v := p.Vals[i]
			if p.Src == "map" && c16Has(p.Keys, c16kID) {
				break
			}
			v[c16kID] = 0
			switch rng.Intn(3) {
			case 0:
				v[c16kSlug], v[c16kLive] = o[c16kSlug], 1
				v[c16kA], v[c16kB] = 5, 5+i
				if rng.Intn(2) == 0 {
					p.Rule.Cols = []int{c16kSlug}
					p.Rule.TW = []C16KG{{L: C16KT{K: "o", C: c16kLive}, Op: "=", R: C16KT{K: "#", V: 1}}}
				}
			default:
				v[c16kA], v[c16kB] = o[c16kA], o[c16kB]
				v[c16kSlug] = 6 + i
				if rng.Intn(2) == 0 {
					p.Rule.Cols, p.Rule.TW = []int{c16kA, c16kB}, nil
				}
			}
		}
		if rng.Intn(2) == 0 {
			p.Rule.Nothing, p.Rule.All, p.Rule.Updates, p.Rule.Where = true, false, nil, nil
		}
		if (p.Src == "slice" || p.Src == "sslice") && rng.Intn(2) == 0 {
			for _, v := range p.Vals {
				v[c16kID] = 0
			}
		}
		if p.Src == "sslice" {
			p.Src = "slice"
		}
	}
	t.P = *p
	if rng.Intn(3) != 0 {
		t.Pre = 40 + rng.Intn(5)
	}
	t.Ptr = rng.Intn(2) == 0
	switch rng.Intn(4) {
	case 0:
		t.Tx = "tx"
	case 1:
		t.Tx = "skip"
	}
	if p.Src == "map" && p.Rule != nil && p.Rule.Nothing && rng.Intn(2) == 0 {
		t.NoModel = true
	}
	t.Save = rng.Intn(2) == 0
	return t
}

func c16StoredSuite(r *Result, rng *rand.Rand, tier string) {
	n := 2500
	if tier == "thorough" {
		n = 40000
	} else if tier == "search" {
		n = 200000
	}
	for i := 0; i < n && !expired(); i++ {
		t := c16tGen(rng)
		e := c16tOpen(t.Ret)
		what, obs, want, branch := c16tJudge(e, t)
		if what != "" {
			r.Violate(Violation{Kind: "e2e", Suite: "stored", Input: t, Observed: obs, Expected: want, Note: what})
		}
		r.Case("stored", canon(t), branch != "skip" && branch != "latitude")
		r.H("stored.branch", fmt.Sprintf("ret=%v/%s/%s", t.Ret, t.P.Src, branch))
		r.H("stored.pre_insert_other_table", fmt.Sprint(t.Pre > 0))
		r.H("stored.tx", t.Tx)
		if i < 2 {
			r.Sample(t)
		}
	}
}

// ---- backfill-tie ------------------------------------------------------------------------------------------------------

// inputs are C03's loop inputs (c03RunLoop: callbacks.Create without RETURNING on a stub pool that reports the given
// RowsAffected / LastInsertId); the generator here concentrates on RowsAffected = 0 with a LIVE LastInsertId
func c16btGen(rng *rand.Rand) c03LoopInput {
	in := c03LoopInput{Reversed: rng.Intn(2) == 0}
	in.Model = []string{"auto", "auto", "inc3", "manual", "intdef", "strgen", "strauto"}[rng.Intn(7)]
	in.Shape = []string{"values", "pointers", "single"}[rng.Intn(3)]
	n := 1 + rng.Intn(4)
	if in.Shape == "single" {
		n = 1
	}
	for i := 0; i < n; i++ {
		k := int64(0)
		if rng.Intn(3) == 0 {
			k = int64(1 + rng.Intn(9))
		}
		in.Keys = append(in.Keys, k)
	}
	switch rng.Intn(4) {
	case 0, 1:
		in.RA = 0
	case 2:
		in.RA = int64(n)
	default:
		in.RA = int64(rng.Intn(n + 1))
	}
	if rng.Intn(8) != 0 {
		l := int64(rng.Intn(30))
		in.LID = &l
	}
	return in
}

func c16btOp(in c03LoopInput) []interface{} {
	lm := c03LoopModels[in.Model]
	var lid interface{}
	if in.LID != nil {
		lid = *in.LID
	}
	return []interface{}{"c16.backfill5", in.Reversed, lm.HasDefault, lm.AutoInc, lm.IntTyp, lm.Inc, in.Keys, in.RA, lid}
}

func c16BackfillTieSuite(r *Result, rng *rand.Rand, tier string) {
	n := 1500
	if tier == "thorough" {
		n = 20000
	} else if tier == "search" {
		n = 40000
	}
	var ins []c03LoopInput
	var reals [][]interface{}
	var ops [][]interface{}
	for i := 0; i < n && !expired(); i++ {
		in := c16btGen(rng)
		keys, err := c03RunLoop(in)
		if err != nil && in.LID != nil {
			r.H("backfill-tie.real_error", "yes")
			continue
		}
		ins, reals, ops = append(ins, in), append(reals, keys), append(ops, c16btOp(in))
		r.Case("backfill-tie", canon(in), in.RA == 0 && in.LID != nil && *in.LID > 0)
		r.H("backfill-tie.rows_affected_zero", fmt.Sprint(in.RA == 0))
		r.H("backfill-tie.model", in.Model+"/"+in.Shape)
	}
	if len(ops) == 0 {
		return
	}
	ans, err := AskLean(ops)
	if err != nil {
		r.Violate(Violation{Kind: "correspondence", Suite: "backfill-tie", Input: "batch", Observed: err.Error(), Expected: "driver answers"})
		return
	}
	for i := range ins {
		r.CorrCompared++
		if canonRaw(ans[i]) != canon(reals[i]) {
			r.Violate(Violation{Kind: "correspondence", Suite: "backfill-tie", Input: ins[i], Observed: reals[i], Expected: json.RawMessage(ans[i]),
				Note: "keys after callbacks.Create (no RETURNING, stub result) vs Model.UpsertForms.backfillG under the regenerated guard"})
		}
	}
}

func init() {
	register("C16", c16StoredSuite)
	register("C16", c16BackfillTieSuite)
	replayers["C16/backfill-tie"] = func(r *Result, input json.RawMessage) {
		var in c03LoopInput
		if err := json.Unmarshal(input, &in); err != nil {
			r.Note("bad replay input: %v", err)
			return
		}
		if f := flag.Lookup("driver"); f != nil && f.Value.String() != "" {
			driverPath = f.Value.String()
		}
		keys, _ := c03RunLoop(in)
		ans, err := AskLean([][]interface{}{c16btOp(in)})
		if err != nil {
			r.Note("lean driver: %v", err)
			return
		}
		r.CorrCompared++
		if canonRaw(ans[0]) != canon(keys) {
			r.Violate(Violation{Kind: "correspondence", Suite: "backfill-tie", Input: in, Observed: keys, Expected: json.RawMessage(ans[0])})
		}
	}
	replayers["C16/stored"] = func(r *Result, input json.RawMessage) {
		var t C16TP
		if err := json.Unmarshal(input, &t); err != nil {
			r.Note("bad replay input: %v", err)
			return
		}
		if f := flag.Lookup("driver"); f != nil && f.Value.String() != "" {
			driverPath = f.Value.String()
		}
		if what, obs, want, _ := c16tJudge(c16tOpen(t.Ret), &t); what != "" {
			r.Violate(Violation{Kind: "e2e", Suite: "stored", Input: &t, Observed: obs, Expected: want, Note: what})
		}
	}
}
