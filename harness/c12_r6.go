package main

// C12 round 6 — ARGUMENT PROVENANCE: slices the caller READ FROM THE RELATION FIELD.
//
// `old := u.Languages` copies a slice header: `old` shares the backing array of the record's relation field. The property
// speaks about "the named targets" of Append / Replace / Delete; a caller who names them through such a captured slice
// (the natural "remember, change, restore" idiom: Delete(&a) ... Replace(all);  Replace(&c) ... Append(old)) names the
// records the slice held when it was read. Association mode therefore must never write into the backing array of a
// relation slice it replaces: association.go builds every new field value from reflect.Zero / reflect.MakeSlice
// (cleanUpDeletedRelations, appendToRelations) — regenerated fact Gen/AssocSlices.lean, theorem C12_field_slices_fresh.
//
// Suite `captured-slices` (E): per relation (has-many / many2many / polymorphic has-many, each with a []T and a []*T
// field) a random sequence of Append / Replace / Delete / Clear on two records, each through a fresh handle; the
// argument lists are drawn from
//   fresh      records built by the caller (pointers, a slice),
//   captured   a slice header read from the record's field at an EARLIER point of the history (whole, a sub-slice
//              `old[i:j]`, pointers to / elements of it `&old[i]`, extended by the caller `append(old, fresh…)` - which
//              writes into old's spare capacity), possibly mixed with fresh records,
//   field      the record's current field value itself (`Delete(u.Tags)`, `Replace(u.Tags)`).
// Judged after every call:
//   captured   the keys held by every captured slice are what they were when it was captured   (direct aliasing check)
//   argument   the keys of the records passed to the call are what they were before the call
//   links / targets / count / find / memory   the sentences of the property against a reference link set in which a
//              captured slice names the records it held when it was captured.
// Outside listed findings: every call uses a fresh handle (F12h), every target exists with a preset key (F12c), owners are
// operated one at a time and has-many / polymorphic target pools are disjoint per owner (F12d, F12e), no Unscoped.

import (
	"encoding/json"
	"fmt"
	"math/rand"
	"reflect"
	"sort"
	"strings"
	"sync"

	"gorm.io/gorm"
)

type c12rTarget struct {
	ID         uint `gorm:"primaryKey"`
	Name       string
	OwnerID    *uint
	HolderID   *uint
	HolderType string
}

type (
	C12RSub   c12rTarget
	C12RPSub  c12rTarget
	C12RTag   c12rTarget
	C12RPTag  c12rTarget
	C12RToy   c12rTarget
	C12RPToy  c12rTarget
	C12ROwner struct {
		ID    uint `gorm:"primaryKey"`
		Name  string
		Subs  []C12RSub   `gorm:"foreignKey:OwnerID"`
		PSubs []*C12RPSub `gorm:"foreignKey:OwnerID"`
		Tags  []C12RTag   `gorm:"many2many:c12_r_owner_tags"`
		PTags []*C12RPTag `gorm:"many2many:c12_r_owner_ptags"`
		Toys  []C12RToy   `gorm:"polymorphic:Holder"`
		PToys []*C12RPToy `gorm:"polymorphic:Holder;polymorphicValue:owner"`
	}
)

type c12rRel struct {
	Field string
	Kind  string // many | m2m | poly
	Ptr   bool
}

var c12rRels = []c12rRel{
	{"Subs", "many", false}, {"PSubs", "many", true},
	{"Tags", "m2m", false}, {"PTags", "m2m", true},
	{"Toys", "poly", false}, {"PToys", "poly", true},
}

var c12rModels = []interface{}{&C12ROwner{}, &C12RSub{}, &C12RPSub{}, &C12RTag{}, &C12RPTag{}, &C12RToy{}, &C12RPToy{}}

// one argument of a call
type c12rArg struct {
	Src  string `json:"src"`            // fresh-ptr | fresh-slice | cap-whole | cap-extended | cap-sub | cap-elems | field
	Cap  int    `json:"cap,omitempty"`  // which earlier capture (modulo the number of usable captures)
	Lo   int    `json:"lo,omitempty"`   // cap-sub: bounds (modulo len+1)
	Hi   int    `json:"hi,omitempty"`
	Idx  []int  `json:"idx,omitempty"`  // cap-elems: element positions (modulo len)
	Keys []int  `json:"keys,omitempty"` // fresh-*: positions in the owner's target pool
}

type c12rOp struct {
	Owner   int       `json:"owner"`
	Op      string    `json:"op"` // append | replace | delete | clear
	Args    []c12rArg `json:"args"`
	Capture bool      `json:"capture"` // the caller reads the record's field into a variable AFTER this call
}

type c12rSeq struct {
	Rel     int      `json:"rel"`
	Preload bool     `json:"preload"` // initial links written by SQL and the records loaded with Preload (else: built by Append)
	Init    [][]int  `json:"init"`    // per owner: pool positions linked initially
	Ops     []c12rOp `json:"ops"`
}

func c12rPool(rel *c12rRel, owner int) []int {
	if rel.Kind == "m2m" {
		return []int{1, 2, 3, 4, 5, 6}
	}
	if owner == 0 {
		return []int{1, 2, 3, 4, 5}
	}
	return []int{11, 12, 13, 14, 15}
}

var (
	c12rDDLOnce sync.Once
	c12rDDL     []string
)

type c12rMeta struct {
	table, fk, tyCol, tyVal string // has-many / poly
	join, jOwner, jTarget   string // m2m
}

func c12rParse(db *gorm.DB, rel *c12rRel) c12rMeta {
	stmt := &gorm.Statement{DB: db}
	if err := stmt.Parse(&C12ROwner{}); err != nil {
		panic(err)
	}
	r := stmt.Schema.Relationships.Relations[rel.Field]
	if r == nil {
		panic("c12r: relation not parsed: " + rel.Field)
	}
	m := c12rMeta{table: r.FieldSchema.Table}
	if r.JoinTable != nil {
		m.join = r.JoinTable.Table
		for _, ref := range r.References {
			if ref.OwnPrimaryKey {
				m.jOwner = ref.ForeignKey.DBName
			} else {
				m.jTarget = ref.ForeignKey.DBName
			}
		}
		return m
	}
	for _, ref := range r.References {
		if ref.PrimaryValue != "" {
			m.tyCol, m.tyVal = ref.ForeignKey.DBName, ref.PrimaryValue
		} else {
			m.fk = ref.ForeignKey.DBName
		}
	}
	return m
}

func c12rSetup(db *gorm.DB, rel *c12rRel, m c12rMeta, s c12rSeq) {
	ex := func(q string, a ...interface{}) {
		if err := db.Exec(q, a...).Error; err != nil {
			panic(fmt.Sprint(q, ": ", err))
		}
	}
	c12rDDLOnce.Do(func() {
		d, rec, sq := OpenRec(&gorm.Config{NowFunc: fixedNowFunc})
		defer sq.Close()
		if err := d.AutoMigrate(c12rModels...); err != nil {
			panic(err)
		}
		for _, e := range rec.Snapshot() {
			if (e.Kind == "exec" || e.Kind == "stmt_exec") && strings.HasPrefix(strings.ToUpper(strings.TrimSpace(e.SQL)), "CREATE") {
				c12rDDL = append(c12rDDL, e.SQL)
			}
		}
	})
	for _, q := range c12rDDL {
		ex(q)
	}
	for o := 0; o < 2; o++ {
		ex("INSERT INTO c12_r_owners (id, name) VALUES (?, ?)", o+1, fmt.Sprint("o", o+1))
	}
	seen := map[int]bool{}
	for o := 0; o < 2; o++ {
		for _, id := range c12rPool(rel, o) {
			if !seen[id] {
				seen[id] = true
				ex("INSERT INTO "+m.table+" (id, name, holder_type) VALUES (?, ?, '')", id, fmt.Sprint("t", id))
			}
		}
	}
	// a bystander that no call names: it must stay as it is
	ex("INSERT INTO "+m.table+" (id, name, holder_type) VALUES (99, 't99', '')")
	if s.Preload {
		for o := 0; o < 2 && o < len(s.Init); o++ {
			pool := c12rPool(rel, o)
			for _, p := range s.Init[o] {
				id := pool[p%len(pool)]
				switch rel.Kind {
				case "m2m":
					ex("INSERT OR IGNORE INTO "+m.join+" ("+m.jOwner+", "+m.jTarget+") VALUES (?, ?)", o+1, id)
				case "many":
					ex("UPDATE "+m.table+" SET "+m.fk+" = ? WHERE id = ?", o+1, id)
				case "poly":
					ex("UPDATE "+m.table+" SET "+m.fk+" = ?, "+m.tyCol+" = ? WHERE id = ?", o+1, m.tyVal, id)
				}
			}
		}
	}
}

// stored links as sorted "owner:target" strings + the ids of all stored target records
func c12rStored(db *gorm.DB, rel *c12rRel, m c12rMeta) (links []string, targets []int) {
	q := ""
	switch rel.Kind {
	case "m2m":
		q = "SELECT " + m.jOwner + ", " + m.jTarget + " FROM " + m.join
	case "many":
		q = "SELECT " + m.fk + ", id FROM " + m.table + " WHERE " + m.fk + " IS NOT NULL"
	case "poly":
		q = "SELECT " + m.fk + ", id FROM " + m.table + " WHERE " + m.fk + " IS NOT NULL AND " + m.tyCol + " = '" + m.tyVal + "'"
	}
	rows, err := db.Raw(q).Rows()
	if err != nil {
		panic(err)
	}
	links = []string{}
	for rows.Next() {
		var o, t int
		if err := rows.Scan(&o, &t); err != nil {
			panic(err)
		}
		links = append(links, fmt.Sprintf("%d:%02d", o, t))
	}
	rows.Close()
	sort.Strings(links)
	targets = []int{}
	if err := db.Raw("SELECT id FROM " + m.table + " ORDER BY id").Scan(&targets).Error; err != nil {
		panic(err)
	}
	return
}

// keys held by a slice value ([]T or []*T); nil pointers count as 0
func c12rIDs(v reflect.Value) []int {
	out := []int{}
	for i := 0; i < v.Len(); i++ {
		e := v.Index(i)
		if e.Kind() == reflect.Ptr {
			if e.IsNil() {
				out = append(out, 0)
				continue
			}
			e = e.Elem()
		}
		out = append(out, int(e.FieldByName("ID").Uint()))
	}
	return out
}

func c12rArgIDs(args []interface{}) []int {
	out := []int{}
	for _, a := range args {
		v := reflect.ValueOf(a)
		if v.Kind() == reflect.Slice {
			out = append(out, c12rIDs(v)...)
		} else if v.Kind() == reflect.Ptr && !v.IsNil() {
			out = append(out, int(v.Elem().FieldByName("ID").Uint()))
		}
	}
	return out
}

type c12rCapture struct {
	owner int
	at    int           // captured after this step (-1: before the first call)
	val   reflect.Value // the caller's variable: a copy of the slice header
	ids   []int         // what it held when it was captured
}

type c12rVerdict struct {
	Step  int         `json:"step"`
	Class string      `json:"class"`
	What  string      `json:"what"`
	Got   interface{} `json:"got"`
	Want  interface{} `json:"want"`
	Trace []string    `json:"trace"`
}

type c12rStats struct {
	steps, capArgs, capUsedAfterChange, shrunk int
	srcs                                       map[string]int
}

func c12rDistinct(ids []int) []int {
	m := map[int]bool{}
	for _, i := range ids {
		m[i] = true
	}
	out := []int{}
	for i := range m {
		out = append(out, i)
	}
	sort.Ints(out)
	return out
}

// c12rRun executes the sequence on the real code and judges it step by step.
func c12rRun(s c12rSeq, st *c12rStats) (verdict *c12rVerdict) {
	rel := &c12rRels[s.Rel%len(c12rRels)]
	db, _, sqlDB := OpenRec(&gorm.Config{NowFunc: fixedNowFunc})
	defer sqlDB.Close()
	m := c12rParse(db, rel)
	c12rSetup(db, rel, m, s)

	owners := []*C12ROwner{{ID: 1, Name: "o1"}, {ID: 2, Name: "o2"}}
	elemT := reflect.TypeOf(C12ROwner{})
	sf, _ := elemT.FieldByName(rel.Field)
	sliceT := sf.Type
	recT := sliceT.Elem()
	if rel.Ptr {
		recT = recT.Elem()
	}
	field := func(o int) reflect.Value { return reflect.ValueOf(owners[o]).Elem().FieldByName(rel.Field) }
	fresh := func(id int) reflect.Value { // *T
		p := reflect.New(recT)
		p.Elem().FieldByName("ID").SetUint(uint64(id))
		p.Elem().FieldByName("Name").SetString(fmt.Sprint("t", id))
		return p
	}
	freshSlice := func(ids []int) reflect.Value {
		sl := reflect.MakeSlice(sliceT, 0, len(ids))
		for _, id := range ids {
			if rel.Ptr {
				sl = reflect.Append(sl, fresh(id))
			} else {
				sl = reflect.Append(sl, fresh(id).Elem())
			}
		}
		return sl
	}

	ref := []map[int]bool{{}, {}}
	var trace []string
	fail := func(step int, class, what string, got, want interface{}) *c12rVerdict {
		return &c12rVerdict{Step: step, Class: class, What: what, Got: got, Want: want, Trace: trace}
	}
	defer func() {
		if p := recover(); p != nil {
			verdict = fail(len(trace), "panic", "association call panicked", fmt.Sprint(p), "no panic")
		}
	}()

	// ---- initial links
	for o := 0; o < 2 && o < len(s.Init); o++ {
		pool := c12rPool(rel, o)
		var ids []int
		for _, p := range s.Init[o] {
			ids = append(ids, pool[p%len(pool)])
		}
		ids = c12rDistinct(ids)
		for _, id := range ids {
			ref[o][id] = true
		}
		if !s.Preload && len(ids) > 0 {
			if err := db.Model(owners[o]).Association(rel.Field).Append(freshSlice(ids).Interface()); err != nil {
				return fail(-1, "error", "initial Append failed", err.Error(), nil)
			}
		}
	}
	if s.Preload {
		for o := 0; o < 2; o++ {
			owners[o] = &C12ROwner{}
			if err := db.Preload(rel.Field).First(owners[o], o+1).Error; err != nil {
				panic(fmt.Sprint("c12r preload: ", err))
			}
		}
	}
	var caps []*c12rCapture
	capture := func(o, at int) {
		v := reflect.ValueOf(field(o).Interface()) // value copy of the slice header: shares the backing array
		caps = append(caps, &c12rCapture{owner: o, at: at, val: v, ids: c12rIDs(v)})
	}
	capture(0, -1)
	capture(1, -1)

	refList := func(o int) []int {
		out := []int{}
		for id := range ref[o] {
			out = append(out, id)
		}
		sort.Ints(out)
		return out
	}
	judge := func(step int) *c12rVerdict {
		for ci, c := range caps {
			if got := c12rIDs(c.val); fmt.Sprint(got) != fmt.Sprint(c.ids) {
				return fail(step, "captured", fmt.Sprintf("slice #%d read from record %d's field after step %d changed its contents during a later association call (the call wrote into the backing array of the old field value)", ci, c.owner+1, c.at), got, c.ids)
			}
		}
		want := []string{}
		for o := 0; o < 2; o++ {
			for _, id := range refList(o) {
				want = append(want, fmt.Sprintf("%d:%02d", o+1, id))
			}
		}
		links, targets := c12rStored(db, rel, m)
		if fmt.Sprint(links) != fmt.Sprint(want) {
			return fail(step, "links", "stored links differ from the links the sequence defines", links, want)
		}
		seen := map[int]bool{}
		allT := []int{}
		for o := 0; o < 2; o++ {
			for _, id := range c12rPool(rel, o) {
				if !seen[id] {
					seen[id] = true
					allT = append(allT, id)
				}
			}
		}
		allT = append(allT, 99)
		sort.Ints(allT)
		if fmt.Sprint(targets) != fmt.Sprint(allT) {
			return fail(step, "targets", "associated records must survive and none may appear", targets, allT)
		}
		for o := 0; o < 2; o++ {
			w := refList(o)
			probe := &C12ROwner{ID: uint(o + 1)}
			if n := db.Model(probe).Association(rel.Field).Count(); int(n) != len(w) {
				return fail(step, "count", fmt.Sprintf("Count() of record %d", o+1), n, len(w))
			}
			found := reflect.New(sliceT)
			if err := db.Model(probe).Association(rel.Field).Find(found.Interface()); err != nil {
				return fail(step, "find", fmt.Sprintf("Find() of record %d failed", o+1), err.Error(), w)
			}
			got := c12rIDs(found.Elem())
			sort.Ints(got)
			if fmt.Sprint(got) != fmt.Sprint(w) {
				return fail(step, "find", fmt.Sprintf("Find() of record %d", o+1), got, w)
			}
			if mem := c12rDistinct(c12rIDs(field(o))); fmt.Sprint(mem) != fmt.Sprint(w) {
				return fail(step, "memory", fmt.Sprintf("distinct records in the in-memory field of record %d (it received every operation)", o+1), mem, w)
			}
		}
		return nil
	}
	if v := judge(-1); v != nil {
		return v
	}

	for step, op := range s.Ops {
		o := op.Owner % 2
		pool := c12rPool(rel, o)
		var args []interface{}
		var named []int
		var srcs []string
		extended := false
		for _, a := range op.Args {
			if op.Op == "clear" {
				break
			}
			var usable []*c12rCapture
			for _, c := range caps {
				if (rel.Kind == "m2m" || c.owner == o) && len(c.ids) > 0 {
					usable = append(usable, c)
				}
			}
			src := a.Src
			if strings.HasPrefix(src, "cap-") && len(usable) == 0 {
				src = "fresh-slice"
			}
			if src == "cap-extended" {
				// two `append(old, …)` of one call may share old's spare capacity: the second would overwrite the first -
				// the caller's own aliasing, nothing gorm answers for. One extension per call.
				if extended {
					src = "cap-whole"
				}
				extended = true
			}
			switch src {
			case "fresh-ptr":
				for _, k := range a.Keys {
					id := pool[k%len(pool)]
					args = append(args, fresh(id).Interface())
					named = append(named, id)
				}
			case "fresh-slice":
				var ids []int
				for _, k := range a.Keys {
					ids = append(ids, pool[k%len(pool)])
				}
				args = append(args, freshSlice(ids).Interface())
				named = append(named, ids...)
			case "field":
				v := field(o)
				args = append(args, v.Interface())
				named = append(named, c12rIDs(v)...)
			default:
				c := usable[a.Cap%len(usable)]
				n := c.val.Len()
				if st != nil {
					st.capArgs++
					if fmt.Sprint(c12rIDs(field(c.owner))) != fmt.Sprint(c.ids) {
						st.capUsedAfterChange++
					}
				}
				switch src {
				case "cap-whole":
					args = append(args, c.val.Interface())
					named = append(named, c.ids...)
				case "cap-extended": // mine := append(old, fresh…): written into old's spare capacity when there is some
					ext := c.val
					named = append(named, c.ids...)
					for _, k := range a.Keys {
						id := pool[k%len(pool)]
						if rel.Ptr {
							ext = reflect.Append(ext, fresh(id))
						} else {
							ext = reflect.Append(ext, fresh(id).Elem())
						}
						named = append(named, id)
					}
					args = append(args, ext.Interface())
				case "cap-sub":
					lo, hi := a.Lo%(n+1), a.Hi%(n+1)
					if lo > hi {
						lo, hi = hi, lo
					}
					args = append(args, c.val.Slice(lo, hi).Interface())
					named = append(named, c.ids[lo:hi]...)
				default: // cap-elems
					src = "cap-elems"
					for _, i := range a.Idx {
						e := c.val.Index(i % n)
						if rel.Ptr {
							args = append(args, e.Interface())
						} else {
							args = append(args, e.Addr().Interface())
						}
						named = append(named, c.ids[i%n])
					}
				}
			}
			srcs = append(srcs, src)
			if st != nil {
				st.srcs[src]++
			}
		}
		trace = append(trace, fmt.Sprintf("step %d: record %d .%s %s %v names %v", step, o+1, rel.Field, op.Op, srcs, named))
		before := c12rArgIDs(args)
		h := db.Model(owners[o]).Association(rel.Field)
		var err error
		switch op.Op {
		case "append":
			err = h.Append(args...)
			for _, id := range named {
				ref[o][id] = true
			}
		case "replace":
			err = h.Replace(args...)
			ref[o] = map[int]bool{}
			for _, id := range named {
				ref[o][id] = true
			}
		case "delete":
			err = h.Delete(args...)
			if len(args) > 0 { // Delete() without argument names nothing
				for _, id := range named {
					if ref[o][id] && st != nil {
						st.shrunk++
					}
					delete(ref[o], id)
				}
			}
		case "clear":
			err = h.Clear()
			ref[o] = map[int]bool{}
		}
		if st != nil {
			st.steps++
		}
		if err != nil {
			return fail(step, "error", "association call failed", err.Error(), nil)
		}
		if after := c12rArgIDs(args); fmt.Sprint(after) != fmt.Sprint(before) {
			return fail(step, "argument", "the records passed to the call carry other keys after the call", after, before)
		}
		if v := judge(step); v != nil {
			return v
		}
		if op.Capture {
			capture(o, step)
		}
	}
	return nil
}

func c12rGenSeq(rng *rand.Rand, maxLen int) c12rSeq {
	s := c12rSeq{Rel: rng.Intn(len(c12rRels)), Preload: rng.Intn(2) == 0}
	for o := 0; o < 2; o++ {
		n := rng.Intn(5)
		if o == 0 && rng.Intn(3) > 0 {
			n = 2 + rng.Intn(3)
		}
		s.Init = append(s.Init, rng.Perm(5)[:n])
	}
	keys := func() []int {
		n := 1 + rng.Intn(3)
		out := make([]int, n)
		for i := range out {
			out[i] = rng.Intn(6)
		}
		return out
	}
	n := 2 + rng.Intn(maxLen-1)
	for i := 0; i < n; i++ {
		op := c12rOp{Owner: 0, Capture: rng.Intn(2) == 0}
		if rng.Intn(4) == 0 {
			op.Owner = 1
		}
		switch r := rng.Intn(10); {
		case r < 3:
			op.Op = "append"
		case r < 6:
			op.Op = "replace"
		case r < 9:
			op.Op = "delete"
		default:
			op.Op = "clear"
		}
		if op.Op != "clear" {
			na := 1
			if rng.Intn(4) == 0 {
				na = 2
			}
			if rng.Intn(25) == 0 {
				na = 0
			}
			for j := 0; j < na; j++ {
				a := c12rArg{Cap: rng.Intn(8), Lo: rng.Intn(8), Hi: rng.Intn(8)}
				switch r := rng.Intn(12); {
				case r < 2:
					a.Src, a.Keys = "fresh-ptr", keys()
				case r < 4:
					a.Src, a.Keys = "fresh-slice", keys()
				case r < 6:
					a.Src = "cap-whole"
				case r < 7:
					a.Src = "cap-extended"
				case r < 9:
					a.Src = "cap-sub"
				case r < 11:
					a.Src = "cap-elems"
					for k := 1 + rng.Intn(2); k > 0; k-- {
						a.Idx = append(a.Idx, rng.Intn(8))
					}
				default:
					a.Src = "field"
				}
				if strings.HasPrefix(a.Src, "cap-") {
					a.Keys = keys() // used when no capture is available
				}
				op.Args = append(op.Args, a)
			}
		}
		s.Ops = append(s.Ops, op)
	}
	return s
}

func c12rE2E(r *Result, s c12rSeq, st *c12rStats) {
	v := c12rRun(s, st)
	if v == nil {
		return
	}
	r.Violate(Violation{Kind: "e2e", Suite: "captured-slices", Input: s,
		Observed: map[string]interface{}{"step": v.Step, "class": v.Class, "got": v.Got, "trace": v.Trace},
		Expected: map[string]interface{}{"want": v.Want, "verdict": v.What}})
}

func init() {
	register("C12", func(r *Result, rng *rand.Rand, tier string) {
		defer c12Timed("r6-captured")()
		n := 1500
		if tier == "thorough" {
			n = 20000
		} else if tier == "search" {
			n = 4000
		}
		seqs := make([]c12rSeq, 0, n)
		for i := 0; i < n; i++ {
			seqs = append(seqs, c12rGenSeq(rng, 8))
		}
		const workers = 4
		stats := make([]*c12rStats, workers)
		verdicts := make([]*c12rVerdict, len(seqs))
		var wg sync.WaitGroup
		for w := 0; w < workers; w++ {
			stats[w] = &c12rStats{srcs: map[string]int{}}
			wg.Add(1)
			go func(w int) {
				defer wg.Done()
				for i := w; i < len(seqs) && !expired(); i += workers {
					verdicts[i] = c12rRun(seqs[i], stats[w])
				}
			}(w)
		}
		wg.Wait()
		reported := 0
		for i, s := range seqs {
			rel := c12rRels[s.Rel]
			r.Case("captured-slices", canon(s), len(s.Ops) >= 2)
			r.H("r6.relation", rel.Field)
			r.H("r6.len", fmt.Sprint(len(s.Ops)))
			r.H("r6.preload", fmt.Sprint(s.Preload))
			if i%307 == 0 {
				r.Sample(map[string]interface{}{"suite": "captured-slices", "input": s})
			}
			if v := verdicts[i]; v != nil && reported < 3 {
				reported++
				r.Violate(Violation{Kind: "e2e", Suite: "captured-slices", Input: s,
					Observed: map[string]interface{}{"step": v.Step, "class": v.Class, "got": v.Got, "trace": v.Trace},
					Expected: map[string]interface{}{"want": v.Want, "verdict": v.What}})
			}
		}
		tot := &c12rStats{srcs: map[string]int{}}
		for _, st := range stats {
			tot.steps += st.steps
			tot.capArgs += st.capArgs
			tot.capUsedAfterChange += st.capUsedAfterChange
			tot.shrunk += st.shrunk
			for k, v := range st.srcs {
				tot.srcs[k] += v
			}
		}
		for k, v := range tot.srcs {
			for i := 0; i < v; i++ {
				r.H("r6.arg_source", k)
			}
		}
		r.Note("captured-slices: %d sequences, %d judged calls, %d arguments taken from a captured field slice (%d of them after the field had changed), %d links removed by Delete",
			len(seqs), tot.steps, tot.capArgs, tot.capUsedAfterChange, tot.shrunk)
	})
	replayers["C12/captured-slices"] = func(r *Result, input json.RawMessage) {
		var s c12rSeq
		if err := json.Unmarshal(input, &s); err != nil {
			r.Note("bad replay input: %v", err)
			return
		}
		c12rE2E(r, s, nil)
	}
}
