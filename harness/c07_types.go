package main

// C07: static model types whose TableName() methods are schedule hook points.
// schema.ParseWithSpecialTableName calls Tabler.TableName() between its first cacheStore.Load (miss) and the
// allocation of the Schema object; parking the goroutine there lets the harness force the order in which
// goroutines proceed through the cache protocol (DESIGN §4 C07 "Tie").

import (
	"bytes"
	"runtime"
	"strconv"
	"strings"
	"sync"
	"sync/atomic"
)

// ---- relation graph (type index = index in scTypes; must equal scCfg below) ----

type ScA struct { // 0: has-many ScB, has-one ScH
	ID uint `gorm:"primaryKey"`
	Bs []ScB
	H  *ScH
}
type ScB struct { // 1: belongs-to ScA  (cycle 0 <-> 1)
	ID    uint `gorm:"primaryKey"`
	ScAID uint
	A     *ScA `gorm:"foreignKey:ScAID"`
}
type ScC struct { // 2: belongs-to ScD   (cycle 2 -> 3 -> 4 -> 2)
	ID    uint `gorm:"primaryKey"`
	ScDID uint
	D     *ScD `gorm:"foreignKey:ScDID"`
}
type ScD struct { // 3: belongs-to ScE
	ID    uint `gorm:"primaryKey"`
	ScEID uint
	E     *ScE `gorm:"foreignKey:ScEID"`
}
type ScE struct { // 4: belongs-to ScC
	ID    uint `gorm:"primaryKey"`
	ScCID uint
	C     *ScC `gorm:"foreignKey:ScCID"`
}
type ScS struct { // 5: self reference: belongs-to self, has-many self
	ID        uint `gorm:"primaryKey"`
	ManagerID *uint
	Manager   *ScS
	Team      []ScS `gorm:"foreignKey:ManagerID"`
}
type ScBad struct { // 6: has-many ScU1 with a foreign key that does not exist => schema.err
	ID    uint   `gorm:"primaryKey"`
	Items []ScU1 `gorm:"foreignKey:Nope"`
}
type ScU1 struct { // 7: no relations
	ID   uint `gorm:"primaryKey"`
	Name string
}
type ScU2 struct { // 8: no relations
	ID   uint `gorm:"primaryKey"`
	Name string
}
type ScM struct { // 9: belongs-to ScA, belongs-to ScU1, belongs-to ScBad (nested parse error propagates)
	ID      uint `gorm:"primaryKey"`
	ScAID   uint
	A       *ScA `gorm:"foreignKey:ScAID"`
	ScU1ID  uint
	U       *ScU1 `gorm:"foreignKey:ScU1ID"`
	ScBadID uint
	Bad     *ScBad `gorm:"foreignKey:ScBadID"`
}
type ScH struct { // 10: target of ScA's has-one, has-many ScU2x via own key
	ID    uint `gorm:"primaryKey"`
	ScAID uint
}
type ScN struct { // 11: belongs-to ScA, belongs-to ScC, has-many ScO
	ID    uint `gorm:"primaryKey"`
	ScAID uint
	A     *ScA `gorm:"foreignKey:ScAID"`
	ScCID uint
	C     *ScC `gorm:"foreignKey:ScCID"`
	Os    []ScO
}
type ScO struct { // 12: belongs-to ScN (cycle 11 <-> 12), belongs-to ScS
	ID    uint `gorm:"primaryKey"`
	ScNID uint
	N     *ScN `gorm:"foreignKey:ScNID"`
	ScSID uint
	S     *ScS `gorm:"foreignKey:ScSID"`
}

func (ScA) TableName() string   { return scHook(0, "sc_as") }
func (ScB) TableName() string   { return scHook(1, "sc_bs") }
func (ScC) TableName() string   { return scHook(2, "sc_cs") }
func (ScD) TableName() string   { return scHook(3, "sc_ds") }
func (ScE) TableName() string   { return scHook(4, "sc_es") }
func (ScS) TableName() string   { return scHook(5, "sc_ss") }
func (ScBad) TableName() string { return scHook(6, "sc_bads") }
func (ScU1) TableName() string  { return scHook(7, "sc_u1s") }
func (ScU2) TableName() string  { return scHook(8, "sc_u2s") }
func (ScM) TableName() string   { return scHook(9, "sc_ms") }
func (ScH) TableName() string   { return scHook(10, "sc_hs") }
func (ScN) TableName() string   { return scHook(11, "sc_ns") }
func (ScO) TableName() string   { return scHook(12, "sc_os") }

var scTypes = []func() interface{}{
	func() interface{} { return &ScA{} }, func() interface{} { return &ScB{} }, func() interface{} { return &ScC{} },
	func() interface{} { return &ScD{} }, func() interface{} { return &ScE{} }, func() interface{} { return &ScS{} },
	func() interface{} { return &ScBad{} }, func() interface{} { return &ScU1{} }, func() interface{} { return &ScU2{} },
	func() interface{} { return &ScM{} }, func() interface{} { return &ScH{} }, func() interface{} { return &ScN{} },
	func() interface{} { return &ScO{} },
}
var scTypeNames = []string{"ScA", "ScB", "ScC", "ScD", "ScE", "ScS", "ScBad", "ScU1", "ScU2", "ScM", "ScH", "ScN", "ScO"}

// scRel = [target type, has (back reference inserted into the target), bad (sets schema.err)], relation fields in struct order
type scRel struct {
	Target int
	Has    bool
	Bad    bool
	Field  string
}

var scCfg = [][]scRel{
	0:  {{1, true, false, "Bs"}, {10, true, false, "H"}},
	1:  {{0, false, false, "A"}},
	2:  {{3, false, false, "D"}},
	3:  {{4, false, false, "E"}},
	4:  {{2, false, false, "C"}},
	5:  {{5, false, false, "Manager"}, {5, true, false, "Team"}},
	6:  {{7, true, true, "Items"}},
	7:  {},
	8:  {},
	9:  {{0, false, false, "A"}, {7, false, false, "U"}, {6, false, false, "Bad"}},
	10: {},
	11: {{0, false, false, "A"}, {2, false, false, "C"}, {12, true, false, "Os"}},
	12: {{11, false, false, "N"}, {5, false, false, "S"}},
}

func scCfgJSON() [][][]interface{} {
	out := make([][][]interface{}, len(scCfg))
	for i, rs := range scCfg {
		out[i] = [][]interface{}{}
		for _, r := range rs {
			out[i] = append(out[i], []interface{}{r.Target, r.Has, r.Bad})
		}
	}
	return out
}

// ---- schedule controller ----

type scEvent struct {
	Tid  int
	Kind string // "S" parked before a top-level Parse, "P" parked in TableName, "D" finished
	Ty   int
}

type scController struct {
	mu      sync.Mutex
	gids    map[int64]int // goroutine id -> thread id
	events  chan scEvent
	release []chan struct{}
	free    atomic.Bool // true: parks return immediately (abort / drain mode)
}

var scCtl atomic.Pointer[scController]

func curGID() int64 {
	var buf [64]byte
	n := runtime.Stack(buf[:], false)
	// "goroutine 123 [running]:"
	f := bytes.Fields(buf[:n])
	if len(f) < 2 {
		return -1
	}
	id, _ := strconv.ParseInt(string(f[1]), 10, 64)
	return id
}

func scHook(ty int, name string) string {
	c := scCtl.Load()
	if c == nil || c.free.Load() {
		return name
	}
	c.mu.Lock()
	tid, ok := c.gids[curGID()]
	c.mu.Unlock()
	if !ok {
		return name
	}
	c.park(tid, "P", ty)
	return name
}

func (c *scController) park(tid int, kind string, ty int) {
	if c.free.Load() {
		return
	}
	c.events <- scEvent{tid, kind, ty}
	<-c.release[tid]
}

// goroutineState returns "chanrecv-parse" if goroutine gid is blocked in a channel receive directly inside
// schema.ParseWithSpecialTableName (i.e. on `<-s.initialized`), else another label.
func goroutineState(gid int64) string {
	buf := make([]byte, 1<<20)
	n := runtime.Stack(buf, true)
	for _, sec := range strings.Split(string(buf[:n]), "\n\n") {
		head := "goroutine " + strconv.FormatInt(gid, 10) + " ["
		if !strings.HasPrefix(sec, head) {
			continue
		}
		lines := strings.Split(sec, "\n")
		state := strings.TrimPrefix(lines[0], head)
		if !strings.HasPrefix(state, "chan receive") {
			return "other:" + state
		}
		for _, l := range lines[1:] {
			if strings.HasPrefix(l, "\t") || strings.HasPrefix(l, "runtime.") {
				continue
			}
			if strings.Contains(l, "schema.ParseWithSpecialTableName") {
				return "chanrecv-parse"
			}
			return "chanrecv-other"
		}
	}
	return "gone"
}
