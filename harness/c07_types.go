package main

// C07: static model types whose TableName() methods are schedule hook points.
// schema.ParseWithSpecialTableName calls Tabler.TableName() between its first cacheStore.Load (miss) and the
// allocation of the Schema object; parking the goroutine there lets the harness force the order in which
// goroutines proceed through the cache protocol (DESIGN §4 C07 "Tie").

import (
	"bytes"
	"runtime"
	"strconv"
	"strings"
	"sync"
	"sync/atomic"
)

// ---- relation graph (type index = index in c07ScTypes; must equal c07ScCfg below) ----

type C07ScA struct { // 0: has-many C07ScB, has-one C07ScH
	ID uint `gorm:"primaryKey"`
	Bs []C07ScB
	H  *C07ScH
}
type C07ScB struct { // 1: belongs-to C07ScA  (cycle 0 <-> 1)
	ID       uint `gorm:"primaryKey"`
	C07ScAID uint
	A        *C07ScA `gorm:"foreignKey:C07ScAID"`
}
type C07ScC struct { // 2: belongs-to C07ScD   (cycle 2 -> 3 -> 4 -> 2)
	ID       uint `gorm:"primaryKey"`
	C07ScDID uint
	D        *C07ScD `gorm:"foreignKey:C07ScDID"`
}
type C07ScD struct { // 3: belongs-to C07ScE
	ID       uint `gorm:"primaryKey"`
	C07ScEID uint
	E        *C07ScE `gorm:"foreignKey:C07ScEID"`
}
type C07ScE struct { // 4: belongs-to C07ScC
	ID       uint `gorm:"primaryKey"`
	C07ScCID uint
	C        *C07ScC `gorm:"foreignKey:C07ScCID"`
}
type C07ScS struct { // 5: self reference: belongs-to self, has-many self
	ID        uint `gorm:"primaryKey"`
	ManagerID *uint
	Manager   *C07ScS
	Team      []C07ScS `gorm:"foreignKey:ManagerID"`
}
type C07ScBad struct { // 6: has-many C07ScU1 with a foreign key that does not exist => schema.err
	ID    uint      `gorm:"primaryKey"`
	Items []C07ScU1 `gorm:"foreignKey:Nope"`
}
type C07ScU1 struct { // 7: no relations
	ID   uint `gorm:"primaryKey"`
	Name string
}
type C07ScU2 struct { // 8: no relations
	ID   uint `gorm:"primaryKey"`
	Name string
}
type C07ScM struct { // 9: belongs-to C07ScA, belongs-to C07ScU1, belongs-to C07ScBad (nested parse error propagates)
	ID         uint `gorm:"primaryKey"`
	C07ScAID   uint
	A          *C07ScA `gorm:"foreignKey:C07ScAID"`
	C07ScU1ID  uint
	U          *C07ScU1 `gorm:"foreignKey:C07ScU1ID"`
	C07ScBadID uint
	Bad        *C07ScBad `gorm:"foreignKey:C07ScBadID"`
}
type C07ScH struct { // 10: target of C07ScA's has-one, has-many ScU2x via own key
	ID       uint `gorm:"primaryKey"`
	C07ScAID uint
}
type C07ScN struct { // 11: belongs-to C07ScA, belongs-to C07ScC, has-many C07ScO
	ID       uint `gorm:"primaryKey"`
	C07ScAID uint
	A        *C07ScA `gorm:"foreignKey:C07ScAID"`
	C07ScCID uint
	C        *C07ScC `gorm:"foreignKey:C07ScCID"`
	Os       []C07ScO
}
type C07ScO struct { // 12: belongs-to C07ScN (cycle 11 <-> 12), belongs-to C07ScS
	ID       uint `gorm:"primaryKey"`
	C07ScNID uint
	N        *C07ScN `gorm:"foreignKey:C07ScNID"`
	C07ScSID uint
	S        *C07ScS `gorm:"foreignKey:C07ScSID"`
}

type C07ScQ struct { // 13: a second has-many into C07ScB (two different parsers insert back references into C07ScB)
	ID uint     `gorm:"primaryKey"`
	Bs []C07ScB `gorm:"foreignKey:C07ScAID"`
}

func (C07ScQ) TableName() string   { return c07ScHook(13, "sc_qs") }
func (C07ScA) TableName() string   { return c07ScHook(0, "sc_as") }
func (C07ScB) TableName() string   { return c07ScHook(1, "sc_bs") }
func (C07ScC) TableName() string   { return c07ScHook(2, "sc_cs") }
func (C07ScD) TableName() string   { return c07ScHook(3, "sc_ds") }
func (C07ScE) TableName() string   { return c07ScHook(4, "sc_es") }
func (C07ScS) TableName() string   { return c07ScHook(5, "sc_ss") }
func (C07ScBad) TableName() string { return c07ScHook(6, "sc_bads") }
func (C07ScU1) TableName() string  { return c07ScHook(7, "sc_u1s") }
func (C07ScU2) TableName() string  { return c07ScHook(8, "sc_u2s") }
func (C07ScM) TableName() string   { return c07ScHook(9, "sc_ms") }
func (C07ScH) TableName() string   { return c07ScHook(10, "sc_hs") }
func (C07ScN) TableName() string   { return c07ScHook(11, "sc_ns") }
func (C07ScO) TableName() string   { return c07ScHook(12, "sc_os") }

var c07ScTypes = []func() interface{}{
	func() interface{} { return &C07ScA{} }, func() interface{} { return &C07ScB{} }, func() interface{} { return &C07ScC{} },
	func() interface{} { return &C07ScD{} }, func() interface{} { return &C07ScE{} }, func() interface{} { return &C07ScS{} },
	func() interface{} { return &C07ScBad{} }, func() interface{} { return &C07ScU1{} }, func() interface{} { return &C07ScU2{} },
	func() interface{} { return &C07ScM{} }, func() interface{} { return &C07ScH{} }, func() interface{} { return &C07ScN{} },
	func() interface{} { return &C07ScO{} }, func() interface{} { return &C07ScQ{} },
}
var c07ScTypeNames = []string{"C07ScA", "C07ScB", "C07ScC", "C07ScD", "C07ScE", "C07ScS", "C07ScBad", "C07ScU1", "C07ScU2", "C07ScM", "C07ScH", "C07ScN", "C07ScO", "C07ScQ"}

// c07ScRel = [target type, has (back reference inserted into the target), bad (sets schema.err)], relation fields in struct order
type c07ScRel struct {
	Target int
	Has    bool
	Bad    bool
	Field  string
}

var c07ScCfg = [][]c07ScRel{
	0:  {{1, true, false, "Bs"}, {10, true, false, "H"}},
	1:  {{0, false, false, "A"}},
	2:  {{3, false, false, "D"}},
	3:  {{4, false, false, "E"}},
	4:  {{2, false, false, "C"}},
	5:  {{5, false, false, "Manager"}, {5, true, false, "Team"}},
	6:  {{7, true, true, "Items"}},
	7:  {},
	8:  {},
	9:  {{0, false, false, "A"}, {7, false, false, "U"}, {6, false, false, "Bad"}},
	10: {},
	11: {{0, false, false, "A"}, {2, false, false, "C"}, {12, true, false, "Os"}},
	12: {{11, false, false, "N"}, {5, false, false, "S"}},
	13: {{1, true, false, "Bs"}},
}

func c07ScCfgJSON() [][][]interface{} {
	out := make([][][]interface{}, len(c07ScCfg))
	for i, rs := range c07ScCfg {
		out[i] = [][]interface{}{}
		for _, r := range rs {
			out[i] = append(out[i], []interface{}{r.Target, r.Has, r.Bad})
		}
	}
	return out
}

// ---- schedule controller ----

type c07ScEvent struct {
	Tid  int
	Kind string // "S" parked before a top-level Parse, "P" parked in TableName, "D" finished
	Ty   int
}

type c07ScController struct {
	mu      sync.Mutex
	gids    map[int64]int // goroutine id -> thread id
	events  chan c07ScEvent
	release []chan struct{}
	free    atomic.Bool // true: parks return immediately (abort / drain mode)
}

var c07ScCtl atomic.Pointer[c07ScController]

func c07CurGID() int64 {
	var buf [64]byte
	n := runtime.Stack(buf[:], false)
	// "goroutine 123 [running]:"
	f := bytes.Fields(buf[:n])
	if len(f) < 2 {
		return -1
	}
	id, _ := strconv.ParseInt(string(f[1]), 10, 64)
	return id
}

func c07ScHook(ty int, name string) string {
	c := c07ScCtl.Load()
	if c == nil || c.free.Load() {
		return name
	}
	c.mu.Lock()
	tid, ok := c.gids[c07CurGID()]
	c.mu.Unlock()
	if !ok {
		return name
	}
	c.park(tid, "P", ty)
	return name
}

func (c *c07ScController) park(tid int, kind string, ty int) {
	if c.free.Load() {
		return
	}
	c.events <- c07ScEvent{tid, kind, ty}
	<-c.release[tid]
}

// c07GoroutineState returns "chanrecv-parse" if goroutine gid is blocked in a channel receive directly inside
// schema.ParseWithSpecialTableName (i.e. on `<-s.initialized`), else another label.
func c07GoroutineState(gid int64) string {
	buf := make([]byte, 1<<20)
	n := runtime.Stack(buf, true)
	for _, sec := range strings.Split(string(buf[:n]), "\n\n") {
		head := "goroutine " + strconv.FormatInt(gid, 10) + " ["
		if !strings.HasPrefix(sec, head) {
			continue
		}
		lines := strings.Split(sec, "\n")
		state := strings.TrimPrefix(lines[0], head)
		if !strings.HasPrefix(state, "chan receive") {
			return "other:" + state
		}
		for _, l := range lines[1:] {
			if strings.HasPrefix(l, "\t") || strings.HasPrefix(l, "runtime.") {
				continue
			}
			if strings.Contains(l, "schema.ParseWithSpecialTableName") {
				return "chanrecv-parse"
			}
			return "chanrecv-other"
		}
	}
	return "gone"
}
