package main

// C07 end-to-end oracle.  The PARENT (normal harness binary, suite c07RaceParent) builds a second harness binary with
// `go build -race`, runs it as a subprocess with `-prop C07race` (suite c07RaceChild below), and judges what comes back.
// The CHILD runs generated programs: G goroutines execute random operations on DISJOINT rows through ONE shared
// *gorm.DB handle (cold schema cache = fresh gorm.Open + first use of every model type inside the goroutines, or warm),
// then (a) reads the race detector's log for reports produced during that program and normalises each report to the
// pair of top gorm frames of the two racing stacks, (b) compares every goroutine's results and the final table rows
// with a SERIAL run of exactly the same programs.
//
// Latitude / environment: SQLite shared-cache in-memory database.  Mixed (writing) programs use SetMaxOpenConns(1)
// (writers serialised at the connection; "database table is locked" is environment noise, not gorm behaviour);
// read-only programs use 4 connections.  Child or program timeouts are reported as "inconclusive", never as a violation.
// Row order: every query orders by primary key; preloaded children are sorted before comparing.

import (
	"context"
	"database/sql"
	"encoding/json"
	"errors"
	"fmt"
	"math/rand"
	"os"
	"os/exec"
	"path/filepath"
	"regexp"
	"sort"
	"strings"
	"sync"
	"time"

	"gorm.io/driver/sqlite"
	"gorm.io/gorm"
	"gorm.io/gorm/clause"
	"gorm.io/gorm/logger"
)

type c07RaceProg struct {
	Seed    int64  `json:"seed"`
	G       int    `json:"g"`
	Cold    bool   `json:"cold"`
	Family  string `json:"family"` // related | mutual | unrelated | readers
	Prepare bool   `json:"prepare"`
	Handle  string `json:"handle"` // db | session | ctx | where | leadingOr | model | prepsession | debug
	Ops     int    `json:"ops"`
	// Derive: how every goroutine derives its OWN handle from the shared one for each operation ("" = uses the shared handle
	// bare; "mix" = a random derivation per operation; else one of c07DeriveModes for every operation)
	Derive string `json:"derive,omitempty"`
	// Conns: connections of the pool (0 = family default: 1 for writing families, 4 for readers); > 1 makes zoo programs read-only
	Conns int `json:"conns,omitempty"`
	// Only: restrict the family's operations to this kind (focused probes), "" = all
	Only string `json:"only,omitempty"`
	// Logger: "" = the harness' trace logger on the shared handle; "stock-<level>" = gorm's own logger.New(…) on a capturing
	// writer; "default-<level>" = the handle names no logger and gets the process-wide logger.Default (c07_stocklog.go)
	Logger string `json:"logger,omitempty"`
}

type c07RacePair struct {
	A   string `json:"a"`
	B   string `json:"b"`
	Raw string `json:"raw,omitempty"`
}

type c07RaceOutcome struct {
	Prog         c07RaceProg   `json:"prog"`
	Pairs        []c07RacePair `json:"pairs"`
	Mismatch     string        `json:"mismatch,omitempty"`
	PtrDiff      string        `json:"ptr_diff,omitempty"`
	CfgDiff      string        `json:"cfg_diff,omitempty"`
	TraceDiff    string        `json:"trace_diff,omitempty"`
	Inconclusive string        `json:"inconclusive,omitempty"`
	Panic        string        `json:"panic,omitempty"`    // an operation panicked (recovered per goroutine): value + gorm frames
	Deadlock     string        `json:"deadlock,omitempty"` // the program hung with every gorm goroutine in a completion-channel receive
	F32          int           `json:"f32,omitempty"`      // results matching the listed finding F32 (see c07FailF32)
	OpKinds      []string      `json:"op_kinds"`
	Errs         int           `json:"errs"`
	Millis       int64         `json:"ms"`
}

type c07RaceSpec struct {
	Progs []c07RaceProg `json:"progs"`
	Log   string        `json:"log"`
}

// ---------- plain (unrelated) models ----------

type C07Plain1 struct {
	ID   uint `gorm:"primaryKey"`
	Name string
	N    int
}
type C07Plain2 struct {
	ID        uint `gorm:"primaryKey"`
	Name      string
	N         int
	DeletedAt gorm.DeletedAt
}
type C07Plain3 struct {
	ID   uint `gorm:"primaryKey"`
	Name string
	N    int
}

func (C07Plain1) TableName() string { return "rc_plain1" }
func (C07Plain2) TableName() string { return "rc_plain2" }
func (C07Plain3) TableName() string { return "rc_plain3" }

var c07AllModels = []interface{}{&RCompany{}, &RProfile{}, &RPet{}, &RLang{}, &RToy{}, &RUser{}, &C07Plain1{}, &C07Plain2{}, &C07Plain3{},
	&C07ScA{}, &C07ScB{}, &C07ScH{}, &C07ScN{}, &C07ScO{}, &C07ScS{}, &C07ScC{}, &C07ScD{}, &C07ScE{}, &C07ScQ{}, &C07Zoo{}, &C07FailHook{}, &C07Cat{}, &C07ItemTag{}, &C07Item{}}
var c07AllTables = []string{"r_companies", "r_profiles", "r_pets", "r_langs", "r_toys", "r_users", "r_user_langs",
	"rc_plain1", "rc_plain2", "rc_plain3", "sc_as", "sc_bs", "sc_hs", "sc_ns", "sc_os", "sc_ss", "sc_cs", "sc_ds", "sc_es", "sc_qs", "c07_zoos", "c07_fail_hooks", "c07_cats", "c07_item_tags", "c07_items"}

func c07Dump(sqlDB *sql.DB) map[string][]string { return c07DumpTables(sqlDB, c07AllTables) }

func c07DumpTables(sqlDB *sql.DB, base []string) map[string][]string {
	out := map[string][]string{}
	tables := append([]string{}, base...)
	// tables created by the programs themselves (AutoMigrate through the shared handle): their names and their rows
	if rows, err := sqlDB.Query("SELECT name FROM sqlite_master WHERE type = 'table' AND name LIKE 'c07_dyn_%' ORDER BY name"); err == nil {
		var dyn []string
		for rows.Next() {
			var n string
			_ = rows.Scan(&n)
			dyn = append(dyn, n)
		}
		rows.Close()
		out["sqlite_master"] = dyn
		tables = append(tables, dyn...)
	}
	for _, t := range tables {
		rows, err := sqlDB.Query("SELECT * FROM " + t)
		if err != nil {
			panic("c07Dump: " + t + ": " + err.Error())
		}
		cols, _ := rows.Columns()
		list := []string{}
		for rows.Next() {
			vals := make([]interface{}, len(cols))
			ptrs := make([]interface{}, len(cols))
			for i := range vals {
				ptrs[i] = &vals[i]
			}
			_ = rows.Scan(ptrs...)
			s := ""
			for i, v := range vals {
				if b, ok := v.([]byte); ok {
					v = string(b)
				}
				s += fmt.Sprintf("%s=%v;", cols[i], v)
			}
			list = append(list, s)
		}
		rows.Close()
		sort.Strings(list) // canonical: row order is not part of the property
		out[t] = list
	}
	return out
}

func c07ErrClass(err error) string {
	switch {
	case err == nil:
		return "ok"
	case errors.Is(err, gorm.ErrRecordNotFound):
		return "notfound"
	case strings.Contains(err.Error(), "locked") || strings.Contains(err.Error(), "busy"):
		return "locked"
	default:
		// error texts may print a pointer (gorm: "unsupported data type: 0xc000…"): addresses are not part of the result
		return "err:" + c07ReHex.ReplaceAllString(err.Error(), "0x?")
	}
}

func c07ShowUser(u *RUser) string {
	s := fmt.Sprintf("U%d/%s/%d", u.ID, u.Name, u.Age)
	if u.CompanyID != nil {
		s += fmt.Sprintf(" cid=%d", *u.CompanyID)
	}
	if u.Company != nil {
		s += fmt.Sprintf(" C%d/%s", u.Company.ID, u.Company.Name)
	}
	if u.Profile != nil {
		s += fmt.Sprintf(" P%d/%s", u.Profile.ID, u.Profile.Bio)
	}
	var kids []string
	for _, p := range u.Pets {
		kids = append(kids, fmt.Sprintf("pet%d/%s", p.ID, p.Name))
	}
	for _, l := range u.Langs {
		kids = append(kids, "lang"+l.Code)
	}
	for _, t := range u.Toys {
		kids = append(kids, fmt.Sprintf("toy%d/%s", t.ID, t.Name))
	}
	for _, t := range u.Team {
		kids = append(kids, fmt.Sprintf("team%d", t.ID))
	}
	sort.Strings(kids)
	if u.Manager != nil {
		s += fmt.Sprintf(" M%d", u.Manager.ID)
	}
	return s + " [" + strings.Join(kids, ",") + "]"
}

func c07ShowUsers(us []RUser) string {
	var out []string
	for i := range us {
		out = append(out, c07ShowUser(&us[i]))
	}
	return strings.Join(out, " | ")
}

// ---------- one goroutine's program ----------

type c07RaceWorker struct {
	g       int
	base    uint
	rng     *rand.Rand
	n       uint   // ids handed out
	users   []uint // own user ids created so far
	as      []uint // own C07ScA ids
	ns      []uint
	ps      []uint // own plain ids
	zs      []uint // own zoo ids
	ro      bool   // read-only program (several connections)
	hmodel  bool   // the shared handle carries Model(&C07Zoo{})
	inTx    bool   // the current operation runs inside a transaction the goroutine opened (derivation begin / transaction)
	nohold  bool   // never keep a connection over several statements (see c07_derive.go, environment rule)
	only    string
	kinds   map[string]bool
	errs    int
	first   bool
	opIdx   int      // index of the operation being run (family "fail": same kind for all goroutines at one index)
	failSeq [][2]int // family "fail": (kind, finisher variant) per operation index
	rot     int      // family "fresh": rotation of the goroutine -> model-group assignment
}

func (w *c07RaceWorker) next() uint { w.n++; return w.base + w.n }

func (w *c07RaceWorker) opRelated(h *gorm.DB) string {
	lo, hi := w.base, w.base+9999
	pick := func() uint {
		if len(w.users) == 0 {
			return w.base + 1
		}
		return w.users[w.rng.Intn(len(w.users))]
	}
	k := w.rng.Intn(14)
	if len(w.users) == 0 {
		k = 0
	}
	switch k {
	case 0, 1:
		w.kinds["create-graph"] = true
		id := w.next()
		u := RUser{ID: id, Name: fmt.Sprintf("g%d-u%d", w.g, id), Age: 20 + w.rng.Intn(40)}
		if w.rng.Intn(2) == 0 {
			u.Company = &RCompany{ID: id, Name: fmt.Sprintf("co%d", id)}
		}
		if w.rng.Intn(2) == 0 {
			u.Profile = &RProfile{ID: id, Bio: fmt.Sprintf("bio%d", id)}
		}
		for i, n := 0, w.rng.Intn(3); i < n; i++ {
			u.Pets = append(u.Pets, RPet{ID: w.next(), Name: fmt.Sprintf("pet%d-%d", id, i)})
		}
		for i, n := 0, w.rng.Intn(3); i < n; i++ {
			u.Langs = append(u.Langs, RLang{Code: fmt.Sprintf("g%d-l%d-%d", w.g, id, i), Name: "lang"})
		}
		for i, n := 0, w.rng.Intn(2); i < n; i++ {
			u.Toys = append(u.Toys, RToy{ID: w.next(), Name: fmt.Sprintf("toy%d-%d", id, i)})
		}
		if len(w.users) > 0 && w.rng.Intn(3) == 0 {
			m := pick()
			u.ManagerID = &m
		}
		err := h.Create(&u).Error
		if err == nil {
			w.users = append(w.users, id)
		}
		return "create " + c07ErrClass(err)
	case 2:
		w.kinds["find"] = true
		var us []RUser
		err := h.Where("id BETWEEN ? AND ?", lo, hi).Order("id").Find(&us).Error
		return "find " + c07ErrClass(err) + " " + c07ShowUsers(us)
	case 3:
		w.kinds["first"] = true
		var u RUser
		err := h.First(&u, pick()).Error
		return "first " + c07ErrClass(err) + " " + c07ShowUser(&u)
	case 4:
		w.kinds["preload"] = true
		var us []RUser
		err := h.Preload("Pets").Preload("Company").Preload("Langs").Preload("Toys").Preload("Profile").Preload("Manager").Preload("Team").
			Where("id BETWEEN ? AND ?", lo, hi).Order("id").Find(&us).Error
		return "preload " + c07ErrClass(err) + " " + c07ShowUsers(us)
	case 5:
		w.kinds["preload-all"] = true
		var us []RUser
		err := h.Preload(clause.Associations).Where("id BETWEEN ? AND ?", lo, hi).Order("id").Find(&us).Error
		return "preloadall " + c07ErrClass(err) + " " + c07ShowUsers(us)
	case 6:
		w.kinds["joins"] = true
		var us []RUser
		err := h.Joins("Company").Joins("Manager").Where("r_users.id BETWEEN ? AND ?", lo, hi).Order("r_users.id").Find(&us).Error
		return "joins " + c07ErrClass(err) + " " + c07ShowUsers(us)
	case 7:
		w.kinds["update"] = true
		tx := h.Model(&RUser{}).Where("id = ?", pick()).Update("age", 1+w.rng.Intn(90))
		return fmt.Sprintf("update %s %d", c07ErrClass(tx.Error), tx.RowsAffected)
	case 8:
		w.kinds["updates-map"] = true
		tx := h.Model(&RUser{ID: pick()}).Updates(map[string]interface{}{"name": fmt.Sprintf("g%d-n%d", w.g, w.rng.Intn(100)), "age": w.rng.Intn(90)})
		return fmt.Sprintf("updates %s %d", c07ErrClass(tx.Error), tx.RowsAffected)
	case 9:
		w.kinds["delete-soft"] = true
		var pets []RPet
		uid := pick()
		if err := h.Where("r_user_id = ?", uid).Order("id").Find(&pets).Error; err != nil || len(pets) == 0 {
			return "delete-none " + c07ErrClass(err)
		}
		tx := h.Delete(&RPet{}, pets[0].ID)
		return fmt.Sprintf("delete %s %d", c07ErrClass(tx.Error), tx.RowsAffected)
	case 10:
		w.kinds["transaction"] = true
		id := w.next()
		fail := w.rng.Intn(2) == 0
		target := pick()
		age := w.rng.Intn(90)
		err := h.Transaction(func(tx *gorm.DB) error {
			if err := tx.Create(&RUser{ID: id, Name: fmt.Sprintf("g%d-tx%d", w.g, id), Pets: []RPet{{ID: w.next(), Name: "txpet"}}}).Error; err != nil {
				return err
			}
			if err := tx.Model(&RUser{}).Where("id = ?", target).Update("age", age).Error; err != nil {
				return err
			}
			if fail {
				return errors.New("rollback requested")
			}
			return nil
		})
		if err == nil {
			w.users = append(w.users, id)
		}
		return "tx " + c07ErrClass(err)
	case 11:
		w.kinds["assoc-append"] = true
		u := RUser{ID: pick()}
		err := h.Model(&u).Association("Pets").Append(&RPet{ID: w.next(), Name: "appended"})
		return "assoc-append " + c07ErrClass(err)
	case 12:
		w.kinds["assoc-count-find"] = true
		u := RUser{ID: pick()}
		n := h.Model(&u).Association("Pets").Count()
		var langs []RLang
		err := h.Model(&u).Association("Langs").Find(&langs)
		var codes []string
		for _, l := range langs {
			codes = append(codes, l.Code)
		}
		sort.Strings(codes)
		return fmt.Sprintf("assoc-count %d %s %v", n, c07ErrClass(err), codes)
	default:
		w.kinds["assoc-replace"] = true
		u := RUser{ID: pick()}
		err := h.Model(&u).Association("Langs").Replace(&RLang{Code: fmt.Sprintf("g%d-r%d", w.g, w.next()), Name: "repl"})
		return "assoc-replace " + c07ErrClass(err)
	}
}

func (w *c07RaceWorker) opMutual(h *gorm.DB) string {
	lo, hi := w.base, w.base+9999
	k := w.rng.Intn(10)
	if len(w.as) == 0 && (k == 4 || k == 6) {
		// first use enters through a different model type per goroutine (A, B, O/N, C/D/E, Q)
		k = []int{0, 1, 5, 7, 2, 3, 9}[w.g%7]
	}
	switch k {
	case 0:
		w.kinds["m-create-A"] = true
		id := w.next()
		a := C07ScA{ID: id}
		for i, n := 0, w.rng.Intn(3); i < n; i++ {
			a.Bs = append(a.Bs, C07ScB{ID: w.next()})
		}
		if w.rng.Intn(2) == 0 {
			a.H = &C07ScH{ID: id}
		}
		err := h.Create(&a).Error
		if err == nil {
			w.as = append(w.as, id)
		}
		return "mcreateA " + c07ErrClass(err)
	case 1:
		w.kinds["m-find-B-preload-A"] = true
		var bs []C07ScB
		err := h.Preload("A").Where("id BETWEEN ? AND ?", lo, hi).Order("id").Find(&bs).Error
		s := ""
		for _, b := range bs {
			s += fmt.Sprintf("B%d->%d", b.ID, b.C07ScAID)
			if b.A != nil {
				s += fmt.Sprintf("(A%d)", b.A.ID)
			}
			s += " "
		}
		return "mfindB " + c07ErrClass(err) + " " + s
	case 2:
		w.kinds["m-find-A-preload-Bs"] = true
		var as []C07ScA
		err := h.Preload("Bs").Preload("H").Where("id BETWEEN ? AND ?", lo, hi).Order("id").Find(&as).Error
		s := ""
		for _, a := range as {
			var kids []string
			for _, b := range a.Bs {
				kids = append(kids, fmt.Sprint(b.ID))
			}
			sort.Strings(kids)
			s += fmt.Sprintf("A%d%v h=%v ", a.ID, kids, a.H != nil)
		}
		return "mfindA " + c07ErrClass(err) + " " + s
	case 3:
		w.kinds["m-joins-B-A"] = true
		var bs []C07ScB
		err := h.Joins("A").Where("sc_bs.id BETWEEN ? AND ?", lo, hi).Order("sc_bs.id").Find(&bs).Error
		s := ""
		for _, b := range bs {
			s += fmt.Sprintf("B%d", b.ID)
			if b.A != nil {
				s += fmt.Sprintf("(A%d)", b.A.ID)
			}
			s += " "
		}
		return "mjoins " + c07ErrClass(err) + " " + s
	case 4:
		w.kinds["m-create-N-O-S"] = true
		id := w.next()
		aid := w.as[w.rng.Intn(len(w.as))]
		n := C07ScN{ID: id, C07ScAID: aid}
		for i, c := 0, 1+w.rng.Intn(2); i < c; i++ {
			n.Os = append(n.Os, C07ScO{ID: w.next(), S: &C07ScS{ID: w.next()}})
		}
		err := h.Create(&n).Error
		if err == nil {
			w.ns = append(w.ns, id)
		}
		return "mcreateN " + c07ErrClass(err)
	case 5:
		w.kinds["m-find-O-preload-N-A"] = true
		var os []C07ScO
		err := h.Preload("N.A").Preload("S").Where("id BETWEEN ? AND ?", lo, hi).Order("id").Find(&os).Error
		s := ""
		for _, o := range os {
			s += fmt.Sprintf("O%d", o.ID)
			if o.N != nil {
				s += fmt.Sprintf("(N%d", o.N.ID)
				if o.N.A != nil {
					s += fmt.Sprintf("(A%d)", o.N.A.ID)
				}
				s += ")"
			}
			if o.S != nil {
				s += fmt.Sprintf("(S%d)", o.S.ID)
			}
			s += " "
		}
		return "mfindO " + c07ErrClass(err) + " " + s
	case 6:
		w.kinds["m-assoc-append-Bs"] = true
		a := C07ScA{ID: w.as[w.rng.Intn(len(w.as))]}
		err := h.Model(&a).Association("Bs").Append(&C07ScB{ID: w.next()})
		return "massoc " + c07ErrClass(err)
	case 7:
		w.kinds["m-cycle-CDE"] = true
		id := w.next()
		c := C07ScC{ID: id, D: &C07ScD{ID: id, E: &C07ScE{ID: id}}}
		err := h.Create(&c).Error
		var cs []C07ScC
		err2 := h.Preload("D.E").Where("id BETWEEN ? AND ?", lo, hi).Order("id").Find(&cs).Error
		s := ""
		for _, c := range cs {
			s += fmt.Sprintf("C%d", c.ID)
			if c.D != nil && c.D.E != nil {
				s += fmt.Sprintf("(D%d(E%d))", c.D.ID, c.D.E.ID)
			}
			s += " "
		}
		return "mcycle " + c07ErrClass(err) + " " + c07ErrClass(err2) + " " + s
	case 9:
		w.kinds["m-Q-create-preload-Bs"] = true
		id := w.next()
		err := h.Create(&C07ScQ{ID: id, Bs: []C07ScB{{ID: w.next()}}}).Error
		var qs []C07ScQ
		err2 := h.Preload("Bs").Where("id BETWEEN ? AND ?", lo, hi).Order("id").Find(&qs).Error
		s := ""
		for _, q := range qs {
			var kids []string
			for _, b := range q.Bs {
				kids = append(kids, fmt.Sprint(b.ID))
			}
			sort.Strings(kids)
			s += fmt.Sprintf("Q%d%v ", q.ID, kids)
		}
		return "mQ " + c07ErrClass(err) + " " + c07ErrClass(err2) + " " + s
	default:
		w.kinds["m-update-delete-B"] = true
		var bs []C07ScB
		if err := h.Where("id BETWEEN ? AND ?", lo, hi).Order("id").Find(&bs).Error; err != nil || len(bs) == 0 {
			return "mdel-none " + c07ErrClass(err)
		}
		tx := h.Delete(&C07ScB{}, bs[len(bs)-1].ID)
		return fmt.Sprintf("mdel %s %d", c07ErrClass(tx.Error), tx.RowsAffected)
	}
}

func (w *c07RaceWorker) opPlain(h *gorm.DB) string {
	lo, hi := w.base, w.base+9999
	k := w.rng.Intn(7)
	if len(w.ps) == 0 {
		k = 0
	}
	which := w.g % 3
	newv := func(id uint, name string, n int) interface{} {
		switch which {
		case 0:
			return &C07Plain1{ID: id, Name: name, N: n}
		case 1:
			return &C07Plain2{ID: id, Name: name, N: n}
		default:
			return &C07Plain3{ID: id, Name: name, N: n}
		}
	}
	model := newv(0, "", 0)
	findAll := func() (string, error) {
		switch which {
		case 0:
			var xs []C07Plain1
			err := h.Where("id BETWEEN ? AND ?", lo, hi).Order("id").Find(&xs).Error
			return fmt.Sprint(xs), err
		case 1:
			var xs []C07Plain2
			err := h.Where("id BETWEEN ? AND ?", lo, hi).Order("id").Find(&xs).Error
			s := ""
			for _, x := range xs {
				s += fmt.Sprintf("{%d %s %d}", x.ID, x.Name, x.N)
			}
			return s, err
		default:
			var xs []C07Plain3
			err := h.Where("id BETWEEN ? AND ?", lo, hi).Order("id").Find(&xs).Error
			return fmt.Sprint(xs), err
		}
	}
	pick := func() uint { return w.ps[w.rng.Intn(len(w.ps))] }
	switch k {
	case 0, 1:
		w.kinds["p-create"] = true
		id := w.next()
		err := h.Create(newv(id, fmt.Sprintf("g%d-p%d", w.g, id), w.rng.Intn(100))).Error
		if err == nil {
			w.ps = append(w.ps, id)
		}
		return "pcreate " + c07ErrClass(err)
	case 2:
		w.kinds["p-find"] = true
		s, err := findAll()
		return "pfind " + c07ErrClass(err) + " " + s
	case 3:
		w.kinds["p-update"] = true
		tx := h.Model(model).Where("id = ?", pick()).Update("n", w.rng.Intn(100))
		return fmt.Sprintf("pupdate %s %d", c07ErrClass(tx.Error), tx.RowsAffected)
	case 4:
		w.kinds["p-delete"] = true
		tx := h.Where("id = ?", pick()).Delete(model)
		return fmt.Sprintf("pdelete %s %d", c07ErrClass(tx.Error), tx.RowsAffected)
	case 5:
		w.kinds["p-count"] = true
		var n int64
		err := h.Model(model).Where("id BETWEEN ? AND ?", lo, hi).Count(&n).Error
		return fmt.Sprintf("pcount %s %d", c07ErrClass(err), n)
	default:
		w.kinds["p-transaction"] = true
		id := w.next()
		fail := w.rng.Intn(2) == 0
		err := h.Transaction(func(tx *gorm.DB) error {
			if err := tx.Create(newv(id, "tx", 1)).Error; err != nil {
				return err
			}
			if fail {
				return errors.New("rollback requested")
			}
			return nil
		})
		if err == nil {
			w.ps = append(w.ps, id)
		}
		return "ptx " + c07ErrClass(err)
	}
}

// readers: read-only operations on pre-seeded rows (goroutine g reads the rows of seed block g)
func (w *c07RaceWorker) opReader(h *gorm.DB) string {
	lo, hi := w.base, w.base+9999
	k := w.rng.Intn(4)
	if w.first {
		k, w.first = 0, false
	}
	switch k {
	case 0:
		w.kinds["r-find"] = true
		var us []RUser
		err := h.Find(&us).Error // uses the shared handle's own conditions only
		n := 0
		for _, u := range us {
			if u.ID >= lo && u.ID <= hi {
				n++
			}
		}
		return fmt.Sprintf("rfind %s total=%d own=%d", c07ErrClass(err), len(us), n)
	case 1:
		w.kinds["r-find-where"] = true
		var us []RUser
		err := h.Where("id BETWEEN ? AND ?", lo, hi).Order("id").Find(&us).Error
		return "rfindw " + c07ErrClass(err) + " " + c07ShowUsers(us)
	case 2:
		w.kinds["r-preload"] = true
		var us []RUser
		err := h.Preload("Pets").Preload("Company").Where("id BETWEEN ? AND ?", lo, hi).Order("id").Find(&us).Error
		return "rpreload " + c07ErrClass(err) + " " + c07ShowUsers(us)
	default:
		w.kinds["r-count"] = true
		var n int64
		err := h.Model(&RUser{}).Count(&n).Error
		return fmt.Sprintf("rcount %s %d", c07ErrClass(err), n)
	}
}

type c07RaceRun struct {
	ptrDiff string
	outs    [][]string
	dump    map[string][]string
	kinds   map[string]bool
	errs    int
	hung    bool
	stacks  string         // all goroutine stacks at the moment the watchdog fired
	panics  []string       // operations that panicked (recovered per goroutine)
	cfg     []string       // fingerprint of the shared handle(s) after the program
	traces  map[string]int // statement shapes traced to the shared handle's logger
}

// c07RunRaceProg executes one program, serially (reference) or with G concurrent goroutines, on a fresh database.
func c07RunRaceProg(p c07RaceProg, serial bool) c07RaceRun {
	if p.Family == "stocklog" {
		return c07StockLogRun(p, serial)
	}
	setup, rec, sqlDB := OpenRec(&gorm.Config{NowFunc: fixedNowFunc})
	defer sqlDB.Close()
	conns := p.Conns
	if conns <= 0 {
		conns = 1
		if p.Family == "readers" {
			conns = 4
		}
	}
	nohold := (c07ProgPrepOn(p) && !(p.Family == "zoo" && conns >= p.G)) || p.Family == "fail"
	sqlDB.SetMaxOpenConns(conns)
	if p.Family == "fresh" {
		ms, _ := c07FreshModels()
		if err := setup.AutoMigrate(ms...); err != nil {
			panic(err)
		}
	} else if err := setup.AutoMigrate(c07AllModels...); err != nil {
		panic(err)
	}
	if p.Family == "zoo" {
		for g := 0; g < p.G; g++ {
			c07ZooSeed(setup, g)
		}
	}
	if p.Family == "carry" || p.Family == "extend" {
		for g := 0; g < p.G; g++ {
			c07CarrySeed(setup, g)
		}
		c07CarrySeed(setup, c07CarryStaticG)
	}
	var failSeq [][2]int
	if p.Family == "fail" {
		defer c07FailPrepare(p, setup, rec, sqlDB)()
		failSeq = c07FailSeq(p, conns > 1)
	}
	if p.Family == "readers" {
		for g := 0; g < p.G; g++ {
			w := &c07RaceWorker{g: g, base: uint(g+1) * 10000, rng: rand.New(rand.NewSource(p.Seed*977 + int64(g))), kinds: map[string]bool{}}
			for i := 0; i < 3; i++ {
				w.users = nil
				w.opRelated(setup) // k==0 path: create graph
			}
		}
	}
	// the shared handle: a fresh gorm.Open has its own (cold) schema cache, callbacks and statement cache
	tlog := c07NewTraceLogger()
	cfg := &gorm.Config{NowFunc: fixedNowFunc, Logger: tlog, PrepareStmt: p.Prepare}
	if p.Logger != "" { // gorm's own logger (its fields are then visible to the race detector); output is not compared in these families
		cfg.Logger, _ = c07StockLogger(p.Logger, p.Seed)
	}
	shared, err := gorm.Open(sqlite.Dialector{Conn: sqlDB}, cfg)
	if err != nil {
		panic(err)
	}
	mk := func() *gorm.DB {
		switch p.Handle {
		case "session":
			return shared.Session(&gorm.Session{})
		case "ctx":
			return shared.WithContext(context.Background())
		case "where":
			return shared.Where("id >= ?", 0).Where("age >= ?", 0).Session(&gorm.Session{})
		case "leadingOr":
			return shared.Or("id < ?", 0).Where("age >= ?", 0).Session(&gorm.Session{})
		case "idwhere":
			return shared.Where("id >= ?", 0).Where("id < ?", 1<<40).Session(&gorm.Session{})
		case "model":
			if conns == 1 { // writing program: the Model object would be written by every goroutine's operations (caller's memory, not gorm's)
				return shared.Table("c07_zoos").Session(&gorm.Session{})
			}
			return shared.Model(&C07Zoo{}).Session(&gorm.Session{})
		case "prepsession": // ONE prepared-statement session used by all goroutines
			return shared.Session(&gorm.Session{PrepareStmt: true})
		case "debug":
			return shared.Debug()
		case "carry": // a handle that carries a random subset of Order / Select / Joins / Preload / Group / … (c07_carry.go)
			h, _ := c07CarryHandle(shared, p.Seed, conns == 1 && !c07CarryStatic(p.Seed))
			return h
		case "extend": // a handle that carries N entries of ONE list kind (c07_extend.go)
			sp, ok := c07ExtParse(p.Only)
			if !ok {
				sp = c07ExtSpecOf(p.Seed)
			}
			return c07ExtBuild(shared, sp).Session(&gorm.Session{})
		default:
			return shared
		}
	}
	op0 := func(w *c07RaceWorker, h *gorm.DB) string {
		switch p.Family {
		case "related":
			return w.opRelated(h)
		case "mutual":
			return w.opMutual(h)
		case "readers":
			return w.opReader(h)
		case "zoo":
			return w.opZoo(h)
		case "fail":
			return w.opFail(h)
		case "carry":
			return w.opCarry(h)
		case "fresh":
			return w.opFresh(h)
		case "extend":
			return w.opExtend(h)
		default:
			return w.opPlain(h)
		}
	}
	// every operation runs on a handle the goroutine derives for itself from the shared one (p.Derive)
	op := func(w *c07RaceWorker, h *gorm.DB) string {
		if p.Derive == "" {
			return op0(w, h)
		}
		return w.derived(h, p.Derive, func(d *gorm.DB) string { return op0(w, d) })
	}
	if !p.Cold && p.Family != "fresh" {
		// warm: every operation kind, serially, on a reserved id block, before the goroutines start
		w := &c07RaceWorker{g: 90, base: 900000, rng: rand.New(rand.NewSource(p.Seed + 5)), kinds: map[string]bool{}, ro: conns > 1, only: p.Only, nohold: nohold, hmodel: p.Handle == "model" && conns > 1, failSeq: failSeq}
		if p.Family == "zoo" {
			c07ZooSeed(setup, 89)
		}
		if p.Family == "carry" || p.Family == "extend" {
			c07CarrySeed(setup, 89)
		}
		hw := mk()
		for _, m := range c07AllModels {
			st := &gorm.Statement{DB: shared}
			_ = st.Parse(m)
		}
		for i := 0; i < 40; i++ {
			w.opIdx = p.Ops + i // family "fail": texts of their own, the program's texts stay unprepared
			c07Guard(func() string { return op(w, hw) })
		}
	}
	// ONE shared handle per operation index (all goroutines use handles[i] for their i-th operation), derived before the
	// goroutines start and never used before: "first use" of a reusable handle also happens concurrently
	handles := make([]*gorm.DB, p.Ops)
	for i := range handles {
		if p.Handle == "db" || i == 0 || i%3 != 0 {
			if i > 0 {
				handles[i] = handles[0]
				continue
			}
		}
		handles[i] = mk()
	}
	workers := make([]*c07RaceWorker, p.G)
	outs := make([][]string, p.G)
	for g := 0; g < p.G; g++ {
		workers[g] = &c07RaceWorker{g: g, base: uint(g+1) * 10000, rng: rand.New(rand.NewSource(p.Seed*131 + int64(g))), kinds: map[string]bool{}, first: true, ro: conns > 1, only: p.Only, nohold: nohold, hmodel: p.Handle == "model" && conns > 1, failSeq: failSeq, rot: int(p.Seed % 8)}
	}
	ident := c07Identify(shared, handles)
	// "stampede" (half of the cold programs): every goroutine's very first action is Statement.Parse of every model type of
	// its family, in a rotated order; the *schema.Schema each goroutine received is recorded (single-winner observable)
	var fam []interface{}
	switch p.Family {
	case "mutual":
		fam = []interface{}{&C07ScA{}, &C07ScB{}, &C07ScQ{}, &C07ScN{}, &C07ScO{}, &C07ScC{}, &C07ScD{}, &C07ScE{}, &C07ScS{}, &C07ScH{}}
	case "related", "readers":
		fam = []interface{}{&RUser{}, &RPet{}, &RCompany{}, &RProfile{}, &RLang{}, &RToy{}}
	case "zoo":
		fam = []interface{}{&C07Zoo{}, &C07ZooLite{}}
	case "fail":
		fam = []interface{}{&C07Plain1{}, &C07Plain2{}, &C07Plain3{}, &C07FailHook{}}
	case "fresh":
		fam = nil
	case "carry", "extend":
		fam = []interface{}{&C07Cat{}, &C07ItemTag{}, &C07Item{}}
		// the parse phase of this family is over before the goroutines start (no parser runs concurrently: F10 / F12 cannot
		// apply); "cold" = nothing else has been used yet (first use of every spelling / finisher happens concurrently)
		for _, m := range fam {
			st := &gorm.Statement{DB: shared}
			_ = st.Parse(m)
		}
	default:
		fam = []interface{}{&C07Plain1{}, &C07Plain2{}, &C07Plain3{}}
	}
	stampede := p.Cold && p.Seed%2 == 0 && p.Family != "carry" && p.Family != "fresh" && p.Family != "extend"
	ptrs := make([]map[string]string, p.G)
	var barrier *c07Barrier
	if !serial && p.Family == "fail" {
		barrier = c07NewBarrier(p.G)
	}
	body := func(g int) {
		w := workers[g]
		if stampede {
			ptrs[g] = map[string]string{}
			for i := range fam {
				m := fam[(g+i)%len(fam)]
				st := &gorm.Statement{DB: shared}
				if err := st.Parse(m); err == nil && st.Schema != nil {
					ptrs[g][st.Schema.Name] = fmt.Sprintf("%p", st.Schema)
				}
			}
		}
		for i := 0; i < p.Ops; i++ {
			w.opIdx = i
			if p.Family == "fail" {
				barrier.wait() // all goroutines issue the index's (identical) text together
			}
			// a panic inside an operation is that operation's result (the serial run has none): recovered per goroutine
			s := c07Guard(func() string { return op(w, handles[i]) })
			if strings.Contains(s, " err:") || strings.Contains(s, " locked") {
				w.errs++
			}
			outs[g] = append(outs[g], s)
		}
	}
	res := c07RaceRun{kinds: map[string]bool{}}
	c07TakePanics()
	c07ZooGate.Store(nil)
	if !serial && p.Family == "zoo" {
		need := p.G
		if conns < need {
			need = conns
		}
		if need >= 2 {
			c07ZooGate.Store(c07NewGate(need))
		}
	}
	defer c07ZooGate.Store(nil)
	if serial {
		for g := 0; g < p.G; g++ {
			body(g)
		}
	} else {
		var wg sync.WaitGroup
		start := make(chan struct{})
		for g := 0; g < p.G; g++ {
			wg.Add(1)
			go func(g int) {
				defer wg.Done()
				<-start
				body(g)
			}(g)
		}
		close(start)
		done := make(chan struct{})
		go func() { wg.Wait(); close(done) }()
		select {
		case <-done:
		case <-time.After(c07HangAfter):
			res.hung = true
			res.stacks = c07AllStacks()
			res.panics = c07TakePanics()
			return res
		}
	}
	res.panics = c07TakePanics()
	for _, w := range workers {
		for k := range w.kinds {
			res.kinds[k] = true
		}
		res.errs += w.errs
	}
	if stampede {
		for g := 1; g < p.G; g++ {
			for name, ptr := range ptrs[g] {
				if p0, ok := ptrs[0][name]; ok && p0 != ptr {
					res.ptrDiff = fmt.Sprintf("model %s: goroutine 0 received schema %s, goroutine %d received %s", name, p0, g, ptr)
				}
			}
		}
	}
	res.outs = outs
	if p.Family == "fresh" {
		res.dump = c07DumpTables(sqlDB, func() []string { _, ts := c07FreshModels(); return ts }())
		res.cfg = append(c07Fingerprint(shared, handles, ident), c07FreshSchemaPrints(shared, len(c07FreshGroups))...)
		res.traces = tlog.snapshot()
		return res
	}
	res.dump = c07Dump(sqlDB)
	res.cfg = c07Fingerprint(shared, handles, ident)
	res.traces = tlog.snapshot()
	return res
}

// ---------- race report parsing ----------

var c07ReFn = regexp.MustCompile(`^\s+(\S+)\(\)$`)

// c07NormaliseFrame: "gorm.io/gorm/schema.(*Schema).setRelation" -> "schema.Schema.setRelation"; closures are attributed to
// their enclosing function ("…Execute.func1" -> "…Execute").
func c07NormaliseFrame(fn string) string {
	fn = strings.TrimPrefix(fn, "gorm.io/gorm/")
	if strings.HasPrefix(fn, "gorm.io/gorm.") {
		fn = "gorm." + strings.TrimPrefix(fn, "gorm.io/gorm.")
	}
	fn = strings.NewReplacer("(*", "", ")", "").Replace(fn)
	for {
		i := strings.LastIndex(fn, ".")
		if i < 0 {
			break
		}
		last := fn[i+1:]
		if strings.HasPrefix(last, "func") || (len(last) > 0 && last[0] >= '0' && last[0] <= '9') || strings.HasPrefix(last, "gowrap") {
			fn = fn[:i]
			continue
		}
		break
	}
	if i := strings.Index(fn, "["); i >= 0 { // generic instantiation
		fn = fn[:i]
	}
	return fn
}

func c07IsGormFrame(fn string) bool {
	return strings.HasPrefix(fn, "gorm.io/gorm/") || strings.HasPrefix(fn, "gorm.io/gorm.")
}

// c07ParseRaceReports extracts, per "WARNING: DATA RACE" block, the top gorm frame of each of the two access stacks
// ("" = the stack has no gorm frame, "?" = the detector could not restore the stack).
func c07ParseRaceReports(text string) []c07RacePair {
	var out []c07RacePair
	for _, blk := range strings.Split(text, "==================") {
		if !strings.Contains(blk, "WARNING: DATA RACE") {
			continue
		}
		secs := strings.Split(strings.TrimSpace(blk), "\n\n")
		var tops []string
		for _, sec := range secs {
			lines := strings.Split(sec, "\n")
			head := ""
			for _, l := range lines {
				if strings.Contains(l, " by goroutine ") || strings.Contains(l, " by main goroutine") {
					head = l
					break
				}
			}
			if head == "" || strings.HasPrefix(strings.TrimSpace(head), "Goroutine") {
				continue
			}
			if !(strings.Contains(head, "ead at") || strings.Contains(head, "rite at")) {
				continue
			}
			top := ""
			if strings.Contains(sec, "failed to restore the stack") {
				top = "?"
			}
			for _, l := range lines {
				if m := c07ReFn.FindStringSubmatch(l); m != nil && c07IsGormFrame(m[1]) {
					top = c07NormaliseFrame(m[1])
					break
				}
			}
			tops = append(tops, top)
		}
		for len(tops) < 2 {
			tops = append(tops, "?")
		}
		a, b := tops[0], tops[1]
		if a > b {
			a, b = b, a
		}
		raw := strings.TrimSpace(blk)
		if len(raw) > 2500 {
			raw = raw[:2500] + " …"
		}
		out = append(out, c07RacePair{A: a, B: b, Raw: raw})
	}
	return out
}

// ---------- known-finding patterns over normalised pairs ----------

// F10: both racing frames are schema-parsing functions (a parser reads a schema that getOrParse handed out before its own
// parser finished writing it).
var c07F10Funcs = map[string]bool{
	"schema.ParseWithSpecialTableName": true, "schema.Schema.parseRelation": true, "schema.Schema.setRelation": true,
	"schema.Schema.guessRelation": true, "schema.Schema.LookUpField": true, "schema.Schema.LookUpFieldByBindName": true,
	"schema.Schema.buildPolymorphicRelation": true, "schema.Schema.buildMany2ManyRelation": true, "schema.getOrParse": true,
	"schema.Parse": true, "schema.Schema.ParseField": true,
}

// F11: both racing frames are clause.Where.Build / clause.buildExprs (in-place swap on the shared Exprs array)
var c07F11Funcs = map[string]bool{"clause.Where.Build": true, "clause.buildExprs": true}

func c07InSet(set map[string]bool, f string) bool { return f == "?" || set[f] }

// c07IsParser: the frame is one of the schema-parsing functions (they only run during the first use of a model type)
func c07IsParser(f string) bool { return c07F10Funcs[f] }

// c07ClassifyPair maps a normalised race pair to the id of the listed finding whose pattern it matches ("unlisted" otherwise).
//
//	F10: cold cache, related model types, BOTH top gorm frames are schema-parser functions — except the pair
//	     {parseRelation, parseRelation}: parseRelation's own accesses are the Mux-protected back-reference insert and appends
//	     to its own schema, which cannot race with each other on the unchanged tree.
//	F12: cold cache, related model types, EXACTLY ONE frame is a schema-parser function (a goroutine already uses a schema
//	     that another goroutine's parser is still writing: handed out unfinished by getOrParse, or receiving a late
//	     back reference under Mux while readers do not lock).
//	F11: the shared handle's first WHERE element is a single Or; both frames are clause.Where.Build / clause.buildExprs.
//
// "?" (stack not restorable by the detector) is compatible with either side.
func c07ClassifyPair(p c07RacePair, prog c07RaceProg) string {
	if p.A == "" && p.B == "" {
		return "no-gorm-frame"
	}
	if p.A == "?" && p.B == "?" {
		return "unrestorable"
	}
	coldRelated := prog.Cold && prog.Family != "unrelated" && prog.Family != "carry" && prog.Family != "fresh" && prog.Family != "extend" && prog.Family != "stocklog"
	pa, pb := c07IsParser(p.A) || p.A == "?", c07IsParser(p.B) || p.B == "?"
	if coldRelated && pa && pb && !(p.A == "schema.Schema.parseRelation" && p.B == "schema.Schema.parseRelation") {
		return "F10"
	}
	if coldRelated && (c07IsParser(p.A) != c07IsParser(p.B)) && p.A != "" && p.B != "" {
		return "F12"
	}
	if c07InSet(c07F11Funcs, p.A) && c07InSet(c07F11Funcs, p.B) && prog.Handle == "leadingOr" {
		return "F11"
	}
	return "unlisted"
}

// ---------- child ----------

func c07RaceChild(r *Result, rng *rand.Rand, tier string) {
	specPath, outPath := os.Getenv("C07_RACE_SPEC"), os.Getenv("C07_RACE_OUT")
	if specPath == "" || outPath == "" {
		r.Note("C07race is the subprocess half of the C07 e2e suite; run ./check C07")
		return
	}
	var spec c07RaceSpec
	b, err := os.ReadFile(specPath)
	if err != nil || json.Unmarshal(b, &spec) != nil {
		r.Note("bad spec")
		return
	}
	logger.Default = logger.Discard // schema.Parse reports relation errors of invalid models through the package-level logger
	logFile := fmt.Sprintf("%s.%d", spec.Log, os.Getpid())
	off := 0
	var outcomes []c07RaceOutcome
	flush := func() {
		ob, _ := json.Marshal(outcomes)
		_ = os.WriteFile(outPath, ob, 0o644)
	}
	for _, p := range spec.Progs {
		if expired() {
			break
		}
		t0 := time.Now()
		o := c07RaceOutcome{Prog: p, Pairs: []c07RacePair{}}
		// the serial reference run under a watchdog too (a program that cannot even finish alone is not judged)
		refCh := make(chan c07RaceRun, 1)
		go func() { refCh <- c07RunRaceProg(p, true) }()
		var ref c07RaceRun
		select {
		case ref = <-refCh:
		case <-time.After(c07HangAfter):
			o.Inconclusive = fmt.Sprintf("SERIAL reference run did not finish within %v", c07HangAfter)
			outcomes = append(outcomes, o)
			flush()
			continue
		}
		// anything the detector wrote during the serial reference run is attributed to it (expected: nothing)
		if lb, err := os.ReadFile(logFile); err == nil && len(lb) > off {
			for _, pr := range c07ParseRaceReports(string(lb[off:])) {
				pr.Raw = "DURING SERIAL REFERENCE RUN\n" + pr.Raw
				o.Pairs = append(o.Pairs, pr)
			}
			off = len(lb)
		}
		got := c07RunRaceProg(p, false)
		time.Sleep(5 * time.Millisecond)
		if lb, err := os.ReadFile(logFile); err == nil && len(lb) > off {
			o.Pairs = append(o.Pairs, c07ParseRaceReports(string(lb[off:]))...)
			off = len(lb)
		}
		// panics the operations have when they run ALONE are their (serial) results, not a concurrency matter: only those the
		// serial run of the same programs does not have count
		if extra := c07ExtraPanics(ref.panics, got.panics); len(extra) > 0 {
			o.Panic = fmt.Sprintf("%d operation(s) panicked that do not panic in the serial run; first: %s", len(extra), extra[0])
		}
		if got.hung {
			o.Inconclusive = fmt.Sprintf("program did not finish within %v", c07HangAfter)
			if o.Panic == "" {
				o.Deadlock = c07ClassifyHang(got.stacks)
			}
			outcomes = append(outcomes, o)
			flush()
			break // goroutines are stuck; this process cannot be trusted further
		}
		o.PtrDiff = got.ptrDiff
		if dump := os.Getenv("C07_DEV_DUMP"); dump != "" && len(got.outs) > 0 { // development aid: goroutine 0's results
			_ = os.WriteFile(dump, []byte(strings.Join(got.outs[0], "\n")+"\n"), 0o644)
		}
		for k := range got.kinds {
			o.OpKinds = append(o.OpKinds, k)
		}
		sort.Strings(o.OpKinds)
		o.Errs = got.errs
		if got.errs > 0 && ref.errs == 0 {
			// errors that only occur concurrently: SQLite locking noise or a gorm defect — decided by the texts below
		}
		if p.Family == "fail" {
			// the text "sql: statement is closed" only exists in database/sql's *sql.Stmt methods, so a result matching the F32
			// pattern certifies by itself that a cached prepared statement was involved (prepared mode can be switched on by an
			// operation of the fail family itself, not only by the program-level flags c07ProgPrepOn looks at)
			o.F32 = c07FailF32(ref.outs, got.outs)
		}
		for g := 0; g < p.G && o.Mismatch == ""; g++ {
			if canon(ref.outs[g]) != canon(got.outs[g]) {
				for i := range ref.outs[g] {
					if i >= len(got.outs[g]) || ref.outs[g][i] != got.outs[g][i] {
						gs := "<missing>"
						if i < len(got.outs[g]) {
							gs = got.outs[g][i]
						}
						if strings.Contains(gs, " locked") {
							o.Inconclusive = "sqlite lock error under concurrency: " + gs
						} else {
							o.Mismatch = fmt.Sprintf("goroutine %d op %d: serial=%q concurrent=%q", g, i, ref.outs[g][i], gs)
						}
						break
					}
				}
			}
		}
		if o.Mismatch == "" && o.Inconclusive == "" && canon(ref.dump) != canon(got.dump) {
			var dumpTables []string
			for t := range ref.dump {
				dumpTables = append(dumpTables, t)
			}
			sort.Strings(dumpTables)
			for _, t := range dumpTables {
				if canon(ref.dump[t]) != canon(got.dump[t]) {
					o.Mismatch = fmt.Sprintf("final rows of %s differ: serial=%v concurrent=%v", t, ref.dump[t], got.dump[t])
					break
				}
			}
		}
		if o.Mismatch == "" && o.Inconclusive == "" {
			for i := range ref.cfg {
				if i >= len(got.cfg) || ref.cfg[i] != got.cfg[i] {
					gs := "<missing>"
					if i < len(got.cfg) {
						gs = got.cfg[i]
					}
					o.CfgDiff = fmt.Sprintf("after the serial run: %s; after the concurrent run: %s", ref.cfg[i], gs)
					break
				}
			}
			if canon(ref.traces) != canon(got.traces) {
				var ks []string
				for k := range ref.traces {
					ks = append(ks, k)
				}
				for k := range got.traces {
					if _, ok := ref.traces[k]; !ok {
						ks = append(ks, k)
					}
				}
				sort.Strings(ks)
				for _, k := range ks {
					if ref.traces[k] != got.traces[k] {
						o.TraceDiff = fmt.Sprintf("statement shape %q traced %d times by the shared handle's logger in the serial run, %d times in the concurrent run", k, ref.traces[k], got.traces[k])
						break
					}
				}
			}
		}
		o.Millis = time.Since(t0).Milliseconds()
		outcomes = append(outcomes, o)
		flush()
	}
	flush()
}

// ---------- parent ----------

func c07Root() string {
	exe, err := os.Executable()
	if err != nil {
		return "/verif"
	}
	return filepath.Dir(filepath.Dir(exe)) // <ROOT>/.build/harness
}

var c07RaceBuildOnce sync.Once
var c07RaceBuildErr error

// c07BuildRaceBinary: `go build -race -tags verif -o <ROOT>/.build/harness_race .` in <ROOT>/harness; with VERIF_REPO the
// module replace is redirected through an alternative modfile exactly as ./check does for the normal binary.
func c07BuildRaceBinary() (string, error) {
	root := c07Root()
	bin := filepath.Join(root, ".build", "harness_race")
	c07RaceBuildOnce.Do(func() {
		src := filepath.Join(root, "harness")
		args := []string{"build", "-race", "-tags", "verif"}
		if repo := os.Getenv("VERIF_REPO"); repo != "" && repo != "/repo" {
			mod, err := os.ReadFile(filepath.Join(src, "go.mod"))
			if err != nil {
				c07RaceBuildErr = err
				return
			}
			alt := filepath.Join(root, ".build", "go.race.mod")
			_ = os.WriteFile(alt, []byte(strings.ReplaceAll(string(mod), "=> /repo", "=> "+repo)), 0o644)
			sum, _ := os.ReadFile(filepath.Join(src, "go.sum"))
			_ = os.WriteFile(filepath.Join(root, ".build", "go.race.sum"), sum, 0o644)
			args = append(args, "-modfile", alt)
		}
		args = append(args, "-o", bin, ".")
		cmd := exec.Command("go", args...)
		cmd.Dir = src
		cmd.Env = append(os.Environ(), "GOFLAGS=-mod=mod", "GOPROXY=off", "GOSUMDB=off", "GOTOOLCHAIN=local", "CGO_ENABLED=1")
		out, err := cmd.CombinedOutput()
		if err != nil {
			c07RaceBuildErr = fmt.Errorf("race build failed: %v\n%s", err, out)
		}
	})
	return bin, c07RaceBuildErr
}

func c07RunRaceChild(progs []c07RaceProg, budget time.Duration) ([]c07RaceOutcome, string) {
	bin, err := c07BuildRaceBinary()
	if err != nil {
		return nil, err.Error()
	}
	root := c07Root()
	tag := fmt.Sprintf("%d_%d", os.Getpid(), time.Now().UnixNano())
	specPath := filepath.Join(root, ".build", "c07_spec_"+tag+".json")
	outPath := filepath.Join(root, ".build", "c07_out_"+tag+".json")
	logPrefix := filepath.Join(root, ".build", "c07_racelog_"+tag)
	sb, _ := json.Marshal(c07RaceSpec{Progs: progs, Log: logPrefix})
	_ = os.WriteFile(specPath, sb, 0o644)
	defer func() {
		os.Remove(specPath)
		os.Remove(outPath)
		if ms, _ := filepath.Glob(logPrefix + ".*"); ms != nil {
			for _, m := range ms {
				os.Remove(m)
			}
		}
	}()
	ctx, cancel := context.WithTimeout(context.Background(), budget)
	defer cancel()
	cmd := exec.CommandContext(ctx, bin, "-prop", "C07race", "-tier", "quick", "-seed", "1", "-known", filepath.Join(root, "known_findings.json"))
	cmd.Env = append(os.Environ(), "GORACE=halt_on_error=0 history_size=5 log_path="+logPrefix,
		"C07_RACE_SPEC="+specPath, "C07_RACE_OUT="+outPath)
	out, runErr := cmd.CombinedOutput()
	var outcomes []c07RaceOutcome
	if b, err := os.ReadFile(outPath); err == nil {
		_ = json.Unmarshal(b, &outcomes)
	}
	note := ""
	if ctx.Err() != nil {
		note = "child timed out"
	} else if runErr != nil && len(outcomes) < len(progs) {
		// exit status 66 = races were reported (expected on the unchanged tree); anything else with missing outcomes is a crash
		tail := string(out)
		if i := strings.Index(tail, "panic: "); i >= 0 && !strings.Contains(tail, "fatal error:") {
			tail = tail[i:]
			if len(tail) > 2500 {
				tail = tail[:2500]
			}
		} else if i := strings.Index(tail, "fatal error:"); i >= 0 {
			tail = tail[i:]
			if len(tail) > 1500 {
				tail = tail[:1500]
			}
		} else if len(tail) > 1500 {
			tail = tail[len(tail)-1500:]
		}
		note = fmt.Sprintf("child ended early (%v): %s", runErr, tail)
	}
	return outcomes, note
}

var c07Thorough = false

// a program whose goroutines have not finished after this long is reported as inconclusive
var c07HangAfter = 30 * time.Second

func c07GenRaceProg(rng *rand.Rand) c07RaceProg {
	gs := []int{2, 4, 8, 16}
	if c07Thorough {
		gs = []int{2, 4, 8, 16, 32}
	}
	fams := []string{"related", "mutual", "mutual", "mutual", "unrelated", "readers", "zoo", "zoo", "zoo", "zoo", "fail", "fail", "fail", "carry", "carry", "carry", "carry", "fresh", "fresh", "fresh", "extend", "extend", "extend", "stocklog", "stocklog"}
	p := c07RaceProg{Seed: rng.Int63n(1 << 40), G: gs[rng.Intn(len(gs))], Cold: rng.Intn(2) == 0, Family: fams[rng.Intn(len(fams))],
		Prepare: rng.Intn(3) == 0, Ops: 4 + rng.Intn(8)}
	switch p.Family {
	case "readers":
		p.Handle = []string{"where", "session", "db"}[rng.Intn(3)]
	case "zoo":
		p.Handle = []string{"db", "db", "session", "ctx", "idwhere", "model", "prepsession", "debug"}[rng.Intn(8)]
		p.Cold = rng.Intn(4) != 0 // cold = empty per-field pools
		// read-only on several connections: scans really overlap.  A handle that carries Model(&obj) shares the caller's OBJECT
		// between the goroutines (gorm writes keys / timestamps back into it): only used by read-only programs
		if rng.Intn(2) == 0 || p.Handle == "model" {
			p.Conns = []int{2, 4, 8}[rng.Intn(3)]
		}
	case "fresh":
		p.Handle = []string{"db", "session", "ctx"}[rng.Intn(3)]
		p.Cold = true
		p.G = []int{2, 4, 8, 8}[rng.Intn(4)] // one private group of model types per goroutine
		p.Ops = 3 + rng.Intn(5)
	case "carry":
		p.Handle = "carry"
		p.Cold = rng.Intn(3) != 0
		if rng.Intn(3) == 0 { // read-only on several connections (the handle may then carry Model(&obj))
			p.Conns = []int{2, 4, 8}[rng.Intn(3)]
		}
	case "extend":
		p.Handle = "extend"
		p.Cold = rng.Intn(2) == 0
		p.Conns = []int{1, 2, 4, 8}[rng.Intn(4)] // read-only family
	case "stocklog":
		p.Handle = []string{"db", "db", "session", "ctx"}[rng.Intn(4)]
		p.Logger = c07StockLoggers[rng.Intn(len(c07StockLoggers))]
		p.Prepare = false
		if rng.Intn(3) == 0 {
			p.Conns = []int{2, 4}[rng.Intn(2)]
		}
	case "fail":
		p.Handle = []string{"db", "db", "session", "ctx", "prepsession", "prepsession", "debug"}[rng.Intn(7)]
		p.Prepare = rng.Intn(2) == 0
		p.Ops = 12 + rng.Intn(20)
		if rng.Intn(3) == 0 { // several connections: only operations that cannot write
			p.Conns = []int{2, 4, 8}[rng.Intn(3)]
		}
	default:
		p.Handle = []string{"db", "session", "ctx"}[rng.Intn(3)]
	}
	// per-goroutine derivations: a third of the programs use the shared handle bare (no Config copy anywhere), the others
	// derive a handle per operation — a random one, or the same kind for every operation (contention on that path)
	switch rng.Intn(6) {
	case 0, 1:
	case 2:
		p.Derive = "mix"
	case 3:
		p.Derive = "mixhold" // includes Begin / Transaction / Connection wrappers, no prepared statements (environment rule)
		if p.Prepare || p.Handle == "prepsession" {
			p.Derive = "mix"
		}
	case 4:
		p.Derive = []string{"prepare", "prepare-begin", "combo", "session-of-session"}[rng.Intn(4)]
	default:
		p.Derive = c07DeriveModes[1+rng.Intn(len(c07DeriveModes)-1)]
	}
	if p.G >= 8 && p.Family != "fail" {
		p.Ops = 3 + rng.Intn(4)
	}
	if p.Family == "stocklog" {
		p.Derive = "" // the family derives per operation itself (quiet / loud logger derivations)
		p.Ops = 6 + rng.Intn(6)
	}
	if p.Family == "extend" && c07HoldModes[p.Derive] && p.Conns > 1 {
		p.Conns = 1
	}
	// gorm's own logger instead of the harness' trace logger on a quarter of the programs of the families whose judgement does not
	// rest on traced statement shapes alone
	if p.Logger == "" && rng.Intn(4) == 0 && (p.Family == "zoo" || p.Family == "unrelated" || p.Family == "carry" || p.Family == "extend" || p.Family == "readers") {
		p.Logger = "stock-warn"
	}
	if p.Family == "fresh" && p.G > len(c07FreshGroups) {
		p.G = len(c07FreshGroups)
	}
	if p.Family == "zoo" && c07ProgPrepOn(p) && c07HoldModes[p.Derive] {
		p.Conns = p.G // prepared statements inside per-goroutine transactions: one connection per goroutine, read-only
	}
	return p
}

func c07JudgeRaceOutcomes(r *Result, outcomes []c07RaceOutcome, probe string) {
	for _, o := range outcomes {
		p := o.Prog
		key := canon(p)
		r.Case("race", key, p.G >= 2 && (len(o.OpKinds) >= 2 || p.Family == "readers"))
		r.H("race.G", fmt.Sprint(p.G))
		r.H("race.family", p.Family)
		r.H("race.cache", map[bool]string{true: "cold", false: "warm"}[p.Cold])
		r.H("race.prepareStmt", fmt.Sprint(p.Prepare))
		r.H("race.handle", p.Handle)
		r.H("race.derive", map[bool]string{true: "(shared handle used bare)", false: p.Derive}[p.Derive == ""])
		if p.Conns > 0 {
			r.H("race.conns", fmt.Sprint(p.Conns))
		}
		for _, k := range o.OpKinds {
			r.H("race.op", k)
		}
		if p.Cold && p.Seed%2 == 0 {
			r.H("race.cold-entry", "stampede: Statement.Parse of every family model first")
			r.CorrCompared++
		} else if p.Cold {
			r.H("race.cold-entry", "first use through the operations")
		}
		if o.PtrDiff != "" {
			// the model proves single winner (C07_cache_single_winner); the real code, under a real concurrent schedule, disagrees
			r.Violate(Violation{Kind: "correspondence", Suite: "race-single-winner", Input: p, Observed: o.PtrDiff,
				Expected: "every goroutine receives the same *schema.Schema for one model type (Gorm.C07_cache_single_winner)",
				Note:     "schema-cache protocol: two schema objects for one model type were handed to callers"})
		}
		if o.F32 > 0 {
			r.H("race.result", "known-F32")
			what := "under concurrent driver.ErrBadConn on one cached statement a goroutine gets \"sql: statement is closed\" (another goroutine's eviction closed the statement it holds) instead of its own \"driver: bad connection\""
			if listed("F32-C07-badconn-eviction-closes-held-statement") {
				r.KnownFinding("F32-C07-badconn-eviction-closes-held-statement", what)
			} else {
				r.Violate(Violation{Kind: "e2e", Suite: "race", Input: p, Observed: fmt.Sprintf("%d operation(s): %s", o.F32, what), Expected: "results equal the serial run of the same programs"})
			}
		} else if p.Family == "fail" && p.Only == "fault-badconn" {
			r.Note("probe F32 (ErrBadConn eviction closes a held statement): did not reproduce in this run (scheduling dependent)")
		}
		if o.Panic != "" {
			r.H("race.result", "panic")
			r.Violate(Violation{Kind: "e2e", Suite: "race", Input: p, Observed: o.Panic,
				Expected: "every operation returns (a result or an error) as it does when the same programs run one goroutine after the other",
				Note:     "an operation issued through the shared handle panicked under concurrency; the serial run of the same programs does not"})
			continue
		}
		if o.Deadlock != "" {
			r.H("race.result", "deadlock")
			r.Violate(Violation{Kind: "e2e", Suite: "race", Input: p, Observed: o.Deadlock,
				Expected: "every operation returns; the serial run of the same programs finishes",
				Note:     "deadlock: goroutines wait for a completion signal (statement cache / schema cache) that nobody is left to give"})
			continue
		}
		if o.Inconclusive != "" {
			r.H("race.result", "inconclusive")
			r.Note("inconclusive (not judged): %s: %s", key, o.Inconclusive)
			continue
		}
		if o.CfgDiff != "" {
			r.H("race.result", "handle-config-differs")
			r.Violate(Violation{Kind: "e2e", Suite: "race", Input: p, Observed: o.CfgDiff,
				Expected: "the shared handle (configuration, logger identity, conn pool, callbacks, its own Statement) is what the serial run of the same programs leaves",
				Note:     "operations issued concurrently through the shared handle changed the handle itself: every later operation through it runs differently than alone"})
		}
		if o.TraceDiff != "" {
			r.H("race.result", "trace-differs")
			r.Violate(Violation{Kind: "e2e", Suite: "race", Input: p, Observed: o.TraceDiff,
				Expected: "every operation reports the same statements to the shared handle's logger as when it runs alone",
				Note:     "statements were lost / attributed to another logger under concurrency"})
		}
		if o.Mismatch != "" {
			r.H("race.result", "result-mismatch")
			r.Violate(Violation{Kind: "e2e", Suite: "race", Input: p, Observed: o.Mismatch, Expected: "results and final rows equal the serial run of the same programs",
				Note: "concurrent use of one shared handle changed a goroutine's results / the stored rows"})
			continue
		}
		if len(o.Pairs) == 0 {
			r.H("race.result", "clean")
		}
		for _, pr := range o.Pairs {
			cls := c07ClassifyPair(pr, p)
			r.H("race.pair", cls+": "+pr.A+" ~ "+pr.B)
			switch cls {
			case "no-gorm-frame":
				r.Note("race report without gorm frames (harness/driver code), ignored: %.300s", pr.Raw)
			case "unrestorable":
				r.Note("race report whose stacks could not be restored, ignored")
			case "F10":
				if listed("F10-C07-cold-schema-parse") {
					r.KnownFinding("F10-C07-cold-schema-parse", "data race between schema parsers on first use of related models ("+pr.A+" ~ "+pr.B+")")
				} else {
					r.Violate(Violation{Kind: "e2e", Suite: "race", Input: p, Observed: pr, Expected: "no data race"})
				}
			case "F12":
				if listed("F12-C07-schema-in-use-still-written") {
					r.KnownFinding("F12-C07-schema-in-use-still-written", "data race between a schema parser and a goroutine already using that schema ("+pr.A+" ~ "+pr.B+")")
				} else {
					r.Violate(Violation{Kind: "e2e", Suite: "race", Input: p, Observed: pr, Expected: "no data race"})
				}
			case "F11":
				if listed("F11-C07-where-build-swap") {
					r.KnownFinding("F11-C07-where-build-swap", "data race in clause.Where.Build on a shared handle whose first WHERE element is a single Or")
				} else {
					r.Violate(Violation{Kind: "e2e", Suite: "race", Input: p, Observed: pr, Expected: "no data race"})
				}
			default:
				r.Violate(Violation{Kind: "e2e", Suite: "race", Input: p, Observed: pr, Expected: "no data race (pair not covered by a listed finding pattern)",
					Note: "race detector report on concurrent use of one shared *gorm.DB"})
			}
		}
	}
	_ = probe
}

// c07JudgeChildEnd: the Go runtime kills a process that writes a map concurrently ("fatal error: concurrent map writes" /
// "concurrent map read and map write") — on a program that only uses one shared handle on disjoint rows that is a
// violation in itself (attributed to the first program of the shard without an outcome).
func c07JudgeChildEnd(r *Result, progs []c07RaceProg, outs []c07RaceOutcome, note string) {
	if note == "" {
		return
	}
	if strings.Contains(note, "fatal error: concurrent map") && len(outs) < len(progs) {
		r.H("race.result", "runtime-fatal-concurrent-map")
		r.Violate(Violation{Kind: "e2e", Suite: "race", Input: progs[len(outs)], Observed: note, Expected: "no concurrent map access",
			Note: "the race-instrumented process died with the Go runtime's concurrent-map fatal error while running this program"})
		return
	}
	if strings.Contains(note, "panic: ") && strings.Contains(note, "gorm.io/gorm") && len(outs) < len(progs) {
		// a panic outside the goroutines' own operations (a goroutine gorm itself started) kills the process
		r.H("race.result", "process-panic")
		r.Violate(Violation{Kind: "e2e", Suite: "race", Input: progs[len(outs)], Observed: note, Expected: "no panic",
			Note: "the race-instrumented process died with a panic carrying gorm frames while running this program"})
		return
	}
	r.Note("shard: %s (%d of %d programs judged)", note, len(outs), len(progs))
	r.H("race.result", "shard-inconclusive")
}

func c07RaceParent(r *Result, rng *rand.Rand, tier string) {
	if o := os.Getenv("C07_ONLY"); o != "" && o != "race" { // development aid
		return
	}
	nprogs, budget := 34, 75*time.Second
	if tier == "thorough" {
		c07Thorough = true
		nprogs, budget = 400, 12*time.Minute
	} else if tier == "search" {
		nprogs, budget = 48, 60*time.Second
	}
	t0 := time.Now()
	if _, err := c07BuildRaceBinary(); err != nil {
		r.Note("e2e race suite INCONCLUSIVE: %v", err)
		r.H("race.result", "race-build-failed")
		return
	}
	r.Note("race binary built in %.1fs (go build -race -tags verif)", time.Since(t0).Seconds())
	// probes re-confirming the listed findings, each in its own subprocess (the detector reports one stack pair once per process)
	probes := []c07RaceProg{
		{Seed: 11, G: 16, Cold: true, Family: "mutual", Handle: "db", Ops: 4},
		{Seed: 12, G: 16, Cold: false, Family: "readers", Handle: "leadingOr", Ops: 9},
	}
	if os.Getenv("C07_DEV_NOPROBES") != "" { // development aid
		probes = nil
	}
	for i, pp := range probes {
		seen := false
		maxAttempts := 8
		if pp.Handle == "leadingOr" && !listed("F11-C07-where-build-swap") {
			maxAttempts = 2 // F11 is repaired in this tree: two runs confirm that the probe stays clean
		}
		for attempt := 0; attempt < maxAttempts && !seen; attempt++ {
			pp.Seed += int64(attempt) * 100
			outs, note := c07RunRaceChild([]c07RaceProg{pp}, 60*time.Second)
			c07JudgeChildEnd(r, []c07RaceProg{pp}, outs, note)
			for _, o := range outs {
				for _, pr := range o.Pairs {
					if c := c07ClassifyPair(pr, o.Prog); c == "F10" || c == "F11" || c == "F12" {
						seen = true
					}
				}
			}
			c07JudgeRaceOutcomes(r, outs, "probe")
			if note != "" {
				break // child timed out / crashed: do not burn the budget on repetitions
			}
		}
		if !seen {
			r.Note("probe %d (%s): listed finding did not reproduce in this run (scheduling dependent)", i, pp.Family+"/"+pp.Handle)
		}
	}
	// probe for concurrent back-reference writers (C07ScA and C07ScQ both insert into C07ScB): every goroutine first parses every
	// model of the family (stampede, even seed); three fresh processes because the detector reports a stack pair once per process
	for attempt := 0; attempt < 3 && os.Getenv("C07_DEV_NOPROBES") == ""; attempt++ {
		pp := c07RaceProg{Seed: 10 + int64(attempt)*2, G: 16, Cold: true, Family: "mutual", Handle: "db", Ops: 3}
		outs, note := c07RunRaceChild([]c07RaceProg{pp}, 60*time.Second)
		c07JudgeChildEnd(r, []c07RaceProg{pp}, outs, note)
		c07JudgeRaceOutcomes(r, outs, "probe")
		if note != "" || len(r.Violations) > 0 {
			break
		}
	}
	var progs []c07RaceProg
	for i := 0; i < nprogs; i++ {
		progs = append(progs, c07GenRaceProg(rng))
	}
	// fixed programs (every run): one per shared mechanism, each with maximal contention on that mechanism
	progs = append(progs,
		// cold per-field pools, every field kind, scans overlapping on 8 connections (gate inside the user types' Scan)
		c07RaceProg{Seed: 2 + rng.Int63n(1<<20)*2, G: 8, Cold: true, Family: "zoo", Handle: "db", Ops: 4, Conns: 8},
		c07RaceProg{Seed: 1 + rng.Int63n(1<<20)*2, G: 4, Cold: true, Family: "zoo", Handle: "session", Ops: 5, Conns: 4, Only: "0,1,3,5,6,7,11,12"},
		// every goroutine derives its OWN prepared-statement session / transaction and runs texts nobody prepared yet
		c07RaceProg{Seed: rng.Int63n(1 << 30), G: 8, Cold: true, Family: "zoo", Handle: "db", Ops: 6, Derive: "prepare"},
		c07RaceProg{Seed: rng.Int63n(1 << 30), G: 8, Cold: false, Family: "unrelated", Handle: "session", Ops: 6, Derive: "prepare"},
		c07RaceProg{Seed: rng.Int63n(1 << 30), G: 8, Cold: true, Family: "zoo", Handle: "session", Ops: 5, Derive: "prepare-begin", Conns: 8},
		// Scan / Rows / Row / Pluck / Count finishers overlapping on the bare shared handle (no Config copy anywhere)
		c07RaceProg{Seed: rng.Int63n(1 << 30), G: 8, Cold: false, Family: "zoo", Handle: "db", Ops: 6, Only: "5,6,7,8,9,10,0"},
		c07RaceProg{Seed: rng.Int63n(1 << 30), G: 4, Cold: true, Family: "zoo", Handle: "idwhere", Ops: 8, Conns: 4, Only: "5,6,8,10,15,1"},
		// finishers called directly on the shared handle (a handle that carries a Model): the receiver is the shared *gorm.DB itself
		c07RaceProg{Seed: rng.Int63n(1 << 30), G: 8, Cold: rng.Intn(2) == 0, Family: "zoo", Handle: "model", Ops: 8, Conns: 8, Only: "30,30,30,9,10,5"},
		c07RaceProg{Seed: rng.Int63n(1 << 30), G: 8, Cold: false, Family: "zoo", Handle: "model", Ops: 6, Conns: 8, Only: "30"},
	)
	progs = append(progs,
		// round 4: finishers DIRECTLY on a handle that carries Order / Select / … (odd seed), chained finishers with every column
		// spelling on a writing program (even seed), and simultaneous first use of a DIFFERENT fresh group of model types per goroutine
		c07RaceProg{Seed: rng.Int63n(1<<30)*2 + 1, G: 8, Cold: true, Family: "carry", Handle: "carry", Ops: 8, Conns: 4},
		c07RaceProg{Seed: rng.Int63n(1<<30)*2 + 1, G: 4, Cold: true, Family: "carry", Handle: "carry", Ops: 10},
		c07RaceProg{Seed: rng.Int63n(1<<30) * 2, G: 8, Cold: true, Family: "carry", Handle: "carry", Ops: 8},
		c07RaceProg{Seed: rng.Int63n(1 << 30), G: 8, Cold: true, Family: "fresh", Handle: "db", Ops: 4},
		c07RaceProg{Seed: rng.Int63n(1 << 30), G: 4, Cold: true, Family: "fresh", Handle: "session", Ops: 5},
	)
	// round 5: a handle carrying 3 / 5 / 6 / 7 entries of one list kind (append leaves spare capacity there), goroutines extending
	// the SAME list; gorm's stock logger (own instance / process-wide default) with per-goroutine Debug() / LogMode derivations
	extKind := func() string {
		sp := c07ExtSpec{Kind: c07ExtKinds[rng.Intn(len(c07ExtKinds))], N: []int{3, 5, 6, 7}[rng.Intn(4)], Split: rng.Intn(3), Model: rng.Intn(3) == 0, Rel: rng.Intn(3) == 0}
		return sp.String()
	}
	progs = append(progs,
		c07RaceProg{Seed: rng.Int63n(1 << 30), G: 8, Cold: true, Family: "extend", Handle: "extend", Ops: 6, Conns: 4, Only: c07ExtSpec{Kind: "joins", N: []int{3, 5, 6, 7}[rng.Intn(4)], Rel: rng.Intn(2) == 0}.String()},
		c07RaceProg{Seed: rng.Int63n(1 << 30), G: 8, Cold: false, Family: "extend", Handle: "extend", Ops: 6, Conns: 8, Only: extKind()},
		c07RaceProg{Seed: rng.Int63n(1 << 30), G: 4, Cold: true, Family: "extend", Handle: "extend", Ops: 8, Conns: 1, Only: extKind(), Logger: "stock-warn"},
		c07RaceProg{Seed: rng.Int63n(1 << 30), G: 8, Cold: true, Family: "stocklog", Handle: "db", Ops: 8, Logger: "stock-warn"},
		c07RaceProg{Seed: rng.Int63n(1 << 30), G: 4, Cold: false, Family: "stocklog", Handle: "session", Ops: 10, Logger: "default-warn", Conns: 4},
		c07RaceProg{Seed: rng.Int63n(1 << 30), G: 8, Cold: false, Family: "stocklog", Handle: "db", Ops: 6, Logger: c07StockLoggers[rng.Intn(len(c07StockLoggers))]},
	)
	progs = append(progs, c07FailFixedProgs(rng)...)
	if dev := os.Getenv("C07_DEV_PROGS"); dev != "" { // development aid: run exactly these programs
		progs = nil
		if err := json.Unmarshal([]byte(dev), &progs); err != nil {
			r.Note("C07_DEV_PROGS: %v", err)
		}
	}
	// shard over a few subprocesses so a hang only loses one shard
	shards := 4
	if tier == "thorough" {
		shards = 12
	}
	var wg sync.WaitGroup
	var mu sync.Mutex
	for s := 0; s < shards; s++ {
		var part []c07RaceProg
		for i := s; i < len(progs); i += shards {
			part = append(part, progs[i])
		}
		wg.Add(1)
		go func(part []c07RaceProg) {
			defer wg.Done()
			outs, note := c07RunRaceChild(part, budget)
			mu.Lock()
			defer mu.Unlock()
			c07JudgeChildEnd(r, part, outs, note)
			c07JudgeRaceOutcomes(r, outs, "")
		}(part)
	}
	wg.Wait()
	r.Note("e2e: SQLite shared-cache in-memory db; writing programs run with SetMaxOpenConns(1), read-only programs with 4 connections; timeouts/lock errors are inconclusive, never violations")
}

func c07RaceReplay(r *Result, input json.RawMessage) {
	var p c07RaceProg
	if json.Unmarshal(input, &p) != nil {
		return
	}
	for attempt := 0; attempt < 5; attempt++ {
		outs, note := c07RunRaceChild([]c07RaceProg{p}, 120*time.Second)
		c07JudgeChildEnd(r, []c07RaceProg{p}, outs, note)
		c07JudgeRaceOutcomes(r, outs, "replay")
		if len(r.Violations) > 0 {
			return
		}
	}
}
