package main

// C09 round 4 — suite `scopes`: conditions supplied ONLY through an indirect channel, db.Scopes(f1, f2, …).
//
// Dimension that was constant before: the only scope the suites used was a condition-free, in-place one.  A scope may
//   * add its condition IN PLACE (inside Execute the handle has clone 0: d.Where(..) mutates d.Statement and returns d),
//   * return a DERIVED handle — d.WithContext(ctx).Where(..), d.Session(&gorm.Session{}).Where(..) — whose statement is a clone,
//   * add nothing (no-op, Order, an optional filter that is switched off, a derived handle without condition, Where("")),
//   * register further scopes (d.Scopes(g): g runs in the next round of Execute's loop),
// in any position of a list of 1..4 scopes, registered by one Scopes(..) call or several.
// chainable_api.go executeScopes must THREAD the handle (each scope receives what the previous one returned) and Execute
// must continue with the final handle: then every scope's condition reaches the statement the guard looks at.
//
//	e2e:  no scope (and no direct call) supplies a condition  ⇒ ErrMissingWhereClause, nothing sent, table unchanged;
//	      some scope does ⇒ never ErrMissingWhereClause, and the table afterwards equals the table after the REFERENCE run in
//	      which the same conditions are given directly with Where/Not in the same order (the right rows change, no others).
//	tie:  Lean `execScopes Gen.scopesThreaded` (Model/Scopes.lean, op c09.scopes): the ids of the conditions in the WHERE of the
//	      statement the finisher ran on, in order (read off res.Statement.Vars), and the rendered SQL + Vars against the
//	      reference chain's.
//
// Conditions are `id <> X` (X = a row id, distinct per scope) in three spellings — Where("id <> ?", X), Not("id = ?", X),
// Not(map{"id": X}) — so that every subset selects a different, non-empty set of rows.

import (
	"context"
	"encoding/json"
	"errors"
	"fmt"
	"math/rand"
	"strings"

	"gorm.io/gorm"
)

type c09Scope struct {
	Kind string `json:"kind"`
	X    int    `json:"x,omitempty"`
	Y    int    `json:"y,omitempty"`
}

var c09ScopeKinds = []string{
	"where-inplace", "not-inplace", "mapnot-inplace", "two-inplace", // conditions, in place
	"where-ctx", "where-session", "not-session", "two-ctx", // conditions, through a derived handle
	"noop", "order", "order-derived", "ctx-order", "empty-where", "empty-derived", "off-filter", // no condition
	"nested", "nested-derived", // registers a further scope (which has a condition)
}

func (s c09Scope) conds() []int {
	switch s.Kind {
	case "where-inplace", "not-inplace", "mapnot-inplace", "where-ctx", "where-session", "not-session", "nested", "nested-derived":
		return []int{s.X}
	case "two-inplace", "two-ctx":
		return []int{s.X, s.Y}
	}
	return nil
}

func (s c09Scope) derived() bool {
	switch s.Kind {
	case "where-ctx", "where-session", "not-session", "two-ctx", "order-derived", "ctx-order", "empty-derived", "nested-derived":
		return true
	}
	return false
}

func (s c09Scope) nested() bool { return strings.HasPrefix(s.Kind, "nested") }

type c09ScopeCtxKey struct{}

func (s c09Scope) fn() func(*gorm.DB) *gorm.DB {
	ctx := context.WithValue(context.Background(), c09ScopeCtxKey{}, s.Kind)
	x, y := s.X, s.Y
	switch s.Kind {
	case "where-inplace":
		return func(d *gorm.DB) *gorm.DB { return d.Where("id <> ?", x) }
	case "not-inplace":
		return func(d *gorm.DB) *gorm.DB { return d.Not("id = ?", x) }
	case "mapnot-inplace":
		return func(d *gorm.DB) *gorm.DB { return d.Not(map[string]interface{}{"id": x}) }
	case "two-inplace":
		return func(d *gorm.DB) *gorm.DB { return d.Where("id <> ?", x).Where("id <> ?", y) }
	case "where-ctx":
		return func(d *gorm.DB) *gorm.DB { return d.WithContext(ctx).Where("id <> ?", x) }
	case "where-session":
		return func(d *gorm.DB) *gorm.DB { return d.Session(&gorm.Session{}).Where("id <> ?", x) }
	case "not-session":
		return func(d *gorm.DB) *gorm.DB { return d.Session(&gorm.Session{}).Not("id = ?", x) }
	case "two-ctx":
		return func(d *gorm.DB) *gorm.DB { return d.WithContext(ctx).Where("id <> ?", x).Where("id <> ?", y) }
	case "order":
		return func(d *gorm.DB) *gorm.DB { return d.Order("id") }
	case "order-derived":
		return func(d *gorm.DB) *gorm.DB { return d.Session(&gorm.Session{}).Order("id") }
	case "ctx-order":
		// NOT generated: a scope that returns a BARE session handle (`return d.WithContext(ctx)` / `return d.Session(&gorm.Session{})`,
		// no chain call behind it).  Such a handle has clone = 2; when it is the handle Execute continues with, BeginTransaction's
		// `db.InstanceSet("gorm:started_transaction", …)` lands on a throw-away clone, CommitOrRollbackTransaction never finds it
		// and the implicit transaction is left OPEN (the next statement on another connection fails with "database table is
		// locked").  A defect of the unchanged gorm, but about transactions, not about the missing-WHERE guard.
		return func(d *gorm.DB) *gorm.DB { return d.WithContext(ctx).Order("id") }
	case "empty-where":
		return func(d *gorm.DB) *gorm.DB { return d.Where("").Not(map[string]interface{}{}) }
	case "empty-derived":
		return func(d *gorm.DB) *gorm.DB { return d.WithContext(ctx).Where(map[string]interface{}{}) }
	case "off-filter": // the usual optional filter: `if !enabled { return d }`
		return func(d *gorm.DB) *gorm.DB {
			if x < 0 {
				return d.Where("id <> ?", x)
			}
			return d
		}
	case "nested":
		return func(d *gorm.DB) *gorm.DB {
			return d.Scopes(func(e *gorm.DB) *gorm.DB { return e.Where("id <> ?", x) })
		}
	case "nested-derived":
		return func(d *gorm.DB) *gorm.DB {
			return d.Session(&gorm.Session{}).Scopes(func(e *gorm.DB) *gorm.DB { return e.Session(&gorm.Session{}).Where("id <> ?", x) })
		}
	}
	return func(d *gorm.DB) *gorm.DB { return d }
}

// direct: the same condition given directly on the chain (the reference)
func (s c09Scope) direct(h *gorm.DB) *gorm.DB {
	switch s.Kind {
	case "not-inplace", "not-session":
		return h.Not("id = ?", s.X)
	case "mapnot-inplace":
		return h.Not(map[string]interface{}{"id": s.X})
	}
	for _, c := range s.conds() {
		h = h.Where("id <> ?", c)
	}
	return h
}

type c09ScopeCase struct {
	Kind     int        `json:"model_kind"` // 0 plain, 1 soft delete
	Scopes   []c09Scope `json:"scopes"`
	Split    bool       `json:"one_scopes_call_per_scope"`
	Init     int        `json:"direct_condition_before_scopes,omitempty"` // Where("id <> ?", Init) on the chain itself (0 = none)
	ModelPos string     `json:"model_position"`                           // before | after (Model(..) before or after Scopes(..)); "" for Delete(&T{})
	Mid      string     `json:"between_scopes_and_finisher,omitempty"`     // "" | session | context | session-skiphooks: a derived handle AFTER Scopes(..) (the pending scopes travel in the cloned statement)
	Fin      string     `json:"finisher"`
	Unscoped bool       `json:"unscoped"`
	Allow    string     `json:"allow_global_update"`
	Mode     string     `json:"tx_mode,omitempty"`
}

var c09ScopeFins = []string{"Update", "Updates(map)", "UpdateColumn", "UpdateColumns(map)", "Delete", "Model.Delete"}

// c09ScopeChain: the chain of the case; `direct` = the reference (conditions given with Where/Not instead of Scopes;
// conditions of nested scopes arrive after those of the round that registered them)
func c09ScopeChain(h *gorm.DB, c c09ScopeCase, direct bool) *gorm.DB {
	soft := c.Kind == 1
	c09Kind = c.Kind
	needModel := c.Fin != "Delete"
	if needModel && c.ModelPos == "before" {
		h = h.Model(c09Model(soft, 0))
	}
	if c.Init != 0 {
		h = h.Where("id <> ?", c.Init)
	}
	if direct {
		for _, s := range c.Scopes {
			if !s.nested() {
				h = s.direct(h)
			}
		}
		for _, s := range c.Scopes {
			if s.nested() {
				h = s.direct(h)
			}
		}
	} else if c.Split {
		for _, s := range c.Scopes {
			h = h.Scopes(s.fn())
		}
	} else {
		var fns []func(*gorm.DB) *gorm.DB
		for _, s := range c.Scopes {
			fns = append(fns, s.fn())
		}
		h = h.Scopes(fns...)
	}
	if !direct {
		switch c.Mid {
		case "session":
			h = h.Session(&gorm.Session{})
		case "context":
			h = h.WithContext(context.WithValue(context.Background(), c09ScopeCtxKey{}, "mid"))
		case "session-skiphooks":
			h = h.Session(&gorm.Session{SkipHooks: true})
		}
	}
	if needModel && c.ModelPos != "before" {
		h = h.Model(c09Model(soft, 0))
	}
	switch c.Fin {
	case "Update":
		return h.Update("b", 91)
	case "Updates(map)":
		return h.Updates(map[string]interface{}{"b": 91})
	case "UpdateColumn":
		return h.UpdateColumn("b", 91)
	case "UpdateColumns(map)":
		return h.UpdateColumns(map[string]interface{}{"b": 91})
	}
	return h.Delete(c09Model(soft, 0))
}

type c09ScopeObs struct {
	Rejected bool   `json:"rejected"`
	Err      string `json:"error"`
	NExec    int    `json:"statements_sent"`
	SQL      string `json:"sql"`
	Vars     string `json:"vars"`
	Ids      []int  `json:"condition_ids"`
	Before   string `json:"-"`
	After    string `json:"table_after"`
	RefSQL   string `json:"reference_sql"`
	RefVars  string `json:"reference_vars"`
	RefAfter string `json:"reference_table_after"`
	RefErr   string `json:"reference_error"`
}

func c09CondIds(vars []interface{}) []int {
	ids := []int{}
	for _, v := range vars {
		switch n := v.(type) {
		case int:
			if n >= 1 && n <= 9 {
				ids = append(ids, n)
			}
		case int64:
			if n >= 1 && n <= 9 {
				ids = append(ids, int(n))
			}
		}
	}
	return ids
}

// c09WriteSent: the UPDATE / DELETE statement that reached the driver (text + arguments), if any
func c09WriteSent(events []Event) (string, []interface{}, bool) {
	for i := len(events) - 1; i >= 0; i-- {
		e := events[i]
		if e.Kind != "exec" && e.Kind != "stmt_exec" && e.Kind != "query" && e.Kind != "stmt_query" {
			continue
		}
		q := strings.ToUpper(strings.TrimSpace(e.SQL))
		if strings.HasPrefix(q, "UPDATE") || strings.HasPrefix(q, "DELETE") {
			return e.SQL, e.Args, true
		}
	}
	return "", nil, false
}

func c09ScopeExec(db *gorm.DB, rec *Recorder, c c09ScopeCase) c09ScopeObs {
	soft := c.Kind == 1
	c09Kind = c.Kind
	o := c09ScopeObs{}
	// ---- the reference: the same conditions given directly — rendered (DryRun), and executed inside a transaction that
	// is rolled back
	dry := db.Session(&gorm.Session{DryRun: true, AllowGlobalUpdate: c.Allow == "session"})
	if c.Unscoped {
		dry = dry.Unscoped()
	}
	dres := c09ScopeChain(dry, c, true)
	o.RefSQL, o.RefVars = dres.Statement.SQL.String(), fmt.Sprint(dres.Statement.Vars)
	ref := db.Session(&gorm.Session{AllowGlobalUpdate: c.Allow == "session"}).Begin()
	rh := ref
	if c.Unscoped {
		rh = rh.Unscoped()
	}
	if rres := c09ScopeChain(rh, c, true); rres.Error != nil {
		o.RefErr = rres.Error.Error()
	}
	o.RefAfter = tableDumpOf(ref, c09Table(soft))
	ref.Rollback()
	// ---- the case
	var res *gorm.DB
	fin := c09Fin{Name: c.Fin, Run: func(h *gorm.DB, _ bool, _ int) *gorm.DB {
		res = c09ScopeChain(h, c, false)
		return res
	}}
	cc := c09Case{Kind: c.Kind, Soft: soft, Allow: c.Allow, Unscoped: c.Unscoped, Fin: c.Fin, Mode: c.Mode}
	o.Before = tableDumpOf(db, c09Table(soft))
	err, events, _ := c09Run(db, rec, cc, nil, fin)
	o.After = tableDumpOf(db, c09Table(soft))
	o.Rejected = errors.Is(err, gorm.ErrMissingWhereClause)
	if err != nil {
		o.Err = err.Error()
	}
	o.NExec = c09StmtEvents(events)
	if q, args, ok := c09WriteSent(events); ok {
		o.SQL, o.Vars, o.Ids = q, fmt.Sprint(args), c09CondIds(args)
	} else if res != nil && res.Statement != nil {
		// nothing sent (DryRun modes, refused writes): the statement as it was built
		o.SQL, o.Vars = res.Statement.SQL.String(), fmt.Sprint(res.Statement.Vars)
		o.Ids = c09CondIds(res.Statement.Vars)
	}
	return o
}

func c09ScopeSupplies(c c09ScopeCase) bool {
	if c.Init != 0 {
		return true
	}
	for _, s := range c.Scopes {
		if len(s.conds()) > 0 {
			return true
		}
	}
	return false
}

func c09ScopeJudge(r *Result, c c09ScopeCase, o c09ScopeObs) {
	if c.Allow != "off" {
		if o.Rejected {
			r.Violate(Violation{Kind: "e2e", Suite: "scopes", Input: c, Observed: o, Expected: "AllowGlobalUpdate is enabled: never ErrMissingWhereClause"})
		}
		return
	}
	if !c09ScopeSupplies(c) {
		if !o.Rejected || o.NExec != 0 || o.Before != o.After {
			r.Violate(Violation{Kind: "e2e", Suite: "scopes", Input: c, Observed: o,
				Expected: "ErrMissingWhereClause, nothing sent, table unchanged: none of the scopes supplies a condition"})
		}
		return
	}
	if o.Rejected {
		r.Violate(Violation{Kind: "e2e", Suite: "scopes", Input: c, Observed: o,
			Expected: "a chain that supplies a condition — through a scope, whatever handle the scope returns and wherever it stands in the list — is never rejected for a missing WHERE"})
		return
	}
	if !c09ModeIsDry(c.Mode) && o.Err == "" && o.RefErr == "" && o.After != o.RefAfter {
		r.Violate(Violation{Kind: "e2e", Suite: "scopes", Input: c, Observed: o,
			Expected: "the rows changed are those the scopes' conditions select: same table as after the reference chain that gives the conditions directly"})
	}
}

func init() {
	register("C09", func(r *Result, rng *rand.Rand, tier string) {
		n := map[string]int{"quick": 2200, "thorough": 40000, "search": 6000}[tier]
		type world struct {
			db  *gorm.DB
			rec *Recorder
		}
		worlds := map[string]world{}
		open := func(kind int, cfgAllow, skipTx bool) world {
			k := fmt.Sprint(kind, cfgAllow, skipTx)
			if w, ok := worlds[k]; ok {
				return w
			}
			db, rec, _ := openW(genRows(rand.New(rand.NewSource(7)), 6, kind == 1), kind == 1, &gorm.Config{AllowGlobalUpdate: cfgAllow, SkipDefaultTransaction: skipTx})
			worlds[k] = world{db, rec}
			return worlds[k]
		}
		var ops [][]interface{}
		type pending struct {
			c c09ScopeCase
			o c09ScopeObs
		}
		var pend []pending
		flush := func() {
			if len(ops) == 0 {
				return
			}
			res, err := AskLean(ops)
			if err != nil {
				r.Violate(Violation{Kind: "correspondence", Suite: "scopes", Note: err.Error()})
				ops, pend = nil, nil
				return
			}
			for i, p := range pend {
				var m struct {
					Where []int `json:"where"`
				}
				if json.Unmarshal(res[i], &m) != nil {
					r.Violate(Violation{Kind: "correspondence", Suite: "scopes", Input: p.c, Observed: string(res[i]), Note: "model rejected the input"})
					continue
				}
				r.CorrCompared++
				if fmt.Sprint(m.Where) != fmt.Sprint(p.o.Ids) {
					r.Violate(Violation{Kind: "correspondence", Suite: "scopes", Input: p.c, Observed: p.o, Expected: m.Where,
						Note: "ids of the conditions in the WHERE of the statement the finisher ran on differ from Lean execScopes (every scope's conditions, in order)"})
				} else if (p.o.SQL != p.o.RefSQL || p.o.Vars != p.o.RefVars) && !(p.o.Rejected && p.o.SQL == "") {
					// (a refused write outside DryRun leaves no text behind: Execute resets Statement.SQL)
					r.Violate(Violation{Kind: "correspondence", Suite: "scopes", Input: p.c, Observed: p.o,
						Note: "the statement built through Scopes differs from the one built by giving the same conditions directly"})
				}
			}
			ops, pend = nil, nil
		}
		xs := []int{1, 2, 3, 4, 5, 6}
		for i := 0; i < n && !expired(); i++ {
			c := c09ScopeCase{Kind: rng.Intn(2), Split: rng.Intn(3) == 0, Fin: c09ScopeFins[rng.Intn(len(c09ScopeFins))],
				Unscoped: rng.Intn(4) == 0, Allow: "off", Mode: c09Modes[rng.Intn(len(c09Modes))], ModelPos: []string{"before", "after"}[rng.Intn(2)]}
			if rng.Intn(12) == 0 {
				c.Allow = []string{"config", "session"}[rng.Intn(2)]
			}
			if rng.Intn(4) == 0 {
				c.Mid = []string{"session", "context", "session-skiphooks"}[rng.Intn(3)]
			}
			perm := rng.Perm(len(xs))
			next := 0
			take := func() int { v := xs[perm[next%len(perm)]]; next++; return v }
			if rng.Intn(10) == 0 {
				c.Init = take()
			}
			condFree := rng.Intn(4) == 0 // a quarter of the cases: no scope has a condition (the blocking side)
			for k := 1 + rng.Intn(4); k > 0 && next < 5; k-- {
				s := c09Scope{Kind: c09ScopeKinds[rng.Intn(len(c09ScopeKinds))]}
				for condFree && len((c09Scope{Kind: s.Kind, X: 1, Y: 2}).conds()) > 0 {
					s.Kind = c09ScopeKinds[rng.Intn(len(c09ScopeKinds))]
				}
				switch len((c09Scope{Kind: s.Kind, X: 1, Y: 2}).conds()) {
				case 1:
					s.X = take()
				case 2:
					s.X, s.Y = take(), take()
				}
				c.Scopes = append(c.Scopes, s)
			}
			if condFree {
				c.Init = 0
			}
			w := open(c.Kind, c.Allow == "config", c.Mode == "skip-config")
			o := c09ScopeExec(w.db, w.rec, c)
			r.Case("scopes", fmt.Sprint(c), true)
			nd, nc := 0, 0
			for j, s := range c.Scopes {
				if s.derived() && len(s.conds()) > 0 && j < len(c.Scopes)-1 {
					nd++
				}
				if len(s.conds()) > 0 {
					nc++
				}
			}
			r.H("scopes.shape", fmt.Sprintf("scopes=%d withCondition=%d derivedWithConditionNotLast=%d -> rejected=%v", len(c.Scopes), nc, nd, o.Rejected))
			r.H("scopes.txmode", "mode="+c.Mode)
			r.H("scopes.finisher", c.Fin)
			for _, s := range c.Scopes {
				r.H("scopes.kind", s.Kind)
			}
			c09ScopeJudge(r, c, o)
			if o.Before != o.After {
				soft := c.Kind == 1
				c09Kind = c.Kind
				w.db.Session(&gorm.Session{AllowGlobalUpdate: true}).Unscoped().Delete(modelOf(soft))
				seedRows(w.db, genRows(rand.New(rand.NewSource(7)), 6, soft), soft)
			}
			// ---- the tie: first the scopes of this round, then the nested ones
			initJ := []interface{}{}
			if c.Init != 0 {
				initJ = append(initJ, c.Init)
			}
			var scopesJ []interface{}
			for pass := 0; pass < 2; pass++ {
				for _, s := range c.Scopes {
					if s.nested() != (pass == 1) {
						continue
					}
					cj := []interface{}{}
					for _, x := range s.conds() {
						cj = append(cj, x)
					}
					scopesJ = append(scopesJ, map[string]interface{}{"conds": cj, "derive": s.derived()})
				}
			}
			if scopesJ == nil {
				scopesJ = []interface{}{}
			}
			ops = append(ops, []interface{}{"c09.scopes", nil, initJ, scopesJ})
			pend = append(pend, pending{c, o})
			if len(ops) >= 2000 {
				flush()
			}
		}
		flush()
	})

	replayers["C09/scopes"] = func(r *Result, input json.RawMessage) {
		var c c09ScopeCase
		if json.Unmarshal(input, &c) != nil {
			return
		}
		soft := c.Kind == 1
		db, rec, sqlDB := openW(genRows(rand.New(rand.NewSource(7)), 6, soft), soft, &gorm.Config{AllowGlobalUpdate: c.Allow == "config", SkipDefaultTransaction: c.Mode == "skip-config"})
		defer sqlDB.Close()
		c09ScopeJudge(r, c, c09ScopeExec(db, rec, c))
	}
}
