package main

import (
	"math/rand"
)

// ---- HOW a registration request is built: the builder API surface ---------------------------------
//
// Until round 3 every request was built as p.Match(nil)[.Before(b)][.After(a)].Register(...) -- one fixed call order.
// A c17Chain is an arbitrary spelling:
//
//	start:  ["plain"]            p.Register / p.Replace / p.Remove directly (with steps: p.Match(nil) first)
//	        ["before", x]        p.Before(x)
//	        ["after", x]         p.After(x)
//	        ["match", nil|true|false]   p.Match(nil / func → true / func → false)
//	steps:  any number of ["before", x] / ["after", x] in any order (x may be "" or repeated)
//	finish: the op's Register / Replace / Remove -- also on a builder that carries requests
//	Reuse:        the finisher goes through the builder VALUE of the previous op (steps are applied to it first)
//	DropResults:  the values returned by the chain methods are thrown away: `b := p.Before(x); b.After(y); b.Register(…)`
//
// regOp.Before / regOp.After hold the request the chain SPELLS (argument of the last Before / After; with Reuse on top
// of the previous op's). What the property lets the oracle demand of a spelling is narrower, see c17Ambig.
type c17Chain struct {
	Start       []string    `json:"start"`
	Steps       [][2]string `json:"steps"`
	Reuse       bool        `json:"reuse,omitempty"`
	DropResults bool        `json:"dropResults,omitempty"`
}

// J: the Lean driver's spelling of the op
func (ch *c17Chain) J(o regOp) []interface{} {
	start := []interface{}{"plain"}
	if len(ch.Start) == 2 {
		start = []interface{}{ch.Start[0], ch.Start[1]}
	}
	steps := []interface{}{}
	for _, s := range ch.Steps {
		steps = append(steps, []interface{}{s[0], s[1]})
	}
	var fin []interface{}
	switch o.Op {
	case "register":
		fin = []interface{}{"register", o.Name, o.Hid}
	case "replace":
		fin = []interface{}{"replace", o.Name, o.Hid}
	default:
		fin = []interface{}{"remove", o.Name}
	}
	return []interface{}{"chain", start, steps, fin, ch.DropResults}
}

// MatchFalse: the chain starts with a Match whose predicate is false (compile drops the record at once)
func (o regOp) MatchFalse() bool {
	return o.Chain != nil && len(o.Chain.Start) == 2 && o.Chain.Start[0] == "match" && o.Chain.Start[1] == "false"
}

// spelled: the request a chain spells = the argument of its LAST Before and of its LAST After
func (ch *c17Chain) spelled(prevBefore, prevAfter string) (before, after string) {
	if ch.Reuse {
		before, after = prevBefore, prevAfter
	}
	if len(ch.Start) == 2 && !ch.Reuse {
		switch ch.Start[0] {
		case "before":
			before = ch.Start[1]
		case "after":
			after = ch.Start[1]
		}
	}
	for _, s := range ch.Steps {
		if s[0] == "before" {
			before = s[1]
		} else {
			after = s[1]
		}
	}
	return
}

// c17Ambig: spellings whose REQUEST the property does not fix -- the oracle then judges everything except the side
// of this callback. (a) Before / After called twice with different arguments (gorm: the last call wins; "both" or
// "the first" would be defensible readings); (b) results of chain methods thrown away; (c) a reused builder value
// on which further chain methods were called.
func (o regOp) c17Ambig() bool {
	ch := o.Chain
	if ch == nil {
		return false
	}
	if (ch.DropResults || ch.Reuse) && len(ch.Steps) > 0 {
		return true
	}
	var b, a []string
	if len(ch.Start) == 2 {
		switch ch.Start[0] {
		case "before":
			b = append(b, ch.Start[1])
		case "after":
			a = append(a, ch.Start[1])
		}
	}
	for _, s := range ch.Steps {
		if s[0] == "before" {
			b = append(b, s[1])
		} else {
			a = append(a, s[1])
		}
	}
	for _, l := range [][]string{b, a} {
		for _, x := range l {
			if x != l[0] {
				return true
			}
		}
	}
	return false
}

// c17Spell rewrites the request (o.Before, o.After) of an op as a random chain spelling it: random starter, the
// two calls in either order, sometimes preceded by calls that are overridden later, sometimes repeated, Match(nil /
// true) anywhere a Match can stand (the starter), explicit Before("") / After("").
func c17Spell(rng *rand.Rand, o regOp, pool []string) regOp {
	ch := &c17Chain{Start: []string{"plain"}, Steps: [][2]string{}}
	var calls [][2]string
	if o.Before != "" || rng.Intn(12) == 0 {
		calls = append(calls, [2]string{"before", o.Before})
	}
	if o.After != "" || rng.Intn(12) == 0 {
		calls = append(calls, [2]string{"after", o.After})
	}
	if len(calls) == 2 && rng.Intn(2) == 0 {
		calls[0], calls[1] = calls[1], calls[0]
	}
	// overridden / repeated calls in front (the final request stays the same: the last call of each kind wins)
	for rng.Intn(5) == 0 && len(calls) < 5 {
		k := [2]string{"before", o.Before}
		if rng.Intn(2) == 0 {
			k = [2]string{"after", o.After}
		}
		if rng.Intn(2) == 0 && len(pool) > 0 { // a different argument, overridden later (needs a later call of that kind)
			k[1] = pool[rng.Intn(len(pool))]
			has := false
			for _, c := range calls {
				if c[0] == k[0] {
					has = true
				}
			}
			if !has {
				calls = append(calls, [2]string{k[0], map[string]string{"before": o.Before, "after": o.After}[k[0]]})
			}
		}
		calls = append([][2]string{k}, calls...)
	}
	switch x := rng.Intn(10); {
	case x < 2: // Match starter
		ch.Start = []string{"match", []string{"nil", "true", "true"}[rng.Intn(3)]}
		ch.Steps = calls
	case x < 4 || len(calls) == 0: // p.Match(nil)-less plain start: p.Register directly when there are no calls
		ch.Steps = calls
	default: // the first call is the starter p.Before / p.After
		ch.Start = []string{calls[0][0], calls[0][1]}
		ch.Steps = calls[1:]
	}
	o.Chain = ch
	return o
}

// c17SpellCases: EXHAUSTIVE spellings on a discriminating fixture. u1, u2 are registered plainly in front, u4
// behind; u3 is registered through every chain of a starter and up to two further calls over the targets
// {"", u1, u4, a built-in}. Losing or misplacing any single call of the chain moves u3 (or turns a conflict into a
// silent success): u4 is registered later, so After(u4) pulls u4 forward and Before(u1) inserts in the middle.
func c17SpellCases(pipeline string, ops []string) []c17Case {
	bs := c17Builtins[pipeline]
	b1 := bs[len(bs)/2].Name
	targets := []string{"", "u1", "u4", b1}
	var starts [][]string
	starts = append(starts, []string{"plain"}, []string{"match", "nil"}, []string{"match", "true"}, []string{"match", "false"})
	for _, t := range targets {
		starts = append(starts, []string{"before", t}, []string{"after", t})
	}
	var seqs [][][2]string
	seqs = append(seqs, [][2]string{})
	var singles [][2]string
	for _, t := range targets {
		singles = append(singles, [2]string{"before", t}, [2]string{"after", t})
	}
	for _, a := range singles {
		seqs = append(seqs, [][2]string{a})
		for _, b := range singles {
			seqs = append(seqs, [][2]string{a, b})
		}
	}
	var out []c17Case
	for _, op := range ops {
		for _, st := range starts {
			for _, sq := range seqs {
				ch := &c17Chain{Start: st, Steps: sq}
				o := regOp{Op: op, Name: "u3", Chain: ch}
				if op != "register" {
					o.Name = "u2"
				}
				o.Before, o.After = ch.spelled("", "")
				cs := []regOp{{Op: "register", Name: "u1"}, {Op: "register", Name: "u2"}, o, {Op: "register", Name: "u4"}}
				for i := range cs {
					cs[i].Hid = 100 + i
				}
				out = append(out, c17Case{Pipeline: pipeline, Ops: cs})
			}
		}
	}
	return out
}

// c17Respell: give every Register / Replace of a generated history a random spelling; now and then a Remove through
// a builder that carries requests, a Match(false) registration (a no-op), a dropped-result chain, a reused builder.
func c17Respell(rng *rand.Rand, c c17Case, pool []string) c17Case {
	ops := make([]regOp, len(c.Ops))
	copy(ops, c.Ops)
	for i := range ops {
		o := ops[i]
		switch {
		case o.Op == "remove":
			if rng.Intn(4) == 0 {
				o.Before, o.After = "", ""
				if rng.Intn(2) == 0 {
					o.Before = pool[rng.Intn(len(pool))]
				} else {
					o.After = pool[rng.Intn(len(pool))]
				}
				o = c17Spell(rng, o, pool)
				o.Before, o.After = "", "" // a Remove makes no request
			}
		default:
			o = c17Spell(rng, o, pool)
			if rng.Intn(40) == 0 {
				o.Chain.Start = []string{"match", "false"}
				o.Chain.Steps = append([][2]string{}, o.Chain.Steps...)
				if b, a := o.Chain.spelled("", ""); b != o.Before || a != o.After { // the starter carried a call: put it back
					if o.Before != b {
						o.Chain.Steps = append(o.Chain.Steps, [2]string{"before", o.Before})
					}
					if o.After != a {
						o.Chain.Steps = append(o.Chain.Steps, [2]string{"after", o.After})
					}
				}
			}
			if rng.Intn(30) == 0 && len(o.Chain.Steps) > 0 {
				o.Chain.DropResults = true
			}
		}
		ops[i] = o
	}
	c.Ops = ops
	return c
}

// c17Reuse: one op of the history goes through the builder value of the op before it
// (`b := p.Before(x); b.Register("a", f); b.Register("b", g)`)
func c17Reuse(rng *rand.Rand, c c17Case) c17Case {
	var idx []int
	for i := 1; i < len(c.Ops); i++ {
		pv := c.Ops[i-1]
		if (pv.Chain == nil && pv.Op != "remove") || (pv.Chain != nil && !pv.Chain.Reuse && (len(pv.Chain.Start) == 2 || len(pv.Chain.Steps) > 0)) {
			idx = append(idx, i) // the previous op went through an explicit builder value
		}
	}
	if len(idx) == 0 {
		return c
	}
	ops := make([]regOp, len(c.Ops))
	copy(ops, c.Ops)
	i := idx[rng.Intn(len(idx))]
	o := ops[i]
	o.Chain = &c17Chain{Start: []string{"plain"}, Steps: [][2]string{}, Reuse: true}
	o.Before, o.After = ops[i-1].Before, ops[i-1].After
	ops[i] = o
	c.Ops = ops
	return c
}

func c17HasReuse(c c17Case) bool {
	for _, o := range c.Ops {
		if o.Chain != nil && o.Chain.Reuse {
			return true
		}
	}
	return false
}
