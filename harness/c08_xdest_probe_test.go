package main

import (
	"encoding/json"
	"fmt"
	"os"
	"sort"
	"testing"
)

func TestC08XDest(t *testing.T) {
	loadKnown("/work/C08r/known_findings.json")
	r := NewResult("C08", "quick", 1, os.TempDir())
	for s := int64(1); s <= c08ProbeN(60); s++ {
		c08DWorld(r, s*7919)
	}
	fmt.Println("evals", r.Evaluations, "violations", len(r.Violations), "known", len(r.Known))
	seen := map[string]int{}
	for _, v := range r.Violations {
		b, _ := json.Marshal(v.Input)
		k := fmt.Sprintf("[%s] obs=%v exp=%v | %s\n     %s", v.Suite, v.Observed, v.Expected, v.Note, b)
		if len(seen) < 12 {
			fmt.Println(k)
		}
		seen[k]++
	}
	var ks []string
	for k := range r.Hist {
		if len(k) > 4 && k[:4] == "dest" {
			ks = append(ks, k)
		}
	}
	sort.Strings(ks)
	for _, k := range ks {
		fmt.Println(k, r.Hist[k])
	}
}
