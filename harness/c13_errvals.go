package main

// C13 round 2, class 1: hook error VALUES.
//
// The property says "a hook error is returned ... and everything the operation did is rolled back" for ANY error a
// hook returns. Code on the way (AddError, the hook callbacks, CommitOrRollbackTransaction, DB.Transaction) may
// special-case well-known values, so the failing hook returns every kind of value here:
//   - a plain errors.New value,
//   - every exported sentinel of gorm / schema / database/sql / database/sql/driver / context / io,
//   - those wrapped with %w (once, twice), joined with errors.Join (either position), and an error type whose own
//     Is method answers true for every target,
//   - errors PRODUCED by statements the hook issues through its tx (First without row -> ErrRecordNotFound,
//     Row().Scan -> sql.ErrNoRows, bad SQL, unique violation, Update without WHERE, cancelled context),
//   - "write+X": the hook first writes a row through tx (audit table) and then returns X -- the write belongs to the
//     operation and must be rolled back with it.
// Suites: "errvals" (single-table world of c13.go: every hook kind x every record index x EVERY kind), the compound
// world (c13_compound.go) cycles through the kinds at its fault points; tie "errflow" compares Lean's
// ErrV/addError/txDecision with errors.Is on the returned error and the commit/rollback seen at the driver.

import (
	"context"
	"database/sql"
	"database/sql/driver"
	"encoding/json"
	"errors"
	"fmt"
	"io"
	"math/rand"
	"sort"
	"strings"

	"gorm.io/gorm"
	"gorm.io/gorm/logger"
	"gorm.io/gorm/schema"
)

var c13Sentinels = map[string]error{
	"gorm.ErrRecordNotFound":                gorm.ErrRecordNotFound,
	"gorm.ErrInvalidTransaction":            gorm.ErrInvalidTransaction,
	"gorm.ErrNotImplemented":                gorm.ErrNotImplemented,
	"gorm.ErrMissingWhereClause":            gorm.ErrMissingWhereClause,
	"gorm.ErrUnsupportedRelation":           gorm.ErrUnsupportedRelation,
	"gorm.ErrPrimaryKeyRequired":            gorm.ErrPrimaryKeyRequired,
	"gorm.ErrModelValueRequired":            gorm.ErrModelValueRequired,
	"gorm.ErrModelAccessibleFieldsRequired": gorm.ErrModelAccessibleFieldsRequired,
	"gorm.ErrSubQueryRequired":              gorm.ErrSubQueryRequired,
	"gorm.ErrInvalidData":                   gorm.ErrInvalidData,
	"gorm.ErrUnsupportedDriver":             gorm.ErrUnsupportedDriver,
	"gorm.ErrRegistered":                    gorm.ErrRegistered,
	"gorm.ErrInvalidField":                  gorm.ErrInvalidField,
	"gorm.ErrEmptySlice":                    gorm.ErrEmptySlice,
	"gorm.ErrDryRunModeUnsupported":         gorm.ErrDryRunModeUnsupported,
	"gorm.ErrInvalidDB":                     gorm.ErrInvalidDB,
	"gorm.ErrInvalidValue":                  gorm.ErrInvalidValue,
	"gorm.ErrInvalidValueOfLength":          gorm.ErrInvalidValueOfLength,
	"gorm.ErrPreloadNotAllowed":             gorm.ErrPreloadNotAllowed,
	"gorm.ErrDuplicatedKey":                 gorm.ErrDuplicatedKey,
	"gorm.ErrForeignKeyViolated":            gorm.ErrForeignKeyViolated,
	"gorm.ErrCheckConstraintViolated":       gorm.ErrCheckConstraintViolated,
	"schema.ErrUnsupportedDataType":         schema.ErrUnsupportedDataType,
	"sql.ErrTxDone":                         sql.ErrTxDone,
	"sql.ErrNoRows":                         sql.ErrNoRows,
	"sql.ErrConnDone":                       sql.ErrConnDone,
	"driver.ErrBadConn":                     driver.ErrBadConn,
	"driver.ErrSkip":                        driver.ErrSkip,
	"driver.ErrRemoveArgument":              driver.ErrRemoveArgument,
	"context.Canceled":                      context.Canceled,
	"context.DeadlineExceeded":              context.DeadlineExceeded,
	"io.EOF":                                io.EOF,
	"io.ErrUnexpectedEOF":                   io.ErrUnexpectedEOF,
}

var _ = logger.ErrRecordNotFound // gorm.ErrRecordNotFound IS logger.ErrRecordNotFound (one object)

func c13SentinelNames() []string {
	var ns []string
	for n := range c13Sentinels {
		ns = append(ns, n)
	}
	sort.Strings(ns)
	return ns
}

// sentinels that also appear wrapped / joined (the ones code is most likely to special-case)
var c13HotSentinels = []string{"gorm.ErrRecordNotFound", "gorm.ErrInvalidTransaction", "gorm.ErrInvalidValue", "gorm.ErrMissingWhereClause",
	"gorm.ErrDuplicatedKey", "sql.ErrTxDone", "sql.ErrNoRows", "driver.ErrBadConn", "context.Canceled", "context.DeadlineExceeded", "io.EOF"}

var c13StmtKinds = []string{"stmt:first", "stmt:norows", "stmt:exec-bad", "stmt:dup", "stmt:missing-where", "stmt:ctx"}

// c13ErrKinds: the alphabet of error kinds ("" = the plain errHook value is not listed: "plain" is a fresh value)
var c13ErrKinds = func() []string {
	ks := []string{"plain", "isall"}
	ks = append(ks, c13SentinelNames()...)
	for _, s := range c13HotSentinels {
		ks = append(ks, "wrap:"+s, "wrap2:"+s, "join:"+s, "joinl:"+s, "write+"+s)
	}
	ks = append(ks, "write+plain", "write+isall")
	return append(ks, c13StmtKinds...)
}()

// c13KindWrites: the kind issues a write statement through the hook's tx (not usable where the operation has no
// transaction: query hooks)
func c13KindWrites(kind string) bool {
	return strings.HasPrefix(kind, "write+") || kind == "stmt:dup" || kind == "stmt:exec-bad" || kind == "stmt:missing-where"
}

type c13IsAllErr struct{ id int }

func (e *c13IsAllErr) Error() string        { return fmt.Sprintf("verif: error %d that is everything", e.id) }
func (e *c13IsAllErr) Is(target error) bool { return true }

type c13Uniq struct {
	ID uint `gorm:"primaryKey;autoIncrement:false"`
}

func (c13Uniq) TableName() string { return "hxuniq" }

func c13EnsureAux(db *gorm.DB) {
	raw := db.Session(&gorm.Session{NewDB: true, SkipHooks: true})
	for _, q := range []string{
		"CREATE TABLE IF NOT EXISTS hxaudit (id integer primary key autoincrement, what text)",
		"CREATE TABLE IF NOT EXISTS hxuniq (id integer primary key)",
		"INSERT OR IGNORE INTO hxuniq(id) VALUES (1)",
	} {
		if err := raw.Exec(q).Error; err != nil {
			panic(err)
		}
	}
}

func c13IsAuxSQL(q string) bool {
	u := strings.ToLower(q)
	return strings.Contains(u, "hxaudit") || strings.Contains(u, "hxuniq") || strings.Contains(u, "c13_no_such_table") || strings.TrimSpace(u) == "select 1"
}

// c13AuxDump: contents of the auxiliary tables (part of every table dump)
func c13AuxDump(db *gorm.DB) []string {
	raw := db.Session(&gorm.Session{NewDB: true, SkipHooks: true})
	out := []string{}
	rows, err := raw.Raw("SELECT 'audit', id, what FROM hxaudit UNION ALL SELECT 'uniq', id, '' FROM hxuniq ORDER BY 1, 2").Rows()
	if err != nil {
		return []string{"AUXERR " + err.Error()}
	}
	defer rows.Close()
	for rows.Next() {
		var t, w string
		var id int
		_ = rows.Scan(&t, &id, &w)
		out = append(out, fmt.Sprintf("aux:%s:%d:%s", t, id, w))
	}
	return out
}

var c13ErrSeq int

// c13MakeErr builds the error a failing hook returns; `tx` is the hook's own handle.
func c13MakeErr(kind string, tx *gorm.DB, hook string) error {
	c13ErrSeq++
	quiet := tx.Session(&gorm.Session{NewDB: true, SkipHooks: true}) // NewDB: a plain Session on a hook's tx would resurrect the operation's statement
	switch {
	case kind == "":
		return errHook
	case kind == "plain":
		return fmt.Errorf("verif: hook failed (%d)", c13ErrSeq)
	case kind == "isall":
		return &c13IsAllErr{c13ErrSeq}
	case strings.HasPrefix(kind, "wrap:"):
		return fmt.Errorf("verif: %s refused: %w", hook, c13Sentinels[kind[5:]])
	case strings.HasPrefix(kind, "wrap2:"):
		return fmt.Errorf("outer: %w", fmt.Errorf("verif: %s refused: %w", hook, c13Sentinels[kind[6:]]))
	case strings.HasPrefix(kind, "join:"):
		return errors.Join(fmt.Errorf("verif: hook failed (%d)", c13ErrSeq), c13Sentinels[kind[5:]])
	case strings.HasPrefix(kind, "joinl:"):
		return errors.Join(c13Sentinels[kind[6:]], fmt.Errorf("verif: hook failed (%d)", c13ErrSeq))
	case strings.HasPrefix(kind, "write+"):
		if err := quiet.Exec("INSERT INTO hxaudit(what) VALUES (?)", hook).Error; err != nil {
			return fmt.Errorf("verif: audit write failed: %w", err)
		}
		return c13MakeErr(kind[6:], tx, hook)
	case kind == "stmt:first":
		return quiet.First(&c13Uniq{}, 987654).Error
	case kind == "stmt:norows":
		var n int
		return quiet.Raw("SELECT id FROM hxuniq WHERE id = 987654").Row().Scan(&n)
	case kind == "stmt:exec-bad":
		return quiet.Exec("INSERT INTO c13_no_such_table VALUES (1)").Error
	case kind == "stmt:dup":
		return quiet.Create(&c13Uniq{ID: 1}).Error
	case kind == "stmt:missing-where":
		return quiet.Model(&c13Uniq{}).Update("id", 5).Error
	case kind == "stmt:ctx":
		ctx, cancel := context.WithCancel(context.Background())
		cancel()
		return quiet.WithContext(ctx).Exec("SELECT 1").Error
	}
	if e, ok := c13Sentinels[kind]; ok {
		return e
	}
	panic("c13: unknown error kind " + kind)
}

// c13ErrCarries: "the hook error is returned" -- the result errors.Is-matches the returned object, or (latitude) at
// least carries its text
func c13ErrCarries(res, hookErr error) bool {
	if res == nil || hookErr == nil {
		return false
	}
	return errors.Is(res, hookErr) || strings.Contains(res.Error(), hookErr.Error())
}

// c13ErrTree: the Lean ErrV term of a value kind (nil for kinds that run statements)
func c13ErrTree(kind string, id int) []interface{} {
	switch {
	case kind == "" || kind == "plain":
		return []interface{}{"plain", id}
	case kind == "isall":
		return []interface{}{"isall", id}
	case strings.HasPrefix(kind, "wrap:"):
		return []interface{}{"wrap", []interface{}{"sentinel", kind[5:]}}
	case strings.HasPrefix(kind, "wrap2:"):
		return []interface{}{"wrap", []interface{}{"wrap", []interface{}{"sentinel", kind[6:]}}}
	case strings.HasPrefix(kind, "join:"):
		return []interface{}{"join", []interface{}{"plain", id}, []interface{}{"sentinel", kind[5:]}}
	case strings.HasPrefix(kind, "joinl:"):
		return []interface{}{"join", []interface{}{"sentinel", kind[6:]}, []interface{}{"plain", id}}
	case strings.HasPrefix(kind, "write+"):
		return c13ErrTree(kind[6:], id)
	case strings.HasPrefix(kind, "stmt:"):
		return nil
	}
	if _, ok := c13Sentinels[kind]; ok {
		return []interface{}{"sentinel", kind}
	}
	return nil
}

// ---- suite "errvals": every hook kind x every record index x every error kind (single-table world) -------------

func c13ErrvalCases(rng *rand.Rand, tier string) []c13Case {
	var cs []c13Case
	type point struct {
		op, shape string
		n         int
		at        string
	}
	var pts []point
	for _, sh := range []string{"ptrslice", "valslice"} {
		for i := 0; i < 2; i++ {
			for _, h := range c13Expected("create") {
				pts = append(pts, point{"create", sh, 2, fmt.Sprint(h, "/r", i)})
			}
		}
	}
	for _, h := range c13Expected("create") {
		pts = append(pts, point{"create", "single", 1, h + "/r0"})
	}
	for _, op := range []string{"update", "delete"} {
		for _, h := range c13Expected(op) {
			pts = append(pts, point{op, "single", 2, h + "/r0"})
		}
	}
	for i := 0; i < 2; i++ {
		pts = append(pts, point{"query", "ptrslice", 2, fmt.Sprint("AfterFind/r", i)})
	}
	for pi, p := range pts {
		for ki, k := range c13ErrKinds {
			if p.op == "query" && c13KindWrites(k) {
				continue // a query has no transaction of its own: writes of its hooks are not part of any rollback
			}
			// quick: slices only see half of the kinds per point (rotating), single records all of them
			if tier == "quick" && p.shape != "single" && (ki+pi)%2 != 0 {
				continue
			}
			cs = append(cs, c13Case{Op: p.op, Shape: p.shape, N: p.n, FailAt: p.at, FailErr: k})
		}
	}
	// two failing invocations of the same phase: the second error is chained onto the first by AddError
	for i := 0; i < 40; i++ {
		k1, k2 := c13ErrKinds[rng.Intn(len(c13ErrKinds))], c13ErrKinds[rng.Intn(len(c13ErrKinds))]
		h := []string{"BeforeSave", "BeforeCreate", "AfterCreate", "AfterSave"}[rng.Intn(4)]
		cs = append(cs, c13Case{Op: "create", Shape: []string{"ptrslice", "valslice"}[i%2], N: 3, FailAt: h + "/r0", FailErr: k1,
			FailAt2: h + fmt.Sprint("/r", 1+rng.Intn(2)), FailErr2: k2})
	}
	return cs
}

func c13ErrvalSuite(r *Result, rng *rand.Rand, tier string) {
	cases := c13ErrvalCases(rng, tier)
	sents := c13SentinelNames()
	type tie struct {
		c    c13Case
		real string
	}
	var ties []tie
	var ops [][]interface{}
	for i, c := range cases {
		if expired() {
			break
		}
		obs, before, after, stmtSent := c13Run(c)
		r.Case("errvals", canon(c), true)
		r.H("ev.kind", strings.SplitN(c.FailErr, ":", 2)[0])
		r.H("ev.hook", strings.Split(c.FailAt, "/")[0])
		r.H("ev.op", c.Op+"/"+c.Shape)
		if i%97 == 0 {
			r.Sample(map[string]interface{}{"input": c, "observed": obs})
		}
		if v := c13Oracle(c, obs, before, after, stmtSent); v != "" {
			r.Violate(Violation{Kind: "e2e", Suite: "errvals", Input: c, Observed: obs, Expected: v})
		}
		// tie: Lean's error-value model vs errors.Is on the returned error + what the driver saw at the end
		t1 := c13ErrTree(c.FailErr, 1)
		if t1 == nil || c.Op == "query" {
			continue
		}
		var cur interface{}
		e := interface{}(t1)
		if c.FailAt2 != "" {
			t2 := c13ErrTree(c.FailErr2, 2)
			if t2 == nil {
				continue
			}
			cur, e = t1, t2
		}
		var is []bool
		for _, s := range sents {
			is = append(is, obs.resErr != nil && errors.Is(obs.resErr, c13Sentinels[s]))
		}
		decision := []string{}
		for _, t := range obs.TxEnds {
			decision = append(decision, map[string]string{"commit": "db.Commit", "rollback": "db.Rollback"}[t])
		}
		ops = append(ops, []interface{}{"hooks.errflow", cur, e, sents, []string{"ok"}})
		ties = append(ties, tie{c, canon(map[string]interface{}{"stored": obs.resErr != nil, "carries": obs.ErrReturned, "is": is, "decision": decision})})
	}
	outs, err := AskLean(ops)
	if err != nil {
		r.Violate(Violation{Kind: "correspondence", Suite: "errflow", Note: err.Error()})
		return
	}
	for i, o := range outs {
		r.CorrCompared++
		r.H("ev.tie", "errflow")
		if canonRaw(o) != ties[i].real {
			r.Violate(Violation{Kind: "correspondence", Suite: "errflow", Input: ties[i].c, Observed: ties[i].real, Expected: canonRaw(o),
				Note: "returned error (errors.Is against every sentinel) and commit/rollback at the driver vs Lean addError/txDecision over Gen.addErrorWrites/Gen.commitOrRollbackActs"})
		}
	}
}

func init() {
	replayers["C13/errvals"] = func(r *Result, input json.RawMessage) {
		var c c13Case
		if json.Unmarshal(input, &c) != nil {
			return
		}
		obs, before, after, stmtSent := c13Run(c)
		r.Case("errvals", canon(c), true)
		if v := c13Oracle(c, obs, before, after, stmtSent); v != "" {
			r.Violate(Violation{Kind: "e2e", Suite: "errvals", Input: c, Observed: obs, Expected: v})
		}
	}
}
