package main

// C02 (round 4) — the TYPE of a condition value.  "This holds whatever form a unit takes …; nil map values mean IS NULL and
// slice values mean IN": a value is ONE database scalar whenever its type says so — a named basic type, a pointer, a
// sql.Null*, time.Time, a driver.Valuer or gorm Valuer (GormValue) type OF ANY KIND (struct, slice, array: uuid-style
// `[N]byte`, `type Tags []string` with Value()), `[]byte` — and only a PLAIN slice / array (no Valuer) is a list meaning IN.
// The zoo below feeds every condition form with such values:
//   map value | ("col", v) | "col = ?" | "col IN (?)" | "col = @v" (sql.Named and map argument) | clause.Eq / Neq / IN{v} /
//   IN{v, w} | struct field (reflect.StructOf model with a typed field) | the same as inline finisher condition,
// under Where / Or / Not, next to other units, through Find / Count / Pluck / First / Update / Delete, and the oracle looks
// at ALL rows of the table after a write.
//
// suites added here
//   vals          (e2e)             row sets vs the Kleene evaluation of the property's reading (the typed value = its scalar)
//   val.dispatch  (correspondence)  real Statement.BuildCondition(map{col: v}) / (col, v) and clause.Eq.Build on the typed
//                                   values vs Lean Model/CondValue.lean `mapArm` / `cvEqText` on (kind, len, implements …)
//   negation      (e2e)             every clause.* comparison and its NegationBuild on boundary rows (v-1, v, v+1) and NULL rows
//
// latitude: a `[]byte` / named byte slice WITHOUT Valuer as a MAP value is not judged (gorm explodes it into IN over its
// bytes — "slice values mean IN" read literally; the dispatch suite pins that behaviour); a gorm-Valuer (GormValue only) of
// slice kind inside `IN (?)` is not judged either (clause.Expr.Build explodes every non-driver.Valuer slice after "(").

import (
	"context"
	"database/sql"
	"database/sql/driver"
	"encoding/json"
	"fmt"
	"math/rand"
	"reflect"
	"sort"
	"strconv"
	"strings"
	"time"

	"gorm.io/gorm"
	"gorm.io/gorm/clause"
	"gorm.io/gorm/schema"
)

// ---------------------------------------------------------------------------------------------
// the type zoo

type c02MyInt int
type c02MyStr string

// struct-kind driver.Valuer
type c02IntBox struct{ V int }

func (b c02IntBox) Value() (driver.Value, error) { return int64(b.V), nil }
func (c02IntBox) GormDataType() string           { return "integer" }

type c02StrBox struct{ V string }

func (b c02StrBox) Value() (driver.Value, error) { return b.V, nil }
func (c02StrBox) GormDataType() string           { return "text" }

// array-kind driver.Valuer: ONE integer
type c02Digit [1]int

func (d c02Digit) Value() (driver.Value, error) { return int64(d[0]), nil }
func (c02Digit) GormDataType() string           { return "integer" }

// slice-kind driver.Valuer: ONE integer (the sum of its parts)
type c02IntSum []int

func (s c02IntSum) Value() (driver.Value, error) {
	t := 0
	for _, x := range s {
		t += x
	}
	return int64(t), nil
}
func (c02IntSum) GormDataType() string { return "integer" }

// slice-kind driver.Valuer: ONE string "x,y"
type c02Tags []string

func (t c02Tags) Value() (driver.Value, error) { return strings.Join(t, ","), nil }
func (c02Tags) GormDataType() string           { return "text" }

// array-kind driver.Valuer (uuid style): ONE string of its bytes
type c02Chars [2]byte

func (c c02Chars) Value() (driver.Value, error) { return string(c[:]), nil }
func (c02Chars) GormDataType() string           { return "text" }

// gorm Valuers (GormValue), not driver.Valuers
type c02GTags []string

func (t c02GTags) GormValue(ctx context.Context, db *gorm.DB) clause.Expr {
	return clause.Expr{SQL: "?", Vars: []interface{}{strings.Join(t, ",")}}
}

type c02GPair [2]int

func (p c02GPair) GormValue(ctx context.Context, db *gorm.DB) clause.Expr {
	return clause.Expr{SQL: "?", Vars: []interface{}{p[0] + p[1]}}
}

type c02GBox struct{ V int }

func (b c02GBox) GormValue(ctx context.Context, db *gorm.DB) clause.Expr {
	return clause.Expr{SQL: "?", Vars: []interface{}{b.V}}
}

// byte slices
type c02Blob []byte  // named, no Valuer
type c02BlobV []byte // named, driver.Valuer

func (b c02BlobV) Value() (driver.Value, error) { return []byte(b), nil }
func (c02BlobV) GormDataType() string           { return "bytes" }

// named PLAIN slices: lists
type c02Ints []int
type c02Strs []string

// ---------------------------------------------------------------------------------------------
// table

type C02V struct {
	ID uint `gorm:"primaryKey"`
	A  *int
	S  *string
	Bs []byte
	At *time.Time
	M  int
}

func (C02V) TableName() string { return "c02_vs" }

type c02VRow struct {
	ID int
	A  *int
	S  *string
	Bs *string
	At *int // index into c02Times
}

var c02Times = []time.Time{
	time.Date(2024, 1, 2, 3, 4, 5, 0, time.UTC),
	time.Date(2024, 1, 2, 3, 4, 6, 0, time.UTC),
	time.Date(2023, 12, 31, 23, 59, 59, 0, time.UTC),
}
var c02SDomain = []string{"x", "y", "xy", "x,y", "yx", "y,x", ""}
var c02BDomain = []string{"xy", "x", "yx"}

func (r c02VRow) String() string {
	p := func(x *int) string {
		if x == nil {
			return "NULL"
		}
		return fmt.Sprint(*x)
	}
	s := func(x *string) string {
		if x == nil {
			return "NULL"
		}
		return fmt.Sprintf("%q", *x)
	}
	return fmt.Sprintf("{%d a=%s s=%s bs=%s at=%s}", r.ID, p(r.A), s(r.S), s(r.Bs), p(r.At))
}

func c02GenVRows(rng *rand.Rand, n int) []c02VRow {
	rows := make([]c02VRow, 0, n)
	for i := 1; i <= n; i++ {
		r := c02VRow{ID: i}
		if rng.Intn(5) > 0 {
			v := rng.Intn(4)
			r.A = &v
		}
		if rng.Intn(6) > 0 {
			v := c02SDomain[rng.Intn(len(c02SDomain))]
			r.S = &v
		}
		if rng.Intn(4) > 0 {
			v := c02BDomain[rng.Intn(len(c02BDomain))]
			r.Bs = &v
		}
		if rng.Intn(4) > 0 {
			v := rng.Intn(len(c02Times))
			r.At = &v
		}
		rows = append(rows, r)
	}
	return rows
}

func c02OpenV(rows []c02VRow, mode ...int) (*gorm.DB, *sql.DB) {
	cfg := &gorm.Config{NowFunc: fixedNowFunc}
	if len(mode) > 0 {
		cfg.PrepareStmt = mode[0]&1 != 0
		cfg.SkipDefaultTransaction = mode[0]&2 != 0
	}
	db, _, sqlDB := OpenRec(cfg)
	if err := db.AutoMigrate(&C02V{}); err != nil {
		panic(err)
	}
	for _, r := range rows {
		var a, s, bs, at interface{}
		if r.A != nil {
			a = *r.A
		}
		if r.S != nil {
			s = *r.S
		}
		if r.Bs != nil {
			bs = []byte(*r.Bs)
		}
		if r.At != nil {
			at = c02Times[*r.At]
		}
		if _, err := sqlDB.Exec("INSERT INTO c02_vs (id, a, s, bs, at, m) VALUES (?,?,?,?,?,0)", r.ID, a, s, bs, at); err != nil {
			panic(err)
		}
	}
	return db, sqlDB
}

// ---------------------------------------------------------------------------------------------
// conditions of the reference reading

type c02VCond struct {
	Col  string   // a s bs at id
	Op   string   // eq in null gt
	Keys []string // canonical scalars (a: decimal, s/bs: the text, at: index, id: decimal)
	Neg  bool     // the comparison's negated form (clause.Neq)
}

func (c c02VCond) String() string {
	n := ""
	if c.Neg {
		n = "!"
	}
	return fmt.Sprintf("%s%s %s %v", n, c.Col, c.Op, c.Keys)
}

func (c c02VCond) eval(r c02VRow) v3 {
	var x *string
	is := func(p *int) *string {
		if p == nil {
			return nil
		}
		s := strconv.Itoa(*p)
		return &s
	}
	switch c.Col {
	case "a":
		x = is(r.A)
	case "s":
		x = r.S
	case "bs":
		x = r.Bs
	case "at":
		x = is(r.At)
	case "id":
		x = is(&r.ID)
	}
	var v v3
	switch {
	case c.Op == "null":
		v = vF
		if x == nil {
			v = vT
		}
	case x == nil:
		v = vU
	case c.Op == "gt":
		a, _ := strconv.Atoi(*x)
		b, _ := strconv.Atoi(c.Keys[0])
		v = vF
		if a > b {
			v = vT
		}
	default: // eq / in
		v = vF
		for _, k := range c.Keys {
			if k == *x {
				v = vT
			}
		}
	}
	if c.Neg {
		v = not3(v)
	}
	return v
}

type c02VUnit struct {
	Via   string // "" direct | scope (db.Scopes(func)) | group (db.Where(db.Where(..)))
	Op    string // where or not
	Conds []c02VCond
	Desc  string
	Go    func() (interface{}, []interface{})
}

// value of a chain of units: left to right, AND for Where/Not, OR for Or; Not over a multi-field unit = every member false
func c02VEval(units []c02VUnit, r c02VRow) v3 {
	acc, cur := vF, vT
	for i, u := range units {
		v := vT
		for _, c := range u.Conds {
			x := c.eval(r)
			if u.Op == "not" {
				x = not3(x)
			}
			v = and3(v, x)
		}
		if i == 0 {
			cur = v
			continue
		}
		if u.Op == "or" {
			acc, cur = or3(acc, cur), v
		} else {
			cur = and3(cur, v)
		}
	}
	return or3(acc, cur)
}

// ---------------------------------------------------------------------------------------------
// typed values

type c02TV struct {
	Col   string
	Cond  c02VCond    // what the value means on that column
	V     interface{} // the Go value
	Desc  string
	Class string // scalar | dvaluer | gvaluer | bytes | list | nilish
	Kind  string // struct / slice / array / basic / ptr… (for histograms)
	// forms in which gorm is expected to read it as Cond (see the latitude note at the top)
	Forms []string
}

var c02AllScalarForms = []string{"map", "map2", "mapii", "col", "raw", "named", "namedmap", "eq", "neq", "in1", "in2", "struct"}

func c02Without(xs []string, drop ...string) []string {
	var out []string
	for _, x := range xs {
		keep := true
		for _, d := range drop {
			if x == d {
				keep = false
			}
		}
		if keep {
			out = append(out, x)
		}
	}
	return out
}

func c02GenTV(rng *rand.Rand) c02TV {
	itoa := strconv.Itoa
	switch rng.Intn(10) {
	case 0, 1, 2: // integer column
		x := rng.Intn(4)
		eq := c02VCond{Col: "a", Op: "eq", Keys: []string{itoa(x)}}
		mk := func(v interface{}, desc, class, kind string, forms []string) c02TV {
			return c02TV{Col: "a", Cond: eq, V: v, Desc: desc, Class: class, Kind: kind, Forms: forms}
		}
		noStructIfZero := func(f []string) []string {
			if x == 0 {
				return c02Without(f, "struct") // a zero struct field adds no condition
			}
			return f
		}
		all := noStructIfZero(c02AllScalarForms)
		dv := append(append([]string{}, all...), "rawin")
		gv := c02Without(all, "struct")
		switch rng.Intn(17) {
		case 0:
			return mk(c02MyInt(x), fmt.Sprintf("c02MyInt(%d)", x), "scalar", "basic", all)
		case 1:
			return mk(int64(x), fmt.Sprintf("int64(%d)", x), "scalar", "basic", all)
		case 2:
			return mk(uint8(x), fmt.Sprintf("uint8(%d)", x), "scalar", "basic", all)
		case 3:
			v := x
			return mk(&v, fmt.Sprintf("&int(%d)", x), "scalar", "ptr", c02AllScalarForms)
		case 4:
			return mk(sql.NullInt64{Int64: int64(x), Valid: true}, fmt.Sprintf("sql.NullInt64{%d}", x), "dvaluer", "struct", append(append([]string{}, c02AllScalarForms...), "rawin"))
		case 5:
			return mk(&sql.NullInt64{Int64: int64(x), Valid: true}, fmt.Sprintf("&sql.NullInt64{%d}", x), "dvaluer", "ptr-struct", append(append([]string{}, c02AllScalarForms...), "rawin"))
		case 6:
			return mk(sql.NullInt32{Int32: int32(x), Valid: true}, fmt.Sprintf("sql.NullInt32{%d}", x), "dvaluer", "struct", append(append([]string{}, c02AllScalarForms...), "rawin"))
		case 7:
			return mk(c02IntBox{x}, fmt.Sprintf("c02IntBox{%d}", x), "dvaluer", "struct", dv)
		case 8:
			return mk(&c02IntBox{x}, fmt.Sprintf("&c02IntBox{%d}", x), "dvaluer", "ptr-struct", append(append([]string{}, c02AllScalarForms...), "rawin"))
		case 9:
			return mk(c02Digit{x}, fmt.Sprintf("c02Digit{%d}", x), "dvaluer", "array", dv)
		case 10:
			return mk(&c02Digit{x}, fmt.Sprintf("&c02Digit{%d}", x), "dvaluer", "ptr-array", append(append([]string{}, c02AllScalarForms...), "rawin"))
		case 11:
			// a slice-kind Valuer whose ELEMENTS are other legal values of the column
			parts := c02IntSum{x}
			if x >= 1 {
				p := rng.Intn(x + 1)
				parts = c02IntSum{p, x - p}
			}
			if rng.Intn(3) == 0 {
				cp := append(c02IntSum{}, parts...)
				return mk(&cp, fmt.Sprintf("&c02IntSum%v", []int(parts)), "dvaluer", "ptr-slice", append(append([]string{}, c02AllScalarForms...), "rawin"))
			}
			return mk(parts, fmt.Sprintf("c02IntSum%v", []int(parts)), "dvaluer", "slice", append(append([]string{}, c02AllScalarForms...), "rawin"))
		case 12:
			return mk(c02GBox{x}, fmt.Sprintf("c02GBox{%d}", x), "gvaluer", "struct", gv)
		case 13:
			p := rng.Intn(x + 1)
			return mk(c02GPair{p, x - p}, fmt.Sprintf("c02GPair{%d,%d}", p, x-p), "gvaluer", "array", c02Without(c02AllScalarForms, "struct"))
		case 14:
			// nil-ish: IS NULL in the map / (col, v) / clause.Eq forms
			null := c02VCond{Col: "a", Op: "null"}
			vals := []struct {
				v interface{}
				d string
			}{{(*int)(nil), "(*int)(nil)"}, {sql.NullInt64{}, "sql.NullInt64{}"}, {(*c02IntBox)(nil), "(*c02IntBox)(nil)"},
				{(*c02Digit)(nil), "(*c02Digit)(nil)"}, {(*c02IntSum)(nil), "(*c02IntSum)(nil)"}, {(*sql.NullInt64)(nil), "(*sql.NullInt64)(nil)"}}
			p := vals[rng.Intn(len(vals))]
			return c02TV{Col: "a", Cond: null, V: p.v, Desc: p.d, Class: "nilish", Kind: "nil", Forms: []string{"map", "map2", "mapii", "col", "eq", "neq"}}
		default:
			// PLAIN lists: IN
			y := (x + 1 + rng.Intn(2)) % 4
			in := c02VCond{Col: "a", Op: "in", Keys: []string{itoa(x), itoa(y)}}
			switch rng.Intn(4) {
			case 0:
				return c02TV{Col: "a", Cond: in, V: c02Ints{x, y}, Desc: fmt.Sprintf("c02Ints{%d,%d}", x, y), Class: "list", Kind: "slice", Forms: []string{"map", "map2", "rawin"}}
			case 1:
				return c02TV{Col: "a", Cond: in, V: [2]int{x, y}, Desc: fmt.Sprintf("[2]int{%d,%d}", x, y), Class: "list", Kind: "array", Forms: []string{"map", "map2", "rawin"}}
			case 2:
				return c02TV{Col: "a", Cond: in, V: &[]int{x, y}, Desc: fmt.Sprintf("&[]int{%d,%d}", x, y), Class: "list", Kind: "ptr-slice", Forms: []string{"map", "map2"}}
			}
			return c02TV{Col: "a", Cond: in, V: []int{x, y}, Desc: fmt.Sprintf("[]int{%d,%d}", x, y), Class: "list", Kind: "slice", Forms: []string{"map", "map2", "mapii", "col", "eq", "neq", "rawin"}}
		}
	case 3, 4, 5, 6: // text column
		x := c02SDomain[rng.Intn(len(c02SDomain))]
		eq := c02VCond{Col: "s", Op: "eq", Keys: []string{x}}
		mk := func(v interface{}, desc, class, kind string, forms []string) c02TV {
			return c02TV{Col: "s", Cond: eq, V: v, Desc: desc, Class: class, Kind: kind, Forms: forms}
		}
		all := c02AllScalarForms
		if x == "" {
			all = c02Without(all, "struct") // a zero struct field adds no condition
		}
		dv := append(append([]string{}, all...), "rawin")
		gv := c02Without(all, "struct")
		switch rng.Intn(14) {
		case 0:
			return mk(c02MyStr(x), fmt.Sprintf("c02MyStr(%q)", x), "scalar", "basic", all)
		case 1:
			v := x
			return mk(&v, fmt.Sprintf("&%q", x), "scalar", "ptr", all)
		case 2:
			return mk(sql.NullString{String: x, Valid: true}, fmt.Sprintf("sql.NullString{%q}", x), "dvaluer", "struct", dv)
		case 3:
			return mk(c02StrBox{x}, fmt.Sprintf("c02StrBox{%q}", x), "dvaluer", "struct", dv)
		case 4, 5, 6:
			t := c02Tags(strings.Split(x, ","))
			if rng.Intn(3) == 0 {
				return mk(&t, fmt.Sprintf("&c02Tags%q", []string(t)), "dvaluer", "ptr-slice", dv)
			}
			return mk(t, fmt.Sprintf("c02Tags%q", []string(t)), "dvaluer", "slice", dv)
		case 7, 8:
			if len(x) == 2 {
				c := c02Chars{x[0], x[1]}
				if rng.Intn(3) == 0 {
					return mk(&c, fmt.Sprintf("&c02Chars{%q}", x), "dvaluer", "ptr-array", dv)
				}
				return mk(c, fmt.Sprintf("c02Chars{%q}", x), "dvaluer", "array", dv)
			}
			return mk(c02MyStr(x), fmt.Sprintf("c02MyStr(%q)", x), "scalar", "basic", all)
		case 9, 10:
			t := c02GTags(strings.Split(x, ","))
			return mk(t, fmt.Sprintf("c02GTags%q", []string(t)), "gvaluer", "slice", gv)
		case 11:
			null := c02VCond{Col: "s", Op: "null"}
			vals := []struct {
				v interface{}
				d string
			}{{(*string)(nil), "(*string)(nil)"}, {sql.NullString{}, "sql.NullString{}"}, {(*c02Tags)(nil), "(*c02Tags)(nil)"},
				{(*c02Chars)(nil), "(*c02Chars)(nil)"}, {(*c02StrBox)(nil), "(*c02StrBox)(nil)"}}
			p := vals[rng.Intn(len(vals))]
			return c02TV{Col: "s", Cond: null, V: p.v, Desc: p.d, Class: "nilish", Kind: "nil", Forms: []string{"map", "map2", "mapii", "col", "eq", "neq"}}
		default:
			y := c02SDomain[rng.Intn(len(c02SDomain))]
			in := c02VCond{Col: "s", Op: "in", Keys: []string{x, y}}
			switch rng.Intn(3) {
			case 0:
				return c02TV{Col: "s", Cond: in, V: c02Strs{x, y}, Desc: fmt.Sprintf("c02Strs{%q,%q}", x, y), Class: "list", Kind: "slice", Forms: []string{"map", "map2", "rawin"}}
			case 1:
				return c02TV{Col: "s", Cond: in, V: [2]string{x, y}, Desc: fmt.Sprintf("[2]string{%q,%q}", x, y), Class: "list", Kind: "array", Forms: []string{"map", "map2", "rawin"}}
			}
			return c02TV{Col: "s", Cond: in, V: []string{x, y}, Desc: fmt.Sprintf("[]string{%q,%q}", x, y), Class: "list", Kind: "slice", Forms: []string{"map", "map2", "mapii", "col", "eq", "neq", "rawin"}}
		}
	case 7, 8: // blob column
		x := c02BDomain[rng.Intn(len(c02BDomain))]
		eq := c02VCond{Col: "bs", Op: "eq", Keys: []string{x}}
		noMap := []string{"col", "raw", "named", "namedmap", "eq", "neq", "in1", "struct"}
		switch rng.Intn(4) {
		case 0:
			return c02TV{Col: "bs", Cond: eq, V: []byte(x), Desc: fmt.Sprintf("[]byte(%q)", x), Class: "bytes", Kind: "slice", Forms: noMap}
		case 1:
			return c02TV{Col: "bs", Cond: eq, V: c02Blob(x), Desc: fmt.Sprintf("c02Blob(%q)", x), Class: "bytes", Kind: "slice", Forms: c02Without(noMap, "struct")}
		case 2:
			b := c02BlobV(x)
			return c02TV{Col: "bs", Cond: eq, V: &b, Desc: fmt.Sprintf("&c02BlobV(%q)", x), Class: "dvaluer", Kind: "ptr-slice",
				Forms: []string{"map", "map2", "col", "raw", "rawin", "named", "namedmap", "eq", "neq", "in1"}}
		}
		return c02TV{Col: "bs", Cond: eq, V: c02BlobV(x), Desc: fmt.Sprintf("c02BlobV(%q)", x), Class: "dvaluer", Kind: "slice",
			Forms: []string{"map", "map2", "col", "raw", "rawin", "named", "namedmap", "eq", "neq", "in1", "struct"}}
	default: // time column
		i := rng.Intn(len(c02Times))
		eq := c02VCond{Col: "at", Op: "eq", Keys: []string{itoa(i)}}
		t := c02Times[i]
		forms := c02AllScalarForms
		switch rng.Intn(4) {
		case 0:
			return c02TV{Col: "at", Cond: eq, V: &t, Desc: fmt.Sprintf("&time[%d]", i), Class: "scalar", Kind: "ptr-struct", Forms: forms}
		case 1:
			return c02TV{Col: "at", Cond: eq, V: sql.NullTime{Time: t, Valid: true}, Desc: fmt.Sprintf("sql.NullTime{time[%d]}", i), Class: "dvaluer", Kind: "struct", Forms: append(append([]string{}, forms...), "rawin")}
		case 2:
			if rng.Intn(2) == 0 {
				return c02TV{Col: "at", Cond: c02VCond{Col: "at", Op: "null"}, V: sql.NullTime{}, Desc: "sql.NullTime{}", Class: "nilish", Kind: "nil", Forms: []string{"map", "map2", "mapii", "col", "eq", "neq"}}
			}
			return c02TV{Col: "at", Cond: c02VCond{Col: "at", Op: "null"}, V: (*time.Time)(nil), Desc: "(*time.Time)(nil)", Class: "nilish", Kind: "nil", Forms: []string{"map", "map2", "mapii", "col", "eq", "neq"}}
		}
		return c02TV{Col: "at", Cond: eq, V: t, Desc: fmt.Sprintf("time[%d]", i), Class: "scalar", Kind: "struct", Forms: forms}
	}
}

// a plain second value of another column (for two-key maps / IN{v, w})
func c02PlainOther(rng *rand.Rand, not string) (string, interface{}, c02VCond, string) {
	if not == "a" || rng.Intn(2) == 0 && not != "s" {
		x := c02SDomain[rng.Intn(len(c02SDomain))]
		return "s", x, c02VCond{Col: "s", Op: "eq", Keys: []string{x}}, fmt.Sprintf("%q", x)
	}
	x := rng.Intn(4)
	return "a", x, c02VCond{Col: "a", Op: "eq", Keys: []string{strconv.Itoa(x)}}, fmt.Sprint(x)
}

// c02StructCond: a model struct with ONE typed field mapped onto the column (zero = the other fields)
func c02StructCond(col string, v interface{}) interface{} {
	ft := reflect.TypeOf(v)
	st := reflect.StructOf([]reflect.StructField{
		{Name: "ID", Type: reflect.TypeOf(uint(0)), Tag: `gorm:"primaryKey"`},
		{Name: "F", Type: ft, Tag: reflect.StructTag(`gorm:"column:` + col + `"`)},
	})
	x := reflect.New(st).Elem()
	x.Field(1).Set(reflect.ValueOf(v))
	return x.Interface()
}

// c02TypedUnit renders the typed value in `form`
func c02TypedUnit(rng *rand.Rand, tv c02TV, form string) c02VUnit {
	u := c02VUnit{Conds: []c02VCond{tv.Cond}}
	col, v := tv.Col, tv.V
	switch form {
	case "map":
		u.Desc = fmt.Sprintf("map{%s: %s}", col, tv.Desc)
		u.Go = func() (interface{}, []interface{}) { return map[string]interface{}{col: v}, nil }
	case "map2":
		oc, ov, ocond, od := c02PlainOther(rng, col)
		u.Conds = []c02VCond{tv.Cond, ocond}
		if oc < col {
			u.Conds = []c02VCond{ocond, tv.Cond}
		}
		u.Desc = fmt.Sprintf("map{%s: %s, %s: %s}", col, tv.Desc, oc, od)
		u.Go = func() (interface{}, []interface{}) { return map[string]interface{}{col: v, oc: ov}, nil }
	case "mapii":
		u.Desc = fmt.Sprintf("map[interface{}]interface{}{%s: %s}", col, tv.Desc)
		u.Go = func() (interface{}, []interface{}) { return map[interface{}]interface{}{col: v}, nil }
	case "col":
		u.Desc = fmt.Sprintf("%q, %s", col, tv.Desc)
		u.Go = func() (interface{}, []interface{}) { return col, []interface{}{v} }
	case "raw":
		u.Desc = fmt.Sprintf("%q, %s", col+" = ?", tv.Desc)
		u.Go = func() (interface{}, []interface{}) { return col + " = ?", []interface{}{v} }
	case "rawin":
		q := col + " IN (?)"
		if rng.Intn(2) == 0 {
			q = col + " in  (?)"
		}
		u.Desc = fmt.Sprintf("%q, %s", q, tv.Desc)
		u.Go = func() (interface{}, []interface{}) { return q, []interface{}{v} }
	case "named":
		u.Desc = fmt.Sprintf("%q, sql.Named(v, %s)", col+" = @v", tv.Desc)
		u.Go = func() (interface{}, []interface{}) { return col + " = @v", []interface{}{sql.Named("v", v)} }
	case "namedmap":
		u.Desc = fmt.Sprintf("%q, map{v: %s}", col+" = @v", tv.Desc)
		u.Go = func() (interface{}, []interface{}) {
			return col + " = @v", []interface{}{map[string]interface{}{"v": v}}
		}
	case "eq":
		u.Desc = fmt.Sprintf("clause.Eq{%s, %s}", col, tv.Desc)
		u.Go = func() (interface{}, []interface{}) { return clause.Eq{Column: col, Value: v}, nil }
	case "neq":
		c := tv.Cond
		c.Neg = true
		u.Conds = []c02VCond{c}
		u.Desc = fmt.Sprintf("clause.Neq{%s, %s}", col, tv.Desc)
		u.Go = func() (interface{}, []interface{}) { return clause.Neq{Column: col, Value: v}, nil }
	case "in1":
		u.Desc = fmt.Sprintf("clause.IN{%s, [%s]}", col, tv.Desc)
		u.Go = func() (interface{}, []interface{}) { return clause.IN{Column: col, Values: []interface{}{v}}, nil }
	case "in2":
		// the typed value next to a plain one in an IN list
		var w interface{}
		var wk string
		switch col {
		case "a":
			n := rng.Intn(4)
			w, wk = n, strconv.Itoa(n)
		case "s":
			s := c02SDomain[rng.Intn(len(c02SDomain))]
			w, wk = s, s
		default:
			i := rng.Intn(len(c02Times))
			w, wk = c02Times[i], strconv.Itoa(i)
		}
		u.Conds = []c02VCond{{Col: col, Op: "in", Keys: []string{tv.Cond.Keys[0], wk}}}
		u.Desc = fmt.Sprintf("clause.IN{%s, [%s, %v]}", col, tv.Desc, wk)
		u.Go = func() (interface{}, []interface{}) { return clause.IN{Column: col, Values: []interface{}{v, w}}, nil }
	case "struct":
		sc := c02StructCond(col, v)
		u.Desc = fmt.Sprintf("struct{F %s `column:%s`}", tv.Desc, col)
		u.Go = func() (interface{}, []interface{}) { return sc, nil }
	default:
		panic("form " + form)
	}
	return u
}

func c02PlainUnit(rng *rand.Rand) c02VUnit {
	switch rng.Intn(4) {
	case 0:
		k := 1 + rng.Intn(6)
		return c02VUnit{Conds: []c02VCond{{Col: "id", Op: "gt", Keys: []string{strconv.Itoa(k)}}}, Desc: fmt.Sprintf(`"id > ?", %d`, k),
			Go: func() (interface{}, []interface{}) { return "id > ?", []interface{}{k} }}
	case 1:
		n := rng.Intn(4)
		return c02VUnit{Conds: []c02VCond{{Col: "a", Op: "eq", Keys: []string{strconv.Itoa(n)}}}, Desc: fmt.Sprintf(`map{a: %d}`, n),
			Go: func() (interface{}, []interface{}) { return map[string]interface{}{"a": n}, nil }}
	case 2:
		return c02VUnit{Conds: []c02VCond{{Col: "s", Op: "null", Neg: true}}, Desc: `"s IS NOT NULL"`,
			Go: func() (interface{}, []interface{}) { return "s IS NOT NULL", nil }}
	}
	x := c02SDomain[rng.Intn(len(c02SDomain))]
	return c02VUnit{Conds: []c02VCond{{Col: "s", Op: "eq", Keys: []string{x}}}, Desc: fmt.Sprintf(`"s", %q`, x),
		Go: func() (interface{}, []interface{}) { return "s", []interface{}{x} }}
}

type c02ValCase struct {
	Seed  int64    `json:"seed"`
	Rows  []string `json:"rows"`
	Chain []string `json:"chain"`
	Fin   string   `json:"finisher"`
}

func c02ApplyUnits(db *gorm.DB, units []c02VUnit) *gorm.DB {
	root := db
	for _, u := range units {
		q, args := u.Go()
		switch u.Via {
		case "scope":
			// the condition reaches the statement only through a scope function (executed by the finisher)
			op, q0, a0 := u.Op, q, args
			db = db.Scopes(func(d *gorm.DB) *gorm.DB {
				switch op {
				case "or":
					return d.Or(q0, a0...)
				case "not":
					return d.Not(q0, a0...)
				}
				return d.Where(q0, a0...)
			})
			continue
		case "group":
			// … or through a grouped sub-builder
			q, args = freshHandle(root).Where(q, args...), nil
		}
		switch u.Op {
		case "where":
			db = db.Where(q, args...)
		case "or":
			db = db.Or(q, args...)
		case "not":
			db = db.Not(q, args...)
		}
	}
	return db
}

func c02DumpV(db *gorm.DB) (map[int]string, error) {
	var after []C02V
	if err := db.Session(&gorm.Session{NewDB: true}).Order("id").Find(&after).Error; err != nil {
		return nil, err
	}
	out := map[int]string{}
	for _, r := range after {
		p := "NULL"
		if r.A != nil {
			p = fmt.Sprint(*r.A)
		}
		s := "NULL"
		if r.S != nil {
			s = *r.S
		}
		b := "NULL"
		if r.Bs != nil {
			b = string(r.Bs)
		}
		t := "NULL"
		if r.At != nil {
			t = r.At.UTC().Format(time.RFC3339)
		}
		out[int(r.ID)] = fmt.Sprintf("%s|%s|%s|%s|%d", p, s, b, t, r.M)
	}
	return out, nil
}

// c02ValsOne: one generated chain with a typed unit, judged for every finisher
func c02ValsOne(r *Result, seed int64) {
	rng := rand.New(rand.NewSource(seed))
	rows := c02GenVRows(rng, 7+rng.Intn(4))
	tv := c02GenTV(rng)
	form := tv.Forms[rng.Intn(len(tv.Forms))]
	typed := c02TypedUnit(rng, tv, form)
	var units []c02VUnit
	if rng.Intn(2) == 0 {
		p := c02PlainUnit(rng)
		p.Op = "where"
		units = append(units, p)
	}
	typed.Op = []string{"where", "where", "not", "or"}[rng.Intn(4)]
	if typed.Op == "or" && len(units) == 0 {
		typed.Op = "where"
	}
	via := rng.Intn(6)
	units = append(units, typed)
	ti := len(units) - 1
	if rng.Intn(3) == 0 {
		p := c02PlainUnit(rng)
		p.Op = []string{"where", "or", "not"}[rng.Intn(3)]
		units = append(units, p)
	}
	switch {
	case via == 0 && ti == len(units)-1:
		// scopes are executed by the finisher AFTER the chain's own calls: only the last unit may come through a scope
		units[ti].Via = "scope"
	case via == 1:
		units[ti].Via = "group"
	}
	typed = units[ti]
	mode := 0
	if rng.Intn(3) == 0 {
		mode = 1 + rng.Intn(3) // PrepareStmt and/or SkipDefaultTransaction
	}
	db, sqlDB := c02OpenV(rows, mode)
	defer sqlDB.Close()
	r.H("vals.config", fmt.Sprintf("prepare=%v skiptx=%v", mode&1 != 0, mode&2 != 0))
	rowStr := make([]string, len(rows))
	for i, x := range rows {
		rowStr[i] = x.String()
	}
	var desc []string
	for _, u := range units {
		switch u.Via {
		case "scope":
			desc = append(desc, "Scopes(func(d){ return d."+u.Op+"("+u.Desc+") })")
		case "group":
			desc = append(desc, u.Op+"(db.Where("+u.Desc+"))")
		default:
			desc = append(desc, u.Op+"("+u.Desc+")")
		}
	}
	want := []int{}
	for _, x := range rows {
		if c02VEval(units, x) == vT {
			want = append(want, x.ID)
		}
	}
	base := db.Session(&gorm.Session{})
	before, _ := c02DumpV(db)
	fins := []string{"find", "count", "pluck", "update", "updates-map", "delete"}
	if units[len(units)-1].Op == "where" && units[len(units)-1].Via == "" {
		fins = append(fins, "find-inline", "first-inline", "delete-inline")
	}
	r.H("vals.class", tv.Class+"/"+tv.Kind)
	r.H("vals.via", typed.Via)
	r.H("vals.form", typed.Op+":"+form)
	r.H("vals.col", tv.Col)
	for _, fin := range fins {
		head, last := units, c02VUnit{}
		inline := strings.HasSuffix(fin, "-inline")
		var conds []interface{}
		if inline {
			head, last = units[:len(units)-1], units[len(units)-1]
			q, args := last.Go()
			conds = append([]interface{}{q}, args...)
		}
		var got []int
		var err error
		func() {
			defer func() {
				if p := recover(); p != nil {
					err = fmt.Errorf("panic: %v", p)
				}
			}()
			switch fin {
			case "find", "find-inline":
				var out []C02V
				err = c02ApplyUnits(base, head).Order("id").Find(&out, conds...).Error
				got = []int{}
				for _, o := range out {
					got = append(got, int(o.ID))
				}
			case "first-inline":
				var o C02V
				res := c02ApplyUnits(base, head).First(&o, conds...)
				err = res.Error
				got = []int{}
				if err == gorm.ErrRecordNotFound {
					err = nil
				} else if err == nil {
					got = []int{int(o.ID)}
				}
			case "count":
				var n int64
				err = c02ApplyUnits(base.Model(&C02V{}), head).Count(&n).Error
				got = make([]int, n)
			case "pluck":
				got = []int{}
				err = c02ApplyUnits(base.Model(&C02V{}), head).Order("id").Pluck("id", &got).Error
			default:
				tx := base.Begin()
				defer tx.Rollback()
				switch fin {
				case "update":
					err = c02ApplyUnits(tx.Model(&C02V{}), head).Update("m", 77).Error
				case "updates-map":
					err = c02ApplyUnits(tx.Model(&C02V{}), head).Updates(map[string]interface{}{"m": 77}).Error
				case "delete":
					err = c02ApplyUnits(tx, head).Delete(&C02V{}).Error
				case "delete-inline":
					err = c02ApplyUnits(tx, head).Delete(&C02V{}, conds...).Error
				}
				if err != nil {
					return
				}
				// ALL rows of the table: a row is "hit" when it changed in any way (or disappeared)
				after, e := c02DumpV(tx)
				if e != nil {
					err = e
					return
				}
				got = []int{}
				for _, x := range rows {
					a, ok := after[x.ID]
					if !ok || a != before[x.ID] {
						got = append(got, x.ID)
						if ok && strings.HasPrefix(fin, "update") && a != strings.TrimSuffix(before[x.ID], "0")+"77" {
							err = fmt.Errorf("row %d changed to %s (only m = 77 was assigned)", x.ID, a)
						}
					}
				}
				if len(after) > len(rows) {
					err = fmt.Errorf("rows appeared: %d > %d", len(after), len(rows))
				}
			}
		}()
		r.Case("vals", fmt.Sprint(fin, desc, rowStr), len(units) > 1)
		r.H("vals.finisher", fin)
		c := c02ValCase{Seed: seed, Rows: rowStr, Chain: desc, Fin: fin}
		if err != nil {
			r.Violate(Violation{Kind: "e2e", Suite: "vals", Input: c, Observed: err.Error(), Expected: want,
				Note: "a typed condition value is ONE scalar of its column (" + tv.Class + "/" + tv.Kind + "); the statement failed"})
			continue
		}
		ok := sameInts(got, want)
		if fin == "count" {
			ok = len(got) == len(want)
		}
		if fin == "first-inline" {
			ok = len(got) == 0 && len(want) == 0 || len(got) == 1 && len(want) > 0 && got[0] == want[0]
		}
		if !ok {
			r.Violate(Violation{Kind: "e2e", Suite: "vals", Input: c, Observed: got, Expected: want,
				Note: "rows differ from the logical combination of the units; the typed value (" + tv.Class + "/" + tv.Kind + ") means " + tv.Cond.String()})
		}
	}
}

// ---------------------------------------------------------------------------------------------
// val.dispatch: (kind, implements Valuer) → expression, real BuildCondition / Eq.Build vs Lean Model/CondValue.lean

type c02GoVal struct {
	Kind     string `json:"kind"` // slice array invalid other — reflect.Indirect(reflect.ValueOf(v)).Kind()
	Len      int    `json:"len"`
	DV       bool   `json:"dv"`       // v.(driver.Valuer)
	GV       bool   `json:"gv"`       // v.(gorm.Valuer)
	EqListed bool   `json:"eqListed"` // one of the exact types in Eq.Build's type switch
	IsNil    bool   `json:"isNil"`    // clause eqNil(v)
	ElemByte bool   `json:"elemByte"`
	Direct   bool   `json:"direct"` // reflect.ValueOf(v).Kind() itself is Slice/Array (no pointer in between)
}

func c02Describe(v interface{}) c02GoVal {
	g := c02GoVal{Kind: "other"}
	rv := reflect.Indirect(reflect.ValueOf(v))
	switch rv.Kind() {
	case reflect.Slice:
		g.Kind, g.Len = "slice", rv.Len()
	case reflect.Array:
		g.Kind, g.Len = "array", rv.Len()
	case reflect.Invalid:
		g.Kind = "invalid"
	}
	if g.Kind == "slice" || g.Kind == "array" {
		g.ElemByte = rv.Type().Elem().Kind() == reflect.Uint8
		k := reflect.ValueOf(v).Kind()
		g.Direct = k == reflect.Slice || k == reflect.Array
	}
	_, g.DV = v.(driver.Valuer)
	_, g.GV = v.(gorm.Valuer)
	switch v.(type) {
	case []string, []int, []int32, []int64, []uint, []uint32, []uint64, []interface{}:
		g.EqListed = true
	}
	// eqNil (clause/expression.go), restated
	isNilPtr := func(x interface{}) bool {
		r := reflect.ValueOf(x)
		return r.Kind() == reflect.Ptr && r.IsNil()
	}
	x := v
	if val, ok := x.(driver.Valuer); ok && !isNilPtr(val) {
		x, _ = val.Value()
	}
	g.IsNil = x == nil || isNilPtr(x)
	return g
}

func c02CondShape(es []clause.Expression) string {
	var parts []string
	var walk func(e clause.Expression)
	walk = func(e clause.Expression) {
		switch x := e.(type) {
		case clause.AndConditions:
			for _, k := range x.Exprs {
				walk(k)
			}
		case clause.Eq:
			parts = append(parts, "eq")
		case clause.IN:
			parts = append(parts, fmt.Sprintf("in%d", len(x.Values)))
		default:
			parts = append(parts, fmt.Sprintf("%T", e))
		}
	}
	for _, e := range es {
		walk(e)
	}
	return strings.Join(parts, ",")
}

func c02ValDispatch(r *Result, rng *rand.Rand, n int) {
	db := dummyDB()
	type item struct {
		desc string
		real string
	}
	var items []item
	var ops [][]interface{}
	for i := 0; i < n; i++ {
		tv := c02GenTV(rng)
		if rng.Intn(8) == 0 {
			// values outside the e2e zoo: empty lists, valuers with empty content, plain byte arrays
			extra := []struct {
				v interface{}
				d string
			}{{[]int{}, "[]int{}"}, {c02Tags{}, "c02Tags{}"}, {[4]byte{1, 2, 3, 4}, "[4]byte"}, {c02GTags{}, "c02GTags{}"}, {[]interface{}{1, nil}, "[]interface{}{1,nil}"},
				{[]uint{1, 2, 3}, "[]uint{1,2,3}"}, {c02Ints{}, "c02Ints{}"}, {[0]int{}, "[0]int{}"}, {nil, "nil"}, {c02Blob("xy"), "c02Blob"}}
			e := extra[rng.Intn(len(extra))]
			tv = c02TV{Col: "a", V: e.v, Desc: e.d, Class: "extra", Kind: "extra"}
		}
		g := c02Describe(tv.V)
		stmt := &gorm.Statement{DB: db, Table: "t", Clauses: map[string]clause.Clause{}}
		mapShape := c02CondShape(stmt.BuildCondition(map[string]interface{}{tv.Col: tv.V}))
		colShape := c02CondShape(stmt.BuildCondition(tv.Col, tv.V))
		// Eq.Build / Neq.Build (also the NegationBuild of the other): text with placeholders
		render := func(e clause.Expression) string {
			st := &gorm.Statement{DB: db, Table: "t", Clauses: map[string]clause.Clause{}}
			e.Build(st)
			return st.SQL.String()
		}
		eqText, neqText := "", ""
		if !(g.GV && g.Kind == "invalid") { // a nil pointer to a value-receiver GormValue type is not callable
			eqText = render(clause.Eq{Column: "c", Value: tv.V})
			neqText = render(clause.Neq{Column: "c", Value: tv.V})
		}
		real := canon(map[string]interface{}{"map": mapShape, "col": colShape, "eq": eqText, "neq": neqText})
		gj, _ := json.Marshal(g)
		var gm map[string]interface{}
		_ = json.Unmarshal(gj, &gm)
		ops = append(ops, []interface{}{"val.dispatch", gm, eqText != ""})
		items = append(items, item{tv.Desc + " " + string(gj), real})
		r.H("val.dispatch", fmt.Sprintf("%s dv=%v gv=%v -> %s", g.Kind, g.DV, g.GV, strings.TrimRight(mapShape, "0123456789")))
		r.Case("val.dispatch", string(gj)+mapShape, g.DV || g.GV)
	}
	res, err := AskLean(ops)
	if err != nil {
		r.Violate(Violation{Kind: "correspondence", Suite: "val.dispatch", Note: err.Error()})
		return
	}
	for i, it := range items {
		r.CorrCompared++
		if got := canonRaw(res[i]); got != it.real {
			r.Violate(Violation{Kind: "correspondence", Suite: "val.dispatch", Input: it.desc, Observed: it.real, Expected: got,
				Note: "BuildCondition's map / (col, v) arms and clause.Eq/Neq.Build dispatch on (kind, implements Valuer): the real code differs from Lean Model/CondValue.lean"})
		}
	}
}

// ---------------------------------------------------------------------------------------------
// negation: every clause.* comparison, plain and under Not, on boundary and NULL rows

type c02NegCase struct {
	Expr string   `json:"expr"`
	Not  bool     `json:"not"`
	Via  string   `json:"via"`
	Rows []string `json:"rows"`
}

func c02Negation(r *Result, rng *rand.Rand, n int) {
	// a fixed table holding every boundary: a = 0..4 and NULL, s = the LIKE / IN neighbours and NULL
	var rows []c02VRow
	id := 0
	strs := []*string{nil}
	for _, s := range []string{"x", "xy", "y", "yx", "X"} {
		s := s
		strs = append(strs, &s)
	}
	for a := -1; a <= 4; a++ {
		for _, s := range strs {
			id++
			row := c02VRow{ID: id, S: s}
			if a >= 0 {
				v := a
				row.A = &v
			}
			rows = append(rows, row)
		}
	}
	db, sqlDB := c02OpenV(rows)
	defer sqlDB.Close()
	rowStr := []string{fmt.Sprintf("%d rows: a in {NULL,0..4} x s in {NULL,x,xy,y,yx,X}", len(rows))}
	for i := 0; i < n; i++ {
		v := 1 + rng.Intn(3)
		var e clause.Expression
		var desc string
		var pred func(c02VRow) v3
		onA := func(f func(a int) bool) func(c02VRow) v3 {
			return func(x c02VRow) v3 {
				if x.A == nil {
					return vU
				}
				if f(*x.A) {
					return vT
				}
				return vF
			}
		}
		var column interface{} = "a"
		if rng.Intn(3) == 0 {
			column = clause.Column{Table: clause.CurrentTable, Name: "a"}
		}
		switch rng.Intn(10) {
		case 0:
			e, desc, pred = clause.Eq{Column: column, Value: v}, fmt.Sprintf("Eq{a,%d}", v), onA(func(a int) bool { return a == v })
		case 1:
			e, desc, pred = clause.Neq{Column: column, Value: v}, fmt.Sprintf("Neq{a,%d}", v), onA(func(a int) bool { return a != v })
		case 2:
			e, desc, pred = clause.Gt{Column: column, Value: v}, fmt.Sprintf("Gt{a,%d}", v), onA(func(a int) bool { return a > v })
		case 3:
			e, desc, pred = clause.Gte{Column: column, Value: v}, fmt.Sprintf("Gte{a,%d}", v), onA(func(a int) bool { return a >= v })
		case 4:
			e, desc, pred = clause.Lt{Column: column, Value: v}, fmt.Sprintf("Lt{a,%d}", v), onA(func(a int) bool { return a < v })
		case 5:
			e, desc, pred = clause.Lte{Column: column, Value: v}, fmt.Sprintf("Lte{a,%d}", v), onA(func(a int) bool { return a <= v })
		case 6:
			w := v + 1
			e, desc, pred = clause.IN{Column: column, Values: []interface{}{v, w}}, fmt.Sprintf("IN{a,[%d,%d]}", v, w), onA(func(a int) bool { return a == v || a == w })
		case 7:
			e, desc, pred = clause.IN{Column: column, Values: []interface{}{v}}, fmt.Sprintf("IN{a,[%d]}", v), onA(func(a int) bool { return a == v })
		case 8:
			if rng.Intn(2) == 0 {
				e, desc = clause.Eq{Column: column, Value: nil}, "Eq{a,nil}"
				pred = func(x c02VRow) v3 {
					if x.A == nil {
						return vT
					}
					return vF
				}
			} else {
				e, desc = clause.Neq{Column: column, Value: nil}, "Neq{a,nil}"
				pred = func(x c02VRow) v3 {
					if x.A != nil {
						return vT
					}
					return vF
				}
			}
		default:
			pat := []string{"x%", "%y", "xy", "%"}[rng.Intn(4)]
			e, desc = clause.Like{Column: "s", Value: pat}, fmt.Sprintf("Like{s,%q}", pat)
			pred = func(x c02VRow) v3 {
				if x.S == nil {
					return vU
				}
				if likeMatch(*x.S, pat) {
					return vT
				}
				return vF
			}
		}
		neg := rng.Intn(3) > 0
		via := []string{"find", "count", "update", "delete", "group", "and"}[rng.Intn(6)]
		want := []int{}
		for _, x := range rows {
			p := pred(x)
			if neg {
				p = not3(p)
			}
			if p == vT {
				want = append(want, x.ID)
			}
		}
		base := db.Session(&gorm.Session{})
		cond := func(h *gorm.DB) *gorm.DB {
			switch {
			case !neg:
				return h.Where(e)
			case via == "group":
				// Not over a grouped sub-builder holding the one comparison
				return h.Not(freshHandle(base).Where(e))
			case via == "and":
				return h.Where(clause.Not(e))
			}
			return h.Not(e)
		}
		var got []int
		var err error
		switch via {
		case "count":
			var c int64
			err = cond(base.Model(&C02V{})).Count(&c).Error
			got = make([]int, c)
		case "update", "delete":
			tx := base.Begin()
			if via == "update" {
				err = cond(tx.Model(&C02V{})).Update("m", 77).Error
			} else {
				err = cond(tx).Delete(&C02V{}).Error
			}
			var after []C02V
			tx.Session(&gorm.Session{NewDB: true}).Order("id").Find(&after)
			have := map[int]int{}
			for _, a := range after {
				have[int(a.ID)] = a.M
			}
			got = []int{}
			for _, x := range rows {
				m, ok := have[x.ID]
				if via == "delete" && !ok || via == "update" && ok && m == 77 {
					got = append(got, x.ID)
				}
			}
			tx.Rollback()
		default:
			var out []C02V
			err = cond(base).Order("id").Find(&out).Error
			got = []int{}
			for _, o := range out {
				got = append(got, int(o.ID))
			}
		}
		r.Case("negation", fmt.Sprint(desc, neg, via), neg)
		r.H("negation", fmt.Sprintf("%s not=%v", strings.SplitN(desc, "{", 2)[0], neg))
		c := c02NegCase{Expr: desc, Not: neg, Via: via, Rows: rowStr}
		if err != nil {
			r.Violate(Violation{Kind: "e2e", Suite: "negation", Input: c, Observed: err.Error(), Expected: want})
			continue
		}
		ok := sameInts(got, want)
		if via == "count" {
			ok = len(got) == len(want)
		}
		if !ok {
			r.Violate(Violation{Kind: "e2e", Suite: "negation", Input: c, Observed: got, Expected: want,
				Note: "Not negates a single-condition unit as a whole: exactly the rows for which the comparison is FALSE (boundary rows included, NULL rows never)"})
		}
	}
}

var _ = schema.Parse
var _ = sort.Ints

func init() {
	register("C02", func(r *Result, rng *rand.Rand, tier string) {
		n := map[string]int{"quick": 600, "thorough": 6000, "search": 3000}[tier]
		for i := 0; i < n && !expired(); i++ {
			c02ValsOne(r, rng.Int63())
		}
		c02ValDispatch(r, rng, n*3)
		c02Negation(r, rng, n/2)
	})
	replayers["C02/vals"] = func(r *Result, input json.RawMessage) {
		var c c02ValCase
		if json.Unmarshal(input, &c) != nil {
			return
		}
		c02ValsOne(r, c.Seed)
	}
	replayers["C02/negation"] = func(r *Result, input json.RawMessage) {
		c02Negation(r, rand.New(rand.NewSource(1)), 400)
	}
}
