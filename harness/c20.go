package main

import (
	"encoding/json"
	"fmt"
	"math/rand"
	"os"
	"regexp"
	"strconv"
	"strings"
	"sync"
)

var regFullDigits = regexp.MustCompile(`\d+`)

func jsonUnmarshal(b []byte, v interface{}) error { return json.Unmarshal(b, v) }
func newSyncMap() *sync.Map                       { return &sync.Map{} }

const c20F20 = "F20-C20-numeric-default-respelled"

// c20Respelled: the field is a numeric kind whose `default:` tag text is not the text gorm writes into the DDL for the
// parsed value (ParseInt/ParseUint base 0, ParseFloat; logger.ExplainSQL formatting): 007, +5, 0x10, 1.50, 2.0, 1e2 …
func c20Respelled(f c20Field) bool {
	def, ok := "", false
	for _, p := range strings.Split(f.Tag, ";") {
		if strings.HasPrefix(p, "default:") {
			def, ok = strings.TrimSpace(p[len("default:"):]), true
		}
	}
	if !ok || def == "" {
		return false
	}
	switch c20Class(f.Kind) {
	case "int":
		v, err := strconv.ParseInt(def, 0, 64)
		return err == nil && fmt.Sprint(v) != def
	case "uint":
		v, err := strconv.ParseUint(def, 0, 64)
		return err == nil && fmt.Sprint(v) != def
	case "float":
		v, err := strconv.ParseFloat(def, 64)
		return err == nil && strconv.FormatFloat(v, 'f', -1, 64) != def
	}
	return false
}

// c20KnownPattern: decidable patterns of listed findings over the MINIMISED failing history ("" = none).
// F20: the failure is at the second identical run and every field that survived minimisation is a respelled numeric default.
func c20KnownPattern(sp c20Spec, o c20Outcome) string {
	fs := sp.V1
	switch o.Stage {
	case "second":
	case "third": // the same re-alter, seen on the run after v2 was reached (the respelled default sits on a field added in v2)
		fs = sp.V2
	default:
		return ""
	}
	if !strings.Contains(o.Verdict, "schema-changing statements") {
		return ""
	}
	n := 0
	for _, f := range fs {
		if _, pk := c20TagGet(f.Tag, "primaryKey"); f.Tag == "" || (pk && !c20HasTag(f.Tag, "default")) {
			continue // the key field minimisation cannot drop (a model needs one v1 field); MigrateColumn skips primary keys
		}
		if !c20Respelled(f) {
			return ""
		}
		n++
	}
	if n == 0 {
		return ""
	}
	return c20F20
}

// c20Known: every listed pattern (F20 and the round-4 findings of c20_cols.go)
func c20Known(sp c20Spec, o c20Outcome) string {
	if id := c20KnownPattern4(sp, o); id != "" {
		return id
	}
	return c20KnownPattern(sp, o)
}

func init() {
	// ---- end-to-end oracle: generated histories on SQLite -------------------------------------
	register("C20", func(r *Result, rng *rand.Rand, tier string) {
		if !c20Only("history") {
			return
		}
		n := 1000
		if tier == "thorough" {
			n = 6000
		} else if tier == "search" {
			n = 2500
		}
		if len(r.Notes) == 0 {
			for _, e := range c20Excluded {
				r.Note("excluded from generation: %s", e)
			}
		}
		probe := os.Getenv("VERIF_C20_PROBE") != ""
		// dedicated probe: re-confirm the listed finding on its witness
		w := c20Spec{Table: "gen_items", Rows: 1, V1: []c20Field{{Name: "FA", Kind: "int", Tag: "default:007"}}, V2: []c20Field{{Name: "FA", Kind: "int", Tag: "default:007"}}}
		if o := c20RunHistory(w); o.Stage == "second" && len(o.Second) > 0 {
			if listed(c20F20) {
				r.KnownFinding(c20F20, "AutoMigrate of {FA int `default:007`} re-creates the table on every run: "+strings.Join(o.Second, " ;; "))
			} else {
				r.Violate(Violation{Kind: "e2e", Suite: "history", Input: w, Observed: o, Expected: "no CREATE/ALTER/DROP", Note: o.Verdict})
			}
		} else {
			r.Note("finding %s no longer reproduces on its witness (stage %s)", c20F20, o.Stage)
		}
		// dedicated probes of the round-4 findings (c20_cols.go), each on its witness
		for _, pw := range []struct {
			id string
			sp c20Spec
		}{
			{c20F31, c20Spec{Table: "gen_items", Qual: "main", Rows: 1, V1: []c20Field{{Name: "ID", Kind: "uint"}, {Name: "FA", Kind: "int"}}, V2: []c20Field{{Name: "ID", Kind: "uint"}, {Name: "FA", Kind: "int", Tag: "unique"}}}},
			{c20F33, c20Spec{Table: "gen_items", Rows: 1, V1: []c20Field{{Name: "ID", Kind: "uint"}, {Name: "SA", Kind: "int", Tag: "column:shared_c"}, {Name: "SB", Kind: "string", Tag: "column:shared_c;unique"}}, V2: []c20Field{{Name: "ID", Kind: "uint"}, {Name: "SA", Kind: "int", Tag: "column:shared_c"}, {Name: "SB", Kind: "string", Tag: "column:shared_c;unique"}}}},
			{c20F34, c20Spec{Table: "gen_items", Rows: 1, V1: []c20Field{{Name: "ID", Kind: "uint"}, {Name: "FN", Kind: "int", Tag: "type:int(11)"}}, V2: []c20Field{{Name: "ID", Kind: "uint"}, {Name: "FN", Kind: "int", Tag: "type:int(11)"}}}},
		} {
			o := c20RunHistory(pw.sp)
			switch id := c20Known(pw.sp, o); {
			case o.Verdict == "":
				r.Note("finding %s no longer reproduces on its witness (stage %s)", pw.id, o.Stage)
			case id == pw.id && listed(id):
				r.KnownFinding(id, o.Verdict+": "+o.Observed+o.Err)
			default:
				r.Violate(Violation{Kind: "e2e", Suite: "history", Input: pw.sp, Observed: o, Expected: o.Expected, Note: o.Verdict})
			}
		}
		for i := 0; i < n && !expired(); i++ {
			sp := c20GenSpec(rng, probe || rng.Intn(12) == 0)
			o := c20Judge(r, sp)
			differs := canon(sp.V1) != canon(sp.V2)
			r.Case("history", canon(sp), differs && o.Stage == "ok")
			for _, f := range sp.Feat {
				r.H("e2e.feature", f)
			}
			r.H("e2e.v1.fields", itoa(len(sp.V1)))
		for _, part := range strings.Split(sp.Cfg.get().String(), "+") {
			r.H("e2e.cfg", part)
		}
		r.H("e2e.call", fmt.Sprintf("v1:%d values, v2:%d values", len(c20CallArgs(nil, sp.Extra1)), len(c20CallArgs(nil, sp.Extra2))))
		for _, d := range c20Demanded(sp.V2, sp.Cfg.get(), c20Explicit(sp.Extra1, sp.Extra2)) {
			r.H("e2e.nested-association", d)
		}
			if o.Stage == "ok" {
				kinds := map[string]bool{}
				for _, s := range o.V2DDL {
					w := strings.Fields(strings.ToUpper(s))
					if len(w) >= 2 {
						k := w[0] + " " + w[1]
						if w[0] == "ALTER" && len(w) >= 4 {
							k = w[0] + " " + w[1] + " " + w[3]
						}
						kinds[k] = true
					}
				}
				for k := range kinds {
					r.H("e2e.v2.ddl", k)
				}
				if len(o.Third) > 0 {
					r.H("e2e.settle-run", "ddl-issued(late unique of a new field: observed)")
					if probe {
						b, _ := json.Marshal(sp)
						r.Note("third run DDL: %s :: %s", strings.Join(o.Third, " ;; "), b)
					}
				} else {
					r.H("e2e.settle-run", "none")
				}
			} else if probe && o.Verdict == "" {
				b, _ := json.Marshal(sp)
				r.Note("skipped %s: %s :: %s", o.Stage, o.Err, b)
			}
			if i < 3 {
				r.Sample(sp)
			}
		}
	})
	replayers["C20/history"] = c20ReplayHistory
	for _, e := range []struct {
		name string
		fn   suiteFn
	}{{"column", c20TieColumn}, {"auto", c20TieAuto}, {"reorder", c20TieReorder}, {"indexes", c20TieIndexes}} {
		name, fn := e.name, e.fn
		register("C20", func(r *Result, rng *rand.Rand, tier string) {
			if c20Only(name) {
				fn(r, rng, tier)
			}
		})
	}
}

// development aid: C20_ONLY=history,relations,… restricts the run to the named suites (unset = everything)
func c20Only(name string) bool {
	only := os.Getenv("C20_ONLY")
	if only == "" {
		return true
	}
	for _, o := range strings.Split(only, ",") {
		if o == name {
			return true
		}
	}
	return false
}

func itoa(n int) string {
	b, _ := json.Marshal(n)
	return string(b)
}
