package main

// C19 operation families.  Every op builds FRESH data from the variant number k (so the DryRun run,
// the ToSQL run and the real run work on identical, independent copies) and returns the handle the
// finisher returned (nil for error-only APIs such as Association mode).

import (
	"database/sql"
	"fmt"

	"gorm.io/gorm"
	"gorm.io/gorm/clause"
)

type c19Op struct {
	Name  string
	Write bool // goes through a create/update/delete pipeline (an implicit transaction may be opened)
	Judge bool // the exposed statement is compared with the main statement of the real run
	Must  bool // the real run must send a statement of the exposed verb+table unless it failed first
	Run   func(h *gorm.DB, k int) *gorm.DB
}

func c19Str(k int) string { return fmt.Sprintf("v%d'\"?x", k) }

func c19MkDoc(k int) C19Doc {
	d := C19Doc{Title: c19Str(k), Qty: k % 7}
	if k%3 != 0 {
		d.Rank = 1 + k%5 // zero rank -> column left to the database default (RETURNING)
	}
	if k%4 == 1 {
		s := "note" + c19Str(k)
		d.Note = &s
	}
	return d
}

func c19MkPlain(k int) C19Plain {
	p := C19Plain{Name: c19Str(k), Age: k % 90}
	if k%2 == 0 {
		p.Rank = 2 + k%3
	}
	if k%5 == 2 {
		s := "n" + c19Str(k)
		p.Note = &s
	}
	return p
}

func c19CoKey(k int) uint {
	if k%2 == 0 {
		return uint(1 + k%3) // existing company
	}
	return uint(50 + k%5) // key carried by the value, row not there yet (upsert inserts it)
}

func c19ExistID(k int) uint { return uint(1 + k%6) }

func c19Ops() []c19Op {
	var ops []c19Op
	add := func(name string, write, judge, must bool, run func(h *gorm.DB, k int) *gorm.DB) {
		ops = append(ops, c19Op{Name: name, Write: write, Judge: judge, Must: must, Run: run})
	}
	// ---- reads ------------------------------------------------------------------------------
	add("find_plain", false, true, true, func(h *gorm.DB, k int) *gorm.DB {
		var xs []C19Plain
		return h.Where("age > ?", 20+k%5).Find(&xs)
	})
	add("find_doc_afterfind", false, true, true, func(h *gorm.DB, k int) *gorm.DB {
		var xs []C19Doc
		return h.Where("qty >= ?", k%40).Order("id").Find(&xs)
	})
	add("first_doc_pk", false, true, true, func(h *gorm.DB, k int) *gorm.DB {
		var d C19Doc
		return h.First(&d, c19ExistID(k))
	})
	add("take_plain_struct_cond", false, true, true, func(h *gorm.DB, k int) *gorm.DB {
		var x C19Plain
		return h.Where(&C19Plain{Name: fmt.Sprint("p", k%3)}).Take(&x)
	})
	add("last_plain", false, true, true, func(h *gorm.DB, k int) *gorm.DB {
		var x C19Plain
		return h.Where("rank <> ?", k%4).Last(&x)
	})
	add("count_doc", false, true, true, func(h *gorm.DB, k int) *gorm.DB {
		var n int64
		return h.Model(&C19Doc{}).Where("qty >= ?", k%50).Count(&n)
	})
	add("pluck_plain", false, true, true, func(h *gorm.DB, k int) *gorm.DB {
		var ss []string
		return h.Model(&C19Plain{}).Where("age <> ?", k).Pluck("name", &ss)
	})
	add("scan_plain", false, true, true, func(h *gorm.DB, k int) *gorm.DB {
		var rs []map[string]interface{}
		return h.Model(&C19Plain{}).Select("name, age").Where("rank > ?", k%4).Scan(&rs)
	})
	add("scan_struct_table", false, true, true, func(h *gorm.DB, k int) *gorm.DB {
		var rs []struct {
			Name string
			Age  int
		}
		return h.Table("c19_plains").Where("age > ?", k%30).Scan(&rs)
	})
	add("rows_plain", false, true, true, func(h *gorm.DB, k int) *gorm.DB {
		c := h.Model(&C19Plain{}).Where("age < ?", 20+k%9)
		rows, _ := c.Rows()
		if rows != nil {
			var x C19Plain
			for rows.Next() {
				_ = h.ScanRows(rows, &x)
			}
			rows.Close()
		}
		return c
	})
	add("row_plain", false, true, true, func(h *gorm.DB, k int) *gorm.DB {
		c := h.Model(&C19Plain{}).Select("count(*)").Where("age < ?", 20+k%9)
		if row := c.Row(); row != nil {
			var n int
			_ = row.Scan(&n)
		}
		return c
	})
	add("find_in_batches", false, true, true, func(h *gorm.DB, k int) *gorm.DB {
		var xs []C19Plain
		return h.Where("age > ?", k%3).FindInBatches(&xs, 2, func(tx *gorm.DB, batch int) error { return nil })
	})
	add("preload_lines_co", false, true, true, func(h *gorm.DB, k int) *gorm.DB {
		var ds []C19Doc
		return h.Preload("Lines").Preload("Co").Where("id <= ?", c19ExistID(k)).Find(&ds)
	})
	add("preload_all_first", false, true, true, func(h *gorm.DB, k int) *gorm.DB {
		var d C19Doc
		return h.Preload(clause.Associations).First(&d, c19ExistID(k))
	})
	add("preload_tags_keyed_dest", false, true, true, func(h *gorm.DB, k int) *gorm.DB {
		d := C19Doc{ID: c19ExistID(k)}
		return h.Preload("Tags").Preload("Lines", "text <> ?", "zz").Find(&d)
	})
	add("joins_co", false, true, true, func(h *gorm.DB, k int) *gorm.DB {
		var ds []C19Doc
		return h.Joins("Co").Where("c19_docs.qty > ?", k%40).Find(&ds)
	})
	add("first_or_init", false, true, true, func(h *gorm.DB, k int) *gorm.DB {
		var x C19Plain
		return h.Where(C19Plain{Name: fmt.Sprint("p", k%5)}).Attrs(C19Plain{Age: 5}).FirstOrInit(&x)
	})
	add("subquery_find", false, true, true, func(h *gorm.DB, k int) *gorm.DB {
		var xs []C19Plain
		sub := h.Session(&gorm.Session{NewDB: true}).Model(&C19Plain{}).Select("AVG(age)").Where("rank < ?", k%9)
		return h.Where("age > (?)", sub).Find(&xs)
	})
	add("group_having_scan", false, true, true, func(h *gorm.DB, k int) *gorm.DB {
		var rs []map[string]interface{}
		return h.Model(&C19Plain{}).Select("name, count(*) as n").Group("name").Having("count(*) > ?", k%3).Scan(&rs)
	})
	add("unscoped_find", false, true, true, func(h *gorm.DB, k int) *gorm.DB {
		var ds []C19Doc
		return h.Unscoped().Where("id > ?", k%4).Find(&ds)
	})
	add("raw_scan", false, true, true, func(h *gorm.DB, k int) *gorm.DB {
		var xs []C19Plain
		return h.Raw("SELECT * FROM c19_plains WHERE name = ? OR age IN ?", c19Str(k), []int{k, k + 1}).Scan(&xs)
	})
	add("raw_rows", false, true, true, func(h *gorm.DB, k int) *gorm.DB {
		c := h.Raw("SELECT name FROM c19_plains WHERE age > @a", sql.Named("a", k%30))
		rows, _ := c.Rows()
		if rows != nil {
			rows.Close()
		}
		return c
	})
	add("raw_row", false, true, true, func(h *gorm.DB, k int) *gorm.DB {
		c := h.Raw("SELECT count(*) FROM c19_plains WHERE age > ?", k%30)
		if row := c.Row(); row != nil {
			var n int
			_ = row.Scan(&n)
		}
		return c
	})
	// ---- creates ----------------------------------------------------------------------------
	add("create_doc", true, true, true, func(h *gorm.DB, k int) *gorm.DB {
		d := c19MkDoc(k)
		return h.Create(&d)
	})
	add("create_plain_value", true, true, true, func(h *gorm.DB, k int) *gorm.DB {
		p := c19MkPlain(k)
		return h.Create(&p)
	})
	add("create_doc_belongs_to_key", true, true, true, func(h *gorm.DB, k int) *gorm.DB {
		d := c19MkDoc(k)
		d.Co = &C19Co{ID: c19CoKey(k), Name: "co" + c19Str(k)}
		return h.Create(&d)
	})
	add("create_doc_self_parent_key", true, true, true, func(h *gorm.DB, k int) *gorm.DB {
		d := c19MkDoc(k)
		d.Parent = &C19Doc{ID: c19ExistID(k), Title: "parent"}
		return h.Create(&d)
	})
	add("create_doc_children", true, true, true, func(h *gorm.DB, k int) *gorm.DB {
		d := c19MkDoc(k)
		d.Co = &C19Co{ID: c19CoKey(k + 1), Name: "c"}
		d.Lines = []C19Line{{Text: "l1" + c19Str(k)}, {Text: "l2"}}
		d.Tags = []C19Tag{{ID: uint(1 + k%3), Name: "t"}, {ID: uint(60 + k%4), Name: "new"}}
		return h.Create(&d)
	})
	add("create_slice_doc", true, true, true, func(h *gorm.DB, k int) *gorm.DB {
		ds := []C19Doc{c19MkDoc(k), c19MkDoc(k + 1), c19MkDoc(k + 2)}
		ds[1].Co = &C19Co{ID: c19CoKey(k), Name: "s"}
		return h.Create(&ds)
	})
	add("create_slice_ptr_plain", true, true, true, func(h *gorm.DB, k int) *gorm.DB {
		a, b := c19MkPlain(k), c19MkPlain(k+3)
		ps := []*C19Plain{&a, &b}
		return h.Create(&ps)
	})
	add("create_map_plain", true, true, true, func(h *gorm.DB, k int) *gorm.DB {
		return h.Model(&C19Plain{}).Create(map[string]interface{}{"name": c19Str(k), "age": k % 80})
	})
	add("create_maps_plain", true, true, true, func(h *gorm.DB, k int) *gorm.DB {
		return h.Model(&C19Plain{}).Create([]map[string]interface{}{{"name": c19Str(k), "age": k % 80}, {"name": "m2", "age": 1 + k%7}})
	})
	add("create_in_batches_multi", true, true, true, func(h *gorm.DB, k int) *gorm.DB {
		ps := []C19Plain{c19MkPlain(k), c19MkPlain(k + 1), c19MkPlain(k + 2), c19MkPlain(k + 3), c19MkPlain(k + 4)}
		return h.CreateInBatches(&ps, 2)
	})
	add("create_in_batches_single", true, true, true, func(h *gorm.DB, k int) *gorm.DB {
		ps := []C19Plain{c19MkPlain(k), c19MkPlain(k + 1)}
		return h.CreateInBatches(&ps, 5)
	})
	add("create_batchsize_session", true, true, true, func(h *gorm.DB, k int) *gorm.DB {
		ds := []C19Doc{c19MkDoc(k), c19MkDoc(k + 1), c19MkDoc(k + 2)}
		return h.Session(&gorm.Session{CreateBatchSize: 2}).Create(&ds)
	})
	add("create_select_fields", true, true, true, func(h *gorm.DB, k int) *gorm.DB {
		d := c19MkDoc(k)
		return h.Select("Title", "Qty", "Code").Create(&d)
	})
	add("create_omit_assoc", true, true, true, func(h *gorm.DB, k int) *gorm.DB {
		d := c19MkDoc(k)
		d.Co = &C19Co{ID: c19CoKey(k), Name: "o"}
		d.Lines = []C19Line{{Text: "x"}}
		return h.Omit(clause.Associations).Create(&d)
	})
	add("create_upsert_updateall", true, true, true, func(h *gorm.DB, k int) *gorm.DB {
		d := c19MkDoc(k)
		d.ID = c19ExistID(k)
		return h.Clauses(clause.OnConflict{UpdateAll: true}).Create(&d)
	})
	add("create_upsert_assign", true, true, true, func(h *gorm.DB, k int) *gorm.DB {
		p := c19MkPlain(k)
		p.ID = c19ExistID(k)
		return h.Clauses(clause.OnConflict{Columns: []clause.Column{{Name: "id"}},
			DoUpdates: clause.Assignments(map[string]interface{}{"name": c19Str(k + 1)})}).Create(&p)
	})
	add("create_donothing", true, true, true, func(h *gorm.DB, k int) *gorm.DB {
		p := c19MkPlain(k)
		p.ID = c19ExistID(k)
		return h.Clauses(clause.OnConflict{DoNothing: true}).Create(&p)
	})
	add("create_returning_cols", true, true, true, func(h *gorm.DB, k int) *gorm.DB {
		p := c19MkPlain(k)
		return h.Clauses(clause.Returning{Columns: []clause.Column{{Name: "name"}, {Name: "rank"}}}).Create(&p)
	})
	// ---- save -------------------------------------------------------------------------------
	add("save_new", true, true, true, func(h *gorm.DB, k int) *gorm.DB {
		d := c19MkDoc(k)
		return h.Save(&d)
	})
	add("save_existing", true, true, true, func(h *gorm.DB, k int) *gorm.DB {
		d := c19MkDoc(k)
		d.ID = c19ExistID(k)
		return h.Save(&d)
	})
	add("save_existing_belongs_to_key", true, true, true, func(h *gorm.DB, k int) *gorm.DB {
		d := c19MkDoc(k)
		d.ID = c19ExistID(k)
		d.Co = &C19Co{ID: c19CoKey(k), Name: "sv"}
		return h.Save(&d)
	})
	add("save_missing_pk", true, true, true, func(h *gorm.DB, k int) *gorm.DB {
		p := c19MkPlain(k)
		p.ID = uint(100 + k%5)
		return h.Save(&p)
	})
	add("save_slice", true, true, true, func(h *gorm.DB, k int) *gorm.DB {
		a, b := c19MkPlain(k), c19MkPlain(k+1)
		a.ID = c19ExistID(k)
		ps := []C19Plain{a, b}
		return h.Save(&ps)
	})
	add("save_select", true, true, true, func(h *gorm.DB, k int) *gorm.DB {
		d := c19MkDoc(k)
		d.ID = c19ExistID(k)
		return h.Select("title", "qty").Save(&d)
	})
	// ---- update -----------------------------------------------------------------------------
	add("update_model_pk", true, true, true, func(h *gorm.DB, k int) *gorm.DB {
		return h.Model(&C19Doc{ID: c19ExistID(k)}).Update("title", c19Str(k))
	})
	add("update_where", true, true, true, func(h *gorm.DB, k int) *gorm.DB {
		return h.Model(&C19Doc{}).Where("qty > ?", k%50).Update("title", c19Str(k))
	})
	add("updates_map", true, true, true, func(h *gorm.DB, k int) *gorm.DB {
		return h.Model(&C19Doc{ID: c19ExistID(k)}).Updates(map[string]interface{}{"title": c19Str(k), "qty": k % 9, "note": nil})
	})
	add("updates_struct", true, true, true, func(h *gorm.DB, k int) *gorm.DB {
		d := C19Doc{ID: c19ExistID(k), Qty: 3}
		return h.Model(&d).Updates(C19Doc{Title: c19Str(k), Qty: k % 9})
	})
	add("updates_struct_belongs_to_key", true, true, true, func(h *gorm.DB, k int) *gorm.DB {
		d := C19Doc{ID: c19ExistID(k)}
		return h.Model(&d).Updates(C19Doc{Title: c19Str(k), Co: &C19Co{ID: c19CoKey(k), Name: "u"}})
	})
	add("updates_self_struct", true, true, true, func(h *gorm.DB, k int) *gorm.DB {
		d := c19MkDoc(k)
		d.ID = c19ExistID(k)
		d.Co = &C19Co{ID: c19CoKey(k), Name: "us"}
		return h.Updates(&d)
	})
	add("update_column", true, true, true, func(h *gorm.DB, k int) *gorm.DB {
		return h.Model(&C19Doc{ID: c19ExistID(k)}).UpdateColumn("qty", k)
	})
	add("update_columns", true, true, true, func(h *gorm.DB, k int) *gorm.DB {
		return h.Model(&C19Plain{}).Where("age > ?", k%40).UpdateColumns(C19Plain{Name: c19Str(k), Age: 1 + k%50})
	})
	add("update_expr", true, true, true, func(h *gorm.DB, k int) *gorm.DB {
		return h.Model(&C19Plain{}).Where("id IN ?", []int{1, 2, 1 + k%6}).Update("age", gorm.Expr("age + ?", k))
	})
	add("update_select_zero", true, true, true, func(h *gorm.DB, k int) *gorm.DB {
		return h.Model(&C19Plain{ID: c19ExistID(k)}).Select("name", "age").Updates(C19Plain{Name: c19Str(k)})
	})
	add("update_omit", true, true, true, func(h *gorm.DB, k int) *gorm.DB {
		return h.Model(&C19Plain{ID: c19ExistID(k)}).Omit("age").Updates(map[string]interface{}{"name": c19Str(k), "age": 3})
	})
	add("update_returning", true, true, true, func(h *gorm.DB, k int) *gorm.DB {
		var out []C19Plain
		return h.Model(&out).Clauses(clause.Returning{}).Where("age > ?", k%40).Update("name", c19Str(k))
	})
	add("update_returning_cols_doc", true, true, true, func(h *gorm.DB, k int) *gorm.DB {
		d := C19Doc{ID: c19ExistID(k)}
		return h.Model(&d).Clauses(clause.Returning{Columns: []clause.Column{{Name: "title"}}}).Update("qty", k%11)
	})
	add("update_global_blocked", true, true, false, func(h *gorm.DB, k int) *gorm.DB {
		return h.Model(&C19Plain{}).Update("name", c19Str(k)) // ErrMissingWhereClause in both runs
	})
	add("update_global_allowed", true, true, true, func(h *gorm.DB, k int) *gorm.DB {
		return h.Session(&gorm.Session{AllowGlobalUpdate: true}).Model(&C19Plain{}).Update("name", c19Str(k))
	})
	// ---- delete -----------------------------------------------------------------------------
	add("delete_soft_pk", true, true, true, func(h *gorm.DB, k int) *gorm.DB {
		return h.Delete(&C19Doc{ID: c19ExistID(k)})
	})
	add("delete_soft_where", true, true, true, func(h *gorm.DB, k int) *gorm.DB {
		return h.Where("qty > ?", k%50).Delete(&C19Doc{})
	})
	add("delete_hard_strkey", true, true, true, func(h *gorm.DB, k int) *gorm.DB {
		return h.Delete(&C19Hard{Code: fmt.Sprint("h", 1+k%6)})
	})
	add("delete_unscoped", true, true, true, func(h *gorm.DB, k int) *gorm.DB {
		return h.Unscoped().Delete(&C19Doc{ID: c19ExistID(k)})
	})
	add("delete_select_lines", true, true, true, func(h *gorm.DB, k int) *gorm.DB {
		return h.Select("Lines").Delete(&C19Doc{ID: c19ExistID(k)})
	})
	add("delete_select_tags", true, true, true, func(h *gorm.DB, k int) *gorm.DB {
		return h.Select("Tags").Delete(&C19Doc{ID: c19ExistID(k)})
	})
	add("delete_select_assocs_unscoped", true, true, true, func(h *gorm.DB, k int) *gorm.DB {
		return h.Unscoped().Select(clause.Associations).Delete(&C19Doc{ID: c19ExistID(k)})
	})
	add("delete_pk_list", true, true, true, func(h *gorm.DB, k int) *gorm.DB {
		return h.Delete(&C19Plain{}, []int{1, 2 + k%3, 9})
	})
	add("delete_inline_cond", true, true, true, func(h *gorm.DB, k int) *gorm.DB {
		return h.Delete(&C19Hard{}, "n > ? AND name <> ?", k%6, c19Str(k))
	})
	add("delete_returning", true, true, true, func(h *gorm.DB, k int) *gorm.DB {
		var out []C19Hard
		return h.Clauses(clause.Returning{}).Where("n > ?", k%6).Delete(&out)
	})
	// ---- compound ---------------------------------------------------------------------------
	add("first_or_create_found", true, true, false, func(h *gorm.DB, k int) *gorm.DB {
		var x C19Plain
		return h.Where(C19Plain{Name: fmt.Sprint("p", k%3)}).FirstOrCreate(&x)
	})
	add("first_or_create_missing", true, true, false, func(h *gorm.DB, k int) *gorm.DB {
		var x C19Plain
		return h.Where(C19Plain{Name: "none" + c19Str(k)}).Attrs(C19Plain{Age: 1 + k%20}).FirstOrCreate(&x)
	})
	add("first_or_create_assign", true, true, false, func(h *gorm.DB, k int) *gorm.DB {
		var x C19Plain
		return h.Where(C19Plain{Name: fmt.Sprint("p", k%3)}).Assign(C19Plain{Age: 1 + k%20}).FirstOrCreate(&x)
	})
	// ---- raw --------------------------------------------------------------------------------
	add("exec", true, true, true, func(h *gorm.DB, k int) *gorm.DB {
		return h.Exec("UPDATE c19_plains SET name = ? WHERE age = ?", c19Str(k), k%50)
	})
	add("exec_named", true, true, true, func(h *gorm.DB, k int) *gorm.DB {
		return h.Exec("UPDATE c19_plains SET name = @n WHERE age = @a", map[string]interface{}{"n": c19Str(k), "a": k % 50})
	})
	// raw text as users write it: indented back-quoted blocks, comments, trailing semicolons (shapes: c19_recv.go c19rShape);
	// crossed with every configuration (PrepareStmt!) and derivation like every other op
	add("raw_scan_ws", false, true, true, func(h *gorm.DB, k int) *gorm.DB {
		pre, post, sep := c19rShape(k)
		var xs []C19Plain
		return h.Raw(pre+"SELECT *"+sep+"FROM c19_plains"+sep+"WHERE name = ? OR age IN ?"+post, c19Str(k), []int{k, k + 1}).Scan(&xs)
	})
	add("exec_ws", true, true, true, func(h *gorm.DB, k int) *gorm.DB {
		pre, post, sep := c19rShape(k)
		return h.Exec(pre+"UPDATE c19_plains"+sep+"SET name = ?"+sep+"WHERE age = ?"+post, c19Str(k), k%50)
	})
	// ---- association mode (error-only API: judged for silence only) ----------------------------
	asc := func(name string, f func(a *gorm.Association, k int)) {
		for _, rel := range []string{"Lines", "Tags", "Co"} {
			rel := rel
			add("assoc_"+name+"_"+rel, true, false, false, func(h *gorm.DB, k int) *gorm.DB {
				d := C19Doc{ID: c19ExistID(k)}
				f(h.Model(&d).Association(rel), k)
				return nil
			})
		}
	}
	val := func(a *gorm.Association, k int) interface{} {
		switch a.Relationship.Name {
		case "Lines":
			return &C19Line{Text: "as" + c19Str(k)}
		case "Tags":
			return &C19Tag{ID: uint(1 + k%4), Name: "at"}
		}
		return &C19Co{ID: c19CoKey(k), Name: "ac"}
	}
	asc("append", func(a *gorm.Association, k int) {
		if a.Error == nil {
			_ = a.Append(val(a, k))
		}
	})
	asc("replace", func(a *gorm.Association, k int) {
		if a.Error == nil {
			_ = a.Replace(val(a, k))
		}
	})
	asc("delete", func(a *gorm.Association, k int) {
		if a.Error == nil {
			_ = a.Delete(val(a, k))
		}
	})
	asc("clear", func(a *gorm.Association, k int) {
		if a.Error == nil {
			_ = a.Clear()
		}
	})
	asc("count", func(a *gorm.Association, k int) {
		if a.Error == nil {
			_ = a.Count()
		}
	})
	asc("find", func(a *gorm.Association, k int) {
		if a.Error == nil {
			switch a.Relationship.Name {
			case "Lines":
				var xs []C19Line
				_ = a.Find(&xs)
			case "Tags":
				var xs []C19Tag
				_ = a.Find(&xs, "name <> ?", c19Str(k))
			default:
				var x C19Co
				_ = a.Find(&x)
			}
		}
	})
	return ops
}

// ---- handle derivations: DryRun must be inherited through every one of them -----------------------

type c19Deriv struct {
	Name     string
	Explicit bool // opens an explicit (user-requested) transaction
	Wrap     func(h *gorm.DB, body func(h *gorm.DB))
}

func c19Derivs() []c19Deriv {
	simple := func(name string, f func(h *gorm.DB) *gorm.DB) c19Deriv {
		return c19Deriv{Name: name, Wrap: func(h *gorm.DB, body func(h *gorm.DB)) { body(f(h)) }}
	}
	return []c19Deriv{
		simple("id", func(h *gorm.DB) *gorm.DB { return h }),
		simple("session", func(h *gorm.DB) *gorm.DB { return h.Session(&gorm.Session{}) }),
		simple("newdb", func(h *gorm.DB) *gorm.DB { return h.Session(&gorm.Session{NewDB: true}) }),
		simple("ctx", func(h *gorm.DB) *gorm.DB { return h.WithContext(c19Ctx) }),
		simple("debug", func(h *gorm.DB) *gorm.DB { return h.Debug() }),
		simple("prepare", func(h *gorm.DB) *gorm.DB { return h.Session(&gorm.Session{PrepareStmt: true}) }),
		simple("initialized", func(h *gorm.DB) *gorm.DB { return h.Session(&gorm.Session{Initialized: true}).Session(&gorm.Session{}) }),
		simple("skipdefaulttx", func(h *gorm.DB) *gorm.DB { return h.Session(&gorm.Session{SkipDefaultTransaction: true}) }),
		simple("nested3", func(h *gorm.DB) *gorm.DB {
			return h.Session(&gorm.Session{NewDB: true}).WithContext(c19Ctx).Session(&gorm.Session{QueryFields: true}).Debug().Session(&gorm.Session{})
		}),
		simple("scopes", func(h *gorm.DB) *gorm.DB {
			return h.Scopes(func(d *gorm.DB) *gorm.DB { return d.Where("1 = ?", 1) }).Session(&gorm.Session{})
		}),
		simple("set_get", func(h *gorm.DB) *gorm.DB { return h.Set("c19:x", 1).Session(&gorm.Session{}) }),
		{Name: "transaction", Explicit: true, Wrap: func(h *gorm.DB, body func(h *gorm.DB)) {
			_ = h.Transaction(func(tx *gorm.DB) error { body(tx); return nil })
		}},
		{Name: "begin", Explicit: true, Wrap: func(h *gorm.DB, body func(h *gorm.DB)) {
			tx := h.Begin()
			if tx.Error != nil { // already inside a transaction (real run): run on the handle itself
				body(h)
				return
			}
			body(tx)
			tx.Rollback()
		}},
	}
}
