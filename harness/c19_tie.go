package main

// C19 tie: the executable Lean model of processor.Execute (Model/DryRun.lean, instantiated from the regenerated
// table Gen.dryFns) against the REAL driver events, per pipeline x flag valuation (DryRun, SkipDefaultTransaction by
// configuration or by session, pre-set error, SkipHooks) x handle form.  Hook-free, association-free models, so the
// recorded events are exactly those of the pipeline's own callbacks.
//
//   sent:  recorded statement kinds  ⊆  kinds of the model's enabled driver calls (all other conditions true = union
//          of the branches), and  model.sent = [] ⇔ nothing recorded   (in particular DryRun ⇒ both empty)
//   txs:   a begin is recorded ⇔ the model enables Begin; commit/rollback only if the model enables one
//   keeps: Statement.SQL is non-empty after the run ⇔ model.keepsSQL (for runs that built a statement)
//   finisher level: batched finisher exposes nothing / explicit transaction under ToSQL flags (F25/F26 probes)
//
// The model is instantiated with the regenerated fact Gen.beginSkipsDryRun of the tree under check (which DB.Begin
// exists: Model/DryRun.lean `txReaches`), so the same judgements hold on a tree with and without the repair of F25: with it
// a DryRun run records no begin/commit at all, and the model enables none.

import (
	"encoding/json"
	"errors"
	"fmt"
	"math/rand"
	"sort"
	"strings"

	"gorm.io/gorm"
	"gorm.io/gorm/clause"
)

type c19TieOp struct {
	Name     string
	Pipeline string
	Run      func(h *gorm.DB, k int) *gorm.DB
}

func c19TieOps() []c19TieOp {
	return []c19TieOp{
		{"create", "create", func(h *gorm.DB, k int) *gorm.DB { p := c19MkPlain(k); return h.Create(&p) }},
		{"create_map", "create", func(h *gorm.DB, k int) *gorm.DB {
			return h.Model(&C19Plain{}).Create(map[string]interface{}{"name": c19Str(k), "age": k % 50})
		}},
		{"create_hard_noreturning", "create", func(h *gorm.DB, k int) *gorm.DB {
			return h.Create(&C19Hard{Code: fmt.Sprint("tie", k), Name: "x", N: k})
		}},
		{"find", "query", func(h *gorm.DB, k int) *gorm.DB { var xs []C19Plain; return h.Where("age > ?", k%30).Find(&xs) }},
		{"count", "query", func(h *gorm.DB, k int) *gorm.DB { var n int64; return h.Model(&C19Plain{}).Count(&n) }},
		{"update", "update", func(h *gorm.DB, k int) *gorm.DB {
			return h.Model(&C19Plain{}).Where("id = ?", 1+k%6).Update("name", c19Str(k))
		}},
		{"update_returning", "update", func(h *gorm.DB, k int) *gorm.DB {
			var out []C19Plain
			return h.Model(&out).Clauses(clause.Returning{}).Where("id = ?", 1+k%6).Update("name", c19Str(k))
		}},
		{"delete_hard", "delete", func(h *gorm.DB, k int) *gorm.DB { return h.Delete(&C19Hard{Code: "nosuch"}) }},
		{"delete_soft", "delete", func(h *gorm.DB, k int) *gorm.DB { return h.Where("age = ?", 1000+k).Delete(&C19Plain{}) }},
		{"rows", "row", func(h *gorm.DB, k int) *gorm.DB {
			c := h.Model(&C19Plain{}).Where("age < ?", k%40)
			if rows, _ := c.Rows(); rows != nil {
				rows.Close()
			}
			return c
		}},
		{"row", "row", func(h *gorm.DB, k int) *gorm.DB {
			c := h.Model(&C19Plain{}).Select("count(*)")
			if row := c.Row(); row != nil {
				var n int
				_ = row.Scan(&n)
			}
			return c
		}},
		{"exec", "raw", func(h *gorm.DB, k int) *gorm.DB {
			return h.Exec("UPDATE c19_plains SET age = age WHERE id = ?", 1+k%6)
		}},
	}
}

type c19TieSpec struct {
	Op        string `json:"op"`
	K         int    `json:"k"`
	DryRun    bool   `json:"dry_run"`
	SkipTx    bool   `json:"skip_tx"`
	SkipTxCfg bool   `json:"skip_tx_by_config"`
	Err       bool   `json:"err"`
	SkipHooks bool   `json:"skip_hooks"`
	Deriv     string `json:"deriv"`
}

type c19TieModel struct {
	Built []string `json:"built"`
	Sent  []string `json:"sent"`
	Txs   []string `json:"txs"`
	Keeps bool     `json:"keeps"`
}

func c19SetOf(xs []string) []string {
	m := map[string]bool{}
	for _, x := range xs {
		m[x] = true
	}
	out := []string{}
	for x := range m {
		out = append(out, x)
	}
	sort.Strings(out)
	return out
}

func c19TieRun(worlds map[string]*c19World, ops map[string]c19TieOp, dvs map[string]c19Deriv, spec c19TieSpec) (events []string, sqlLen int, pipeline string) {
	cfg := "plain"
	if spec.SkipTx && spec.SkipTxCfg {
		cfg = "skiptx"
	}
	w := worlds[cfg]
	op := ops[spec.Op]
	sess := &gorm.Session{DryRun: spec.DryRun, SkipHooks: spec.SkipHooks}
	if spec.SkipTx && !spec.SkipTxCfg {
		sess.SkipDefaultTransaction = true
	}
	h := w.db.Session(sess)
	if spec.Err {
		_ = h.AddError(errors.New("c19 preset error"))
	}
	w.rec.Reset()
	var res *gorm.DB
	dvs[spec.Deriv].Wrap(h, func(h2 *gorm.DB) { res = op.Run(h2, spec.K) })
	events = evKinds(w.rec.Snapshot())
	w.rec.Reset()
	if res != nil && res.Statement != nil {
		sqlLen = res.Statement.SQL.Len()
	}
	return events, sqlLen, op.Pipeline
}

func c19TieJudge(spec c19TieSpec, events []string, sqlLen int, m c19TieModel) string {
	kindOf := map[string]string{"ExecContext": "exec", "QueryContext": "query", "QueryRowContext": "query", "PrepareContext": "prepare"}
	allowed := map[string]bool{}
	for _, s := range m.Sent {
		allowed[kindOf[s]] = true
	}
	txAllowed := map[string]bool{}
	for _, t := range m.Txs {
		txAllowed[strings.ToLower(t)] = true
	}
	stmts, begins := 0, 0
	for _, e := range events {
		switch e {
		case "begin":
			begins++
			if !txAllowed["begin"] {
				return "a transaction was begun but the model enables no Begin"
			}
		case "commit", "rollback":
			if !txAllowed[e] {
				return "recorded " + e + " but the model enables none"
			}
		case "exec", "query", "stmt_exec", "stmt_query":
			stmts++
			if !allowed[strings.TrimPrefix(e, "stmt_")] {
				return fmt.Sprintf("recorded %s but the model's enabled driver calls are %v", e, m.Sent)
			}
		case "prepare", "stmt_close":
		}
	}
	if (stmts == 0) != (len(m.Sent) == 0) {
		return fmt.Sprintf("recorded %d statements but the model's enabled driver calls are %v", stmts, m.Sent)
	}
	if (begins > 0) != txAllowed["begin"] {
		return fmt.Sprintf("recorded %d begin events but model txs = %v", begins, m.Txs)
	}
	if !spec.Err && (sqlLen > 0) != m.Keeps {
		return fmt.Sprintf("Statement.SQL length after the run = %d but model.keepsSQL = %v", sqlLen, m.Keeps)
	}
	return ""
}

func init() {
	opList := c19TieOps()
	ops := map[string]c19TieOp{}
	for _, o := range opList {
		ops[o.Name] = o
	}
	dvs := map[string]c19Deriv{}
	var dvNames []string
	for _, d := range c19Derivs() {
		if !d.Explicit && d.Name != "skipdefaulttx" && d.Name != "prepare" {
			dvs[d.Name] = d
			dvNames = append(dvNames, d.Name)
		}
	}
	evalBatch := func(r *Result, specs []c19TieSpec) {
		worlds := map[string]*c19World{"plain": c19Open("plain"), "skiptx": c19Open("skiptx")}
		var asks [][]interface{}
		type rec struct {
			ev  []string
			sql int
		}
		var recs []rec
		for _, s := range specs {
			ev, sl, pipe := c19TieRun(worlds, ops, dvs, s)
			recs = append(recs, rec{ev, sl})
			asks = append(asks, []interface{}{"c19.exec", pipe, s.DryRun, s.SkipTx, s.Err, s.SkipHooks, true, []string{}, 6})
		}
		outs, err := AskLean(asks)
		if err != nil {
			r.Violate(Violation{Kind: "correspondence", Suite: "tie", Input: "lean driver", Observed: err.Error(), Expected: "answers"})
			return
		}
		for i, s := range specs {
			var m c19TieModel
			if err := json.Unmarshal(outs[i], &m); err != nil {
				r.Violate(Violation{Kind: "correspondence", Suite: "tie", Input: s, Observed: string(outs[i]), Expected: "model answer"})
				continue
			}
			r.CorrCompared++
			r.Case("tie", fmt.Sprintf("%s|%v|%v|%v|%v|%s", s.Op, s.DryRun, s.SkipTx, s.Err, s.SkipTxCfg, s.Deriv), len(recs[i].ev) > 0)
			r.H("tie_events", strings.Join(c19SetOf(recs[i].ev), ","))
			r.H("tie_model_sent", strings.Join(c19SetOf(m.Sent), ","))
			if msg := c19TieJudge(s, recs[i].ev, recs[i].sql, m); msg != "" {
				r.Violate(Violation{Kind: "correspondence", Suite: "tie", Input: s,
					Observed: map[string]interface{}{"events": recs[i].ev, "sql_len": recs[i].sql, "model_sent": m.Sent, "model_txs": m.Txs, "model_keeps": m.Keeps},
					Expected: msg})
			}
		}
	}
	register("C19", func(r *Result, rng *rand.Rand, tier string) {
		var specs []c19TieSpec
		for _, o := range opList {
			for mask := 0; mask < 32; mask++ {
				s := c19TieSpec{Op: o.Name, K: rng.Intn(1000), DryRun: mask&1 != 0, SkipTx: mask&2 != 0, Err: mask&4 != 0,
					SkipHooks: mask&8 != 0, SkipTxCfg: mask&16 != 0, Deriv: dvNames[rng.Intn(len(dvNames))]}
				if s.SkipTxCfg && !s.SkipTx {
					continue
				}
				specs = append(specs, s)
			}
		}
		evalBatch(r, specs)
		// finisher level: the two findings, model vs real
		c19FinisherProbes(r)
	})
	replayers["C19/tie-finisher"] = func(r *Result, input json.RawMessage) { c19FinisherProbes(r) }
	replayers["C19/tie"] = func(r *Result, input json.RawMessage) {
		var s c19TieSpec
		if err := json.Unmarshal(input, &s); err != nil {
			r.Note("bad replay input: %v", err)
			return
		}
		evalBatch(r, []c19TieSpec{s})
	}
}

// c19FinisherProbes re-confirms the listed findings on the real code and compares with the model's finisher level.
func c19FinisherProbes(r *Result) {
	w := c19Open("plain")
	outs, err := AskLean([][]interface{}{
		{"c19.finisher", "create", false, true, true, true, 6},  // explicit transaction under ToSQL flags
		{"c19.finisher", "create", false, false, true, true, 6}, // plain create under ToSQL flags
		{"c19.finisher", "create", true, false, true, true, 6},  // batched create under ToSQL flags
	})
	if err != nil {
		r.Violate(Violation{Kind: "correspondence", Suite: "tie-finisher", Input: "lean driver", Observed: err.Error(), Expected: "answers"})
		return
	}
	type fin struct {
		Exposed []string `json:"exposed"`
		Txs     []string `json:"txs"`
	}
	var ms [3]fin
	for i := range ms {
		_ = json.Unmarshal(outs[i], &ms[i])
	}
	run := func(f func(tx *gorm.DB) *gorm.DB) (string, []string) {
		w.rec.Reset()
		s := w.db.ToSQL(f)
		ev := evKinds(w.rec.Snapshot())
		w.rec.Reset()
		return s, ev
	}
	// F25: an explicit user transaction on the ToSQL handle (Transaction block and Begin/Commit pair).
	//   model vs real: driver events recorded  <=>  the model of THIS tree (Gen.beginSkipsDryRun) enables the BeginTx
	//   property:      no driver call at all, and the string is the INSERT of the inner Create (= ToSQL of the bare Create)
	want, _ := run(func(tx *gorm.DB) *gorm.DB { p := c19MkPlain(1); return tx.Create(&p) })
	for _, pr := range []struct {
		name string
		f    func(tx *gorm.DB) *gorm.DB
	}{
		{"ToSQL{Transaction{Create}}", func(tx *gorm.DB) *gorm.DB {
			var res *gorm.DB
			_ = tx.Transaction(func(t *gorm.DB) error { p := c19MkPlain(1); res = t.Create(&p); return nil })
			return res
		}},
		{"ToSQL{Begin;Create;Commit}", func(tx *gorm.DB) *gorm.DB {
			t := tx.Begin()
			p := c19MkPlain(1)
			res := t.Create(&p)
			t.Commit()
			return res
		}},
	} {
		got, ev := run(pr.f)
		r.CorrCompared++
		r.Case("tie-finisher", "F25/"+pr.name, true)
		r.H("tie_f25_events", strings.Join(ev, ","))
		if (len(ev) > 0) != (len(ms[0].Txs) > 0) {
			r.Violate(Violation{Kind: "correspondence", Suite: "tie-finisher", Input: pr.name, Observed: ev, Expected: fmt.Sprint("model txs ", ms[0].Txs)})
		} else if len(ev) > 0 {
			if listed(c19FExplicitTx) {
				r.KnownFinding(c19FExplicitTx, fmt.Sprintf("probe: %s made driver calls %v", pr.name, ev))
			} else {
				r.Violate(Violation{Kind: "e2e", Suite: "tie-finisher", Input: pr.name, Observed: ev, Expected: "no driver call"})
			}
		} else if got != want || want == "" {
			// silent: the former witness is judged like any other ToSQL run
			r.Violate(Violation{Kind: "e2e", Suite: "tie-finisher", Input: pr.name, Observed: got, Expected: "the statement of the inner Create: " + want})
		}
	}
	// plain create: exposes its statement, silent
	s1, ev1 := run(func(tx *gorm.DB) *gorm.DB { p := c19MkPlain(2); return tx.Create(&p) })
	r.CorrCompared++
	r.Case("tie-finisher", "plain", s1 != "")
	if (s1 != "") != (len(ms[1].Exposed) > 0) || (len(ev1) > 0) != (len(ms[1].Txs) > 0) {
		r.Violate(Violation{Kind: "correspondence", Suite: "tie-finisher", Input: "ToSQL{Create}", Observed: map[string]interface{}{"sql": s1, "events": ev1}, Expected: ms[1]})
	}
	// F26
	s2, ev2 := run(func(tx *gorm.DB) *gorm.DB {
		ps := []C19Plain{c19MkPlain(3), c19MkPlain(4), c19MkPlain(5)}
		return tx.CreateInBatches(&ps, 2)
	})
	r.CorrCompared++
	r.Case("tie-finisher", "F26", true)
	if (s2 != "") != (len(ms[2].Exposed) > 0) || (len(ev2) > 0) != (len(ms[2].Txs) > 0) {
		r.Violate(Violation{Kind: "correspondence", Suite: "tie-finisher", Input: "ToSQL{CreateInBatches}", Observed: map[string]interface{}{"sql": s2, "events": ev2}, Expected: ms[2]})
	} else if s2 == "" {
		if listed(c19FBatchEmpty) {
			r.KnownFinding(c19FBatchEmpty, "probe: ToSQL{CreateInBatches(3 rows, 2)} returns the empty string")
		} else {
			r.Violate(Violation{Kind: "e2e", Suite: "tie-finisher", Input: "ToSQL{CreateInBatches}", Observed: s2, Expected: "the INSERT of the first batch"})
		}
	}
}
