package main

// C12: association mode keeps stored links, counts and the in-memory value in agreement.
//
// This file: the model family, the sequence type, the executor that runs one operation sequence on the REAL
// Association API (SQLite behind the recording driver) and observes, after every step, the link tables
// (fk columns / join rows), the surviving target records, Count(), Find() and the in-memory relation field.
// c12_oracle.go judges those observations against a Go link-set reference of the PROPERTY (e2e),
// c12_tie.go compares them with the Lean model (correspondence).

import (
	"fmt"
	"reflect"
	"sort"
	"strings"
	"sync"

	"gorm.io/gorm"
	"gorm.io/gorm/clause"
)

type C12Home struct {
	ID    uint `gorm:"primaryKey"`
	Name  string
	Users []C12User `gorm:"foreignKey:HomeID"` // back-reference: the owners whose belongs-to points here
}
type C12Card struct {
	ID        uint `gorm:"primaryKey"`
	Name      string
	C12UserID *uint
	C12User   *C12User // back-reference to the owner (belongs-to over the has-one's fk)
}
type C12Sub struct { // a child of a TARGET (the targets' own has-many)
	ID        uint `gorm:"primaryKey"`
	Name      string
	C12ItemID *uint
}
type C12Item struct {
	ID        uint `gorm:"primaryKey"`
	Name      string
	C12UserID *uint
	C12User   *C12User // back-reference to the owner
	Subs      []C12Sub // the target's own children
}
type C12Tag struct {
	ID    uint `gorm:"primaryKey"`
	Name  string
	Users []*C12User `gorm:"many2many:c12_user_tags"` // back-reference over the same join table
}
type C12Note struct {
	ID         uint `gorm:"primaryKey"`
	Name       string
	HolderID   *uint
	HolderType string
}
type C12Badge struct {
	ID         uint `gorm:"primaryKey"`
	Name       string
	HolderID   *uint
	HolderType string
}
type C12Seal struct { // has-one held BY VALUE (assign-back path of saveAssociation)
	ID        uint `gorm:"primaryKey"`
	Name      string
	C12UserID *uint
}
type C12Part struct { // has-many held as []*C12Part
	ID        uint `gorm:"primaryKey"`
	Name      string
	C12UserID *uint
	C12User   *C12User // back-reference to the owner
}

// relations whose keys reference NON-primary columns (string and composite)
type C12Org struct { // belongs-to target addressed by Code
	ID   uint   `gorm:"primaryKey"`
	Code string `gorm:"uniqueIndex"`
	Name string
	Staff []C12User `gorm:"foreignKey:OrgCode;references:Code"` // back-reference
}
type C12Pass struct { // has-one target: fk references the owner's Nick
	ID       uint `gorm:"primaryKey"`
	Name     string
	UserNick *string
	User     *C12User `gorm:"foreignKey:UserNick;references:Nick"`
}
type C12Task struct { // has-many target: fk references the owner's Nick
	ID       uint `gorm:"primaryKey"`
	Name     string
	UserNick *string
	User     *C12User `gorm:"foreignKey:UserNick;references:Nick"`
}
type C12Group struct { // many2many target addressed by Slug in the join table
	ID   uint   `gorm:"primaryKey"`
	Slug string `gorm:"uniqueIndex"`
	Name string
}
type C12Area struct { // belongs-to target addressed by the composite (R, Z)
	ID   uint   `gorm:"primaryKey"`
	R    string `gorm:"uniqueIndex:c12_area_rz"`
	Z    string `gorm:"uniqueIndex:c12_area_rz"`
	Name string
}
type C12Plot struct { // has-many target: composite fk references the owner's (K1, K2)
	ID   uint `gorm:"primaryKey"`
	Name string
	UK1  *string
	UK2  *string
}
type C12Club struct { // many2many target addressed by the composite (A, B); the owner by (K1, K2)
	ID   uint   `gorm:"primaryKey"`
	A    string `gorm:"uniqueIndex:c12_club_ab"`
	B    string `gorm:"uniqueIndex:c12_club_ab"`
	Name string
}
type C12User struct {
	ID      uint `gorm:"primaryKey"`
	Name    string
	HomeID  *uint
	Home    *C12Home
	Card    *C12Card
	Items   []C12Item
	Tags    []C12Tag   `gorm:"many2many:c12_user_tags"`
	Notes   []C12Note  `gorm:"polymorphic:Holder"`
	Badge   *C12Badge  `gorm:"polymorphic:Holder"`
	Friends []*C12User `gorm:"many2many:c12_friends"`
	Seal    C12Seal
	Parts   []*C12Part
	// self-referential relations over c12_users itself (targets are rows of the OWNER table)
	ManagerID *uint
	Manager   *C12User  `gorm:"foreignKey:ManagerID"` // back-reference of Team (a target loaded with Preload("Manager") carries its previous owner)
	Team      []C12User `gorm:"foreignKey:ManagerID"`
	BuddyID   *uint
	Buddy     *C12User `gorm:"foreignKey:BuddyID"` // kept apart from Manager/Team: a belongs-to that is nobody's inverse
	// non-primary referenced columns of the owner (Nick; composite K1, K2) and relations over them
	Nick    string // not declared unique: the self-referential kinds create rows of this table without them
	K1      string
	K2      string
	OrgCode *string
	Org     *C12Org    `gorm:"foreignKey:OrgCode;references:Code"`
	Pass    *C12Pass   `gorm:"foreignKey:UserNick;references:Nick"`
	Tasks   []C12Task  `gorm:"foreignKey:UserNick;references:Nick"`
	Groups  []C12Group `gorm:"many2many:c12_user_groups;foreignKey:Nick;joinForeignKey:UserNick;references:Slug;joinReferences:GroupSlug"`
	AreaR   *string
	AreaZ   *string
	Area    *C12Area   `gorm:"foreignKey:AreaR,AreaZ;references:R,Z"`
	Plots   []C12Plot  `gorm:"foreignKey:UK1,UK2;references:K1,K2"`
	Clubs   []*C12Club `gorm:"many2many:c12_user_clubs;foreignKey:K1,K2;joinForeignKey:UK1,UK2;references:A,B;joinReferences:CA,CB"`
}

var c12Models = []interface{}{&C12Home{}, &C12Card{}, &C12Sub{}, &C12Item{}, &C12Tag{}, &C12Note{}, &C12Badge{}, &C12Seal{}, &C12Part{}, &C12Org{}, &C12Pass{}, &C12Task{}, &C12Group{}, &C12Area{}, &C12Plot{}, &C12Club{}, &C12User{}}

// relation kinds.  Class = the shape of the link store: "bt" fk column on the owner row, "fk" fk column on
// the target row (has-one / has-many / polymorphic), "m2m" join rows.
type c12Kind struct {
	Name   string
	Field  string
	Class  string
	Card1  bool   // has-one / belongs-to: at most one link per owner, Append behaves as Replace
	Table  string // target table
	FK     string // fk column (bt: on c12_users; fk: on the target table)
	Poly   bool   // polymorphic: holder_type column must equal "c12_users"
	Join   string // m2m join table
	JOwner string
	JTgt   string
	// relations whose keys reference NON-primary columns (Ref = true): column lists instead of the single id columns
	Ref     bool
	FKs     []string // fk columns (bt: on c12_users; fk: on the target table)
	FKField string   // Go name of the (first) fk field of the TARGET record (fk class), "" = none: the stale-foreign-key argument state sets it
	OwnCols []string // referenced columns of the OWNER (fk / m2m class)
	RefCols []string // referenced columns of the TARGET (bt / m2m class)
	JOwners []string // m2m join columns naming the owner
	JTgts   []string // m2m join columns naming the target
}

// composite: keys of more than one column (a call without values renders `(a,b) IN (NULL)`, which SQLite rejects: boundary, not generated)
func (k *c12Kind) Composite() bool { return len(k.FKs) > 1 || len(k.JOwners) > 1 }

var c12Kinds = []c12Kind{
	{Name: "belongs_to", Field: "Home", Class: "bt", Card1: true, Table: "c12_homes", FK: "home_id"},
	{Name: "has_one", FKField: "C12UserID", Field: "Card", Class: "fk", Card1: true, Table: "c12_cards", FK: "c12_user_id"},
	{Name: "has_many", FKField: "C12UserID", Field: "Items", Class: "fk", Table: "c12_items", FK: "c12_user_id"},
	{Name: "many2many", Field: "Tags", Class: "m2m", Table: "c12_tags", Join: "c12_user_tags", JOwner: "c12_user_id", JTgt: "c12_tag_id"},
	{Name: "poly_many", FKField: "HolderID", Field: "Notes", Class: "fk", Table: "c12_notes", FK: "holder_id", Poly: true},
	{Name: "poly_one", FKField: "HolderID", Field: "Badge", Class: "fk", Card1: true, Table: "c12_badges", FK: "holder_id", Poly: true},
	{Name: "has_one_val", FKField: "C12UserID", Field: "Seal", Class: "fk", Card1: true, Table: "c12_seals", FK: "c12_user_id"},
	{Name: "has_many_ptr", FKField: "C12UserID", Field: "Parts", Class: "fk", Table: "c12_parts", FK: "c12_user_id"},
	{Name: "self_m2m", Field: "Friends", Class: "m2m", Table: "c12_users", Join: "c12_friends", JOwner: "c12_user_id", JTgt: "friend_id"},
	{Name: "self_has_many", FKField: "ManagerID", Field: "Team", Class: "fk", Table: "c12_users", FK: "manager_id"},
	{Name: "self_belongs_to", Field: "Buddy", Class: "bt", Card1: true, Table: "c12_users", FK: "buddy_id"},
	// keys referencing non-primary columns: string and composite
	{Name: "ref_belongs_to", Field: "Org", Class: "bt", Card1: true, Table: "c12_orgs", Ref: true, FKs: []string{"org_code"}, RefCols: []string{"code"}},
	{Name: "ref_has_one", Field: "Pass", Class: "fk", Card1: true, Table: "c12_passes", Ref: true, FKs: []string{"user_nick"}, FKField: "UserNick", OwnCols: []string{"nick"}},
	{Name: "ref_has_many", Field: "Tasks", Class: "fk", Table: "c12_tasks", Ref: true, FKs: []string{"user_nick"}, FKField: "UserNick", OwnCols: []string{"nick"}},
	{Name: "ref_many2many", Field: "Groups", Class: "m2m", Table: "c12_groups", Join: "c12_user_groups", Ref: true, OwnCols: []string{"nick"}, RefCols: []string{"slug"}, JOwners: []string{"user_nick"}, JTgts: []string{"group_slug"}},
	{Name: "comp_belongs_to", Field: "Area", Class: "bt", Card1: true, Table: "c12_areas", Ref: true, FKs: []string{"area_r", "area_z"}, RefCols: []string{"r", "z"}},
	{Name: "comp_has_many", Field: "Plots", Class: "fk", Table: "c12_plots", Ref: true, FKs: []string{"uk1", "uk2"}, FKField: "UK1", OwnCols: []string{"k1", "k2"}},
	{Name: "comp_many2many", Field: "Clubs", Class: "m2m", Table: "c12_clubs", Join: "c12_user_clubs", Ref: true, OwnCols: []string{"k1", "k2"}, RefCols: []string{"a", "b"}, JOwners: []string{"uk1", "uk2"}, JTgts: []string{"ca", "cb"}},
}

// values of the referenced non-primary columns: of owner `id` / of the target record named `name`
func c12OwnerVal(col string, id int) string {
	switch col {
	case "nick":
		return fmt.Sprint("u", id)
	case "k1":
		return fmt.Sprint("k", id)
	default:
		return fmt.Sprint("q", id)
	}
}

func c12TargetVal(col, name string) string { return col + "-" + name }

func c12NewOwner(id int) C12User {
	return C12User{ID: uint(id), Name: fmt.Sprint("u", id), Nick: c12OwnerVal("nick", id), K1: c12OwnerVal("k1", id), K2: c12OwnerVal("k2", id)}
}

func c12On(a string, ac []string, b string, bc []string) string {
	var on []string
	for i := range ac {
		on = append(on, a+"."+ac[i]+" = "+b+"."+bc[i])
	}
	return strings.Join(on, " AND ")
}

func c12KindByName(n string) *c12Kind {
	for i := range c12Kinds {
		if c12Kinds[i].Name == n {
			return &c12Kinds[i]
		}
	}
	return nil
}

// One operation.  Vals: per operated owner (Append/Replace on a slice of owners take one argument per
// owner; Delete takes a flat list = Vals[0]) a list of target references: k > 0 = the target with primary
// key k (existing, or not existing = "new with explicit key"), 0 = a new target without key.
type c12Op struct {
	Op       string  `json:"op"` // append | replace | delete | clear
	Unscoped bool    `json:"unscoped,omitempty"`
	Vals     [][]int `json:"vals"`
	Shape    int     `json:"shape"` // how the values are passed: 0 = one *T per target, 1 = one []T, 2 = one []*T
	Arg      int     `json:"arg,omitempty"`   // state of the argument records: c12ArgFresh | Loaded | Preload | Stale | KeyOnly
	Empty    bool    `json:"empty,omitempty"` // single owner, no value: pass ONE EMPTY SLICE (shape 1 / 2) instead of no argument at all
	// the HANDLE the call goes through (c12_handles.go): 0 = a fresh `db.Model(x).Association(f)` per call (`.Unscoped()` chained when
	// Unscoped), 1 = the handle kept in a variable `a`, 2 = `b := a.Unscoped()` kept in a second variable (Unscoped is then true)
	Via   int  `json:"via,omitempty"`
	Renew bool `json:"renew,omitempty"` // Via 1/2: `a` is built anew before this call
	Touch int  `json:"touch,omitempty"` // before the call, on the plain handle: c12Touch* (Unscoped() called, result dropped / used for a read / kept)
	Other int  `json:"other,omitempty"` // before the call, a handle of ANOTHER relation of the same record is used: c12Other*
	Bad   bool `json:"bad,omitempty"`   // before the call, the same handle receives an Append of a value of the wrong type (the call fails, nothing is written)
}

type c12Seq struct {
	Kind     string  `json:"kind"`
	Owners   int     `json:"owners"`    // 1 = db.Model(&u1); 2 = db.Model(&[]C12User{u1,u2}) / []*C12User
	OwnerPtr bool    `json:"owner_ptr"` // slice of pointers
	Pre      []int   `json:"pre"`       // target keys existing before the sequence
	By       []int   `json:"by"`        // targets linked to the bystander owner u3 before the sequence
	Own      []int   `json:"own"`       // targets linked to the operated owner u1 before the sequence (u1 is then loaded with Preload)
	Ops      []c12Op `json:"ops"`
}

const (
	c12Owner1    = 1
	c12Owner2    = 2
	c12Bystander = 3
	c12PoolLo    = 11 // target keys used by generators: 11..16 (existing or "new with explicit key") ...
	c12PoolHi    = 16
	c12Sentinel  = 20 // ... a target that always exists and is never named, so that database-assigned keys start at 21
)

// what is observed after one step
type c12Obs struct {
	Err     string   `json:"err"`
	Links   [][2]int `json:"links"`   // (owner, target) pairs stored in the database, sorted
	Targets []int    `json:"targets"` // keys of the target records that exist, sorted
	Decoys  []string `json:"decoys,omitempty"`
	Count   int64    `json:"count"`
	CountE  string   `json:"count_err,omitempty"`
	Find    []int    `json:"find"` // sorted, duplicates kept
	FindE   string   `json:"find_err,omitempty"`
	Mem     [][]int  `json:"mem"`     // per operated owner: distinct non-zero keys held by the in-memory field, sorted
	MemRaw  [][]int  `json:"mem_raw"` // per operated owner: keys in field order, with duplicates / zero keys
	ArgIDs  []int    `json:"arg_ids"` // keys of the caller's argument records after the call (assign-back)
	Stmts   []string `json:"stmts"`   // write statements sent for this step: "INSERT c12_items", "UPDATE c12_items", ...
	Names   map[int]string
	Labels  []string `json:"labels"` // labels of the argument targets in flattened order
	BadErr  string   `json:"bad_err,omitempty"` // what the deliberately ill-typed Append returned ("" = it was accepted)
	Side    string   `json:"side,omitempty"`    // trouble of the side calls (Unscoped().Count() / handle of the other relation)
}

func c12TargetType(k *c12Kind) reflect.Type {
	f, _ := reflect.TypeOf(C12User{}).FieldByName(k.Field)
	t := f.Type
	for t.Kind() == reflect.Ptr || t.Kind() == reflect.Slice {
		t = t.Elem()
	}
	return t
}

func c12MemIDs(u *C12User, k *c12Kind) (raw []int) {
	f := reflect.ValueOf(u).Elem().FieldByName(k.Field)
	raw = []int{}
	var one func(v reflect.Value)
	one = func(v reflect.Value) {
		for v.Kind() == reflect.Ptr {
			if v.IsNil() {
				return
			}
			v = v.Elem()
		}
		raw = append(raw, int(v.FieldByName("ID").Uint()))
	}
	if f.Kind() == reflect.Slice {
		for i := 0; i < f.Len(); i++ {
			one(f.Index(i))
		}
	} else {
		one(f)
	}
	return raw
}

func c12DistinctSorted(raw []int) []int {
	seen := map[int]bool{}
	out := []int{}
	for _, x := range raw {
		if x != 0 && !seen[x] {
			seen[x] = true
			out = append(out, x)
		}
	}
	sort.Ints(out)
	return out
}

func c12QueryPairs(db *gorm.DB, q string) [][2]int {
	rows, err := db.Raw(q).Rows()
	if err != nil {
		panic(err)
	}
	defer rows.Close()
	out := [][2]int{}
	for rows.Next() {
		var a, b int
		if err := rows.Scan(&a, &b); err != nil {
			panic(err)
		}
		out = append(out, [2]int{a, b})
	}
	sort.Slice(out, func(i, j int) bool {
		if out[i][0] != out[j][0] {
			return out[i][0] < out[j][0]
		}
		return out[i][1] < out[j][1]
	})
	return out
}

func c12Links(db *gorm.DB, k *c12Kind) [][2]int {
	if k.Ref {
		// the stored columns hold values of the REFERENCED columns: resolved to (owner id, target id); -1 = dangling
		switch k.Class {
		case "bt":
			return c12QueryPairs(db, "SELECT u.id, COALESCE(t.id, -1) FROM c12_users u LEFT JOIN "+k.Table+" t ON "+c12On("t", k.RefCols, "u", k.FKs)+" WHERE u."+k.FKs[0]+" IS NOT NULL")
		case "fk":
			return c12QueryPairs(db, "SELECT COALESCE(u.id, -1), t.id FROM "+k.Table+" t LEFT JOIN c12_users u ON "+c12On("u", k.OwnCols, "t", k.FKs)+" WHERE t."+k.FKs[0]+" IS NOT NULL")
		default:
			return c12QueryPairs(db, "SELECT COALESCE(u.id, -1), COALESCE(t.id, -1) FROM "+k.Join+" j LEFT JOIN c12_users u ON "+c12On("u", k.OwnCols, "j", k.JOwners)+" LEFT JOIN "+k.Table+" t ON "+c12On("t", k.RefCols, "j", k.JTgts))
		}
	}
	switch k.Class {
	case "bt":
		return c12QueryPairs(db, "SELECT id, "+k.FK+" FROM c12_users WHERE "+k.FK+" IS NOT NULL")
	case "fk":
		q := "SELECT " + k.FK + ", id FROM " + k.Table + " WHERE " + k.FK + " IS NOT NULL"
		if k.Poly {
			q += " AND holder_type = 'c12_users'"
		}
		return c12QueryPairs(db, q)
	default:
		return c12QueryPairs(db, "SELECT "+k.JOwner+", "+k.JTgt+" FROM "+k.Join)
	}
}

func c12Targets(db *gorm.DB, k *c12Kind) ([]int, map[int]string) {
	rows, err := db.Raw("SELECT id, name FROM " + k.Table + " ORDER BY id").Rows()
	if err != nil {
		panic(err)
	}
	defer rows.Close()
	ids := []int{}
	names := map[int]string{}
	for rows.Next() {
		var id int
		var name *string
		if err := rows.Scan(&id, &name); err != nil {
			panic(err)
		}
		if k.Table == "c12_users" && id <= c12Bystander {
			continue // the owners themselves
		}
		if k.Poly && id < 10 {
			continue // decoys are reported separately
		}
		ids = append(ids, id)
		if name != nil {
			names[id] = *name
		}
	}
	return ids, names
}

func c12Decoys(db *gorm.DB, k *c12Kind) []string {
	if !k.Poly {
		return nil
	}
	rows, err := db.Raw("SELECT id, holder_id, holder_type FROM " + k.Table + " WHERE id < 10 ORDER BY id").Rows()
	if err != nil {
		panic(err)
	}
	defer rows.Close()
	out := []string{}
	for rows.Next() {
		var id int
		var h *int
		var t string
		_ = rows.Scan(&id, &h, &t)
		hs := "NULL"
		if h != nil {
			hs = fmt.Sprint(*h)
		}
		out = append(out, fmt.Sprintf("%d:%s:%s", id, hs, t))
	}
	return out
}

func c12Label(step, owner, j, key int) string {
	if key > 0 {
		return fmt.Sprint("t", key)
	}
	return fmt.Sprintf("n%d_%d_%d", step, owner, j)
}

var (
	c12DDLOnce sync.Once
	c12DDL     []string
)

// c12Setup creates the database state every sequence starts from.
func c12Setup(db *gorm.DB, k *c12Kind, s c12Seq) {
	ex := func(q string, a ...interface{}) {
		if err := db.Exec(q, a...).Error; err != nil {
			panic(fmt.Sprint(q, ": ", err))
		}
	}
	c12DDLOnce.Do(func() {
		// AutoMigrate of the model family once (on a scratch database); every sequence replays the recorded DDL
		d, rec, sq := OpenRec(&gorm.Config{NowFunc: fixedNowFunc})
		defer sq.Close()
		if err := d.AutoMigrate(c12Models...); err != nil {
			panic(err)
		}
		for _, e := range rec.Snapshot() {
			if (e.Kind == "exec" || e.Kind == "stmt_exec") && strings.HasPrefix(strings.ToUpper(strings.TrimSpace(e.SQL)), "CREATE") {
				c12DDL = append(c12DDL, e.SQL)
			}
		}
	})
	for _, q := range c12DDL {
		ex(q)
	}
	for i := 1; i <= 3; i++ {
		ex("INSERT INTO c12_users (id, name, nick, k1, k2) VALUES (?, ?, ?, ?, ?)", i, fmt.Sprint("u", i), c12OwnerVal("nick", i), c12OwnerVal("k1", i), c12OwnerVal("k2", i))
	}
	by := map[int]int{}
	for _, b := range s.By {
		by[b] = c12Bystander
	}
	for _, b := range s.Own {
		by[b] = c12Owner1
	}
	for _, p := range append(append([]int{}, s.Pre...), c12Sentinel) {
		name := fmt.Sprint("t", p)
		if k.Ref {
			cols, args := []string{"id", "name"}, []interface{}{p, name}
			for _, c := range k.RefCols {
				cols, args = append(cols, c), append(args, c12TargetVal(c, name))
			}
			if k.Class == "fk" && by[p] != 0 {
				for i, c := range k.FKs {
					cols, args = append(cols, c), append(args, c12OwnerVal(k.OwnCols[i], by[p]))
				}
			}
			ex("INSERT INTO "+k.Table+" ("+strings.Join(cols, ", ")+") VALUES (?"+strings.Repeat(", ?", len(cols)-1)+")", args...)
			if by[p] != 0 {
				switch k.Class {
				case "bt":
					for i, c := range k.FKs {
						ex("UPDATE c12_users SET "+c+" = ? WHERE id = ?", c12TargetVal(k.RefCols[i], name), by[p])
					}
				case "m2m":
					cols, args := []string{}, []interface{}{}
					for i, c := range k.JOwners {
						cols, args = append(cols, c), append(args, c12OwnerVal(k.OwnCols[i], by[p]))
					}
					for i, c := range k.JTgts {
						cols, args = append(cols, c), append(args, c12TargetVal(k.RefCols[i], name))
					}
					ex("INSERT INTO "+k.Join+" ("+strings.Join(cols, ", ")+") VALUES (?"+strings.Repeat(", ?", len(cols)-1)+")", args...)
				}
			}
			continue
		}
		switch k.Class {
		case "bt":
			ex("INSERT INTO "+k.Table+" (id, name) VALUES (?, ?)", p, name)
			if by[p] != 0 {
				ex("UPDATE c12_users SET "+k.FK+" = ? WHERE id = ?", p, by[p])
			}
		case "fk":
			var fk interface{}
			if by[p] != 0 {
				fk = by[p]
			}
			if k.Poly {
				ex("INSERT INTO "+k.Table+" (id, name, "+k.FK+", holder_type) VALUES (?, ?, ?, ?)", p, name, fk, "c12_users")
			} else {
				ex("INSERT INTO "+k.Table+" (id, name, "+k.FK+") VALUES (?, ?, ?)", p, name, fk)
			}
		default:
			ex("INSERT INTO "+k.Table+" (id, name) VALUES (?, ?)", p, name)
			if by[p] != 0 {
				ex("INSERT INTO "+k.Join+" ("+k.JOwner+", "+k.JTgt+") VALUES (?, ?)", by[p], p)
			}
		}
	}
	if k.Table == "c12_items" {
		for _, p := range s.Pre { // the targets' own children (loaded by the Preload argument state)
			ex("INSERT INTO c12_subs (id, name, c12_item_id) VALUES (?, ?, ?)", 100+p, fmt.Sprint("s", p), p)
		}
	}
	if k.Poly {
		// decoys: rows of ANOTHER holder type carrying the operated owners' keys; no operation may touch them
		ex("INSERT INTO " + k.Table + " (id, name, " + k.FK + ", holder_type) VALUES (1, 'decoy1', 1, 'other')")
		ex("INSERT INTO " + k.Table + " (id, name, " + k.FK + ", holder_type) VALUES (2, 'decoy2', 2, 'other')")
	}
}

// argument record states (c12Op.Arg): what the caller's record carries besides its key
const (
	c12ArgFresh   = 0 // key (or none) + name (+ the referenced non-primary columns): a record built by hand
	c12ArgLoaded  = 1 // loaded with First: every column as stored, incl. a STALE foreign key naming the previous owner
	c12ArgPreload = 2 // loaded with Preload(clause.Associations): additionally its own relations (back-reference to the previous owner, own children)
	c12ArgStale   = 3 // built by hand with the foreign-key field (and the back-reference, if any) naming the bystander
	c12ArgKeyOnly = 4 // key (+ referenced columns) only
	c12ArgStates  = 5
)

func c12SetRefCols(k *c12Kind, rec reflect.Value, name string) {
	for _, c := range k.RefCols {
		rec.Elem().FieldByName(strings.ToUpper(c)[:1] + c[1:]).SetString(c12TargetVal(c, name))
	}
}

// c12BuildArgs builds the argument list for one owner: the records and the values to pass.
// A key that names a stored record yields that record in the requested state; other keys / no key yield a fresh record.
func c12BuildArgs(db *gorm.DB, k *c12Kind, step, owner int, keys []int, shape, state int) (recs []reflect.Value, args []interface{}) {
	tt := c12TargetType(k)
	raw := db.Session(&gorm.Session{NewDB: true})
	mk := func(j, key int) reflect.Value {
		p := reflect.New(tt)
		label := c12Label(step, owner, j, key)
		stored := ""
		if key > 0 {
			var n []string
			if err := raw.Table(k.Table).Where("id = ?", key).Pluck("name", &n).Error; err == nil && len(n) == 1 {
				stored = n[0]
			}
		}
		if stored != "" {
			switch state {
			case c12ArgLoaded:
				if err := raw.First(p.Interface(), key).Error; err == nil {
					return p
				}
			case c12ArgPreload:
				if err := raw.Preload(clause.Associations).First(p.Interface(), key).Error; err == nil {
					return p
				}
			}
			if k.Ref {
				label = stored // a hand-built record of a stored target carries the stored referenced columns
			}
		}
		p.Elem().FieldByName("ID").SetUint(uint64(key))
		if !(state == c12ArgKeyOnly && stored != "") {
			p.Elem().FieldByName("Name").SetString(label)
		}
		c12SetRefCols(k, p, label)
		if state == c12ArgStale && k.FKField != "" {
			f := p.Elem().FieldByName(k.FKField)
			switch f.Type().Elem().Kind() {
			case reflect.String:
				v := c12OwnerVal(k.OwnCols[0], c12Bystander)
				f.Set(reflect.ValueOf(&v))
			default:
				v := uint(c12Bystander)
				f.Set(reflect.ValueOf(&v))
			}
			for _, back := range []string{"C12User", "User", "Manager"} {
				if bf := p.Elem().FieldByName(back); bf.IsValid() && bf.Type() == reflect.TypeOf(&C12User{}) {
					u := c12NewOwner(c12Bystander)
					bf.Set(reflect.ValueOf(&u))
				}
			}
		}
		return p
	}
	switch shape {
	case 1: // one []T
		sl := reflect.MakeSlice(reflect.SliceOf(tt), 0, len(keys))
		for j, key := range keys {
			sl = reflect.Append(sl, mk(j, key).Elem())
		}
		holder := reflect.New(sl.Type())
		holder.Elem().Set(sl)
		for j := range keys {
			recs = append(recs, holder.Elem().Index(j).Addr())
		}
		args = []interface{}{holder.Interface()} // *[]T (addressable elements)
	case 2: // one []*T
		sl := reflect.MakeSlice(reflect.SliceOf(reflect.PointerTo(tt)), 0, len(keys))
		for j, key := range keys {
			p := mk(j, key)
			recs = append(recs, p)
			sl = reflect.Append(sl, p)
		}
		args = []interface{}{sl.Interface()}
	default: // one *T per target
		for j, key := range keys {
			p := mk(j, key)
			recs = append(recs, p)
			args = append(args, p.Interface())
		}
	}
	return
}

func c12StmtKinds(evs []Event) []string {
	out := []string{}
	for _, e := range evs {
		switch e.Kind {
		case "exec", "query", "stmt_exec", "stmt_query":
		default:
			continue
		}
		f := strings.Fields(strings.ReplaceAll(strings.ReplaceAll(e.SQL, "`", " "), "\"", " "))
		if len(f) < 3 {
			continue
		}
		switch strings.ToUpper(f[0]) {
		case "INSERT": // INSERT INTO t
			out = append(out, "INSERT "+f[2])
		case "UPDATE":
			out = append(out, "UPDATE "+f[1])
		case "DELETE": // DELETE FROM t
			out = append(out, "DELETE "+f[2])
		}
	}
	return out
}

// c12Exec runs the sequence on the real code and returns one observation per step.
func c12Exec(s c12Seq) []c12Obs { return c12ExecTrace(s, nil) }

func c12ExecTrace(s c12Seq, trace func(step int, evs []Event)) []c12Obs {
	k := c12KindByName(s.Kind)
	db, rec, sqlDB := OpenRec(&gorm.Config{NowFunc: fixedNowFunc})
	defer sqlDB.Close()
	c12Setup(db, k, s)

	// the operated records: created here once; every operation of the sequence is applied to them
	var owners []*C12User
	var model interface{}
	vals := []C12User{c12NewOwner(c12Owner1), c12NewOwner(c12Owner2)}
	if len(s.Own) > 0 {
		// u1 already has links: load the operated records with the relation preloaded (in-memory field = stored links)
		vals = nil
		if err := db.Preload(k.Field).Order("id").Find(&vals, []int{c12Owner1, c12Owner2}).Error; err != nil || len(vals) != 2 {
			panic(fmt.Sprint("preload of the operated owners failed: ", err))
		}
	}
	switch {
	case s.Owners <= 1:
		owners = []*C12User{&vals[0]}
		model = owners[0]
	case s.OwnerPtr:
		owners = []*C12User{&vals[0], &vals[1]}
		ps := []*C12User{owners[0], owners[1]}
		model = &ps
	default:
		owners = []*C12User{&vals[0], &vals[1]}
		model = &vals
	}

	var out []c12Obs
	names := map[int]string{}
	hs := &c12Handles{}
	for step, op := range s.Ops {
		o := c12Obs{}
		var recs []reflect.Value
		var args []interface{}
		if op.Op == "delete" || s.Owners <= 1 {
			var keys []int
			if len(op.Vals) > 0 {
				keys = op.Vals[0]
			}
			shape := op.Shape
			if op.Empty && len(keys) == 0 && shape == 0 {
				shape = 1
			}
			recs, args = c12BuildArgs(db, k, step, 0, keys, shape, op.Arg)
			if len(keys) == 0 && !op.Empty {
				recs, args = nil, nil // no value = no argument at all (`Append(items...)` with an empty list); Empty: one empty slice
			}
			for j, key := range keys {
				o.Labels = append(o.Labels, c12Label(step, 0, j, key))
			}
		} else {
			// one argument per owner
			for i := range owners {
				var keys []int
				if i < len(op.Vals) {
					keys = op.Vals[i]
				}
				shape := op.Shape
				if shape == 0 && len(keys) != 1 {
					shape = 1 // a single argument per owner is required: pass the slice form
				}
				r, a := c12BuildArgs(db, k, step, i, keys, shape, op.Arg)
				recs = append(recs, r...)
				args = append(args, a...)
				for j, key := range keys {
					o.Labels = append(o.Labels, c12Label(step, i, j, key))
				}
			}
			if op.Op == "clear" {
				args = nil
			}
		}
		rec.Reset()
		func() {
			defer func() {
				if p := recover(); p != nil {
					o.Err = fmt.Sprint("panic: ", p)
				}
			}()
			as := hs.handle(db, model, k, op, &o)
			var err error
			switch op.Op {
			case "append":
				err = as.Append(args...)
			case "replace":
				err = as.Replace(args...)
			case "delete":
				err = as.Delete(args...)
			case "clear":
				err = as.Clear()
			}
			if err != nil {
				o.Err = err.Error()
			}
		}()
		o.Stmts = c12StmtKinds(rec.Snapshot())
		if trace != nil {
			trace(step, rec.Snapshot())
		}
		rec.mu.Lock()
		rec.Off = true
		rec.mu.Unlock()
		raw := db.Session(&gorm.Session{NewDB: true})
		o.Links = c12Links(raw, k)
		var nm map[int]string
		o.Targets, nm = c12Targets(raw, k)
		for id, n := range nm {
			names[id] = n
		}
		o.Names = map[int]string{}
		for id, n := range names {
			o.Names[id] = n
		}
		o.Decoys = c12Decoys(raw, k)
		func() {
			defer func() {
				if p := recover(); p != nil {
					o.CountE = fmt.Sprint("panic: ", p)
				}
			}()
			as := db.Model(model).Association(k.Field)
			o.Count = as.Count()
			if as.Error != nil {
				o.CountE = as.Error.Error()
			}
		}()
		func() {
			defer func() {
				if p := recover(); p != nil {
					o.FindE = fmt.Sprint("panic: ", p)
				}
			}()
			res := reflect.New(reflect.SliceOf(c12TargetType(k)))
			if err := db.Model(model).Association(k.Field).Find(res.Interface()); err != nil {
				o.FindE = err.Error()
			}
			o.Find = []int{}
			for i := 0; i < res.Elem().Len(); i++ {
				o.Find = append(o.Find, int(res.Elem().Index(i).FieldByName("ID").Uint()))
			}
			sort.Ints(o.Find)
		}()
		rec.mu.Lock()
		rec.Off = false
		rec.mu.Unlock()
		for _, u := range owners {
			raw := c12MemIDs(u, k)
			o.MemRaw = append(o.MemRaw, raw)
			o.Mem = append(o.Mem, c12DistinctSorted(raw))
		}
		o.ArgIDs = []int{}
		for _, r := range recs {
			o.ArgIDs = append(o.ArgIDs, int(r.Elem().FieldByName("ID").Uint()))
		}
		out = append(out, o)
	}
	return out
}
