package main

// C03, primary-key back-fill after Create (callbacks/create.go).
//  * suite "backfill-loops" (correspondence): real callbacks.Create driven through a stub ConnPool that returns a
//    chosen RowsAffected / LastInsertId, for a no-RETURNING dialector with LastInsertIDReversed on and off;
//    resulting in-memory keys vs Lean `createBackfillSlice` / `backfillMaps`.
//  * suite "backfill-db" (e2e + correspondence): real SQLite, with RETURNING (stock dialector) and without
//    (harness-local dialector): after Create / CreateInBatches every in-memory record must carry the key of the row
//    that stores ITS payload (judged by reading each row back by payload), and both key lists are compared with
//    the model's `createSlice` / `createInBatches` (which contains the MODELLED rowid assignment).

import (
	"context"
	"database/sql"
	"encoding/json"
	"errors"
	"fmt"
	"math/rand"
	"sync/atomic"

	sqlite3 "github.com/mattn/go-sqlite3"
	"gorm.io/driver/sqlite"
	"gorm.io/gorm"
	"gorm.io/gorm/callbacks"
	"gorm.io/gorm/logger"
)

const c03F9 = "F9-C03-lastinsertid-mixed-keys"

// noRetDialector = gorm.io/driver/sqlite with the default callbacks registered WITHOUT "RETURNING" in
// CreateClauses (what the sqlite dialector itself does for SQLite < 3.35, and what MySQL-family dialectors do).
type noRetDialector struct {
	sqlite.Dialector
	Reversed bool
}

func (d noRetDialector) Initialize(db *gorm.DB) error {
	db.ConnPool = d.Dialector.Conn
	callbacks.RegisterDefaultCallbacks(db, &callbacks.Config{LastInsertIDReversed: d.Reversed})
	for k, v := range d.Dialector.ClauseBuilders() {
		db.ClauseBuilders[k] = v
	}
	return nil
}

var c03MemCounter int64

// c03Open opens a private in-memory SQLite behind the recording driver, with or without RETURNING support
func c03Open(returning bool, cfg *gorm.Config) (*gorm.DB, *sql.DB) {
	if cfg == nil {
		cfg = &gorm.Config{}
	}
	if cfg.Logger == nil {
		cfg.Logger = logger.Discard
	}
	if returning {
		db, _, sqlDB := OpenRec(cfg)
		return db, sqlDB
	}
	n := atomic.AddInt64(&c03MemCounter, 1)
	dsn := fmt.Sprintf("file:verifc03mem%d?mode=memory&cache=shared", n)
	sqlDB := sql.OpenDB(&recConnector{dsn: dsn, drv: &sqlite3.SQLiteDriver{}, rec: &Recorder{Off: true}})
	sqlDB.SetMaxIdleConns(4)
	db, err := gorm.Open(noRetDialector{Dialector: sqlite.Dialector{Conn: sqlDB}, Reversed: true}, cfg)
	if err != nil {
		panic(err)
	}
	return db, sqlDB
}

// ---- stub pool ----
type stubResult struct {
	ra, lid int64
	lidErr  error
}

func (s stubResult) LastInsertId() (int64, error) { return s.lid, s.lidErr }
func (s stubResult) RowsAffected() (int64, error) { return s.ra, nil }

type stubPool struct {
	res   stubResult
	execs int
}

func (p *stubPool) PrepareContext(ctx context.Context, q string) (*sql.Stmt, error) {
	return nil, errors.New("stub pool: no prepare")
}
func (p *stubPool) ExecContext(ctx context.Context, q string, args ...interface{}) (sql.Result, error) {
	p.execs++
	return p.res, nil
}
func (p *stubPool) QueryContext(ctx context.Context, q string, args ...interface{}) (*sql.Rows, error) {
	return nil, errors.New("stub pool: no query")
}
func (p *stubPool) QueryRowContext(ctx context.Context, q string, args ...interface{}) *sql.Row { return nil }

type BFRow struct {
	ID int64 `gorm:"primaryKey"`
	P  string
}
type BFRow3 struct {
	ID int64 `gorm:"primaryKey;autoIncrementIncrement:3"`
	P  string
}
type BFRowManual struct {
	ID int64 `gorm:"primaryKey;autoIncrement:false"`
	P  string
}

type c03LoopInput struct {
	Reversed bool    `json:"reversed"`
	Model    string  `json:"model"` // auto | inc3 | manual
	Shape    string  `json:"shape"` // values | pointers | single | maps
	Keys     []int64 `json:"keys"`  // maps: 1 = map present, 0 = nil map
	RA       int64   `json:"ra"`
	LID      *int64  `json:"lid"` // nil = LastInsertId returns an error
}

func c03RunLoop(in c03LoopInput) (keys []interface{}, err error) {
	pool := &stubPool{res: stubResult{ra: in.RA}}
	if in.LID != nil {
		pool.res.lid = *in.LID
	} else {
		pool.res.lidErr = errors.New("LastInsertId is not supported")
	}
	db, e := gorm.Open(noRetDialector{Dialector: sqlite.Dialector{Conn: pool}, Reversed: in.Reversed},
		&gorm.Config{Logger: logger.Discard, SkipDefaultTransaction: true})
	if e != nil {
		return nil, e
	}
	n := len(in.Keys)
	if in.Shape == "maps" {
		ms := make([]map[string]interface{}, n)
		for i, k := range in.Keys {
			if k != 0 {
				ms[i] = map[string]interface{}{"p": fmt.Sprint("m", i)}
			}
		}
		var tx *gorm.DB
		switch in.Model {
		case "auto":
			tx = db.Model(&BFRow{}).Create(ms)
		case "manual":
			tx = db.Model(&BFRowManual{}).Create(ms)
		default:
			tx = db.Table("bf_rows").Create(&ms)
		}
		name := "id"
		if in.Model != "auto" && in.Model != "manual" {
			name = "@id"
		}
		for _, m := range ms {
			if m == nil {
				keys = append(keys, nil)
			} else if v, ok := m[name]; ok {
				keys = append(keys, v.(int64))
			} else {
				keys = append(keys, nil)
			}
		}
		return keys, tx.Error
	}
	var tx *gorm.DB
	collect := func(get func(i int) int64) {
		for i := 0; i < n; i++ {
			keys = append(keys, get(i))
		}
	}
	switch in.Model {
	case "auto":
		switch in.Shape {
		case "values":
			s := make([]BFRow, n)
			for i, k := range in.Keys {
				s[i] = BFRow{ID: k, P: "x"}
			}
			tx = db.Create(&s)
			collect(func(i int) int64 { return s[i].ID })
		case "pointers":
			s := make([]*BFRow, n)
			for i, k := range in.Keys {
				s[i] = &BFRow{ID: k, P: "x"}
			}
			tx = db.Create(&s)
			collect(func(i int) int64 { return s[i].ID })
		default:
			s := BFRow{ID: in.Keys[0], P: "x"}
			tx = db.Create(&s)
			keys = append(keys, s.ID)
		}
	case "inc3":
		switch in.Shape {
		case "single":
			s := BFRow3{ID: in.Keys[0], P: "x"}
			tx = db.Create(&s)
			keys = append(keys, s.ID)
		default:
			s := make([]BFRow3, n)
			for i, k := range in.Keys {
				s[i] = BFRow3{ID: k, P: "x"}
			}
			tx = db.Create(&s)
			collect(func(i int) int64 { return s[i].ID })
		}
	default:
		switch in.Shape {
		case "single":
			s := BFRowManual{ID: in.Keys[0], P: "x"}
			tx = db.Create(&s)
			keys = append(keys, s.ID)
		default:
			s := make([]BFRowManual, n)
			for i, k := range in.Keys {
				s[i] = BFRowManual{ID: k, P: "x"}
			}
			tx = db.Create(&s)
			collect(func(i int) int64 { return s[i].ID })
		}
	}
	return keys, tx.Error
}

func c03LoopSuite(r *Result, rng *rand.Rand, tier string) {
	n := 1500
	if tier == "thorough" {
		n = 12000
	}
	var ops [][]interface{}
	var ins []c03LoopInput
	var reals [][]interface{}
	for i := 0; i < n; i++ {
		in := c03LoopInput{Reversed: rng.Intn(2) == 0, Model: []string{"auto", "auto", "inc3", "manual", "table"}[rng.Intn(5)],
			Shape: []string{"values", "pointers", "single", "maps", "values"}[rng.Intn(5)]}
		if in.Model == "table" {
			in.Shape = "maps"
		}
		ln := 1 + rng.Intn(7)
		if in.Shape == "single" {
			ln = 1
		}
		mode := rng.Intn(4) // all zero / all preset / mixed / mixed
		for j := 0; j < ln; j++ {
			k := int64(0)
			if mode == 1 || (mode >= 2 && rng.Intn(2) == 0) {
				k = int64(1 + rng.Intn(500))
			}
			if in.Shape == "maps" {
				k = 1
				if rng.Intn(6) == 0 {
					k = 0
				}
			}
			in.Keys = append(in.Keys, k)
		}
		in.RA = int64(ln)
		switch rng.Intn(12) {
		case 0:
			in.RA = 0
		case 1:
			in.RA = int64(rng.Intn(ln + 2))
		}
		lid := int64(1 + rng.Intn(2000))
		switch rng.Intn(12) {
		case 0:
			lid = 0
		case 1:
			lid = -int64(rng.Intn(5))
		case 2:
			lid = int64(rng.Intn(4))
		}
		in.LID = &lid
		if rng.Intn(15) == 0 {
			in.LID = nil
		}
		keys, err := c03RunLoop(in)
		r.H("loops.shape", in.Shape+"/"+in.Model)
		r.H("loops.reversed", fmt.Sprint(in.Reversed))
		r.H("loops.error", fmt.Sprint(err != nil))
		var lidJ interface{}
		if in.LID != nil {
			lidJ = *in.LID
		}
		if in.Shape == "maps" {
			present := make([]bool, len(in.Keys))
			for j, k := range in.Keys {
				present[j] = k != 0
			}
			// the guards in front of the loop are those of the slice branch; ask the model for them with an
			// all-preset dummy and apply the map loop only when they pass
			ml := int64(1)
			if in.LID != nil {
				ml = *in.LID
			}
			ops = append(ops, []interface{}{"c03.backfillmaps", in.Reversed, present, ml})
		} else {
			inc := 1
			if in.Model == "inc3" {
				inc = 3
			}
			ops = append(ops, []interface{}{"c03.backfill", in.Reversed, in.Model != "manual", inc, in.Keys, in.RA, lidJ})
		}
		ins = append(ins, in)
		reals = append(reals, keys)
	}
	outs, err := AskLean(ops)
	if err != nil {
		r.Violate(Violation{Kind: "correspondence", Suite: "backfill-loops", Note: err.Error()})
		return
	}
	for i, in := range ins {
		var want interface{}
		_ = json.Unmarshal(outs[i], &want)
		if in.Shape == "maps" {
			// guards (create.go:100-125): nothing is written when RowsAffected == 0, LastInsertId fails or is <= 0,
			// or the schema's prioritized primary field has no default
			if in.RA == 0 || in.LID == nil || *in.LID <= 0 || in.Model == "manual" {
				none := make([]interface{}, len(in.Keys))
				want = none
			}
		}
		r.CorrCompared++
		mixed := false
		z, p := false, false
		for _, k := range in.Keys {
			if k == 0 {
				z = true
			} else {
				p = true
			}
		}
		mixed = z && p
		r.H("loops.keys", map[bool]string{true: "mixed", false: "uniform"}[mixed])
		r.Case("backfill-loops", canon(in), len(in.Keys) > 1)
		if canon(reals[i]) != canon(want) {
			r.Violate(Violation{Kind: "correspondence", Suite: "backfill-loops", Input: in, Observed: reals[i], Expected: want,
				Note: "in-memory keys after callbacks.Create differ from Model.Scan.createBackfillSlice/backfillMaps"})
		}
	}
}

// ---- real database: each record carries the key of the row that stores its payload ----

type c03DBInput struct {
	Returning bool    `json:"returning"`
	Max       int64   `json:"max"`   // a seed row with this id is inserted first (0 = empty table)
	Keys      []int64 `json:"keys"`  // 0 = zero key
	Batch     int     `json:"batch"` // 0 = plain Create
	Shape     string  `json:"shape"` // values | pointers
}

type BFTok struct {
	ID  int64 `gorm:"primaryKey"`
	P   string
	Tok string `gorm:"default:(lower(hex(randomblob(6))))"` // database-generated default
	N   int    `gorm:"default:7"`                           // default filled in by gorm
}

func c03Mixed(ks []int64) bool {
	z, p := false, false
	for _, k := range ks {
		if k == 0 {
			z = true
		} else {
			p = true
		}
	}
	return z && p
}

// c03RunDB returns in-memory keys, keys of the rows holding each element's payload, and (RETURNING only)
// whether every in-memory Tok equals its row's Tok
func c03RunDB(in c03DBInput) (mem, rows []int64, defaultsOK bool, detail string, err error) {
	db, sqlDB := c03Open(in.Returning, nil)
	defer sqlDB.Close()
	if e := db.AutoMigrate(&BFTok{}); e != nil {
		return nil, nil, false, "", e
	}
	if in.Max > 0 {
		if e := db.Create(&BFTok{ID: in.Max, P: "seed"}).Error; e != nil {
			return nil, nil, false, "", e
		}
	}
	n := len(in.Keys)
	recs := make([]*BFTok, n)
	for i, k := range in.Keys {
		recs[i] = &BFTok{ID: k, P: fmt.Sprint("payload-", i)}
	}
	var tx *gorm.DB
	if in.Shape == "values" {
		vals := make([]BFTok, n)
		for i := range recs {
			vals[i] = *recs[i]
		}
		if in.Batch > 0 {
			tx = db.CreateInBatches(&vals, in.Batch)
		} else {
			tx = db.Create(&vals)
		}
		for i := range vals {
			recs[i] = &vals[i]
		}
	} else {
		if in.Batch > 0 {
			tx = db.CreateInBatches(&recs, in.Batch)
		} else {
			tx = db.Create(&recs)
		}
	}
	if tx.Error != nil {
		return nil, nil, false, "", tx.Error
	}
	defaultsOK = true
	for i, rec := range recs {
		mem = append(mem, rec.ID)
		var row struct {
			ID  int64
			Tok string
			N   int
		}
		if e := db.Raw("SELECT id, tok, n FROM bf_toks WHERE p = ?", fmt.Sprint("payload-", i)).Scan(&row).Error; e != nil {
			return nil, nil, false, "", e
		}
		rows = append(rows, row.ID)
		if in.Returning && rec.Tok != row.Tok {
			defaultsOK = false
			detail += fmt.Sprintf("element %d Tok=%q row Tok=%q; ", i, rec.Tok, row.Tok)
		}
		if rec.N != row.N || row.N != 7 {
			defaultsOK = false
			detail += fmt.Sprintf("element %d N=%d row N=%d; ", i, rec.N, row.N)
		}
		if len(row.Tok) != 12 {
			defaultsOK = false
			detail += fmt.Sprintf("row %d Tok=%q not generated; ", i, row.Tok)
		}
	}
	return
}

func c03GenDB(rng *rand.Rand, tier string) c03DBInput {
	in := c03DBInput{Returning: rng.Intn(2) == 0, Shape: []string{"values", "pointers"}[rng.Intn(2)]}
	if rng.Intn(3) > 0 {
		in.Max = int64(1 + rng.Intn(40))
	}
	n := 1 + rng.Intn(9)
	if tier == "thorough" && rng.Intn(5) == 0 {
		n = 10 + rng.Intn(30)
	}
	// preset keys are distinct multiples of 1000 so that they never collide with generated ids (the model has
	// no unique-key conflicts)
	perm := rng.Perm(40)
	mode := rng.Intn(8) // 0-3 all zero, 4 all preset, 5-7 mixed; without RETURNING mixed only 1 in 8 (listed pattern F9)
	if !in.Returning && mode >= 6 {
		mode = rng.Intn(5)
	}
	for i := 0; i < n; i++ {
		k := int64(0)
		if mode == 4 || (mode >= 5 && rng.Intn(2) == 0) {
			k = int64(perm[i]+1) * 1000
		}
		in.Keys = append(in.Keys, k)
	}
	if rng.Intn(2) == 0 {
		in.Batch = 1 + rng.Intn(n+2)
		if rng.Intn(4) == 0 {
			in.Batch = 1 + rng.Intn(3)
		}
	}
	return in
}

// judge one input; returns false when a violation (not a listed finding) was recorded
func c03JudgeDB(r *Result, in c03DBInput, model json.RawMessage) {
	mem, rows, defOK, detail, err := c03RunDB(in)
	if err != nil {
		r.Violate(Violation{Kind: "e2e", Suite: "backfill-db", Input: in, Observed: err.Error(), Expected: "Create succeeds"})
		return
	}
	// E2E verdict, independent of the model: element i carries the key of the row that stores payload i
	var bad []int
	for i := range mem {
		if mem[i] != rows[i] {
			bad = append(bad, i)
		}
	}
	if len(bad) > 0 {
		// pattern of F9: dialector without RETURNING and every wrong element lies in an INSERT batch that mixes
		// zero-key and preset-key elements
		known := !in.Returning
		b := in.Batch
		if b <= 0 {
			b = len(in.Keys)
		}
		for _, i := range bad {
			lo := i / b * b
			hi := lo + b
			if hi > len(in.Keys) {
				hi = len(in.Keys)
			}
			if !c03Mixed(in.Keys[lo:hi]) {
				known = false
			}
		}
		what := fmt.Sprintf("in-memory keys %v but the rows storing those records have keys %v", mem, rows)
		if known && listed(c03F9) {
			r.KnownFinding(c03F9, "without RETURNING, a batch mixing zero-key and preset-key records leaves records with another row's primary key")
			r.H("backfill-db.verdict", "known-F9")
		} else {
			r.H("backfill-db.verdict", "violation")
			r.Violate(Violation{Kind: "e2e", Suite: "backfill-db", Input: in, Observed: what, Expected: "each in-memory record carries the key of its own row"})
		}
	} else {
		r.H("backfill-db.verdict", "ok")
	}
	if !defOK {
		r.Violate(Violation{Kind: "e2e", Suite: "backfill-db", Input: in, Observed: detail,
			Expected: "database-generated / gorm-filled defaults in memory equal the row's (RETURNING); rows carry generated defaults"})
	}
	if model != nil {
		var mo [][]int64
		_ = json.Unmarshal(model, &mo)
		r.CorrCompared++
		if len(mo) != 2 || canon(mo[0]) != canon(mem) || canon(mo[1]) != canon(rows) {
			r.Violate(Violation{Kind: "correspondence", Suite: "backfill-db", Input: in, Observed: map[string]interface{}{"mem": mem, "rows": rows},
				Expected: model, Note: "Model.Scan.createSlice/createInBatches (incl. the modelled rowid assignment) differs from real Create on SQLite"})
		}
	}
}

func c03DBSuite(r *Result, rng *rand.Rand, tier string) {
	n := 250
	if tier == "thorough" {
		n = 4000
	}
	// dedicated probe of the listed finding (witness of C03_backfill_mixed_counterexample)
	probe := c03DBInput{Returning: false, Keys: []int64{0, 100, 0}, Shape: "values"}
	ins := []c03DBInput{probe, {Returning: true, Keys: []int64{0, 100, 0}, Shape: "values"}}
	for i := 0; i < n && !expired(); i++ {
		ins = append(ins, c03GenDB(rng, tier))
	}
	var ops [][]interface{}
	for _, in := range ins {
		ops = append(ops, []interface{}{"c03.create", in.Returning, in.Max, in.Keys, in.Batch})
	}
	outs, err := AskLean(ops)
	if err != nil {
		r.Violate(Violation{Kind: "correspondence", Suite: "backfill-db", Note: err.Error()})
		return
	}
	for i, in := range ins {
		r.H("backfill-db.returning", fmt.Sprint(in.Returning))
		r.H("backfill-db.len", fmt.Sprint(minInt(len(in.Keys), 10)))
		r.H("backfill-db.batch", map[bool]string{true: "plain", false: "in-batches"}[in.Batch == 0])
		r.H("backfill-db.keys", map[bool]string{true: "mixed", false: "uniform"}[c03Mixed(in.Keys)])
		r.Case("backfill-db", canon(in), len(in.Keys) > 1)
		c03JudgeDB(r, in, outs[i])
	}
	if i := 0; i == 0 {
		mem, rows, _, _, _ := c03RunDB(probe)
		r.Note("F9 probe: Create(&[]U{{},{ID:100},{}}) without RETURNING: in-memory ids %v, rows %v", mem, rows)
	}
}

// ---- Create from a slice of maps on the real database vs Model.Scan.createMaps ----
type c03MapsInput struct {
	Returning bool  `json:"returning"`
	Ptr       bool  `json:"ptr"`
	Max       int64 `json:"max"`
	N         int   `json:"n"`
}

func c03RunMaps(in c03MapsInput) interface{} {
	db, sqlDB := c03Open(in.Returning, nil)
	defer sqlDB.Close()
	if e := db.AutoMigrate(&BFRow{}); e != nil {
		return "migrate-error"
	}
	if in.Max > 0 {
		db.Create(&BFRow{ID: in.Max, P: "seed"})
	}
	ms := make([]map[string]interface{}, in.N)
	for i := range ms {
		ms[i] = map[string]interface{}{"p": fmt.Sprint("m", i)}
	}
	var err error
	if in.Ptr {
		err = db.Model(&BFRow{}).Create(&ms).Error
	} else {
		err = db.Model(&BFRow{}).Create(ms).Error
	}
	if err != nil {
		return "error"
	}
	keys := make([]interface{}, in.N)
	for i := 0; i < in.N; i++ {
		if v, ok := ms[i]["id"]; ok {
			keys[i] = v
		}
	}
	return []interface{}{keys, len(ms)}
}

func c03MapsSuite(r *Result, rng *rand.Rand, tier string) {
	var ins []c03MapsInput
	var ops [][]interface{}
	for _, ret := range []bool{true, false} {
		for _, ptr := range []bool{true, false} {
			for n := 1; n <= 5; n++ {
				in := c03MapsInput{ret, ptr, int64(rng.Intn(3) * (1 + rng.Intn(30))), n}
				ins = append(ins, in)
				ops = append(ops, []interface{}{"c03.createmaps", ret, ptr, in.Max, n})
			}
		}
	}
	outs, err := AskLean(ops)
	if err != nil {
		r.Violate(Violation{Kind: "correspondence", Suite: "create-maps", Note: err.Error()})
		return
	}
	for i, in := range ins {
		real := c03RunMaps(in)
		r.CorrCompared++
		r.Case("create-maps", canon(in), in.N > 1)
		r.H("create-maps", fmt.Sprintf("returning=%v ptr=%v", in.Returning, in.Ptr))
		if canon(real) != canonRaw(outs[i]) {
			r.Violate(Violation{Kind: "correspondence", Suite: "create-maps", Input: in, Observed: real, Expected: json.RawMessage(outs[i]),
				Note: "Create from a slice of maps differs from Model.Scan.createMaps"})
		}
	}
}

// ---- e2e: Create from a slice of maps on a bare table (no model ⇒ LastInsertId arithmetic, key stored as "@id"),
// with nil "placeholder" entries (each of them is a row of NULLs / defaults and consumes a key) ----
type c03MapsTableInput struct {
	Stock   bool   `json:"stock_dialector"`
	Ptr     bool   `json:"ptr"`
	Max     int64  `json:"max"`
	Present []bool `json:"present"` // false = nil map
}

func c03RunMapsTable(in c03MapsTableInput) (bad []string) {
	db, sqlDB := c03Open(in.Stock, nil)
	defer sqlDB.Close()
	if e := db.AutoMigrate(&BFRow{}); e != nil {
		return []string{"AutoMigrate: " + e.Error()}
	}
	if in.Max > 0 {
		if e := db.Create(&BFRow{ID: in.Max, P: "seed"}).Error; e != nil {
			return []string{"seed row: " + e.Error()}
		}
	}
	ms := make([]map[string]interface{}, len(in.Present))
	for i, p := range in.Present {
		if p {
			ms[i] = map[string]interface{}{"p": fmt.Sprint("m", i)}
		}
	}
	var err error
	if in.Ptr {
		err = db.Table("bf_rows").Create(&ms).Error
	} else {
		err = db.Table("bf_rows").Create(ms).Error
	}
	if err != nil {
		return []string{"Create: " + err.Error()}
	}
	if len(ms) != len(in.Present) {
		bad = append(bad, fmt.Sprintf("Create changed the length of the caller's slice: %d -> %d", len(in.Present), len(ms)))
	}
	var cnt int64
	db.Table("bf_rows").Where("p IS NULL OR p <> ?", "seed").Count(&cnt)
	if int(cnt) != len(in.Present) {
		bad = append(bad, fmt.Sprintf("%d rows written for %d slice entries", cnt, len(in.Present)))
	}
	for i, p := range in.Present {
		if !p || i >= len(ms) {
			continue
		}
		var id int64
		db.Raw("SELECT id FROM bf_rows WHERE p = ?", fmt.Sprint("m", i)).Scan(&id)
		got, ok := ms[i]["@id"]
		if !ok {
			bad = append(bad, fmt.Sprintf("map %d carries no @id after Create (its row has id %d)", i, id))
		} else if fmt.Sprint(got) != fmt.Sprint(id) {
			bad = append(bad, fmt.Sprintf("map %d carries @id=%v but its data is stored in row id=%d", i, got, id))
		}
	}
	return bad
}

func c03MapsTableSuite(r *Result, rng *rand.Rand, tier string) {
	n := 120
	if tier == "thorough" {
		n = 2000
	}
	for i := 0; i < n && !expired(); i++ {
		in := c03MapsTableInput{Stock: rng.Intn(2) == 0, Ptr: rng.Intn(2) == 0, Max: int64(rng.Intn(3) * (1 + rng.Intn(30)))}
		ln := 1 + rng.Intn(7)
		nils := rng.Intn(3) // 0: none, 1: few, 2: many
		for j := 0; j < ln; j++ {
			in.Present = append(in.Present, !(nils > 0 && rng.Intn(4-nils) == 0))
		}
		in.Present[rng.Intn(ln)] = true // at least one real map (an all-nil slice has no columns)
		hasNil := false
		for _, p := range in.Present {
			hasNil = hasNil || !p
		}
		r.H("maps-table.nil-entries", fmt.Sprint(hasNil))
		r.H("maps-table.len", fmt.Sprint(ln))
		r.Case("maps-table", canon(in), ln > 1)
		if bad := c03RunMapsTable(in); len(bad) > 0 {
			r.H("maps-table.verdict", "violation")
			r.Violate(Violation{Kind: "e2e", Suite: "maps-table", Input: in, Observed: bad, Expected: "every map carries (as @id) the key of the row that stores its data"})
		} else {
			r.H("maps-table.verdict", "ok")
		}
	}
}

func init() {
	register("C03", c03MapsTableSuite)
	replayers["C03/maps-table"] = func(r *Result, input json.RawMessage) {
		var in c03MapsTableInput
		if json.Unmarshal(input, &in) != nil {
			return
		}
		if bad := c03RunMapsTable(in); len(bad) > 0 {
			r.Violate(Violation{Kind: "e2e", Suite: "maps-table", Input: in, Observed: bad})
		}
	}
	register("C03", c03MapsSuite)
	replayers["C03/create-maps"] = func(r *Result, input json.RawMessage) { r.Note("create-maps replays are correspondence-only") }
	register("C03", c03LoopSuite)
	register("C03", c03DBSuite)
	replayers["C03/backfill-db"] = func(r *Result, input json.RawMessage) {
		var in c03DBInput
		if json.Unmarshal(input, &in) != nil {
			return
		}
		c03JudgeDB(r, in, nil)
	}
	replayers["C03/backfill-loops"] = func(r *Result, input json.RawMessage) {
		r.Note("backfill-loops replays are correspondence-only")
	}
}
