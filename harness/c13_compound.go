package main

// C13 compound suite: oracle + generator over the world of c13_world.go.
//
// What is judged (only what the property text states):
//   R1  no hook fires twice for one in-memory record during one operation (any table, any op)
//   R2  per record the write hooks are nothing, or exactly BeforeSave,BeforeCreate|BeforeUpdate,AfterCreate|AfterUpdate,
//       AfterSave (one flavour), or BeforeDelete,AfterDelete -- in that order, with the record's statement between
//       the before- and the after-hooks
//   R3  the records the operation is applied to (and associated records gorm auto-saves when nothing is
//       Select-ed/Omit-ted) get their hooks; AfterFind once per loaded record (incl. preloaded ones)
//   R4  every hook's `tx` is on the connection pool/transaction of its own statement, all write hooks of one
//       operation share ONE transaction, it is a transaction unless SkipDefaultTransaction, and at the driver
//       every hook runs inside a begin..commit window and all writes of the operation lie in one window
//       (latitude: Save of a single struct with a non-zero key without matching row uses a second window for
//       the hook-less upsert)
//   R5  values set by before-hooks are the values stored (direct assignment, SetColumn, counter)
//   R6  SkipHooks session / UpdateColumn(s): no hook at all, children included
//   F   failing hook invocation k of the failure-free run S: the error is returned, the log is S[0..k] followed
//       only by hooks of the SAME phase (same table, same before/after class, contiguous in S) for the remaining
//       records, no statement after k, and all table dumps equal the dumps before the operation
//   FS  failing k-th write statement: error returned, dumps unchanged (one transaction)
// Latitudes: flavour of Save over slices / missing keys is free (create or update); associated records under
// Select/Omit may or may not be saved (all-or-nothing per record); the blank model value gorm uses to delete
// Select-ed associations is an in-memory record of its own.

import (
	"encoding/json"
	"fmt"
	"math/rand"
	"reflect"
	"strings"
)

var c13xBefore = map[string]bool{"BeforeSave": true, "BeforeCreate": true, "BeforeUpdate": true, "BeforeDelete": true}

func c13xClass(k string) string {
	switch {
	case strings.HasPrefix(k, "stmt:"):
		return "stmt"
	case k == "AfterFind":
		return "find"
	case c13xBefore[k]:
		return "before"
	}
	return "after"
}

type c13xReq struct {
	Write string // "" = free (well-formed), none, create, update, either, delete
	Find  string // "" = free (at most once), no, once
}

func c13xTopNames(c c13xCase) []string {
	n := c.N
	if c.Shape == "single" {
		n = 1
	}
	var out []string
	for i := 0; i < n; i++ {
		out = append(out, c13xName(i))
	}
	return out
}

// c13xSpec: which records must (not) get which hooks -- written from the property text, not from gorm.
func c13xSpec(c c13xCase) map[string]c13xReq {
	req := map[string]c13xReq{}
	kids := func(p string, r c13xReq) {
		req["hxkid/"+p+"k0"] = r
		req["hxkid/"+p+"k1"] = r
	}
	switch c.Op {
	case "create", "save":
		for i, p := range c13xTopNames(c) {
			w := "create"
			if c.Op == "save" {
				k := "zero"
				if i < len(c.Keys) {
					k = c.Keys[i]
				}
				switch {
				case c.Shape != "single":
					w = "either"
				case k == "existing":
					w = "update"
				case k == "missing":
					w = "either"
				}
			}
			req["hxparent/"+p] = c13xReq{w, "no"}
			child := c13xReq{"create", "no"}
			if c.Sel == "omit:assoc" {
				child = c13xReq{"none", "no"}
			} else if c.Sel != "" && c.Sel != "select:*" {
				child = c13xReq{"", "no"}
			}
			if c.Assoc == "kids" || c.Assoc == "both" {
				kids(p, child)
			}
			if c.Assoc == "boss" || c.Assoc == "both" {
				req["hxboss/"+p+"b"] = child
			}
		}
	case "firstorcreate":
		if c.Keys[0] == "existing" {
			w := "none"
			if c.Sel == "assign" {
				w = "update"
			}
			req["hxparent/p0"] = c13xReq{w, "once"}
		} else {
			req["hxparent/p0"] = c13xReq{"create", "no"}
		}
		req["hxparent/other"] = c13xReq{"none", "no"}
	case "updates":
		for _, p := range c13xTopNames(c) {
			req["hxparent/"+p] = c13xReq{"update", "no"}
		}
	case "delete":
		for _, p := range c13xTopNames(c) {
			req["hxparent/"+p] = c13xReq{"delete", "no"}
		}
	case "find":
		var loaded []string
		switch {
		case c.N == 0:
		case c.Via == "first" || c.Via == "take":
			loaded = []string{c13xName(0)}
		case c.Via == "last":
			loaded = []string{c13xName(c.N - 1)}
		default:
			for i := 0; i < c.N; i++ {
				loaded = append(loaded, c13xName(i))
			}
		}
		isLoaded := map[string]bool{}
		for _, p := range loaded {
			isLoaded[p] = true
		}
		for i := 0; i < c.N; i++ {
			p := c13xName(i)
			pk, pb := strings.Contains(c.Sel, "Kids") || c.Sel == "preload:assoc", strings.Contains(c.Sel, "Boss") || c.Sel == "preload:assoc"
			f := c13xReq{"none", "no"}
			if isLoaded[p] {
				f = c13xReq{"none", "once"}
			}
			req["hxparent/"+p] = f
			if pk && isLoaded[p] {
				kids(p, c13xReq{"none", "once"})
			} else {
				kids(p, c13xReq{"none", "no"})
			}
			if pb && isLoaded[p] {
				req["hxboss/"+p+"b"] = c13xReq{"none", "once"}
			} else {
				req["hxboss/"+p+"b"] = c13xReq{"none", "no"}
			}
		}
	}
	return req
}

var c13xSeqs = map[string][]string{
	"create": {"BeforeSave", "BeforeCreate", "AfterCreate", "AfterSave"},
	"update": {"BeforeSave", "BeforeUpdate", "AfterUpdate", "AfterSave"},
	"delete": {"BeforeDelete", "AfterDelete"},
}

func c13xFlavour(seq []string) string {
	for f, s := range c13xSeqs {
		if reflect.DeepEqual(seq, s) {
			return f
		}
	}
	return ""
}

// rules that hold for every run, failing or not: R1, R4
func c13xAlways(c c13xCase, obs c13xObs) string {
	seen := map[string]bool{}
	for _, e := range obs.Events {
		if e.isStmt() {
			continue
		}
		if seen[e.short()] {
			return "R1: hook fired more than once for one record in one operation: " + e.short()
		}
		seen[e.short()] = true
	}
	if c.Ctx == "skipdefault" {
		return ""
	}
	pool := -1
	for _, e := range obs.Events {
		if e.isStmt() || e.Kind == "AfterFind" {
			continue
		}
		if !e.IsTx {
			return "R4: hook " + e.short() + " received a tx that is not on a transaction"
		}
		if pool >= 0 && e.Pool != pool {
			return "R4: write hooks of one operation ran on different transactions (" + e.short() + ")"
		}
		pool = e.Pool
	}
	wins := map[int]bool{}
	for _, w := range obs.Writes {
		if w < 0 {
			return "R4: a write statement of the operation was sent outside any transaction"
		}
		wins[w] = true
	}
	max := 1
	if c.Op == "save" && c.Shape == "single" && len(c.Keys) > 0 && c.Keys[0] == "missing" {
		max = 2
	}
	if len(wins) > max {
		return fmt.Sprintf("R4: the writes of one operation were spread over %d driver transactions", len(wins))
	}
	return ""
}

// c13xOracleOK judges a failure-free run.
func c13xOracleOK(c c13xCase, obs c13xObs) string {
	if obs.Err != "" && !(c.Op == "find" && c.N == 0 && obs.Err == "record not found") {
		return "unexpected error: " + obs.Err
	}
	if c.Skip != "" {
		for _, e := range obs.Events {
			if !e.isStmt() {
				return "R6: hook " + e.short() + " fired although SkipHooks / a column-update method was used"
			}
		}
		return ""
	}
	if v := c13xAlways(c, obs); v != "" {
		return v
	}
	// per record sequences
	type recInfo struct {
		write, find []int // indices into obs.Events
	}
	recs := map[string]*recInfo{}
	var order []string
	for i, e := range obs.Events {
		if e.isStmt() {
			continue
		}
		k := e.Table + "/" + e.Name
		if recs[k] == nil {
			recs[k] = &recInfo{}
			order = append(order, k)
		}
		if e.Kind == "AfterFind" {
			recs[k].find = append(recs[k].find, i)
		} else {
			recs[k].write = append(recs[k].write, i)
		}
	}
	req := c13xSpec(c)
	for k := range req {
		if recs[k] == nil {
			recs[k] = &recInfo{}
			order = append(order, k)
		}
	}
	flavours := map[string]string{}
	for _, k := range order {
		ri := recs[k]
		table := strings.SplitN(k, "/", 2)[0]
		var seq []string
		for _, i := range ri.write {
			seq = append(seq, obs.Events[i].Kind)
		}
		fl := c13xFlavour(seq)
		flavours[k] = fl
		if len(seq) > 0 && fl == "" {
			return fmt.Sprintf("R2: record %s saw hooks %v, not a documented sequence", k, seq)
		}
		switch r := req[k]; r.Write {
		case "none":
			if len(seq) > 0 {
				return fmt.Sprintf("R3: record %s is not written by this operation but saw %v", k, seq)
			}
		case "create", "update", "delete":
			if fl != r.Write {
				return fmt.Sprintf("R3: record %s must see the %s hooks %v exactly once, saw %v", k, r.Write, c13xSeqs[r.Write], seq)
			}
		case "either":
			if fl != "create" && fl != "update" {
				return fmt.Sprintf("R3: record %s must see BeforeSave, BeforeCreate|BeforeUpdate, AfterCreate|AfterUpdate, AfterSave exactly once, saw %v", k, seq)
			}
		}
		switch r := req[k]; r.Find {
		case "no":
			if len(ri.find) > 0 {
				return fmt.Sprintf("R3: AfterFind fired for %s which this operation did not load", k)
			}
		case "once":
			if len(ri.find) != 1 {
				return fmt.Sprintf("R3: AfterFind fired %d times for loaded record %s", len(ri.find), k)
			}
		}
		// the statement lies between before- and after-hooks, on the same pool
		if fl != "" {
			half := len(ri.write) / 2
			lo, hi := ri.write[half-1], ri.write[half]
			found := false
			for i := lo + 1; i < hi; i++ {
				e := obs.Events[i]
				if e.Kind == "stmt:"+fl && e.Table == table {
					found = true
					if c.Ctx != "skipdefault" && e.Pool != obs.Events[lo].Pool {
						return fmt.Sprintf("R4: hooks of %s ran on another connection/transaction than their statement", k)
					}
				}
			}
			if !found {
				return fmt.Sprintf("R2: the %s statement of %s does not lie between its before- and after-hooks", fl, k)
			}
		}
		for _, i := range ri.find {
			ok := false
			for j := i - 1; j >= 0; j-- {
				if e := obs.Events[j]; e.Kind == "stmt:query" && e.Table == table {
					ok = e.Pool == obs.Events[i].Pool
					break
				}
			}
			if !ok {
				return fmt.Sprintf("R4: AfterFind of %s did not follow a query of its table on the same connection", k)
			}
		}
	}
	if c.Via == "take" {
		// no order requested: exactly one parent is loaded (the spec above names p0, SQLite scans in rowid order)
	}
	// R5 stored values (only when nothing is Select-ed/Omit-ted)
	if c.Sel == "" || c.Op == "firstorcreate" {
		for _, k := range order {
			fl := flavours[k]
			parts := strings.SplitN(k, "/", 2)
			table, name := parts[0], parts[1]
			if fl == "" || fl == "delete" || name == "" {
				continue
			}
			row, was := c13xRow(obs.After[table], name), c13xRow(obs.Before[table], name)
			if row == nil {
				return fmt.Sprintf("R5: %s saw %s hooks without error but no row is stored", k, fl)
			}
			if fl == "create" && was == nil {
				if row[2] != "direct:"+name || row[3] != "setcolumn:"+name || row[4] != "1" {
					return fmt.Sprintf("R5: values set by the before-hooks of %s are not the values stored: %v", k, row)
				}
			}
			if c.Op == "save" && table == "hxparent" && row[4] != "1" {
				return fmt.Sprintf("R5: BeforeSave's counter for %s stored as %s, want 1", k, row[4])
			}
			if fl == "update" && c.Shape == "single" && table == "hxparent" && (c.Op == "updates" || c.Op == "save") {
				if row[3] != "updhook:"+name {
					return fmt.Sprintf("R5: value set through SetColumn in BeforeUpdate of %s is not the value stored: %v", k, row)
				}
			}
		}
	}
	return ""
}

func c13xRow(rows []string, name string) []string {
	for _, r := range rows {
		p := strings.Split(r, "|")
		if len(p) >= 6 && p[1] == name {
			return p
		}
	}
	return nil
}

// c13xOracleFail judges a run with an injected failure against the failure-free run `base` of the same case.
func c13xOracleFail(c c13xCase, obs c13xObs, base c13xObs) string {
	if v := c13xAlways(c, obs); v != "" {
		return v
	}
	if c.FailStmt > 0 {
		if !strings.Contains(obs.Err, c13xErrInjected.Error()) {
			return "FS: statement error not returned: " + obs.Err
		}
		if c.Ctx != "skipdefault" && !reflect.DeepEqual(obs.Before, obs.After) {
			return "FS: a write statement failed but part of the operation stayed in the database"
		}
		return ""
	}
	if !obs.ErrReturned {
		return "F: hook error not returned: " + obs.Err
	}
	S, F := base.Events, obs.Events
	k := -1
	for i, e := range S {
		if !e.isStmt() && e.short() == c.FailAt {
			k = i
			break
		}
	}
	if k < 0 {
		return ""
	}
	if len(F) <= k || !reflect.DeepEqual(c13xShorts(F[:k+1]), c13xShorts(S[:k+1])) {
		return fmt.Sprintf("F: the events up to the failing hook differ from the failure-free run: %v vs %v", c13xShorts(F), c13xShorts(S[:k+1]))
	}
	// same phase = contiguous hooks of the same table and class after k in S
	var rest []string
	for i := k + 1; i < len(S); i++ {
		if S[i].isStmt() || S[i].Table != S[k].Table || c13xClass(S[i].Kind) != c13xClass(S[k].Kind) {
			break
		}
		rest = append(rest, S[i].short())
	}
	j := 0
	for _, e := range F[k+1:] {
		for j < len(rest) && rest[j] != e.short() {
			j++
		}
		if j == len(rest) {
			return fmt.Sprintf("F: %s ran after %s failed (a later phase of the operation)", e.short(), c.FailAt)
		}
		j++
	}
	if c.Ctx != "skipdefault" && !reflect.DeepEqual(obs.Before, obs.After) {
		return "F: a hook failed but part of the operation stayed in the database"
	}
	return ""
}

// c13xJudge runs a case (and its failure-free base when a fault is injected) and returns the verdict.
func c13xJudge(c c13xCase) (c13xObs, string) {
	obs := c13xRun(c)
	if c.FailAt == "" && c.FailStmt == 0 {
		return obs, c13xOracleOK(c, obs)
	}
	b := c
	b.FailAt, b.FailStmt = "", 0
	return obs, c13xOracleFail(c, obs, c13xRun(b))
}

// ---- generator ----------------------------------------------------------------------------------

var c13xCtxs = []string{"", "usertx", "skipdefault", "prepare", "nested", "prepare-session"}

func c13xCore() []c13xCase {
	var cs []c13xCase
	// CreateInBatches / CreateBatchSize
	for _, n := range []int{2, 3, 5} {
		for b := 1; b <= 3; b++ {
			for i, via := range []string{"inbatches", "session", "config"} {
				sh := []string{"ptrslice", "valslice", "slicevalue"}[(n+b+i)%3]
				cs = append(cs, c13xCase{Op: "create", Via: via, Shape: sh, N: n, Batch: b})
			}
		}
	}
	cs = append(cs, c13xCase{Op: "create", Via: "inbatches", Shape: "single", N: 1, Batch: 2},
		c13xCase{Op: "create", Via: "inbatches", Shape: "ptrslice", N: 4, Batch: 2, Assoc: "both"},
		c13xCase{Op: "create", Via: "inbatches", Shape: "valslice", N: 4, Batch: 3, Assoc: "kids", Ctx: "usertx"},
		c13xCase{Op: "create", Via: "inbatches", Shape: "ptrslice", N: 5, Batch: 2, Ctx: "prepare"},
		c13xCase{Op: "create", Via: "config", Shape: "ptrslice", N: 5, Batch: 2, Ctx: "skipdefault"})
	// plain create with associations
	for _, sh := range []string{"single", "ptrslice", "valslice"} {
		for _, as := range []string{"", "kids", "boss", "both"} {
			for _, sel := range []string{"", "omit:assoc", "select:name,Kids", "omit:tag"} {
				if as == "" && sel != "" {
					continue
				}
				cs = append(cs, c13xCase{Op: "create", Shape: sh, N: 2, Assoc: as, Sel: sel})
			}
		}
	}
	// Save
	for _, key := range []string{"zero", "existing", "missing"} {
		for _, sel := range []string{"", "select:name,tag", "omit:tag", "select:*", "omit:assoc"} {
			for _, as := range []string{"", "both"} {
				cs = append(cs, c13xCase{Op: "save", Shape: "single", N: 1, Keys: []string{key}, Sel: sel, Assoc: as})
			}
		}
		for _, ctx := range c13xCtxs[1:] {
			cs = append(cs, c13xCase{Op: "save", Shape: "single", N: 1, Keys: []string{key}, Ctx: ctx, Assoc: "kids"})
		}
	}
	for _, keys := range [][]string{{"zero", "zero", "zero"}, {"existing", "missing", "existing"}, {"existing", "existing"}, {"missing", "missing"}, {"zero", "existing", "missing"}} {
		for i, sh := range []string{"ptrslice", "valslice"} {
			cs = append(cs, c13xCase{Op: "save", Shape: sh, N: len(keys), Keys: keys, Assoc: []string{"", "kids"}[i]})
		}
	}
	// FirstOrCreate
	for _, key := range []string{"existing", "missing"} {
		for _, sel := range []string{"", "attrs", "assign"} {
			for _, ctx := range []string{"", "usertx"} {
				cs = append(cs, c13xCase{Op: "firstorcreate", Shape: "single", N: 1, Keys: []string{key}, Sel: sel, Ctx: ctx})
			}
		}
	}
	// Updates / Delete over struct and slices, column-update methods
	for _, sh := range []string{"single", "ptrslice", "valslice"} {
		for _, via := range []string{"map", "struct", "update"} {
			cs = append(cs, c13xCase{Op: "updates", Via: via, Shape: sh, N: 3})
		}
		for _, sk := range []string{"updatecolumn", "updatecolumns"} {
			cs = append(cs, c13xCase{Op: "updates", Shape: sh, N: 3, Skip: sk})
		}
		for _, sel := range []string{"", "select:Kids", "select:assoc"} {
			cs = append(cs, c13xCase{Op: "delete", Shape: sh, N: 3, Sel: sel})
		}
	}
	// queries
	for _, n := range []int{0, 1, 3} {
		for _, via := range []string{"find", "first", "take", "last", "batches"} {
			for _, sel := range []string{"", "preload:Kids", "preload:Boss", "preload:assoc"} {
				if n == 0 && sel != "" {
					continue
				}
				cs = append(cs, c13xCase{Op: "find", Via: via, Shape: []string{"valslice", "ptrslice"}[n%2], N: n, Batch: 2, Sel: sel})
			}
		}
	}
	return cs
}

func c13xRandom(rng *rand.Rand, maxN int) c13xCase {
	pick := func(xs ...string) string { return xs[rng.Intn(len(xs))] }
	c := c13xCase{Ctx: pick(c13xCtxs...)}
	switch rng.Intn(7) {
	case 0, 1:
		c.Op, c.Via = "create", pick("inbatches", "session", "config", "inbatches")
		c.Shape = pick("ptrslice", "valslice", "slicevalue")
		c.N, c.Batch = 1+rng.Intn(maxN), 1+rng.Intn(4)
		c.Assoc = pick("", "", "kids", "boss", "both")
	case 2:
		c.Op = "create"
		c.Shape = pick("single", "ptrslice", "valslice")
		c.N = 1 + rng.Intn(maxN)
		c.Assoc = pick("kids", "boss", "both")
		c.Sel = pick("", "", "omit:assoc", "omit:tag", "select:name,Kids", "select:name,tag,Boss", "select:*")
	case 3:
		c.Op = "save"
		c.Shape = pick("single", "single", "ptrslice", "valslice")
		c.N = 1
		if c.Shape != "single" {
			c.N = 1 + rng.Intn(maxN)
		}
		for i := 0; i < c.N; i++ {
			c.Keys = append(c.Keys, pick("zero", "existing", "missing"))
		}
		c.Assoc = pick("", "kids", "boss", "both")
		c.Sel = pick("", "", "select:name,tag", "omit:tag", "select:*", "omit:assoc", "omit:Kids", "select:name,Kids")
	case 4:
		c.Op, c.Shape, c.N = "firstorcreate", "single", 1
		c.Keys = []string{pick("existing", "missing")}
		c.Sel = pick("", "attrs", "assign")
	case 5:
		c.Op = pick("updates", "delete")
		c.Shape = pick("single", "ptrslice", "valslice")
		c.N = 1 + rng.Intn(maxN)
		if c.Op == "updates" {
			c.Via = pick("map", "struct", "update")
		} else {
			c.Sel = pick("", "select:Kids", "select:assoc")
		}
	default:
		c.Op, c.Via = "find", pick("find", "first", "take", "last", "batches")
		c.Shape = pick("ptrslice", "valslice")
		c.N, c.Batch = rng.Intn(maxN+1), 1+rng.Intn(3)
		if c.N > 0 {
			c.Sel = pick("", "preload:Kids", "preload:Boss", "preload:assoc", "preload:Kids,Boss")
		}
	}
	return c
}

func c13xReport(r *Result, c c13xCase, obs c13xObs, v string) {
	if v == "" {
		return
	}
	r.Violate(Violation{Kind: "e2e", Suite: "compound", Input: c, Observed: map[string]interface{}{
		"events": c13xShorts(obs.Events), "err": obs.Err, "before": obs.Before, "after": obs.After,
		"write_windows": obs.Writes, "pools": c13xPools(obs)}, Expected: v})
}

func c13xPools(obs c13xObs) []string {
	var out []string
	for _, e := range obs.Events {
		out = append(out, fmt.Sprintf("%s@%d/%v", e.short(), e.Pool, e.IsTx))
	}
	return out
}

var (
	c13xKindOrder []string
	c13xKindCtr   int
)

func c13xSuite(r *Result, rng *rand.Rand, tier string) {
	maxN, extra, maxFaults := 5, 350, 5
	if tier == "thorough" {
		maxN, extra, maxFaults = 9, 3000, 1000
	} else if tier == "search" {
		maxN, extra, maxFaults = 7, 1500, 12
	}
	cases := c13xCore()
	c13xKindOrder = append([]string{}, c13ErrKinds...)
	rng.Shuffle(len(c13xKindOrder), func(i, j int) { c13xKindOrder[i], c13xKindOrder[j] = c13xKindOrder[j], c13xKindOrder[i] })
	c13xKindCtr = rng.Intn(len(c13xKindOrder))
	for i := 0; i < extra; i++ {
		cases = append(cases, c13xRandom(rng, maxN))
	}
	done := map[string]bool{}
	var tieOps [][]interface{}
	var tieReal []string
	var tieCase []c13xCase
	defer func() {
		outs, err := AskLean(tieOps)
		if err != nil {
			r.Violate(Violation{Kind: "correspondence", Suite: "compound", Note: err.Error()})
			return
		}
		for i, o := range outs {
			r.CorrCompared++
			ok := false
			if tieOps[i][0] == "hooks.batches" {
				ok = canonRaw(o) == tieReal[i]
			} else {
				var alts []json.RawMessage
				_ = json.Unmarshal(o, &alts)
				for _, a := range alts {
					if canonRaw(a) == tieReal[i] {
						ok = true
					}
				}
			}
			r.H("x.tie", fmt.Sprint(tieOps[i][0], "/", tieOps[i][1]))
			if !ok {
				r.Violate(Violation{Kind: "correspondence", Suite: "compound", Input: tieCase[i], Observed: tieReal[i], Expected: canonRaw(o),
					Note: "real parent-table event list is not one of the runs Lean derives from Gen.finishers (runsOf/compoundEvents/batchRanges)"})
			}
		}
	}()
	for i, c := range cases {
		if expired() {
			break
		}
		key := canon(c)
		if done[key] {
			continue
		}
		done[key] = true
		base, v := c13xJudge(c)
		nhooks := 0
		for _, e := range base.Events {
			if !e.isStmt() {
				nhooks++
			}
		}
		r.Case("compound", key, nhooks >= 2 || c.Skip != "")
		r.H("x.op", c.Op+"/"+c.Via)
		r.H("x.shape", c.Shape)
		r.H("x.ctx", "ctx:"+c.Ctx)
		r.H("x.sel", "sel:"+c.Sel)
		r.H("x.assoc", "assoc:"+c.Assoc)
		r.H("x.events", fmt.Sprint(len(base.Events)/8*8, "+"))
		if c.Op == "save" {
			r.H("x.save", c.Shape+":"+strings.Join(c.Keys, ","))
		}
		if len(base.Batches) > 1 {
			r.H("x.batches", fmt.Sprint(len(base.Batches)))
		}
		if i%37 == 0 {
			r.Sample(map[string]interface{}{"input": c, "events": c13xShorts(base.Events)})
		}
		c13xReport(r, c, base, v)
		if op, real := c13xTie(c, base); op != nil {
			tieOps = append(tieOps, op)
			tieReal = append(tieReal, canon(real))
			tieCase = append(tieCase, c)
			if c.Op == "create" && c.Via != "" && c.Shape != "single" {
				tieOps = append(tieOps, []interface{}{"hooks.batches", c.N, c.Batch})
				tieReal = append(tieReal, canon(base.Batches))
				tieCase = append(tieCase, c)
			}
		}
		if v != "" || c.Skip != "" {
			continue
		}
		// the same operation in a SkipHooks session
		sk := c
		sk.Skip = "session"
		o, v2 := c13xJudge(sk)
		r.Case("compound", canon(sk), true)
		r.H("x.kind", "skip")
		c13xReport(r, sk, o, v2)
		// fault points: every hook invocation of the failure-free run (sampled in quick)
		var points []int
		for j, e := range base.Events {
			if !e.isStmt() {
				points = append(points, j)
			}
		}
		if len(points) > maxFaults {
			keep := map[int]bool{points[0]: true, points[len(points)-1]: true}
			// first hook of the last top-level record (a later batch / later record)
			last := c13xName(c.N - 1)
			for _, j := range points {
				if base.Events[j].Name == last {
					keep[j] = true
					break
				}
			}
			for len(keep) < maxFaults {
				keep[points[rng.Intn(len(points))]] = true
			}
			var sel []int
			for _, j := range points {
				if keep[j] {
					sel = append(sel, j)
				}
			}
			points = sel
		}
		for _, j := range points {
			fc := c
			fc.FailAt = base.Events[j].short()
			// the error VALUE rotates through the whole alphabet (c13_errvals.go); hooks of queries have no transaction
			// of their own, so their errors come without writes
			for tries := 0; tries < len(c13ErrKinds); tries++ {
				c13xKindCtr++
				fc.FailErr = c13xKindOrder[c13xKindCtr%len(c13xKindOrder)]
				if !(base.Events[j].Kind == "AfterFind" && c13KindWrites(fc.FailErr)) {
					break
				}
			}
			r.H("x.failerr", strings.SplitN(fc.FailErr, ":", 2)[0])
			o := c13xRun(fc)
			v := c13xOracleFail(fc, o, base)
			r.Case("compound", canon(fc), true)
			r.H("x.kind", "failing-hook")
			r.H("x.failhook", base.Events[j].Kind+"@"+base.Events[j].Table)
			c13xReport(r, fc, o, v)
		}
		// failing write statements: the last one and a random one
		nw := len(base.Writes)
		if nw > 0 && !(c.Op == "save" && c.Shape == "single" && c.Keys[0] == "missing") {
			ks := map[int]bool{nw: true, 1 + rng.Intn(nw): true}
			for _, k := range c13xSortedInts(ks) {
				fc := c
				fc.FailStmt = k
				o := c13xRun(fc)
				v := c13xOracleFail(fc, o, base)
				r.Case("compound", canon(fc), true)
				r.H("x.kind", "failing-statement")
				c13xReport(r, fc, o, v)
			}
		}
	}
}

// ---- correspondence: Lean runsOf/compoundEvents over the regenerated finisher facts vs the real log ------------

// c13xTie returns (lean op, real parent-table event list) for a failure-free, hook-running case, or nil.
func c13xTie(c c13xCase, obs c13xObs) ([]interface{}, [][]interface{}) {
	if c.Skip == "session" || c.FailAt != "" || c.FailStmt != 0 || obs.Err != "" {
		return nil, nil
	}
	fn, n, batch := "", c.N, 0
	hooks := append([]string{}, allHooks...)
	byAppearance := false
	if c.Shape == "single" {
		n = 1
	}
	switch c.Op {
	case "create":
		fn = "DB.Create"
		if c.Via != "" && c.Shape != "single" {
			batch = c.Batch
		}
		if c.Via == "inbatches" {
			fn = "DB.CreateInBatches"
		}
	case "save":
		fn = "DB.Save"
	case "firstorcreate":
		fn = "DB.FirstOrCreate"
		if c.Keys[0] == "missing" {
			hooks = hooks[:len(hooks)-1] // AfterQuery is guarded by RowsAffected > 0 (uninterpreted in the model)
		}
	case "updates":
		fn = "DB.Updates"
		if c.Via == "update" {
			fn = "DB.Update"
		}
		if c.Skip == "updatecolumn" {
			fn = "DB.UpdateColumn"
		} else if c.Skip == "updatecolumns" {
			fn = "DB.UpdateColumns"
		}
	case "delete":
		fn = "DB.Delete"
	case "find":
		byAppearance = true
		switch c.Via {
		case "find":
			fn = "DB.Find"
		case "first":
			fn, n = "DB.First", 1
		case "take":
			fn, n = "DB.Take", 1
		case "last":
			fn, n = "DB.Last", 1
		default:
			return nil, nil
		}
		if c.N == 0 {
			return nil, nil
		}
	}
	real := [][]interface{}{}
	seen := map[string]int{}
	for _, e := range obs.Events {
		if e.Table != "hxparent" {
			continue
		}
		if e.isStmt() {
			real = append(real, []interface{}{"stmt"})
			continue
		}
		idx := 0
		if byAppearance || c.Op == "firstorcreate" {
			if _, ok := seen[e.Name]; !ok {
				seen[e.Name] = len(seen)
			}
			idx = seen[e.Name]
		} else {
			fmt.Sscanf(strings.TrimPrefix(e.Name, "p"), "%d", &idx)
		}
		real = append(real, []interface{}{e.Kind, idx})
	}
	return []interface{}{"hooks.compound", fn, hooks, n, batch}, real
}

func c13xSortedInts(m map[int]bool) []int {
	var out []int
	for k := 0; k < 1<<12; k++ {
		if m[k] {
			out = append(out, k)
		}
		if len(out) == len(m) {
			break
		}
	}
	return out
}

func init() {
	replayers["C13/compound"] = func(r *Result, input json.RawMessage) {
		var c c13xCase
		if json.Unmarshal(input, &c) != nil {
			return
		}
		obs, v := c13xJudge(c)
		r.Case("compound", canon(c), true)
		c13xReport(r, c, obs, v)
	}
}
