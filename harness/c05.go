package main

import (
	"database/sql"
	"errors"
	"fmt"
	"math/rand"
	"reflect"
	"strings"

	"gorm.io/gorm"
	"gorm.io/gorm/clause"
)

// C05: each single write is all-or-nothing under a fault at ANY driver call, reports the failure,
// and leaves no transaction open / no connection checked out.

var errInjected = errors.New("verif: injected driver fault")

type c05Op struct {
	Name  string
	Setup func(db *gorm.DB, rng *rand.Rand) func(db *gorm.DB) error
}

func c05Ops() []c05Op {
	loadFirst := func(db *gorm.DB) *RUser {
		var u RUser
		if err := db.Preload(clause.Associations).First(&u).Error; err != nil {
			panic(err)
		}
		return &u
	}
	return []c05Op{
		{"CreateGraph", func(db *gorm.DB, rng *rand.Rand) func(*gorm.DB) error {
			u := genUser(rng, "a")
			return func(db *gorm.DB) error { c := *u; return db.Create(&c).Error }
		}},
		{"CreateSliceGraph", func(db *gorm.DB, rng *rand.Rand) func(*gorm.DB) error {
			a, b := genUser(rng, "b"), genUser(rng, "c")
			return func(db *gorm.DB) error { x, y := *a, *b; us := []*RUser{&x, &y}; return db.Create(&us).Error }
		}},
		{"CreateInBatches", func(db *gorm.DB, rng *rand.Rand) func(*gorm.DB) error {
			a, b, c := genUser(rng, "d"), genUser(rng, "e"), genUser(rng, "f")
			return func(db *gorm.DB) error { us := []RUser{*a, *b, *c}; return db.CreateInBatches(&us, 2).Error }
		}},
		{"SaveExistingFull", func(db *gorm.DB, rng *rand.Rand) func(*gorm.DB) error {
			u := loadFirst(db)
			return func(db *gorm.DB) error {
				c := *u
				c.Name += "x"
				c.Pets = append(append([]RPet{}, u.Pets...), RPet{Name: "newpet"})
				return db.Session(&gorm.Session{FullSaveAssociations: true}).Save(&c).Error
			}
		}},
		{"SaveNew", func(db *gorm.DB, rng *rand.Rand) func(*gorm.DB) error {
			u := genUser(rng, "g")
			return func(db *gorm.DB) error { c := *u; return db.Save(&c).Error }
		}},
		{"SaveMissingKey", func(db *gorm.DB, rng *rand.Rand) func(*gorm.DB) error {
			return func(db *gorm.DB) error {
				return db.Save(&RUser{ID: 9999, Name: "ghost", Pets: []RPet{{Name: "gp"}}}).Error
			}
		}},
		{"UpdatesWithAssoc", func(db *gorm.DB, rng *rand.Rand) func(*gorm.DB) error {
			u := loadFirst(db)
			return func(db *gorm.DB) error {
				c := RUser{ID: u.ID}
				return db.Model(&c).Updates(RUser{Age: 77, Company: &RCompany{Name: "newco"}, Toys: []RToy{{Name: "nt"}}}).Error
			}
		}},
		{"UpdateSingle", func(db *gorm.DB, rng *rand.Rand) func(*gorm.DB) error {
			return func(db *gorm.DB) error { return db.Model(&RUser{}).Where("age > ?", 0).Update("age", 5).Error }
		}},
		{"DeleteSelectAssoc", func(db *gorm.DB, rng *rand.Rand) func(*gorm.DB) error {
			u := loadFirst(db)
			return func(db *gorm.DB) error {
				c := RUser{ID: u.ID}
				return db.Select("Pets", "Langs", "Profile", "Toys").Delete(&c).Error
			}
		}},
		{"DeleteSoft", func(db *gorm.DB, rng *rand.Rand) func(*gorm.DB) error {
			return func(db *gorm.DB) error { return db.Where("name <> ?", "").Delete(&RPet{}).Error }
		}},
	}
}

type c05World struct {
	db    *gorm.DB
	rec   *Recorder
	sqlDB *sql.DB
	run   func(*gorm.DB) error
}

func c05Build(op c05Op, seed int64) *c05World {
	db, rec, sqlDB := OpenRec(nil)
	if err := db.AutoMigrate(relModels...); err != nil {
		panic(err)
	}
	rng := rand.New(rand.NewSource(seed))
	seedRel(db, rng, 3)
	w := &c05World{db: db, rec: rec, sqlDB: sqlDB}
	w.run = op.Setup(db, rng)
	rec.Reset()
	return w
}

func committedBefore(evs []Event, k int) bool {
	for i := 0; i < k && i < len(evs); i++ {
		if evs[i].Kind == "commit" {
			return true
		}
	}
	return false
}

func faultable(e Event) bool {
	switch e.Kind {
	case "begin", "commit", "exec", "query", "stmt_exec", "stmt_query", "prepare":
		return true
	}
	return false
}

// firingOrder wraps every registered built-in of a pipeline (looked up by the names in facts.json) with a
// recorder that calls the original handler, runs one operation and returns the names in firing order.
func firingOrder(kind string) []string {
	loadBuiltins()
	db, _, sqlDB := OpenRec(nil)
	defer sqlDB.Close()
	if err := db.AutoMigrate(relModels...); err != nil {
		panic(err)
	}
	var fired []string
	p := db.Callback().Create()
	switch kind {
	case "query":
		p = db.Callback().Query()
	case "update":
		p = db.Callback().Update()
	case "delete":
		p = db.Callback().Delete()
	case "row":
		p = db.Callback().Row()
	case "raw":
		p = db.Callback().Raw()
	}
	for _, b := range c17Builtins[kind] {
		name := b.Name
		orig := p.Get(name)
		if orig == nil {
			fired = append(fired, "MISSING:"+name)
			continue
		}
		if err := p.Replace(name, func(d *gorm.DB) { fired = append(fired, name); orig(d) }); err != nil {
			panic(err)
		}
	}
	u := RUser{Name: "x"}
	switch kind {
	case "create":
		db.Create(&u)
	case "query":
		db.First(&u)
	case "update":
		db.Create(&u)
		fired = nil
		db.Model(&u).Update("age", 3)
	case "delete":
		db.Create(&u)
		fired = nil
		db.Delete(&u)
	case "row":
		db.Model(&RUser{}).Row()
	case "raw":
		db.Exec("SELECT 1")
	}
	return fired
}

func init() {
	// correspondence: regenerated pipeline tables (Lean side) vs the order in which the real callbacks fire
	register("C05", func(r *Result, rng *rand.Rand, tier string) {
		kinds := []string{"create", "query", "update", "delete", "row", "raw"}
		var ops [][]interface{}
		for _, k := range kinds {
			ops = append(ops, []interface{}{"gen.pipeline", k})
		}
		outs, err := AskLean(ops)
		if err != nil {
			r.Violate(Violation{Kind: "correspondence", Suite: "pipeline-order", Note: err.Error()})
			return
		}
		for i, k := range kinds {
			real := canon(firingOrder(k))
			r.CorrCompared++
			r.Case("pipeline-order", k, true)
			if real != canonRaw(outs[i]) {
				r.Violate(Violation{Kind: "correspondence", Suite: "pipeline-order", Input: k, Observed: real, Expected: canonRaw(outs[i]),
					Note: "firing order of the real built-in callbacks vs regenerated Gen.pipelines"})
			}
		}
	})
	register("C05", func(r *Result, rng *rand.Rand, tier string) {
		graphs := 30
		if tier == "thorough" {
			graphs = 300
		} else if tier == "search" {
			graphs = 40
		}
		ops := c05Ops()
		for g := 0; g < graphs && !expired(); g++ {
			for _, op := range ops {
				seed := rng.Int63()
				// probe run: how many driver calls does the operation make?
				probe := c05Build(op, seed)
				perr := probe.run(probe.db)
				pevs := probe.rec.Snapshot()
				probe.sqlDB.Close()
				if perr != nil {
					r.Note("probe of %s failed without fault: %v", op.Name, perr)
					continue
				}
				w := c05Build(op, seed)
				dump0 := dumpTables(w.db, w.rec)
				for k := range pevs {
					if !faultable(pevs[k]) {
						continue
					}
					k := k
					w.rec.Reset()
					hit := false
					w.rec.Fault = func(idx int, ev *Event) error {
						if idx == k && faultable(*ev) {
							hit = true
							return errInjected
						}
						return nil
					}
					err := w.run(w.db)
					w.rec.Fault = nil
					evs := w.rec.Snapshot()
					in := map[string]interface{}{"op": op.Name, "graph_seed": seed, "fault_at": k, "fault_event": pevs[k].Kind + " " + trunc(pevs[k].SQL, 60)}
					r.Case("fault", fmt.Sprint(op.Name, k, pevs[k].Kind, trunc(pevs[k].SQL, 40)), hit)
					r.H("op", op.Name)
					r.H("fault_kind", pevs[k].Kind)
					if !hit {
						r.H("fault_not_reached", op.Name)
						continue
					}
					verdict := ""
					dump1 := dumpTables(w.db, w.rec)
					switch {
					case err == nil:
						verdict = "operation reported no error although a driver call failed"
					case !strings.Contains(err.Error(), errInjected.Error()):
						verdict = "result error does not mention the driver failure: " + err.Error()
					case !reflect.DeepEqual(dump0, dump1):
						verdict = "database changed although the operation failed"
					case w.rec.OpenTx != 0:
						verdict = fmt.Sprintf("%d transaction(s) left open", w.rec.OpenTx)
					case w.sqlDB.Stats().InUse != 0:
						verdict = fmt.Sprintf("%d connection(s) left checked out", w.sqlDB.Stats().InUse)
					}
					if (g*31+k)%97 == 0 {
						r.Sample(map[string]interface{}{"input": in, "events": evKinds(evs), "error": fmt.Sprint(err)})
					}
					if verdict != "" && op.Name == "SaveMissingKey" && listed("F17-C05-save-two-phase") && committedBefore(pevs, k) &&
						strings.HasPrefix(verdict, "database changed") {
						// Save(value whose key matches no row): UPDATE phase (with its association upserts) commits in
						// its own transaction before the INSERT phase starts; a fault in the second phase keeps them
						r.KnownFinding("F17-C05-save-two-phase", verdict+" ("+in["fault_event"].(string)+")")
						w.sqlDB.Close()
						w = c05Build(op, seed)
						dump0 = dumpTables(w.db, w.rec)
					} else if verdict != "" {
						r.Violate(Violation{Kind: "e2e", Suite: "fault", Input: in, Observed: map[string]interface{}{"error": fmt.Sprint(err), "events": evKinds(evs), "before": dump0, "after": dump1}, Expected: verdict})
						// rebuild a clean world
						w.sqlDB.Close()
						w = c05Build(op, seed)
						dump0 = dumpTables(w.db, w.rec)
					}
				}
				w.sqlDB.Close()
			}
		}
	})
}
