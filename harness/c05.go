package main

import (
	"context"
	"database/sql"
	"database/sql/driver"
	"encoding/json"
	"errors"
	"fmt"
	"io"
	"math/rand"
	"reflect"
	"strings"
	"sync/atomic"
	"time"

	sqlite3 "github.com/mattn/go-sqlite3"
	"gorm.io/driver/sqlite"
	"gorm.io/gorm"
	"gorm.io/gorm/clause"
	"gorm.io/gorm/logger"
)

// C05: each single write is all-or-nothing under a fault at ANY driver call, reports the failure,
// and leaves no transaction open / no connection checked out.
//
// Dimensions varied by the "fault" suite (see c05Scenario):
//   op     10 write operations over generated record graphs of the relation family (c05Ops) + 12 over the C05S
//          family (c05SOps, c05_sfam.go): every association upsert kind with its own conflict clause (belongs-to and
//          many2many elements DO NOTHING, has-one / has-many / polymorphic DO UPDATE, join rows), generated and
//          application keys (query path with RETURNING vs exec path), FullSaveAssociations on/off, association
//          values that exist already, user ON CONFLICT clauses, Update / Delete with RETURNING
//   where  the handle the operation runs on: plain / ctx-bound / TranslateError with a wrapping translator /
//          PrepareStmt / inside a user transaction (Begin … Commit|Rollback) / inside a Transaction block /
//          SkipDefaultTransaction (premise "default settings" does not hold: only "error reported" and
//          "nothing left open" are demanded)
//   mech   how the k-th driver call fails: "inject" (the driver call returns a chosen error VALUE) or "cancel"
//          (the operation's context is cancelled while the k-th call is made, so database/sql itself produces
//          the failure of the following statement / of the COMMIT: context.Canceled or sql.ErrTxDone)
//   err    the error value (c05ErrAlphabet): generic, well-known sentinels that code may special-case, wrapped
//          sentinels, driver-specific values, an error with an empty message
//   at     every driver-call index (BEGIN, every statement, PREPARE, COMMIT) and every later STAGE of a statement
//          (c05_stage.go): Rows.Next per row incl. the call after the last row (seen by gorm only in rows.Err()),
//          Rows.Close, Result.RowsAffected, Result.LastInsertId; "inject-post" = the call takes effect, then fails
//   real   genuine failures raised by SQLite while a statement is stepped: mech "trigger" (a RAISE(ABORT) trigger on
//          every table – association and join tables included – refuses the n-th inserted / updated / deleted row),
//          mech "poison" (the n-th record of the graph carries a value refused by a CHECK / NOT NULL constraint)
//
//   encl   the ENCLOSING CONTEXT of the write (round 4): own suite `enclosed`, c05_encl.go – the caller continues in his
//          transaction after the failed write and commits; `where` above only covers callers that roll back
//
// Oracle (only what the property text states):
//   * an injected failure of BEGIN / a statement / COMMIT must surface in the returned error (text of the
//     injected value contained in err.Error() – AddError joins several errors textually);
//   * err != nil  =>  every table is exactly as before;      err == nil  =>  the tables equal the fully applied
//     state (taken from a fault-free run on an identical world) – "applies completely or leaves the database
//     exactly as it was"; err == nil is only acceptable where no driver call was made to fail (cancel mechanism
//     when the cancellation came too late, driver.ErrBadConn retried away by database/sql);
//   * afterwards no driver-level transaction is open and no connection is checked out (database/sql finishes
//     a transaction whose context was cancelled asynchronously: the judge waits up to 5 s for that).

var errInjected = errors.New("verif: injected driver fault")

// c05EmptyErr: a non-nil error with an empty message that unwraps to nil
type c05EmptyErr struct{}

func (c05EmptyErr) Error() string { return "" }
func (c05EmptyErr) Unwrap() error { return nil }

type c05NamedErr struct {
	Name string
	Err  error
}

// c05ErrAlphabet: values a driver call may fail with.  Index 0 is the generic one.
var c05ErrAlphabet = []c05NamedErr{
	{"generic", errInjected},
	{"sql.ErrTxDone", sql.ErrTxDone},
	{"sql.ErrConnDone", sql.ErrConnDone},
	{"sql.ErrNoRows", sql.ErrNoRows},
	{"driver.ErrBadConn", driver.ErrBadConn},
	{"context.Canceled", context.Canceled},
	{"context.DeadlineExceeded", context.DeadlineExceeded},
	{"io.EOF", io.EOF},
	{"io.ErrUnexpectedEOF", io.ErrUnexpectedEOF},
	{"gorm.ErrRecordNotFound", gorm.ErrRecordNotFound},
	{"gorm.ErrInvalidTransaction", gorm.ErrInvalidTransaction},
	{"gorm.ErrDuplicatedKey", gorm.ErrDuplicatedKey},
	{"gorm.ErrMissingWhereClause", gorm.ErrMissingWhereClause},
	{"gorm.ErrDryRunModeUnsupported", gorm.ErrDryRunModeUnsupported},
	{"wrapped(sql.ErrTxDone)", fmt.Errorf("c05 wrap: %w", sql.ErrTxDone)},
	{"wrapped(driver.ErrBadConn-text)", errors.New("c05: " + driver.ErrBadConn.Error())},
	{"wrapped(context.Canceled)", fmt.Errorf("c05 wrap: %w", context.Canceled)},
	{"wrapped(gorm.ErrRecordNotFound)", fmt.Errorf("c05 wrap: %w", gorm.ErrRecordNotFound)},
	{"sqlite3.ErrBusy", sqlite3.Error{Code: sqlite3.ErrBusy}},
	{"sqlite3.ErrConstraintUnique", sqlite3.Error{Code: sqlite3.ErrConstraint, ExtendedCode: sqlite3.ErrConstraintUnique}},
	{"sqlite3.ErrInterrupt", sqlite3.Error{Code: sqlite3.ErrInterrupt}},
	{"empty-message", c05EmptyErr{}},
}

func c05ErrByName(n string) (c05NamedErr, bool) {
	for _, e := range c05ErrAlphabet {
		if e.Name == n {
			return e, true
		}
	}
	return c05NamedErr{}, false
}

var c05Wheres = []string{"plain", "ctx", "translate", "prepare", "usertx", "block", "skipdefault"}

// c05Translated: what the wrapping translator turns an injected value into ("a commit error wrapped by the
// dialector's Translate"); every other error passes through unchanged, as real translators do
type c05Translated struct{ inner error }

func (e c05Translated) Error() string { return "c05-translated(" + e.inner.Error() + ")" }
func (e c05Translated) Unwrap() error { return e.inner }

type c05Dialector struct{ sqlite.Dialector }

func (d c05Dialector) Translate(err error) error {
	for _, e := range c05ErrAlphabet {
		if reflect.TypeOf(err).Comparable() && reflect.TypeOf(e.Err).Comparable() && err == e.Err && err != gorm.ErrInvalidTransaction {
			return c05Translated{err}
		}
	}
	return err
}

type c05Op struct {
	Name  string
	Setup func(db *gorm.DB, rng *rand.Rand) func(db *gorm.DB) error
}

// c05Fam: "" = relation family of models.go, "s" = C05S… family (c05_sfam.go)
func c05Fam(op c05Op) string {
	if c05SOpNames[op.Name] {
		return "s"
	}
	return ""
}

func c05Ops() []c05Op {
	loadFirst := func(db *gorm.DB) *RUser {
		var u RUser
		if err := db.Preload(clause.Associations).First(&u).Error; err != nil {
			panic(err)
		}
		return &u
	}
	return []c05Op{
		{"CreateGraph", func(db *gorm.DB, rng *rand.Rand) func(*gorm.DB) error {
			u := genUser(rng, "a")
			return func(db *gorm.DB) error { c := c05CloneUser(u); return db.Create(c).Error }
		}},
		{"CreateSliceGraph", func(db *gorm.DB, rng *rand.Rand) func(*gorm.DB) error {
			a, b := genUser(rng, "b"), genUser(rng, "c")
			return func(db *gorm.DB) error { us := []*RUser{c05CloneUser(a), c05CloneUser(b)}; return db.Create(&us).Error }
		}},
		{"CreateInBatches", func(db *gorm.DB, rng *rand.Rand) func(*gorm.DB) error {
			n := 3 + rng.Intn(4)
			size := 1 + rng.Intn(3)
			var us []*RUser
			for i := 0; i < n; i++ {
				us = append(us, genUser(rng, fmt.Sprint("d", i)))
			}
			return func(db *gorm.DB) error {
				cp := make([]RUser, len(us))
				for i := range us {
					cp[i] = *c05CloneUser(us[i])
				}
				c05NoteBatches(len(cp), size)
				return db.CreateInBatches(&cp, size).Error
			}
		}},
		{"SaveExistingFull", func(db *gorm.DB, rng *rand.Rand) func(*gorm.DB) error {
			u := loadFirst(db)
			return func(db *gorm.DB) error {
				c := c05CloneUser(u)
				c.Name += "x"
				c.Pets = append(c.Pets, RPet{Name: "newpet"})
				return db.Session(&gorm.Session{FullSaveAssociations: true}).Save(c).Error
			}
		}},
		{"SaveNew", func(db *gorm.DB, rng *rand.Rand) func(*gorm.DB) error {
			u := genUser(rng, "g")
			return func(db *gorm.DB) error { c := c05CloneUser(u); return db.Save(c).Error }
		}},
		{"SaveMissingKey", func(db *gorm.DB, rng *rand.Rand) func(*gorm.DB) error {
			return func(db *gorm.DB) error {
				return db.Save(&RUser{ID: 9999, Name: "ghost", Pets: []RPet{{Name: "gp"}}}).Error
			}
		}},
		{"UpdatesWithAssoc", func(db *gorm.DB, rng *rand.Rand) func(*gorm.DB) error {
			u := loadFirst(db)
			return func(db *gorm.DB) error {
				c := RUser{ID: u.ID}
				return db.Model(&c).Updates(RUser{Age: 77, Company: &RCompany{Name: "newco"}, Toys: []RToy{{Name: "nt"}}}).Error
			}
		}},
		{"UpdateSingle", func(db *gorm.DB, rng *rand.Rand) func(*gorm.DB) error {
			return func(db *gorm.DB) error { return db.Model(&RUser{}).Where("age > ?", 0).Update("age", 5).Error }
		}},
		{"DeleteSelectAssoc", func(db *gorm.DB, rng *rand.Rand) func(*gorm.DB) error {
			u := loadFirst(db)
			return func(db *gorm.DB) error {
				c := RUser{ID: u.ID}
				return db.Select("Pets", "Langs", "Profile", "Toys").Delete(&c).Error
			}
		}},
		{"DeleteSoft", func(db *gorm.DB, rng *rand.Rand) func(*gorm.DB) error {
			return func(db *gorm.DB) error { return db.Where("name <> ?", "").Delete(&RPet{}).Error }
		}},
	}
}

// c05CloneUser: deep copy – gorm writes the generated keys into the records (and the records behind pointers and
// slices) it saves, also when the operation is rolled back afterwards; every run starts from the pristine graph
func c05CloneUser(u *RUser) *RUser {
	b, err := json.Marshal(u)
	if err != nil {
		panic(err)
	}
	var c RUser
	if err := json.Unmarshal(b, &c); err != nil {
		panic(err)
	}
	return &c
}

func c05OpByName(n string) (c05Op, bool) {
	for _, o := range append(append(c05Ops(), c05SOps()...), c05R6Ops()...) {
		if o.Name == n {
			return o, true
		}
	}
	return c05Op{}, false
}

// c05OpenDB: like OpenRec, plus (a) a held keep-alive connection so that the shared in-memory database survives
// connections discarded by database/sql (ErrBadConn, cancelled transactions), (b) the configuration of `where`.
func c05OpenDB(where string) (*gorm.DB, *Recorder, *sql.DB, *sql.Conn) {
	db, rec, sqlDB, keep, _ := c05OpenDBS(where)
	return db, rec, sqlDB, keep
}

// c05OpenDBS: the connection is the stage-aware wrapper of c05_stage.go (ctl switches the stage events on)
func c05OpenDBS(where string) (*gorm.DB, *Recorder, *sql.DB, *sql.Conn, *c05StageCtl) {
	n := atomic.AddInt64(&memCounter, 1)
	dsn := fmt.Sprintf("file:verifmemc05x%d?mode=memory&cache=shared", n)
	rec := &Recorder{}
	ctl := &c05StageCtl{}
	sqlDB := sql.OpenDB(&c05Connector{recConnector: recConnector{dsn: dsn, drv: &sqlite3.SQLiteDriver{}, rec: rec}, ctl: ctl})
	sqlDB.SetMaxIdleConns(4)
	keep, err := sqlDB.Conn(context.Background())
	if err != nil {
		panic(err)
	}
	if err := keep.PingContext(context.Background()); err != nil {
		panic(err)
	}
	cfg := &gorm.Config{Logger: logger.Discard, NowFunc: fixedNowFunc}
	var dial gorm.Dialector = sqlite.Dialector{Conn: sqlDB}
	// "<base>+sp": the dialector whose SavePoint / RollbackTo REPORT the statement's error (c04_run.go spDialector; the
	// stock SQLite dialector – outside /repo – drops it, MySQL / Postgres dialectors report it)
	base := strings.TrimSuffix(where, "+sp")
	if base != where {
		dial = spDialector{sqlite.Dialector{Conn: sqlDB}}
	}
	switch base {
	case "translate":
		cfg.TranslateError = true
		dial = c05Dialector{sqlite.Dialector{Conn: sqlDB}}
	case "prepare":
		cfg.PrepareStmt = true
	case "skipdefault":
		cfg.SkipDefaultTransaction = true
	case "nonested":
		cfg.DisableNestedTransaction = true
	}
	db, err := gorm.Open(dial, cfg)
	if err != nil {
		panic(err)
	}
	return db, rec, sqlDB, keep, ctl
}

type c05World struct {
	where  string
	db     *gorm.DB
	rec    *Recorder
	sqlDB  *sql.DB
	keep   *sql.Conn
	run    func(*gorm.DB) error
	tables []string
	ctl    *c05StageCtl
	snap   bool
}

func (w *c05World) Close() {
	_ = w.keep.Close()
	_ = w.sqlDB.Close()
}

func c05Build(op c05Op, seed int64, where string) *c05World { return c05BuildS(op, seed, where, false) }

// c05BuildS: stages = record (and allow to fail) the stage events of c05_stage.go; every table of the world gets the
// sleeping RAISE(ABORT) triggers
func c05BuildS(op c05Op, seed int64, where string, stages bool) *c05World {
	return c05BuildX(op, c05Fam(op), seed, where, stages, nil, nil)
}

// c05BuildX: fam "" relation family, "s" C05S family, "h" hook family (c05_hooks.go); extra models / tables are added
// to the world (c05_encl.go: marks of the enclosing context, the outer record whose hook issues the write)
func c05BuildX(op c05Op, fam string, seed int64, where string, stages bool, extraModels []interface{}, extraTables []string) *c05World {
	db, rec, sqlDB, keep, ctl := c05OpenDBS(where)
	models, tables := relModels, relTables
	switch fam {
	case "s":
		models = c05SModels
		tables = c05TablesOf(db, models)
	case "h":
		c05Plan = nil
		models, tables = c05HookModels, c05HookTables
	}
	models = append(append([]interface{}{}, models...), extraModels...)
	tables = append(append([]string{}, tables...), extraTables...)
	if err := db.AutoMigrate(models...); err != nil {
		panic(err)
	}
	c05InstallTriggers(db, rec, tables)
	rng := rand.New(rand.NewSource(seed))
	switch fam {
	case "s":
		c05SSeed(db, rng)
	case "h":
		c05HookSeed(db, rng)
	default:
		seedRel(db, rng, 3)
	}
	w := &c05World{where: where, db: db, rec: rec, sqlDB: sqlDB, keep: keep, tables: tables, ctl: ctl}
	w.run = op.Setup(db, rng)
	w.snapshot()
	if stages {
		atomic.StoreInt32(&ctl.on, 1)
	}
	ctl.takeReal()
	rec.Reset()
	return w
}

// exec runs the world's operation on the handle shape of `where`, bound to ctx (nil = no context)
func (w *c05World) exec(ctx context.Context) error {
	h := w.db
	if ctx != nil {
		h = h.WithContext(ctx)
	}
	switch w.where {
	case "usertx":
		tx := h.Begin()
		err := w.run(tx)
		if err != nil {
			tx.Rollback()
			return err
		}
		return tx.Commit().Error
	case "block":
		return h.Transaction(func(tx *gorm.DB) error { return w.run(tx) })
	}
	return w.run(h)
}

func c05DumpTables(db *gorm.DB, rec *Recorder, tables []string) map[string][]string {
	rec.mu.Lock()
	off := rec.Off
	rec.Off = true
	rec.mu.Unlock()
	defer func() { rec.mu.Lock(); rec.Off = off; rec.mu.Unlock() }()
	out := map[string][]string{}
	raw := db.Session(&gorm.Session{NewDB: true, SkipHooks: true, Context: context.Background()})
	for _, t := range tables {
		rows, err := raw.Raw("SELECT * FROM " + t + " ORDER BY 1, 2").Rows()
		if err != nil {
			out[t] = []string{"ERR " + err.Error()}
			continue
		}
		cols, _ := rows.Columns()
		list := []string{}
		for rows.Next() {
			vals := make([]interface{}, len(cols))
			ptrs := make([]interface{}, len(cols))
			for i := range vals {
				ptrs[i] = &vals[i]
			}
			_ = rows.Scan(ptrs...)
			list = append(list, fmt.Sprint(vals...))
		}
		rows.Close()
		out[t] = list
	}
	return out
}

func (w *c05World) dump() map[string][]string { return c05DumpTables(w.db, w.rec, w.tables) }

// quiesce waits (bounded) until database/sql has finished what a cancelled context makes it finish asynchronously
func (w *c05World) quiesce() (openTx int64, inUse int) {
	dl := time.Now().Add(5 * time.Second)
	for {
		openTx = atomic.LoadInt64(&w.rec.OpenTx)
		inUse = w.sqlDB.Stats().InUse - 1 // the keep-alive connection
		if (openTx == 0 && inUse == 0) || time.Now().After(dl) {
			return
		}
		time.Sleep(200 * time.Microsecond)
	}
}

func committedBefore(evs []Event, k int) bool {
	for i := 0; i < k && i < len(evs); i++ {
		if evs[i].Kind == "commit" {
			return true
		}
	}
	return false
}

func faultable(e Event) bool {
	switch e.Kind {
	case "begin", "commit", "exec", "query", "stmt_exec", "stmt_query", "prepare",
		"rows_next", "rows_close", "res_rows", "res_lastid":
		return true
	}
	return false
}

type c05Scenario struct {
	Op    string `json:"op"`
	Seed  int64  `json:"graph_seed"`
	Where string `json:"where"`
	Mech  string `json:"mech"` // inject | inject-post | cancel | trigger | poison
	Err   string `json:"err"`  // name in c05ErrAlphabet (inject)
	At    int    `json:"fault_at"`
	Event string `json:"fault_event,omitempty"`
	// trigger: the N-th row of TrigOp on Table is refused by the table's RAISE(ABORT) trigger;
	// poison: the N-th record of the operation's graph carries a value its table refuses (CHECK / NOT NULL)
	Table  string `json:"table,omitempty"`
	TrigOp string `json:"trig_op,omitempty"`
	N      int    `json:"n,omitempty"`
	Stages bool   `json:"stages,omitempty"` // fault_at counts the stage events of c05_stage.go as well
}

type c05Outcome struct {
	Hit      bool
	Err      error
	Events   []Event
	FaultEv  Event
	Dump     map[string][]string
	OpenTx   int64
	InUse    int
	Verdict  string
	Absorbed bool
	Poisoned bool // poison mechanism: a record of the graph did get the refused value
	Applied  map[string][]string
}

// c05RunOne runs the world's operation once with the scenario's fault and judges it.
func c05RunOne(w *c05World, sc c05Scenario, dump0, applied map[string][]string) c05Outcome {
	var o c05Outcome
	w.rec.Reset()
	w.ctl.takeReal()
	var ctx context.Context
	var cancel context.CancelFunc = func() {}
	if w.where != "plain" || sc.Mech == "cancel" {
		ctx, cancel = context.WithCancel(WithMarker(context.Background(), "c05"))
	}
	defer cancel()
	ne, _ := c05ErrByName(sc.Err)
	natural := sc.Mech == "trigger" || sc.Mech == "poison" // a genuine failure raised by SQLite itself
	wantText := ""
	switch sc.Mech {
	case "trigger":
		wantText = "c05 trigger: " + sc.TrigOp + " on " + sc.Table + " refused"
		if err := w.arm(sc.Table, sc.TrigOp, sc.N); err != nil {
			o.Verdict = "harness: cannot arm trigger: " + err.Error()
			o.Hit = true
			return o
		}
	case "poison":
		wantText = "constraint failed"
		c05PoisonAt = sc.N
		c05PoisonApplied = false
	case "inject-post":
		atomic.StoreInt32(&w.ctl.post, 1)
	}
	retries := 0 // driver.ErrBadConn: database/sql silently retries the call on other connections; fail those too
	if !natural {
		w.rec.Fault = func(idx int, ev *Event) error {
			if !faultable(*ev) {
				return nil
			}
			if idx == sc.At {
				if ev.Kind == "rows_next" && ne.Err == io.EOF && sc.Mech != "cancel" {
					return nil // io.EOF from Next IS the end of the rows: nothing failed
				}
				if ev.Kind == "begin" && ne.Err == gorm.ErrInvalidTransaction && sc.Mech != "cancel" {
					// see c05ErrsFor: gorm's own "already inside a transaction" sentinel is not a driver failure (the
					// call at this index can be a BEGIN although the probe's label was a statement: PrepareStmt
					// worlds prepare less on later runs)
					return nil
				}
				o.Hit = true
				o.FaultEv = *ev
				if sc.Mech == "cancel" {
					cancel()
					return nil
				}
				if ne.Err == driver.ErrBadConn {
					retries = 3
				}
				return ne.Err
			}
			if retries > 0 && idx > sc.At && ev.Kind == o.FaultEv.Kind && ev.SQL == o.FaultEv.SQL {
				retries--
				return ne.Err
			}
			retries = 0
			return nil
		}
	}
	o.Err = w.exec(ctx)
	w.rec.mu.Lock()
	w.rec.Fault = nil
	w.rec.mu.Unlock()
	atomic.StoreInt32(&w.ctl.post, 0)
	c05PoisonAt = -1
	o.Poisoned = c05PoisonApplied
	o.OpenTx, o.InUse = w.quiesce()
	o.Events = w.rec.Snapshot()
	real := w.ctl.takeReal()
	if natural {
		if sc.Mech == "trigger" {
			if err := w.arm("", "", 0); err != nil {
				o.Verdict = "harness: cannot disarm trigger (table locked by a transaction left open?): " + err.Error()
				o.Hit = true
				return o
			}
		}
		for _, e := range real {
			if strings.Contains(e, wantText) {
				o.Hit = true
				o.FaultEv = Event{Kind: sc.Mech, SQL: e}
			}
		}
	}
	if !o.Hit {
		return o
	}
	o.Dump = w.dump()
	same := reflect.DeepEqual(dump0, o.Dump)
	full := applied != nil && reflect.DeepEqual(applied, o.Dump)
	atomicDemanded := w.where != "skipdefault"
	injected := sc.Mech == "inject" || sc.Mech == "inject-post"
	mustReport := c05MustReport(o.FaultEv.Kind)
	switch {
	case injected && mustReport && o.Err == nil && !(ne.Err == driver.ErrBadConn && full):
		o.Verdict = "operation reported no error although a driver call failed with " + sc.Err + " (stage " + o.FaultEv.Kind + ")"
	case injected && mustReport && o.Err != nil && !strings.Contains(o.Err.Error(), ne.Err.Error()):
		o.Verdict = "result error does not mention the driver failure " + sc.Err + ": " + o.Err.Error()
	case natural && o.Err == nil:
		o.Verdict = "operation reported no error although the database refused a statement: " + o.FaultEv.SQL
	case natural && !strings.Contains(o.Err.Error(), wantText):
		o.Verdict = "result error does not mention the statement failure (" + o.FaultEv.SQL + "): " + o.Err.Error()
	case atomicDemanded && o.Err != nil && !same:
		o.Verdict = "database changed although the operation failed"
	case atomicDemanded && o.Err == nil && !full:
		if same {
			o.Verdict = "operation reported success but nothing was stored (its transaction did not commit)"
		} else {
			o.Verdict = "operation reported success but was applied only partially"
			o.Applied = applied
		}
	case o.OpenTx != 0:
		o.Verdict = fmt.Sprintf("%d transaction(s) left open", o.OpenTx)
	case o.InUse != 0:
		o.Verdict = fmt.Sprintf("%d connection(s) left checked out", o.InUse)
	}
	o.Absorbed = o.Err == nil
	return o
}

// c05Probe: fault-free run on an identical world: the events and the fully applied state
func c05Probe(op c05Op, seed int64, where string) (evs []Event, applied map[string][]string, err error) {
	return c05ProbeS(op, seed, where, false)
}

func c05ProbeS(op c05Op, seed int64, where string, stages bool) (evs []Event, applied map[string][]string, err error) {
	p := c05BuildS(op, seed, where, stages)
	defer p.Close()
	var ctx context.Context
	if where != "plain" {
		ctx = WithMarker(context.Background(), "c05")
	}
	err = p.exec(ctx)
	evs = p.rec.Snapshot()
	applied = p.dump()
	return
}

func c05Obs(o c05Outcome, dump0 map[string][]string) map[string]interface{} {
	m := map[string]interface{}{"error": fmt.Sprint(o.Err), "events": evKinds(o.Events), "before": dump0, "after": o.Dump,
		"open_tx": o.OpenTx, "in_use": o.InUse}
	if o.Applied != nil {
		m["fully_applied_would_be"] = o.Applied
	}
	return m
}

// firingOrder wraps every registered built-in of a pipeline (looked up by the names in facts.json) with a
// recorder that calls the original handler, runs one operation and returns the names in firing order.
func firingOrder(kind string) []string {
	loadBuiltins()
	db, _, sqlDB := OpenRec(nil)
	defer sqlDB.Close()
	if err := db.AutoMigrate(relModels...); err != nil {
		panic(err)
	}
	var fired []string
	p := db.Callback().Create()
	switch kind {
	case "query":
		p = db.Callback().Query()
	case "update":
		p = db.Callback().Update()
	case "delete":
		p = db.Callback().Delete()
	case "row":
		p = db.Callback().Row()
	case "raw":
		p = db.Callback().Raw()
	}
	for _, b := range c17Builtins[kind] {
		name := b.Name
		orig := p.Get(name)
		if orig == nil {
			fired = append(fired, "MISSING:"+name)
			continue
		}
		if err := p.Replace(name, func(d *gorm.DB) { fired = append(fired, name); orig(d) }); err != nil {
			panic(err)
		}
	}
	u := RUser{Name: "x"}
	switch kind {
	case "create":
		db.Create(&u)
	case "query":
		db.First(&u)
	case "update":
		db.Create(&u)
		fired = nil
		db.Model(&u).Update("age", 3)
	case "delete":
		db.Create(&u)
		fired = nil
		db.Delete(&u)
	case "row":
		db.Model(&RUser{}).Row()
	case "raw":
		db.Exec("SELECT 1")
	}
	return fired
}

// c05ErrsFor: which error values to try at one driver call.  BEGIN and COMMIT get the whole alphabet (their
// error paths are the ones nothing else exercises); statements get the generic value plus two drawn ones.
func c05ErrsFor(ev Event, rng *rand.Rand, tier string) []c05NamedErr {
	var out []c05NamedErr
	if ev.Kind == "begin" || ev.Kind == "commit" {
		for _, e := range c05ErrAlphabet {
			if ev.Kind == "begin" && e.Err == gorm.ErrInvalidTransaction {
				// callbacks/transaction.go treats exactly this value, coming out of Begin, as "already inside a
				// transaction"; a driver never returns gorm's own sentinel from BeginTx
				continue
			}
			out = append(out, e)
		}
		if tier == "quick" && len(out) > 6 {
			// generic + a rotating window over the sentinels: every value is reached within a few graphs
			rng.Shuffle(len(out)-1, func(i, j int) { out[i+1], out[j+1] = out[j+1], out[i+1] })
			out = out[:6]
		}
		return out
	}
	out = append(out, c05ErrAlphabet[0])
	n := 1
	if tier != "quick" {
		n = 3
	}
	for i := 0; i < n; i++ {
		out = append(out, c05ErrAlphabet[1+rng.Intn(len(c05ErrAlphabet)-1)])
	}
	return out
}

// c05Trials: which (mechanism, error value) pairs to try at one driver-call index
type c05Trial struct{ mech, err string }

func c05TrialsFor(ev Event, rng *rand.Rand, tier string) []c05Trial {
	drawn := func(not ...string) string {
		for {
			n := c05ErrAlphabet[rng.Intn(len(c05ErrAlphabet))].Name
			ok := true
			for _, x := range not {
				if n == x {
					ok = false
				}
			}
			if ok {
				return n
			}
		}
	}
	switch ev.Kind {
	case "rows_next":
		// io.EOF from Next IS the end of the rows, not a failure
		if tier == "quick" {
			ts := []c05Trial{{"inject", "generic"}}
			if rng.Intn(2) == 0 {
				ts[0].err = drawn("io.EOF", "generic")
			}
			if i, _ := ev.Args[0].(int); i == 0 {
				ts = append(ts, []c05Trial{{"cancel", ""}, {"inject-post", "generic"}}[rng.Intn(2)])
			}
			return ts
		}
		return []c05Trial{{"inject", "generic"}, {"inject", drawn("io.EOF", "generic")}, {"cancel", ""}, {"inject-post", "generic"}}
	case "rows_close", "res_rows", "res_lastid":
		ts := []c05Trial{{"inject", "generic"}}
		if tier != "quick" {
			ts = append(ts, c05Trial{"inject", drawn()})
		}
		return ts
	}
	ts := []c05Trial{{"cancel", ""}}
	for _, e := range c05ErrsFor(ev, rng, tier) {
		ts = append(ts, c05Trial{"inject", e.Name})
	}
	switch ev.Kind {
	case "exec", "query", "stmt_exec", "stmt_query":
		ts = append(ts, c05Trial{"inject-post", "generic"})
		if tier == "quick" {
			// generic always; of {cancel, drawn value, post} two per call
			drop := 1 + rng.Intn(3)
			if drop == 1 {
				drop = 0
			}
			ts = append(ts[:drop], ts[drop+1:]...)
		}
	}
	return ts
}

func c05FaultSuite(r *Result, rng *rand.Rand, tier string) {
	graphs := 6
	if tier == "thorough" {
		graphs = 45
	} else if tier == "search" {
		graphs = 10
	}
	ops := append(append(c05Ops(), c05SOps()...), c05R6Ops()...)
	t0 := time.Now()
	worlds, rebuilds, restores := 0, 0, 0
	defer func() {
		r.Note("fault suite: %d worlds, %d table restores and %d rebuilds after an applied/violating run, %.1fs", worlds, restores, rebuilds, time.Since(t0).Seconds())
	}()
	for g := 0; g < graphs && !expired(); g++ {
		for oi, op := range ops {
			seed := rng.Int63()
			where := c05Wheres[(g+oi)%len(c05Wheres)]
			if g == 0 {
				where = "ctx"
			}
			pevs, applied, perr := c05ProbeS(op, seed, where, true)
			if perr != nil {
				r.Note("probe of %s/%s failed without fault: %v", op.Name, where, perr)
				continue
			}
			w := c05BuildS(op, seed, where, true)
			dump0 := w.dump()
			phaseOne := map[int]map[string][]string{} // c05_r6.go: per poison index (-1 = none)
			worlds++
			rebuild := func() {
				if o, i := w.quiesce(); o == 0 && i == 0 && w.restore() == nil && reflect.DeepEqual(dump0, w.dump()) {
					restores++
					return
				}
				rebuilds++
				w.Close()
				w = c05BuildS(op, seed, where, true)
				dump0 = w.dump()
			}
			// judge: record the outcome of one reached fault; returns false when the world had to be rebuilt
			judge := func(sc c05Scenario, o c05Outcome) {
				r.H("op", op.Name)
				r.H("where", where)
				r.H("mech", sc.Mech)
				r.H("fault_kind", o.FaultEv.Kind)
				if sc.Mech == "inject" || sc.Mech == "inject-post" {
					r.H("err_value", sc.Err)
					r.H("err_value@"+o.FaultEv.Kind, sc.Err)
				} else if sc.Mech == "cancel" {
					switch {
					case o.Err == nil:
						r.H("cancel_outcome", "too late: applied")
					case errors.Is(o.Err, sql.ErrTxDone):
						r.H("cancel_outcome", "sql.ErrTxDone")
					case errors.Is(o.Err, context.Canceled):
						r.H("cancel_outcome", "context.Canceled")
					default:
						r.H("cancel_outcome", "other error")
					}
				}
				if c05StageKind(o.FaultEv.Kind) {
					out := "reported"
					if o.Err == nil {
						out = "not visible to the caller: applied"
					}
					r.H("stage_outcome@"+o.FaultEv.Kind, out)
				}
				committed := c05CommittedBefore(o.Events, sc)
				if sc.Mech == "trigger" || sc.Mech == "poison" {
					committed = committedBefore(o.Events, len(o.Events))
				}
				if c05F17Candidate(op.Name, where, o, committed) {
					// Save(value whose key matches no row): UPDATE phase (with its association upserts) commits in
					// its own transaction before the INSERT phase starts; a fault in the second phase keeps them.
					// EXACTLY that is listed: the database must equal the phase-one state (c05_r6.go) - the failed
					// fallback phase itself must have left nothing
					pk := -1
					if sc.Mech == "poison" {
						pk = sc.N
					}
					p1, have := phaseOne[pk]
					if !have {
						rebuild()
						d, ok := c05PhaseOne(w, pk)
						if !ok {
							d = nil
						}
						p1 = d
						phaseOne[pk] = d
					}
					if is, verdict := c05F17Exact(o, p1, p1 != nil); is {
						r.H("save_fallback_fault", "phase-one state kept (F17)")
						r.KnownFinding("F17-C05-save-two-phase", o.Verdict+" ("+o.FaultEv.Kind+")")
					} else {
						obs := c05Obs(o, dump0)
						obs["phase_one_state"] = p1
						r.Violate(Violation{Kind: "e2e", Suite: "fault", Input: sc, Observed: obs, Expected: verdict})
					}
					rebuild()
				} else if o.Verdict != "" {
					r.Violate(Violation{Kind: "e2e", Suite: "fault", Input: sc, Observed: c05Obs(o, dump0), Expected: o.Verdict})
					rebuild()
				} else if !reflect.DeepEqual(dump0, o.Dump) {
					rebuild() // legitimately applied (cancel came too late / skipdefault / stage after the statement)
				}
			}
			// k runs over the driver-call indices of THIS world's run (a PrepareStmt world prepares less on later
			// runs, so the loop ends when the index is no longer reached rather than at the probe's length)
			for k := 0; k < len(pevs)+4; k++ {
				label := Event{Kind: "?"}
				if k < len(pevs) {
					label = pevs[k]
					if !faultable(label) && where != "prepare" {
						continue
					}
				}
				reached := false
				for _, t := range c05TrialsFor(label, rng, tier) {
					sc := c05Scenario{Op: op.Name, Seed: seed, Where: where, Mech: t.mech, Err: t.err, At: k, Stages: true}
					o := c05RunOne(w, sc, dump0, applied)
					sc.Event = o.FaultEv.Kind + " " + trunc(o.FaultEv.SQL, 60)
					r.Case("fault", fmt.Sprint(op.Name, where, t.mech, t.err, o.FaultEv.Kind, trunc(o.FaultEv.SQL, 40)), o.Hit)
					if !o.Hit {
						r.H("fault_not_reached", op.Name)
						if !reflect.DeepEqual(dump0, w.dump()) {
							rebuild()
						}
						continue
					}
					reached = true
					if (g*31+k)%197 == 0 && t.mech == "inject" && t.err == "generic" {
						r.Sample(map[string]interface{}{"input": sc, "events": evKinds(o.Events), "error": fmt.Sprint(o.Err)})
					}
					judge(sc, o)
				}
				if !reached && k >= len(pevs) {
					break
				}
			}
			// genuine failures raised by the database while a statement is stepped: the n-th row written to each
			// table the operation touches is refused by that table's trigger
			pairs, rowsOf := c05Touched(pevs)
			maxN := 3
			if tier != "quick" {
				maxN = 6
			}
			for _, p := range pairs {
				// n beyond the rows the operation writes to the table never fires (and costs a fresh world)
				for n := 1; n <= maxN && n <= rowsOf[p]; n++ {
					sc := c05Scenario{Op: op.Name, Seed: seed, Where: where, Mech: "trigger", Table: p[0], TrigOp: p[1], N: n, Stages: true}
					o := c05RunOne(w, sc, dump0, applied)
					sc.Event = trunc(o.FaultEv.SQL, 80)
					r.Case("fault", fmt.Sprint(op.Name, where, "trigger", p[0], p[1], n), o.Hit)
					if !o.Hit {
						r.H("trigger_not_fired", fmt.Sprint(p[1], " n=", n))
						rebuild()
						break
					}
					r.H("trigger_table_op", p[0]+" "+p[1])
					r.H("trigger_row", fmt.Sprint(n))
					judge(sc, o)
				}
			}
			// a refused VALUE (CHECK / NOT NULL) in the n-th record of the operation's graph
			if c05Fam(op) == "s" {
				for n := 0; n < 40; n++ {
					sc := c05Scenario{Op: op.Name, Seed: seed, Where: where, Mech: "poison", N: n, Stages: true}
					o := c05RunOne(w, sc, dump0, applied)
					sc.Event = trunc(o.FaultEv.SQL, 80)
					r.Case("fault", fmt.Sprint(op.Name, where, "poison", n, trunc(o.FaultEv.SQL, 50)), o.Hit)
					if !o.Hit {
						// beyond the last record, or the record is not written by this operation (conflict branch)
						r.H("poison_not_refused", op.Name)
						changed := !reflect.DeepEqual(dump0, w.dump())
						if changed {
							rebuild()
						}
						if !o.Poisoned {
							break // n is beyond the last record of the graph
						}
						continue
					}
					r.H("poison_failure", trunc(o.FaultEv.SQL, 40))
					judge(sc, o)
				}
			}
			w.Close()
		}
	}
}

// c05CommittedBefore: did a COMMIT succeed before the fault took effect?  (a cancellation raised while the
// COMMIT call itself is made comes too late for that COMMIT)
func c05CommittedBefore(evs []Event, sc c05Scenario) bool {
	k := sc.At
	if sc.Mech == "cancel" {
		k++
	}
	return committedBefore(evs, k)
}

func c05ReplayFault(r *Result, input json.RawMessage) {
	var sc c05Scenario
	if err := json.Unmarshal(input, &sc); err != nil {
		r.Note("bad replay input: %v", err)
		return
	}
	op, ok := c05OpByName(sc.Op)
	if !ok {
		r.Note("unknown op %q", sc.Op)
		return
	}
	_, applied, perr := c05ProbeS(op, sc.Seed, sc.Where, sc.Stages)
	if perr != nil {
		r.Note("probe failed: %v", perr)
	}
	w := c05BuildS(op, sc.Seed, sc.Where, sc.Stages)
	defer func() { w.Close() }()
	dump0 := w.dump()
	// the world of the original run had executed the operation (rolled back) before: prepared-statement caches
	// differ; replay the fault index on a fresh world and, if it is not reached, on a warmed one
	for attempt := 0; attempt < 2; attempt++ {
		o := c05RunOne(w, sc, dump0, applied)
		r.Case("fault", fmt.Sprint(sc), o.Hit)
		if o.Hit {
			committed := c05CommittedBefore(o.Events, sc)
			if sc.Mech == "trigger" || sc.Mech == "poison" {
				committed = committedBefore(o.Events, len(o.Events))
			}
			if c05F17Candidate(sc.Op, sc.Where, o, committed) {
				// the listed F17 pattern exactly (phase-one state kept) is not a violation (c05_r6.go)
				w.Close()
				w = c05BuildS(op, sc.Seed, sc.Where, sc.Stages)
				pk := -1
				if sc.Mech == "poison" {
					pk = sc.N
				}
				p1, ok := c05PhaseOne(w, pk)
				if is, verdict := c05F17Exact(o, p1, ok); !is {
					obs := c05Obs(o, dump0)
					obs["phase_one_state"] = p1
					r.Violate(Violation{Kind: "e2e", Suite: "fault", Input: sc, Observed: obs, Expected: verdict})
				}
				return
			}
			if o.Verdict != "" {
				r.Violate(Violation{Kind: "e2e", Suite: "fault", Input: sc, Observed: c05Obs(o, dump0), Expected: o.Verdict})
			}
			return
		}
	}
}

func init() {
	// correspondence: regenerated pipeline tables (Lean side) vs the order in which the real callbacks fire
	register("C05", func(r *Result, rng *rand.Rand, tier string) {
		kinds := []string{"create", "query", "update", "delete", "row", "raw"}
		var ops [][]interface{}
		for _, k := range kinds {
			ops = append(ops, []interface{}{"gen.pipeline", k})
		}
		outs, err := AskLean(ops)
		if err != nil {
			r.Violate(Violation{Kind: "correspondence", Suite: "pipeline-order", Note: err.Error()})
			return
		}
		for i, k := range kinds {
			real := canon(firingOrder(k))
			r.CorrCompared++
			r.Case("pipeline-order", k, true)
			if real != canonRaw(outs[i]) {
				r.Violate(Violation{Kind: "correspondence", Suite: "pipeline-order", Input: k, Observed: real, Expected: canonRaw(outs[i]),
					Note: "firing order of the real built-in callbacks vs regenerated Gen.pipelines"})
			}
		}
	})
	register("C05", c05FaultSuite)
	replayers["C05/fault"] = c05ReplayFault
}
