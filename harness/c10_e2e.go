package main

// C10 end-to-end oracle (model-free): a 5-row SQLite table is dumped before and after ONE real write and every
// cell is compared with what the PROPERTY text predicts.
//
// What is demanded (and nothing else):
//   * rows not matching (chain condition AND model primary key) never change; a create never changes existing rows;
//   * a column whose field tag denies the kind of write (update: `<-:create`, `<-:false`, `->`, `->:false`, `-`, `-:all`;
//     create: `<-:update`, `<-:false`, `->`, `->:false`, `-`, `-:all`) never changes on an update / holds the column
//     default in a created row / never changes on the conflict row of an upsert;
//   * on targeted rows a column IN the predicted write set holds the given value (or NOW for tracked update-time
//     fields), a column OUTSIDE it is unchanged.  Write set: struct = non-zero fields, map/Update = every given key
//     incl. zero values, Save = all fields; a restricting Select replaces it by the selected fields (zero values
//     included), `*` = all fields, Omit removes; tracked update-time fields are added for hook-running updates unless
//     omitted and are written by UpdateColumn(s) only when given.
// Latitude (accepted either way, the text does not decide): a tracked update-time field that is ALSO given a
// non-zero value in a struct (given value or NOW) / given as nil in a map (NULL or NOW); values of zero-valued or
// default-tagged or auto-time columns in created rows (C03's business); the primary key column of created rows;
// when the write returns an error only the "never changes" demands are judged.
// Updates(dto) with a value of a DIFFERENT struct type: columns the model's tags deny never change; columns only the
// DTO's tags deny are latitude.  Map values may be SQL expressions (gorm.Expr("`col` + ?", 1000)): the cell must hold
// old+1000 when the key is in the write set.  Select/Omit names are spelled as field name, column, `table.column`, `table.*`.
// Explicit clause.OnConflict{DoUpdates} lists name permitted plain columns only: gorm passes caller-supplied
// assignments through verbatim, they are not part of the write set gorm computes.

import (
	"database/sql"
	"encoding/json"
	"fmt"
	"math/rand"
	"reflect"
	"sort"
	"strings"
	"time"

	"gorm.io/gorm"
	"gorm.io/gorm/clause"
)

type c10E struct {
	Case      c10Case  `json:"case"`
	CondIDs   []int    `json:"cond_ids"` // nil = no chain condition
	DoUpdates []string `json:"do_updates"`
}

type c10Info struct {
	F         c10F
	Col       string
	PK        bool
	DenyC     bool
	DenyU     bool
	TrackU    bool
	TrackC    bool
	Milli     bool
	HasDef    bool
	DefExpect string // normalised column default
	DefSQL    string
}

// c10TagPerm: the documented meaning of the permission tags (gorm.io/docs/models.html#Field-Level-Permission)
func c10TagPerm(tag string) (denyC, denyU bool) {
	for _, p := range strings.Split(tag, ";") {
		p = strings.TrimSpace(p)
		switch {
		case p == "-" || p == "-:all":
			return true, true
		case p == "->" || p == "->:false":
			denyC, denyU = true, true
		}
	}
	for _, p := range strings.Split(tag, ";") {
		p = strings.TrimSpace(p)
		switch {
		case p == "<-":
			denyC, denyU = false, false
		case strings.HasPrefix(p, "<-:"):
			denyC, denyU = !strings.Contains(p, "create"), !strings.Contains(p, "update")
		}
	}
	return
}

func c10Infos(db *gorm.DB, s c10Sch) []c10Info {
	out := []c10Info{}
	for i, f := range s.Fields {
		in := c10Info{F: f, PK: i == 0, DefExpect: "<nil>"}
		in.Col = db.NamingStrategy.ColumnName("", f.Name)
		for _, p := range strings.Split(f.Tag, ";") {
			switch {
			case strings.HasPrefix(p, "column:"):
				in.Col = strings.TrimPrefix(p, "column:")
			case strings.HasPrefix(p, "autoUpdateTime"):
				in.TrackU = true
				in.Milli = strings.HasSuffix(p, ":milli")
			case strings.HasPrefix(p, "autoCreateTime"):
				in.TrackC = true
			case strings.HasPrefix(p, "default:"):
				in.HasDef = true
				d := strings.TrimPrefix(p, "default:")
				switch d {
				case "7":
					in.DefSQL, in.DefExpect = "DEFAULT 7", "7"
				case "dd":
					in.DefSQL, in.DefExpect = "DEFAULT 'dd'", "dd"
				case "(abs(-3))":
					in.DefSQL, in.DefExpect = "DEFAULT (abs(-3))", "3"
				case "(lower('XY'))":
					in.DefSQL, in.DefExpect = "DEFAULT (lower('XY'))", "xy"
				}
			}
		}
		if f.Name == "UpdatedAt" {
			in.TrackU = true
		}
		if f.Name == "CreatedAt" {
			in.TrackC = true
		}
		in.DenyC, in.DenyU = c10TagPerm(f.Tag)
		out = append(out, in)
	}
	return out
}

func c10Norm(v interface{}) string {
	switch x := v.(type) {
	case nil:
		return "<nil>"
	case []byte:
		return string(x)
	case time.Time:
		return x.UTC().Format(time.RFC3339)
	}
	return fmt.Sprint(v)
}

type c10Dump struct {
	Old map[int]map[string]string // k_ -> col -> value
	New []map[string]string       // rows with k_ NULL in primary-key order
}

func c10DumpTable(sqlDB *sql.DB, pkcol string) c10Dump {
	d := c10Dump{Old: map[int]map[string]string{}}
	rows, err := sqlDB.Query("SELECT * FROM " + c10Table + " ORDER BY `" + pkcol + "`")
	if err != nil {
		panic(err)
	}
	defer rows.Close()
	cols, _ := rows.Columns()
	for rows.Next() {
		vals := make([]interface{}, len(cols))
		ptrs := make([]interface{}, len(cols))
		for i := range vals {
			ptrs[i] = &vals[i]
		}
		if err := rows.Scan(ptrs...); err != nil {
			panic(err)
		}
		m := map[string]string{}
		for i, c := range cols {
			m[c] = c10Norm(vals[i])
		}
		if m["k_"] == "<nil>" {
			d.New = append(d.New, m)
		} else {
			var k int
			fmt.Sscan(m["k_"], &k)
			d.Old[k] = m
		}
	}
	return d
}

func c10Setup(s c10Sch) (*gorm.DB, *sql.DB, []c10Info) {
	db, _, sqlDB := OpenRec(&gorm.Config{NowFunc: fixedNowFunc})
	infos := c10Infos(db, s)
	defs := []string{}
	for _, in := range infos {
		typ := "integer"
		switch in.F.Kind {
		case "str":
			typ = "text"
		case "time":
			typ = "datetime"
		}
		if in.PK {
			defs = append(defs, "`"+in.Col+"` integer primary key")
		} else {
			defs = append(defs, strings.TrimSpace("`"+in.Col+"` "+typ+" "+in.DefSQL))
		}
	}
	defs = append(defs, "k_ integer")
	if _, err := sqlDB.Exec("CREATE TABLE " + c10Table + " (" + strings.Join(defs, ", ") + ")"); err != nil {
		panic(fmt.Sprint(err, defs))
	}
	for i := 1; i <= 5; i++ {
		cols, ph, args := []string{}, []string{}, []interface{}{}
		for j, in := range infos {
			cols = append(cols, "`"+in.Col+"`")
			ph = append(ph, "?")
			switch {
			case in.PK:
				args = append(args, i)
			case in.F.Kind == "str":
				args = append(args, fmt.Sprintf("s%d_%d", i, j))
			case in.F.Kind == "time":
				args = append(args, time.Date(2000, 1, i, 0, 0, 0, 0, time.UTC))
			default:
				args = append(args, 100*i+j)
			}
		}
		cols, ph, args = append(cols, "k_"), append(ph, "?"), append(args, i)
		if _, err := sqlDB.Exec("INSERT INTO "+c10Table+" ("+strings.Join(cols, ",")+") VALUES ("+strings.Join(ph, ",")+")", args...); err != nil {
			panic(err)
		}
	}
	return db, sqlDB, infos
}

// given value of field in (normalised); zero value when absent
func c10Given(in c10Info, v c10Vals) (string, bool) {
	x, ok := v[in.F.Name]
	if !ok {
		switch in.F.Kind {
		case "str":
			return "", false
		case "time":
			return c10Norm(time.Time{}), false
		}
		return "0", false
	}
	if in.F.Kind == "time" {
		return c10Norm(c10GivenTime), true
	}
	if in.F.Kind == "str" {
		return fmt.Sprint(x), true
	}
	return fmt.Sprint(c10Int(x)), true
}

func c10Now(in c10Info) string {
	switch {
	case in.F.Kind == "time":
		return c10Norm(fixedNow)
	case in.Milli:
		return fmt.Sprint(fixedNow.UnixMilli())
	}
	return fmt.Sprint(fixedNow.Unix())
}

func c10Names(in c10Info, list []string) bool {
	for _, n := range list {
		if n == in.F.Name || n == in.Col || n == c10Table+"."+in.Col || n == "`"+in.Col+"`" {
			return true
		}
	}
	return false
}

func c10Has(list []string, s string) bool {
	for _, n := range list {
		if n == s {
			return true
		}
	}
	return false
}

// c10MapGiven: is the field named by a key of the map (by Go name or column)? returns the normalised value
func c10MapGiven(in c10Info, pairs [][]interface{}) (val string, isNil bool, ok bool) {
	for _, p := range pairs {
		k := fmt.Sprint(p[0])
		if k == in.F.Name || k == in.Col {
			if p[1] == nil {
				return "<nil>", true, true
			}
			if t, isT := p[1].(time.Time); isT {
				return c10Norm(t), false, true
			}
			if in.F.Kind == "str" {
				return fmt.Sprint(p[1]), false, true
			}
			if s, isS := p[1].(string); isS { // replayed JSON of a time value
				if t, err := time.Parse(time.RFC3339, s); err == nil {
					return c10Norm(t), false, true
				}
				return s, false, true
			}
			return fmt.Sprint(c10Int(p[1])), false, true
		}
	}
	return "", false, false
}

// c10Judge runs e on a fresh table and returns "" or a description of the violated demand
func c10Judge(e *c10E, r *Result) (verdict string, detail map[string]interface{}) {
	c := &e.Case
	db, sqlDB, infos := c10Setup(c.Schema)
	defer sqlDB.Close()
	typ := c.Schema.Type()
	pk := infos[0]
	before := c10DumpTable(sqlDB, pk.Col)
	extra := func(tx *gorm.DB) *gorm.DB {
		if e.CondIDs != nil {
			tx = tx.Where("`"+pk.Col+"` IN ?", e.CondIDs)
		}
		return tx
	}
	path := c.Path
	var tx *gorm.DB
	// gorm itself panics on a few inputs outside this property (RETURNING scan into a non-readable column under
	// ON CONFLICT DO NOTHING, …): such a case is counted and not judged — the statement never finished
	defer func() {
		if p := recover(); p != nil {
			if r != nil {
				r.H("c10.e2e.gorm-panic", path)
				r.Note("gorm panicked (not judged, outside C10): path=%s %v", path, p)
			}
			verdict, detail = "", map[string]interface{}{"panic": fmt.Sprint(p)}
		}
	}()
	switch path {
	case "upsert_cols":
		cc := *c
		cc.Path = "create_slice"
		tx = c10Exec(db, typ, &cc, func(tx *gorm.DB) *gorm.DB {
			return tx.Clauses(clause.OnConflict{Columns: []clause.Column{{Name: pk.Col}}, DoUpdates: clause.AssignmentColumns(e.DoUpdates)})
		})
	default:
		tx = c10Exec(db, typ, c, extra)
	}
	after := c10DumpTable(sqlDB, pk.Col)
	failed := tx.Error != nil
	detail = map[string]interface{}{"error": fmt.Sprint(tx.Error), "rows_affected": tx.RowsAffected}
	if r != nil {
		r.H("c10.e2e.error", fmt.Sprint(failed))
	}
	restricting := len(c.Selects) > 0 && !c10HasStar(c.Selects)
	selAll := c10HasStar(c.Selects)
	bad := func(format string, a ...interface{}) string { return fmt.Sprintf(format, a...) }

	isUpdate := map[string]bool{"update1": true, "updcol1": true, "upd_map": true, "updcols_map": true, "upd_struct": true,
		"updcols_struct": true, "upd_self": true, "save": true, "upd_dto": true, "upd_struct_nomodel": true, "updcols_struct_nomodel": true}[path]
	// Updates(dto) with a DIFFERENT struct type: a column the MODEL's tag denies never changes; a column only the DTO's
	// tag denies is latitude (the text speaks of "a field whose tag denies"; both fields carry a tag)
	dtoDeny := map[string]bool{}
	if path == "upd_dto" && c.Dto != nil {
		for _, f := range c.Dto.Fields {
			if _, du := c10TagPerm(f.Tag); du {
				dtoDeny[f.Name] = true
			}
		}
	}
	if isUpdate {
		if len(after.New) != 0 && path != "save" { // Save may legitimately create (it is an upsert)
			return bad("an update inserted %d row(s)", len(after.New)), detail
		}
		self := path == "upd_self" || path == "save"
		modelPK := 0
		if self || strings.HasSuffix(path, "_nomodel") { // the key travels in the written value itself
			modelPK = c10Int(c.Rows[0][pk.F.Name])
		} else {
			modelPK = c10Int(c.Model[pk.F.Name])
		}
		for k := 1; k <= 5; k++ {
			b, a := before.Old[k], after.Old[k]
			if a == nil {
				return bad("row %d disappeared", k), detail
			}
			targeted := (e.CondIDs == nil || containsInt(e.CondIDs, k)) && (modelPK == 0 || modelPK == k)
			if e.CondIDs == nil && modelPK == 0 {
				targeted = false // gorm refuses an update without any condition (C09)
			}
			for _, in := range infos {
				was, is := b[in.Col], a[in.Col]
				if !targeted {
					if was != is {
						return bad("row %d is not targeted but column %s changed %q -> %q", k, in.Col, was, is), detail
					}
					continue
				}
				if in.DenyU {
					if was != is {
						return bad("row %d: column %s of a field denying update (tag %q) changed %q -> %q", k, in.Col, in.F.Tag, was, is), detail
					}
					continue
				}
				if failed || dtoDeny[in.F.Name] {
					continue
				}
				inSet, accept, skip := c10PredictUpdate(in, c, path, self, was)
				if skip {
					continue
				}
				if inSet {
					if !c10Has(accept, is) {
						return bad("row %d: column %s is in the write set, expected %v, found %q (was %q)", k, in.Col, accept, is, was), detail
					}
				} else if was != is {
					return bad("row %d: column %s is outside the write set but changed %q -> %q", k, in.Col, was, is), detail
				}
			}
		}
		return "", detail
	}

	// ---- create / upsert paths -----------------------------------------------------------------------
	isMap := path == "create_map" || path == "create_maps"
	upsert := path == "upsert_all" || path == "upsert_slice" || path == "save_slice" || path == "upsert_cols"
	type given struct {
		vals c10Vals
		m    [][]interface{}
	}
	var inputs []given
	switch path {
	case "create_map":
		inputs = []given{{m: c.Map}}
	case "create_maps":
		for _, m := range c.MapRows {
			inputs = append(inputs, given{m: m})
		}
	default:
		for _, v := range c.Rows {
			inputs = append(inputs, given{vals: v})
		}
	}
	var fresh []given
	conflict := map[int]given{}
	for _, g := range inputs {
		id := 0
		if g.vals != nil {
			id = c10Int(g.vals[pk.F.Name])
		}
		if id >= 1 && id <= 5 {
			conflict[id] = g
		} else {
			fresh = append(fresh, g)
		}
	}
	for k := 1; k <= 5; k++ {
		b, a := before.Old[k], after.Old[k]
		if a == nil {
			return bad("row %d disappeared", k), detail
		}
		g, isConflict := conflict[k]
		for _, in := range infos {
			was, is := b[in.Col], a[in.Col]
			if !isConflict || !upsert {
				if was != is {
					return bad("existing row %d is not written by this create but column %s changed %q -> %q", k, in.Col, was, is), detail
				}
				continue
			}
			if in.DenyC || in.DenyU || in.PK {
				if was != is {
					return bad("upsert on row %d: column %s of a field denying create/update (tag %q) changed %q -> %q", k, in.Col, in.F.Tag, was, is), detail
				}
				continue
			}
			if failed {
				continue
			}
			omitted := c10Names(in, c.Omits)
			selected := selAll || c10Names(in, c.Selects)
			plain := !in.HasDef && !in.TrackU && !in.TrackC
			v, _ := c10Given(in, g.vals)
			switch {
			case path == "upsert_cols":
				if c10Has(e.DoUpdates, in.Col) {
					if is != v {
						return bad("upsert DoUpdates on row %d: named column %s expected %q found %q", k, in.Col, v, is), detail
					}
				} else if was != is {
					return bad("upsert DoUpdates on row %d: column %s is not named but changed %q -> %q", k, in.Col, was, is), detail
				}
			case omitted || (restricting && !selected):
				if was != is && !in.TrackU {
					return bad("upsert on row %d: column %s is omitted/unselected but changed %q -> %q", k, in.Col, was, is), detail
				}
			case plain:
				if is != v {
					return bad("upsert UpdateAll on row %d: column %s expected %q found %q", k, in.Col, v, is), detail
				}
			}
		}
	}
	if failed {
		// nothing more is demanded; a failed create must still not have stored a denied value
		fresh = nil
	}
	// latitude: how many rows a multi-row INSERT without any column stores, and whether a key left out by
	// Select/Omit conflicts, is not C10's business: when the new rows cannot be aligned with the inputs only the
	// "denied columns hold the column default" demand is judged on them
	aligned := len(after.New) == len(fresh)
	if r != nil && !failed {
		r.H("c10.e2e.new-rows-aligned", fmt.Sprint(aligned))
	}
	for i, row := range after.New {
		var g given
		if aligned {
			g = fresh[i]
		}
		for _, in := range infos {
			is := row[in.Col]
			if in.PK {
				continue
			}
			var v string
			var nonzero, isGiven bool
			if isMap {
				var isNil bool
				v, isNil, isGiven = c10MapGiven(in, g.m)
				nonzero = isGiven && !isNil && v != "0" && v != ""
			} else {
				v, nonzero = c10Given(in, g.vals)
				isGiven = true
			}
			if in.DenyC {
				if is != in.DefExpect {
					return bad("created row %d: column %s of a field denying create (tag %q) holds %q instead of the column default %q", i, in.Col, in.F.Tag, is, in.DefExpect), detail
				}
				continue
			}
			if in.TrackU || in.TrackC || !aligned {
				continue
			}
			if path == "create_maps" && !isGiven {
				continue // a key present in another row of the slice is sent as NULL for this row
			}
			omitted := c10Names(in, c.Omits)
			selected := selAll || c10Names(in, c.Selects)
			if omitted || (restricting && !selected) || !isGiven {
				if is != in.DefExpect {
					return bad("created row %d: column %s is omitted / not selected / not given but holds %q instead of the column default %q", i, in.Col, is, in.DefExpect), detail
				}
				continue
			}
			if nonzero && is != v {
				return bad("created row %d: column %s expected the given value %q, found %q", i, in.Col, v, is), detail
			}
		}
	}
	return "", detail
}

// c10PredictUpdate: the write set the PROPERTY predicts for one column of a targeted row of an update path.
// skip = the text does not decide this cell.  `was` = the cell before the write (for Expr values `col + 1000`).
func c10PredictUpdate(in c10Info, c *c10Case, path string, self bool, was string) (inSet bool, accept []string, skip bool) {
	restricting := len(c.Selects) > 0 && !c10HasStar(c.Selects)
	selAll := c10HasStar(c.Selects)
	hooks := !(path == "updcol1" || path == "updcols_map" || path == "updcols_struct" || path == "updcol_expr" || path == "updcols_struct_nomodel")
	isMap := strings.HasSuffix(path, "_map") || path == "update1" || path == "updcol1" || path == "updcol_expr" || path == "upd_expr"
	omitted := c10Names(in, c.Omits)
	selected := selAll || c10Names(in, c.Selects)
	if in.PK && self {
		return false, nil, false
	}
	if isMap {
		v, isNil, ok := c10MapGiven(in, c.Map)
		if strings.HasPrefix(v, "expr:") {
			v = fmt.Sprint(c10Int(json.Number(was)) + 1000)
		}
		if ok && !omitted && (!restricting || selected) {
			inSet = true
			accept = []string{v}
			if in.TrackU && hooks && isNil {
				accept = []string{"<nil>", c10Now(in)}
			}
		}
		if !inSet && in.TrackU && hooks && !omitted && !ok {
			inSet, accept = true, []string{c10Now(in)}
		}
		if in.TrackU && hooks && ok && (omitted || (restricting && !selected)) {
			return false, nil, true // given explicitly but filtered by Select/Omit while hooks refresh it: the text does not decide
		}
		return inSet, accept, false
	}
	v, nonzero := c10Given(in, c.Rows[0])
	switch {
	case omitted:
	case path == "save" && (!restricting || selected):
		inSet, accept = true, []string{v}
	case restricting || selAll:
		if selected {
			inSet, accept = true, []string{v}
		}
	default:
		if nonzero {
			inSet, accept = true, []string{v}
		}
	}
	if in.TrackU && hooks && !omitted {
		if inSet && nonzero {
			accept = []string{v, c10Now(in)}
		} else {
			inSet, accept = true, []string{c10Now(in)}
		}
	}
	return inSet, accept, false
}

// c10HasStar: "*" or "<table>.*"
func c10HasStar(list []string) bool { return c10Has(list, "*") || c10Has(list, c10Table+".*") }

func containsInt(l []int, x int) bool {
	for _, y := range l {
		if y == x {
			return true
		}
	}
	return false
}

var c10EPaths = []string{"update1", "updcol1", "upd_map", "upd_map", "updcols_map", "upd_struct", "upd_struct", "upd_dto", "updcols_struct", "upd_self",
	"save", "save", "create", "create_slice", "create_batches", "create_map", "create_maps", "upsert_all", "upsert_slice", "upsert_cols", "save_slice",
	"upd_struct_nomodel", "updcols_struct_nomodel"}

func genC10E(rng *rand.Rand, r *Result) *c10E {
	db := c10ParseDB()
	var s c10Sch
	for {
		s = genC10Schema(rng, false)
		if _, _, err := c10Parse(db, s); err == nil {
			break
		}
	}
	sch, _, _ := c10Parse(db, s)
	infos := c10Infos(db, s)
	e := &c10E{Case: c10Case{Schema: s, Path: c10EPaths[rng.Intn(len(c10EPaths))]}}
	c := &e.Case
	pick := func(max int, star bool) []string {
		out := []string{}
		for i, n := 0, rng.Intn(max+1); i < n; i++ {
			in := infos[rng.Intn(len(infos))]
			switch {
			case star && rng.Intn(8) == 0:
				out = append(out, "*")
			case rng.Intn(2) == 0 || strings.HasPrefix(in.F.Tag, "-;") || in.F.Tag == "-" || strings.Contains(in.F.Tag, "-:all"):
				out = append(out, in.F.Name)
			case rng.Intn(5) == 0:
				out = append(out, c10Table+"."+in.Col) // table.column spelling
			case star && rng.Intn(12) == 0:
				out = append(out, c10Table+".*")
			default:
				out = append(out, in.Col)
			}
		}
		return out
	}
	if rng.Intn(2) == 0 {
		c.Selects = pick(3, true)
	}
	if rng.Intn(3) == 0 {
		c.Omits = pick(2, false)
	}
	if len(c.Selects) == 0 {
		c.Selects = nil
	}
	if len(c.Omits) == 0 {
		c.Omits = nil
	}
	update := !strings.HasPrefix(c.Path, "create") && !strings.HasPrefix(c.Path, "upsert") && c.Path != "save_slice"
	if update {
		// conditions / model key selecting a strict subset of the 5 rows
		mpk := 1 + rng.Intn(5)
		switch rng.Intn(4) {
		case 0: // model key only
		case 1: // chain condition only
			mpk = 0
			e.CondIDs = []int{}
		default: // both
			e.CondIDs = []int{}
		}
		if e.CondIDs != nil {
			for k := 1; k <= 5; k++ {
				if rng.Intn(2) == 0 {
					e.CondIDs = append(e.CondIDs, k)
				}
			}
			if len(e.CondIDs) == 5 {
				e.CondIDs = e.CondIDs[:4]
			}
			if mpk != 0 && rng.Intn(3) > 0 && !containsInt(e.CondIDs, mpk) {
				e.CondIDs = append(e.CondIDs, mpk)
			}
		}
		c.Model = c10Vals{}
		if mpk != 0 {
			c.Model[s.Fields[0].Name] = mpk
		}
		rowpk := 0
		if c.Path == "upd_self" || c.Path == "save" || (strings.HasSuffix(c.Path, "_nomodel") && rng.Intn(4) > 0) {
			rowpk = 1 + rng.Intn(5)
			if e.CondIDs != nil && rng.Intn(10) > 0 && !containsInt(e.CondIDs, rowpk) {
				e.CondIDs = append(e.CondIDs, rowpk)
			}
		} else if rng.Intn(10) == 0 {
			rowpk = 40 + rng.Intn(5) // a struct value carrying another (fresh) key: "non-zero fields are written"
		}
		c.Rows = []c10Vals{c10GenVals(rng, s, rowpk, 50, 1)}
		if c.Path == "upd_dto" {
			c.Dto = c10DtoOf(rng, s)
			if _, _, err := c10Parse(db, *c.Dto); err != nil {
				c.Path, c.Dto = "upd_struct", nil
			}
		}
		c.Map = c10GenMap(rng, sch, s, false, c.Path == "update1" || c.Path == "updcol1", 7, r, true)
	} else {
		n := 1
		if strings.Contains(c.Path, "slice") || c.Path == "create_batches" || c.Path == "upsert_cols" {
			n = 1 + rng.Intn(3)
		}
		upsert := strings.HasPrefix(c.Path, "upsert") || c.Path == "save_slice"
		used := map[int]bool{}
		explicit := rng.Intn(4) > 0 || upsert
		for i := 0; i < n; i++ {
			id := 0
			if explicit {
				id = 101 + i
				if upsert && rng.Intn(2) == 0 {
					id = 1 + rng.Intn(5)
					if used[id] {
						id = 101 + i
					}
					used[id] = true
				}
			}
			c.Rows = append(c.Rows, c10GenVals(rng, s, id, 60, i+1))
		}
		sort.SliceStable(c.Rows, func(a, b int) bool {
			return c10Int(c.Rows[a][s.Fields[0].Name]) < c10Int(c.Rows[b][s.Fields[0].Name])
		})
		c.Map = c10GenMap(rng, sch, s, false, false, 7, r, false)
		if c.Path == "create_maps" {
			for i, k := 0, 1+rng.Intn(3); i < k; i++ {
				c.MapRows = append(c.MapRows, c10GenMap(rng, sch, s, false, false, 3+i, nil, false))
			}
		}
		if upsert {
			// keep the key in the INSERT so that the generated conflicts really conflict
			if len(c.Selects) > 0 && !c10HasStar(c.Selects) {
				c.Selects = append(c.Selects, infos[0].Col)
			}
			om := []string{}
			for _, o := range c.Omits {
				if !c10Names(infos[0], []string{o}) {
					om = append(om, o)
				}
			}
			c.Omits = om
			if len(om) == 0 {
				c.Omits = nil
			}
		}
		if c.Path == "upsert_cols" {
			c.Selects, c.Omits = nil, nil
			for _, in := range infos[1:] {
				if !in.DenyC && !in.DenyU && !in.HasDef && !in.TrackU && !in.TrackC && rng.Intn(2) == 0 {
					e.DoUpdates = append(e.DoUpdates, in.Col)
				}
			}
			if len(e.DoUpdates) == 0 {
				c.Path = "upsert_slice"
			}
		}
	}
	return e
}

const c10F18 = "F18-C10-save-fallback-ignores-conditions"

// c10F18Pattern: Save(&v) without Select, v's non-zero key names an existing row that does NOT satisfy the chain's
// Where conditions, and the judged failure is exactly "that row changed although it is not targeted"
func c10F18Pattern(e *c10E, verdict string) bool {
	c := &e.Case
	if c.Path != "save" || len(c.Selects) != 0 || e.CondIDs == nil || len(c.Rows) != 1 {
		return false
	}
	k := c10Int(c.Rows[0][c.Schema.Fields[0].Name])
	return k >= 1 && k <= 5 && !containsInt(e.CondIDs, k) && strings.HasPrefix(verdict, fmt.Sprintf("row %d is not targeted", k))
}

func c10F18Witness() *c10E {
	return &c10E{CondIDs: []int{1}, Case: c10Case{Path: "save",
		Schema: c10Sch{Fields: []c10F{{Name: "ID", Kind: "uint", Tag: "primaryKey"}, {Name: "Qty", Kind: "int"}}},
		Rows:   []c10Vals{{"ID": 4, "Qty": 1011}}, Model: c10Vals{}}}
}

func c10ERun(r *Result, e *c10E) {
	verdict, detail := c10Judge(e, r)
	if verdict != "" && c10F18Pattern(e, verdict) && listed(c10F18) {
		r.KnownFinding(c10F18, "Where(cond).Save(&v): v's key names an existing row outside cond; the 0-row UPDATE falls back to INSERT … ON CONFLICT DO UPDATE, which overwrites that row regardless of the chain's conditions — "+verdict)
		return
	}
	if verdict != "" {
		r.Violate(Violation{Kind: "e2e", Suite: "table-diff", Input: e, Observed: detail, Expected: verdict,
			Note: "cell-by-cell diff of the table around one real write vs the write set the property predicts"})
	}
}

func init() {
	register("C10", func(r *Result, rng *rand.Rand, tier string) {
		n := 1500
		if tier == "thorough" {
			n = 60000
		} else if tier == "search" {
			n = 4000
		}
		t0 := time.Now()
		defer func() { r.Note("c10 table-diff: n=%d took %.1fs", n, time.Since(t0).Seconds()) }()
		for i := 0; i < n && !expired(); i++ {
			e := genC10E(rng, r)
			if i == 0 {
				e = c10F18Witness() // dedicated probe re-confirming the listed finding on every run
			}
			c := &e.Case
			r.Case("table-diff", canon(e), c10Restricted(c.Schema) && len(c.Selects)+len(c.Omits) > 0)
			r.H("c10.e2e.path", c.Path)
			r.H("c10.e2e.targeting", fmt.Sprintf("cond=%v modelpk=%v", e.CondIDs != nil, c10Int(c.Model[c.Schema.Fields[0].Name]) != 0))
			r.H("c10.e2e.select", fmt.Sprintf("sel=%d star=%v omit=%d", len(c.Selects), c10Has(c.Selects, "*"), len(c.Omits)))
			if i%397 == 0 {
				r.Sample(map[string]interface{}{"suite": "table-diff", "input": e})
			}
			c10ERun(r, e)
		}
	})
	// correspondence: Lean saveWritesRow vs the real Save on the 8 combinations (row exists × conditions hold × Select)
	register("C10", func(r *Result, rng *rand.Rand, tier string) {
		var ops [][]interface{}
		var reals []bool
		var ins []interface{}
		for rep := 0; rep < 4; rep++ {
			for m := 0; m < 8; m++ {
				exists, holds, selected := m&1 != 0, m&2 != 0, m&4 != 0
				e := c10F18Witness()
				k := 2 + rep%3
				if !exists {
					k = 9
				}
				e.Case.Rows[0]["ID"] = k
				e.CondIDs = []int{1}
				if holds {
					e.CondIDs = []int{1, k}
				}
				if selected {
					e.Case.Selects = []string{"Qty"}
				}
				db, sqlDB, infos := c10Setup(e.Case.Schema)
				c10Exec(db, e.Case.Schema.Type(), &e.Case, func(tx *gorm.DB) *gorm.DB { return tx.Where("`id` IN ?", e.CondIDs) })
				after := c10DumpTable(sqlDB, infos[0].Col)
				sqlDB.Close()
				written := after.Old[k] != nil && after.Old[k]["qty"] == "1011"
				ops = append(ops, []interface{}{"c10.saverow", exists, holds, selected})
				reals = append(reals, written)
				ins = append(ins, e)
			}
		}
		outs, err := AskLean(ops)
		if err != nil {
			r.Violate(Violation{Kind: "correspondence", Suite: "saverow", Note: err.Error()})
			return
		}
		for i := range ops {
			r.CorrCompared++
			r.Case("saverow", canon(ops[i]), true)
			r.H("c10.saverow.real", fmt.Sprint(ops[i][1:], "=>", reals[i]))
			if canonRaw(outs[i]) != canon(reals[i]) {
				r.Violate(Violation{Kind: "correspondence", Suite: "saverow", Input: ins[i], Observed: reals[i], Expected: canonRaw(outs[i]),
					Note: "does Where(cond).Save(&v) write the existing row carrying v's key: real gorm (observed) vs Lean saveWritesRow (expected)"})
			}
		}
	})
	replayers["C10/table-diff"] = func(r *Result, input json.RawMessage) {
		var e c10E
		dec := json.NewDecoder(strings.NewReader(string(input)))
		dec.UseNumber()
		if err := dec.Decode(&e); err != nil {
			r.Violate(Violation{Kind: "e2e", Suite: "table-diff", Note: "cannot decode replay input: " + err.Error()})
			return
		}
		c10ERun(r, &e)
	}
	_ = reflect.TypeOf
}
