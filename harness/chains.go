package main

// Shared generator of chains (Where/Not/Or/Select/Having/Joins/Order/Group/Clauses/Table/Limit/...)
// and finishers over a small family of models.  Every bound value is a unique *marker* so that an
// oracle can recognise it wherever it ends up (SQL text or bound parameter list).

import (
	"database/sql"
	"fmt"
	"math/rand"
	"strings"
	"time"

	"gorm.io/gorm"
	"gorm.io/gorm/clause"
)

type VUser struct {
	ID        uint `gorm:"primaryKey"`
	Name      string
	Age       int
	Z         *int
	Email     string
	UpdatedAt time.Time
}

type VSoft struct {
	ID        uint `gorm:"primaryKey"`
	Name      string
	Age       int
	Z         *int
	Email     string
	DeletedAt gorm.DeletedAt
}

var fixedNow = time.Date(2024, 5, 6, 7, 8, 9, 0, time.UTC)

func fixedNowFunc() time.Time { return fixedNow }

// markers -------------------------------------------------------------------------------------

type markerGen struct {
	n    int
	strs []string
	ints []int
}

func (m *markerGen) S() string {
	m.n++
	s := fmt.Sprintf("m%d'\"\\;)--?@x%d", m.n, m.n)
	m.strs = append(m.strs, s)
	return s
}

func (m *markerGen) I() int {
	m.n++
	v := 700000 + m.n*13
	m.ints = append(m.ints, v)
	return v
}

// Step = one chain call
type Step struct {
	Desc  string
	Kind  string        // where or not select having joins order group clauses table limit offset distinct omit unscoped model
	Args  []interface{} // bound values this step contributes, in the order they must appear among the statement's parameters
	Apply func(db *gorm.DB) *gorm.DB
}

type condForm struct {
	desc  string
	query interface{}
	args  []interface{}
	bound []interface{}
}

func intPtr(i int) *int { return &i }

// genCond builds one condition unit in a random form over columns name/age/z/email.
func genCond(rng *rand.Rand, m *markerGen, db *gorm.DB, depth int) condForm {
	switch k := rng.Intn(19); k {
	case 0:
		s := m.S()
		return condForm{"raw name = ?", "name = ?", []interface{}{s}, []interface{}{s}}
	case 1:
		a, b := m.I(), m.I()
		return condForm{"raw age between", "age >= ? AND age <= ?", []interface{}{a, b}, []interface{}{a, b}}
	case 2:
		n := rng.Intn(4)
		vs := make([]int, n)
		bound := []interface{}{}
		for i := range vs {
			vs[i] = m.I()
			bound = append(bound, vs[i])
		}
		return condForm{fmt.Sprintf("raw age IN ? (slice len %d)", n), "age IN ?", []interface{}{vs}, bound}
	case 3:
		s, i := m.S(), m.I()
		return condForm{"named sql.Named", "name = @n OR age = @a", []interface{}{sql.Named("n", s), sql.Named("a", i)}, []interface{}{s, i}}
	case 4:
		s, i := m.S(), m.I()
		return condForm{"named map", "age = @a AND name = @n", []interface{}{map[string]interface{}{"n": s, "a": i}}, []interface{}{i, s}}
	case 5:
		s, i := m.S(), m.I()
		// map keys are sorted by gorm: age, name
		return condForm{"map{name,age}", map[string]interface{}{"name": s, "age": i}, nil, []interface{}{i, s}}
	case 6:
		a, b := m.I(), m.I()
		return condForm{"map{age: slice}", map[string]interface{}{"age": []int{a, b}}, nil, []interface{}{a, b}}
	case 7:
		return condForm{"map{z: nil}", map[string]interface{}{"z": nil}, nil, []interface{}{}}
	case 8:
		s, i := m.S(), m.I()
		return condForm{"struct{Name,Age}", &VUser{Name: s, Age: i}, nil, []interface{}{s, i}}
	case 9:
		s := m.S()
		return condForm{"clause.Eq", clause.Eq{Column: "name", Value: s}, nil, []interface{}{s}}
	case 10:
		a, b, c := m.I(), m.I(), m.I()
		return condForm{"clause.IN", clause.IN{Column: "age", Values: []interface{}{a, b, c}}, nil, []interface{}{a, b, c}}
	case 11:
		a, b := m.I(), m.I()
		return condForm{"raw with gorm.Expr arg", "age > ?", []interface{}{gorm.Expr("? + ?", a, b)}, []interface{}{a, b}}
	case 12:
		if depth <= 0 || db == nil {
			s := m.S()
			return condForm{"raw email", "email <> ?", []interface{}{s}, []interface{}{s}}
		}
		s, i := m.S(), m.I()
		sub := db.Session(&gorm.Session{NewDB: true}).Model(&VUser{}).Select("AVG(age)").Where("name = ? OR age = ?", s, i)
		return condForm{"sub-query arg", "age > (?)", []interface{}{sub}, []interface{}{s, i}}
	case 13:
		if depth <= 0 || db == nil {
			i := m.I()
			return condForm{"raw z", "z = ?", []interface{}{intPtr(i)}, []interface{}{i}}
		}
		s, i := m.S(), m.I()
		g := db.Session(&gorm.Session{NewDB: true}).Where("name = ?", s).Or("age = ?", i)
		return condForm{"group db.Where(..).Or(..)", g, nil, []interface{}{s, i}}
	case 14:
		i := m.I()
		return condForm{"pointer arg", "z = ?", []interface{}{intPtr(i)}, []interface{}{i}}
	case 15:
		s := m.S()
		return condForm{"Valuer arg sql.NullString", "email = ?", []interface{}{sql.NullString{String: s, Valid: true}}, []interface{}{s}}
	case 16:
		s := m.S()
		return condForm{"[]byte arg", "name = ?", []interface{}{[]byte(s)}, []interface{}{[]byte(s)}}
	case 17:
		s := m.S()
		return condForm{"clause.Like", clause.Like{Column: "email", Value: s}, nil, []interface{}{s}}
	default:
		a, s := m.I(), m.S()
		return condForm{"clause.Expr", clause.Expr{SQL: "(age < ? OR name = ?)", Vars: []interface{}{a, s}}, nil, []interface{}{a, s}}
	}
}

func genStep(rng *rand.Rand, m *markerGen, db *gorm.DB, allowJoins bool) Step {
	switch k := rng.Intn(20); {
	case k < 7:
		c := genCond(rng, m, db, 1)
		return Step{Desc: "Where(" + c.desc + ")", Kind: "where", Args: c.bound, Apply: func(d *gorm.DB) *gorm.DB { return d.Where(c.query, c.args...) }}
	case k < 10:
		c := genCond(rng, m, db, 1)
		return Step{Desc: "Or(" + c.desc + ")", Kind: "or", Args: c.bound, Apply: func(d *gorm.DB) *gorm.DB { return d.Or(c.query, c.args...) }}
	case k < 12:
		c := genCond(rng, m, db, 1)
		return Step{Desc: "Not(" + c.desc + ")", Kind: "not", Args: c.bound, Apply: func(d *gorm.DB) *gorm.DB { return d.Not(c.query, c.args...) }}
	case k == 12:
		return Step{Desc: "Order(age desc)", Kind: "order", Apply: func(d *gorm.DB) *gorm.DB { return d.Order("age desc") }}
	case k == 13:
		n := 1 + rng.Intn(5)
		return Step{Desc: fmt.Sprintf("Limit(%d)", n), Kind: "limit", Apply: func(d *gorm.DB) *gorm.DB { return d.Limit(n) }}
	case k == 14:
		n := 1 + rng.Intn(3)
		return Step{Desc: fmt.Sprintf("Offset(%d)", n), Kind: "offset", Apply: func(d *gorm.DB) *gorm.DB { return d.Limit(10).Offset(n) }}
	case k == 15:
		c := genCond(rng, m, nil, 0)
		return Step{Desc: "Clauses(Where{" + c.desc + "})", Kind: "where", Args: c.bound, Apply: func(d *gorm.DB) *gorm.DB {
			// build through the public condition builder, then hand it over as a ready clause
			exprs := d.Session(&gorm.Session{NewDB: true}).Statement.BuildCondition(c.query, c.args...)
			if len(exprs) == 0 {
				return d
			}
			return d.Clauses(clause.Where{Exprs: exprs})
		}}
	case k == 16 && allowJoins:
		s := m.S()
		return Step{Desc: "Joins(raw with arg)", Kind: "joins", Args: []interface{}{s}, Apply: func(d *gorm.DB) *gorm.DB {
			return d.Joins("LEFT JOIN v_users AS u2 ON u2.id = v_users.id AND u2.name <> ?", s)
		}}
	case k == 17:
		return Step{Desc: "Distinct()", Kind: "distinct", Apply: func(d *gorm.DB) *gorm.DB { return d.Distinct() }}
	default:
		c := genCond(rng, m, db, 1)
		return Step{Desc: "Where(" + c.desc + ")", Kind: "where", Args: c.bound, Apply: func(d *gorm.DB) *gorm.DB { return d.Where(c.query, c.args...) }}
	}
}

type Chain struct {
	Steps []Step
	M     *markerGen
}

func (c *Chain) Desc() []string {
	out := make([]string, len(c.Steps))
	for i, s := range c.Steps {
		out[i] = s.Desc
	}
	return out
}

func (c *Chain) Apply(db *gorm.DB) *gorm.DB {
	for _, s := range c.Steps {
		db = s.Apply(db)
	}
	return db
}

func genChain(rng *rand.Rand, db *gorm.DB, maxSteps int, allowJoins bool) *Chain {
	m := &markerGen{}
	n := rng.Intn(maxSteps + 1)
	c := &Chain{M: m}
	for i := 0; i < n; i++ {
		c.Steps = append(c.Steps, genStep(rng, m, db, allowJoins))
	}
	return c
}

// Finisher = terminal call
type Finisher struct {
	Name  string
	Write bool
	Args  func(m *markerGen) []interface{} // markers the finisher itself binds (in order); nil = none
	Run   func(db *gorm.DB, vals []interface{}) *gorm.DB
}

func readFinishers() []Finisher {
	return []Finisher{
		{Name: "Find", Run: func(db *gorm.DB, _ []interface{}) *gorm.DB { var us []VUser; return db.Model(&VUser{}).Find(&us) }},
		{Name: "First", Run: func(db *gorm.DB, _ []interface{}) *gorm.DB { var u VUser; return db.Model(&VUser{}).First(&u) }},
		{Name: "Take", Run: func(db *gorm.DB, _ []interface{}) *gorm.DB { var u VUser; return db.Model(&VUser{}).Take(&u) }},
		{Name: "Last", Run: func(db *gorm.DB, _ []interface{}) *gorm.DB { var u VUser; return db.Model(&VUser{}).Last(&u) }},
		{Name: "Count", Run: func(db *gorm.DB, _ []interface{}) *gorm.DB { var n int64; return db.Model(&VUser{}).Count(&n) }},
		{Name: "Pluck", Run: func(db *gorm.DB, _ []interface{}) *gorm.DB {
			var ns []string
			return db.Model(&VUser{}).Pluck("name", &ns)
		}},
		{Name: "Scan", Run: func(db *gorm.DB, _ []interface{}) *gorm.DB {
			var rs []map[string]interface{}
			return db.Model(&VUser{}).Scan(&rs)
		}},
		{Name: "FindInline", Args: func(m *markerGen) []interface{} { return []interface{}{m.S()} },
			Run: func(db *gorm.DB, v []interface{}) *gorm.DB {
				var us []VUser
				return db.Model(&VUser{}).Find(&us, "email = ?", v[0])
			}},
	}
}

func writeFinishers() []Finisher {
	return []Finisher{
		{Name: "Update", Write: true, Args: func(m *markerGen) []interface{} { return []interface{}{m.S()} },
			Run: func(db *gorm.DB, v []interface{}) *gorm.DB { return db.Model(&VUser{}).Update("email", v[0]) }},
		{Name: "UpdatesMap", Write: true, Args: func(m *markerGen) []interface{} { return []interface{}{m.I(), m.S()} },
			Run: func(db *gorm.DB, v []interface{}) *gorm.DB {
				return db.Model(&VUser{}).Updates(map[string]interface{}{"age": v[0], "email": v[1]})
			}},
		{Name: "UpdatesStruct", Write: true, Args: func(m *markerGen) []interface{} { return []interface{}{m.S(), m.I()} },
			Run: func(db *gorm.DB, v []interface{}) *gorm.DB {
				return db.Model(&VUser{}).Updates(VUser{Name: v[0].(string), Age: v[1].(int)})
			}},
		{Name: "UpdateColumn", Write: true, Args: func(m *markerGen) []interface{} { return []interface{}{m.S()} },
			Run: func(db *gorm.DB, v []interface{}) *gorm.DB { return db.Model(&VUser{}).UpdateColumn("email", v[0]) }},
		{Name: "UpdateExpr", Write: true, Args: func(m *markerGen) []interface{} { return []interface{}{m.I()} },
			Run: func(db *gorm.DB, v []interface{}) *gorm.DB {
				return db.Model(&VUser{}).Update("age", gorm.Expr("age + ?", v[0]))
			}},
		{Name: "Delete", Write: true, Run: func(db *gorm.DB, _ []interface{}) *gorm.DB { return db.Delete(&VUser{}) }},
		{Name: "DeleteInline", Write: true, Args: func(m *markerGen) []interface{} { return []interface{}{m.S()} },
			Run: func(db *gorm.DB, v []interface{}) *gorm.DB { return db.Delete(&VUser{}, "email = ?", v[0]) }},
	}
}

// createFinishers ignore chain conditions (INSERT has no WHERE); chains are still applied for Select/Omit-free runs.
func createFinishers() []Finisher {
	return []Finisher{
		{Name: "CreateStruct", Write: true, Args: func(m *markerGen) []interface{} { return []interface{}{m.S(), m.I(), m.S()} },
			Run: func(db *gorm.DB, v []interface{}) *gorm.DB {
				return db.Create(&VUser{Name: v[0].(string), Age: v[1].(int), Email: v[2].(string)})
			}},
		{Name: "CreateSlice", Write: true, Args: func(m *markerGen) []interface{} { return []interface{}{m.S(), m.I(), m.S(), m.I()} },
			Run: func(db *gorm.DB, v []interface{}) *gorm.DB {
				return db.Create(&[]VUser{{Name: v[0].(string), Age: v[1].(int)}, {Name: v[2].(string), Age: v[3].(int)}})
			}},
		{Name: "CreateMap", Write: true, Args: func(m *markerGen) []interface{} { return []interface{}{m.I(), m.S()} },
			Run: func(db *gorm.DB, v []interface{}) *gorm.DB {
				return db.Model(&VUser{}).Create(map[string]interface{}{"age": v[0], "name": v[1]})
			}},
		{Name: "Upsert", Write: true, Args: func(m *markerGen) []interface{} { return []interface{}{m.S(), m.I(), m.S()} },
			Run: func(db *gorm.DB, v []interface{}) *gorm.DB {
				return db.Clauses(clause.OnConflict{Columns: []clause.Column{{Name: "id"}},
					DoUpdates: clause.Assignments(map[string]interface{}{"email": v[2]})}).Create(&VUser{ID: 1, Name: v[0].(string), Age: v[1].(int)})
			}},
		{Name: "UpsertUpdateAll", Write: true, Args: func(m *markerGen) []interface{} { return []interface{}{m.S(), m.I()} },
			Run: func(db *gorm.DB, v []interface{}) *gorm.DB {
				return db.Clauses(clause.OnConflict{UpdateAll: true}).Create(&VUser{ID: 2, Name: v[0].(string), Age: v[1].(int)})
			}},
		{Name: "RawScan", Args: func(m *markerGen) []interface{} { return []interface{}{m.S(), m.I()} },
			Run: func(db *gorm.DB, v []interface{}) *gorm.DB {
				var us []VUser
				return db.Raw("SELECT * FROM v_users WHERE name = ? OR age IN ?", v[0], []int{v[1].(int)}).Scan(&us)
			}},
		{Name: "Exec", Write: true, Args: func(m *markerGen) []interface{} { return []interface{}{m.S(), m.I()} },
			Run: func(db *gorm.DB, v []interface{}) *gorm.DB {
				return db.Exec("UPDATE v_users SET email = ? WHERE age = ?", v[0], v[1])
			}},
		{Name: "ExecNamed", Write: true, Args: func(m *markerGen) []interface{} { return []interface{}{m.S(), m.I()} },
			Run: func(db *gorm.DB, v []interface{}) *gorm.DB {
				return db.Exec("UPDATE v_users SET email = @e WHERE age = @a", sql.Named("e", v[0]), sql.Named("a", v[1]))
			}},
	}
}

func seedUsers(db *gorm.DB, n int) {
	for i := 1; i <= n; i++ {
		var z *int
		if i%3 != 0 {
			z = intPtr(i * 2)
		}
		db.Create(&VUser{ID: uint(i), Name: fmt.Sprint("n", i%4), Age: 20 + i%5, Z: z, Email: fmt.Sprint("e", i, "@x")})
	}
}

func openUsers() (*gorm.DB, *Recorder) {
	db, rec, _ := OpenRec(&gorm.Config{NowFunc: fixedNowFunc})
	if err := db.AutoMigrate(&VUser{}, &VSoft{}); err != nil {
		panic(err)
	}
	seedUsers(db, 12)
	rec.Reset()
	return db, rec
}

// countPlaceholders counts '?' placeholders in SQL text outside of quoted regions ('..', "..", `..`).
func countPlaceholders(sqlText string) int {
	n := 0
	var q byte
	for i := 0; i < len(sqlText); i++ {
		c := sqlText[i]
		if q != 0 {
			if c == q {
				if i+1 < len(sqlText) && sqlText[i+1] == q {
					i++
					continue
				}
				q = 0
			}
			continue
		}
		switch c {
		case '\'', '"', '`':
			q = c
		case '?':
			n++
		}
	}
	return n
}

func normArg(v interface{}) string {
	switch x := v.(type) {
	case nil:
		return "nil"
	case []byte:
		return "b:" + string(x)
	case string:
		return "s:" + x
	case int:
		return fmt.Sprint("i:", x)
	case int64:
		return fmt.Sprint("i:", x)
	case uint:
		return fmt.Sprint("i:", x)
	case uint64:
		return fmt.Sprint("i:", x)
	case int32:
		return fmt.Sprint("i:", x)
	case bool:
		return fmt.Sprint("B:", x)
	case time.Time:
		return "t:" + x.UTC().Format(time.RFC3339Nano)
	case *int:
		if x == nil {
			return "nil"
		}
		return fmt.Sprint("i:", *x)
	case sql.NullString:
		if !x.Valid {
			return "nil"
		}
		return "s:" + x.String
	case gorm.DeletedAt:
		if !x.Valid {
			return "nil"
		}
		return "t:" + x.Time.UTC().Format(time.RFC3339Nano)
	case float64:
		return fmt.Sprint("f:", x)
	}
	return fmt.Sprintf("?:%T:%v", v, v)
}

func normArgs(vs []interface{}) []string {
	out := make([]string, len(vs))
	for i, v := range vs {
		out[i] = normArg(v)
	}
	return out
}

func isTxEvent(e Event) bool {
	if e.Kind == "begin" || e.Kind == "commit" || e.Kind == "rollback" {
		return true
	}
	u := strings.ToUpper(strings.TrimSpace(e.SQL))
	return (e.Kind == "exec") && (strings.HasPrefix(u, "SAVEPOINT") || strings.HasPrefix(u, "ROLLBACK TO"))
}
