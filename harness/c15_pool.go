package main

// C15 round 3 — the "wide" world shared by the pooled-holder suites (this file: `pool` — one goroutine against an
// ADVERSARIAL but contract-abiding pool; c15_conc.go: `conc` — k goroutines on the real sync.Pool).
//
// Two tables (c15_wide_a / c15_wide_b) of one model with 15 columns of mixed Go types, two of most types (int64,
// string, *int64, *string, sql.NullInt64, sql.NullString, float64, bool, uint32, []byte and a Scanner-typed last
// column).  Every cell is a pure function of (table, id, column) — `c15WCell` IS the sorted in-memory reference —
// so a value that belongs to another row, another column of the same Go type, another table or another query is
// visible as a mismatch.  NULLs sit at fixed residues of the id in every nullable column.
//
// Read paths (c15WRun): Find into structs / pointers / maps, Rows+ScanRows, Scan into a smaller struct, Pluck per
// column, First / Take / Last, FindInBatches, Count — over chains `id > g`, `id <= l`, Order(id | id desc), Limit,
// Select lists (any order, with an extra expression column that has no field).
//
// The pool contract.  scan.go scanIntoStruct borrows its per-column scan holders from field.NewValuePool, a
// process-wide sync.Pool shared by all goroutines; whoever Puts a holder back must not touch it again, and whoever
// Gets it may write to it at once.  `pool` replaces the (exported, interface-typed) NewValuePool of the model's fields
// by a recording wrapper around the real pool whose environment does exactly what a concurrent reader is allowed to
// do: the moment a holder is Put it is overwritten with a foreign value, and again whenever the reader is INSIDE
// rows.Scan (the last column's type implements sql.Scanner: its Scan method is the hook) for every holder that is in
// the pool at that moment.  A reader that respects the contract cannot notice; one that keeps using a holder after
// Put (Get hoisted out of the row loop, Put deferred / moved before field.Set, double Put …) delivers the foreign
// value DETERMINISTICALLY — no scheduler luck involved.
//   e2e (`pool`): the delivered rows / values / RowsAffected / error equal the in-memory reference.
//   correspondence (`pool.trace`): the recorded Get / rows.Scan / Put sequence (slot = column index) of every
//   struct-destination result set equals Gorm.ScanPool.rowsRun of the REGENERATED statement order
//   (Gen.scanIntoStructOrder) for the same field columns and row count.

import (
	"database/sql"
	"database/sql/driver"
	"encoding/json"
	"fmt"
	"math/rand"
	"os"
	"reflect"
	"runtime"
	"sort"
	"strings"
	"sync"
	"sync/atomic"

	sqlite3 "github.com/mattn/go-sqlite3"
	"gorm.io/driver/sqlite"
	"gorm.io/gorm"
	"gorm.io/gorm/logger"
	"gorm.io/gorm/schema"
)

// ---- the Scanner-typed column: its Scan runs INSIDE rows.Scan ---------------------------------------------------

type c15Gate int64

var c15GateHook atomic.Value // func()

func (g *c15Gate) Scan(src interface{}) error {
	if f, ok := c15GateHook.Load().(func()); ok && f != nil {
		f()
	}
	switch v := src.(type) {
	case int64:
		*g = c15Gate(v)
	case nil:
		*g = 0
	default:
		return fmt.Errorf("c15Gate: unexpected source %T", src)
	}
	return nil
}

func (g c15Gate) Value() (driver.Value, error) { return int64(g), nil }

// ---- model -------------------------------------------------------------------------------------------------------

type C15Wide struct {
	ID int64 `gorm:"primaryKey"`
	I1 int64
	I2 int64
	S1 string
	S2 string
	P1 *int64
	P2 *string
	N1 sql.NullInt64
	N2 sql.NullString
	F1 float64
	B1 bool
	U1 uint32
	Y1 []byte
	S3 string
	G  c15Gate
}

func (C15Wide) TableName() string { return "c15_wide_a" }

type c15WideSmall struct {
	ID int64
	S2 string
	I2 int64
	N2 sql.NullString
	G  c15Gate
}

var c15WCols = []string{"id", "i1", "i2", "s1", "s2", "p1", "p2", "n1", "n2", "f1", "b1", "u1", "y1", "s3", "g"}
var c15WSmallCols = []string{"id", "s2", "i2", "n2", "g"}
var c15WTables = []string{"c15_wide_a", "c15_wide_b"}

// c15WCell: canonical text of cell (table, id, col) — the in-memory reference.  "NULL" for SQL NULL.
func c15WCell(tbl int, id int64, col string) string {
	base := int64(tbl+1)*1000000 + id*100
	switch col {
	case "id":
		return fmt.Sprint(id)
	case "i1":
		return fmt.Sprint(base + 1)
	case "i2":
		return fmt.Sprint(base + 2)
	case "s1":
		return fmt.Sprintf("t%d-r%d-s1", tbl, id)
	case "s2":
		return fmt.Sprintf("t%d-r%d-s2", tbl, id)
	case "s3":
		return fmt.Sprintf("t%d-r%d-s3", tbl, id)
	case "p1":
		if (id+1)%4 == 0 {
			return "NULL"
		}
		return fmt.Sprint(base + 3)
	case "p2":
		if (id+2)%4 == 0 {
			return "NULL"
		}
		return fmt.Sprintf("t%d-r%d-p2", tbl, id)
	case "n1":
		if id%3 == 0 {
			return "NULL"
		}
		return fmt.Sprint(base + 4)
	case "n2":
		if id%5 == 0 {
			return "NULL"
		}
		return fmt.Sprintf("t%d-r%d-n2", tbl, id)
	case "f1":
		return fmt.Sprint(base + 5) // stored as base+5 + 0.5
	case "b1":
		if (id+int64(tbl))%2 == 0 {
			return "1"
		}
		return "0"
	case "u1":
		return fmt.Sprint((base + 6) % 4000000000)
	case "y1":
		return fmt.Sprintf("t%d-r%d-y1", tbl, id)
	case "g":
		return fmt.Sprint(base + 9)
	case "extra":
		return fmt.Sprint(id + 1)
	}
	panic("c15WCell: column " + col)
}

func c15WRecord(tbl int, id int64) C15Wide {
	base := int64(tbl+1)*1000000 + id*100
	x := C15Wide{ID: id, I1: base + 1, I2: base + 2, S1: c15WCell(tbl, id, "s1"), S2: c15WCell(tbl, id, "s2"), S3: c15WCell(tbl, id, "s3"),
		F1: float64(base+5) + 0.5, B1: (id+int64(tbl))%2 == 0, U1: uint32((base + 6) % 4000000000), Y1: []byte(c15WCell(tbl, id, "y1")), G: c15Gate(base + 9)}
	if (id+1)%4 != 0 {
		v := base + 3
		x.P1 = &v
	}
	if (id+2)%4 != 0 {
		v := c15WCell(tbl, id, "p2")
		x.P2 = &v
	}
	if id%3 != 0 {
		x.N1 = sql.NullInt64{Int64: base + 4, Valid: true}
	}
	if id%5 != 0 {
		x.N2 = sql.NullString{String: c15WCell(tbl, id, "n2"), Valid: true}
	}
	return x
}

// canonical text of a delivered Go value (struct field, map entry, plucked element)
func c15WText(v interface{}) string {
	switch x := v.(type) {
	case nil:
		return "NULL"
	case int64:
		return fmt.Sprint(x)
	case int:
		return fmt.Sprint(x)
	case uint32:
		return fmt.Sprint(x)
	case uint64:
		return fmt.Sprint(x)
	case float64:
		return fmt.Sprint(int64(x)) // the table stores n + 0.5
	case bool:
		if x {
			return "1"
		}
		return "0"
	case string:
		return x
	case []byte:
		if x == nil {
			return "NULL"
		}
		return string(x)
	case c15Gate:
		return fmt.Sprint(int64(x))
	case *int64:
		if x == nil {
			return "NULL"
		}
		return fmt.Sprint(*x)
	case *string:
		if x == nil {
			return "NULL"
		}
		return *x
	case sql.NullInt64:
		if !x.Valid {
			return "NULL"
		}
		return fmt.Sprint(x.Int64)
	case sql.NullString:
		if !x.Valid {
			return "NULL"
		}
		return x.String
	case sql.NullFloat64:
		if !x.Valid {
			return "NULL"
		}
		return fmt.Sprint(int64(x.Float64))
	case sql.NullBool:
		if !x.Valid {
			return "NULL"
		}
		if x.Bool {
			return "1"
		}
		return "0"
	}
	rv := reflect.ValueOf(v)
	if rv.Kind() == reflect.Ptr {
		if rv.IsNil() {
			return "NULL"
		}
		return c15WText(rv.Elem().Interface())
	}
	return fmt.Sprintf("<%T:%v>", v, v)
}

type c15WElem map[string]string

func c15WOfRec(x *C15Wide) c15WElem {
	return c15WElem{"id": c15WText(x.ID), "i1": c15WText(x.I1), "i2": c15WText(x.I2), "s1": x.S1, "s2": x.S2, "s3": x.S3, "p1": c15WText(x.P1),
		"p2": c15WText(x.P2), "n1": c15WText(x.N1), "n2": c15WText(x.N2), "f1": c15WText(x.F1), "b1": c15WText(x.B1), "u1": c15WText(x.U1),
		"y1": c15WText(x.Y1), "g": c15WText(x.G)}
}

func c15WOfSmall(x *c15WideSmall) c15WElem {
	return c15WElem{"id": c15WText(x.ID), "s2": x.S2, "i2": c15WText(x.I2), "n2": c15WText(x.N2), "g": c15WText(x.G)}
}

func c15WOfMap(m map[string]interface{}) c15WElem {
	e := c15WElem{}
	for k, v := range m {
		e[k] = c15WText(v)
	}
	return e
}

// ---- chains and paths ----------------------------------------------------------------------------------------------

type c15WSpec struct {
	Tbl   int      `json:"tbl"`
	Path  string   `json:"path"`
	Gt    int64    `json:"gt,omitempty"`
	Le    int64    `json:"le,omitempty"` // 0 = absent
	Desc  bool     `json:"desc,omitempty"`
	Limit int      `json:"limit,omitempty"` // 0 = absent
	Cols  []string `json:"cols,omitempty"`  // Select list (nil = *); may contain "extra" = `id + 1 AS extra`
	Batch int      `json:"batch,omitempty"`
	Pluck string   `json:"pluck,omitempty"`
}

var c15WPaths = []string{"find.structs", "find.ptrs", "find.maps", "rows.scanrows", "scan.small", "scan.structs", "pluck", "first", "take", "last", "batches", "count"}

// struct-destination paths whose rows go through scanIntoStruct with pooled holders
func c15WPooled(p string) bool {
	switch p {
	case "find.structs", "find.ptrs", "rows.scanrows", "scan.small", "scan.structs", "first", "take", "last", "batches":
		return true
	}
	return false
}

func (s c15WSpec) ids(n int) []int64 {
	var out []int64
	for id := int64(1); id <= int64(n); id++ {
		if id > s.Gt && (s.Le == 0 || id <= s.Le) {
			out = append(out, id)
		}
	}
	if s.Desc {
		for i, j := 0, len(out)-1; i < j; i, j = i+1, j-1 {
			out[i], out[j] = out[j], out[i]
		}
	}
	return out
}

// expected ids of the path (First/Last override the ordering as documented: lowest / highest key)
func (s c15WSpec) expectIDs(n int) []int64 {
	ids := s.ids(n)
	if s.Path == "first" || s.Path == "last" || s.Path == "take" {
		s.Desc = false
		ids = s.ids(n)
	}
	lim := func(x []int64) []int64 {
		if s.Limit > 0 && len(x) > s.Limit {
			return x[:s.Limit]
		}
		return x
	}
	switch s.Path {
	case "first", "last", "take":
		// chains for single-record finders carry no user ordering and no limit (generator)
		if len(ids) == 0 {
			return nil
		}
		if s.Path == "last" {
			return ids[len(ids)-1:]
		}
		return ids[:1]
	}
	return lim(ids)
}

func (s c15WSpec) cols() []string {
	switch s.Path {
	case "scan.small":
		return c15WSmallCols
	case "pluck":
		return []string{s.Pluck}
	}
	if len(s.Cols) > 0 {
		return s.Cols
	}
	return c15WCols
}

func (s c15WSpec) chain(db *gorm.DB) *gorm.DB {
	tx := db.Model(&C15Wide{}).Table(c15WTables[s.Tbl])
	if len(s.Cols) > 0 && s.Path != "pluck" && s.Path != "count" {
		sel := make([]string, len(s.Cols))
		for i, c := range s.Cols {
			if c == "extra" {
				sel[i] = "id + 1 AS extra"
			} else {
				sel[i] = c
			}
		}
		tx = tx.Select(strings.Join(sel, ", "))
	}
	if s.Gt > 0 {
		tx = tx.Where("id > ?", s.Gt)
	}
	if s.Le > 0 {
		tx = tx.Where("id <= ?", s.Le)
	}
	switch s.Path {
	case "first", "last", "take", "count", "batches":
	default:
		if s.Desc {
			tx = tx.Order("id desc")
		} else {
			tx = tx.Order("id")
		}
		if s.Limit > 0 {
			tx = tx.Limit(s.Limit)
		}
	}
	return tx
}

type c15WObs struct {
	Elems []c15WElem `json:"elems"`
	RA    int64      `json:"ra"`
	Err   string     `json:"err,omitempty"`
	Count int64      `json:"count,omitempty"`
	Sizes []int      `json:"sizes,omitempty"`
}

// c15WRun executes one read path into a FRESH destination of its own and returns what it delivered.
func c15WRun(db *gorm.DB, s c15WSpec) (o *c15WObs) {
	o = &c15WObs{}
	defer func() { // a reader that panics has not reported the rows either
		if p := recover(); p != nil {
			o.Err = fmt.Sprint("panic: ", p)
		}
	}()
	tx := s.chain(db)
	var res *gorm.DB
	switch s.Path {
	case "find.structs":
		var d []C15Wide
		res = tx.Find(&d)
		for i := range d {
			o.Elems = append(o.Elems, c15WOfRec(&d[i]))
		}
	case "find.ptrs":
		var d []*C15Wide
		res = tx.Find(&d)
		for _, p := range d {
			if p == nil {
				o.Elems = append(o.Elems, c15WElem{"id": "<nil element>"})
				continue
			}
			o.Elems = append(o.Elems, c15WOfRec(p))
		}
	case "find.maps":
		var d []map[string]interface{}
		res = tx.Find(&d)
		for _, m := range d {
			o.Elems = append(o.Elems, c15WOfMap(m))
		}
	case "scan.structs":
		var d []C15Wide
		res = tx.Scan(&d)
		for i := range d {
			o.Elems = append(o.Elems, c15WOfRec(&d[i]))
		}
	case "scan.small":
		var d []c15WideSmall
		res = tx.Scan(&d)
		for i := range d {
			o.Elems = append(o.Elems, c15WOfSmall(&d[i]))
		}
	case "rows.scanrows":
		rows, err := tx.Rows()
		if err != nil {
			o.Err = err.Error()
			return o
		}
		for rows.Next() {
			var x C15Wide
			if err := db.ScanRows(rows, &x); err != nil {
				o.Err = err.Error()
				break
			}
			o.Elems = append(o.Elems, c15WOfRec(&x))
			o.RA++
		}
		if err := rows.Err(); err != nil && o.Err == "" {
			o.Err = err.Error()
		}
		rows.Close()
		return o
	case "pluck":
		var got []interface{}
		switch s.Pluck {
		case "i1", "i2", "id":
			var d []int64
			res = tx.Pluck(s.Pluck, &d)
			for _, v := range d {
				got = append(got, v)
			}
		case "p1", "n1":
			var d []sql.NullInt64
			res = tx.Pluck(s.Pluck, &d)
			for _, v := range d {
				got = append(got, v)
			}
		case "p2", "n2":
			var d []sql.NullString
			res = tx.Pluck(s.Pluck, &d)
			for _, v := range d {
				got = append(got, v)
			}
		default:
			var d []string
			res = tx.Pluck(s.Pluck, &d)
			for _, v := range d {
				got = append(got, v)
			}
		}
		for _, v := range got {
			o.Elems = append(o.Elems, c15WElem{s.Pluck: c15WText(v)})
		}
	case "first", "take", "last":
		var x C15Wide
		switch s.Path {
		case "first":
			res = tx.First(&x)
		case "take":
			res = tx.Take(&x)
		default:
			res = tx.Last(&x)
		}
		if res.Error == nil {
			o.Elems = append(o.Elems, c15WOfRec(&x))
		}
	case "batches":
		var d []C15Wide
		res = tx.FindInBatches(&d, s.Batch, func(_ *gorm.DB, _ int) error {
			o.Sizes = append(o.Sizes, len(d))
			if len(o.Sizes) > 400 { // a corrupted key makes the cursor stand still: stop, the judge sees the surplus
				return fmt.Errorf("c15: FindInBatches is still running after 400 batches")
			}
			for i := range d {
				o.Elems = append(o.Elems, c15WOfRec(&d[i]))
			}
			return nil
		})
	case "count":
		res = tx.Count(&o.Count)
		o.RA = -1
		if res.Error != nil {
			o.Err = res.Error.Error()
		}
		return o
	default:
		panic("c15WRun: path " + s.Path)
	}
	o.RA = res.RowsAffected
	if res.Error != nil {
		o.Err = res.Error.Error()
	}
	return o
}

// c15WJudge: the delivered rows / values equal the reference.  LATITUDE: `take` without ordering may return any
// matching row (the property fixes First and Last only) — its values must still be those of the row whose id it
// reports; a not-found error is expected exactly for a single-record finder that matches nothing; FindInBatches
// delivers in key order whatever Desc says (the chain carries no user ordering on that path).
func c15WJudge(s c15WSpec, n int, o *c15WObs) string {
	exp := s.expectIDs(n)
	single := s.Path == "first" || s.Path == "take" || s.Path == "last"
	if s.Path == "count" {
		if o.Err != "" {
			return "Count failed: " + o.Err
		}
		if int(o.Count) != len(s.ids(n)) {
			return fmt.Sprintf("Count = %d, the chain matches %d rows", o.Count, len(s.ids(n)))
		}
		return ""
	}
	if s.Path == "batches" {
		exp = c15WSpec{Tbl: s.Tbl, Gt: s.Gt, Le: s.Le}.ids(n)
		for _, z := range o.Sizes {
			if z == 0 || z > s.Batch {
				return fmt.Sprintf("batch of %d rows (requested %d)", z, s.Batch)
			}
		}
	}
	if single && len(exp) == 0 {
		if o.Err != gorm.ErrRecordNotFound.Error() {
			return fmt.Sprintf("nothing matches but the error is %q, want record not found", o.Err)
		}
		return ""
	}
	if o.Err != "" {
		return "unexpected error: " + o.Err
	}
	if len(o.Elems) != len(exp) {
		return fmt.Sprintf("%d rows delivered, the reference has %d", len(o.Elems), len(exp))
	}
	if o.RA != int64(len(exp)) {
		return fmt.Sprintf("RowsAffected %d, rows returned %d", o.RA, len(exp))
	}
	cols := s.cols()
	for k, e := range o.Elems {
		id := exp[k]
		if s.Path == "take" {
			// any matching row: identify it by the id it reports
			var rid int64
			fmt.Sscan(e["id"], &rid)
			ok := false
			for _, x := range s.ids(n) {
				if x == rid {
					ok = true
				}
			}
			if !ok {
				return fmt.Sprintf("Take delivered id %s which the chain does not match", e["id"])
			}
			id = rid
		}
		for _, c := range cols {
			got, present := e[c]
			if !present {
				if c == "extra" { // no field for it in a struct destination
					continue
				}
				return fmt.Sprintf("row %d (id %d): column %q missing from the delivered element", k, id, c)
			}
			if want := c15WCell(s.Tbl, id, c); got != want {
				return fmt.Sprintf("row %d (id %d of %s): column %q delivered as %q, table has %q", k, id, c15WTables[s.Tbl], c, got, want)
			}
		}
	}
	return ""
}

func c15WGenSpec(rng *rand.Rand, n int, paths []string) c15WSpec {
	s := c15WSpec{Tbl: rng.Intn(2), Path: paths[rng.Intn(len(paths))]}
	if rng.Intn(3) > 0 {
		s.Gt = int64(rng.Intn(n/2 + 1))
	}
	if rng.Intn(4) == 0 {
		s.Le = s.Gt + 2 + int64(rng.Intn(n))
	}
	s.Desc = rng.Intn(3) == 0
	if rng.Intn(4) == 0 {
		s.Limit = 2 + rng.Intn(n)
	}
	switch s.Path {
	case "find.structs", "find.ptrs", "find.maps", "scan.structs", "rows.scanrows":
		if rng.Intn(3) == 0 { // a Select list in any order, always with the key, sometimes with a field-less column
			perm := rng.Perm(len(c15WCols))
			k := 3 + rng.Intn(len(c15WCols)-3)
			cols := []string{}
			hasID := false
			for _, p := range perm[:k] {
				cols = append(cols, c15WCols[p])
				hasID = hasID || c15WCols[p] == "id"
			}
			if !hasID {
				cols = append(cols, "id")
			}
			if rng.Intn(2) == 0 {
				at := rng.Intn(len(cols) + 1)
				cols = append(cols[:at], append([]string{"extra"}, cols[at:]...)...)
			}
			// the Scanner-typed column is always read (its Scan is the hook inside rows.Scan), mostly last
			kept := []string{}
			for _, c := range cols {
				if c != "g" {
					kept = append(kept, c)
				}
			}
			at := len(kept)
			if rng.Intn(4) == 0 {
				at = rng.Intn(len(kept) + 1)
			}
			cols = append(kept[:at:at], append([]string{"g"}, kept[at:]...)...)
			s.Cols = cols
		}
	case "scan.small":
		s.Cols = c15WSmallCols
	case "pluck":
		s.Pluck = c15WCols[rng.Intn(len(c15WCols)-1)] // not the gate column: Pluck into []string
		if s.Pluck == "f1" || s.Pluck == "b1" || s.Pluck == "u1" {
			s.Pluck = "s2"
		}
	case "batches":
		s.Batch = 2 + rng.Intn(n/2+1)
		s.Desc = false
	}
	return s
}

// ---- world -------------------------------------------------------------------------------------------------------

type c15WWorld struct {
	sqlDB *sql.DB
	db    *gorm.DB
	n     int
}

var c15WCounter int64

func c15WOpen(n, conns int) *c15WWorld {
	k := atomic.AddInt64(&c15WCounter, 1)
	sqlDB, err := sql.Open("sqlite3", fmt.Sprintf("file:c15wide%d?mode=memory&cache=shared", k))
	if err != nil {
		panic(err)
	}
	_ = sqlite3.SQLiteDriver{}
	sqlDB.SetMaxOpenConns(conns)
	sqlDB.SetMaxIdleConns(conns)
	db, err := gorm.Open(sqlite.Dialector{Conn: sqlDB}, &gorm.Config{Logger: logger.Discard})
	if err != nil {
		panic(err)
	}
	w := &c15WWorld{sqlDB: sqlDB, db: db, n: n}
	for t, name := range c15WTables {
		if err := db.Table(name).AutoMigrate(&C15Wide{}); err != nil {
			panic(err)
		}
		recs := make([]C15Wide, n)
		for i := range recs {
			recs[i] = c15WRecord(t, int64(i+1))
		}
		if err := db.Table(name).CreateInBatches(&recs, 50).Error; err != nil {
			panic(err)
		}
	}
	return w
}

func (w *c15WWorld) close() { w.sqlDB.Close() }

// ---- the adversarial pool ------------------------------------------------------------------------------------------

type c15PoolEv struct {
	Kind string // get | put | scan
	Col  string
}

type c15Adversary struct {
	mu     sync.Mutex
	inPool map[interface{}]bool
	trace  []c15PoolEv
	nScrib int
}

type c15AdvPool struct {
	inner schema.FieldNewValuePool
	adv   *c15Adversary
	col   string
}

func (p *c15AdvPool) Get() interface{} {
	h := p.inner.Get()
	p.adv.mu.Lock()
	delete(p.adv.inPool, h)
	p.adv.trace = append(p.adv.trace, c15PoolEv{"get", p.col})
	p.adv.mu.Unlock()
	return h
}

func (p *c15AdvPool) Put(h interface{}) {
	p.adv.mu.Lock()
	p.adv.trace = append(p.adv.trace, c15PoolEv{"put", p.col})
	if h != nil && reflect.TypeOf(h).Comparable() {
		p.adv.inPool[h] = true
		p.adv.scribble(h)
	}
	p.adv.mu.Unlock()
	p.inner.Put(h)
}

// scribble: what another goroutine that just received this holder from the pool does to it — rows.Scan of a
// foreign row writes through it.  h is a **T (or a *serializer): *h is replaced by a pointer to a poison T.
func (a *c15Adversary) scribble(h interface{}) {
	rv := reflect.ValueOf(h)
	if rv.Kind() != reflect.Ptr || rv.IsNil() {
		return
	}
	slot := rv.Elem() // *T
	if slot.Kind() != reflect.Ptr || !slot.CanSet() {
		return
	}
	v := reflect.New(slot.Type().Elem()) // new T
	c15Poison(v.Elem())
	slot.Set(v)
	a.nScrib++
}

func c15Poison(v reflect.Value) {
	switch v.Kind() {
	case reflect.Int, reflect.Int8, reflect.Int16, reflect.Int32, reflect.Int64:
		v.SetInt(-77)
	case reflect.Uint, reflect.Uint8, reflect.Uint16, reflect.Uint32, reflect.Uint64:
		v.SetUint(77)
	case reflect.Float32, reflect.Float64:
		v.SetFloat(-77.5)
	case reflect.Bool:
		v.SetBool(!v.Bool())
	case reflect.String:
		v.SetString("FOREIGN")
	case reflect.Slice:
		if v.Type().Elem().Kind() == reflect.Uint8 {
			v.SetBytes([]byte("FOREIGN"))
		}
	case reflect.Struct:
		for i := 0; i < v.NumField(); i++ {
			if f := v.Field(i); f.CanSet() {
				if f.Kind() == reflect.Bool && v.Type().Field(i).Name == "Valid" {
					f.SetBool(true)
				} else {
					c15Poison(f)
				}
			}
		}
	case reflect.Ptr:
		p := reflect.New(v.Type().Elem())
		c15Poison(p.Elem())
		v.Set(p)
	}
}

// gate: the reader is inside rows.Scan → every holder that is in the pool right now may be in another reader's hands
func (a *c15Adversary) gate() {
	a.mu.Lock()
	a.trace = append(a.trace, c15PoolEv{"scan", ""})
	for h := range a.inPool {
		a.scribble(h)
	}
	a.mu.Unlock()
}

func (a *c15Adversary) reset() {
	a.mu.Lock()
	a.trace = nil
	a.mu.Unlock()
}

func c15InstallPools(db *gorm.DB, adv *c15Adversary, models ...interface{}) {
	for _, m := range models {
		stmt := &gorm.Statement{DB: db}
		if err := stmt.Parse(m); err != nil {
			panic(err)
		}
		for _, f := range stmt.Schema.Fields {
			if _, done := f.NewValuePool.(*c15AdvPool); !done {
				f.NewValuePool = &c15AdvPool{inner: f.NewValuePool, adv: adv, col: f.DBName}
			}
		}
	}
}

// the slot-level trace of one struct-destination result set: [["get",i]…] / ["scan"] / [["put",i]…] with i = index of
// the column in the result's column list
func c15TraceJ(tr []c15PoolEv, cols []string) []interface{} {
	idx := map[string]int{}
	for i, c := range cols {
		idx[c] = i
	}
	out := []interface{}{}
	for _, e := range tr {
		if e.Kind == "scan" { // one Scanner-typed column (never NULL) ⇒ the hook runs once per rows.Scan
			out = append(out, []interface{}{"scan"})
			continue
		}
		out = append(out, []interface{}{e.Kind, idx[e.Col]})
	}
	return out
}

func init() {
	register("C15", func(r *Result, _ *rand.Rand, tier string) {
		// own stream derived from the run's seed: the older suites keep the streams they were validated with
		rng := rand.New(rand.NewSource(r.Seed*7919 + 151))
		if only := os.Getenv("C15_ONLY"); only != "" && !strings.Contains(only, "pool") {
			return
		}
		rounds, n := 500, 9
		if tier == "thorough" {
			rounds, n = 12000, 14
		} else if tier == "search" {
			rounds, n = 3000, 11
		}
		w := c15WOpen(n, 2)
		defer w.close()
		adv := &c15Adversary{inPool: map[interface{}]bool{}}
		c15InstallPools(w.db, adv, &C15Wide{}, &c15WideSmall{})
		c15GateHook.Store(func() { adv.gate() })
		defer c15GateHook.Store(func() {})
		type pend struct {
			spec  c15WSpec
			trace []interface{}
			fs    []int
			rows  int
		}
		var pends []pend
		var ops [][]interface{}
		viol := 0
		for i := 0; i < rounds && !expired(); i++ {
			s := c15WGenSpec(rng, n, c15WPaths)
			adv.reset()
			o := c15WRun(w.db, s)
			tr := append([]c15PoolEv(nil), adv.trace...)
			msg := c15WJudge(s, n, o)
			r.Case("pool", canon(s), c15WPooled(s.Path) && len(o.Elems) >= 2)
			r.H("pool.path", s.Path)
			r.H("pool.rows", fmt.Sprint(len(o.Elems)))
			if i%97 == 0 {
				r.Sample(map[string]interface{}{"suite": "pool", "input": s, "rows": len(o.Elems)})
			}
			if msg != "" && viol < 3 {
				viol++
				r.Violate(Violation{Kind: "e2e", Suite: "pool", Input: map[string]interface{}{"n": n, "spec": s}, Observed: map[string]interface{}{"judgement": msg, "delivered": o}, Expected: "the rows and values of the in-memory table",
					Note: "one goroutine; the value pools of the model's fields are wrapped by an environment that overwrites every holder the moment it is Put back and while the reader is inside rows.Scan — what a concurrent reader holding that holder would do"})
			}
			// trace correspondence for result sets that go through scanIntoStruct once per row with ONE values slice
			switch s.Path {
			case "find.structs", "find.ptrs", "scan.structs", "scan.small", "first", "take", "last":
				if o.Err == "" {
					cols := s.cols()
					fs := []int{}
					for ci, c := range cols {
						if c != "extra" {
							fs = append(fs, ci)
						}
					}
					pends = append(pends, pend{s, c15TraceJ(tr, cols), fs, len(o.Elems)})
					ops = append(ops, []interface{}{"pool.trace", fs, len(o.Elems)})
				}
			}
		}
		r.H("pool.scribbles", fmt.Sprint(adv.nScrib > 0))
		if len(ops) == 0 {
			return
		}
		outs, err := AskLean(ops)
		if err != nil {
			r.Violate(Violation{Kind: "correspondence", Suite: "pool.trace", Note: err.Error()})
			return
		}
		for i, p := range pends {
			r.CorrCompared++
			r.Case("pool.trace", canon(p.spec), p.rows >= 2)
			real, model := canon(p.trace), canonRaw(outs[i])
			if real != model {
				r.Violate(Violation{Kind: "correspondence", Suite: "pool.trace", Input: map[string]interface{}{"spec": p.spec, "fs": p.fs, "rows": p.rows}, Observed: p.trace, Expected: json.RawMessage(outs[i]),
					Note: "Get / rows.Scan / Put sequence of the real scanIntoStruct (recording pools) vs Gorm.ScanPool.rowsRun of the regenerated statement order"})
			}
		}
	})
	replayers["C15/pool"] = func(r *Result, input json.RawMessage) {
		var in struct {
			N    int      `json:"n"`
			Spec c15WSpec `json:"spec"`
		}
		if err := json.Unmarshal(input, &in); err != nil || in.N <= 0 {
			r.Note("bad replay input: %v", err)
			return
		}
		w := c15WOpen(in.N, 2)
		defer w.close()
		adv := &c15Adversary{inPool: map[interface{}]bool{}}
		c15InstallPools(w.db, adv, &C15Wide{}, &c15WideSmall{})
		c15GateHook.Store(func() { adv.gate() })
		defer c15GateHook.Store(func() {})
		o := c15WRun(w.db, in.Spec)
		r.Case("pool", canon(in.Spec), true)
		if msg := c15WJudge(in.Spec, in.N, o); msg != "" {
			r.Violate(Violation{Kind: "e2e", Suite: "pool", Input: in, Observed: map[string]interface{}{"judgement": msg, "delivered": o}, Expected: "the rows and values of the in-memory table"})
		}
	}
	_ = runtime.Gosched
	_ = sort.Strings
}
