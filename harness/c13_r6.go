package main

// C13 round 6: custom JOIN MODELS (db.SetupJoinTable) are "affected in-memory records" too.
//
// A many2many relation whose join table is a user struct registered with SetupJoinTable carries its own hooks; whenever
// an owner is created / saved / updated (also through association mode Append / Replace) with many2many elements, gorm
// builds one in-memory join record per (owner, element) pair and creates them.  The property's sentences then apply to
// these records as to any other: each applicable hook exactly once per join record, in the documented order, on the
// operation's transaction; a failing join-model hook is returned, no later phase runs, everything is rolled back;
// SkipHooks sessions run none of them; values set by a before-hook are the values stored (in the join table row).
//
// Dimensions varied: join-model variant (plain composite key / soft-deletable / pointer elements), operation (Create of
// a struct, of a value slice, of a pointer slice; Save; Updates with and without FullSaveAssociations; Association
// Append / Replace), number of elements, how many of them are already keyed rows, context (default / user transaction),
// SkipHooks, a fault at every join-model hook invocation of the failure-free run.
//
// Latitudes (nothing is demanded there):
//   - delete hooks fired on the blank join value by Association().Replace (key 0-0) are not judged;
//   - association mode (append / replace) is a sequence of operations: under a fault only "error returned + no later
//     phase for the join records" is demanded, not the roll-back of the earlier steps;
//   - CreateInBatches is a sequence of creates in one transaction: before/after phases and "no INSERT after a failed
//     before-hook" are per batch and not judged across batches; once-per-record, values stored, one transaction and the
//     complete roll-back are;
//   - hooks of the related (element) models are judged only for "at most once per phase" here (c13_graphs.go owns them).

import (
	"encoding/json"
	"errors"
	"fmt"
	"math/rand"
	"sort"
	"strings"
	"sync"

	"gorm.io/gorm"
)

type c13r6Ev struct {
	Hook string `json:"hook"`
	Kind string `json:"kind"` // owner tag link
	Rec  string `json:"rec"`
	Pool string `json:"-"`
	IsTx bool   `json:"is_tx"`
}

var (
	c13r6Mu     sync.Mutex
	c13r6Log    []c13r6Ev
	c13r6FailAt string // "<Hook>/<Rec>"
	errC13r6    = errors.New("verif: join-model hook failed")
)

func c13r6Hook(hook, kind, rec string, tx *gorm.DB) error {
	c13r6Mu.Lock()
	defer c13r6Mu.Unlock()
	_, isTx := tx.Statement.ConnPool.(gorm.TxCommitter)
	c13r6Log = append(c13r6Log, c13r6Ev{hook, kind, rec, fmt.Sprintf("%p", tx.Statement.ConnPool), isTx})
	if c13r6FailAt != "" && c13r6FailAt == hook+"/"+rec {
		return errC13r6
	}
	return nil
}

// ---- models ---------------------------------------------------------------------------------------

type C13r6Owner struct {
	ID    uint `gorm:"primaryKey"`
	Name  string
	Tags  []C13r6Tag  `gorm:"many2many:c13r6_links;"`
	STags []C13r6Tag  `gorm:"many2many:c13r6_slinks;"`
	PTags []*C13r6Tag `gorm:"many2many:c13r6_plinks;"`
}

func (o *C13r6Owner) BeforeSave(tx *gorm.DB) error   { return c13r6Hook("BeforeSave", "owner", o.Name, tx) }
func (o *C13r6Owner) BeforeCreate(tx *gorm.DB) error { return c13r6Hook("BeforeCreate", "owner", o.Name, tx) }
func (o *C13r6Owner) AfterCreate(tx *gorm.DB) error  { return c13r6Hook("AfterCreate", "owner", o.Name, tx) }
func (o *C13r6Owner) AfterSave(tx *gorm.DB) error    { return c13r6Hook("AfterSave", "owner", o.Name, tx) }
func (o *C13r6Owner) BeforeUpdate(tx *gorm.DB) error { return c13r6Hook("BeforeUpdate", "owner", o.Name, tx) }
func (o *C13r6Owner) AfterUpdate(tx *gorm.DB) error  { return c13r6Hook("AfterUpdate", "owner", o.Name, tx) }

type C13r6Tag struct {
	ID   uint `gorm:"primaryKey"`
	Name string
}

func (t *C13r6Tag) BeforeSave(tx *gorm.DB) error   { return c13r6Hook("BeforeSave", "tag", t.Name, tx) }
func (t *C13r6Tag) BeforeCreate(tx *gorm.DB) error { return c13r6Hook("BeforeCreate", "tag", t.Name, tx) }
func (t *C13r6Tag) AfterCreate(tx *gorm.DB) error  { return c13r6Hook("AfterCreate", "tag", t.Name, tx) }
func (t *C13r6Tag) AfterSave(tx *gorm.DB) error    { return c13r6Hook("AfterSave", "tag", t.Name, tx) }

func c13r6LinkName(o, t uint) string { return fmt.Sprintf("L%d-%d", o, t) }

// plain join model: composite key, a column assigned directly in BeforeCreate, one assigned by SetColumn in BeforeSave
type C13r6Link struct {
	C13r6OwnerID uint `gorm:"primaryKey"`
	C13r6TagID   uint `gorm:"primaryKey"`
	Mark         string
	Via          string
}

func (C13r6Link) TableName() string { return "c13r6_links" }
func (l *C13r6Link) BeforeSave(tx *gorm.DB) error {
	n := c13r6LinkName(l.C13r6OwnerID, l.C13r6TagID)
	tx.Statement.SetColumn("Via", "bs:"+n)
	return c13r6Hook("BeforeSave", "link", n, tx)
}
func (l *C13r6Link) BeforeCreate(tx *gorm.DB) error {
	n := c13r6LinkName(l.C13r6OwnerID, l.C13r6TagID)
	l.Mark = "bc:" + n
	return c13r6Hook("BeforeCreate", "link", n, tx)
}
func (l *C13r6Link) AfterCreate(tx *gorm.DB) error {
	return c13r6Hook("AfterCreate", "link", c13r6LinkName(l.C13r6OwnerID, l.C13r6TagID), tx)
}
func (l *C13r6Link) AfterSave(tx *gorm.DB) error {
	return c13r6Hook("AfterSave", "link", c13r6LinkName(l.C13r6OwnerID, l.C13r6TagID), tx)
}
func (l *C13r6Link) BeforeDelete(tx *gorm.DB) error {
	return c13r6Hook("BeforeDelete", "link", c13r6LinkName(l.C13r6OwnerID, l.C13r6TagID), tx)
}
func (l *C13r6Link) AfterDelete(tx *gorm.DB) error {
	return c13r6Hook("AfterDelete", "link", c13r6LinkName(l.C13r6OwnerID, l.C13r6TagID), tx)
}

// soft-deletable join model
type C13r6SLink struct {
	C13r6OwnerID uint `gorm:"primaryKey"`
	C13r6TagID   uint `gorm:"primaryKey"`
	Mark         string
	Via          string
	DeletedAt    gorm.DeletedAt
}

func (C13r6SLink) TableName() string { return "c13r6_slinks" }
func (l *C13r6SLink) BeforeSave(tx *gorm.DB) error {
	n := c13r6LinkName(l.C13r6OwnerID, l.C13r6TagID)
	tx.Statement.SetColumn("Via", "bs:"+n)
	return c13r6Hook("BeforeSave", "link", n, tx)
}
func (l *C13r6SLink) BeforeCreate(tx *gorm.DB) error {
	n := c13r6LinkName(l.C13r6OwnerID, l.C13r6TagID)
	l.Mark = "bc:" + n
	return c13r6Hook("BeforeCreate", "link", n, tx)
}
func (l *C13r6SLink) AfterCreate(tx *gorm.DB) error {
	return c13r6Hook("AfterCreate", "link", c13r6LinkName(l.C13r6OwnerID, l.C13r6TagID), tx)
}
func (l *C13r6SLink) AfterSave(tx *gorm.DB) error {
	return c13r6Hook("AfterSave", "link", c13r6LinkName(l.C13r6OwnerID, l.C13r6TagID), tx)
}
func (l *C13r6SLink) BeforeDelete(tx *gorm.DB) error {
	return c13r6Hook("BeforeDelete", "link", c13r6LinkName(l.C13r6OwnerID, l.C13r6TagID), tx)
}
func (l *C13r6SLink) AfterDelete(tx *gorm.DB) error {
	return c13r6Hook("AfterDelete", "link", c13r6LinkName(l.C13r6OwnerID, l.C13r6TagID), tx)
}

// join model of the pointer-element relation; only the create-side hooks (no save / delete hooks)
type C13r6PLink struct {
	C13r6OwnerID uint `gorm:"primaryKey"`
	C13r6TagID   uint `gorm:"primaryKey"`
	Mark         string
	Via          string
}

func (C13r6PLink) TableName() string { return "c13r6_plinks" }
func (l *C13r6PLink) BeforeCreate(tx *gorm.DB) error {
	n := c13r6LinkName(l.C13r6OwnerID, l.C13r6TagID)
	l.Mark = "bc:" + n
	tx.Statement.SetColumn("Via", "bs:"+n)
	return c13r6Hook("BeforeCreate", "link", n, tx)
}
func (l *C13r6PLink) AfterCreate(tx *gorm.DB) error {
	return c13r6Hook("AfterCreate", "link", c13r6LinkName(l.C13r6OwnerID, l.C13r6TagID), tx)
}

var c13r6Variants = map[string]struct {
	Field, Table string
	Seq          []string // the documented create sequence restricted to the hooks the join model declares
}{
	"plain": {"Tags", "c13r6_links", []string{"BeforeSave", "BeforeCreate", "AfterCreate", "AfterSave"}},
	"soft":  {"STags", "c13r6_slinks", []string{"BeforeSave", "BeforeCreate", "AfterCreate", "AfterSave"}},
	"ptr":   {"PTags", "c13r6_plinks", []string{"BeforeCreate", "AfterCreate"}},
}

// ---- case -----------------------------------------------------------------------------------------

type c13r6Case struct {
	Variant  string `json:"variant"` // plain soft ptr
	Op       string `json:"op"`      // create createvals createptrs save updates updatesfsa append replace
	K        int    `json:"k"`       // in-memory elements per owner
	Existing int    `json:"existing"`
	Ctx      string `json:"ctx,omitempty"` // "", usertx
	Skip     bool   `json:"skip,omitempty"`
	FailAt   string `json:"fail_at,omitempty"`
	// which associations the operation is told to save: "" (default), "select" (Select("Name", <rel>)),
	// "omitelems" (Omit("<rel>.*"): link the elements, do not upsert them), "omitrel" (Omit(<rel>): the relation is not saved)
	Sel string `json:"sel,omitempty"`
}

type c13r6Obs struct {
	Events   []c13r6Ev `json:"events"`
	Err      string    `json:"err"`
	ErrIs    bool      `json:"err_is_hook_error"`
	Expect   []string  `json:"expected_links"`
	Before   []string  `json:"before"`
	After    []string  `json:"after"`
	LinkSQL  int       `json:"link_inserts_sent"`
	TxPool   string    `json:"-"`
	PoolsN   int       `json:"distinct_pools"`
	AllTx    bool      `json:"all_in_tx"`
	PoolIsTx bool      `json:"pool_is_user_tx"`
}

func c13r6Dump(db *gorm.DB, rec *Recorder) []string {
	rec.mu.Lock()
	rec.Off = true
	rec.mu.Unlock()
	defer func() { rec.mu.Lock(); rec.Off = false; rec.mu.Unlock() }()
	out := []string{}
	q := func(tag, sql string, n int) {
		rows, err := db.Session(&gorm.Session{NewDB: true, SkipHooks: true}).Raw(sql).Rows()
		if err != nil {
			out = append(out, tag+" ERR "+err.Error())
			return
		}
		defer rows.Close()
		for rows.Next() {
			vals := make([]interface{}, n)
			ptrs := make([]interface{}, n)
			for i := range vals {
				ptrs[i] = &vals[i]
			}
			rows.Scan(ptrs...)
			parts := []string{tag}
			for _, v := range vals {
				if b, ok := v.([]byte); ok {
					v = string(b)
				}
				parts = append(parts, fmt.Sprint(v))
			}
			out = append(out, strings.Join(parts, "|"))
		}
	}
	q("owner", "SELECT id, name FROM c13r6_owners ORDER BY id", 2)
	q("tag", "SELECT id, name FROM c13r6_tags ORDER BY id", 2)
	q("c13r6_links", "SELECT c13r6_owner_id, c13r6_tag_id, mark, via FROM c13r6_links ORDER BY 1, 2", 4)
	q("c13r6_slinks", "SELECT c13r6_owner_id, c13r6_tag_id, mark, via, deleted_at IS NULL FROM c13r6_slinks ORDER BY 1, 2", 5)
	q("c13r6_plinks", "SELECT c13r6_owner_id, c13r6_tag_id, mark, via FROM c13r6_plinks ORDER BY 1, 2", 4)
	return out
}

func c13r6Run(c c13r6Case) (obs c13r6Obs) {
	v := c13r6Variants[c.Variant]
	db, rec, sqlDB := OpenRec(&gorm.Config{NowFunc: fixedNowFunc})
	defer sqlDB.Close()
	for f, jm := range map[string]interface{}{"Tags": &C13r6Link{}, "STags": &C13r6SLink{}, "PTags": &C13r6PLink{}} {
		if err := db.SetupJoinTable(&C13r6Owner{}, f, jm); err != nil {
			panic(err)
		}
	}
	if err := db.AutoMigrate(&C13r6Owner{}, &C13r6Tag{}, &C13r6Link{}, &C13r6SLink{}, &C13r6PLink{}); err != nil {
		panic(err)
	}
	quiet := db.Session(&gorm.Session{SkipHooks: true})
	for i := 0; i < c.Existing; i++ {
		quiet.Create(&C13r6Tag{Name: fmt.Sprint("e", i)})
	}
	onExisting := c.Op == "save" || c.Op == "updates" || c.Op == "updatesfsa" || c.Op == "append" || c.Op == "replace"
	if onExisting {
		quiet.Create(&C13r6Owner{Name: "own"})
		pre := C13r6Tag{Name: "pre"}
		quiet.Create(&pre)
		quiet.Exec("INSERT INTO "+v.Table+" (c13r6_owner_id, c13r6_tag_id, mark, via) VALUES (1, ?, 'pre', 'pre')", pre.ID)
	}
	mkElems := func(prefix string) []C13r6Tag {
		out := make([]C13r6Tag, c.K)
		for i := range out {
			if i < c.Existing {
				out[i] = C13r6Tag{ID: uint(i + 1), Name: fmt.Sprint("e", i)}
			} else {
				out[i] = C13r6Tag{Name: fmt.Sprint(prefix, i)}
			}
		}
		return out
	}
	setElems := func(o *C13r6Owner, elems []C13r6Tag) {
		switch c.Variant {
		case "plain":
			o.Tags = elems
		case "soft":
			o.STags = elems
		default:
			for i := range elems {
				o.PTags = append(o.PTags, &elems[i])
			}
		}
	}
	getElems := func(o *C13r6Owner) (ids []uint) {
		for _, t := range o.Tags {
			ids = append(ids, t.ID)
		}
		for _, t := range o.STags {
			ids = append(ids, t.ID)
		}
		for _, t := range o.PTags {
			ids = append(ids, t.ID)
		}
		return
	}
	obs.Before = c13r6Dump(db, rec)
	c13r6Mu.Lock()
	c13r6Log, c13r6FailAt = nil, c.FailAt
	c13r6Mu.Unlock()
	rec.Reset()

	h := db
	if c.Ctx == "usertx" {
		h = db.Begin()
		obs.TxPool = fmt.Sprintf("%p", h.Statement.ConnPool)
	}
	base := h
	if c.Skip {
		h = h.Session(&gorm.Session{SkipHooks: true})
	}
	switch c.Sel {
	case "select":
		h = h.Select("Name", v.Field)
	case "omitelems":
		h = h.Omit(v.Field + ".*")
	case "omitrel":
		h = h.Omit(v.Field)
	}
	var owners []*C13r6Owner
	var opErr error
	func() {
		defer func() {
			if p := recover(); p != nil {
				opErr = fmt.Errorf("PANIC escaped from the operation: %v", p)
			}
		}()
		switch c.Op {
		case "create":
			o := &C13r6Owner{Name: "a"}
			setElems(o, mkElems("n"))
			owners = []*C13r6Owner{o}
			opErr = h.Create(o).Error
		case "createvals":
			os := []C13r6Owner{{Name: "a"}, {Name: "b"}}
			setElems(&os[0], mkElems("n"))
			setElems(&os[1], mkElems("m"))
			owners = []*C13r6Owner{&os[0], &os[1]}
			opErr = h.Create(&os).Error
		case "createbatches":
			os := []*C13r6Owner{{Name: "a"}, {Name: "b"}, {Name: "c"}}
			setElems(os[0], mkElems("n"))
			setElems(os[1], mkElems("m"))
			setElems(os[2], mkElems("l"))
			owners = os
			opErr = h.CreateInBatches(&os, 2).Error
		case "createptrs":
			os := []*C13r6Owner{{Name: "a"}, {Name: "b"}}
			setElems(os[0], mkElems("n"))
			setElems(os[1], mkElems("m"))
			owners = os
			opErr = h.Create(&os).Error
		case "save", "updates", "updatesfsa":
			o := &C13r6Owner{ID: 1, Name: "own2"}
			setElems(o, mkElems("n"))
			owners = []*C13r6Owner{o}
			switch c.Op {
			case "save":
				opErr = h.Save(o).Error
			case "updates":
				opErr = h.Updates(o).Error
			default:
				opErr = h.Session(&gorm.Session{FullSaveAssociations: true}).Updates(o).Error
			}
		case "append", "replace":
			o := &C13r6Owner{ID: 1, Name: "own"}
			owners = []*C13r6Owner{o}
			elems := mkElems("n")
			var arg interface{} = &elems
			if c.Variant == "ptr" {
				ps := []*C13r6Tag{}
				for i := range elems {
					ps = append(ps, &elems[i])
				}
				arg = &ps
			}
			if c.Op == "append" {
				opErr = h.Model(o).Association(v.Field).Append(arg)
			} else {
				opErr = h.Model(o).Association(v.Field).Replace(arg)
			}
		}
	}()
	if c.Ctx == "usertx" {
		if opErr != nil {
			base.Rollback()
		} else {
			base.Commit()
		}
	}
	if opErr != nil {
		obs.Err = opErr.Error()
		obs.ErrIs = c13ErrCarries(opErr, errC13r6)
	}
	c13r6Mu.Lock()
	obs.Events = append([]c13r6Ev{}, c13r6Log...)
	c13r6Log, c13r6FailAt = nil, ""
	c13r6Mu.Unlock()
	for _, e := range rec.Snapshot() {
		if strings.Contains(e.SQL, "INSERT INTO `"+v.Table+"`") || strings.Contains(e.SQL, "INSERT INTO \""+v.Table+"\"") {
			obs.LinkSQL++
		}
	}
	pools := map[string]bool{}
	obs.AllTx, obs.PoolIsTx = true, true
	for _, e := range obs.Events {
		pools[e.Pool] = true
		if !e.IsTx {
			obs.AllTx = false
		}
		if e.Pool != obs.TxPool {
			obs.PoolIsTx = false
		}
	}
	obs.PoolsN = len(pools)
	seen := map[string]bool{}
	for _, o := range owners {
		for _, id := range getElems(o) {
			n := c13r6LinkName(o.ID, id)
			if !seen[n] {
				seen[n] = true
				obs.Expect = append(obs.Expect, n)
			}
		}
	}
	sort.Strings(obs.Expect)
	if c.Sel == "omitrel" {
		obs.Expect = nil
	}
	obs.After = c13r6Dump(db, rec)
	return
}

var c13r6IsCreateHook = map[string]bool{"BeforeSave": true, "BeforeCreate": true, "AfterCreate": true, "AfterSave": true}

// c13r6Oracle: the property, judged for the join records (and "at most once" for everybody).
func c13r6Oracle(c c13r6Case, obs c13r6Obs) string {
	v := c13r6Variants[c.Variant]
	assoc := c.Op == "append" || c.Op == "replace"
	batches := c.Op == "createbatches" // a sequence of creates inside one transaction: phases are per batch
	if strings.HasPrefix(obs.Err, "PANIC") {
		return obs.Err
	}
	if c.Skip {
		if len(obs.Events) != 0 {
			return fmt.Sprintf("hooks fired in a SkipHooks session: %v", obs.Events)
		}
		if obs.Err != "" {
			return "unexpected error: " + obs.Err
		}
		return ""
	}
	count := map[string]int{}
	for _, e := range obs.Events {
		if e.Kind == "link" && !c13r6IsCreateHook[e.Hook] {
			continue // latitude: delete hooks on the blank join value (Replace)
		}
		if e.Kind == "tag" && batches {
			continue // latitude: every batch is a create of its own; the batches hold distinct in-memory copies of a keyed element
		}
		count[e.Kind+"/"+e.Hook+"/"+e.Rec]++
	}
	for k, n := range count {
		if n > 1 {
			return "hook fired more than once for one record: " + k
		}
	}
	if c.FailAt == "" {
		if obs.Err != "" {
			return "unexpected error: " + obs.Err
		}
		if len(obs.Expect) == 0 && c.Sel != "omitrel" {
			return "no join record expected (in-memory keys missing after the operation)"
		}
		exp := map[string]bool{}
		for _, n := range obs.Expect {
			exp[n] = true
			var seq []string
			for _, e := range obs.Events {
				if e.Kind == "link" && e.Rec == n && c13r6IsCreateHook[e.Hook] {
					seq = append(seq, e.Hook)
				}
			}
			if strings.Join(seq, ",") != strings.Join(v.Seq, ",") {
				return fmt.Sprintf("join record %s saw hooks %v, documented sequence (once each) %v", n, seq, v.Seq)
			}
		}
		for _, e := range obs.Events {
			if e.Kind == "link" && c13r6IsCreateHook[e.Hook] && !exp[e.Rec] {
				return fmt.Sprintf("create hook %s fired for %s, which is not a join record of this operation %v", e.Hook, e.Rec, obs.Expect)
			}
		}
		// all before-hooks of the join records precede all their after-hooks (the INSERT lies between them)
		seenAfter := false
		for _, e := range obs.Events {
			if e.Kind != "link" || !c13r6IsCreateHook[e.Hook] {
				continue
			}
			if strings.HasPrefix(e.Hook, "After") {
				seenAfter = true
			} else if seenAfter && !batches {
				return "a join-record before-hook fired after a join-record after-hook"
			}
		}
		// the operation's own transaction
		if !obs.AllTx {
			return "a hook ran outside a transaction"
		}
		if c.Ctx == "usertx" && !obs.PoolIsTx {
			return "a hook did not run on the user transaction the operation was issued on"
		}
		if !assoc && obs.PoolsN != 1 {
			return fmt.Sprintf("hooks of one operation ran on %d different transactions", obs.PoolsN)
		}
		// values set by the before-hooks are the values stored
		rows := map[string]string{}
		for _, row := range obs.After {
			p := strings.Split(row, "|")
			if p[0] == v.Table {
				rows["L"+p[1]+"-"+p[2]] = row
			}
		}
		for _, n := range obs.Expect {
			row, ok := rows[n]
			if !ok {
				return "join row " + n + " is not stored"
			}
			p := strings.Split(row, "|")
			if p[3] != "bc:"+n || p[4] != "bs:"+n {
				return "values set by the join model's before-hooks are not the values stored: " + row
			}
			if c.Variant == "soft" && p[5] != "1" {
				return "freshly created join row is soft-deleted: " + row
			}
		}
		return ""
	}
	// a failure injected at a join-model hook
	if obs.Err == "" || !obs.ErrIs {
		return "join-model hook error not returned: " + obs.Err
	}
	fh := strings.Split(c.FailAt, "/")[0]
	failed := -1
	for i, e := range obs.Events {
		if e.Kind == "link" && e.Hook+"/"+e.Rec == c.FailAt {
			failed = i
			break
		}
	}
	if failed < 0 {
		return "the failing invocation " + c.FailAt + " never happened"
	}
	for _, e := range obs.Events[failed+1:] {
		if !c13r6IsCreateHook[e.Hook] && e.Hook != "AfterUpdate" {
			continue
		}
		switch {
		case e.Kind == "link" && strings.HasPrefix(fh, "Before") && strings.HasPrefix(e.Hook, "After"):
			return fmt.Sprintf("join-record hook %s/%s of a later phase ran after %s failed", e.Hook, e.Rec, c.FailAt)
		case e.Kind == "owner" && strings.HasPrefix(e.Hook, "After") && !assoc:
			return fmt.Sprintf("owner hook %s/%s (a later phase of the operation) ran after %s failed", e.Hook, e.Rec, c.FailAt)
		}
	}
	if strings.HasPrefix(fh, "Before") && obs.LinkSQL > 0 && !batches {
		return "the join-table INSERT was sent although a before-hook of a join record failed"
	}
	if !assoc && strings.Join(obs.Before, "\n") != strings.Join(obs.After, "\n") {
		return "database changed although a join-model hook failed"
	}
	return ""
}

func c13r6Judge(r *Result, c c13r6Case) c13r6Obs {
	obs := c13r6Run(c)
	kind := "plain"
	if c.Skip {
		kind = "skip"
	} else if c.FailAt != "" {
		kind = "failing-join-hook"
	}
	r.Case("joinmodel", canon(c), true)
	r.H("r6.kind", kind)
	r.H("r6.op", c.Op)
	r.H("r6.variant", c.Variant)
	r.H("r6.ctx", "ctx:"+c.Ctx)
	r.H("r6.sel", "sel:"+c.Sel)
	r.H("r6.k/existing", fmt.Sprint(c.K, "/", c.Existing))
	if v := c13r6Oracle(c, obs); v != "" {
		r.Violate(Violation{Kind: "e2e", Suite: "joinmodel", Input: c, Observed: obs, Expected: v})
	}
	return obs
}

func c13r6Suite(r *Result, rng *rand.Rand, tier string) {
	maxK, faultsPer := 3, 3
	if tier != "quick" {
		maxK, faultsPer = 4, 1000
	}
	n := 0
	for _, variant := range []string{"plain", "soft", "ptr"} {
		for _, op := range []string{"create", "createvals", "createptrs", "createbatches", "save", "updates", "updatesfsa", "append", "replace"} {
			for k := 1; k <= maxK; k++ {
				for ex := 0; ex <= k; ex++ {
					if ex > 1 && ex < k {
						continue
					}
					for _, ctx := range []string{"", "usertx"} {
						if expired() {
							return
						}
						sel := ""
						if op != "append" && op != "replace" {
							sels := []string{"", "", "select", "omitrel"}
							if ex == k {
								sels = append(sels, "omitelems")
							}
							sel = sels[rng.Intn(len(sels))]
						}
						c := c13r6Case{Variant: variant, Op: op, K: k, Existing: ex, Ctx: ctx, Sel: sel}
						obs := c13r6Judge(r, c)
						if n%37 == 0 {
							r.Sample(map[string]interface{}{"input": c, "observed": obs})
						}
						n++
						cs := c
						cs.Skip = true
						c13r6Judge(r, cs)
						// fault points: every join-model create-hook invocation of the failure-free run
						var pts []string
						seen := map[string]bool{}
						for _, e := range obs.Events {
							if e.Kind == "link" && c13r6IsCreateHook[e.Hook] && !seen[e.Hook+"/"+e.Rec] {
								seen[e.Hook+"/"+e.Rec] = true
								pts = append(pts, e.Hook+"/"+e.Rec)
							}
						}
						rng.Shuffle(len(pts), func(i, j int) { pts[i], pts[j] = pts[j], pts[i] })
						for i, p := range pts {
							if i >= faultsPer {
								break
							}
							cf := c
							cf.FailAt = p
							c13r6Judge(r, cf)
						}
					}
				}
			}
		}
	}
}

func init() {
	replayers["C13/joinmodel"] = func(r *Result, input json.RawMessage) {
		var c c13r6Case
		if json.Unmarshal(input, &c) != nil {
			return
		}
		c13r6Judge(r, c)
	}
}
