module verif/harness

go 1.18

require (
	github.com/mattn/go-sqlite3 v1.14.24
	gorm.io/driver/sqlite v1.5.6
	gorm.io/gorm v1.25.12
)

require (
	github.com/jinzhu/inflection v1.0.0 // indirect
	github.com/jinzhu/now v1.1.5 // indirect
	golang.org/x/text v0.20.0 // indirect
)

replace gorm.io/gorm => /repo
