package main

import (
	"encoding/json"
	"fmt"
	"math/rand"
	"strings"

	"gorm.io/gorm"
	"gorm.io/gorm/logger"
)

// ---- RE-ENTRANCE (round 5): registration calls made from INSIDE a running callback ----------------
//
// Until round 5 every registration call of a history was made between executions. Here the recording stubs carry a
// SCRIPT: when the handler with id At fires during an armed run it calls Register / Before(..).Register /
// After(..).Register / Replace / Remove on the pipeline that is executing (or on another pipeline of the same DB),
// at every position of the run (first / middle / last callback, built-in or user callback, a callback that was
// itself registered from inside an earlier run): self-removal, removal of a callback that has already run / has not
// run yet, registration before / after the current position, Replace of the callback that is running, ...
//
// What the property lets the oracle demand (the sentence "the pipeline runs every registered, non-removed callback
// exactly once ..." is about the chain the calls made SO FAR have compiled):
//
//	(A) the run IN FLIGHT fires exactly the chain that was compiled when it started -- the same handlers, each once,
//	    in that order (observed: the firing order with the scripts switched off right before the run). Judged for
//	    every run that starts after a history without error (an error returned by a call made DURING the run does
//	    not excuse the run that was already under way: the pipeline it runs was compiled before).
//	(C) the NEXT run reflects the calls: the firing order after the run is judged by the history oracle of c17.go
//	    (exactly once per live name, sides, built-in order) on the FLATTENED history = the calls before the runs
//	    followed by the calls the callbacks actually made, in the order they made them. Not judged after an error.
//	(B) [tie, reported as broken correspondence] a twin DB receives the same calls between runs instead of inside
//	    them: same error per call, same chain afterwards (C17_reentrant_calls_are_a_history), and
//	(M) the Lean model (Model/CallbackExec.lean, fold over the SNAPSHOT) predicts trace / errors / both chains.
//
// Latitude: nothing is demanded of the position of a callback registered during the run relative to the run in
// flight (it does not take part); callbacks whose handler is not live never fire, their scripts never run.

type c17Inner struct {
	At    int   `json:"at"`              // id of the handler that makes the call when it fires in this run
	Other bool  `json:"other,omitempty"` // the call goes to the OTHER pipeline of the same DB
	Op    regOp `json:"op"`
}

type c17Reent struct {
	OtherPipeline string       `json:"otherPipeline,omitempty"`
	Runs          [][]c17Inner `json:"runs"` // one script per armed run
}

type c17RunObs struct {
	Dry      []int      `json:"dry"`   // firing order with the scripts off, right before the run
	Trace    []int      `json:"trace"` // handlers fired by the armed run
	Calls    []c17Inner `json:"calls"` // the calls the callbacks made, in order
	Errs     []string   `json:"errs"`  // what each returned
	After    []int      `json:"after"` // firing order (scripts off) after the run
	OAfter   []int      `json:"oafter,omitempty"`
	Twin     []int      `json:"twin"` // twin DB: firing order after the same calls made BETWEEN runs
	OTwin    []int      `json:"otwin,omitempty"`
	TwinErrs []string   `json:"twinErrs"`
	Overflow bool       `json:"overflow,omitempty"` // the run did not stop by itself (aborted after 400 firings)
}

type c17ReentObs struct {
	Runs []c17RunObs `json:"runs"`
}

type c17Overflow struct{}

func c17ProcOf(db *gorm.DB, name string) interface {
	Execute(*gorm.DB) *gorm.DB
	Get(string) func(*gorm.DB)
} {
	switch name {
	case "query":
		return db.Callback().Query()
	case "update":
		return db.Callback().Update()
	case "delete":
		return db.Callback().Delete()
	case "row":
		return db.Callback().Row()
	case "raw":
		return db.Callback().Raw()
	}
	return db.Callback().Create()
}

func c17ErrS(e error) string {
	if e != nil {
		return "conflict"
	}
	return "ok"
}

// c17ReentReal: the history c.Ops between runs, then one armed Execute per script, on the real Callback() API
func c17ReentReal(c c17Case) c17Obs {
	re := c.Reent
	type world struct {
		db    *gorm.DB
		fired []int
		armed bool
		run   int
		app   map[bool]func(regOp) error // false: the running pipeline, true: the other one
		calls []c17Inner
		errs  []string
	}
	mk := func() *world {
		db, err := gorm.Open(dummyDialector{}, &gorm.Config{SkipDefaultTransaction: c.SkipTx, Logger: logger.Discard})
		if err != nil {
			panic(err)
		}
		w := &world{db: db, app: map[bool]func(regOp) error{}}
		stub := func(id int) func(*gorm.DB) {
			return func(*gorm.DB) {
				w.fired = append(w.fired, id)
				if len(w.fired) > 400 {
					panic(c17Overflow{})
				}
				if !w.armed {
					return
				}
				for _, in := range re.Runs[w.run] {
					if in.At != id {
						continue
					}
					if in.Other && w.app[true] == nil {
						continue
					}
					e := w.app[in.Other](in.Op)
					w.calls = append(w.calls, in)
					w.errs = append(w.errs, c17ErrS(e))
				}
			}
		}
		w.app[false] = c17Applier(db, c.Pipeline, c.SkipTx, stub)
		if re.OtherPipeline != "" && re.OtherPipeline != c.Pipeline {
			w.app[true] = c17Applier(db, re.OtherPipeline, c.SkipTx, stub)
		}
		return w
	}
	exec := func(w *world, pipeline string, armed bool, run int) (fired []int, overflow bool) {
		w.fired, w.armed, w.run = []int{}, armed, run
		defer func() {
			w.armed = false
			fired = append([]int{}, w.fired...)
			if x := recover(); x != nil {
				if _, ok := x.(c17Overflow); !ok {
					panic(x)
				}
				overflow = true
			}
		}()
		c17ProcOf(w.db, pipeline).Execute(w.db.Session(&gorm.Session{NewDB: true}))
		return
	}
	main, twin := mk(), mk()
	obs := c17Obs{Errs: []string{}, Fns: []int{}, Steps: [][]int{}, Reent: &c17ReentObs{}}
	for _, o := range c.Ops {
		e := main.app[false](o)
		obs.Errs = append(obs.Errs, c17ErrS(e))
		_ = twin.app[false](o)
	}
	obs.Fns, _ = exec(main, c.Pipeline, false, 0)
	for k := range re.Runs {
		var ro c17RunObs
		ro.Dry, _ = exec(main, c.Pipeline, false, k)
		main.calls, main.errs = []c17Inner{}, []string{}
		ro.Trace, ro.Overflow = exec(main, c.Pipeline, true, k)
		ro.Calls, ro.Errs = main.calls, main.errs
		ro.After, _ = exec(main, c.Pipeline, false, k)
		ro.TwinErrs = []string{}
		for _, in := range ro.Calls { // the same calls, made between runs
			ro.TwinErrs = append(ro.TwinErrs, c17ErrS(twin.app[in.Other](in.Op)))
		}
		ro.Twin, _ = exec(twin, c.Pipeline, false, k)
		if main.app[true] != nil {
			ro.OAfter, _ = exec(main, re.OtherPipeline, false, k)
			ro.OTwin, _ = exec(twin, re.OtherPipeline, false, k)
		}
		obs.Reent.Runs = append(obs.Reent.Runs, ro)
		if ro.Overflow {
			break
		}
	}
	return obs
}

// c17ReentOracle judges (A) and (C) -- the property itself, no model. Returns the violation text, the flattened
// history it is about (for the classification of listed findings) and the observation handed to c17Oracle.
func c17ReentOracle(c c17Case, obs c17Obs) (string, *c17Case, *c17Obs) {
	if obs.Crash {
		return "registration neither returned an error nor completed (process crashed)", nil, nil
	}
	if obs.Reent == nil {
		return "", nil, nil
	}
	for _, e := range obs.Errs {
		if e != "ok" {
			return "", nil, nil // an error was returned before the first run: nothing further is demanded
		}
	}
	flat := append([]regOp{}, c.Ops...)
	var oflat []regOp
	for k, ro := range obs.Reent.Runs {
		if ro.Overflow {
			return fmt.Sprintf("run %d did not finish: more than 400 callbacks fired (chain when it started: %v)", k, ro.Dry), nil, nil
		}
		// (A) the run in flight
		if fmt.Sprint(ro.Trace) != fmt.Sprint(ro.Dry) {
			return fmt.Sprintf("run %d fired %v but the chain compiled when it started is %v: every callback registered and not removed at that time runs exactly once, in that order, whatever the callbacks register / replace / remove while the run is in flight (calls made: %s)",
				k, ro.Trace, ro.Dry, c17CallsS(ro.Calls)), nil, nil
		}
		for _, e := range ro.Errs {
			if e != "ok" {
				return "", nil, nil // a call returned an error: the property demands nothing of later runs
			}
		}
		// (C) the next run, judged on the flattened history
		for _, in := range ro.Calls {
			if in.Other {
				oflat = append(oflat, in.Op)
			} else {
				flat = append(flat, in.Op)
			}
		}
		fc := c17Case{Pipeline: c.Pipeline, SkipTx: c.SkipTx, Ops: append([]regOp{}, flat...)}
		fo := c17Obs{Errs: c17Oks(len(flat)), Fns: ro.After}
		if v := c17Oracle(fc, fo); v != "" {
			return fmt.Sprintf("after run %d (calls made from inside callbacks: %s): %s", k, c17CallsS(ro.Calls), v), &fc, &fo
		}
		if c.Reent.OtherPipeline != "" && ro.OAfter != nil {
			oc := c17Case{Pipeline: c.Reent.OtherPipeline, SkipTx: c.SkipTx, Ops: append([]regOp{}, oflat...)}
			oo := c17Obs{Errs: c17Oks(len(oflat)), Fns: ro.OAfter}
			if v := c17Oracle(oc, oo); v != "" {
				return fmt.Sprintf("pipeline %q after run %d of pipeline %q (calls made from inside its callbacks: %s): %s", oc.Pipeline, k, c.Pipeline, c17CallsS(ro.Calls), v), &oc, &oo
			}
		}
	}
	return "", nil, nil
}

func c17Oks(n int) []string {
	out := make([]string, n)
	for i := range out {
		out[i] = "ok"
	}
	return out
}

func c17CallsS(cs []c17Inner) string {
	var parts []string
	for _, in := range cs {
		s := fmt.Sprintf("[handler %d] %s(%q", in.At, in.Op.Op, in.Op.Name)
		if in.Op.Before != "" {
			s += " before=" + in.Op.Before
		}
		if in.Op.After != "" {
			s += " after=" + in.Op.After
		}
		s += ")"
		if in.Other {
			s += "@other"
		}
		parts = append(parts, s)
	}
	if len(parts) == 0 {
		return "none"
	}
	return strings.Join(parts, " ")
}

// ---- generation ---------------------------------------------------------------------------------

// c17ReentGen: random re-entrant cases. Budget: built-ins + their stub Replaces + all records <= 20 (see c17.go).
func c17ReentGen(rng *rand.Rand) c17Case {
	kinds := []string{"query", "row", "raw", "delete", "create", "update", "query", "row"}
	p := kinds[rng.Intn(len(kinds))]
	bs := c17Builtins[p]
	budget := 20 - 2*len(bs)
	skip := rng.Intn(5) == 0
	c := c17Case{Pipeline: p, SkipTx: skip, Reent: &c17Reent{}}
	// who is (probably) live: name -> hid of its handler, in registration order
	type ent struct {
		name string
		hid  int
	}
	var live []ent
	for i, b := range bs {
		if !(b.Match == "enableTransaction" && skip) {
			live = append(live, ent{b.Name, 1 + i})
		}
	}
	fresh := []string{"u1", "u2", "u3", "u4", "u5"}
	nextFresh := 0
	hidNext := 100
	names := func() []string {
		var out []string
		for _, e := range live {
			out = append(out, e.name)
		}
		return out
	}
	drop := func(n string) {
		var out []ent
		for _, e := range live {
			if e.name != n {
				out = append(out, e)
			}
		}
		live = out
	}
	// one registration call; self = name of the callback making it ("" = made between runs)
	genOp := func(self string, trackLive bool) regOp {
		ns := names()
		pick := func() string {
			if self != "" && rng.Intn(3) == 0 {
				return self
			}
			if len(ns) == 0 {
				return "nope"
			}
			return ns[rng.Intn(len(ns))]
		}
		newName := func() string {
			if nextFresh < len(fresh) {
				nextFresh++
				return fresh[nextFresh-1]
			}
			return fresh[rng.Intn(len(fresh))] // registered again (duplicate / after a Remove)
		}
		o := regOp{Hid: hidNext}
		hidNext++
		switch x := rng.Intn(100); {
		case x < 22:
			o.Op, o.Name = "remove", pick()
		case x < 34:
			o.Op, o.Name = "replace", pick()
		case x < 50:
			o.Op, o.Name = "register", newName()
		case x < 68:
			o.Op, o.Name, o.Before = "register", newName(), pick()
		case x < 86:
			o.Op, o.Name, o.After = "register", newName(), pick()
		case x < 92:
			o.Op, o.Name, o.Before, o.After = "register", newName(), pick(), pick()
		case x < 96:
			o.Op, o.Name = "register", newName()
			if rng.Intn(2) == 0 {
				o.Before = "*"
			} else {
				o.After = "*"
			}
		default:
			o.Op, o.Name, o.Before = "register", newName(), "nope"
		}
		if o.Before == o.Name {
			o.Before = ""
		}
		if o.After == o.Name || (o.After != "" && o.After == o.Before) {
			o.After = ""
		}
		if trackLive {
			switch o.Op {
			case "remove":
				drop(o.Name)
			case "replace":
				for i := range live {
					if live[i].name == o.Name {
						live[i].hid = o.Hid
					}
				}
			default:
				found := false
				for i := range live {
					if live[i].name == o.Name {
						found = true
						live[i].hid = o.Hid
					}
				}
				if !found {
					live = append(live, ent{o.Name, o.Hid})
				}
			}
		}
		if rng.Intn(2) == 0 {
			o = c17Spell(rng, o, []string{"u1", "u2", "u3", "nope"})
		}
		return o
	}
	npre := 0
	if budget > 2 {
		npre = rng.Intn(min(4, budget-1))
	}
	for i := 0; i < npre; i++ {
		o := genOp("", true)
		if o.Op == "remove" && rng.Intn(2) == 0 { // keep most of the chain alive before the runs
			o = regOp{Op: "register", Name: fresh[rng.Intn(len(fresh))], Hid: o.Hid}
			live = append(live, ent{o.Name, o.Hid})
		}
		c.Ops = append(c.Ops, o)
	}
	budget -= len(c.Ops)
	// the other pipeline
	var obs []builtin
	if rng.Intn(4) == 0 {
		for _, q := range []string{"row", "raw", "query"} {
			if q != p {
				c.Reent.OtherPipeline = q
				obs = c17Builtins[q]
				break
			}
		}
	}
	obudget := 20 - 2*len(obs)
	hidNext = 300
	nruns := 1 + rng.Intn(3)
	for k := 0; k < nruns && budget > 0; k++ {
		var script []c17Inner
		if k > 0 && rng.Intn(4) == 0 && len(c.Reent.Runs[k-1]) <= budget {
			// the callbacks do the same thing in every run (not a run-once callback)
			for _, in := range c.Reent.Runs[k-1] {
				in.Op.Hid = hidNext
				hidNext++
				script = append(script, in)
			}
		} else {
			n := 1 + rng.Intn(min(3, budget))
			for j := 0; j < n; j++ {
				if len(live) == 0 {
					break
				}
				at := live[rng.Intn(len(live))]
				switch rng.Intn(6) { // every position of the run: the first and the last callback on purpose
				case 0:
					at = live[0]
				case 1:
					at = live[len(live)-1]
				}
				if c.Reent.OtherPipeline != "" && obudget > 0 && rng.Intn(3) == 0 {
					o := regOp{Op: "register", Name: fresh[rng.Intn(3)], Hid: hidNext}
					hidNext++
					switch rng.Intn(4) {
					case 0:
						o.Before = obs[rng.Intn(len(obs))].Name
					case 1:
						o = regOp{Op: "remove", Name: obs[rng.Intn(len(obs))].Name, Hid: o.Hid}
					case 2:
						o = regOp{Op: "replace", Name: obs[rng.Intn(len(obs))].Name, Hid: o.Hid}
					}
					script = append(script, c17Inner{At: at.hid, Other: true, Op: o})
					obudget--
					continue
				}
				script = append(script, c17Inner{At: at.hid, Op: genOp(at.name, true)})
			}
		}
		budget -= len(script)
		c.Reent.Runs = append(c.Reent.Runs, script)
	}
	if len(c.Reent.Runs) == 0 {
		c.Reent.Runs = [][]c17Inner{{}}
	}
	return c
}

// c17ReentExhaustive: on the fixture  <built-ins of the pipeline> u1 u2 u3  EVERY callback of the chain makes EVERY
// call of a small universe, alone, in one run (a second run with the scripts off follows): self-removal, removal
// of each other callback (already run / not run yet), a new callback before / after each callback, plain, Replace
// of each callback (incl. the one that is running).
func c17ReentExhaustive(p string) []c17Case {
	bs := c17Builtins[p]
	pre := []regOp{{Op: "register", Name: "u1", Hid: 100}, {Op: "register", Name: "u2", Hid: 101}, {Op: "register", Name: "u3", Hid: 102}}
	type ent struct {
		name string
		hid  int
	}
	var chain []ent
	for i, b := range bs {
		chain = append(chain, ent{b.Name, 1 + i})
	}
	for _, o := range pre {
		chain = append(chain, ent{o.Name, o.Hid})
	}
	var univ []regOp
	for _, e := range chain {
		univ = append(univ, regOp{Op: "remove", Name: e.name}, regOp{Op: "replace", Name: e.name},
			regOp{Op: "register", Name: "u4", Before: e.name}, regOp{Op: "register", Name: "u4", After: e.name})
	}
	univ = append(univ, regOp{Op: "register", Name: "u4"}, regOp{Op: "register", Name: "u4", Before: "*"}, regOp{Op: "register", Name: "u4", After: "*"})
	var out []c17Case
	for _, at := range chain {
		for _, o := range univ {
			o.Hid = 300
			out = append(out, c17Case{Pipeline: p, Ops: pre, Reent: &c17Reent{Runs: [][]c17Inner{{{At: at.hid, Op: o}}, {}}}})
		}
	}
	return out
}

// c17ReentWitnesses: hand-written shapes that must always be present (run-once callback, lazy plugin initialisation,
// a callback that replaces itself, one that empties the rest of the chain, one that registers on another pipeline)
func c17ReentWitnesses() []c17Case {
	reg := func(n, b, a string, h int) regOp { return regOp{Op: "register", Name: n, Before: b, After: a, Hid: h} }
	return []c17Case{
		{Pipeline: "row", Ops: []regOp{reg("a", "gorm:row", "", 100), reg("once", "", "", 101), reg("b", "", "", 102), reg("c", "", "", 103)},
			Reent: &c17Reent{Runs: [][]c17Inner{{{At: 101, Op: regOp{Op: "remove", Name: "once", Hid: 300}}}, {}}}},
		{Pipeline: "raw", Ops: []regOp{reg("lazy", "", "", 100), reg("last", "", "", 101)},
			Reent: &c17Reent{Runs: [][]c17Inner{{{At: 100, Op: reg("helper", "lazy", "", 300)}}, {{At: 100, Op: reg("helper", "lazy", "", 301)}}}}},
		{Pipeline: "query", Ops: []regOp{reg("self", "", "gorm:query", 100)},
			Reent: &c17Reent{Runs: [][]c17Inner{{{At: 100, Op: regOp{Op: "replace", Name: "self", Hid: 300}}}, {{At: 300, Op: regOp{Op: "replace", Name: "self", Hid: 301}}}, {}}}},
		{Pipeline: "query", Ops: []regOp{reg("u1", "", "", 100), reg("u2", "", "", 101)},
			Reent: &c17Reent{Runs: [][]c17Inner{{{At: 1, Op: regOp{Op: "remove", Name: "gorm:preload", Hid: 300}}, {At: 1, Op: regOp{Op: "remove", Name: "u1", Hid: 301}},
				{At: 1, Op: regOp{Op: "remove", Name: "u2", Hid: 302}}}, {}}}},
		{Pipeline: "create", Ops: []regOp{reg("u1", "gorm:create", "", 100)},
			Reent: &c17Reent{OtherPipeline: "row", Runs: [][]c17Inner{{{At: 100, Other: true, Op: reg("u1", "gorm:row", "", 300)}, {At: 4, Op: reg("u2", "", "u1", 301)}}, {}}}},
	}
}

// ---- the suite ------------------------------------------------------------------------------------

func c17ReentSuite(r *Result, rng *rand.Rand, tier string) {
	loadBuiltins()
	var cases []c17Case
	nrand := 6000
	switch tier {
	case "thorough":
		nrand = 120000
		for _, p := range []string{"query", "row", "raw", "delete"} {
			cases = append(cases, c17ReentExhaustive(p)...)
		}
	case "search":
		nrand = 30000
		cases = append(cases, c17ReentExhaustive("query")...)
	default:
		cases = append(cases, c17ReentExhaustive("query")...)
		cases = append(cases, c17ReentExhaustive([]string{"row", "raw"}[rng.Intn(2)])...)
	}
	cases = append(cases, c17ReentWitnesses()...)
	for i := 0; i < nrand; i++ {
		cases = append(cases, c17ReentGen(rng))
	}
	// the model
	leanOps := make([][]interface{}, 0, len(cases))
	for _, c := range cases {
		ops := make([]interface{}, len(c.Ops))
		for j, o := range c.Ops {
			ops[j] = o.J(true)
		}
		oc := c17Case{Pipeline: c.Reent.OtherPipeline, SkipTx: c.SkipTx}
		initO := [][]interface{}{}
		if oc.Pipeline != "" {
			initO = initOps(oc)
		}
		runs := make([]interface{}, len(c.Reent.Runs))
		for k, sc := range c.Reent.Runs {
			ins := []interface{}{}
			for _, in := range sc {
				if in.Other && oc.Pipeline == "" {
					continue
				}
				ins = append(ins, []interface{}{in.At, in.Other, in.Op.J(true)})
			}
			runs[k] = ins
		}
		leanOps = append(leanOps, []interface{}{"cb.exec", initOps(c), ops, initO, runs})
	}
	outs, err := AskLean(leanOps)
	if err != nil {
		r.Violate(Violation{Kind: "correspondence", Suite: "reentrant", Note: err.Error()})
		return
	}
	// the real code, in crash-isolating children
	nw := 8
	res := make([]c17Obs, len(cases))
	ran := make([]bool, len(cases))
	done := make(chan bool, nw)
	for w := 0; w < nw; w++ {
		go func(w int) {
			ch := newC17Child()
			defer ch.close()
			for i := w; i < len(cases); i += nw {
				if expired() || strings.Contains(string(outs[i]), "\"fuel\"") {
					continue
				}
				res[i] = ch.run(cases[i])
				ran[i] = true
			}
			done <- true
		}(w)
	}
	for w := 0; w < nw; w++ {
		<-done
	}
	type mrun struct {
		Trace []int    `json:"trace"`
		Errs  []string `json:"errs"`
		Fns   []int    `json:"fns"`
		OFns  []int    `json:"ofns"`
	}
	for i, c := range cases {
		if !ran[i] {
			continue
		}
		obs := res[i]
		var m struct {
			Errs []string `json:"errs"`
			Fns  []int    `json:"fns"`
			Loop string   `json:"loop"`
			Runs []mrun   `json:"runs"`
		}
		_ = json.Unmarshal(outs[i], &m)
		for k := range m.Errs {
			if m.Errs[k] == "cycle" {
				m.Errs[k] = "conflict"
			}
		}
		r.Case("reentrant", canon(c), true)
		r.H("reentrant-pipeline", c.Pipeline)
		r.H("reentrant-runs", fmt.Sprint(len(c.Reent.Runs)))
		if i == 0 {
			r.H("reentrant-model-loop", m.Loop)
		}
		if i%1499 == 0 {
			r.Sample(map[string]interface{}{"input": c, "real": obs})
		}
		// histograms: what the callbacks did, and where in the run
		if obs.Reent != nil {
			for _, ro := range obs.Reent.Runs {
				pos := map[int]int{}
				for j, h := range ro.Dry {
					pos[h] = j
				}
				for j, in := range ro.Calls {
					where := "middle"
					if pos[in.At] == 0 {
						where = "first callback"
					} else if pos[in.At] == len(ro.Dry)-1 {
						where = "last callback"
					}
					r.H("reentrant-caller-position", where)
					kind := in.Op.Op
					selfName := ""
					for _, o := range c.Ops {
						if o.Hid == in.At {
							selfName = o.Name
						}
					}
					if in.At < 100 && in.At-1 < len(c17Builtins[c.Pipeline]) {
						selfName = c17Builtins[c.Pipeline][in.At-1].Name
					}
					switch {
					case in.Other:
						kind += " on the other pipeline"
					case in.Op.Name == selfName:
						kind += " of the running callback"
					case in.Op.Op == "register" && (in.Op.Before == selfName || in.Op.After == selfName) && selfName != "":
						if in.Op.Before == selfName {
							kind += " Before(the running callback)"
						} else {
							kind += " After(the running callback)"
						}
					case in.Op.Op == "register" && (in.Op.Before != "" || in.Op.After != ""):
						kind += " with a request"
					}
					if in.Op.Chain != nil {
						kind += " [chain spelling]"
					}
					r.H("reentrant-call", kind)
					if j < len(ro.Errs) && ro.Errs[j] != "ok" {
						r.H("reentrant-outcome", "inner call returned an error")
					}
				}
				if fmt.Sprint(ro.After) != fmt.Sprint(ro.Dry) {
					r.H("reentrant-outcome", "chain changed by the run")
				} else {
					r.H("reentrant-outcome", "chain unchanged by the run")
				}
			}
		}
		// (M) model tie and (B) twin tie
		r.CorrCompared++
		corr := ""
		switch {
		case obs.Crash:
			corr = "real process crashed, the model terminates"
		case obs.Reent == nil:
			corr = "no observation"
		case strings.Join(m.Errs, ",") != strings.Join(obs.Errs, ",") || fmt.Sprint(m.Fns) != fmt.Sprint(obs.Fns):
			corr = "history before the runs: real API vs Lean Proc.run"
		default:
			for k, ro := range obs.Reent.Runs {
				if k >= len(m.Runs) {
					break
				}
				mr := m.Runs[k]
				for j := range mr.Errs {
					if mr.Errs[j] == "cycle" {
						mr.Errs[j] = "conflict"
					}
				}
				if fmt.Sprint(ro.After) != fmt.Sprint(ro.Twin) || fmt.Sprint(ro.OAfter) != fmt.Sprint(ro.OTwin) || strings.Join(ro.Errs, ",") != strings.Join(ro.TwinErrs, ",") {
					corr = fmt.Sprintf("run %d: the calls made from inside callbacks leave another chain / return other errors than the same calls made between runs on a twin DB (C17_reentrant_calls_are_a_history)", k)
					break
				}
				if fmt.Sprint(mr.Trace) != fmt.Sprint(ro.Trace) || strings.Join(mr.Errs, ",") != strings.Join(ro.Errs, ",") ||
					fmt.Sprint(mr.Fns) != fmt.Sprint(ro.After) || (ro.OAfter != nil && fmt.Sprint(mr.OFns) != fmt.Sprint(ro.OAfter)) {
					corr = fmt.Sprintf("run %d: real Execute (handlers fired, error per inner call, chains afterwards) vs Lean World.execute (fold over the snapshot)", k)
					break
				}
				if ro.Overflow {
					break
				}
			}
		}
		if corr != "" {
			r.Violate(Violation{Kind: "correspondence", Suite: "reentrant", Input: c, Observed: obs, Expected: m, Note: corr})
		}
		// (A), (C): the property
		if v, fc, fo := c17ReentOracle(c, obs); v != "" {
			id := ""
			if fc != nil {
				id = c17Classify(*fc, *fo, v)
			}
			if id != "" && listed(id) {
				r.KnownFinding(id, v)
			} else {
				r.Violate(Violation{Kind: "e2e", Suite: "reentrant", Input: c, Observed: obs, Expected: v, Note: id})
			}
		}
	}
}

func init() {
	register("C17", c17ReentSuite)
	replayers["C17/reentrant"] = func(r *Result, input json.RawMessage) {
		loadBuiltins()
		var c c17Case
		if json.Unmarshal(input, &c) != nil || c.Reent == nil {
			return
		}
		ch := newC17Child()
		defer ch.close()
		obs := ch.run(c)
		r.Case("reentrant", canon(c), true)
		if v, fc, fo := c17ReentOracle(c, obs); v != "" {
			id := ""
			if fc != nil {
				id = c17Classify(*fc, *fo, v)
			}
			if id != "" && listed(id) {
				r.KnownFinding(id, v)
			} else {
				r.Violate(Violation{Kind: "e2e", Suite: "reentrant", Input: c, Observed: obs, Expected: v})
			}
		}
	}
}
