package main

// C16 — upserts whose INSERT column list is a strict subset of the model's columns: Create from a map / a slice of
// maps with Model(&T{}), Select/Omit-restricted struct creates, slices of structs, Save of slices. On an existing
// key the columns that were not supplied must keep their stored values whatever the rule.

import (
	"encoding/json"
	"fmt"
	"math/rand"
	"sort"
	"strings"

	"gorm.io/gorm"
)

func c16Subset(rng *rand.Rand, from []int, min, max int) []int {
	cols := append([]int(nil), from...)
	rng.Shuffle(len(cols), func(i, j int) { cols[i], cols[j] = cols[j], cols[i] })
	n := min + rng.Intn(max-min+1)
	if n > len(cols) {
		n = len(cols)
	}
	out := append([]int(nil), cols[:n]...)
	sort.Ints(out)
	return out
}

// rows for one multi-row statement: distinct keys; id / rank / note uniformly zero or uniformly non-zero (a mixed
// column makes gorm emit the DEFAULT keyword inside VALUES, which SQLite does not parse — not this property)
func c16GenMany(rng *rand.Rand, soft bool, needKey bool) [][]int {
	n := 1 + rng.Intn(2)
	zeroKey := !needKey && rng.Intn(4) == 0
	zeroRank, zeroNote := rng.Intn(2) == 0, rng.Intn(2) == 0
	keys := rng.Perm(c16Keys + 1)
	var out [][]int
	for i := 0; i < n; i++ {
		r := c16GenRow(rng, soft, keys[i]+1)
		if zeroKey {
			r[c16ID] = 0
		}
		if zeroRank {
			r[c16Rank] = 0
		} else if r[c16Rank] == 0 {
			r[c16Rank] = 6
		}
		if zeroNote {
			r[c16Note] = 0
		} else if r[c16Note] == 0 {
			r[c16Note] = 3
		}
		out = append(out, r)
	}
	return out
}

// c16GenPartial fills p with a partial-insert program
func c16GenPartial(rng *rand.Rand, p *C16P) {
	nonKey := []int{c16Name, c16Age, c16Email, c16Code, c16Rank, c16Updated, c16Note}
	if p.Soft {
		nonKey = append(nonKey, c16Deleted)
	}
	var rule *C16R
	if rng.Intn(8) != 0 {
		rule = c16GenRule(rng, p.Soft)
		if rng.Intn(2) == 0 {
			rule = &C16R{Kind: "all"}
		}
	}
	mapRow := func(r []int, cols []int) {
		// a zero time in a map would be stored as year 1, not NULL: keep supplied times non-zero
		if c16Has(cols, c16Updated) && r[c16Updated] == 0 {
			r[c16Updated] = 2
		}
	}
	switch rng.Intn(6) {
	case 0, 1:
		cols := c16Subset(rng, nonKey, 1, 4)
		if rng.Intn(5) != 0 {
			cols = append([]int{c16ID}, cols...)
		}
		p.Fin = C16F{K: "cmap", Cols: cols, Row: c16GenRow(rng, p.Soft, 1+rng.Intn(c16Keys+1))}
		mapRow(p.Fin.Row, cols)
		p.Steps = append(p.Steps, C16St{K: "model"})
	case 2:
		cols := append([]int{c16ID}, c16Subset(rng, nonKey, 1, 4)...)
		p.Fin = C16F{K: "cmaps", Cols: cols, Many: c16GenMany(rng, p.Soft, true)}
		for _, r := range p.Fin.Many {
			mapRow(r, cols)
		}
		p.Steps = append(p.Steps, C16St{K: "model"})
	case 3:
		p.Fin = C16F{K: "create", Row: c16GenRow(rng, p.Soft, rng.Intn(c16Keys+2))}
		if rng.Intn(2) == 0 {
			cols := c16Subset(rng, nonKey, 1, 4)
			if rng.Intn(6) != 0 {
				cols = append([]int{c16ID}, cols...)
			}
			p.Steps = append(p.Steps, C16St{K: "select", Cols: cols})
		} else {
			p.Steps = append(p.Steps, C16St{K: "omit", Cols: c16Subset(rng, append(nonKey, c16Created), 1, 3)})
		}
	case 4:
		p.Fin = C16F{K: "cslice", Many: c16GenMany(rng, p.Soft, false)}
	default:
		p.Fin = C16F{K: "sslice", Many: c16GenMany(rng, p.Soft, false)}
		if rng.Intn(3) != 0 {
			rule = nil
		}
		if rng.Intn(2) == 0 {
			c16GenSaveMods(rng, p, true)
		}
	}
	if rule != nil {
		p.Steps = append(p.Steps, C16St{K: "oc", Rule: rule})
	}
	rng.Shuffle(len(p.Steps), func(i, j int) { p.Steps[i], p.Steps[j] = p.Steps[j], p.Steps[i] })
}

func c16PartialBranch(p *C16P) string {
	rule, restr := "norule", ""
	for _, s := range p.Steps {
		switch s.K {
		case "oc":
			rule = s.Rule.Kind
		case "select", "omit":
			restr = "+" + s.K
		}
	}
	c := "absent"
	if p.collides() {
		c = "conflict"
	}
	n := ""
	if len(p.Fin.Many) > 1 {
		n = fmt.Sprint("x", len(p.Fin.Many))
	}
	return p.Fin.K + n + restr + "/" + c + "-" + rule
}

// ---- suite: DryRun SQL of the UpdateAll expansion vs Model.Upsert.updateAllIns ---------------------------------
//
// For generated sources (map key sets, Select / Omit lists, structs with zero / non-zero database-default columns) the
// statement gorm would send (Session{DryRun:true}) is parsed: the INSERT column list must be the model's `listed` set
// and the DO UPDATE SET list the model's UpdateAll expansion — in particular SET ⊆ INSERT columns.

func c16ParseUpsertSQL(sql string) (ins []int, set [][2]int, ok bool) {
	idx := func(name string) int {
		name = strings.Trim(strings.TrimSpace(name), "`\"")
		for i, c := range c16Cols {
			if c == name {
				return i
			}
		}
		return -1
	}
	a := strings.Index(sql, "(")
	b := strings.Index(sql, ")")
	if a < 0 || b < a {
		return nil, nil, false
	}
	for _, n := range strings.Split(sql[a+1:b], ",") {
		c := idx(n)
		if c < 0 {
			return nil, nil, false
		}
		ins = append(ins, c)
	}
	sort.Ints(ins)
	set = [][2]int{}
	if k := strings.Index(sql, "DO UPDATE SET "); k >= 0 {
		rest := sql[k+len("DO UPDATE SET "):]
		if r := strings.Index(rest, " RETURNING"); r >= 0 {
			rest = rest[:r]
		}
		for _, asg := range strings.Split(rest, ",") {
			parts := strings.SplitN(asg, "=", 2)
			if len(parts) != 2 {
				return nil, nil, false
			}
			c := idx(parts[0])
			if c < 0 {
				return nil, nil, false
			}
			lit := 1 // a bound literal (`?`): the auto-update time
			if strings.Contains(parts[1], "excluded") {
				lit = -1
			}
			set = append(set, [2]int{c, lit})
		}
		sort.Slice(set, func(i, j int) bool { return set[i][0] < set[j][0] })
	}
	return ins, set, true
}

type C16SQLCase struct {
	Soft bool    `json:"soft"`
	Step []C16St `json:"steps"`
	Fin  C16F    `json:"fin"`
}

func c16SQLSuite(r *Result, rng *rand.Rand, tier string) {
	n := 3000
	if tier != "quick" {
		n = 30000
	}
	e := c16Open()
	dry := e.db.Session(&gorm.Session{DryRun: true})
	var cases []*C16SQLCase
	var sqls []string
	var ops [][]interface{}
	for i := 0; i < n && !expired(); i++ {
		p := &C16P{Soft: rng.Intn(2) == 0}
		for {
			p.Steps = nil
			c16GenPartial(rng, p)
			if p.Fin.K == "cmap" || p.Fin.K == "create" {
				break
			}
		}
		// always under UpdateAll
		var steps []C16St
		for _, s := range p.Steps {
			if s.K != "oc" {
				steps = append(steps, s)
			}
		}
		steps = append(steps, C16St{K: "oc", Rule: &C16R{Kind: "all"}})
		if rng.Intn(3) == 0 {
			steps = append(steps, c16GenDeriv(rng))
		}
		_, res := e.finisher(e.chain(dry, p.Soft, steps), p.Soft, &p.Fin)
		_, sel, omit := c16StepsJ(steps)
		cases = append(cases, &C16SQLCase{p.Soft, steps, p.Fin})
		sqls = append(sqls, res.Statement.SQL.String())
		ops = append(ops, []interface{}{"c16.cols", c16Kinds(p.Soft), p.Fin.J(sel, omit)[1], p.Fin.Row})
		if p.Fin.K == "create" && len(sel)+len(omit) == 0 {
			ops[len(ops)-1][2] = []interface{}{"struct", []int{}, []int{}}
		}
	}
	ans, err := AskLean(ops)
	if err != nil {
		r.Violate(Violation{Kind: "correspondence", Suite: "sql", Input: "batch", Observed: err.Error(), Expected: "driver answers"})
		return
	}
	for i, c := range cases {
		var m struct {
			Ins []int           `json:"ins"`
			Set [][]interface{} `json:"set"`
		}
		_ = json.Unmarshal(ans[i], &m)
		exp := [][2]int{}
		for _, a := range m.Set {
			col := int(a[0].(float64))
			if a[1] == nil {
				exp = append(exp, [2]int{col, -1})
			} else {
				exp = append(exp, [2]int{col, 1})
			}
		}
		ins, set, ok := c16ParseUpsertSQL(sqls[i])
		r.CorrCompared++
		r.Case("sql", canon(c), len(set) > 0)
		r.H("sql.source", c.Fin.K)
		r.H("sql.insert_cols", fmt.Sprint(len(ins)))
		r.H("sql.set_cols", fmt.Sprint(len(set)))
		if !ok || canon(ins) != canon(m.Ins) || canon(set) != canon(exp) {
			r.Violate(Violation{Kind: "correspondence", Suite: "sql", Input: c,
				Observed: map[string]interface{}{"sql": sqls[i], "ins": ins, "set": set},
				Expected: map[string]interface{}{"ins": m.Ins, "set": exp},
				Note:     "DryRun SQL of an UpdateAll upsert vs Model.Upsert listed / updateAllIns (INSERT column list, DO UPDATE SET list)"})
		}
	}
}

func init() {
	register("C16", c16SQLSuite)
	replayers["C16/sql"] = func(r *Result, input json.RawMessage) {
		r.Note("sql correspondence cases are re-derived by the suite; see the e2e replay for a failing input")
	}
}
