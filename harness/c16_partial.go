package main

// C16 — upserts whose INSERT column list is a strict subset of the model's columns: Create from a map / a slice of
// maps with Model(&T{}), Select/Omit-restricted struct creates, slices of structs, Save of slices. On an existing
// key the columns that were not supplied must keep their stored values whatever the rule.

import (
	"fmt"
	"math/rand"
	"sort"
)

func c16Subset(rng *rand.Rand, from []int, min, max int) []int {
	cols := append([]int(nil), from...)
	rng.Shuffle(len(cols), func(i, j int) { cols[i], cols[j] = cols[j], cols[i] })
	n := min + rng.Intn(max-min+1)
	if n > len(cols) {
		n = len(cols)
	}
	out := append([]int(nil), cols[:n]...)
	sort.Ints(out)
	return out
}

// rows for one multi-row statement: distinct keys; id / rank / note uniformly zero or uniformly non-zero (a mixed
// column makes gorm emit the DEFAULT keyword inside VALUES, which SQLite does not parse — not this property)
func c16GenMany(rng *rand.Rand, soft bool, needKey bool) [][]int {
	n := 1 + rng.Intn(2)
	zeroKey := !needKey && rng.Intn(4) == 0
	zeroRank, zeroNote := rng.Intn(2) == 0, rng.Intn(2) == 0
	keys := rng.Perm(c16Keys + 1)
	var out [][]int
	for i := 0; i < n; i++ {
		r := c16GenRow(rng, soft, keys[i]+1)
		if zeroKey {
			r[c16ID] = 0
		}
		if zeroRank {
			r[c16Rank] = 0
		} else if r[c16Rank] == 0 {
			r[c16Rank] = 6
		}
		if zeroNote {
			r[c16Note] = 0
		} else if r[c16Note] == 0 {
			r[c16Note] = 3
		}
		out = append(out, r)
	}
	return out
}

// c16GenPartial fills p with a partial-insert program
func c16GenPartial(rng *rand.Rand, p *C16P) {
	nonKey := []int{c16Name, c16Age, c16Email, c16Code, c16Rank, c16Updated, c16Note}
	if p.Soft {
		nonKey = append(nonKey, c16Deleted)
	}
	var rule *C16R
	if rng.Intn(8) != 0 {
		rule = c16GenRule(rng, p.Soft)
		if rng.Intn(2) == 0 {
			rule = &C16R{Kind: "all"}
		}
	}
	mapRow := func(r []int, cols []int) {
		// a zero time in a map would be stored as year 1, not NULL: keep supplied times non-zero
		if c16Has(cols, c16Updated) && r[c16Updated] == 0 {
			r[c16Updated] = 2
		}
	}
	switch rng.Intn(6) {
	case 0, 1:
		cols := c16Subset(rng, nonKey, 1, 4)
		if rng.Intn(5) != 0 {
			cols = append([]int{c16ID}, cols...)
		}
		p.Fin = C16F{K: "cmap", Cols: cols, Row: c16GenRow(rng, p.Soft, 1+rng.Intn(c16Keys+1))}
		mapRow(p.Fin.Row, cols)
		p.Steps = append(p.Steps, C16St{K: "model"})
	case 2:
		cols := append([]int{c16ID}, c16Subset(rng, nonKey, 1, 4)...)
		p.Fin = C16F{K: "cmaps", Cols: cols, Many: c16GenMany(rng, p.Soft, true)}
		for _, r := range p.Fin.Many {
			mapRow(r, cols)
		}
		p.Steps = append(p.Steps, C16St{K: "model"})
	case 3:
		p.Fin = C16F{K: "create", Row: c16GenRow(rng, p.Soft, rng.Intn(c16Keys+2))}
		if rng.Intn(2) == 0 {
			cols := c16Subset(rng, nonKey, 1, 4)
			if rng.Intn(6) != 0 {
				cols = append([]int{c16ID}, cols...)
			}
			p.Steps = append(p.Steps, C16St{K: "select", Cols: cols})
		} else {
			p.Steps = append(p.Steps, C16St{K: "omit", Cols: c16Subset(rng, append(nonKey, c16Created), 1, 3)})
		}
	case 4:
		p.Fin = C16F{K: "cslice", Many: c16GenMany(rng, p.Soft, false)}
	default:
		p.Fin = C16F{K: "sslice", Many: c16GenMany(rng, p.Soft, false)}
		if rng.Intn(3) != 0 {
			rule = nil
		}
	}
	if rule != nil {
		p.Steps = append(p.Steps, C16St{K: "oc", Rule: rule})
	}
	rng.Shuffle(len(p.Steps), func(i, j int) { p.Steps[i], p.Steps[j] = p.Steps[j], p.Steps[i] })
}

func c16PartialBranch(p *C16P) string {
	rule, restr := "norule", ""
	for _, s := range p.Steps {
		switch s.K {
		case "oc":
			rule = s.Rule.Kind
		case "select", "omit":
			restr = "+" + s.K
		}
	}
	c := "absent"
	if p.collides() {
		c = "conflict"
	}
	n := ""
	if len(p.Fin.Many) > 1 {
		n = fmt.Sprint("x", len(p.Fin.Many))
	}
	return p.Fin.K + n + restr + "/" + c + "-" + rule
}
