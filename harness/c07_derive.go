package main

// C07 e2e: (a) per-goroutine DERIVATIONS of the one shared handle (every Session flag incl. PrepareStmt, WithContext,
// Debug, Begin, Connection, Transaction, combinations) wrapped around every operation of every program family;
// (b) the shared handle's observable CONFIGURATION before / after the program (logger identity, conn pool, dialector,
// NowFunc, callbacks, flags, the handle's own Statement) — must equal what the serial run of the same programs leaves;
// (c) the multiset of statement SHAPES traced to the shared handle's logger — every operation logs what it logs alone.

import (
	"context"
	"fmt"
	"reflect"
	"regexp"
	"sort"
	"strings"
	"sync"
	"time"

	"gorm.io/gorm"
	"gorm.io/gorm/clause"
	"gorm.io/gorm/logger"
)

// ---------- trace logger installed on the shared handle ----------

type c07TraceLogger struct {
	mu     sync.Mutex
	shapes map[string]int
	n      int
}

func c07NewTraceLogger() *c07TraceLogger { return &c07TraceLogger{shapes: map[string]int{}} }

func (l *c07TraceLogger) LogMode(logger.LogLevel) logger.Interface        { return l }
func (l *c07TraceLogger) Info(context.Context, string, ...interface{})    {}
func (l *c07TraceLogger) Warn(context.Context, string, ...interface{})    {}
func (l *c07TraceLogger) Error(context.Context, string, ...interface{})   {}
func (l *c07TraceLogger) ParamsFilter(ctx context.Context, sql string, params ...interface{}) (string, []interface{}) {
	return sql, params
}
func (l *c07TraceLogger) Trace(ctx context.Context, begin time.Time, fc func() (string, int64), err error) {
	sql, _ := fc()
	sh := c07SQLShape(sql)
	l.mu.Lock()
	l.shapes[sh]++
	l.n++
	l.mu.Unlock()
}

func (l *c07TraceLogger) snapshot() map[string]int {
	l.mu.Lock()
	defer l.mu.Unlock()
	out := map[string]int{}
	for k, v := range l.shapes {
		out[k] = v
	}
	return out
}

var (
	c07ReStr   = regexp.MustCompile(`"(?:[^"\\]|\\.)*"|'(?:[^'\\]|\\.)*'`)
	c07ReHex   = regexp.MustCompile(`0x[0-9a-fA-F]+`)
	c07ReNum   = regexp.MustCompile(`(^|[^A-Za-z0-9_` + "`" + `])-?\d+(\.\d+)?`)
	c07ReList  = regexp.MustCompile(`\(\s*(\?|NULL)(\s*,\s*(\?|NULL))*\s*\)`)
	c07ReLists = regexp.MustCompile(`\(\?\)(\s*,\s*\(\?\))+`)
	c07ReDyn   = regexp.MustCompile(`c07_dyn_g\d+`)
	c07ReSP    = regexp.MustCompile(`SAVEPOINT sp\w+`)
)

// c07SQLShape: the statement with every literal replaced by ? and every list of placeholders collapsed — what is compared
// is WHICH statements an operation logs and how often, never their values or the order inside IN lists.
func c07SQLShape(sql string) string {
	s := c07ReStr.ReplaceAllString(sql, "?")
	s = c07ReHex.ReplaceAllString(s, "?")
	s = c07ReSP.ReplaceAllString(s, "SAVEPOINT sp?")
	s = c07ReDyn.ReplaceAllString(s, "c07_dyn_g")
	s = c07ReNum.ReplaceAllString(s, "$1?")
	s = strings.ReplaceAll(s, "<binary>", "?")
	s = c07ReList.ReplaceAllString(s, "(?)")
	s = c07ReLists.ReplaceAllString(s, "(?)")
	if len(s) > 400 {
		s = s[:400]
	}
	return s
}

// ---------- configuration fingerprint ----------

type c07CfgIdent struct {
	logger    logger.Interface
	connPool  gorm.ConnPool
	dialector gorm.Dialector
	nowFunc   uintptr
	callbacks interface{}
	namer     interface{}
	stmts     map[*gorm.DB]*gorm.Statement
	stmtPool  map[*gorm.DB]gorm.ConnPool
	stmtCtx   map[*gorm.DB]context.Context
}

func c07Identify(shared *gorm.DB, handles []*gorm.DB) c07CfgIdent {
	id := c07CfgIdent{logger: shared.Logger, connPool: shared.ConnPool, dialector: shared.Dialector, nowFunc: reflect.ValueOf(shared.NowFunc).Pointer(),
		callbacks: shared.Callback(), namer: shared.NamingStrategy, stmts: map[*gorm.DB]*gorm.Statement{}, stmtPool: map[*gorm.DB]gorm.ConnPool{}, stmtCtx: map[*gorm.DB]context.Context{}}
	for _, h := range append([]*gorm.DB{shared}, handles...) {
		id.stmts[h] = h.Statement
		id.stmtPool[h] = h.Statement.ConnPool
		id.stmtCtx[h] = h.Statement.Context
	}
	return id
}

func c07Same(a, b interface{}) (same bool) {
	defer func() {
		if recover() != nil { // uncomparable dynamic type
			same = reflect.DeepEqual(a, b)
		}
	}()
	return a == b
}

// c07Fingerprint: what an application can observe of the shared handle (and of the handles derived from it before the
// goroutines started) — identities are reported relative to the state recorded before the program ran.
func c07Fingerprint(shared *gorm.DB, handles []*gorm.DB, id c07CfgIdent) []string {
	var out []string
	ident := func(name string, same bool, cur interface{}) {
		if same {
			out = append(out, name+"=unchanged")
		} else {
			out = append(out, fmt.Sprintf("%s=REPLACED by %T", name, cur))
		}
	}
	seen := map[*gorm.DB]bool{}
	for i, h := range append([]*gorm.DB{shared}, handles...) {
		if seen[h] {
			continue
		}
		seen[h] = true
		p := fmt.Sprintf("h%d.", i)
		c := h.Config
		if h == shared {
			ident(p+"Logger", c07Same(c.Logger, id.logger), c.Logger)
			ident(p+"ConnPool", c07Same(c.ConnPool, id.connPool), c.ConnPool)
			ident(p+"Dialector", c07Same(c.Dialector, id.dialector), c.Dialector)
			ident(p+"NowFunc", reflect.ValueOf(c.NowFunc).Pointer() == id.nowFunc, c.NowFunc)
			ident(p+"callbacks", c07Same(h.Callback(), id.callbacks), nil)
			ident(p+"NamingStrategy", c07Same(c.NamingStrategy, id.namer), c.NamingStrategy)
		} else {
			// derived before the start: its Config is a copy; logger / pool are reported by type only
			out = append(out, fmt.Sprintf("%sLogger=%T ConnPool=%T", p, c.Logger, c.ConnPool))
		}
		var cb []string
		for k := range c.ClauseBuilders {
			cb = append(cb, k)
		}
		sort.Strings(cb)
		out = append(out, fmt.Sprintf("%sflags skipTx=%v fullSave=%v dry=%v prep=%v noNested=%v globalUpd=%v qf=%v batch=%d transl=%v propUnsc=%v clauseBuilders=%v plugins=%d",
			p, c.SkipDefaultTransaction, c.FullSaveAssociations, c.DryRun, c.PrepareStmt, c.DisableNestedTransaction, c.AllowGlobalUpdate, c.QueryFields,
			c.CreateBatchSize, c.TranslateError, c.PropagateUnscoped, cb, len(c.Plugins)))
		regs := 0
		for _, n := range []string{"gorm:query", "gorm:preload", "gorm:after_query"} {
			if h.Callback().Query().Get(n) != nil {
				regs++
			}
		}
		for _, n := range []string{"gorm:begin_transaction", "gorm:create", "gorm:commit_or_rollback_transaction"} {
			if h.Callback().Create().Get(n) != nil {
				regs++
			}
		}
		out = append(out, fmt.Sprintf("%sregisteredCallbacks=%d", p, regs))
		out = append(out, fmt.Sprintf("%sError=%v RowsAffected=%d", p, h.Error, h.RowsAffected))
		st := h.Statement
		ident(p+"Statement", st == id.stmts[h], st)
		if st != nil {
			ident(p+"Statement.ConnPool", c07Same(st.ConnPool, id.stmtPool[h]), st.ConnPool)
			ident(p+"Statement.Context", c07Same(st.Context, id.stmtCtx[h]), st.Context)
			var cl []string
			for k := range st.Clauses {
				cl = append(cl, k)
			}
			sort.Strings(cl)
			settings := 0
			st.Settings.Range(func(k, v interface{}) bool { settings++; return true })
			out = append(out, fmt.Sprintf("%sStatement table=%q model=%T dest=%T unscoped=%v clauses=%v where=%s selects=%v omits=%v joins=%d preloads=%d sql=%d vars=%d schema=%v skipHooks=%v settings=%d raw=%v distinct=%v",
				p, st.Table, st.Model, st.Dest, st.Unscoped, cl, c07WhereShape(st), st.Selects, st.Omits, len(st.Joins), len(st.Preloads), st.SQL.Len(), len(st.Vars),
				st.Schema != nil, st.SkipHooks, settings, st.RaiseErrorOnNotFound, st.Distinct))
		}
	}
	return out
}

// c07WhereShape: the handle's own WHERE expressions in order (an in-place reorder or append changes it)
func c07WhereShape(st *gorm.Statement) string {
	c, ok := st.Clauses["WHERE"]
	if !ok {
		return "-"
	}
	w, ok := c.Expression.(clause.Where)
	if !ok {
		return fmt.Sprintf("%T", c.Expression)
	}
	var parts []string
	for _, e := range w.Exprs {
		parts = append(parts, fmt.Sprintf("%T%v", e, e))
	}
	return strings.Join(parts, " ; ")
}

// ---------- per-goroutine derivations of the shared handle ----------

var c07DeriveModes = []string{"none", "session", "prepare", "prepare", "ctx", "withctx", "skiphooks", "skipdeftx", "queryfields", "fullsave", "globalupd",
	"propunscoped", "batchsize", "logger", "nowfunc", "initialized", "nonested", "debug", "begin", "prepare-begin", "newdb", "combo", "combo",
	"connection", "transaction", "session-of-session", "scopes"}

// derivations that switch prepared statements on / that keep ONE connection over several statements
var c07PrepModes = map[string]bool{"prepare": true, "prepare-begin": true, "session-of-session": true, "combo": true, "mix": true}
var c07HoldModes = map[string]bool{"begin": true, "prepare-begin": true, "transaction": true, "connection": true, "mixhold": true}

// c07ProgPrepOn: some statement of the program may go through a PreparedStmtDB
func c07ProgPrepOn(p c07RaceProg) bool {
	return p.Prepare || p.Handle == "prepsession" || c07PrepModes[p.Derive]
}

// ENVIRONMENT RULE (not a gorm defect): with prepared statements a goroutine that keeps a connection over several statements
// (explicit transaction / Connection) waits, while holding it, for the goroutine that is preparing the same text — which in
// turn waits for a connection.  On a pool smaller than the number of goroutines that is a pool-exhaustion deadlock of the
// application's making.  Programs in which prepared statements can be on therefore never hold a connection over a statement
// that another goroutine may run outside a transaction ("nohold"), unless the pool has one connection per goroutine.

type c07CtxKey struct{}

// derived runs `run` on a handle this goroutine derives from the shared handle h for this one operation.
func (w *c07RaceWorker) derived(h *gorm.DB, mode string, run func(*gorm.DB) string) string {
	if mode == "mix" || mode == "mixhold" {
		for {
			m := c07DeriveModes[w.rng.Intn(len(c07DeriveModes))]
			if mode == "mixhold" && c07PrepModes[m] {
				continue
			}
			mode = m
			break
		}
	}
	if w.nohold && (c07HoldModes[mode] || mode == "skipdeftx") {
		mode = "prepare"
	}
	w.kinds["derive:"+mode] = true
	ctx := context.WithValue(context.Background(), c07CtxKey{}, w.g)
	switch mode {
	case "", "none":
		return run(h)
	case "session":
		return run(h.Session(&gorm.Session{}))
	case "prepare":
		return run(h.Session(&gorm.Session{PrepareStmt: true}))
	case "ctx":
		return run(h.Session(&gorm.Session{Context: ctx}))
	case "withctx":
		return run(h.WithContext(ctx))
	case "skiphooks":
		return run(h.Session(&gorm.Session{SkipHooks: true}))
	case "skipdeftx":
		return run(h.Session(&gorm.Session{SkipDefaultTransaction: true}))
	case "queryfields":
		return run(h.Session(&gorm.Session{QueryFields: true}))
	case "fullsave":
		return run(h.Session(&gorm.Session{FullSaveAssociations: true}))
	case "globalupd":
		return run(h.Session(&gorm.Session{AllowGlobalUpdate: true}))
	case "propunscoped":
		return run(h.Session(&gorm.Session{PropagateUnscoped: true}))
	case "batchsize":
		return run(h.Session(&gorm.Session{CreateBatchSize: 2}))
	case "logger":
		return run(h.Session(&gorm.Session{Logger: logger.Discard}))
	case "nowfunc":
		return run(h.Session(&gorm.Session{NowFunc: fixedNowFunc}))
	case "initialized":
		return run(h.Session(&gorm.Session{Initialized: true}))
	case "nonested":
		return run(h.Session(&gorm.Session{DisableNestedTransaction: true}))
	case "debug":
		return run(h.Debug())
	case "newdb":
		return run(h.Session(&gorm.Session{NewDB: true}))
	case "session-of-session":
		return run(h.Session(&gorm.Session{PrepareStmt: w.rng.Intn(2) == 0}).WithContext(ctx).Session(&gorm.Session{QueryFields: true}))
	case "scopes":
		return run(h.Scopes(func(tx *gorm.DB) *gorm.DB { return tx.Where("1 = 1") }).Session(&gorm.Session{}))
	case "combo":
		s := &gorm.Session{PrepareStmt: w.rng.Intn(2) == 0, SkipHooks: w.rng.Intn(2) == 0, SkipDefaultTransaction: w.rng.Intn(2) == 0 && !w.nohold,
			QueryFields: w.rng.Intn(2) == 0, FullSaveAssociations: w.rng.Intn(3) == 0, AllowGlobalUpdate: w.rng.Intn(2) == 0,
			PropagateUnscoped: w.rng.Intn(2) == 0, DisableNestedTransaction: w.rng.Intn(3) == 0, Initialized: w.rng.Intn(3) == 0}
		if w.rng.Intn(2) == 0 {
			s.Context = ctx
		}
		if w.rng.Intn(3) == 0 {
			s.Logger = logger.Discard
		}
		if w.rng.Intn(3) == 0 {
			s.NowFunc = fixedNowFunc
		}
		if w.rng.Intn(3) == 0 {
			s.CreateBatchSize = 3
		}
		return run(h.Session(s))
	case "begin", "prepare-begin":
		src := h
		if mode == "prepare-begin" {
			src = h.Session(&gorm.Session{PrepareStmt: true})
		}
		tx := src.Begin()
		if tx.Error != nil {
			return "begin " + c07ErrClass(tx.Error)
		}
		w.inTx = true
		s := run(tx)
		w.inTx = false
		err := tx.Commit().Error
		return s + " commit " + c07ErrClass(err)
	case "connection":
		s := ""
		// the handle Connection passes to fc is the per-call instance itself (clone 0: one Statement for everything, and the
		// default transaction of a write resets its ConnPool to the Config's pool): applications derive a session from it
		err := h.Connection(func(tx *gorm.DB) error { s = run(tx.Session(&gorm.Session{})); return nil })
		return s + " conn " + c07ErrClass(err)
	case "transaction":
		s := ""
		w.inTx = true
		err := h.Transaction(func(tx *gorm.DB) error { s = run(tx); return nil })
		w.inTx = false
		return s + " tx " + c07ErrClass(err)
	}
	return run(h)
}
