package main

// C02 (round 3) — the ELEMENTS of slice values.  "slice values mean IN": whatever sits inside the slice — untyped nil, a typed
// nil pointer, an invalid sql.Null*, a pointer to a value, an empty string, a duplicate, a value of another type — the
// condition is ONE `col IN (e1, …, en)` over ALL n elements, read under SQL's three-valued logic (a NULL element makes a
// non-matching row UNKNOWN, never TRUE; a NULL column value is never selected; NOT IN over a list with a NULL element
// selects nothing).  The zoo below feeds every condition form that takes a slice: map values, ("col", slice), clause.Eq /
// clause.IN, raw `IN ?` / `IN (?)` / `IN @name`, and primary-key slices (Where(ids) / Not(ids) / Or(ids) / inline
// First/Find/Delete(value, ids)).
//
// suites added here
//   map.cond (correspondence)  real Statement.BuildCondition(map) → expression shapes vs Lean `mapEntryAtom` (Model/InList.lean)
//   in.sem   (correspondence)  SQLite `SELECT ? IN (…)` vs Lean `inListVal` vs the Go evaluator used by the e2e oracle

import (
	"database/sql"
	"encoding/json"
	"fmt"
	"math/rand"
	"reflect"
	"sort"
	"strconv"
	"strings"

	"gorm.io/gorm"
	"gorm.io/gorm/clause"
)

type wInList struct {
	Val   interface{}   // the Go container handed to gorm
	Elems []interface{} // its elements one by one (clause.IN.Values)
	N     int
	Pred  wPred
	Desc  string
}

type wElem struct {
	kind string // val nil nilptr ptr nullinvalid nullvalid foreign
	iv   int
	sv   string
}

func (e wElem) isNull() bool { return e.kind == "nil" || e.kind == "nilptr" || e.kind == "nullinvalid" }

// genInList draws 1..4 elements for a list on column `col` ("a"/"b" integer, "s" text, "id" the primary key) and a
// container type that the condition form `place` (map | eq | in | raw | pk) accepts.
func genInList(rng *rand.Rand, col string, place string) wInList {
	isStr := col == "s"
	n := 1 + rng.Intn(4)
	// container class
	classes := []string{"plain", "plain", "iface", "iface", "ptrs", "nulls"}
	switch place {
	case "eq":
		classes = []string{"plain", "iface", "iface"} // clause.Eq.Build expands only the listed slice types
	case "pk":
		classes = []string{"plain", "plain", "strs", "iface", "iface"}
	}
	class := classes[rng.Intn(len(classes))]
	var es []wElem
	val := func() wElem {
		if col == "id" {
			return wElem{kind: "val", iv: 1 + rng.Intn(12)}
		}
		if isStr {
			pool := append([]string{""}, wStrings...)
			return wElem{kind: "val", sv: pool[rng.Intn(len(pool))]}
		}
		return wElem{kind: "val", iv: rng.Intn(4)}
	}
	for i := 0; i < n; i++ {
		var e wElem
		switch class {
		case "plain", "strs":
			e = val()
		case "ptrs":
			e = val()
			e.kind = "ptr"
			if rng.Intn(3) == 0 {
				e.kind = "nilptr"
			}
		case "nulls":
			e = val()
			e.kind = "nullvalid"
			if rng.Intn(3) == 0 {
				e.kind = "nullinvalid"
			}
		default: // iface: anything
			e = val()
			switch rng.Intn(10) {
			case 0, 1:
				e.kind = "nil"
			case 2:
				e.kind = "nilptr"
			case 3:
				e.kind = "ptr"
			case 4:
				e.kind = "nullinvalid"
			case 5:
				e.kind = "nullvalid"
			case 6:
				e.kind = "foreign"
			}
		}
		if i > 0 && rng.Intn(6) == 0 && !es[i-1].isNull() {
			e = es[i-1] // duplicate
		}
		es = append(es, e)
	}
	// one element per slice at least now and then is NULL in the permissive classes
	out := wInList{N: n}
	p := wPred{Col: col, Op: "in"}
	var descs []string
	for _, e := range es {
		var x interface{}
		var d string
		switch e.kind {
		case "nil":
			x, d = nil, "nil"
		case "nilptr":
			if isStr {
				x, d = (*string)(nil), "(*string)(nil)"
			} else {
				x, d = (*int)(nil), "(*int)(nil)"
			}
		case "nullinvalid":
			if isStr {
				x, d = sql.NullString{}, "sql.NullString{}"
			} else {
				x, d = sql.NullInt64{}, "sql.NullInt64{}"
			}
		case "nullvalid":
			if isStr {
				x, d = sql.NullString{String: e.sv, Valid: true}, fmt.Sprintf("sql.NullString{%q}", e.sv)
			} else {
				x, d = sql.NullInt64{Int64: int64(e.iv), Valid: true}, fmt.Sprintf("sql.NullInt64{%d}", e.iv)
			}
		case "ptr":
			if isStr {
				s := e.sv
				x, d = &s, fmt.Sprintf("&%q", e.sv)
			} else {
				v := e.iv
				x, d = &v, fmt.Sprintf("&%d", e.iv)
			}
		case "foreign":
			// a value of the other type that no row can equal: text on an integer column, an integer on the text column
			if isStr {
				x, d = 7, "7"
			} else {
				x, d = "x", `"x"`
			}
		default:
			if isStr {
				x, d = e.sv, fmt.Sprintf("%q", e.sv)
			} else if class == "strs" {
				x, d = strconv.Itoa(e.iv), fmt.Sprintf("%q", strconv.Itoa(e.iv)) // a numeric string names the key like the number
			} else {
				x, d = e.iv, fmt.Sprint(e.iv)
			}
		}
		out.Elems = append(out.Elems, x)
		descs = append(descs, d)
		switch {
		case e.isNull():
			p.Null = true
		case e.kind == "foreign":
		case isStr:
			p.Strs = append(p.Strs, e.sv)
		default:
			p.Vals = append(p.Vals, e.iv)
		}
	}
	out.Pred = p
	// the container
	tname := "[]interface {}"
	switch class {
	case "iface":
		out.Val = out.Elems
	case "strs":
		ss := make([]string, n)
		for i, x := range out.Elems {
			ss[i] = x.(string)
		}
		out.Val, tname = ss, "[]string"
	case "ptrs":
		if isStr {
			ps := make([]*string, n)
			for i, x := range out.Elems {
				ps[i] = x.(*string)
			}
			out.Val, tname = ps, "[]*string"
		} else {
			ps := make([]*int, n)
			for i, x := range out.Elems {
				ps[i] = x.(*int)
			}
			out.Val, tname = ps, "[]*int"
		}
	case "nulls":
		if isStr {
			ps := make([]sql.NullString, n)
			for i, x := range out.Elems {
				ps[i] = x.(sql.NullString)
			}
			out.Val, tname = ps, "[]sql.NullString"
		} else {
			ps := make([]sql.NullInt64, n)
			for i, x := range out.Elems {
				ps[i] = x.(sql.NullInt64)
			}
			out.Val, tname = ps, "[]sql.NullInt64"
		}
	default: // plain
		if isStr {
			ss := make([]string, n)
			for i, x := range out.Elems {
				ss[i] = x.(string)
			}
			out.Val, tname = ss, "[]string"
			break
		}
		ints := make([]int, n)
		for i, x := range out.Elems {
			ints[i] = x.(int)
		}
		k := rng.Intn(6)
		if place != "map" && place != "raw" && k >= 4 {
			k = rng.Intn(4)
		}
		switch k {
		case 0:
			out.Val, tname = ints, "[]int"
		case 1:
			v := make([]int64, n)
			for i, x := range ints {
				v[i] = int64(x)
			}
			out.Val, tname = v, "[]int64"
		case 2:
			v := make([]uint, n)
			for i, x := range ints {
				v[i] = uint(x)
			}
			out.Val, tname = v, "[]uint"
		case 3:
			v := make([]int32, n)
			for i, x := range ints {
				v[i] = int32(x)
			}
			out.Val, tname = v, "[]int32"
			if place == "pk" {
				out.Val, tname = ints, "[]int"
			}
		case 4:
			// an array (map values and raw arguments go through reflect: Array is handled like Slice)
			arr := reflect.New(reflect.ArrayOf(n, reflect.TypeOf(0))).Elem()
			for i, x := range ints {
				arr.Index(i).SetInt(int64(x))
			}
			out.Val, tname = arr.Interface(), fmt.Sprintf("[%d]int", n)
		default:
			// a pointer to a slice
			cp := append([]int{}, ints...)
			if place == "map" {
				out.Val, tname = &cp, "&[]int"
			} else {
				out.Val, tname = cp, "[]int"
			}
		}
	}
	out.Desc = tname + "{" + strings.Join(descs, ", ") + "}"
	return out
}

// genNilish: the scalar map / ("col", v) values that mean IS NULL besides the untyped nil
func genNilish(rng *rand.Rand, col string) (interface{}, string) {
	isStr := col == "s"
	switch rng.Intn(3) {
	case 0:
		if isStr {
			return (*string)(nil), "(*string)(nil)"
		}
		return (*int)(nil), "(*int)(nil)"
	case 1:
		if isStr {
			return sql.NullString{}, "sql.NullString{}"
		}
		return sql.NullInt64{}, "sql.NullInt64{}"
	}
	return nil, "nil"
}

// ---------------------------------------------------------------------------------------------
// map.cond: the map branch of Statement.BuildCondition vs the Lean transcription

type c02MapCase struct {
	Entries []string `json:"map"`
}

func exprShape(e clause.Expression) interface{} {
	isNull := func(v interface{}) bool {
		if v == nil {
			return true
		}
		rv := reflect.ValueOf(v)
		if rv.Kind() == reflect.Ptr && rv.IsNil() {
			return true
		}
		switch x := v.(type) {
		case sql.NullInt64:
			return !x.Valid
		case sql.NullString:
			return !x.Valid
		}
		return false
	}
	colOf := func(c interface{}) string { return fmt.Sprint(c) }
	switch v := e.(type) {
	case clause.IN:
		nulls := 0
		for _, x := range v.Values {
			if isNull(x) {
				nulls++
			}
		}
		return []interface{}{"in", colOf(v.Column), len(v.Values), nulls}
	case clause.Eq:
		if isNull(v.Value) {
			return []interface{}{"eq-null", colOf(v.Column)}
		}
		return []interface{}{"eq", colOf(v.Column)}
	case clause.AndConditions:
		out := []interface{}{"and"}
		for _, x := range v.Exprs {
			out = append(out, exprShape(x))
		}
		return out
	case clause.OrConditions:
		out := []interface{}{"or"}
		for _, x := range v.Exprs {
			out = append(out, exprShape(x))
		}
		return out
	}
	return []interface{}{fmt.Sprintf("%T", e)}
}

func c02MapCond(r *Result, rng *rand.Rand, n int) {
	db := dummyDB()
	type item struct {
		c    c02MapCase
		real string
	}
	var items []item
	var ops [][]interface{}
	for i := 0; i < n; i++ {
		m := map[string]interface{}{}
		cols := []string{"a", "b", "s"}
		rng.Shuffle(len(cols), func(i, j int) { cols[i], cols[j] = cols[j], cols[i] })
		cols = cols[:1+rng.Intn(3)]
		sort.Strings(cols)
		var entries []interface{}
		var c c02MapCase
		for _, col := range cols {
			switch rng.Intn(5) {
			case 0:
				v, d := genNilish(rng, col)
				m[col] = v
				entries = append(entries, []interface{}{col, "nil"})
				c.Entries = append(c.Entries, col+": "+d)
			case 1, 2, 3:
				l := genInList(rng, col, "map")
				if rng.Intn(12) == 0 {
					l = wInList{Val: []int{}, Desc: "[]int{}"}
				}
				m[col] = l.Val
				el := []interface{}{}
				for _, x := range l.Elems {
					el = append(el, x == nil || reflect.ValueOf(x).Kind() == reflect.Ptr && reflect.ValueOf(x).IsNil() ||
						x == interface{}(sql.NullInt64{}) || x == interface{}(sql.NullString{}))
				}
				entries = append(entries, []interface{}{col, "slice", el})
				c.Entries = append(c.Entries, col+": "+l.Desc)
				r.H("map.cond.slice", fmt.Sprintf("n=%d null=%v", l.N, l.Pred.Null))
			default:
				m[col] = 1
				entries = append(entries, []interface{}{col, "scalar"})
				c.Entries = append(c.Entries, col+": 1")
			}
		}
		stmt := &gorm.Statement{DB: db, Table: "t", Clauses: map[string]clause.Clause{}}
		conds := stmt.BuildCondition(m)
		var shape []interface{}
		for _, e := range conds {
			// BuildCondition wraps its conditions in one clause.And(...): a single condition comes back bare
			if a, ok := e.(clause.AndConditions); ok {
				for _, x := range a.Exprs {
					shape = append(shape, exprShape(x))
				}
			} else {
				shape = append(shape, exprShape(e))
			}
		}
		items = append(items, item{c, canon(shape)})
		ops = append(ops, []interface{}{"map.cond", entries})
		r.Case("map.cond", canon(shape), len(cols) > 1)
	}
	res, err := AskLean(ops)
	if err != nil {
		r.Violate(Violation{Kind: "correspondence", Suite: "map.cond", Note: err.Error()})
		return
	}
	for i, it := range items {
		r.CorrCompared++
		if got := canonRaw(res[i]); got != it.real {
			r.Violate(Violation{Kind: "correspondence", Suite: "map.cond", Input: it.c, Observed: it.real, Expected: got,
				Note: "expressions built by Statement.BuildCondition for a map differ from Lean mapConds (one comparison per key; a slice value is ONE IN over all its elements)"})
		}
	}
}

// ---------------------------------------------------------------------------------------------
// in.sem: the reference reading of `x IN (…)` with NULLs — SQLite vs Lean inListVal vs the oracle's Go evaluator

func c02InSem(r *Result, rng *rand.Rand, n int) {
	_, _, sqlDB := OpenRec(nil)
	defer sqlDB.Close()
	var ops [][]interface{}
	type item struct {
		x     *int
		es    []*int
		sqlV  string
		goV   string
		input string
	}
	var items []item
	for i := 0; i < n; i++ {
		var x *int
		if rng.Intn(4) > 0 {
			v := rng.Intn(4)
			x = &v
		}
		m := 1 + rng.Intn(4)
		es := make([]*int, m)
		args := []interface{}{nil}
		if x != nil {
			args[0] = *x
		}
		p := wPred{Col: "a", Op: "in"}
		var ej []interface{}
		for j := range es {
			if rng.Intn(4) == 0 {
				p.Null = true
				args = append(args, nil)
				ej = append(ej, nil)
				continue
			}
			v := rng.Intn(4)
			es[j] = &v
			p.Vals = append(p.Vals, v)
			args = append(args, v)
			ej = append(ej, v)
		}
		neg := rng.Intn(2) == 0
		q := "SELECT ? IN (" + strings.TrimSuffix(strings.Repeat("?,", m), ",") + ")"
		if neg {
			q = "SELECT ? NOT IN (" + strings.TrimSuffix(strings.Repeat("?,", m), ",") + ")"
		}
		var out sql.NullInt64
		if err := sqlDB.QueryRow(q, args...).Scan(&out); err != nil {
			r.Violate(Violation{Kind: "correspondence", Suite: "in.sem", Input: q, Note: err.Error()})
			return
		}
		sv := "u"
		if out.Valid && out.Int64 == 1 {
			sv = "t"
		} else if out.Valid {
			sv = "f"
		}
		gv := p.eval(wRow{ID: 1, A: x})
		if neg {
			gv = not3(gv)
		}
		var xj interface{}
		if x != nil {
			xj = *x
		}
		ops = append(ops, []interface{}{"in.sem", xj, ej, neg})
		items = append(items, item{x, es, sv, gv.String(), fmt.Sprint(q, args)})
		r.H("in.sem", fmt.Sprintf("neg=%v xnull=%v listnull=%v -> %s", neg, x == nil, p.Null, sv))
	}
	res, err := AskLean(ops)
	if err != nil {
		r.Violate(Violation{Kind: "correspondence", Suite: "in.sem", Note: err.Error()})
		return
	}
	for i, it := range items {
		var lv string
		_ = json.Unmarshal(res[i], &lv)
		r.CorrCompared++
		if lv != it.sqlV || it.goV != it.sqlV {
			r.Violate(Violation{Kind: "correspondence", Suite: "in.sem", Input: it.input,
				Observed: map[string]string{"sqlite": it.sqlV, "go-oracle": it.goV}, Expected: lv,
				Note: "three-valued reading of IN / NOT IN with NULL elements: SQLite, Lean inListVal and the oracle's evaluator must agree"})
		}
	}
}

func init() {
	register("C02", func(r *Result, rng *rand.Rand, tier string) {
		n := map[string]int{"quick": 1500, "thorough": 20000, "search": 4000}[tier]
		c02MapCond(r, rng, n)
		c02InSem(r, rng, n/3)
	})
}
